/*
 * os_model.c -- adversarial model of the POSIX interface used by /repo/driver.c.  See os_model.h.
 * Plain deterministic C: every choice of the environment is read from osm_tape (filled by the unit from IN()
 * scalars), so the same file is linked into the CBMC run and into the native replay.
 */
#define OS_MODEL_IMPL
#include <errno.h>
#include <signal.h>
#include <string.h>
#include <stdlib.h>
#include <stdio.h>
#include <sys/wait.h>
#include <fcntl.h>
#include "verif.h"
#include "os_model.h"

struct osm_tape osm_tape;
struct osm_state osm;

/* tape[k] without a symbolic index */
static int
tape(const int *t, int n, int k)
{
	int i, v = 0;

	for (i = 0; i < n; ++i) {
		if (i == k)
			v = t[i];
	}
	return v;
}

static int
tapeb(const unsigned char *t, int n, int k)
{
	int i, v = 0;

	for (i = 0; i < n; ++i) {
		if (i == k)
			v = t[i];
	}
	return v;
}

void
osm_reset(void)
{
	int i;

	memset(&osm, 0, sizeof osm);
	osm.unknown_left = osm_tape.nunknown;
	osm.fa_in = osm.fa_out = -1;
	for (i = 0; i < OSM_MAXFD; ++i)
		osm.fd[i].pipe = -1;
}

/* a status word as Linux/glibc (and every historical Unix) encodes it: low 7 bits = terminating signal (0 =
   exited, 0x7f = stopped, never reported by plain wait), bit 7 = core flag, bits 8..15 = exit code */
int
osm_status_valid(int s)
{
	int sig = s & 0x7f;

	if (s & ~0xffff)
		return 0;
	if (sig == 0)
		return (s & 0x80) == 0;                /* exited with code (s >> 8) & 0xff */
	return sig != 0x7f && (s & 0xff00) == 0;       /* killed by signal 1..126, core flag free */
}

int
osm_status_ok(int s)
{
	return s == 0;
}

int
osm_nlive(void)
{
	int i, n = 0;

	for (i = 0; i < OSM_MAXCHILD; ++i) {
		if (i < osm.nchild && !osm.child[i].reaped)
			++n;
	}
	return n;
}

int
osm_was_unlinked(const char *path)
{
	int i;

	for (i = 0; i < OSM_MAXUNLINK; ++i) {
		if (i < osm.nunlink && osm.unlinked[i] == path)
			return 1;
	}
	return 0;
}

int
osm_tmp_left(void)
{
	int i, n = 0;

	for (i = 0; i < OSM_MAXTMP; ++i) {
		if (i < osm.ntmp && !osm.tmp_unlinked[i])
			++n;
	}
	return n;
}

static unsigned
livemask(void)
{
	unsigned m = 0;
	int i;

	for (i = 0; i < OSM_MAXCHILD; ++i) {
		if (i < osm.nchild && !osm.child[i].reaped)
			m |= 1u << i;
	}
	return m;
}

static void
failure(void)
{
	if (osm.nfail == 0)
		osm.term_due = livemask();
	++osm.nfail;
}

int
osm_term_missing(void)
{
	int i, n = 0;

	for (i = 0; i < OSM_MAXCHILD; ++i) {
		if ((osm.term_due >> i & 1) && osm.child[i].nterm == 0)
			++n;
	}
	return n;
}

int
osm_write_ends_open(void)
{
	int i, n = 0;

	for (i = 0; i < OSM_MAXFD; ++i) {
		if (osm.fd[i].kind == OSM_FD_PIPE_W)
			++n;
	}
	return n;
}

struct osm_child *
osm_child_of(pid_t *pidp)
{
	struct osm_child *c = 0;
	int i;

	for (i = 0; i < OSM_MAXCHILD; ++i) {
		if (i < osm.nchild && osm.child[i].pidp == pidp)
			c = &osm.child[i];
	}
	return c;
}

/* The tables are always indexed by a loop counter under an equality guard, never by a symbolic value: CBMC then
   builds field-wise multiplexers instead of array-theory constraints (the latter cost minutes on this model). */
#define FOR_SLOT(i, n, idx) for (i = 0; i < (n); ++i) if (i == (idx))

static int
newchild(pid_t *pidp)
{
	int i, k = osm.nchild;

	__CPROVER_assert(k < OSM_MAXCHILD, "os model: child table large enough for the harness");
	FOR_SLOT(i, OSM_MAXCHILD, k) {
		osm.child[i].pid = osm_tape.pidbase + i;
		osm.child[i].pidp = pidp;
		osm.child[i].argv = 0;
		osm.child[i].argc = 0;
		osm.child[i].file = 0;
		osm.child[i].in_fd = osm.child[i].out_fd = osm.child[i].in_pipe = osm.child[i].out_pipe = -1;
		osm.child[i].leaked = 0;
		osm.child[i].reaped = 0;
		osm.child[i].status = 0;
		osm.child[i].nterm = 0;
	}
	++osm.nchild;
	return k;
}

pid_t
osm_pretend_child(pid_t *pidp)
{
	int k = newchild(pidp);

	*pidp = osm_tape.pidbase + k;
	return *pidp;
}

char *
osm_pretend_tmp(char *path)
{
	int i;

	__CPROVER_assert(osm.ntmp < OSM_MAXTMP, "os model: temporary table large enough for the harness");
	FOR_SLOT(i, OSM_MAXTMP, osm.ntmp) {
		osm.tmp[i] = path;
		osm.tmp_unlinked[i] = 0;
	}
	++osm.ntmp;
	return path;
}

/* pipe id behind an open descriptor, -1 if none / not open */
static int
pipe_of(int fd)
{
	int i, p = -1;

	FOR_SLOT(i, OSM_MAXFD, fd - OSM_FD0) {
		if (osm.fd[i].kind != OSM_FD_FREE)
			p = osm.fd[i].pipe;
	}
	return p;
}

static int
newfd(int kind, int pipeid)
{
	int i, k = -1;

	for (i = OSM_MAXFD - 1; i >= 0; --i) {
		if (osm.fd[i].kind == OSM_FD_FREE)
			k = i;                          /* lowest free number, as POSIX requires */
	}
	__CPROVER_assert(k >= 0, "os model: descriptor table large enough for the harness");
	FOR_SLOT(i, OSM_MAXFD, k) {
		osm.fd[i].kind = kind;
		osm.fd[i].cloexec = 0;
		osm.fd[i].pipe = pipeid;
	}
	++osm.nopen;
	return k + OSM_FD0;
}

/* ------------------------------------------------------------------------------------------ processes */

int
osm_posix_spawnp(pid_t *pid, const char *file, const posix_spawn_file_actions_t *fa, const posix_spawnattr_t *attr,
                 char *const argv[], char *const envp[])
{
	int k, n, i, j, leaked = 0, inp, outp;

	(void)attr; (void)envp;
	__CPROVER_assert(file != 0 && argv != 0, "posix_spawnp: file and argv are non-null");
	/* exec reads argv up to the terminating NULL */
	for (n = 0; n < OSM_MAXARGV && argv[n]; ++n)
		;
	__CPROVER_assert(n < OSM_MAXARGV, "os model: argv shorter than OSM_MAXARGV");
	__CPROVER_assert(fa == 0 || (osm.fa_live && !osm.fa_destroyed), "posix_spawnp: file actions object is initialised");

	k = osm.nspawn++;
	__CPROVER_assert(k < OSM_MAXCHILD, "os model: spawn tape large enough for the harness");
	if (tape(osm_tape.spawn_err, OSM_MAXCHILD, k) != 0) {
		failure();
		++osm.nspawnfail;
		return tape(osm_tape.spawn_err, OSM_MAXCHILD, k);           /* no child; *pid is left alone (glibc, musl) */
	}
	/* descriptors that are open and not close-on-exec are inherited under their own number */
	for (i = 0; i < OSM_MAXFD; ++i) {
		if (osm.fd[i].kind != OSM_FD_FREE && !osm.fd[i].cloexec)
			++leaked;
	}
	inp = fa ? pipe_of(osm.fa_in) : -1;
	outp = fa ? pipe_of(osm.fa_out) : -1;
	j = newchild(pid);
	FOR_SLOT(i, OSM_MAXCHILD, j) {
		osm.child[i].argv = (char **)argv;
		osm.child[i].argc = n;
		osm.child[i].file = file;
		if (fa) {
			osm.child[i].in_fd = osm.fa_in;
			osm.child[i].out_fd = osm.fa_out;
			osm.child[i].in_pipe = inp;
			osm.child[i].out_pipe = outp;
		}
		osm.child[i].leaked = leaked;
	}
	if (pid)
		*pid = osm_tape.pidbase + j;
	return 0;
}

int
osm_fa_init(posix_spawn_file_actions_t *a)
{
	int k = osm.nfainit++;

	(void)a;
	__CPROVER_assert(k < OSM_MAXCHILD, "os model: file-actions tape large enough for the harness");
	if (tape(osm_tape.fa_init_err, OSM_MAXCHILD, k))
		return tape(osm_tape.fa_init_err, OSM_MAXCHILD, k);
	if (osm.fa_live && !osm.fa_destroyed)
		++osm.fa_bad;                           /* previous object never destroyed: leak */
	osm.fa_live = 1;
	osm.fa_destroyed = 0;
	osm.fa_in = osm.fa_out = -1;
	return 0;
}

int
osm_fa_destroy(posix_spawn_file_actions_t *a)
{
	(void)a;
	if (!osm.fa_live || osm.fa_destroyed)
		++osm.fa_bad;                           /* destroy of an uninitialised / already destroyed object */
	osm.fa_destroyed = 1;
	return 0;
}

int
osm_fa_adddup2(posix_spawn_file_actions_t *a, int fd, int newfd_)
{
	int k = osm.nfainit - 1;

	(void)a;
	++osm.nfadup2;
	if (!osm.fa_live || osm.fa_destroyed || k < 0 || (newfd_ != 0 && newfd_ != 1)) {
		++osm.fa_bad;
		return EBADF;
	}
	if (newfd_ == 0 && tape(osm_tape.fa_dup2_in_err, OSM_MAXCHILD, k))
		return tape(osm_tape.fa_dup2_in_err, OSM_MAXCHILD, k);
	if (newfd_ == 1 && tape(osm_tape.fa_dup2_out_err, OSM_MAXCHILD, k))
		return tape(osm_tape.fa_dup2_out_err, OSM_MAXCHILD, k);
	if (newfd_ == 0)
		osm.fa_in = fd;
	else if (newfd_ == 1)
		osm.fa_out = fd;
	return 0;
}

static pid_t
report(struct osm_child *c, int *status, int k)
{
	c->reaped = 1;
	c->status = tape(osm_tape.wait_status, OSM_MAXWAIT, k);
	if (!osm_status_ok(c->status))
		failure();
	if (status)
		*status = c->status;
	return c->pid;
}

pid_t
osm_wait(int *status)
{
	int k, i, n, want, seen;

	k = osm.nwait++;
	__CPROVER_assert(k < OSM_MAXWAIT, "os model: wait tape large enough for the harness");
	n = osm_nlive();
	if (osm.unknown_left > 0 && (tapeb(osm_tape.wait_unknown, OSM_MAXWAIT, k) || n == 0)) {
		/* a child that the driver did not start (inherited from the program that exec'ed it) */
		--osm.unknown_left;
		if (status)
			*status = tape(osm_tape.wait_status, OSM_MAXWAIT, k);
		return osm_tape.pidbase + OSM_MAXCHILD + osm.unknown_left;
	}
	if (n == 0) {
		errno = ECHILD;
		return -1;
	}
	want = tapeb(osm_tape.wait_pick, OSM_MAXWAIT, k) % n;
	seen = 0;
	for (i = 0; i < OSM_MAXCHILD; ++i) {
		if (i < osm.nchild && !osm.child[i].reaped) {
			if (seen == want)
				return report(&osm.child[i], status, k);
			++seen;
		}
	}
	__CPROVER_assert(0, "os model: unreachable");
	return -1;
}

pid_t
osm_waitpid(pid_t pid, int *status, int options)
{
	int k, i;

	if (pid == -1 && options == 0)
		return osm_wait(status);
	__CPROVER_assert(options == 0, "os model: waitpid options == 0");
	k = osm.nwait++;
	__CPROVER_assert(k < OSM_MAXWAIT, "os model: wait tape large enough for the harness");
	for (i = 0; i < OSM_MAXCHILD; ++i) {
		if (i < osm.nchild && !osm.child[i].reaped && osm.child[i].pid == pid)
			return report(&osm.child[i], status, k);
	}
	errno = ECHILD;
	return -1;
}

int
osm_kill(pid_t pid, int sig)
{
	int i;

	++osm.nkill;
	for (i = 0; i < OSM_MAXCHILD; ++i) {
		if (i < osm.nchild && !osm.child[i].reaped && osm.child[i].pid == pid) {
			if (sig == SIGTERM)
				++osm.child[i].nterm;
			else
				++osm.badkill;
			return 0;
		}
	}
	/* pid 0 / -1 / a reaped (possibly recycled) pid / a process that is not ours */
	++osm.badkill;
	errno = ESRCH;
	return -1;
}

/* ------------------------------------------------------------------------------------------ files */

int
osm_pipe(int fd[2])
{
	int k = osm.npipe++;

	__CPROVER_assert(k < OSM_MAXCHILD, "os model: pipe tape large enough for the harness");
	if (tape(osm_tape.pipe_err, OSM_MAXCHILD, k)) {
		errno = tape(osm_tape.pipe_err, OSM_MAXCHILD, k);
		return -1;
	}
	fd[0] = newfd(OSM_FD_PIPE_R, k);
	fd[1] = newfd(OSM_FD_PIPE_W, k);
	return 0;
}

int
osm_fcntl3(int fd, int cmd, int arg)
{
	int k = osm.nfcntl++, i, found = 0;

	__CPROVER_assert(k < 2 * OSM_MAXCHILD, "os model: fcntl tape large enough for the harness");
	__CPROVER_assert(cmd == F_SETFD, "os model: only fcntl(F_SETFD) is modelled");
	FOR_SLOT(i, OSM_MAXFD, fd - OSM_FD0) {
		if (osm.fd[i].kind != OSM_FD_FREE)
			found = 1;
	}
	if (!found) {
		errno = EBADF;
		return -1;
	}
	if (tape(osm_tape.fcntl_err, 2 * OSM_MAXCHILD, k)) {
		errno = tape(osm_tape.fcntl_err, 2 * OSM_MAXCHILD, k);
		return -1;
	}
	FOR_SLOT(i, OSM_MAXFD, fd - OSM_FD0)
		osm.fd[i].cloexec = (arg & FD_CLOEXEC) != 0;
	return 0;
}

int
osm_close(int fd)
{
	int i, found = 0;

	FOR_SLOT(i, OSM_MAXFD, fd - OSM_FD0) {
		if (osm.fd[i].kind != OSM_FD_FREE) {
			found = 1;
			osm.fd[i].kind = OSM_FD_FREE;
			osm.fd[i].pipe = -1;
		}
	}
	if (!found) {
		++osm.badclose;                         /* double close or close of a descriptor we never opened */
		errno = EBADF;
		return -1;
	}
	--osm.nopen;
	return 0;
}

int
osm_mkstemp(char *tmpl)
{
	size_t n;

	__CPROVER_assert(tmpl != 0, "mkstemp: template non-null");
	n = strlen(tmpl);
	__CPROVER_assert(n >= 6 && tmpl[n - 6] == 'X' && tmpl[n - 5] == 'X' && tmpl[n - 4] == 'X' && tmpl[n - 3] == 'X' &&
	                 tmpl[n - 2] == 'X' && tmpl[n - 1] == 'X', "mkstemp: template ends in XXXXXX");
	if (osm_tape.mkstemp_err) {
		errno = osm_tape.mkstemp_err;
		return -1;
	}
	tmpl[n - 6] = 'a'; tmpl[n - 1] = 'z';           /* the template is modified in place */
	osm_pretend_tmp(tmpl);
	return newfd(OSM_FD_FILE, -1);
}

int
osm_unlink(const char *path)
{
	int i;

	__CPROVER_assert(path != 0, "unlink: path non-null");
	__CPROVER_assert(osm.nunlink < OSM_MAXUNLINK, "os model: unlink log large enough for the harness");
	FOR_SLOT(i, OSM_MAXUNLINK, osm.nunlink)
		osm.unlinked[i] = path;
	++osm.nunlink;
	for (i = 0; i < OSM_MAXTMP; ++i) {
		if (i < osm.ntmp && osm.tmp[i] == path)
			osm.tmp_unlinked[i] = 1;
	}
	return 0;
}

/* ------------------------------------------------------------------------------------------ leaving */

void
osm_exit(int status)
{
	osm.exited = 1;
	osm.exit_status = status;
	osm_at_exit(status);
#ifdef VERIF_REPLAY
	fprintf(stderr, "replay: real code called exit(%d) and every exit-time clause held\n", status);
	fflush(0);
	_Exit(0);
#else
	__CPROVER_assume(0);
#endif
}

void
osm_fatal(void)
{
	osm_exit(1);                                    /* util.c: fatal() prints and calls exit(1) */
}

void
osm_warn(void)
{
}
