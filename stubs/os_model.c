/*
 * os_model.c -- adversarial model of the POSIX interface used by /repo/driver.c.  See os_model.h.
 * Plain deterministic C: every choice of the environment is read from osm_tape (filled by the unit from IN()
 * scalars), so the same file is linked into the CBMC run and into the native replay.
 */
#define OS_MODEL_IMPL
#include <errno.h>
#include <signal.h>
#include <string.h>
#include <stdlib.h>
#include <stdio.h>
#include <sys/wait.h>
#include <fcntl.h>
#include "verif.h"
#include "os_model.h"

struct osm_tape osm_tape;
struct osm_state osm;

/* Tables are written under "loop counter == index" guards, never through a possibly symbolic index: CBMC then builds
   field-wise multiplexers instead of array-theory constraints (which cost minutes and gigabytes on this model). */
#define FOR_SLOT(i, n, idx) for (i = 0; i < (n); ++i) if (i == (idx))
#define BIT(a) (1u << (a))
#define ALLCHILD (BIT(OSM_MAXCHILD) - 1u)
#define PIPEFDS  (BIT(2 * OSM_MAXCHILD) - 1u)
#define WRITE_ENDS (0xaaaaaaaau & PIPEFDS)

/* population counts as expressions: the functions below are called from contract clauses, where DFCC does not
   instrument nested calls consistently */
#define B(m, i) ((m) >> (i) & 1u)
#define POP8(m)  ((int)(B(m,0) + B(m,1) + B(m,2) + B(m,3) + B(m,4) + B(m,5) + B(m,6) + B(m,7)))
#define POP32(m) (POP8(m) + POP8((m) >> 8) + POP8((m) >> 16) + POP8((m) >> 24))

void
osm_reset(void)
{
	memset(&osm, 0, sizeof osm);
	osm.unknown_left = osm_tape.nunknown;
	osm.fa_in = osm.fa_out = -1;
}

/* a status word as Linux/glibc (and every historical Unix) encodes it: low 7 bits = terminating signal (0 =
   exited, 0x7f = stopped, never reported by plain wait), bit 7 = core flag, bits 8..15 = exit code */
int
osm_status_valid(int s)
{
	int sig = s & 0x7f;

	if (s & ~0xffff)
		return 0;
	if (sig == 0)
		return (s & 0x80) == 0;                /* exited with code (s >> 8) & 0xff */
	return sig != 0x7f && (s & 0xff00) == 0;       /* killed by signal 1..126, core flag free */
}

int
osm_status_ok(int s)
{
	return s == 0;
}

unsigned
osm_livemask(void)
{
	return osm.spawned & ~osm.reaped;
}

int
osm_nlive(void)
{
	unsigned m = osm.spawned & ~osm.reaped;

	return POP8(m);
}

int
osm_nchild(void)
{
	return POP8(osm.spawned);
}

int
osm_term_missing(void)
{
	unsigned m = osm.term_due & ~osm.termed;

	return POP8(m);
}

int
osm_write_ends_open(void)
{
	unsigned m = osm.fd_open & WRITE_ENDS;

	return POP32(m);
}

int
osm_nopen(void)
{
	return POP32(osm.fd_open);
}

int
osm_was_unlinked(const char *path)
{
	int i;

	for (i = 0; i < OSM_MAXUNLINK; ++i) {
		if (i < osm.nunlink && osm.unlinked[i] == path)
			return 1;
	}
	return 0;
}

int
osm_tmp_left(void)
{
	return osm.ntmp - POP8(osm.tmp_unlinked);
}

/* the driver learns of a failure: the stages still running from now on have to be terminated */
static void
failure(void)
{
	if (osm.nfail == 0)
		osm.term_due = osm_livemask();
	++osm.nfail;
}

static int
newattempt(void)
{
	int a = osm.nattempt++;

	__CPROVER_assert(a < OSM_MAXCHILD, "os model: attempt tables large enough for the harness");
	osm.cur = a;
	osm.nfcntl_cur = 0;
	return a;
}

static void
newchild(int a, pid_t *pidp, char **argv, int argc, const char *file, int in_fd, int out_fd, int in_pipe, int out_pipe, int leaked)
{
	int i;

	__CPROVER_assert(!(osm.spawned >> a & 1), "os model: one child per spawn attempt");
	FOR_SLOT(i, OSM_MAXCHILD, a) {
		osm.child[i].pidp = pidp;
		osm.child[i].argv = argv;
		osm.child[i].argc = argc;
		osm.child[i].file = file;
		osm.child[i].in_fd = in_fd;
		osm.child[i].out_fd = out_fd;
		osm.child[i].in_pipe = in_pipe;
		osm.child[i].out_pipe = out_pipe;
		osm.child[i].leaked = leaked;
		osm.child[i].status = 0;
	}
	osm.spawned |= BIT(a);
}

pid_t
osm_pretend_child(pid_t *pidp)
{
	int a = newattempt();

	newchild(a, pidp, 0, 0, 0, -1, -1, -1, -1, 0);
	*pidp = osm_tape.pidbase + a;
	return *pidp;
}

char *
osm_pretend_tmp(char *path)
{
	int i;

	__CPROVER_assert(osm.ntmp < OSM_MAXTMP, "os model: temporary table large enough for the harness");
	FOR_SLOT(i, OSM_MAXTMP, osm.ntmp)
		osm.tmp[i] = path;
	++osm.ntmp;
	return path;
}

/* index of an open descriptor in the masks, -1 if fd is not one the model handed out and still open */
static int
fdbit(int fd)
{
	int i = fd - OSM_FD0;

	if (i < 0 || i >= OSM_NFD || !(osm.fd_open >> i & 1))
		return -1;
	return i;
}

/* ------------------------------------------------------------------------------------------ processes */

int
osm_posix_spawnp(pid_t *pid, const char *file, const posix_spawn_file_actions_t *fa, const posix_spawnattr_t *attr,
                 char *const argv[], char *const envp[])
{
	int a, n, b, inp = -1, outp = -1, leaked;
	unsigned inherit;

	(void)attr; (void)envp;
	__CPROVER_assert(file != 0 && argv != 0, "posix_spawnp: file and argv are non-null");
	/* exec reads argv up to the terminating NULL */
	for (n = 0; n < OSM_MAXARGV && argv[n]; ++n)
		;
	__CPROVER_assert(n < OSM_MAXARGV, "os model: argv shorter than OSM_MAXARGV");
	__CPROVER_assert(fa == 0 || (osm.fa_live && !osm.fa_destroyed), "posix_spawnp: file actions object is initialised");

	++osm.nspawn;
	a = fa ? osm.cur : newattempt();
	if (osm_tape.spawn_err[a] != 0) {
		failure();
		++osm.nspawnfail;
		return osm_tape.spawn_err[a];           /* no child; *pid is left alone (glibc, musl) */
	}
	if (fa) {
		/* stdin must be the READ end of a pipe, stdout a WRITE end, to count as a pipeline connection */
		b = fdbit(osm.fa_in);
		if (b >= 0 && b < 2 * OSM_MAXCHILD && (b & 1) == 0)
			inp = b / 2;
		b = fdbit(osm.fa_out);
		if (b >= 0 && b < 2 * OSM_MAXCHILD && (b & 1) == 1)
			outp = b / 2;
	}
	/* descriptors that are open and not close-on-exec are inherited under their own number */
	inherit = osm.fd_open & ~osm.fd_cloexec;
	leaked = POP32(inherit);
	newchild(a, pid, (char **)argv, n, file, fa ? osm.fa_in : -1, fa ? osm.fa_out : -1, inp, outp,
	         leaked);
	if (pid)
		*pid = osm_tape.pidbase + a;
	return 0;
}

int
osm_fa_init(posix_spawn_file_actions_t *fa)
{
	int a = newattempt();

	(void)fa;
	if (osm_tape.fa_init_err[a]) {
		failure();
		return osm_tape.fa_init_err[a];
	}
	if (osm.fa_live && !osm.fa_destroyed)
		++osm.fa_bad;                           /* previous object never destroyed: leak */
	osm.fa_live = 1;
	osm.fa_destroyed = 0;
	osm.fa_in = osm.fa_out = -1;
	return 0;
}

int
osm_fa_destroy(posix_spawn_file_actions_t *fa)
{
	(void)fa;
	if (!osm.fa_live || osm.fa_destroyed)
		++osm.fa_bad;                           /* destroy of an uninitialised / already destroyed object */
	osm.fa_destroyed = 1;
	return 0;
}

int
osm_fa_adddup2(posix_spawn_file_actions_t *fa, int fd, int newfd)
{
	int a = osm.cur;

	(void)fa;
	if (!osm.fa_live || osm.fa_destroyed || (newfd != 0 && newfd != 1)) {
		++osm.fa_bad;
		return EBADF;
	}
	if (newfd == 0 && osm_tape.fa_dup2_in_err[a]) {
		failure();
		return osm_tape.fa_dup2_in_err[a];
	}
	if (newfd == 1 && osm_tape.fa_dup2_out_err[a]) {
		failure();
		return osm_tape.fa_dup2_out_err[a];
	}
	if (newfd == 0)
		osm.fa_in = fd;
	else
		osm.fa_out = fd;
	return 0;
}

static pid_t
report(int a, int *status, int k)
{
	int i, s = osm_tape.wait_status[k];

	osm.reaped |= BIT(a);
	FOR_SLOT(i, OSM_MAXCHILD, a)
		osm.child[i].status = s;
	if (!osm_status_ok(s))
		failure();
	if (status)
		*status = s;
	return osm_tape.pidbase + a;
}

pid_t
osm_wait(int *status)
{
	unsigned live = osm_livemask();
	int k, i, a;

	k = osm.nwait++;
	__CPROVER_assert(k < OSM_MAXWAIT, "os model: wait tape large enough for the harness");
	/* a driver that goes back to wait() without terminating the remaining stages can block for ever behind a
	   writer whose reader is gone */
	if (osm.term_due & ~osm.termed & live)
		++osm.late_term;
	if (osm.unknown_left > 0 && (osm_tape.wait_unknown[k] || live == 0)) {
		/* a child that the driver did not start (inherited from the program that exec'ed it) */
		--osm.unknown_left;
		if (status)
			*status = osm_tape.wait_status[k];
		return osm_tape.pidbase + OSM_MAXCHILD + osm.unknown_left;
	}
	if (live == 0) {
		errno = ECHILD;
		return -1;
	}
	a = osm_tape.wait_pick[k];
	if (a >= OSM_MAXCHILD || !(live >> a & 1)) {
		/* any other tape value: the oldest live child (every live child stays selectable by its number) */
		for (i = OSM_MAXCHILD - 1; i >= 0; --i) {
			if (live >> i & 1)
				a = i;
		}
	}
	return report(a, status, k);
}

pid_t
osm_waitpid(pid_t pid, int *status, int options)
{
	int k, a;

	if (pid == -1 && options == 0)
		return osm_wait(status);
	__CPROVER_assert(options == 0, "os model: waitpid options == 0");
	k = osm.nwait++;
	__CPROVER_assert(k < OSM_MAXWAIT, "os model: wait tape large enough for the harness");
	a = pid >= osm_tape.pidbase ? pid - osm_tape.pidbase : OSM_MAXCHILD;
	if (a >= OSM_MAXCHILD || !(osm_livemask() >> a & 1)) {
		errno = ECHILD;
		return -1;
	}
	return report(a, status, k);
}

int
osm_kill(pid_t pid, int sig)
{
	int a = pid >= osm_tape.pidbase ? pid - osm_tape.pidbase : OSM_MAXCHILD;

	++osm.nkill;
	if (a >= OSM_MAXCHILD || !(osm_livemask() >> a & 1)) {
		/* pid 0 / -1 / a reaped (possibly recycled) pid / a process that is not ours */
		++osm.badkill;
		errno = ESRCH;
		return -1;
	}
	if (sig == SIGTERM)
		osm.termed |= BIT(a);
	else
		++osm.badkill;
	return 0;
}

/* Net effect of starting one pipeline stage, for units that replace driver.c's spawnphase() by a stub (the real
   spawnphase is proved to have exactly this effect by unit DRV.spawnphase): either a failure (tape spawn_err[a],
   nothing left behind, *fd untouched), or a new child whose stdin is *fd (unless -1) and, unless it is the last
   stage, whose stdout is the write end of a new pipe; the read end is returned in *fd, the write end is closed
   in the driver. */
int
osm_stage_start(pid_t *pidp, int *fd, int last)
{
	int a = newattempt(), b, inp = -1;
	unsigned both = 3u << (2 * a);

	++osm.nspawn;
	if (osm_tape.spawn_err[a] != 0) {
		failure();
		++osm.nspawnfail;
		return osm_tape.spawn_err[a];
	}
	b = fdbit(*fd);
	if (b >= 0 && b < 2 * OSM_MAXCHILD && (b & 1) == 0)
		inp = b / 2;
	newchild(a, pidp, 0, 0, 0, *fd, last ? -1 : OSM_FD0 + 2 * a + 1, inp, last ? -1 : a, 0);
	*pidp = osm_tape.pidbase + a;
	if (!last) {
		osm.fd_open |= BIT(2 * a);              /* read end stays open in the driver, close-on-exec */
		osm.fd_cloexec |= both;
		*fd = OSM_FD0 + 2 * a;
	}
	return 0;
}

/* ------------------------------------------------------------------------------------------ files */

int
osm_pipe(int fd[2])
{
	int a = osm.cur;
	unsigned both = 3u << (2 * a);

	__CPROVER_assert(osm.nattempt > 0 && !(osm.fd_open & both), "os model: at most one pipe per spawn attempt");
	if (osm_tape.pipe_err[a]) {
		failure();
		errno = osm_tape.pipe_err[a];
		return -1;
	}
	fd[0] = OSM_FD0 + 2 * a;
	fd[1] = OSM_FD0 + 2 * a + 1;
	osm.fd_open |= both;
	osm.fd_cloexec &= ~both;
	return 0;
}

int
osm_fcntl3(int fd, int cmd, int arg)
{
	int a = osm.cur, j = osm.nfcntl_cur++, b = fdbit(fd);

	__CPROVER_assert(j < 2, "os model: at most two fcntl calls per spawn attempt");
	__CPROVER_assert(cmd == F_SETFD, "os model: only fcntl(F_SETFD) is modelled");
	if (b < 0) {
		failure();
		errno = EBADF;
		return -1;
	}
	if (osm_tape.fcntl_err[a][j]) {
		failure();
		errno = osm_tape.fcntl_err[a][j];
		return -1;
	}
	if (arg & FD_CLOEXEC)
		osm.fd_cloexec |= BIT(b);
	else
		osm.fd_cloexec &= ~BIT(b);
	return 0;
}

int
osm_close(int fd)
{
	int b = fdbit(fd);

	if (b < 0) {
		++osm.badclose;                         /* double close or close of a descriptor we never opened */
		errno = EBADF;
		return -1;
	}
	osm.fd_open &= ~BIT(b);
	return 0;
}

int
osm_mkstemp(char *tmpl)
{
	size_t n;
	int b;

	__CPROVER_assert(tmpl != 0, "mkstemp: template non-null");
	n = strlen(tmpl);
	__CPROVER_assert(n >= 6 && tmpl[n - 6] == 'X' && tmpl[n - 5] == 'X' && tmpl[n - 4] == 'X' && tmpl[n - 3] == 'X' &&
	                 tmpl[n - 2] == 'X' && tmpl[n - 1] == 'X', "mkstemp: template ends in XXXXXX");
	if (osm_tape.mkstemp_err) {
		errno = osm_tape.mkstemp_err;
		return -1;
	}
	tmpl[n - 6] = 'a'; tmpl[n - 1] = 'z';           /* the template is modified in place */
	b = 2 * OSM_MAXCHILD + osm.ntmp;
	osm_pretend_tmp(tmpl);
	osm.fd_open |= BIT(b);
	osm.fd_cloexec &= ~BIT(b);
	return OSM_FD0 + b;
}

int
osm_unlink(const char *path)
{
	int i;

	__CPROVER_assert(path != 0, "unlink: path non-null");
	__CPROVER_assert(osm.nunlink < OSM_MAXUNLINK, "os model: unlink log large enough for the harness");
	FOR_SLOT(i, OSM_MAXUNLINK, osm.nunlink)
		osm.unlinked[i] = path;
	++osm.nunlink;
	for (i = 0; i < OSM_MAXTMP; ++i) {
		if (i < osm.ntmp && osm.tmp[i] == path)
			osm.tmp_unlinked |= BIT(i);
	}
	return 0;
}

/* ------------------------------------------------------------------------------------------ leaving */

void
osm_exit(int status)
{
	osm.exited = 1;
	osm.exit_status = status;
	osm_at_exit(status);
#ifdef VERIF_REPLAY
	fprintf(stderr, "replay: real code called exit(%d) and every exit-time clause held\n", status);
	fflush(0);
	_Exit(0);
#else
	__CPROVER_assume(0);
#endif
}

void
osm_fatal(void)
{
	osm_exit(1);                                    /* util.c: fatal() prints and calls exit(1) */
}

/* stands for util.c's fatal() where a unit replaces it (replace_calls): memory exhaustion ends the run */
void
osm_oom(const char *fmt, ...)
{
	(void)fmt;
#ifdef VERIF_REPLAY
	fprintf(stderr, "replay: real code left through util.c fatal()\n");
	fflush(0);
	_Exit(78);
#else
	__CPROVER_assume(0);
#endif
}

void
osm_warn(void)
{
}
