/*
 * stubs/il_rec.c -- RECORDING IL builder (DESIGN 2.3.5).  #include this file into a unit AFTER
 * `#include "qbe.c"`, "verif.h" and "qbe_sem.h" (struct value / struct inst / funcinst are private to qbe.c, so
 * it cannot be linked separately) and attach it with
 *
 *     "replace_calls": {"funcinst": "rec_funcinst"}
 *
 * ASSUMED CONTRACT OF THE BUILDER that this stub stands for (the real funcinst/mkinst/functemp/arrayaddptr are
 * another agent's units under C03): "funcinst(f, op, class, a0, a1) appends exactly the instruction
 * `%res =class op a0, a1` to the current block and returns the address of a fresh temporary %res; QBE then executes
 * the instructions of a block in order, each with the meaning the IL reference gives it (spec/qbe_sem.h)".
 *
 * What the stub does on each call:
 *   1. records (op, class, arg pointers, argument ghost values, result) in rec.last, and in rec.first if it is
 *      the first instruction (units with opcode-level postconditions emit one or two instructions);
 *   2. symbolically executes the instruction on GHOST VALUES: the ghost value of a `struct value` is kept in its
 *      own u.i member (for VALUE_INTCONST that is the constant itself; for VALUE_TEMP, where the real code leaves
 *      u.name == NULL and never reads it outside emitname(), the recorder/harness stores the run-time value there);
 *      - integer instructions: qbe_sem_int(); a class-'w' result gets unconstrained upper 32 bits;
 *      - loads/stores: a one-cell memory model {rec.mem_addr, rec.mem}: 8 little-endian bytes at one address.
 *        An access to any other address, or one the oracle gives no meaning, clears rec.ok; rec.maxw is the
 *        widest access (bytes); floating loads/stores are counted and address-checked but carry no value;
 *      - floating-point instructions, call, alloc, ...: recorded only; the result's ghost value is unconstrained
 *        and rec.nonint is set (units that reach them state OPCODE-level postconditions only);
 *   3. returns the address of the result member of a freshly allocated struct inst (as the real mkinst() does;
 *      one heap object per instruction keeps CBMC's points-to sets small: a static pool indexed by the symbolic
 *      instruction count made every later dereference a byte-extract over the whole pool, 3 M SAT variables),
 *      a VALUE_TEMP with a fresh id; the pointer is also recorded in the entry's resp.
 * `f` is not touched (the block list, f->lastid and "dead" blocks are the builder units' business).
 */
#ifndef IL_REC_C
#define IL_REC_C

#ifndef REC_MAX
#define REC_MAX 12
#endif

struct rec_entry {
	int op, cls;
	struct value *arg[2];   /* as passed by the real code */
	u64 a[2];               /* their ghost values at that moment (0 for NULL / non-integer constants) */
	u64 res;                /* ghost value of the result */
	struct value *resp;     /* the result temporary handed back to the real code */
	u64 mem_before;         /* content of the memory cell before this instruction */
};

struct rec_state {
	int n;                          /* instructions emitted so far */
	bool ok;                        /* every executed instruction had a meaning (typed, defined, in-bounds access) */
	bool overflow;                  /* more than REC_MAX instructions */
	bool nonint;                    /* some instruction was outside the integer/memory oracle */
	int nload, nstore;              /* memory accesses executed */
	unsigned maxw;                  /* widest access in bytes */
	u64 mem_addr, mem;              /* the one memory cell */
	struct rec_entry first, last;   /* the first and the most recent instruction (no array: a log indexed by the
	                                   symbolic instruction count cost ~1 M SAT variables in array updates) */
} rec;

u64 nondet_rec_u64(void);

static u64
rec_ghost(struct value *v)
{
	if (!v)
		return 0;
	if (v->kind == VALUE_INTCONST || v->kind == VALUE_TEMP)
		return v->u.i;
	return 0;
}

static void
rec_reset(u64 mem_addr, u64 mem)
{
	rec.n = 0;
	rec.ok = 1;
	rec.overflow = 0;
	rec.nonint = 0;
	rec.nload = rec.nstore = 0;
	rec.maxw = 0;
	rec.mem_addr = mem_addr;
	rec.mem = mem;
}

/* a temporary whose run-time value is `val` (harness helper) */
static void
rec_mktemp(struct value *v, unsigned id, u64 val)
{
	v->kind = VALUE_TEMP;
	v->id = id;
	v->u.i = val;
}

struct value *
rec_funcinst(struct func *f, int op, int class, struct value *arg0, struct value *arg1)
{
	struct rec_entry *e;
	struct inst *inst;
	bool ok = 1;
	u64 r = 0;
	int k;

	(void)f;
	if (rec.n >= REC_MAX) {
		rec.overflow = 1;
		rec.ok = 0;
	}
	k = rec.n++;
	e = &rec.last;
	e->op = op;
	e->cls = class;
	e->arg[0] = arg0;
	e->arg[1] = arg1;
	e->a[0] = rec_ghost(arg0);
	e->a[1] = rec_ghost(arg1);
	e->mem_before = rec.mem;

	if (qbe_mem_width(op) > rec.maxw)
		rec.maxw = qbe_mem_width(op);
	if (qbe_is_store(op)) {
		/* storeX value, address; no result */
		++rec.nstore;
		if (class != 0 || !arg0 || !arg1 || e->a[1] != rec.mem_addr) {
			ok = 0;
		} else if (op == ISTORES || op == ISTORED) {
			/* floating store: the bytes written are not modelled */
			rec.nonint = 1;
			rec.mem = op == ISTORED ? nondet_rec_u64() : (rec.mem & ~0xffffffffull) | QBE_LOW32(nondet_rec_u64());
		} else {
			rec.mem = qbe_sem_store(op, rec.mem, e->a[0], &ok);
		}
	} else if (qbe_is_load(op)) {
		++rec.nload;
		if (!arg0 || arg1 || e->a[0] != rec.mem_addr) {
			ok = 0;
		} else if (op == ILOADS || op == ILOADD) {
			rec.nonint = 1;
			r = nondet_rec_u64();
			if (class != (op == ILOADS ? 's' : 'd'))
				ok = 0;
		} else {
			r = qbe_sem_load(op, class, rec.mem, &ok);
		}
	} else {
		bool intop = 1;
		r = qbe_sem_int(op, class, e->a[0], e->a[1], &intop);
		if (!intop) {
			/* not an integer instruction (or one without meaning here): value unknown */
			r = nondet_rec_u64();
			if (op >= ICEQS && op <= ICUOD || op >= IEXTS && op <= IULTOF || op == ICALL || op == IVAARG ||
			    op == IALLOC4 || op == IALLOC8 || op == IALLOC16 || op == ICAST ||
			    !qbe_is_intclass(class) && (op == IADD || op == ISUB || op == IMUL || op == IDIV || op == INEG || op == ICOPY))
				rec.nonint = 1;
			else
				ok = 0;
		}
	}
	if (class == 'w')
		r = QBE_W_RESULT(r, nondet_rec_u64());
	e->res = r;
	if (!ok)
		rec.ok = 0;

	inst = malloc(sizeof(*inst));
	__CPROVER_assume(inst != 0);
	e->resp = &inst->res;
	inst->kind = op;
	inst->class = class;
	inst->arg[0] = arg0;
	inst->arg[1] = arg1;
	if (class && op != IARG) {
		inst->res.kind = VALUE_TEMP;
		inst->res.id = 1000 + k;
		inst->res.u.i = r;
	} else {
		inst->res.kind = VALUE_NONE;
	}
	if (k == 0)
		rec.first = rec.last;
	return &inst->res;
}

#endif
