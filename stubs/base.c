/*
 * Base stubs linked into every unit (both CBMC and replay mode).
 *
 *  - calls to error()/fatal() in the real file are mapped at compile time to verif_noreturn()
 *    (-D'error(...)=verif_noreturn()'); "does not return" is the assumed contract of both
 *    (their real bodies end in exit(1)).  g_no_error lets a unit state "this valid input must
 *    not be rejected": reaching a diagnostic while it is set is a failed obligation.
 *  - xmalloc/xreallocarray are malloc/realloc that do not fail (the real ones call fatal()).
 */
#include <stdlib.h>
#include "verif.h"

int g_no_error;

#ifndef VERIF_REPLAY
void
verif_noreturn(void)
{
	__CPROVER_assert(!g_no_error, "diagnostic reached on an input the property says must be accepted");
	__CPROVER_assume(0);
}
#endif

#if !defined(VERIF_OWN_XMALLOC) && !defined(VERIF_REPLAY)
void *
xmalloc(size_t n)
{
	void *p = malloc(n);
	__CPROVER_assume(p != 0);
	return p;
}

void *
xreallocarray(void *buf, size_t n, size_t m)
{
	void *p;
	__CPROVER_assume(m == 0 || n <= (size_t)-1 / m);
	p = realloc(buf, n * m);
	__CPROVER_assume(p != 0);
	return p;
}
#endif
