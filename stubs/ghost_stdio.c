/*
 * ghost_stdio.c -- ghost input stream (see ghost_stdio.h).  Plain C: the same file is linked into the CBMC run and
 * into the native replay.
 */
#define GHOST_STDIO_NO_RENAME
#include "ghost_stdio.h"
#include "verif.h"

unsigned char g_in[G_IN_MAX];
size_t g_in_n;
size_t g_in_pos;
unsigned g_unget_depth;
unsigned g_unget_max;
unsigned g_getc_calls;

static char ghost_file_object;

FILE *
ghost_file(void)
{
	return (FILE *)&ghost_file_object;
}

void
ghost_in_pack(size_t at, unsigned long long w)
{
	/* written out: no loop for the verifier to unwind */
	if (at + 0 < G_IN_MAX) g_in[at + 0] = (unsigned char)(w >> 0);
	if (at + 1 < G_IN_MAX) g_in[at + 1] = (unsigned char)(w >> 8);
	if (at + 2 < G_IN_MAX) g_in[at + 2] = (unsigned char)(w >> 16);
	if (at + 3 < G_IN_MAX) g_in[at + 3] = (unsigned char)(w >> 24);
	if (at + 4 < G_IN_MAX) g_in[at + 4] = (unsigned char)(w >> 32);
	if (at + 5 < G_IN_MAX) g_in[at + 5] = (unsigned char)(w >> 40);
	if (at + 6 < G_IN_MAX) g_in[at + 6] = (unsigned char)(w >> 48);
	if (at + 7 < G_IN_MAX) g_in[at + 7] = (unsigned char)(w >> 56);
}

void
ghost_in_reset(size_t n)
{
	g_in_n = n <= G_IN_MAX ? n : G_IN_MAX;
	g_in_pos = 0;
	g_unget_depth = 0;
	g_unget_max = 0;
	g_getc_calls = 0;
}

int
ghost_getc(FILE *f)
{
	__CPROVER_assert(f == ghost_file(), "ghost stdio: getc on the scanner's file");
	++g_getc_calls;
	if (g_unget_depth)
		--g_unget_depth;
	if (g_in_pos < g_in_n && g_in_pos < G_IN_MAX)
		return g_in[g_in_pos++];
	return EOF;
}

int
ghost_ungetc(int c, FILE *f)
{
	__CPROVER_assert(f == ghost_file(), "ghost stdio: ungetc on the scanner's file");
	if (c == EOF)
		return EOF;   /* 7.21.7.10p4: the operation fails and the stream is unchanged */
	__CPROVER_assert(g_in_pos > 0 && g_in_pos <= G_IN_MAX && g_in[g_in_pos - 1] == (unsigned char)c,
	                 "ghost stdio: ungetc pushes back the byte that was read last");
	--g_in_pos;
	++g_unget_depth;
	if (g_unget_depth > g_unget_max)
		g_unget_max = g_unget_depth;
	return (unsigned char)c;
}

int
ghost_fclose(FILE *f)
{
	__CPROVER_assert(f == ghost_file(), "ghost stdio: fclose on the scanner's file");
	return 0;
}

int
ghost_ferror(FILE *f)
{
	(void)f;
	return 0;
}

FILE *
ghost_fopen(const char *name, const char *mode)
{
	(void)name; (void)mode;
	return ghost_file();
}
