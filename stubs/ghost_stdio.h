/*
 * ghost_stdio.h -- ghost input stream standing in for the FILE the scanner reads (DESIGN 3, C13/C11).
 *
 * The stream is a global byte array g_in[0..g_in_n) with a read position g_in_pos.  scan.c reaches it through
 * getc()/ungetc(): a unit that includes this header BEFORE "scan.c" gets `getc`/`ungetc`/`fclose`/`fopen`
 * mapped (by macro, /repo untouched) to the ghost_* functions below, in CBMC mode and in the native replay alike.
 *
 * Model of ISO C 7.21.7 as far as the scanner uses it:
 *   getc    returns the next byte as unsigned char and advances, EOF (sticky) at the end;
 *   ungetc  EOF is a no-op returning EOF; otherwise the byte goes back in front of the stream.  The scanner only ever
 *           pushes back the byte it has just read; the model ASSERTS that (so position arithmetic is enough) and
 *           counts the pushback depth (g_unget_depth / g_unget_max: ISO C guarantees one byte, glibc/musl more).
 * Nothing here is cproc code.
 */
#ifndef GHOST_STDIO_H
#define GHOST_STDIO_H

#include <stdio.h>
#include <stddef.h>

#ifndef G_IN_MAX
#define G_IN_MAX 32
#endif

extern unsigned char g_in[G_IN_MAX];   /* the bytes of the file                                         */
extern size_t g_in_n;                  /* length of the file, <= G_IN_MAX                               */
extern size_t g_in_pos;                /* number of bytes consumed so far                               */
extern unsigned g_unget_depth;         /* consecutive pushbacks not yet re-read                         */
extern unsigned g_unget_max;           /* maximum of g_unget_depth so far                               */
extern unsigned g_getc_calls;          /* number of getc calls (progress measure)                       */

FILE *ghost_file(void);                /* the one FILE the ghost stream answers for (never dereferenced) */
int ghost_getc(FILE *f);
int ghost_ungetc(int c, FILE *f);
int ghost_fclose(FILE *f);
int ghost_ferror(FILE *f);
FILE *ghost_fopen(const char *name, const char *mode);

/* fill 8 stream bytes from one 64-bit scalar input, least significant byte first */
void ghost_in_pack(size_t at, unsigned long long w);
/* reset: length n, position 0 */
void ghost_in_reset(size_t n);

#ifndef GHOST_STDIO_NO_RENAME
#undef getc
#undef ungetc
#undef fclose
#undef fopen
#undef ferror
#define getc(f)        ghost_getc(f)
#define ungetc(c, f)   ghost_ungetc(c, f)
#define fclose(f)      ghost_fclose(f)
#define fopen(n, m)    ghost_fopen(n, m)
#define ferror(f)      ghost_ferror(f)
#endif

#endif
