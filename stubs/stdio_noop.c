/*
 * stdio output functions as no-ops: "stdio output functions have no effect on the state the contracts talk about"
 * (DESIGN 6).  Units that run emit*() code route the CALLS to verif_out() with macros defined in the unit AFTER
 * <stdio.h> has been included (so the declarations stay intact):
 *
 *     #include <stdio.h>
 *     #define printf(...)   verif_out()
 *     #define puts(s)       verif_out()
 *     #define fputs(s, f)   verif_out()
 *     #define putchar(c)    verif_out()
 *     #define fputc(c, f)   verif_out()
 *     #include "qbe.c"
 *
 * (a variadic printf stub with a body cannot be instrumented by DFCC; CBMC's own printf/putchar models are fine in
 * harness mode but add nothing).  What this drops: the argument expressions of those calls are not evaluated, so
 * their dereferences (v->u.name, b->phi.class, ...) are not safety-checked.
 */
int
verif_out(void)
{
	return 0;
}
