/*
 * util.c:arrayadd / arrayaddptr for units that include a translation unit other than util.c.
 *
 * util.c itself cannot be linked into such a unit: the runner maps fatal(...) to verif_noreturn() with a
 * function-like macro (DFCC cannot instrument variadic functions with bodies), which would mangle util.c's own
 * definition of fatal().  The two functions below are the text of /repo/util.c lines 91-112 with
 * `if (!a->val) fatal("realloc")` turned into "realloc does not fail" (same convention as base.c's xmalloc).
 * The growth loop is kept; units bound it with "unwindset": ["arrayadd.0:2"] (unwinding assertions on), i.e. they
 * prove that with their precondition on cap one doubling is enough.
 */
#include <stdlib.h>
#include <stdbool.h>
#include <stddef.h>
#include "util.h"
#include "verif.h"

#ifndef VERIF_REPLAY
void *
arrayadd(struct array *a, size_t n)
{
	void *v;

	if (a->cap - a->len < n) {
		do a->cap = a->cap ? a->cap * 2 : 256;
		while (a->cap - a->len < n);
		a->val = realloc(a->val, a->cap);
		__CPROVER_assume(a->val != 0);
	}
	v = (char *)a->val + a->len;
	a->len += n;

	return v;
}

void
arrayaddptr(struct array *a, void *v)
{
	*(void **)arrayadd(a, sizeof(v)) = v;
}
#endif
