/*
 * os_model.h -- adversarial model of the POSIX process/file interface used by /repo/driver.c (DESIGN.md C18, 8.4).
 *
 * Use in a unit (the system headers first: they have include guards, so driver.c's own #includes become no-ops and
 * the function-like macros below only rewrite the CALLS in driver.c, not the libc declarations):
 *
 *     #include <errno.h> ... <unistd.h>          (the list at the top of driver.c)
 *     #include "os_model.h"
 *     #include "driver.c"
 *
 * The same text is compiled natively for the replay (gcc -DVERIF_REPLAY): every model function has an osm_ name,
 * so nothing collides with libc or with the replay runtime.  All nondeterminism of the OS comes from the "tape"
 * struct osm_tape, which the unit fills from IN() scalars: the model itself is deterministic plain C.
 *
 * What the model lets the environment do (every choice is a tape entry, i.e. universally quantified by CBMC):
 *   posix_spawn[p]   k-th call fails with any non-zero errno (no child, *pid untouched) or creates a live child
 *   wait             reports ANY live child of the table (any termination order) with ANY termination status word
 *                    (exit 0..255, killed by signal 1..126, with or without core flag), each child exactly once;
 *                    may also report an unrelated pid (a child inherited from the invoking program); fails with
 *                    ECHILD only when no child is left
 *   waitpid          same for the named child
 *   pipe, fcntl, posix_spawn_file_actions_init/adddup2, mkstemp   fail with any errno when the tape says so
 *   kill, close, unlink   ghost bookkeeping (who was signalled, which descriptors are open, what was removed)
 *   exit             records the status, runs the unit's exit-time clauses osm_at_exit(), ends the path
 */
#ifndef OS_MODEL_H
#define OS_MODEL_H

#include <sys/types.h>
#include <spawn.h>

#define OSM_MAXCHILD 6     /* children per harness run */
#define OSM_MAXWAIT  8     /* wait()/waitpid() calls per harness run */
#define OSM_MAXFD    8    /* descriptors handed out by pipe/mkstemp: numbers OSM_FD0 .. OSM_FD0+OSM_MAXFD-1 */
#define OSM_FD0      3
#define OSM_MAXTMP   4
#define OSM_MAXUNLINK 6
#define OSM_MAXARGV  32

enum { OSM_FD_FREE, OSM_FD_PIPE_R, OSM_FD_PIPE_W, OSM_FD_FILE };

struct osm_child {
	pid_t pid;
	pid_t *pidp;          /* where posix_spawn stored the pid: identifies the stage */
	char **argv;          /* argument vector the child was started with */
	int argc;             /* number of arguments before the terminating NULL */
	const char *file;
	int in_fd, out_fd;    /* descriptor dup2'ed onto 0 / 1 by the file actions, or -1 (inherits the driver's) */
	int in_pipe, out_pipe;/* pipe id behind in_fd/out_fd, or -1 */
	int leaked;           /* number of pipe descriptors the child inherits besides stdin/stdout (not close-on-exec) */
	int reaped;           /* 0 while the child is live (running or zombie), 1 once wait reported it */
	int status;           /* status word wait reported */
	int nterm;            /* SIGTERMs received while live */
};

struct osm_fd {
	int kind;
	int cloexec;
	int pipe;             /* pipe id (pipe descriptors) */
};

/* the environment's choices; written by the harness only */
struct osm_tape {
	pid_t pidbase;                       /* children get pidbase, pidbase+1, ... */
	int spawn_err[OSM_MAXCHILD];         /* k-th posix_spawn[p]: 0 = child created, otherwise the errno returned */
	unsigned char wait_pick[OSM_MAXWAIT];    /* k-th wait(): which live child (index among the live ones, modulo) */
	unsigned char wait_unknown[OSM_MAXWAIT]; /* k-th wait(): report an unrelated pid instead (only while one is pending) */
	int wait_status[OSM_MAXWAIT];        /* status word of the k-th wait()/waitpid() */
	int nunknown;                        /* unrelated (inherited) children that wait() may report */
	int pipe_err[OSM_MAXCHILD];          /* k-th pipe(): 0 or errno */
	int fcntl_err[2 * OSM_MAXCHILD];     /* k-th fcntl(): 0 or errno */
	int fa_init_err[OSM_MAXCHILD];       /* k-th posix_spawn_file_actions_init(): 0 or errno */
	int fa_dup2_in_err[OSM_MAXCHILD];    /* adddup2(.., fd, 0) on the k-th file-actions object: 0 or errno */
	int fa_dup2_out_err[OSM_MAXCHILD];   /* adddup2(.., fd, 1) on the k-th file-actions object: 0 or errno */
	int mkstemp_err;                     /* mkstemp(): 0 or errno */
};

/* ghost state of the model; written by the model only */
struct osm_state {
	int nspawn, nwait, npipe, nfcntl, nfainit, nfadup2;  /* calls so far (tape positions) */
	int nchild;
	struct osm_child child[OSM_MAXCHILD];
	int unknown_left;
	int nfail;            /* spawn failures + children reaped with a status other than "exited 0" */
	int nspawnfail;
	unsigned term_due;    /* children (bit i = child[i]) that were live when the FIRST failure became known to the driver */
	int badkill;          /* kill() to something that is not a live child, or with a signal other than SIGTERM */
	int nkill;
	int badclose;         /* close() of a descriptor that is not open */
	struct osm_fd fd[OSM_MAXFD];
	int nopen;            /* descriptors currently open (of those the model handed out) */
	int fa_live, fa_in, fa_out, fa_destroyed, fa_bad;   /* the (single) file-actions object in use */
	int ntmp;             /* files created by mkstemp */
	char *tmp[OSM_MAXTMP];
	int tmp_unlinked[OSM_MAXTMP];
	int nunlink;
	const char *unlinked[OSM_MAXUNLINK];
	int exited, exit_status;
};

extern struct osm_tape osm_tape;
extern struct osm_state osm;

void osm_reset(void);                    /* harness: call first */
int osm_status_valid(int status);        /* status word is one that wait() can report for a terminated child */
int osm_status_ok(int status);           /* "exited with 0" */
int osm_nlive(void);                     /* children not yet reaped */
int osm_was_unlinked(const char *path);  /* unlink(path) was called (pointer identity) */
int osm_term_missing(void);              /* children of term_due that never received SIGTERM */
int osm_write_ends_open(void);           /* pipe write ends still open in the driver */
int osm_tmp_left(void);                  /* mkstemp files not unlinked */
struct osm_child *osm_child_of(pid_t *pidp);  /* the live-or-dead child whose pid was stored at pidp most recently */
pid_t osm_pretend_child(pid_t *pidp);    /* harness: register a live child as if spawned earlier */
char *osm_pretend_tmp(char *path);       /* harness: register a temporary created by an earlier mkstemp */

/* provided by the UNIT: exit-time clauses (assertions).  Called by osm_exit before the path ends. */
void osm_at_exit(int status);

int osm_posix_spawnp(pid_t *, const char *, const posix_spawn_file_actions_t *, const posix_spawnattr_t *,
                     char *const [], char *const []);
int osm_fa_init(posix_spawn_file_actions_t *);
int osm_fa_destroy(posix_spawn_file_actions_t *);
int osm_fa_adddup2(posix_spawn_file_actions_t *, int, int);
pid_t osm_wait(int *);
pid_t osm_waitpid(pid_t, int *, int);
int osm_kill(pid_t, int);
int osm_unlink(const char *);
int osm_mkstemp(char *);
int osm_close(int);
int osm_pipe(int [2]);
int osm_fcntl3(int, int, int);
void osm_exit(int);
void osm_fatal(void);
void osm_warn(void);

#ifndef OS_MODEL_IMPL
#define posix_spawnp(p, f, fa, at, av, ev)        osm_posix_spawnp(p, f, fa, at, av, ev)
#define posix_spawn(p, f, fa, at, av, ev)         osm_posix_spawnp(p, f, fa, at, av, ev)
#define posix_spawn_file_actions_init(a)          osm_fa_init(a)
#define posix_spawn_file_actions_destroy(a)       osm_fa_destroy(a)
#define posix_spawn_file_actions_adddup2(a, f, n) osm_fa_adddup2(a, f, n)
#undef wait
#define wait(s)            osm_wait(s)
#define waitpid(p, s, o)   osm_waitpid(p, s, o)
#define kill(p, s)         osm_kill(p, s)
#define unlink(p)          osm_unlink(p)
#define mkstemp(t)         osm_mkstemp(t)
#define close(f)           osm_close(f)
#define pipe(f)            osm_pipe(f)
#define fcntl(f, c, a)     osm_fcntl3(f, c, a)
#define exit(s)            osm_exit(s)
/* driver.c's diagnostics: fatal() = message + exit(1) (util.c), warn() = message only */
#define fatal(...)         osm_fatal()
#define warn(...)          osm_warn()
#endif

#endif
