/*
 * os_model.h -- adversarial model of the POSIX process/file interface used by /repo/driver.c (DESIGN.md C18, 8.4).
 *
 * Use in a unit (the system headers first: they have include guards, so driver.c's own #includes become no-ops and
 * the function-like macros below only rewrite the CALLS in driver.c, not the libc declarations):
 *
 *     #include <errno.h> ... <unistd.h>          (the list at the top of driver.c)
 *     #include "os_model.h"
 *     #include "driver.c"
 *
 * The same text is compiled natively for the replay (gcc -DVERIF_REPLAY): every model function has an osm_ name,
 * so nothing collides with libc or with the replay runtime.  All nondeterminism of the OS comes from the "tape"
 * struct osm_tape, which the unit fills from IN() scalars: the model itself is deterministic plain C.
 *
 * What the model lets the environment do (every choice is a tape entry, i.e. universally quantified by CBMC):
 *   posix_spawn[p]   fails with any non-zero errno (no child, *pid untouched) or creates a live child
 *   wait             reports ANY live child of the table (any termination order) with ANY termination status word
 *                    (exit 0..255, killed by signal 1..126, with or without core flag), each child exactly once;
 *                    may also report an unrelated pid (a child inherited from the invoking program); fails with
 *                    ECHILD only when no child is left
 *   waitpid          same for the named child
 *   pipe, fcntl, posix_spawn_file_actions_init/adddup2, mkstemp   fail with any errno when the tape says so
 *   kill, close, unlink   ghost bookkeeping (who was signalled, which descriptors are open, what was removed)
 *   exit             records the status, runs the unit's exit-time clauses osm_at_exit(), ends the path
 *
 * Bookkeeping is organised by "spawn attempt": the a-th attempt starts with posix_spawn_file_actions_init (or with
 * a posix_spawn call that passes no file actions) and owns tape entries [a], child slot a, pid pidbase+a and the
 * descriptor numbers OSM_FD0+2a / +2a+1 for its pipe.  Descriptor numbers are never reused, so a double close or a
 * use after close cannot alias a newer descriptor.  Process and descriptor sets are bit masks (bit a = attempt a):
 * no table is ever indexed by a value that is symbolic during symbolic execution.
 */
#ifndef OS_MODEL_H
#define OS_MODEL_H

#include <sys/types.h>
#include <spawn.h>

#ifndef OSM_MAXCHILD
#define OSM_MAXCHILD 6     /* spawn attempts (and pretended children) per harness run; <= 8 */
#endif
#ifndef OSM_MAXWAIT
#define OSM_MAXWAIT  8     /* wait()/waitpid() calls per harness run */
#endif
#define OSM_MAXTMP   4     /* mkstemp files (incl. pretended earlier ones) */
#define OSM_MAXUNLINK 6
#ifndef OSM_MAXARGV
#define OSM_MAXARGV  32
#endif
#define OSM_FD0      3
#define OSM_FD_TMP0  (OSM_FD0 + 2 * OSM_MAXCHILD)          /* descriptors returned by mkstemp */
#define OSM_NFD      (2 * OSM_MAXCHILD + OSM_MAXTMP)       /* descriptor numbers OSM_FD0 .. OSM_FD0+OSM_NFD-1; <= 32 */

struct osm_child {
	pid_t *pidp;          /* where posix_spawn stored the pid: identifies the stage */
	char **argv;          /* argument vector the child was started with */
	int argc;             /* number of arguments before the terminating NULL */
	const char *file;
	int in_fd, out_fd;    /* descriptor dup2'ed onto 0 / 1 by the file actions, or -1 (inherits the driver's) */
	int in_pipe, out_pipe;/* pipe id whose READ end is the child's stdin / whose WRITE end is its stdout (-1: none) */
	int leaked;           /* descriptors the child inherits under their own number (open, not close-on-exec) */
	int status;           /* status word wait reported */
};

/* the environment's choices; written by the harness only */
struct osm_tape {
	pid_t pidbase;                       /* child of attempt a gets pid pidbase + a */
	int fa_init_err[OSM_MAXCHILD];       /* attempt a: posix_spawn_file_actions_init: 0 or errno */
	int pipe_err[OSM_MAXCHILD];          /* attempt a: pipe(): 0 or errno */
	int fcntl_err[OSM_MAXCHILD][2];      /* attempt a: first / second fcntl(): 0 or errno */
	int fa_dup2_in_err[OSM_MAXCHILD];    /* attempt a: adddup2(.., fd, 0): 0 or errno */
	int fa_dup2_out_err[OSM_MAXCHILD];   /* attempt a: adddup2(.., fd, 1): 0 or errno */
	int spawn_err[OSM_MAXCHILD];         /* attempt a: posix_spawn[p]: 0 = child created, otherwise the errno returned */
	unsigned char wait_pick[OSM_MAXWAIT];    /* k-th wait(): the live child to report (attempt number; any other value: the oldest) */
	unsigned char wait_unknown[OSM_MAXWAIT]; /* k-th wait(): report an unrelated pid instead (while one is pending) */
	int wait_status[OSM_MAXWAIT];        /* status word of the k-th wait()/waitpid() */
	int nunknown;                        /* unrelated (inherited) children that wait() may report */
	int mkstemp_err;                     /* mkstemp(): 0 or errno */
};

/* ghost state of the model; written by the model only */
struct osm_state {
	int nattempt;         /* spawn attempts begun */
	int cur;              /* attempt in progress */
	int nfcntl_cur;       /* fcntl calls of the attempt in progress */
	int nspawn;           /* posix_spawn[p] calls */
	int nwait;            /* wait/waitpid calls */
	unsigned spawned;     /* bit a: attempt a created a child */
	unsigned reaped;      /* bit a: that child was reported by wait */
	unsigned termed;      /* bit a: that child received SIGTERM while live */
	unsigned term_due;    /* children that were live when the FIRST failure became known to the driver */
	int late_term;        /* wait() calls made while a child of term_due was still live and had not been sent SIGTERM */
	struct osm_child child[OSM_MAXCHILD];
	int unknown_left;
	int nfail;            /* failures to start a stage (posix_spawn, pipe, fcntl, file actions) + children reaped with a
	                         status other than "exited 0" */
	int nspawnfail;       /* posix_spawn failures among them */
	int badkill;          /* kill() to something that is not a live child, or with a signal other than SIGTERM */
	int nkill;
	int badclose;         /* close() of a descriptor that is not open */
	unsigned fd_open;     /* bit i: descriptor OSM_FD0 + i is open in the driver */
	unsigned fd_cloexec;  /* bit i: ... and close-on-exec */
	int fa_live, fa_in, fa_out, fa_destroyed, fa_bad;   /* the (single) file-actions object in use */
	int ntmp;             /* files created by mkstemp */
	char *tmp[OSM_MAXTMP];
	unsigned tmp_unlinked;
	int nunlink;
	const char *unlinked[OSM_MAXUNLINK];
	int exited, exit_status;
};

extern struct osm_tape osm_tape;
extern struct osm_state osm;

void osm_reset(void);                    /* harness: call first (after filling the tape) */
int osm_status_valid(int status);        /* status word is one that wait() can report for a terminated child */
int osm_status_ok(int status);           /* "exited with 0" */
unsigned osm_livemask(void);             /* children not yet reaped */
int osm_nlive(void);
int osm_nchild(void);                    /* children created */
int osm_term_missing(void);              /* children of term_due that never received SIGTERM */
int osm_write_ends_open(void);           /* pipe write ends still open in the driver */
int osm_nopen(void);                     /* descriptors open in the driver */
int osm_was_unlinked(const char *path);  /* unlink(path) was called (pointer identity) */
int osm_tmp_left(void);                  /* mkstemp files not unlinked */
pid_t osm_pretend_child(pid_t *pidp);    /* harness: register a live child as if spawned earlier */
char *osm_pretend_tmp(char *path);       /* harness: register a temporary created by an earlier mkstemp */

/* provided by the UNIT: exit-time clauses (assertions).  Called by osm_exit before the path ends. */
void osm_at_exit(int status);

int osm_posix_spawnp(pid_t *, const char *, const posix_spawn_file_actions_t *, const posix_spawnattr_t *,
                     char *const [], char *const []);
int osm_fa_init(posix_spawn_file_actions_t *);
int osm_fa_destroy(posix_spawn_file_actions_t *);
int osm_fa_adddup2(posix_spawn_file_actions_t *, int, int);
pid_t osm_wait(int *);
pid_t osm_waitpid(pid_t, int *, int);
int osm_kill(pid_t, int);
int osm_unlink(const char *);
int osm_mkstemp(char *);
int osm_close(int);
int osm_pipe(int [2]);
int osm_fcntl3(int, int, int);
int osm_stage_start(pid_t *pidp, int *fd, int last);
void osm_exit(int);
void osm_fatal(void);
void osm_warn(void);
void osm_oom(const char *fmt, ...);

#ifndef OS_MODEL_IMPL
#define posix_spawnp(p, f, fa, at, av, ev)        osm_posix_spawnp(p, f, fa, at, av, ev)
#define posix_spawn(p, f, fa, at, av, ev)         osm_posix_spawnp(p, f, fa, at, av, ev)
#define posix_spawn_file_actions_init(a)          osm_fa_init(a)
#define posix_spawn_file_actions_destroy(a)       osm_fa_destroy(a)
#define posix_spawn_file_actions_adddup2(a, f, n) osm_fa_adddup2(a, f, n)
#undef wait
#define wait(s)            osm_wait(s)
#define waitpid(p, s, o)   osm_waitpid(p, s, o)
#define kill(p, s)         osm_kill(p, s)
#define unlink(p)          osm_unlink(p)
#define mkstemp(t)         osm_mkstemp(t)
#define close(f)           osm_close(f)
#define pipe(f)            osm_pipe(f)
#define fcntl(f, c, a)     osm_fcntl3(f, c, a)
#define exit(s)            osm_exit(s)
/* driver.c's diagnostics: fatal() = message + exit(1) (util.c), warn() = message only */
#define fatal(...)         osm_fatal()
#define warn(...)          osm_warn()
#endif

#endif
