/*
 * spec/c_exprtype.h -- oracle: the TYPE C11 gives to an expression, on abstract type codes (loop-free C).
 *
 *   C11 6.3.1.1p1  integer conversion rank
 *   C11 6.3.1.1p2  integer promotions (incl. bit-fields, as restricted by their width)
 *   C11 6.3.1.8    usual arithmetic conversions
 *   LP64 psABI     sizes: char 1, short 2, int 4, long 8, long long 8, float 4, double 8, long double 16
 *
 * Nothing here looks at `struct type`: the arithmetic types are the 15 codes below; an enumerated type stands for
 * the code of its compatible (underlying) integer type (6.7.2.2p4) -- the units map codes to the real type objects.
 */
#ifndef SPEC_C_EXPRTYPE_H
#define SPEC_C_EXPRTYPE_H

enum spec_at {
	AT_BOOL, AT_CHAR, AT_SCHAR, AT_UCHAR, AT_SHORT, AT_USHORT, AT_INT, AT_UINT,
	AT_LONG, AT_ULONG, AT_LLONG, AT_ULLONG, AT_FLOAT, AT_DOUBLE, AT_LDOUBLE, AT_N
};
#define SPEC_NOBF (~0u)     /* "not a bit-field" */

static inline bool spec_at_isint(int c) { return c >= AT_BOOL && c <= AT_ULLONG; }
static inline bool spec_at_isflt(int c) { return c >= AT_FLOAT && c <= AT_LDOUBLE; }
static inline bool spec_at_isarith(int c) { return c >= AT_BOOL && c <= AT_LDOUBLE; }

/* 6.3.1.1p1: long long > long > int > short > char > _Bool; signed and unsigned of a pair have the same rank */
static inline int
spec_at_rank(int c)
{
	switch (c) {
	case AT_BOOL: return 0;
	case AT_CHAR: case AT_SCHAR: case AT_UCHAR: return 1;
	case AT_SHORT: case AT_USHORT: return 2;
	case AT_INT: case AT_UINT: return 3;
	case AT_LONG: case AT_ULONG: return 4;
	case AT_LLONG: case AT_ULLONG: return 5;
	}
	return -1;
}

/* plain char is signed or unsigned per target (x86_64: signed; aarch64, riscv64: unsigned) */
static inline bool
spec_at_signed(int c, bool signedchar)
{
	switch (c) {
	case AT_CHAR: return signedchar;
	case AT_SCHAR: case AT_SHORT: case AT_INT: case AT_LONG: case AT_LLONG: return true;
	}
	return false;
}

static inline unsigned
spec_at_size(int c)
{
	switch (c) {
	case AT_BOOL: case AT_CHAR: case AT_SCHAR: case AT_UCHAR: return 1;
	case AT_SHORT: case AT_USHORT: return 2;
	case AT_INT: case AT_UINT: case AT_FLOAT: return 4;
	case AT_LONG: case AT_ULONG: case AT_LLONG: case AT_ULLONG: case AT_DOUBLE: return 8;
	case AT_LDOUBLE: return 16;
	}
	return 0;
}

/* the unsigned integer type corresponding to a signed integer type (6.2.5p6) */
static inline int
spec_at_unsigned_of(int c)
{
	switch (c) {
	case AT_CHAR: case AT_SCHAR: return AT_UCHAR;
	case AT_SHORT: return AT_USHORT;
	case AT_INT: return AT_UINT;
	case AT_LONG: return AT_ULONG;
	case AT_LLONG: return AT_ULLONG;
	}
	return c;
}

/*
 * 6.3.1.1p2: an object or expression with an integer type whose rank is <= rank(int), or a bit-field, is converted to
 * int if int can represent all values of the original type (as restricted by the width, for a bit-field), otherwise to
 * unsigned int; all other types are unchanged.  For bit-fields declared with a type of rank > int (implementation-
 * defined, 6.7.2.1p5) the same by-width rule is applied when the width is <= 32 (what gcc does), else unchanged.
 * w = width of the bit-field, or SPEC_NOBF.
 */
static inline int
spec_promote(int c, unsigned w, bool signedchar)
{
	unsigned bits, valbits;

	if (!spec_at_isint(c))
		return c;
	bits = w == SPEC_NOBF ? 8 * spec_at_size(c) : w;
	if (c == AT_BOOL)
		return AT_INT;                 /* values 0, 1 */
	if (bits > 32)
		return c;                      /* neither int nor unsigned int holds all values; rank > rank(int) */
	valbits = bits - (spec_at_signed(c, signedchar) ? 1 : 0);       /* max value is 2^valbits - 1 */
	if (valbits <= 31)
		return AT_INT;                 /* INT_MAX = 2^31 - 1, and INT_MIN <= -2^(bits-1) */
	return AT_UINT;
}

/* 6.3.1.8 usual arithmetic conversions: the common real type of two arithmetic operands */
static inline int
spec_common(int c1, unsigned w1, int c2, unsigned w2, bool signedchar)
{
	int s, u;

	if (c1 == AT_LDOUBLE || c2 == AT_LDOUBLE)
		return AT_LDOUBLE;
	if (c1 == AT_DOUBLE || c2 == AT_DOUBLE)
		return AT_DOUBLE;
	if (c1 == AT_FLOAT || c2 == AT_FLOAT)
		return AT_FLOAT;
	/* "Otherwise, the integer promotions are performed on both operands." */
	c1 = spec_promote(c1, w1, signedchar);
	c2 = spec_promote(c2, w2, signedchar);
	if (c1 == c2)
		return c1;
	if (spec_at_signed(c1, signedchar) == spec_at_signed(c2, signedchar))
		return spec_at_rank(c1) > spec_at_rank(c2) ? c1 : c2;      /* equal rank + same signedness = same type after promotion */
	if (spec_at_signed(c1, signedchar)) {
		s = c1;
		u = c2;
	} else {
		s = c2;
		u = c1;
	}
	if (spec_at_rank(u) >= spec_at_rank(s))
		return u;
	if (spec_at_size(s) > spec_at_size(u))
		return s;                      /* the signed type can represent all values of the unsigned type */
	return spec_at_unsigned_of(s);
}

#endif
