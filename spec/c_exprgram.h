/*
 * spec/c_exprgram.h -- oracle: the phrase structure C11 gives to a sequence  a0 op1 a1 op2 a2 ... opn an  of
 * cast-expressions joined by binary operators (loop-free C, or loops over a constant bound).
 *
 * C11 6.5.5 - 6.5.14 (grammar; summarized in A.2.1):
 *
 *   multiplicative-expression:  cast-expression | multiplicative-expression  * / %  cast-expression          (6.5.5)
 *   additive-expression:        multiplicative-expression | additive-expression  + -  multiplicative-expr.  (6.5.6)
 *   shift-expression:           additive-expression | shift-expression  << >>  additive-expression           (6.5.7)
 *   relational-expression:      shift-expression | relational-expression  < > <= >=  shift-expression        (6.5.8)
 *   equality-expression:        relational-expression | equality-expression  == !=  relational-expression    (6.5.9)
 *   AND-expression:             equality-expression | AND-expression  &  equality-expression                 (6.5.10)
 *   exclusive-OR-expression:    AND-expression | exclusive-OR-expression  ^  AND-expression                  (6.5.11)
 *   inclusive-OR-expression:    exclusive-OR-expression | inclusive-OR-expression  |  exclusive-OR-expr.     (6.5.12)
 *   logical-AND-expression:     inclusive-OR-expression | logical-AND-expression  &&  inclusive-OR-expr.     (6.5.13)
 *   logical-OR-expression:      logical-AND-expression | logical-OR-expression  ||  logical-AND-expression   (6.5.14)
 *
 * Every production is LEFT recursive (the left operand is of the same level, the right operand of the next tighter
 * level).  Hence (6.5p3 footnote 85: "the syntax specifies the precedence of operators"): for the operator at position
 * p, with tightness T(p),
 *   - its LEFT operand is the longest run of operands/operators immediately to its left all of whose operators have
 *     tightness >= T(p)   (operators of the SAME level to the left belong to the left operand: left associativity);
 *   - its RIGHT operand is the longest run immediately to its right all of whose operators have tightness > T(p).
 * A phrase over operands [first, last] is determined by these spans (two nodes never have the same span).
 *
 * Token kinds are cproc's `enum tokenkind` (cc.h must have been included).
 */
#ifndef SPEC_C_EXPRGRAM_H
#define SPEC_C_EXPRGRAM_H

/* tightness: 10 = multiplicative (binds tightest) ... 1 = logical OR; 0 = not a binary operator */
static inline int
spec_bintight(int k)
{
	switch (k) {
	case TMUL: case TDIV: case TMOD: return 10;                   /* 6.5.5 */
	case TADD: case TSUB: return 9;                               /* 6.5.6 */
	case TSHL: case TSHR: return 8;                               /* 6.5.7 */
	case TLESS: case TGREATER: case TLEQ: case TGEQ: return 7;    /* 6.5.8 */
	case TEQL: case TNEQ: return 6;                               /* 6.5.9 */
	case TBAND: return 5;                                         /* 6.5.10 */
	case TXOR: return 4;                                          /* 6.5.11 */
	case TBOR: return 3;                                          /* 6.5.12 */
	case TLAND: return 2;                                         /* 6.5.13 */
	case TLOR: return 1;                                          /* 6.5.14 */
	}
	return 0;
}

#define SPEC_NBINOP 18
/* the c-th binary operator, c in 0..17 */
static inline int
spec_binop(unsigned c)
{
	switch (c) {
	case 0: return TLOR; case 1: return TLAND; case 2: return TBOR; case 3: return TXOR; case 4: return TBAND;
	case 5: return TEQL; case 6: return TNEQ; case 7: return TLESS; case 8: return TGREATER; case 9: return TLEQ;
	case 10: return TGEQ; case 11: return TSHL; case 12: return TSHR; case 13: return TADD; case 14: return TSUB;
	case 15: return TMUL; case 16: return TDIV;
	}
	return TMOD;
}

#endif
