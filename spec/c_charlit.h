/*
 * spec/c_charlit.h -- oracle for escape sequences in character constants and string literals.  Loop-free.
 *
 * C11 6.4.4.4:
 *   simple-escape-sequence: one of  \' \" \? \\ \a \b \f \n \r \t \v
 *   octal-escape-sequence:  \ octal-digit | \ octal-digit octal-digit | \ octal-digit octal-digit octal-digit
 *   hexadecimal-escape-sequence: \x hexadecimal-digit | hexadecimal-escape-sequence hexadecimal-digit
 *   octal-digit (6.4.4.1): one of 0 1 2 3 4 5 6 7
 *   p3:  \' \" \? \\ denote ' " ? \ ;  p5: "The octal digits that follow the backslash in an octal escape sequence are
 *   taken to be part of the construction of a single character ... The numerical value of the octal integer so formed
 *   specifies the value of the desired character";  p6: same for hexadecimal;  p7: "Each octal or hexadecimal escape
 *   sequence is the longest sequence of characters that can constitute the escape sequence."
 *   p9 (constraint): "The value of an octal or hexadecimal escape sequence shall be in the range of representable
 *   values for the corresponding type" (unsigned char / the unsigned type corresponding to wchar_t, char16_t, char32_t).
 * C11 5.2.2p2 with an ASCII execution character set (all cproc targets): \a 7, \b 8, \t 9, \n 10, \v 11, \f 12, \r 13.
 */
#ifndef SPEC_C_CHARLIT_H
#define SPEC_C_CHARLIT_H

/* value of the simple escape \ch, or -1 if \ch is not a simple escape sequence */
static inline int
spec_simple_escape(unsigned char ch)
{
	return ch == '\'' ? 0x27 : ch == '"' ? 0x22 : ch == '?' ? 0x3F : ch == '\\' ? 0x5C
	     : ch == 'a' ? 7 : ch == 'b' ? 8 : ch == 't' ? 9 : ch == 'n' ? 10 : ch == 'v' ? 11 : ch == 'f' ? 12 : ch == 'r' ? 13
	     : -1;
}

static inline int
spec_is_odigit(unsigned char ch)
{
	return 0x30 <= ch && ch <= 0x37;   /* '0'..'7' */
}

/* value of a hexadecimal-digit, -1 if none */
static inline int
spec_xdigit(unsigned char ch)
{
	return 0x30 <= ch && ch <= 0x39 ? ch - 0x30      /* 0-9 */
	     : 0x41 <= ch && ch <= 0x46 ? ch - 0x41 + 10 /* A-F */
	     : 0x61 <= ch && ch <= 0x66 ? ch - 0x61 + 10 /* a-f */
	     : -1;
}

/* octal escape \d1 d2 d3 ... (d1 an octal digit): number of digits that belong to it (longest, at most 3) */
static inline unsigned
spec_octal_ndigits(unsigned char d1, unsigned char d2, unsigned char d3)
{
	return !spec_is_odigit(d2) ? 1 : !spec_is_odigit(d3) ? 2 : 3;
}

static inline unsigned
spec_octal_value(unsigned char d1, unsigned char d2, unsigned char d3)
{
	unsigned k = spec_octal_ndigits(d1, d2, d3);

	return k == 1 ? d1 - 0x30u : k == 2 ? (d1 - 0x30u) * 8 + (d2 - 0x30u) : (d1 - 0x30u) * 64 + (d2 - 0x30u) * 8 + (d3 - 0x30u);
}

#endif
