/*
 * spec/c_bitfield.h -- oracle: bit-field access, from C11 6.7.2.1p9-10 (a bit-field of width w "is interpreted
 * as having a signed or unsigned integer type consisting of the specified number of bits"), 6.5.16p3 (the value
 * of an assignment expression is the value of the left operand after the assignment), 6.3.1.3 (conversion to
 * that w-bit type: modulo 2^w for unsigned; for signed the implementation-defined choice of gcc/clang and of
 * every psABI target: reduce modulo 2^w into range) and the psABI bit-field layout of the little-endian targets
 * (x86-64 SysV 3.1.2, AAPCS64 10.1.8, RISC-V): a field that has `before` bits of its storage unit in front of
 * it occupies bits [before, before + w) of the unit read as a little-endian integer.
 * Loop-free; needs verif.h typedefs.
 */
#ifndef SPEC_C_BITFIELD_H
#define SPEC_C_BITFIELD_H

static inline u64
spec_lowmask(unsigned w)          /* w in 1..64 */
{
	return w >= 64 ? ~0ull : (1ull << w) - 1;
}

/* the bits of the storage unit that belong to the field */
static inline u64
spec_bf_mask(unsigned w, unsigned before)
{
	return spec_lowmask(w) << before;
}

/* 6.3.1.3: v converted to the w-bit (un)signed type, as a canonical 64-bit carrier */
static inline u64
spec_bf_conv(u64 v, unsigned w, bool sg)
{
	u64 lo = v & spec_lowmask(w);

	if (sg && ((lo >> (w - 1)) & 1))
		lo |= ~spec_lowmask(w);
	return lo;
}

/* storage unit after `field = v`: the field's bits are replaced, every other bit is kept */
static inline u64
spec_bf_insert(u64 unit, u64 v, unsigned w, unsigned before)
{
	return (unit & ~spec_bf_mask(w, before)) | ((v << before) & spec_bf_mask(w, before));
}

/* value of the field held by a storage unit */
static inline u64
spec_bf_extract(u64 unit, unsigned w, unsigned before, bool sg)
{
	return spec_bf_conv(unit >> before, w, sg);
}

#endif
