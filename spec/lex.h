/*
 * lex.h -- lexical oracle written from ISO/IEC 9899:2011 (C11) 6.4, for the scanner units (C13).
 *
 * Everything here is LOOP-FREE (tables are X-macro lists expanded into if-chains by the preprocessor; a table walked
 * by a string loop made an earlier unit vacuous under unwinding).  Nothing here is derived from scan.c/pp.c.
 *
 * Include AFTER the real translation unit (needs enum tokenkind of cc.h).
 *
 * Characters are ints: 0..255 = a source byte, LEX_EOF (-1) = end of input.  "Logical" characters = the source after
 * translation phase 2 (5.1.1.2p1: each backslash immediately followed by new-line deleted).
 *
 * Scope limits (stated as unit assumptions where used): basic source character set = ASCII; bytes >= 0x80 and
 * universal character names are not identifier characters (6.4.2.1 leaves other characters implementation-defined).
 */
#ifndef SPEC_LEX_H
#define SPEC_LEX_H

#define LEX_EOF (-1)

/* oracle code is specification, not cproc code: it must not add safety obligations of its own to a unit's C19 count */
#pragma CPROVER check push
#pragma CPROVER check disable "pointer"
#pragma CPROVER check disable "bounds"
#pragma CPROVER check disable "pointer-overflow"
#pragma CPROVER check disable "signed-overflow"
#pragma CPROVER check disable "conversion"

/* ------------------------------------------------------------------ 6.4.2.1 / 5.2.1 character classes */
static inline int lex_isdigit(int c)    { return c >= '0' && c <= '9'; }
static inline int lex_isnondigit(int c) { return c == '_' || (c >= 'a' && c <= 'z') || (c >= 'A' && c <= 'Z'); }
static inline int lex_isidchar(int c)   { return lex_isdigit(c) || lex_isnondigit(c); }
/* 6.4p3 white space inside a line: space, horizontal tab, vertical tab, form feed (new-line is its own token in
   translation phases 1-4, 5.1.1.2p1(3)) */
static inline int lex_isblank(int c)    { return c == ' ' || c == '\t' || c == '\v' || c == '\f'; }

/* ------------------------------------------------------------------ 6.4.6 punctuators
 *   [ ] ( ) { } . ->   ++ -- & * + - ~ !   / % << >> < > <= >= == != ^ | && ||   ? : ; ...
 *   = *= /= %= += -= <<= >>= &= ^= |=   , # ##   <: :> <% %> %: %:%:
 * 6.4.6p3: the digraphs <: :> <% %> %: %:%: behave as [ ] { } # ## .
 * `::` is the one punctuator C23 (6.4.6) adds; cproc has a kind for it (TCOLONCOLON); two adjacent colons cannot occur
 * in a valid C11 token sequence, so listing it does not change the tokenisation of any valid C11 program.
 *
 * X(length, c0, c1, c2, c3, kind, is_digraph) -- LONGEST FIRST, so the first matching entry is the longest
 * punctuator that is a prefix of the input (6.4p4 "the longest sequence of characters that could constitute a
 * preprocessing token").
 */
#define LEX_PUNCTUATORS(X) \
	X(4, '%', ':', '%', ':', THASHHASH,   1) \
	X(3, '.', '.', '.', 0,   TELLIPSIS,   0) \
	X(3, '<', '<', '=', 0,   TSHLASSIGN,  0) \
	X(3, '>', '>', '=', 0,   TSHRASSIGN,  0) \
	X(2, '-', '>', 0, 0,     TARROW,      0) \
	X(2, '+', '+', 0, 0,     TINC,        0) \
	X(2, '-', '-', 0, 0,     TDEC,        0) \
	X(2, '<', '<', 0, 0,     TSHL,        0) \
	X(2, '>', '>', 0, 0,     TSHR,        0) \
	X(2, '<', '=', 0, 0,     TLEQ,        0) \
	X(2, '>', '=', 0, 0,     TGEQ,        0) \
	X(2, '=', '=', 0, 0,     TEQL,        0) \
	X(2, '!', '=', 0, 0,     TNEQ,        0) \
	X(2, '&', '&', 0, 0,     TLAND,       0) \
	X(2, '|', '|', 0, 0,     TLOR,        0) \
	X(2, '*', '=', 0, 0,     TMULASSIGN,  0) \
	X(2, '/', '=', 0, 0,     TDIVASSIGN,  0) \
	X(2, '%', '=', 0, 0,     TMODASSIGN,  0) \
	X(2, '+', '=', 0, 0,     TADDASSIGN,  0) \
	X(2, '-', '=', 0, 0,     TSUBASSIGN,  0) \
	X(2, '&', '=', 0, 0,     TBANDASSIGN, 0) \
	X(2, '^', '=', 0, 0,     TXORASSIGN,  0) \
	X(2, '|', '=', 0, 0,     TBORASSIGN,  0) \
	X(2, '#', '#', 0, 0,     THASHHASH,   0) \
	X(2, '<', ':', 0, 0,     TLBRACK,     1) \
	X(2, ':', '>', 0, 0,     TRBRACK,     1) \
	X(2, '<', '%', 0, 0,     TLBRACE,     1) \
	X(2, '%', '>', 0, 0,     TRBRACE,     1) \
	X(2, '%', ':', 0, 0,     THASH,       1) \
	X(2, ':', ':', 0, 0,     TCOLONCOLON, 0) \
	X(1, '[', 0, 0, 0,       TLBRACK,     0) \
	X(1, ']', 0, 0, 0,       TRBRACK,     0) \
	X(1, '(', 0, 0, 0,       TLPAREN,     0) \
	X(1, ')', 0, 0, 0,       TRPAREN,     0) \
	X(1, '{', 0, 0, 0,       TLBRACE,     0) \
	X(1, '}', 0, 0, 0,       TRBRACE,     0) \
	X(1, '.', 0, 0, 0,       TPERIOD,     0) \
	X(1, '&', 0, 0, 0,       TBAND,       0) \
	X(1, '*', 0, 0, 0,       TMUL,        0) \
	X(1, '+', 0, 0, 0,       TADD,        0) \
	X(1, '-', 0, 0, 0,       TSUB,        0) \
	X(1, '~', 0, 0, 0,       TBNOT,       0) \
	X(1, '!', 0, 0, 0,       TLNOT,       0) \
	X(1, '/', 0, 0, 0,       TDIV,        0) \
	X(1, '%', 0, 0, 0,       TMOD,        0) \
	X(1, '<', 0, 0, 0,       TLESS,       0) \
	X(1, '>', 0, 0, 0,       TGREATER,    0) \
	X(1, '^', 0, 0, 0,       TXOR,        0) \
	X(1, '|', 0, 0, 0,       TBOR,        0) \
	X(1, '?', 0, 0, 0,       TQUESTION,   0) \
	X(1, ':', 0, 0, 0,       TCOLON,      0) \
	X(1, ';', 0, 0, 0,       TSEMICOLON,  0) \
	X(1, '=', 0, 0, 0,       TASSIGN,     0) \
	X(1, ',', 0, 0, 0,       TCOMMA,      0) \
	X(1, '#', 0, 0, 0,       THASH,       0)

#define LEX_PMATCH(n, a, b, c, d) \
	(c0 == (a) && ((n) < 2 || c1 == (b)) && ((n) < 3 || c2 == (c)) && ((n) < 4 || c3 == (d)))

/* kind of the longest punctuator that is a prefix of c0 c1 c2 c3 ..., TNONE if there is none */
static inline int
lex_punct_kind(int c0, int c1, int c2, int c3)
{
#define LEX_X(n, a, b, c, d, kind, dg) if (LEX_PMATCH(n, a, b, c, d)) return kind;
	LEX_PUNCTUATORS(LEX_X)
#undef LEX_X
	return TNONE;
}

/* its length in characters, 0 if there is none */
static inline int
lex_punct_len(int c0, int c1, int c2, int c3)
{
#define LEX_X(n, a, b, c, d, kind, dg) if (LEX_PMATCH(n, a, b, c, d)) return n;
	LEX_PUNCTUATORS(LEX_X)
#undef LEX_X
	return 0;
}

/* whether that longest punctuator is one of the 6.4.6p3 digraph spellings */
static inline int
lex_punct_isdigraph(int c0, int c1, int c2, int c3)
{
#define LEX_X(n, a, b, c, d, kind, dg) if (LEX_PMATCH(n, a, b, c, d)) return dg;
	LEX_PUNCTUATORS(LEX_X)
#undef LEX_X
	return 0;
}

/* whether the input starts with a digraph spelling at all (`%:%` + non-':' starts with `%:`) */
static inline int
lex_starts_digraph(int c0, int c1)
{
	return (c0 == '<' && (c1 == ':' || c1 == '%')) || (c0 == ':' && c1 == '>') || (c0 == '%' && (c1 == '>' || c1 == ':'));
}

/* ------------------------------------------------------------------ 6.4.8 preprocessing numbers
 *   pp-number: digit | . digit | pp-number digit | pp-number identifier-nondigit
 *            | pp-number e sign | pp-number E sign | pp-number p sign | pp-number P sign | pp-number .
 * A pp-number starts with a digit or with '.' digit; a character c after previous character `prev` continues it iff
 * c is a digit, an identifier-nondigit, '.', or a sign DIRECTLY after e E p P.
 */
static inline int lex_ppnum_starts(int c0, int c1) { return lex_isdigit(c0) || (c0 == '.' && lex_isdigit(c1)); }
static inline int lex_isexp(int c) { return c == 'e' || c == 'E' || c == 'p' || c == 'P'; }
static inline int
lex_ppnum_cont(int prev, int c)
{
	return lex_isdigit(c) || lex_isnondigit(c) || c == '.' || ((c == '+' || c == '-') && lex_isexp(prev));
}

/* length of the longest pp-number that is a prefix of c[0..LEX_PPMAX) (c[i] == LEX_EOF past the end); 0 if none;
   LEX_PPMAX if the number does not end within the window */
#define LEX_PPMAX 16
static inline int
lex_ppnum_len(const int *c)
{
	int len;

	if (!lex_ppnum_starts(c[0], c[1]))
		return 0;
	len = 1;
#define LEX_PPSTEP(i) if (len == (i) && lex_ppnum_cont(c[(i) - 1], c[i])) len = (i) + 1;
	LEX_PPSTEP(1) LEX_PPSTEP(2) LEX_PPSTEP(3) LEX_PPSTEP(4) LEX_PPSTEP(5) LEX_PPSTEP(6) LEX_PPSTEP(7) LEX_PPSTEP(8)
	LEX_PPSTEP(9) LEX_PPSTEP(10) LEX_PPSTEP(11) LEX_PPSTEP(12) LEX_PPSTEP(13) LEX_PPSTEP(14) LEX_PPSTEP(15)
#undef LEX_PPSTEP
	return len;
}

/* ------------------------------------------------------------------ 6.4.2 identifiers */
/* length of the longest identifier that is a prefix of c[0..LEX_PPMAX) */
static inline int
lex_ident_len(const int *c)
{
	int len;

	if (!lex_isnondigit(c[0]))
		return 0;
	len = 1;
#define LEX_IDSTEP(i) if (len == (i) && lex_isidchar(c[i])) len = (i) + 1;
	LEX_IDSTEP(1) LEX_IDSTEP(2) LEX_IDSTEP(3) LEX_IDSTEP(4) LEX_IDSTEP(5) LEX_IDSTEP(6) LEX_IDSTEP(7) LEX_IDSTEP(8)
	LEX_IDSTEP(9) LEX_IDSTEP(10) LEX_IDSTEP(11) LEX_IDSTEP(12) LEX_IDSTEP(13) LEX_IDSTEP(14) LEX_IDSTEP(15)
#undef LEX_IDSTEP
	return len;
}

/* ------------------------------------------------------------------ 6.4.9 comments
 * c[0] is the character AFTER the '/' that may open a comment.
 *   c[0] == '/' :  "//" introduces a comment that includes all characters up to, BUT NOT INCLUDING, the next new-line
 *                  (6.4.9p2).  lex_linecomment_end = index of that new-line (or of the end of file).
 *   c[0] == '*' :  "/" "*" introduces a comment that ends with the first following "*" "/" (6.4.9p1); the '*' of the
 *                  opener is not part of a terminator ("/" "*" "/" is not a complete comment).  lex_blockcomment_end = index
 *                  of the '/' of the terminator, 0 if the comment is not terminated inside the window.
 * 5.1.1.2p1(3): each comment is replaced by one space character.
 */
#define LEX_CMAX 16
static inline int
lex_linecomment_end(const int *c)
{
#define LEX_LCSTEP(i) if (c[i] == '\n' || c[i] == LEX_EOF) return (i);
	LEX_LCSTEP(1) LEX_LCSTEP(2) LEX_LCSTEP(3) LEX_LCSTEP(4) LEX_LCSTEP(5) LEX_LCSTEP(6) LEX_LCSTEP(7) LEX_LCSTEP(8)
	LEX_LCSTEP(9) LEX_LCSTEP(10) LEX_LCSTEP(11) LEX_LCSTEP(12) LEX_LCSTEP(13) LEX_LCSTEP(14) LEX_LCSTEP(15)
#undef LEX_LCSTEP
	return LEX_CMAX;
}

static inline int
lex_blockcomment_end(const int *c)
{
#define LEX_BCSTEP(i) if (c[(i) - 1] == '*' && c[i] == '/') return (i);
	LEX_BCSTEP(2) LEX_BCSTEP(3) LEX_BCSTEP(4) LEX_BCSTEP(5) LEX_BCSTEP(6) LEX_BCSTEP(7) LEX_BCSTEP(8)
	LEX_BCSTEP(9) LEX_BCSTEP(10) LEX_BCSTEP(11) LEX_BCSTEP(12) LEX_BCSTEP(13) LEX_BCSTEP(14) LEX_BCSTEP(15)
#undef LEX_BCSTEP
	return 0;
}

/* ------------------------------------------------------------------ 6.4p3 / 5.1.1.2p1(3): what separates tokens
 * White space (blanks; new-line is kept as a token in phases 1-4) and comments may precede a token; each comment is
 * replaced by one space.  lex_skip(c) = index of the first character of the first token of c[], i.e. after every
 * leading blank and comment; -1 if a block comment is not terminated (6.4.9: then there is no token sequence at all).
 * c[] must be readable up to index LEX_SKIPMAX + LEX_CMAX + 1 (LEX_EOF-filled past the end of the file).
 */
#define LEX_SKIPMAX 10
static inline int
lex_skip_step(const int *c, int p)
{
	int e;

	if (lex_isblank(c[p]))
		return p + 1;
	if (c[p] == '/' && c[p + 1] == '/')
		return p + 1 + lex_linecomment_end(c + p + 1);
	if (c[p] == '/' && c[p + 1] == '*') {
		e = lex_blockcomment_end(c + p + 1);
		return e ? p + 1 + e + 1 : -1;
	}
	return p;
}

static inline int
lex_skip(const int *c)
{
	int p = 0;
#define LEX_SKSTEP if (p >= 0 && p < LEX_SKIPMAX) p = lex_skip_step(c, p);
	LEX_SKSTEP LEX_SKSTEP LEX_SKSTEP LEX_SKSTEP LEX_SKSTEP LEX_SKSTEP LEX_SKSTEP LEX_SKSTEP LEX_SKSTEP LEX_SKSTEP
#undef LEX_SKSTEP
	return p;
}

/* ------------------------------------------------------------------ 6.4.4.4 / 6.4.5 encoding prefixes
 * character-constant: ' L' u' U'   (C23 N2418, implemented per /repo/doc/c23.md: u8')
 * string-literal:     " u8" u" U" L"
 * The prefix is part of the literal only when the quote follows IMMEDIATELY; otherwise u8/u/U/L start an identifier.
 * Returns the prefix length (0 = no prefixed literal starts here).
 */
static inline int
lex_prefix_len(int c0, int c1, int c2)
{
	if ((c0 == 'u' || c0 == 'U' || c0 == 'L') && (c1 == '"' || c1 == '\''))
		return 1;
	if (c0 == 'u' && c1 == '8' && (c2 == '"' || c2 == '\''))
		return 2;
	return 0;
}

/* ------------------------------------------------------------------ 6.4 token classes (what starts at c0 c1 c2) */
enum lex_class {
	LEX_C_EOF, LEX_C_BLANK, LEX_C_NEWLINE, LEX_C_COMMENT, LEX_C_PUNCT, LEX_C_NUMBER, LEX_C_IDENT,
	LEX_C_CHARCONST, LEX_C_STRING, LEX_C_OTHER
};

static inline int
lex_class(int c0, int c1, int c2)
{
	int p;

	if (c0 == LEX_EOF) return LEX_C_EOF;
	if (lex_isblank(c0)) return LEX_C_BLANK;
	if (c0 == '\n') return LEX_C_NEWLINE;
	if (c0 == '/' && (c1 == '/' || c1 == '*')) return LEX_C_COMMENT;        /* 6.4.9 */
	if (lex_ppnum_starts(c0, c1)) return LEX_C_NUMBER;
	p = lex_prefix_len(c0, c1, c2);
	if (c0 == '\'' || (p == 1 && c1 == '\'') || (p == 2 && c2 == '\'')) return LEX_C_CHARCONST;
	if (c0 == '"' || (p == 1 && c1 == '"') || (p == 2 && c2 == '"')) return LEX_C_STRING;
	if (lex_isnondigit(c0)) return LEX_C_IDENT;
	if (lex_punct_len(c0, c1, c2, LEX_EOF)) return LEX_C_PUNCT;
	return LEX_C_OTHER;     /* 6.4p1 "each non-white-space character that cannot be one of the above" */
}

/* ------------------------------------------------------------------ 6.4.1 keywords
 * C11 6.4.1p1 (44 keywords), the C23 6.4.1 additions, and the GNU alternate spellings
 * (gcc manual "Alternate Keywords": __asm__ __inline__ __typeof__ __signed__ __volatile__ __alignof__ ..., plus
 * __attribute__, __thread) as far as cproc claims them (its keyword table / token kinds).  The KIND is derived from the
 * standard's name of the keyword: every spelling of the same keyword maps to that keyword's single token kind.
 *
 * X(spelling, kind, group)   group: 11 = C11, 23 = C23 addition, 0 = GNU alternate spelling
 */
#define LEX_KEYWORDS(X) \
	X("auto", TAUTO, 11) X("break", TBREAK, 11) X("case", TCASE, 11) X("char", TCHAR, 11) X("const", TCONST, 11) \
	X("continue", TCONTINUE, 11) X("default", TDEFAULT, 11) X("do", TDO, 11) X("double", TDOUBLE, 11) \
	X("else", TELSE, 11) X("enum", TENUM, 11) X("extern", TEXTERN, 11) X("float", TFLOAT, 11) X("for", TFOR, 11) \
	X("goto", TGOTO, 11) X("if", TIF, 11) X("inline", TINLINE, 11) X("int", TINT, 11) X("long", TLONG, 11) \
	X("register", TREGISTER, 11) X("restrict", TRESTRICT, 11) X("return", TRETURN, 11) X("short", TSHORT, 11) \
	X("signed", TSIGNED, 11) X("sizeof", TSIZEOF, 11) X("static", TSTATIC, 11) X("struct", TSTRUCT, 11) \
	X("switch", TSWITCH, 11) X("typedef", TTYPEDEF, 11) X("union", TUNION, 11) X("unsigned", TUNSIGNED, 11) \
	X("void", TVOID, 11) X("volatile", TVOLATILE, 11) X("while", TWHILE, 11) \
	X("_Alignas", TALIGNAS, 11) X("_Alignof", TALIGNOF, 11) X("_Atomic", T_ATOMIC, 11) X("_Bool", TBOOL, 11) \
	X("_Complex", T_COMPLEX, 11) X("_Generic", T_GENERIC, 11) X("_Imaginary", T_IMAGINARY, 11) \
	X("_Noreturn", T_NORETURN, 11) X("_Static_assert", TSTATIC_ASSERT, 11) X("_Thread_local", TTHREAD_LOCAL, 11) \
	/* C23 6.4.1: new keywords and the lower-case spellings of C11 keywords */ \
	X("alignas", TALIGNAS, 23) X("alignof", TALIGNOF, 23) X("bool", TBOOL, 23) X("constexpr", TCONSTEXPR, 23) \
	X("false", TFALSE, 23) X("nullptr", TNULLPTR, 23) X("static_assert", TSTATIC_ASSERT, 23) \
	X("thread_local", TTHREAD_LOCAL, 23) X("true", TTRUE, 23) X("typeof", TTYPEOF, 23) \
	X("typeof_unqual", TTYPEOF_UNQUAL, 23) \
	X("_Decimal128", T_DECIMAL128, 23) X("_Decimal32", T_DECIMAL32, 23) X("_Decimal64", T_DECIMAL64, 23) \
	/* GNU alternate spellings */ \
	X("__alignof__", TALIGNOF, 0) X("__asm", T__ASM__, 0) X("__asm__", T__ASM__, 0) \
	X("__attribute__", T__ATTRIBUTE__, 0) X("__inline", TINLINE, 0) X("__inline__", TINLINE, 0) \
	X("__signed", TSIGNED, 0) X("__signed__", TSIGNED, 0) X("__thread", TTHREAD_LOCAL, 0) \
	X("__typeof", TTYPEOF, 0) X("__typeof__", TTYPEOF, 0) X("__volatile__", TVOLATILE, 0)

/* C23 6.4.1 keyword for which cproc has a token kind and a spelling in tokstr[] (T_BITINT = "_BitInt"); kept apart
   so that a unit can name it in a clause of its own */
#define LEX_KEYWORDS_BITINT(X) X("_BitInt", T_BITINT, 23)

/* b[0..16] is a NUL-terminated string (b[16] == 0 at the latest).  LEX_STREQ(b, "lit") compares it with a literal of at
   most 16 characters without a loop: position i is compared iff i <= strlen(lit) (the terminator included). */
#define LEX_CMP1(b, s, i) ((i) >= sizeof(s) || (b)[i] == (unsigned char)(s)[(i) < sizeof(s) ? (i) : 0])
#define LEX_STREQ(b, s) \
	(LEX_CMP1(b, s, 0) && LEX_CMP1(b, s, 1) && LEX_CMP1(b, s, 2) && LEX_CMP1(b, s, 3) && LEX_CMP1(b, s, 4) && \
	 LEX_CMP1(b, s, 5) && LEX_CMP1(b, s, 6) && LEX_CMP1(b, s, 7) && LEX_CMP1(b, s, 8) && LEX_CMP1(b, s, 9) && \
	 LEX_CMP1(b, s, 10) && LEX_CMP1(b, s, 11) && LEX_CMP1(b, s, 12) && LEX_CMP1(b, s, 13) && LEX_CMP1(b, s, 14) && \
	 LEX_CMP1(b, s, 15) && LEX_CMP1(b, s, 16))

/* token kind of the identifier spelled b after translation phase 7's keyword conversion (6.4.2.1p4): the keyword's
   kind if b is a keyword spelling, TIDENT otherwise */
static inline int
lex_keyword_kind(const unsigned char *b)
{
#define LEX_X(s, kind, grp) if (LEX_STREQ(b, s)) return kind;
	LEX_KEYWORDS(LEX_X)
#undef LEX_X
	return TIDENT;
}

static inline int
lex_is_bitint(const unsigned char *b)
{
#define LEX_X(s, kind, grp) if (LEX_STREQ(b, s)) return 1;
	LEX_KEYWORDS_BITINT(LEX_X)
#undef LEX_X
	return 0;
}

#pragma CPROVER check pop

#endif
