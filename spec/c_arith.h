/*
 * spec/c_arith.h -- oracle: C integer arithmetic on a type of `size` bytes (1,2,4,8) and given
 * signedness, written from C11 6.3.1.3 (conversions), 6.5.5-6.5.12 (operators), on 64-bit carriers.
 *
 * A value of type T is carried in a u64 as its zero-extension (unsigned T) or sign-extension
 * (signed T): "canonical".  All functions are loop-free.
 */
#ifndef SPEC_C_ARITH_H
#define SPEC_C_ARITH_H

/* C11 6.3.1.3: conversion of the (two's complement, 64-bit) value v to type (size, sg) */
static inline u64
spec_wrap(u64 v, unsigned size, bool sg)
{
	/* the host C compiler's own conversions ARE 6.3.1.3 (two's complement, LP64) */
	switch (size) {
	case 1: return sg ? (u64)(i64)(int8_t)v : (u64)(uint8_t)v;
	case 2: return sg ? (u64)(i64)(int16_t)v : (u64)(uint16_t)v;
	case 4: return sg ? (u64)(i64)(int32_t)v : (u64)(uint32_t)v;
	}
	return v;
}

static inline bool
spec_canon(u64 v, unsigned size, bool sg)
{
	return spec_wrap(v, size, sg) == v;
}

static inline u64
spec_min_signed(unsigned size)
{
	return -(1ull << (8 * size - 1));   /* as canonical sign-extended carrier */
}

/* is `a op b` given a value by C (no UB) -- for / % << >> only; the others are total here
 * (signed + - * wrap, which is what the emitted IL does at run time too)                   */
static inline bool
spec_divdefined(u64 a, u64 b, unsigned size, bool sg)
{
	if (b == 0)
		return 0;
	if (sg && a == spec_min_signed(size) && b == (u64)-1)
		return 0;
	return 1;
}

static inline bool
spec_shiftdefined(u64 b, unsigned size)
{
	return b < 8 * size;    /* covers "negative" (huge as u64) counts too */
}

static inline u64 spec_add(u64 a, u64 b, unsigned sz, bool sg) { return spec_wrap(a + b, sz, sg); }
static inline u64 spec_sub(u64 a, u64 b, unsigned sz, bool sg) { return spec_wrap(a - b, sz, sg); }
static inline u64 spec_mul(u64 a, u64 b, unsigned sz, bool sg) { return spec_wrap(a * b, sz, sg); }
static inline u64 spec_and(u64 a, u64 b, unsigned sz, bool sg) { return spec_wrap(a & b, sz, sg); }
static inline u64 spec_or (u64 a, u64 b, unsigned sz, bool sg) { return spec_wrap(a | b, sz, sg); }
static inline u64 spec_xor(u64 a, u64 b, unsigned sz, bool sg) { return spec_wrap(a ^ b, sz, sg); }
static inline u64 spec_neg(u64 a, unsigned sz, bool sg)        { return spec_wrap(0 - a, sz, sg); }

/* truncating division on canonical carriers: the carriers ARE the values */
static inline u64
spec_div(u64 a, u64 b, unsigned sz, bool sg)
{
	if (sg)
		return spec_wrap((u64)((i64)a / (i64)b), sz, sg);
	return spec_wrap(a / b, sz, sg);
}

static inline u64
spec_mod(u64 a, u64 b, unsigned sz, bool sg)
{
	if (sg)
		return spec_wrap((u64)((i64)a % (i64)b), sz, sg);
	return spec_wrap(a % b, sz, sg);
}

static inline u64
spec_shl(u64 a, u64 b, unsigned sz, bool sg)
{
	return spec_wrap(a << b, sz, sg);
}

/* >> : logical for unsigned, arithmetic for signed (implementation-defined in C; every
 * supported target and QBE's sar do this) */
static inline u64
spec_shr(u64 a, u64 b, unsigned sz, bool sg)
{
	if (sg)
		return spec_wrap((u64)((i64)a >> b), sz, sg);
	return spec_wrap(a >> b, sz, sg);
}

static inline bool spec_lt(u64 a, u64 b, bool sg) { return sg ? (i64)a < (i64)b : a < b; }
static inline bool spec_le(u64 a, u64 b, bool sg) { return sg ? (i64)a <= (i64)b : a <= b; }


/* Macro forms of the expensive operators.  CBMC shares a multiplier/divider circuit between code and
 * oracle only if both are applied to syntactically the same operand expressions; a spec FUNCTION
 * copies its arguments into parameters (new SSA symbols) and the 64-bit equivalence then has to be
 * proved by the SAT solver (did not finish in 100 s).  a, b: canonical u64 carriers; ai, bi: the same
 * values as i64 lvalues/expressions. */
#define SPEC_MUL(a, b, sz, sg)          spec_wrap((a) * (b), sz, sg)
#define SPEC_DIV(a, b, ai, bi, sz, sg)  spec_wrap((sg) ? (u64)((ai) / (bi)) : (a) / (b), sz, sg)
#define SPEC_MOD(a, b, ai, bi, sz, sg)  spec_wrap((sg) ? (u64)((ai) % (bi)) : (a) % (b), sz, sg)

#endif
