/*
 * spec/c_declspec.h -- oracle: C11 6.7.2p2, the type-specifier multisets and the type each one names.
 * Written from the standard's text; loop-free.
 *
 *  6.7.2p2 "At least one type specifier shall be given in the declaration specifiers in each declaration, and in the
 *  specifier-qualifier list in each struct declaration and type name.  Each list of type specifiers shall be one of the
 *  following multisets (delimited by commas, when there is more than one multiset per item); the type specifiers may
 *  occur in any order, possibly intermixed with the other declaration specifiers.
 *    - void                                  - char               - signed char          - unsigned char
 *    - short, signed short, short int, or signed short int        - unsigned short, or unsigned short int
 *    - int, signed, or signed int                                 - unsigned, or unsigned int
 *    - long, signed long, long int, or signed long int            - unsigned long, or unsigned long int
 *    - long long, signed long long, long long int, or signed long long int
 *    - unsigned long long, or unsigned long long int
 *    - float              - double           - long double        - _Bool
 *    - float _Complex     - double _Complex  - long double _Complex
 *    - atomic type specifier   - struct or union specifier   - enum specifier   - typedef name"
 *  6.2.5p15: char, signed char and unsigned char are three distinct types.
 *
 * The multiset is given as a count per keyword; `other` counts atomic/struct/union/enum specifiers and typedef names.
 */
#ifndef SPEC_C_DECLSPEC_H
#define SPEC_C_DECLSPEC_H

#pragma CPROVER check push
#pragma CPROVER check disable "signed-overflow"
#pragma CPROVER check disable "unsigned-overflow"
#pragma CPROVER check disable "pointer"
#pragma CPROVER check disable "bounds"

enum spec_ts {
	SPEC_TS_INVALID = -1,   /* not one of the multisets of 6.7.2p2 */
	SPEC_TS_NONE,           /* empty multiset */
	SPEC_TS_VOID, SPEC_TS_CHAR, SPEC_TS_SCHAR, SPEC_TS_UCHAR, SPEC_TS_SHORT, SPEC_TS_USHORT, SPEC_TS_INT, SPEC_TS_UINT,
	SPEC_TS_LONG, SPEC_TS_ULONG, SPEC_TS_LLONG, SPEC_TS_ULLONG, SPEC_TS_FLOAT, SPEC_TS_DOUBLE, SPEC_TS_LDOUBLE, SPEC_TS_BOOL,
	SPEC_TS_FCOMPLEX, SPEC_TS_DCOMPLEX, SPEC_TS_LDCOMPLEX,
	SPEC_TS_OTHER           /* exactly one atomic/struct/union/enum specifier or typedef name, and nothing else */
};

struct spec_tscount {
	unsigned n_void, n_char, n_short, n_int, n_long, n_float, n_double, n_signed, n_unsigned, n_bool, n_complex, n_other;
};

/* the multiset is exactly { void^v char^c short^sh int^i long^l float^f double^d signed^sg unsigned^us _Bool^b _Complex^cx other^o } */
#define SPEC_TS_IS(n, v, c, sh, i, l, f, d, sg, us, b, cx, o) \
	((n)->n_void == (v) && (n)->n_char == (c) && (n)->n_short == (sh) && (n)->n_int == (i) && (n)->n_long == (l) && \
	 (n)->n_float == (f) && (n)->n_double == (d) && (n)->n_signed == (sg) && (n)->n_unsigned == (us) && (n)->n_bool == (b) && \
	 (n)->n_complex == (cx) && (n)->n_other == (o))

static inline int
spec_typespec(const struct spec_tscount *n)
{
	/*                  v  c  sh i  l  f  d  sg us b  cx o */
	if (SPEC_TS_IS(n, 0, 0, 0, 0, 0, 0, 0, 0, 0, 0, 0, 0)) return SPEC_TS_NONE;
	if (SPEC_TS_IS(n, 1, 0, 0, 0, 0, 0, 0, 0, 0, 0, 0, 0)) return SPEC_TS_VOID;        /* void */
	if (SPEC_TS_IS(n, 0, 1, 0, 0, 0, 0, 0, 0, 0, 0, 0, 0)) return SPEC_TS_CHAR;        /* char */
	if (SPEC_TS_IS(n, 0, 1, 0, 0, 0, 0, 0, 1, 0, 0, 0, 0)) return SPEC_TS_SCHAR;       /* signed char */
	if (SPEC_TS_IS(n, 0, 1, 0, 0, 0, 0, 0, 0, 1, 0, 0, 0)) return SPEC_TS_UCHAR;       /* unsigned char */
	if (SPEC_TS_IS(n, 0, 0, 1, 0, 0, 0, 0, 0, 0, 0, 0, 0)) return SPEC_TS_SHORT;       /* short */
	if (SPEC_TS_IS(n, 0, 0, 1, 0, 0, 0, 0, 1, 0, 0, 0, 0)) return SPEC_TS_SHORT;       /* signed short */
	if (SPEC_TS_IS(n, 0, 0, 1, 1, 0, 0, 0, 0, 0, 0, 0, 0)) return SPEC_TS_SHORT;       /* short int */
	if (SPEC_TS_IS(n, 0, 0, 1, 1, 0, 0, 0, 1, 0, 0, 0, 0)) return SPEC_TS_SHORT;       /* signed short int */
	if (SPEC_TS_IS(n, 0, 0, 1, 0, 0, 0, 0, 0, 1, 0, 0, 0)) return SPEC_TS_USHORT;      /* unsigned short */
	if (SPEC_TS_IS(n, 0, 0, 1, 1, 0, 0, 0, 0, 1, 0, 0, 0)) return SPEC_TS_USHORT;      /* unsigned short int */
	if (SPEC_TS_IS(n, 0, 0, 0, 1, 0, 0, 0, 0, 0, 0, 0, 0)) return SPEC_TS_INT;         /* int */
	if (SPEC_TS_IS(n, 0, 0, 0, 0, 0, 0, 0, 1, 0, 0, 0, 0)) return SPEC_TS_INT;         /* signed */
	if (SPEC_TS_IS(n, 0, 0, 0, 1, 0, 0, 0, 1, 0, 0, 0, 0)) return SPEC_TS_INT;         /* signed int */
	if (SPEC_TS_IS(n, 0, 0, 0, 0, 0, 0, 0, 0, 1, 0, 0, 0)) return SPEC_TS_UINT;        /* unsigned */
	if (SPEC_TS_IS(n, 0, 0, 0, 1, 0, 0, 0, 0, 1, 0, 0, 0)) return SPEC_TS_UINT;        /* unsigned int */
	if (SPEC_TS_IS(n, 0, 0, 0, 0, 1, 0, 0, 0, 0, 0, 0, 0)) return SPEC_TS_LONG;        /* long */
	if (SPEC_TS_IS(n, 0, 0, 0, 0, 1, 0, 0, 1, 0, 0, 0, 0)) return SPEC_TS_LONG;        /* signed long */
	if (SPEC_TS_IS(n, 0, 0, 0, 1, 1, 0, 0, 0, 0, 0, 0, 0)) return SPEC_TS_LONG;        /* long int */
	if (SPEC_TS_IS(n, 0, 0, 0, 1, 1, 0, 0, 1, 0, 0, 0, 0)) return SPEC_TS_LONG;        /* signed long int */
	if (SPEC_TS_IS(n, 0, 0, 0, 0, 1, 0, 0, 0, 1, 0, 0, 0)) return SPEC_TS_ULONG;       /* unsigned long */
	if (SPEC_TS_IS(n, 0, 0, 0, 1, 1, 0, 0, 0, 1, 0, 0, 0)) return SPEC_TS_ULONG;       /* unsigned long int */
	if (SPEC_TS_IS(n, 0, 0, 0, 0, 2, 0, 0, 0, 0, 0, 0, 0)) return SPEC_TS_LLONG;       /* long long */
	if (SPEC_TS_IS(n, 0, 0, 0, 0, 2, 0, 0, 1, 0, 0, 0, 0)) return SPEC_TS_LLONG;       /* signed long long */
	if (SPEC_TS_IS(n, 0, 0, 0, 1, 2, 0, 0, 0, 0, 0, 0, 0)) return SPEC_TS_LLONG;       /* long long int */
	if (SPEC_TS_IS(n, 0, 0, 0, 1, 2, 0, 0, 1, 0, 0, 0, 0)) return SPEC_TS_LLONG;       /* signed long long int */
	if (SPEC_TS_IS(n, 0, 0, 0, 0, 2, 0, 0, 0, 1, 0, 0, 0)) return SPEC_TS_ULLONG;      /* unsigned long long */
	if (SPEC_TS_IS(n, 0, 0, 0, 1, 2, 0, 0, 0, 1, 0, 0, 0)) return SPEC_TS_ULLONG;      /* unsigned long long int */
	if (SPEC_TS_IS(n, 0, 0, 0, 0, 0, 1, 0, 0, 0, 0, 0, 0)) return SPEC_TS_FLOAT;       /* float */
	if (SPEC_TS_IS(n, 0, 0, 0, 0, 0, 0, 1, 0, 0, 0, 0, 0)) return SPEC_TS_DOUBLE;      /* double */
	if (SPEC_TS_IS(n, 0, 0, 0, 0, 1, 0, 1, 0, 0, 0, 0, 0)) return SPEC_TS_LDOUBLE;     /* long double */
	if (SPEC_TS_IS(n, 0, 0, 0, 0, 0, 0, 0, 0, 0, 1, 0, 0)) return SPEC_TS_BOOL;        /* _Bool */
	if (SPEC_TS_IS(n, 0, 0, 0, 0, 0, 1, 0, 0, 0, 0, 1, 0)) return SPEC_TS_FCOMPLEX;    /* float _Complex */
	if (SPEC_TS_IS(n, 0, 0, 0, 0, 0, 0, 1, 0, 0, 0, 1, 0)) return SPEC_TS_DCOMPLEX;    /* double _Complex */
	if (SPEC_TS_IS(n, 0, 0, 0, 0, 1, 0, 1, 0, 0, 0, 1, 0)) return SPEC_TS_LDCOMPLEX;   /* long double _Complex */
	if (SPEC_TS_IS(n, 0, 0, 0, 0, 0, 0, 0, 0, 0, 0, 0, 1)) return SPEC_TS_OTHER;       /* atomic/struct/union/enum specifier, typedef name */
	return SPEC_TS_INVALID;
}

#pragma CPROVER check pop
#endif
