/*
 * lex_lit.h -- oracle for the TEXT of character constants and string literals as preprocessing tokens, written from
 * ISO/IEC 9899:2011 6.4.4.4 (character constants), 6.4.5 (string literals) and 6.4.3 (universal character names).
 * LOOP-FREE (macro-unrolled over a window of LEX_LITMAX characters, constant indices only).  Include after lex.h.
 *
 *   character-constant:  [L u U (u8: C23)] ' c-char-sequence '
 *   string-literal:      [u8 u U L] " s-char-sequence(opt) "
 *   c-char / s-char:     any member of the source character set except the quote, backslash, new-line; or an
 *                        escape-sequence
 *   escape-sequence:     \' \" \? \\ \a \b \f \n \r \t \v            (simple)
 *                        \ octal-digit{1,3}                          (octal)
 *                        \x hexadecimal-digit+                       (hexadecimal)
 *                        \u hex-quad   \U hex-quad hex-quad          (universal character name, 6.4.3)
 *
 * Consequences used by the units: the literal ends at the first matching quote that is not the second character of an
 * escape sequence (\" and \' are the only escapes that contain a quote; \\ is complete after its second character,
 * so the quote in \\" does end the literal); every character between the quotes belongs to the token text unchanged
 * (escapes are not decoded before translation phase 5/7); a new-line or the end of the file before the closing quote
 * means there is no literal (6.4p3: the lone quote is then undefined behaviour -- cproc diagnoses, which the property
 * statements C14/C19 rely on); a backslash followed by anything else than the above starts no escape sequence.
 * A NUL byte is not a member of the source character set cproc accepts inside literals (the token text is a C string).
 *
 * c[0] is the opening quote; c[] must be readable up to index LEX_LITMAX + 10 (LEX_EOF-filled past the end of file).
 */
#ifndef SPEC_LEX_LIT_H
#define SPEC_LEX_LIT_H

#pragma CPROVER check push
#pragma CPROVER check disable "pointer"
#pragma CPROVER check disable "bounds"
#pragma CPROVER check disable "pointer-overflow"
#pragma CPROVER check disable "signed-overflow"
#pragma CPROVER check disable "conversion"

static inline int lex_ishex(int c) { return (c >= '0' && c <= '9') || (c >= 'a' && c <= 'f') || (c >= 'A' && c <= 'F'); }
static inline int lex_isoct(int c) { return c >= '0' && c <= '7'; }
static inline int
lex_issimple_esc(int c)
{
	return c == '\'' || c == '"' || c == '?' || c == '\\' || c == 'a' || c == 'b' || c == 'f' || c == 'n' ||
	       c == 'r' || c == 't' || c == 'v';
}

/* c[0] == '\\': a universal character name starts here (6.4.3p1 syntax; the value constraints of 6.4.3p2 are phase 7's) */
static inline int
lex_ucn_ok(const int *c)
{
	if (c[1] == 'u')
		return lex_ishex(c[2]) && lex_ishex(c[3]) && lex_ishex(c[4]) && lex_ishex(c[5]);
	if (c[1] == 'U')
		return lex_ishex(c[2]) && lex_ishex(c[3]) && lex_ishex(c[4]) && lex_ishex(c[5]) &&
		       lex_ishex(c[6]) && lex_ishex(c[7]) && lex_ishex(c[8]) && lex_ishex(c[9]);
	return 0;
}

/* c[0] == '\\': an escape sequence of 6.4.4.4 starts here */
static inline int
lex_escape_ok(const int *c)
{
	return lex_issimple_esc(c[1]) || lex_isoct(c[1]) || (c[1] == 'x' && lex_ishex(c[2])) || lex_ucn_ok(c);
}

struct lex_lit {
	int end;        /* index of the closing quote; 0: there is none (then bad is set) */
	int bad;        /* the characters from c[0] on are NOT the start of a literal: must be diagnosed */
	int badidx;     /* index of the last character that has to be examined to know that */
	int bad_nl;     /* ... and that character is a new-line */
	int has_bsnul;  /* a backslash followed by a NUL byte was met (not an escape sequence) */
	int has_ucn;    /* a universal character name was met */
};

#define LEX_LITMAX 12
static inline struct lex_lit
lex_lit_scan(const int *c, int q)
{
	struct lex_lit r = {0, 0, 0, 0, 0, 0};
	int skip = 0;

#define LEX_LSTEP(i) \
	if (!r.end && !r.bad) { \
		if (skip) { \
			skip = 0; \
		} else if (c[i] == q) { \
			r.end = (i); \
		} else if (c[i] == '\n' || c[i] == LEX_EOF || c[i] == 0) { \
			r.bad = 1; r.badidx = (i); r.bad_nl = c[i] == '\n'; \
		} else if (c[i] == '\\') { \
			if (c[(i) + 1] == 0) r.has_bsnul = 1; \
			if (lex_ucn_ok(c + (i))) r.has_ucn = 1; \
			if (lex_escape_ok(c + (i))) { \
				skip = 1; \
			} else { \
				r.bad = 1; \
				r.badidx = (c[(i) + 1] == 'x' || c[(i) + 1] == 'u' || c[(i) + 1] == 'U') ? (i) + 2 : (i) + 1; \
				r.bad_nl = c[(i) + 1] == '\n' || (c[(i) + 1] == 'x' && c[(i) + 2] == '\n'); \
			} \
		} \
	}
	LEX_LSTEP(1) LEX_LSTEP(2) LEX_LSTEP(3) LEX_LSTEP(4) LEX_LSTEP(5) LEX_LSTEP(6)
	LEX_LSTEP(7) LEX_LSTEP(8) LEX_LSTEP(9) LEX_LSTEP(10) LEX_LSTEP(11) LEX_LSTEP(12)
#undef LEX_LSTEP
	if (!r.end && !r.bad) {
		r.bad = 1; r.badidx = LEX_LITMAX;      /* does not end inside the window: callers keep files shorter */
	}
	return r;
}

#pragma CPROVER check pop

#endif
