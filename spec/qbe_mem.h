/*
 * qbe_mem.h -- the memory instructions of the QBE IL, from the QBE IL reference ("Memory" section):
 *
 *   storeb/storeh/storew/storel/stores/stored  store 1/2/4/8/4/8 bytes at the address operand
 *   loadub,loadsb / loaduh,loadsh / loadw(=loadsw) / loadl / loads / loadd   read 1/2/4/8/4/8 bytes
 *   alloc4/alloc8/alloc16 N   allocate N bytes on the stack, the result is aligned to 4/8/16 bytes
 *   "the memory access must be naturally aligned" is NOT a QBE requirement; natural alignment is what the
 *   C object layout guarantees and what the contracts of zero()/funccopy() promise in addition.
 *
 * Loop-free oracles.  Must be included AFTER qbe.c (needs enum instkind).
 */
#ifndef SPEC_QBE_MEM_H
#define SPEC_QBE_MEM_H

/* number of bytes written by a store opcode; 0 = not a store */
#define QBE_STORE_SIZE(op) ((op) == ISTOREB ? 1u : (op) == ISTOREH ? 2u : (op) == ISTOREW ? 4u : (op) == ISTOREL ? 8u : \
                            (op) == ISTORES ? 4u : (op) == ISTORED ? 8u : 0u)
/* number of bytes read by a load opcode; 0 = not a load */
#define QBE_LOAD_SIZE(op)  ((op) == ILOADUB || (op) == ILOADSB ? 1u : (op) == ILOADUH || (op) == ILOADSH ? 2u : \
                            (op) == ILOADW ? 4u : (op) == ILOADL ? 8u : (op) == ILOADS ? 4u : (op) == ILOADD ? 8u : 0u)
/* alignment guaranteed for the result of an alloc opcode; 0 = not an alloc */
#define QBE_ALLOC_ALIGN(op) ((op) == IALLOC4 ? 4u : (op) == IALLOC8 ? 8u : (op) == IALLOC16 ? 16u : 0u)

/* integer store of exactly n bytes (the opcode a zero fill / byte copy of n bytes must use) */
#define QBE_INT_STORE(n)   ((n) == 1 ? ISTOREB : (n) == 2 ? ISTOREH : (n) == 4 ? ISTOREW : (n) == 8 ? ISTOREL : INONE)

#define SPEC_ISPOW2(x)     ((x) != 0 && ((x) & ((x) - 1)) == 0)
/* round x up to a multiple of the power of two n (64-bit) */
#define SPEC_ALIGNUP(x, n) ((((unsigned long long)(x)) + ((unsigned long long)(n)) - 1) & ~(((unsigned long long)(n)) - 1))

#endif
