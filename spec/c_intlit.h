/*
 * spec/c_intlit.h -- oracle for the type of an integer constant.  Loop-free, written from C11 6.4.4.1.
 *
 * Syntax (6.4.4.1p1):
 *   integer-suffix:  unsigned-suffix long-suffix(opt) | unsigned-suffix long-long-suffix
 *                  | long-suffix unsigned-suffix(opt) | long-long-suffix unsigned-suffix(opt)
 *   unsigned-suffix: one of u U      long-suffix: one of l L      long-long-suffix: one of ll LL
 *   (so lL and Ll are NOT long-long-suffixes; anything else after the digits is not an integer constant)
 *
 * Semantics (6.4.4.1p5): "The type of an integer constant is the first of the corresponding list in which its value
 * can be represented."
 *
 *   Suffix          Decimal constant              Octal or hexadecimal constant
 *   none            int, long, long long          int, unsigned, long, unsigned long, long long, unsigned long long
 *   u or U          unsigned, unsigned long, unsigned long long            (same)
 *   l or L          long, long long               long, unsigned long, long long, unsigned long long
 *   both u and l    unsigned long, unsigned long long                      (same)
 *   ll or LL        long long                     long long, unsigned long long
 *   both u and ll   unsigned long long                                     (same)
 *
 * p6: if the value cannot be represented by any type in its list (and there is no extended integer type, as in cproc)
 * the constant has no type; 6.4.4p2 (constraint): "Each constant shall have a type and the value of a constant shall be
 * in the range of representable values for its type" -> diagnostic.
 * (cproc treats binary constants 0b... like octal/hexadecimal ones, as C23 does.)
 */
#ifndef SPEC_C_INTLIT_H
#define SPEC_C_INTLIT_H

enum spec_ilt { SPEC_IL_INT, SPEC_IL_UINT, SPEC_IL_LONG, SPEC_IL_ULONG, SPEC_IL_LLONG, SPEC_IL_ULLONG, SPEC_IL_NONE };

#define SPEC_SUF_INVALID (-1)
#define SPEC_IS_U(c) ((c) == 'u' || (c) == 'U')
#define SPEC_IS_L(c) ((c) == 'l' || (c) == 'L')
#define SPEC_IS_LL(c, d) (((c) == 'l' && (d) == 'l') || ((c) == 'L' && (d) == 'L'))

/* the text after the digits is c0 c1 c2 c3 ... (0 = end of text).  Result: SPEC_SUF_INVALID if it is not an
   integer-suffix(opt); otherwise (number of l's: 0, 1, 2) * 2 + (has u) */
static inline int
spec_intsuffix(unsigned char c0, unsigned char c1, unsigned char c2, unsigned char c3)
{
	if (c0 == 0)
		return 0;                                            /* no suffix */
	if (SPEC_IS_U(c0)) {
		if (c1 == 0)
			return 1;                                        /* u */
		if (SPEC_IS_L(c1) && c2 == 0)
			return 2 + 1;                                    /* ul */
		if (SPEC_IS_LL(c1, c2) && c3 == 0)
			return 4 + 1;                                    /* ull */
		return SPEC_SUF_INVALID;
	}
	if (SPEC_IS_LL(c0, c1)) {
		if (c2 == 0)
			return 4;                                        /* ll */
		if (SPEC_IS_U(c2) && c3 == 0)
			return 4 + 1;                                    /* llu */
		return SPEC_SUF_INVALID;
	}
	if (SPEC_IS_L(c0)) {
		if (c1 == 0)
			return 2;                                        /* l */
		if (SPEC_IS_U(c1) && c2 == 0)
			return 2 + 1;                                    /* lu */
		return SPEC_SUF_INVALID;
	}
	return SPEC_SUF_INVALID;
}

/* can type t represent the (non-negative) value v, given the widths in octets of int, long, long long? */
static inline int
spec_il_fits(enum spec_ilt t, unsigned long long v, unsigned szint, unsigned szlong, unsigned szllong)
{
	unsigned sz = t == SPEC_IL_INT || t == SPEC_IL_UINT ? szint : t == SPEC_IL_LONG || t == SPEC_IL_ULONG ? szlong : szllong;
	int issigned = t == SPEC_IL_INT || t == SPEC_IL_LONG || t == SPEC_IL_LLONG;
	unsigned bits = 8 * sz - issigned;       /* value bits */

	return bits >= 64 || v >> bits == 0;
}

/* is type t in the list of 6.4.4.1p5 for this suffix (suf = spec_intsuffix result) and base? */
static inline int
spec_il_inlist(enum spec_ilt t, int suf, int decimal)
{
	int hasu = suf & 1, nl = suf >> 1;
	int issigned = t == SPEC_IL_INT || t == SPEC_IL_LONG || t == SPEC_IL_LLONG;
	int rank = t == SPEC_IL_INT || t == SPEC_IL_UINT ? 0 : t == SPEC_IL_LONG || t == SPEC_IL_ULONG ? 1 : 2;

	if (rank < nl)
		return 0;                 /* l: starts at long; ll: starts at long long */
	if (hasu)
		return !issigned;         /* u: unsigned types only */
	if (decimal)
		return issigned;          /* unsuffixed-u decimal: signed types only */
	return 1;
}

/* 6.4.4.1p5: first type of the list that can represent v; SPEC_IL_NONE if there is none (p6) */
static inline enum spec_ilt
spec_intlit_type(int suf, int decimal, unsigned long long v, unsigned szint, unsigned szlong, unsigned szllong)
{
#define SPEC_IL_TRY(t) if (spec_il_inlist(t, suf, decimal) && spec_il_fits(t, v, szint, szlong, szllong)) return t;
	SPEC_IL_TRY(SPEC_IL_INT)
	SPEC_IL_TRY(SPEC_IL_UINT)
	SPEC_IL_TRY(SPEC_IL_LONG)
	SPEC_IL_TRY(SPEC_IL_ULONG)
	SPEC_IL_TRY(SPEC_IL_LLONG)
	SPEC_IL_TRY(SPEC_IL_ULLONG)
#undef SPEC_IL_TRY
	return SPEC_IL_NONE;
}

#endif
