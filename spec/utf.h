/*
 * spec/utf.h -- oracle for UTF-8 (RFC 3629) and UTF-16 (RFC 2781).  Loop-free, written from the RFC text only.
 *
 * NOTE: /repo also has a "utf.h"; units include this file as  #include "../../spec/utf.h".
 *
 * RFC 3629 section 3 (encoding table):
 *
 *    Char. number range  |        UTF-8 octet sequence
 *       (hexadecimal)    |              (binary)
 *    --------------------+---------------------------------------------
 *    0000 0000-0000 007F | 0xxxxxxx
 *    0000 0080-0000 07FF | 110xxxxx 10xxxxxx
 *    0000 0800-0000 FFFF | 1110xxxx 10xxxxxx 10xxxxxx
 *    0001 0000-0010 FFFF | 11110xxx 10xxxxxx 10xxxxxx 10xxxxxx
 *
 *   "The definition of UTF-8 prohibits encoding character numbers between U+D800 and U+DFFF"
 *   "Implementations of the decoding algorithm above MUST protect against decoding invalid sequences"
 *   (overlong forms, surrogates, values above 10FFFF).
 *
 * RFC 3629 section 4 (syntax of well-formed sequences):
 *
 *    UTF8-1      = %x00-7F
 *    UTF8-2      = %xC2-DF UTF8-tail
 *    UTF8-3      = %xE0 %xA0-BF UTF8-tail / %xE1-EC 2( UTF8-tail ) /
 *                  %xED %x80-9F UTF8-tail / %xEE-EF 2( UTF8-tail )
 *    UTF8-4      = %xF0 %x90-BF 2( UTF8-tail ) / %xF1-F3 3( UTF8-tail ) /
 *                  %xF4 %x80-8F 2( UTF8-tail )
 *    UTF8-tail   = %x80-BF
 *
 * RFC 2781 section 2.1 (encoding UTF-16), 2.2 (decoding):
 *    1) If U < 0x10000, encode U as a 16-bit unsigned integer and terminate.
 *    2) Let U' = U - 0x10000.  Because U is less than or equal to 0x10FFFF, U' must be less than or equal to 0xFFFFF.
 *    3) Initialize W1 = 0xD800, W2 = 0xDC00.
 *    4) Assign the 10 high-order bits of the 20-bit U' to the 10 low-order bits of W1 and the 10 low-order bits of U'
 *       to the 10 low-order bits of W2.
 *    Values between 0xD800 and 0xDFFF are reserved for surrogates and are not characters.
 */
#ifndef SPEC_UTF_H
#define SPEC_UTF_H

typedef unsigned int spec_u32;
typedef unsigned char spec_u8;
typedef unsigned short spec_u16;

#define SPEC_IN(b, lo, hi) ((lo) <= (b) && (b) <= (hi))
#define SPEC_TAIL(b)       SPEC_IN(b, 0x80, 0xBF)

/* Unicode scalar value = the only numbers UTF-8/UTF-16 can carry */
static inline int
spec_is_scalar(spec_u32 c)
{
	return c <= 0x10FFFF && !SPEC_IN(c, 0xD800, 0xDFFF);
}

/* ---- RFC 3629 section 4, one function per production ---- */
static inline int
spec_utf8_1(spec_u8 b0)
{
	return b0 <= 0x7F;
}

static inline int
spec_utf8_2(spec_u8 b0, spec_u8 b1)
{
	return SPEC_IN(b0, 0xC2, 0xDF) && SPEC_TAIL(b1);
}

static inline int
spec_utf8_3(spec_u8 b0, spec_u8 b1, spec_u8 b2)
{
	return (b0 == 0xE0 && SPEC_IN(b1, 0xA0, 0xBF) && SPEC_TAIL(b2))
	    || (SPEC_IN(b0, 0xE1, 0xEC) && SPEC_TAIL(b1) && SPEC_TAIL(b2))
	    || (b0 == 0xED && SPEC_IN(b1, 0x80, 0x9F) && SPEC_TAIL(b2))
	    || (SPEC_IN(b0, 0xEE, 0xEF) && SPEC_TAIL(b1) && SPEC_TAIL(b2));
}

static inline int
spec_utf8_4(spec_u8 b0, spec_u8 b1, spec_u8 b2, spec_u8 b3)
{
	return (b0 == 0xF0 && SPEC_IN(b1, 0x90, 0xBF) && SPEC_TAIL(b2) && SPEC_TAIL(b3))
	    || (SPEC_IN(b0, 0xF1, 0xF3) && SPEC_TAIL(b1) && SPEC_TAIL(b2) && SPEC_TAIL(b3))
	    || (b0 == 0xF4 && SPEC_IN(b1, 0x80, 0x8F) && SPEC_TAIL(b2) && SPEC_TAIL(b3));
}

/* length of the well-formed UTF8-char at the start of b0 b1 b2 b3 when only the first n octets exist; 0 = none.
   (The four productions have disjoint first octets, so at most one applies.) */
static inline unsigned
spec_utf8_len(spec_u8 b0, spec_u8 b1, spec_u8 b2, spec_u8 b3, unsigned long n)
{
	if (n >= 1 && spec_utf8_1(b0))
		return 1;
	if (n >= 2 && spec_utf8_2(b0, b1))
		return 2;
	if (n >= 3 && spec_utf8_3(b0, b1, b2))
		return 3;
	if (n >= 4 && spec_utf8_4(b0, b1, b2, b3))
		return 4;
	return 0;
}

/* RFC 3629 section 3 table, read right to left: the character number carried by a sequence of length len */
static inline spec_u32
spec_utf8_val(spec_u8 b0, spec_u8 b1, spec_u8 b2, spec_u8 b3, unsigned len)
{
	if (len == 1)
		return b0;
	if (len == 2)
		return (spec_u32)(b0 & 0x1F) << 6 | (spec_u32)(b1 & 0x3F);
	if (len == 3)
		return (spec_u32)(b0 & 0x0F) << 12 | (spec_u32)(b1 & 0x3F) << 6 | (spec_u32)(b2 & 0x3F);
	return (spec_u32)(b0 & 0x07) << 18 | (spec_u32)(b1 & 0x3F) << 12 | (spec_u32)(b2 & 0x3F) << 6 | (spec_u32)(b3 & 0x3F);
}

/* RFC 3629 section 3 table, read left to right: number of octets for character number c (c a scalar value) */
static inline unsigned
spec_utf8_enclen(spec_u32 c)
{
	if (c <= 0x7F)
		return 1;
	if (c <= 0x7FF)
		return 2;
	if (c <= 0xFFFF)
		return 3;
	return 4;
}

/* octet i (0-based, i < spec_utf8_enclen(c)) of the encoding of c */
static inline spec_u8
spec_utf8_byte(spec_u32 c, unsigned i)
{
	unsigned len = spec_utf8_enclen(c);

	if (len == 1)
		return c;
	if (i == 0)
		return len == 2 ? 0xC0 | c >> 6 : len == 3 ? 0xE0 | c >> 12 : 0xF0 | c >> 18;
	/* tail octet i carries bits [6*(len-1-i), 6*(len-1-i)+5] */
	return 0x80 | (c >> 6 * (len - 1 - i) & 0x3F);
}

/* ---- RFC 2781 ---- */
static inline unsigned
spec_utf16_enclen(spec_u32 c)
{
	return c < 0x10000 ? 1 : 2;
}

static inline spec_u16
spec_utf16_unit(spec_u32 c, unsigned i)
{
	spec_u32 u;

	if (c < 0x10000)
		return c;
	u = c - 0x10000;                       /* U', at most 0xFFFFF */
	if (i == 0)
		return 0xD800 | (u >> 10 & 0x3FF); /* W1: 10 high-order bits */
	return 0xDC00 | (u & 0x3FF);           /* W2: 10 low-order bits */
}

/* RFC 2781 2.2: decoding of one character from W1 [W2]; valid only if the sequence is valid (see spec_utf16_valid) */
static inline int
spec_utf16_valid(spec_u16 w1, spec_u16 w2, unsigned n)
{
	if (n >= 1 && !SPEC_IN(w1, 0xD800, 0xDFFF))
		return 1;
	return n >= 2 && SPEC_IN(w1, 0xD800, 0xDBFF) && SPEC_IN(w2, 0xDC00, 0xDFFF);
}

static inline spec_u32
spec_utf16_dec(spec_u16 w1, spec_u16 w2)
{
	if (!SPEC_IN(w1, 0xD800, 0xDFFF))
		return w1;
	return ((spec_u32)(w1 & 0x3FF) << 10 | (spec_u32)(w2 & 0x3FF)) + 0x10000;
}

#endif
