/*
 * spec/abi.h -- oracle: C object layout of the LP64 little-endian psABIs cproc targets
 * (System V x86-64 psABI 3.1.2 "Aggregates and Unions" + "Bit-Fields"; RISC-V ELF psABI "C/C++ type
 * details"; AAPCS64 5.x/10.1 -- the three agree on everything stated here EXCEPT the one rule marked
 * [x86-64/RISC-V], see abi_unnamed_bf_affects_align).  Written from the ABI texts, not from decl.c.
 * All functions are loop-free; arithmetic is on u64 and callers bound sizes (< 2^40) so nothing wraps.
 *
 * psABI text used:
 *  (A1) "Structures and unions assume the alignment of their most strictly aligned component."
 *  (A2) "Each member is assigned to the lowest available offset with the appropriate alignment."
 *  (A3) "The size of any object is always a multiple of the object's alignment."
 *  (A4) union: every member has offset 0; the size is that of the largest member (then A3).
 *  (B1) "Bit-fields must be contained in a storage unit appropriate for its declared type": a bit-field of
 *       declared type T (sizeof T == S) placed at bit position P of the struct occupies bits [P, P+W) and must not
 *       cross an S-aligned S-byte boundary:  P / (8S) == (P + W - 1) / (8S).
 *  (B2) "Bit-fields are allocated from right to left" (little endian: increasing bit numbers) and
 *       "may share a storage unit with other struct / union members": the next bit-field starts at the first
 *       free bit, unless (B1) would be violated; then it starts at the next multiple of 8S.
 *  (B3) C11 6.7.2.1p12: a zero-width (necessarily unnamed) bit-field "indicates that no further bit-field is to
 *       be packed into the unit in which the previous bit-field, if any, was placed": the position is rounded up
 *       to the next boundary of the declared type's unit.
 *  (B4) [x86-64/RISC-V] "Unnamed bit-fields' types do not affect the alignment of a structure or union."
 *       (AAPCS64 10.1.8 instead lets the container type of EVERY bit-field, unnamed and zero-width ones
 *       included, contribute to the aggregate's alignment.)
 *  (B5) a named bit-field's declared type contributes its alignment like a plain member of that type (A1).
 *  (P1) GNU `packed`: members are laid out with alignment 1 (A2 with alignment 1) and contribute alignment 1;
 *       an explicit _Alignas(n)/aligned(n) on a member still applies (it can only make the alignment stricter,
 *       C11 6.7.5p4).
 */
#ifndef SPEC_ABI_H
#define SPEC_ABI_H

/* smallest multiple of a (a >= 1) that is >= x */
static inline u64
abi_alignup(u64 x, u64 a)
{
	return (x + a - 1) / a * a;
}

/* (A2) as a predicate, for a == 1 << k (every C alignment is a power of two, 6.2.8p4):
   off is the LOWEST offset >= x that is a multiple of a */
static inline bool
abi_lowest_aligned(u64 off, u64 x, unsigned k)
{
	return off >= x && off - x < (1ull << k) && ((off >> k) << k) == off;
}

static inline u64
abi_max(u64 a, u64 b)
{
	return a > b ? a : b;
}

/* (B1)-(B3): bit position given to a bit-field of declared-type size S bytes and width W when the first free
   bit of the struct is P */
static inline u64
abi_bitpos(u64 P, u64 S, u64 W)
{
	u64 U = 8 * S;

	if (W == 0)
		return (P + U - 1) / U * U;
	if (P / U != (P + W - 1) / U)
		return (P + U - 1) / U * U;
	return P;
}

/* number of bytes needed to hold `bits` bits */
static inline u64
abi_bytes(u64 bits)
{
	return (bits + 7) / 8;
}

/* (A1),(P1): alignment with which a plain member is placed and which it contributes.
   talign: alignment of the member's type; alignas: the member's _Alignas/aligned value or 0 */
static inline u64
abi_member_align(u64 talign, bool packed, u64 alignas_)
{
	u64 a = packed ? 1 : talign;

	return alignas_ > a ? alignas_ : a;
}

/* (B4): does an unnamed bit-field's declared type contribute to the aggregate's alignment? */
enum abi_target { ABI_X86_64_SYSV, ABI_AARCH64, ABI_RISCV64 };
static inline bool
abi_unnamed_bf_affects_align(enum abi_target t)
{
	return t == ABI_AARCH64;
}

/* (A3): final size of an aggregate whose members end at byte `end` */
static inline u64
abi_final_size(u64 end, u64 align)
{
	return abi_alignup(end, align);
}

/*
 * Enumerated types.  C11 6.7.2.2p4 leaves the compatible type implementation-defined; the psABIs/GCC/Clang
 * (and C23 6.7.2.2p12-13 for the no-fixed-type case) choose: `unsigned int` if no enumerator is negative and all
 * fit, else `int` if all fit; otherwise the first of `unsigned long`/`long` (no negative / some negative) that
 * represents all values.  With a fixed underlying type (C23 6.7.2.2p5) it is that type and every enumerator
 * must be representable in it.   Encoded as (size, signed).
 *   neg: some enumerator is negative; min: the most negative value as a two's complement u64 (0 if !neg);
 *   max: the largest non-negative value.
 */
static inline bool
abi_enum_fits(u64 min, bool neg, u64 max, unsigned size, bool sg)
{
	unsigned bits = 8 * size;

	if (!sg)
		return !neg && (bits == 64 || max >> bits == 0);
	if (max >> (bits - 1) != 0)
		return 0;
	if (neg && bits < 64 && (min >> (bits - 1)) != (~0ull >> (bits - 1)))
		return 0;
	return 1;
}

static inline unsigned
abi_enum_size(u64 min, bool neg, u64 max)
{
	if (abi_enum_fits(min, neg, max, 4, neg))
		return 4;
	return 8;
}

static inline bool
abi_enum_signed(u64 min, bool neg, u64 max)
{
	(void)min; (void)max;
	return neg;
}

#endif
