/*
 * spec/qbe_sem.h -- oracle: meaning of the QBE IL integer instructions cproc emits, written from the QBE IL
 * reference ("Arithmetic and Bits", "Comparisons", "Conversions", "Memory"), NOT from cproc.
 *
 * Values are carried in u64.  Base classes: 'w' (32-bit word), 'l' (64-bit long), 's', 'd'.
 *   - an argument read in a 'w' context contributes only its low 32 bits (the reference allows an 'l'
 *     temporary where 'w' is expected: "the low 32 bits are used");
 *   - a result of class 'w' defines only the low 32 bits of its carrier: QBE_W_RESULT() mixes caller-supplied
 *     garbage into the upper half, so that any later use of a 'w' temporary in an 'l' context (a QBE type
 *     error) shows up as a wrong value instead of going unnoticed.
 *
 * qbe_sem_int(op, cls, a, b, &ok): result carrier of the integer instruction `=cls op a, b`.
 *   ok is cleared when the reference gives the instruction no meaning for these operands:
 *   division/remainder by zero or INT_MIN / -1, a shift count >= the width of the class (taken
 *   conservatively: the reference only promises a result for in-range counts), a class the instruction
 *   does not have (extsw/extuw exist only with result 'l'; comparisons/integer arithmetic need 'w' or 'l'),
 *   or an opcode that is not an integer instruction.
 * All functions are loop-free.  Opcode names are cproc's enum instkind (ops.h), i.e. the mnemonic table
 * "I<NAME>" <-> "<name>" which is itself checked by the emitter units, not here.
 */
#ifndef SPEC_QBE_SEM_H
#define SPEC_QBE_SEM_H

#define QBE_LOW32(x)        ((u64)(u32)(x))
#define QBE_W_RESULT(v, garbage)  (QBE_LOW32(v) | ((u64)(garbage) << 32))

static inline bool
qbe_is_intclass(int cls)
{
	return cls == 'w' || cls == 'l';
}

/* reference, "Comparisons": integer comparisons c{eq,ne,sle,slt,sge,sgt,ule,ult,uge,ugt}{w,l};
 * the suffix gives the class of the ARGUMENTS, the result (0 or 1) may be w or l */
static inline int
qbe_cmp_argclass(int op)
{
	switch (op) {
	case ICEQW: case ICNEW: case ICSLEW: case ICSLTW: case ICSGEW: case ICSGTW:
	case ICULEW: case ICULTW: case ICUGEW: case ICUGTW:
		return 'w';
	case ICEQL: case ICNEL: case ICSLEL: case ICSLTL: case ICSGEL: case ICSGTL:
	case ICULEL: case ICULTL: case ICUGEL: case ICUGTL:
		return 'l';
	}
	return 0;
}

static inline u64
qbe_sem_cmp(int op, u64 a, u64 b)
{
	/* bring both operands to canonical 64-bit carriers of the compared class */
	u64 ua = qbe_cmp_argclass(op) == 'w' ? QBE_LOW32(a) : a;
	u64 ub = qbe_cmp_argclass(op) == 'w' ? QBE_LOW32(b) : b;
	i64 sa = qbe_cmp_argclass(op) == 'w' ? (i64)(int32_t)(u32)a : (i64)a;
	i64 sb = qbe_cmp_argclass(op) == 'w' ? (i64)(int32_t)(u32)b : (i64)b;

	switch (op) {
	case ICEQW: case ICEQL:   return ua == ub;
	case ICNEW: case ICNEL:   return ua != ub;
	case ICSLEW: case ICSLEL: return sa <= sb;
	case ICSLTW: case ICSLTL: return sa < sb;
	case ICSGEW: case ICSGEL: return sa >= sb;
	case ICSGTW: case ICSGTL: return sa > sb;
	case ICULEW: case ICULEL: return ua <= ub;
	case ICULTW: case ICULTL: return ua < ub;
	case ICUGEW: case ICUGEL: return ua >= ub;
	case ICUGTW: case ICUGTL: return ua > ub;
	}
	return 0;
}

/* "Conversions": extsb/extub/extsh/extuh -- I(ww); extsw/extuw -- l(w) */
static inline u64
qbe_sem_ext(int op, u64 a)
{
	switch (op) {
	case IEXTSB: return (u64)(i64)(int8_t)(u8)a;
	case IEXTUB: return (u64)(u8)a;
	case IEXTSH: return (u64)(i64)(int16_t)(uint16_t)a;
	case IEXTUH: return (u64)(uint16_t)a;
	case IEXTSW: return (u64)(i64)(int32_t)(u32)a;
	case IEXTUW: return (u64)(u32)a;
	}
	return 0;
}

/* Macro forms of the expensive operators on the class-sized operands, so that a contract can apply the operator
 * to syntactically the same expressions (see c_arith.h on why) */
#define QBE_A32(a)  ((u32)(a))
#define QBE_S32(a)  ((int32_t)(u32)(a))

static inline u64
qbe_sem_int(int op, int cls, u64 a, u64 b, bool *ok)
{
	bool w = cls == 'w';
	unsigned width = w ? 32 : 64;
	u64 r = 0;

	if (!qbe_is_intclass(cls)) {
		*ok = 0;
		return 0;
	}
	switch (op) {
	/* "Arithmetic and Bits": add sub mul neg and or xor -- T(T,T); two's complement wrap-around */
	case IADD: r = w ? (u64)(QBE_A32(a) + QBE_A32(b)) : a + b; break;
	case ISUB: r = w ? (u64)(QBE_A32(a) - QBE_A32(b)) : a - b; break;
	case IMUL: r = w ? (u64)(QBE_A32(a) * QBE_A32(b)) : a * b; break;
	case INEG: r = w ? (u64)(0u - QBE_A32(a)) : 0 - a; break;
	case IAND: r = a & b; break;
	case IOR:  r = a | b; break;
	case IXOR: r = a ^ b; break;
	/* div rem: signed; udiv urem: unsigned -- integer forms I(I,I) */
	case IDIV:
		if (w) {
			if (QBE_A32(b) == 0 || (QBE_S32(a) == INT32_MIN && QBE_S32(b) == -1)) { *ok = 0; return 0; }
			r = (u64)(u32)(QBE_S32(a) / QBE_S32(b));
		} else {
			if (b == 0 || ((i64)a == INT64_MIN && (i64)b == -1)) { *ok = 0; return 0; }
			r = (u64)((i64)a / (i64)b);
		}
		break;
	case IREM:
		if (w) {
			if (QBE_A32(b) == 0 || (QBE_S32(a) == INT32_MIN && QBE_S32(b) == -1)) { *ok = 0; return 0; }
			r = (u64)(u32)(QBE_S32(a) % QBE_S32(b));
		} else {
			if (b == 0 || ((i64)a == INT64_MIN && (i64)b == -1)) { *ok = 0; return 0; }
			r = (u64)((i64)a % (i64)b);
		}
		break;
	case IUDIV:
		if (w) {
			if (QBE_A32(b) == 0) { *ok = 0; return 0; }
			r = (u64)(QBE_A32(a) / QBE_A32(b));
		} else {
			if (b == 0) { *ok = 0; return 0; }
			r = a / b;
		}
		break;
	case IUREM:
		if (w) {
			if (QBE_A32(b) == 0) { *ok = 0; return 0; }
			r = (u64)(QBE_A32(a) % QBE_A32(b));
		} else {
			if (b == 0) { *ok = 0; return 0; }
			r = a % b;
		}
		break;
	/* sar shr shl -- T(T,ww): the count is a word */
	case ISHL:
		if (QBE_A32(b) >= width) { *ok = 0; return 0; }
		r = w ? (u64)(QBE_A32(a) << QBE_A32(b)) : a << QBE_A32(b);
		break;
	case ISHR:
		if (QBE_A32(b) >= width) { *ok = 0; return 0; }
		r = w ? (u64)(QBE_A32(a) >> QBE_A32(b)) : a >> QBE_A32(b);
		break;
	case ISAR:
		if (QBE_A32(b) >= width) { *ok = 0; return 0; }
		/* arithmetic shift written without relying on >> of negative values */
		if (w)
			r = (QBE_A32(a) >> QBE_A32(b)) | ((QBE_A32(a) & 0x80000000u) ? ~(0xffffffffu >> QBE_A32(b)) : 0);
		else
			r = (a >> QBE_A32(b)) | ((a >> 63) ? ~(~0ull >> QBE_A32(b)) : 0);
		break;
	case IEXTSB: case IEXTUB: case IEXTSH: case IEXTUH:
		r = qbe_sem_ext(op, a);
		break;
	case IEXTSW: case IEXTUW:
		if (w) { *ok = 0; return 0; }      /* l(w) only */
		r = qbe_sem_ext(op, a);
		break;
	case ICOPY:
		r = a;
		break;
	default:
		if (qbe_cmp_argclass(op)) {
			r = qbe_sem_cmp(op, a, b);
			break;
		}
		*ok = 0;
		return 0;
	}
	return w ? QBE_LOW32(r) : r;
}

/* "Memory": width in bytes moved by a load/store opcode, 0 if `op` is not one */
static inline unsigned
qbe_mem_width(int op)
{
	switch (op) {
	case ISTOREB: case ILOADSB: case ILOADUB: return 1;
	case ISTOREH: case ILOADSH: case ILOADUH: return 2;
	case ISTOREW: case ILOADW: case ISTORES: case ILOADS: return 4;
	case ISTOREL: case ILOADL: case ISTORED: case ILOADD: return 8;
	}
	return 0;
}

static inline bool
qbe_is_store(int op)
{
	return op == ISTOREB || op == ISTOREH || op == ISTOREW || op == ISTOREL || op == ISTORES || op == ISTORED;
}

static inline bool
qbe_is_load(int op)
{
	return qbe_mem_width(op) != 0 && !qbe_is_store(op);
}

/* integer loads: loadsb loadub loadsh loaduh -- I(m); loadw (== loadsw) -- I(m); loadl -- l(m).
 * `cell` holds the 8 bytes at the address, little-endian (all three targets are little-endian) */
static inline u64
qbe_sem_load(int op, int cls, u64 cell, bool *ok)
{
	u64 r;

	switch (op) {
	case ILOADSB: r = (u64)(i64)(int8_t)(u8)cell; break;
	case ILOADUB: r = (u64)(u8)cell; break;
	case ILOADSH: r = (u64)(i64)(int16_t)(uint16_t)cell; break;
	case ILOADUH: r = (u64)(uint16_t)cell; break;
	case ILOADW:  r = (u64)(i64)(int32_t)(u32)cell; break;
	case ILOADL:  r = cell; if (cls != 'l') *ok = 0; break;
	default: *ok = 0; return 0;
	}
	if (!qbe_is_intclass(cls))
		*ok = 0;
	return cls == 'w' ? QBE_LOW32(r) : r;
}

/* integer stores storeb storeh storew storel -- (T,m): the low `width` bytes of the value replace the
 * first `width` bytes of the cell, the others are untouched */
static inline u64
qbe_sem_store(int op, u64 cell, u64 v, bool *ok)
{
	switch (op) {
	case ISTOREB: return (cell & ~0xffull) | (v & 0xff);
	case ISTOREH: return (cell & ~0xffffull) | (v & 0xffff);
	case ISTOREW: return (cell & ~0xffffffffull) | (v & 0xffffffff);
	case ISTOREL: return v;
	}
	*ok = 0;
	return cell;
}

#endif
