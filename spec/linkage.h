/*
 * spec/linkage.h -- oracle: linkage of an identifier, C11 6.2.2p3-p6, as a table over
 *   (what is declared, storage-class specifiers, linkage of the visible prior declaration or "none visible",
 *    file scope or block scope).  Written from the standard's text; loop-free.
 *
 *  p3  "If the declaration of a file scope identifier for an object or a function contains the storage-class
 *       specifier static, the identifier has internal linkage."
 *  p4  "For an identifier declared with the storage-class specifier extern in a scope in which a prior declaration
 *       of that identifier is visible, if the prior declaration specifies internal or external linkage, the linkage
 *       of the identifier at the later declaration is the same as the linkage specified at the prior declaration.
 *       If no prior declaration is visible, or if the prior declaration specifies no linkage, then the identifier
 *       has external linkage."
 *  p5  "If the declaration of an identifier for a function has no storage-class specifier, its linkage is
 *       determined exactly as if it were declared with the storage-class specifier extern.  If the declaration of
 *       an identifier for an object has file scope and no storage-class specifier, its linkage is external."
 *  p6  "The following identifiers have no linkage: an identifier declared to be anything other than an object or a
 *       function; an identifier declared to be a function parameter; a block scope identifier for an object
 *       declared without the storage-class specifier extern."
 *  _Thread_local (6.7.1p3) is combined with static or extern and does not itself select a linkage: alone at file
 *  scope it falls under p5 second sentence ("no storage-class specifier" that selects linkage).
 */
#ifndef SPEC_LINKAGE_H
#define SPEC_LINKAGE_H

enum spec_linkage { SPEC_LINK_NONE, SPEC_LINK_INTERN, SPEC_LINK_EXTERN };
#define SPEC_NO_PRIOR (-1)

/* isfunc/isobj: what the identifier designates (neither: typedef, tag, enumeration constant, label, parameter)
   prior: SPEC_NO_PRIOR if no prior declaration is visible, else the spec_linkage of the visible one */
static inline int
spec_linkage(bool isfunc, bool isobj, bool sc_static, bool sc_extern, int prior, bool filescope)
{
	if (!isfunc && !isobj)
		return SPEC_LINK_NONE;                                  /* p6, first item */
	if (filescope && sc_static)
		return SPEC_LINK_INTERN;                                /* p3 */
	if (sc_extern || (isfunc && !sc_static)) {                      /* p4; p5 first sentence */
		if (prior == SPEC_LINK_INTERN || prior == SPEC_LINK_EXTERN)
			return prior;
		return SPEC_LINK_EXTERN;
	}
	if (isobj && filescope)
		return SPEC_LINK_EXTERN;                                /* p5 second sentence */
	return SPEC_LINK_NONE;                                          /* p6, third item (block scope object, static or not) */
}

/* C11 6.7.1p2: "At most, one storage-class specifier may be given in the declaration specifiers in a declaration,
   except that _Thread_local may appear with static or extern."  As a predicate over the multiset of
   specifiers seen (counts per specifier). */
static inline bool
spec_storageclass_legal(unsigned n_typedef, unsigned n_extern, unsigned n_static, unsigned n_tl, unsigned n_auto, unsigned n_register)
{
	unsigned n = n_typedef + n_extern + n_static + n_tl + n_auto + n_register;

	if (n <= 1)
		return 1;
	if (n == 2 && n_tl == 1 && (n_static == 1 || n_extern == 1))
		return 1;
	return 0;
}

#endif
