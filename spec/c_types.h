/*
 * spec/c_types.h -- oracle for the C11 integer type system on the LP64 targets of cproc (x86_64-sysv, aarch64,
 * riscv64: char 8, short 16, int 32, long 64, long long 64 bits, two's complement, no padding bits).
 *
 * Written from the text of C11 6.2.5 (types), 6.2.6.2 (integer representations), 6.3.1.1 (rank, integer promotions),
 * 6.3.1.8 (usual arithmetic conversions) and 6.5.2.2p6 (default argument promotions) -- NOT from type.c.
 * Everything is loop-free and works on a DESCRIPTOR of a type (class, rank, signedness, size), so that it has no
 * notion of cproc's type objects; the units map objects to descriptors and back.
 */
#ifndef SPEC_C_TYPES_H
#define SPEC_C_TYPES_H

/* ---- representable values (6.2.6.2; _Bool: 6.2.5p2 "large enough to store the values 0 and 1", 6.3.1.2) ---- */

static inline u64
spec_umax(unsigned size, bool sg)       /* largest value of the integer type (size bytes, signedness) */
{
	switch (size) {
	case 1: return sg ? 0x7full : 0xffull;
	case 2: return sg ? 0x7fffull : 0xffffull;
	case 4: return sg ? 0x7fffffffull : 0xffffffffull;
	}
	return sg ? 0x7fffffffffffffffull : 0xffffffffffffffffull;
}

static inline i64
spec_smin(unsigned size)                /* smallest value of the signed integer type of that size */
{
	switch (size) {
	case 1: return -0x80ll;
	case 2: return -0x8000ll;
	case 4: return -0x80000000ll;
	}
	return -0x7fffffffffffffffll - 1;
}

/*
 * Is the mathematical integer V representable in the integer type (size, sg, isbool)?
 * V is given the way cproc carries constants: a 64-bit pattern i plus a flag "i is the two's complement pattern of a
 * signed value": V = (i64)i if sign, else V = i.
 */
static inline bool
spec_representable(unsigned size, bool sg, bool isbool, u64 i, bool sign)
{
	if (sign && (i64)i < 0)
		return !isbool && sg && (i64)i >= spec_smin(size);
	if (isbool)
		return i <= 1;
	return i <= spec_umax(size, sg);
}

/* ---- descriptors ---- */

enum { SPEC_CINT, SPEC_CFLOAT, SPEC_CDOUBLE, SPEC_CLDOUBLE, SPEC_COTHER };

/* 6.3.1.1p1 ranks: _Bool < char < short < int < long < long long; signed/unsigned share a rank; an enumerated type has
   the rank of its compatible integer type */
enum { SPEC_RBOOL, SPEC_RCHAR, SPEC_RSHORT, SPEC_RINT, SPEC_RLONG, SPEC_RLLONG };

struct spec_type {
	int cls;        /* SPEC_C*                                                   */
	int rank;       /* SPEC_R*, integer types only                               */
	bool sg;        /* signedness, integer types only                            */
	int id;         /* 0: the standard type of that rank/signedness; k > 0: the k-th enumerated type at hand (an enumerated
	                   type is a distinct type that shares rank, signedness and representation with its compatible type) */
	bool either;    /* result only: 6.3.1.8 leaves open which of two distinct same-rank same-signedness types is meant */
};

static inline unsigned
spec_rank_size(int rank)      /* LP64 */
{
	switch (rank) {
	case SPEC_RBOOL: case SPEC_RCHAR: return 1;
	case SPEC_RSHORT: return 2;
	case SPEC_RINT: return 4;
	}
	return 8;
}

static inline struct spec_type
spec_mkint(int rank, bool sg)
{
	struct spec_type t = {SPEC_CINT, rank, sg, 0, 0};
	return t;
}

static inline bool
spec_type_eq(struct spec_type a, struct spec_type b)
{
	if (a.cls != b.cls)
		return 0;
	return a.cls != SPEC_CINT || (a.rank == b.rank && a.sg == b.sg && a.id == b.id);
}

/* width in bits of the value+sign representation: the bit-field width if there is one, else the type's (1 for _Bool) */
static inline unsigned
spec_width(struct spec_type t, unsigned bfwidth /* 0 = not a bit-field */)
{
	if (bfwidth)
		return bfwidth;
	return t.rank == SPEC_RBOOL ? 1 : 8 * spec_rank_size(t.rank);
}

/*
 * 6.3.1.1p2 integer promotions.  Applies to an integer type other than int/unsigned int of rank <= rank(int), and to
 * bit-fields: "If an int can represent all values of the original type (as restricted by the width, for a bit-field),
 * the value is converted to an int; otherwise, it is converted to an unsigned int."  All other types are unchanged.
 * Bit-fields of types wider than int (an extension, 6.7.2.1p5) are treated by their (width, signedness) like every other
 * bit-field when the width is at most that of int, and are unchanged otherwise.
 * int holds [-2^31, 2^31-1]: all values of a signed field of w bits fit iff w <= 32, of an unsigned one iff w <= 31.
 */
static inline struct spec_type
spec_promote(struct spec_type t, unsigned bfwidth)
{
	unsigned w;

	if (t.cls != SPEC_CINT)
		return t;
	if (!bfwidth && t.rank > SPEC_RINT)
		return t;
	w = spec_width(t, bfwidth);
	if (t.sg ? w <= 32 : w <= 31)
		return spec_mkint(SPEC_RINT, 1);
	if (!t.sg && w <= 32)
		return spec_mkint(SPEC_RINT, 0);
	return t;
}

/* 6.5.2.2p6 default argument promotions: integer promotions, and float -> double */
static inline struct spec_type
spec_argpromote(struct spec_type t, unsigned bfwidth)
{
	if (t.cls == SPEC_CFLOAT) {
		t.cls = SPEC_CDOUBLE;
		return t;
	}
	return spec_promote(t, bfwidth);
}

/* 6.3.1.8 usual arithmetic conversions on real types: the common real type */
static inline struct spec_type
spec_common_real(struct spec_type a, unsigned wa, struct spec_type b, unsigned wb)
{
	struct spec_type u, s;

	if (a.cls == SPEC_CLDOUBLE || b.cls == SPEC_CLDOUBLE)
		return a.cls == SPEC_CLDOUBLE ? a : b;
	if (a.cls == SPEC_CDOUBLE || b.cls == SPEC_CDOUBLE)
		return a.cls == SPEC_CDOUBLE ? a : b;
	if (a.cls == SPEC_CFLOAT || b.cls == SPEC_CFLOAT)
		return a.cls == SPEC_CFLOAT ? a : b;
	/* "Otherwise, the integer promotions are performed on both operands." */
	a = spec_promote(a, wa);
	b = spec_promote(b, wb);
	/* "If both operands have the same type, then no further conversion is needed." */
	if (spec_type_eq(a, b))
		return a;
	/* both signed or both unsigned: the type of greater rank.  Equal rank happens only between an enumerated type and its
	   compatible type or another enumerated type; the text names no winner, all candidates share one representation:
	   the standard type's descriptor is returned and flagged */
	if (a.sg == b.sg) {
		if (a.rank == b.rank) {
			u = spec_mkint(a.rank, a.sg);
			u.either = 1;
			return u;
		}
		return a.rank > b.rank ? a : b;
	}
	u = a.sg ? b : a;
	s = a.sg ? a : b;
	/* unsigned operand of rank >= the other's: the unsigned type */
	if (u.rank >= s.rank)
		return u;
	/* signed type can represent all values of the unsigned type: the signed type */
	if (spec_rank_size(s.rank) > spec_rank_size(u.rank))
		return s;
	/* otherwise the unsigned type corresponding to the signed type */
	return spec_mkint(s.rank, 0);
}

#endif
