/* Native replay runtime: feeds the values of a CBMC counterexample to a unit's harness. */
#include <stdio.h>
#include <stdlib.h>
#include <string.h>

/* exit codes: 0 post held (not confirmed), 1 post violated (confirmed), 77 input rejected by PRE,
 * 78 real code left through error()/fatal(), 79 missing input value (filled with 0) */
static int missing;

void
verif_replay_fetch(const char *name, void *p, size_t n)
{
	const char *fn = getenv("VERIF_REPLAY_FILE");
	FILE *f = fn ? fopen(fn, "r") : NULL;
	char key[256], val[256];
	unsigned long long v = 0;
	int found = 0;

	if (f) {
		while (fscanf(f, "%255s %255s", key, val) == 2) {
			if (strcmp(key, name) == 0) {
				v = strtoull(val, NULL, 16);
				found = 1;
				break;
			}
		}
		fclose(f);
	}
	if (!found) {
		fprintf(stderr, "replay: no value for input '%s', using 0\n", name);
		missing = 1;
	}
	memset(p, 0, n);
	memcpy(p, &v, n < sizeof v ? n : sizeof v);
	fprintf(stderr, "replay: %s = 0x%llx\n", name, v);
}

void
verif_replay_reject(const char *what)
{
	fprintf(stderr, "replay: input rejected by precondition: %s\n", what);
	exit(77);
}

void
verif_replay_fail(const char *what)
{
	fprintf(stderr, "replay: VIOLATED on the real code: %s\n", what);
	exit(1);
}

/* set by a harness that says "this valid input must not be rejected" (defined in stubs/base.c or the unit) */
__attribute__((weak)) int g_no_error;

void
verif_noreturn(void)
{
	if (g_no_error) {
		fprintf(stderr, "replay: VIOLATED on the real code: diagnostic reached on an input the property says must be accepted\n");
		exit(1);
	}
	fprintf(stderr, "replay: real code left through error()/fatal()\n");
	exit(78);
}

#undef main
void harness(void);

int
main(void)
{
	harness();
	fprintf(stderr, "replay: real code returned normally and every POST clause held\n");
	return 0;
}
