/*
 * verif.h -- shared conventions of every proof unit (see DESIGN.md 2.3, 2.5).
 *
 * A unit file #includes the REAL translation unit ("eval.c", found through -I$REPO), declares a
 * contract symbol for one real function, and defines harness().  The same unit file is compiled in
 * two modes:
 *
 *   CBMC mode   (goto-cc, default): IN() reads a nondeterministic value; the contract clauses are
 *               enforced on the real function by goto-instrument --dfcc (or, for "harness" units,
 *               PRE is assumed and POST asserted around the real call by the macros below).
 *   replay mode (gcc -DVERIF_REPLAY -fsanitize=address,undefined): IN() reads the value CBMC's
 *               counterexample gave to that name; PRE is evaluated (false => exit 77, "input
 *               rejected"), the real function is called, POST is evaluated (false => exit 1,
 *               "violation confirmed on the real code").
 *
 * Contract text is written ONCE as X-macro lists so both modes evaluate the same expressions:
 *
 *   #define PRE(X)  X(cond) X(cond) ...
 *   #define POST(X) X(cond) X(cond) ...
 *   static T f_contract(params) REQUIRES(PRE) __CPROVER_assigns(...) ENSURES(POST);
 *   void harness(void){ IN(..)...; build inputs;  CALL(PRE, POST, f(args)); }
 *
 * Inside POST use RET for the return value; pre-state is captured in ghost variables bound in PRE
 * (CBMC's __CPROVER_old is restricted and has no native meaning).
 */
#ifndef VERIF_H
#define VERIF_H

#include <stddef.h>
#include <stdbool.h>
#include <stdint.h>

typedef unsigned long long u64;
typedef long long i64;
typedef unsigned int u32;
typedef unsigned char u8;

/* implication usable in both modes (CBMC's ==> is not C) */
#define IMP(a, b) (!(a) || (b))

#define V_CLAUSE_REQ(c) __CPROVER_requires(c)
#define V_CLAUSE_ENS(c) __CPROVER_ensures(c)
#define REQUIRES(L) L(V_CLAUSE_REQ)
#define ENSURES(L)  L(V_CLAUSE_ENS)

#ifndef VERIF_REPLAY
/* ------------------------------------------------------------------ CBMC mode */

/* one body-less nondet function per input name: the trace then carries "name = value" */
#define IN(T, name)   T nondet_in_##name(void); T name = nondet_in_##name()
#define ING(T, name)  T nondet_in_##name(void); name = nondet_in_##name()   /* ghost global */
#define RET __CPROVER_return_value

#ifdef VERIF_FRESH
#define VFRESH(p, n) __CPROVER_is_fresh(p, n)
#else
#define VFRESH(p, n) 1
#endif

/* DFCC units: the call is just the call; goto-instrument wraps it with the contract. */
#define CALL(PRE_, POST_, call)            call
#define CALLR(T, PRE_, POST_, call)        T verif_ret = call; (void)verif_ret

/* harness units (no DFCC; used where DFCC cannot go, e.g. recursion): assume PRE / assert POST */
#define V_ASSUME(c) __CPROVER_assume(c);
#define V_ASSERT(c) __CPROVER_assert(c, "POST " #c);
#define HCALL(PRE_, POST_, call)           do { PRE_(V_ASSUME) call; POST_(V_ASSERT) } while (0)
#define HCALLR(T, PRE_, POST_, call)       T verif_ret; do { PRE_(V_ASSUME) verif_ret = call; POST_(V_ASSERT) } while (0)
#define HRET verif_ret

void verif_noreturn(void);

#else
/* ---------------------------------------------------------------- replay mode */
#include <stdio.h>
#include <stdlib.h>
#include <string.h>

void verif_replay_fetch(const char *name, void *p, size_t n);
void verif_replay_reject(const char *what);
void verif_replay_fail(const char *what);
void verif_noreturn(void);

#define IN(T, name)   T name; verif_replay_fetch(#name, &name, sizeof name)
#define ING(T, name)  verif_replay_fetch(#name, &name, sizeof name)
#define RET verif_ret
#define HRET verif_ret
#define VFRESH(p, n) 1

#define __CPROVER_requires(c)
#define __CPROVER_ensures(c)
#define __CPROVER_assigns(...)
#define __CPROVER_frees(...)
#define __CPROVER_assume(c)      do { if (!(c)) verif_replay_reject(#c); } while (0)
#define __CPROVER_assert(c, msg) do { if (!(c)) verif_replay_fail(msg); } while (0)
#define __CPROVER_is_fresh(p, n) 1
#define __CPROVER_bool _Bool

#define V_RPRE(c)  if (!(c)) verif_replay_reject(#c);
#define V_RPOST(c) if (!(c)) verif_replay_fail("POST " #c);
#define CALL(PRE_, POST_, call)      do { PRE_(V_RPRE) call; POST_(V_RPOST) } while (0)
#define CALLR(T, PRE_, POST_, call)  T verif_ret; do { PRE_(V_RPRE) verif_ret = call; POST_(V_RPOST) } while (0)
#define HCALL  CALL
#define HCALLR CALLR
#endif

/* canary: one reachable-but-false clause; it MUST fail, otherwise PRE is contradictory (DESIGN 2.4) */
#ifdef VERIF_CANARY
#define CANARY(X, c) X(c)
#else
#define CANARY(X, c)
#endif

#endif
