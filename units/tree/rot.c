/* UNIT
{
 "id": "TREE.rot",
 "file": "tree.c", "function": "rot",
 "properties": {"C15": "contract", "C19": "safety"},
 "mode": "dfcc", "enforce": "rot/rot_contract", "post_macro": "POST_ROT",
 "kind": "proof",
 "variants": {"dir0": ["-DV_DIR=0"], "dir1": ["-DV_DIR=1"]},
 "timeout": 120,
 "expects": ["postcondition", "assigns"],
 "assumes": ["subtree heights < 100 (MAXH is 96; int height arithmetic cannot overflow)"]
}
*/
#include "tree.c"
#include "verif.h"
#ifdef VERIF_CANARY
#define ROT_CANARY
#endif
#include "rot_contract.h"

void
harness(void)
{
	IN(int, in_hA); IN(int, in_hB); IN(int, in_hC); IN(int, in_hD); IN(int, in_hasz); IN(int, in_hx0);
	int dir = V_DIR;
	void **p = &t_root;
	struct treenode *x = &t_x;

	__CPROVER_assume(in_hA >= 0 && in_hB >= 0 && in_hC >= 0 && in_hD >= 0 && in_hA < 100 && in_hB < 100 && in_hC < 100 && in_hD < 100);
	__CPROVER_assume(in_hx0 > 0 && in_hx0 < 200);
	__CPROVER_assume(in_hasz == 0 || in_hasz == 1);
	rot_build(dir, in_hA, in_hB, in_hC, in_hD, in_hasz, in_hx0);
	CALLR(int, PRE_ROT, POST_ROT, rot(p, x, dir));
}
