/* UNIT
{
 "id": "TREE.insert.bnd",
 "file": "tree.c", "function": "treeinsert", "also_functions": ["balance", "rot", "height"],
 "properties": {"C15": "contract", "C19": "safety"},
 "mode": "harness",
 "kind": "bounded",
 "bound": "one insertion into every non-empty AVL tree of height <= 2 (<= 3 nodes; all shapes, all unsigned 64-bit keys, every inserted key); node size 40",
 "cflags": ["-DH=2", "-DVERIF_OWN_XMALLOC"],
 "unwindset": ["treeinsert.0:4", "treeinsert.1:5", "build.0:5"],
 "timeout": 400, "mem_gb": 12, "retry_no_simplify": false,
 "expects": ["assertion_verif", "assertion_repo", "array_bounds"],
 "assumes": ["height <= 3 (7 nodes) did not finish (> 280 s, > 12 GB with the workaround below) and is not part of any tier",
             "the global statement (insertion preserves the AVL/BST invariant for trees of ANY size) is checked only up to the stated height; the unbounded part is TREE.rot / TREE.balance",
             "xmalloc does not fail; node size 40 == sizeof(struct switchcase), the one call site",
             "the empty tree is not covered (the probe node g_p must exist)",
             "CBMC 6.11 symex defect worked around in the xmalloc stub (see comment there)"]
}
*/
#include "tree.c"
#include "verif.h"

#ifndef H
#define H 3
#endif
#define NN (1u << H)          /* heap-indexed slots 1 .. NN-1 */
#define MAX(a, b) ((a) > (b) ? (a) : (b))

/*
 * The pre-state tree lives in nd[1..NN-1] in heap order (children of i are 2i and 2i+1); slot i is part of the tree iff
 * bit i of the presence bitmap is set (and its parent is).  Keys are arbitrary 64-bit inputs, constrained only by PRE
 * (BST order).  Stored heights are the exact heights; PRE then demands balance in {-1,0,1}.  This is every AVL tree of
 * height <= H, a superset of the trees reachable by insertion.
 */
static struct treenode s0,s1,s2,s3,s4,s5,s6,s7,s8,s9,s10,s11,s12,s13,s14,s15;
static struct treenode *const nd[16]={&s0,&s1,&s2,&s3,&s4,&s5,&s6,&s7,&s8,&s9,&s10,&s11,&s12,&s13,&s14,&s15};
static void *t_root;
/*
 * Workaround for a CBMC 6.11 defect: symex re-simplifies a propagated pointer expression that mentions an OLD SSA
 * version of a pointer variable (the path-stack entries a[i] = &n->child[key > n->key], whose index contains
 * "n#k == &node") with the CURRENT value set of that variable; once `n` has been reassigned the comparison is folded
 * to false and *a[i] reads the wrong child slot - every obligation of balance()/rot() then fails spuriously.  Keeping
 * the value set of treeinsert's `n` after `n = xmalloc(sz)` a superset of all tree nodes makes that folding
 * impossible; the returned pointer itself is always the fresh object (assume(fresh)).
 */
_Bool nondet_fresh(void);
unsigned nondet_slot(void);
void *
xmalloc(size_t n)
{
	void *p = malloc(n);
	_Bool fresh = nondet_fresh();
	void *r;

	__CPROVER_assume(p != 0);
	r = fresh ? p : (void *)nd[nondet_slot() % NN];
	__CPROVER_assume(fresh);
	return r;
}

/* what one in-order walk over a tree observes (ghost state of the contract) */
struct obs {
	unsigned cnt;      /* number of nodes                                              */
	int height;        /* true height of the tree                                      */
	bool bst;          /* every key lies strictly between the keys of its ancestors    */
	bool exact;        /* every stored height == 1 + max(height of children)           */
	bool bal;          /* every node: |height(left) - height(right)| <= 1              */
	bool shallow;      /* no node deeper than H+1                                      */
	bool has_k;        /* the inserted key occurs                                      */
	bool has_q;        /* the ghost probe key g_q occurs                               */
	bool has_p;        /* the ghost probe node g_p is reachable                        */
	struct treenode *at_k;  /* the node carrying the inserted key                      */
};
static struct obs W, g_pre, g_post;
u64 g_key;                /* == key                                                    */
u64 g_q;                  /* arbitrary key: "for all keys" without a quantifier        */
struct treenode *g_p;     /* arbitrary node of the pre-state tree                      */
u64 g_pkey;               /* its key before the call                                   */

static int
walk0(struct treenode *n, bool hl, u64 lo, bool hh, u64 hi)
{
	if (n)
		W.shallow = false;
	return 0;
}

#define DEFWALK(name, next) \
static int \
name(struct treenode *n, bool hl, u64 lo, bool hh, u64 hi) \
{ \
	int h0, h1; \
	if (!n) \
		return 0; \
	++W.cnt; \
	if ((hl && !(lo < n->key)) || (hh && !(n->key < hi))) \
		W.bst = false; \
	if (n->key == g_key) { \
		W.has_k = true; \
		W.at_k = n; \
	} \
	if (n->key == g_q) \
		W.has_q = true; \
	if (n == g_p) \
		W.has_p = true; \
	h0 = next(n->child[0], hl, lo, true, n->key); \
	h1 = next(n->child[1], true, n->key, hh, hi); \
	if (n->height != MAX(h0, h1) + 1) \
		W.exact = false; \
	if (h0 - h1 < -1 || h0 - h1 > 1) \
		W.bal = false; \
	return MAX(h0, h1) + 1; \
}
DEFWALK(walk1, walk0)
DEFWALK(walk2, walk1)
DEFWALK(walk3, walk2)
DEFWALK(walk4, walk3)
#if H >= 4
DEFWALK(walk5, walk4)
#define WALKTOP walk5
#else
#define WALKTOP walk4
#endif

static void
observe(struct treenode *r, struct obs *o)
{
	W = (struct obs){.bst = true, .exact = true, .bal = true, .shallow = true};
	W.height = WALKTOP(r, false, 0, false, 0);
	*o = W;
}

static bool
build(unsigned present, unsigned newbits, const u64 *key)
{
	int hh[2 * NN] = {0};
	unsigned i;
	bool closed = true;    /* a slot is present only if its parent is (slot 1 is the root) */

	for (i = NN - 1; i >= 1; --i) {
		bool p = present >> i & 1;
		bool p0 = 2 * i < NN && (present >> 2 * i & 1);
		bool p1 = 2 * i + 1 < NN && (present >> (2 * i + 1) & 1);

		nd[i]->key = key[i];
		nd[i]->child[0] = p0 ? nd[2 * i] : 0;
		nd[i]->child[1] = p1 ? nd[2 * i + 1] : 0;
		hh[i] = p ? MAX(hh[2 * i], hh[2 * i + 1]) + 1 : 0;
		nd[i]->height = hh[i];
		nd[i]->new = newbits >> i & 1;     /* stale flags of earlier insertions: arbitrary */
		if (i >= 2 && p && !(present >> i / 2 & 1))
			closed = false;
	}
	t_root = present >> 1 & 1 ? nd[1] : 0;
	return closed;
}

/* the call under contract plus the ghost observation of the post-state */
static void *
insert_observed(void **root, unsigned long long key, size_t sz)
{
	void *r = treeinsert(root, key, sz);
	observe(*root, &g_post);
	return r;
}

#define PRE(X) \
	X(root != 0) \
	/* the one call site (qbe.c switchcase) passes sizeof(struct switchcase); treeinsert asserts this */ \
	X(sz > sizeof(struct treenode)) \
	X(g_key == key) \
	X(g_pre.bst && g_pre.exact && g_pre.bal && g_pre.shallow && g_pre.height <= H) \
	X(IMP(g_p != 0, g_pre.has_p && g_p->key == g_pkey))

#define POST(X) \
	/* the search-tree and AVL invariants hold again */ \
	X(g_post.bst) \
	X(g_post.exact) \
	X(g_post.bal) \
	X(g_post.shallow && (g_post.height == g_pre.height || g_post.height == g_pre.height + 1)) \
	X(IMP(g_pre.has_k, g_post.height == g_pre.height)) \
	/* exactly one node more iff the key was absent; key set == old key set + {key} (g_q arbitrary) */ \
	X(g_post.cnt == g_pre.cnt + !g_pre.has_k) \
	X(g_post.has_q == (g_pre.has_q || g_q == key)) \
	/* every old node is still in the tree and still carries its key (bodies are recorded on nodes) */ \
	X(IMP(g_p != 0, g_post.has_p && g_p->key == g_pkey)) \
	/* result: the node carrying key; new iff it was allocated by this call (duplicate detection in switchcase) */ \
	X(HRET != 0 && ((struct treenode *)HRET)->key == key) \
	X(HRET == g_post.at_k) \
	X(((struct treenode *)HRET)->new == !g_pre.has_k) \
	X(IMP(g_pre.has_k, HRET == g_pre.at_k)) \
	 \
	CANARY(X, !(g_pre.cnt == 2 && !g_pre.has_k && g_post.cnt == 3 && g_post.height == 2))

void
harness(void)
{
	u64 k[NN] = {0};
	void **root = &t_root;

	IN(unsigned, in_present);
	IN(unsigned, in_new);
	IN(unsigned, in_p);
	IN(u64, in_k1); IN(u64, in_k2); IN(u64, in_k3); IN(u64, in_k4); IN(u64, in_k5); IN(u64, in_k6); IN(u64, in_k7);
#if H >= 4
	IN(u64, in_k8); IN(u64, in_k9); IN(u64, in_k10); IN(u64, in_k11); IN(u64, in_k12); IN(u64, in_k13); IN(u64, in_k14); IN(u64, in_k15);
#endif
	IN(unsigned long long, key);
	size_t sz = 40;
	ING(u64, g_q);

	k[1] = in_k1; k[2] = in_k2; k[3] = in_k3;
#if H >= 3
k[4] = in_k4; k[5] = in_k5; k[6] = in_k6; k[7] = in_k7;
#endif
#if H >= 4
	k[8] = in_k8; k[9] = in_k9; k[10] = in_k10; k[11] = in_k11; k[12] = in_k12; k[13] = in_k13; k[14] = in_k14; k[15] = in_k15;
#endif
	__CPROVER_assume(in_present < (1u << NN) && !(in_present & 1));
	/* in_p == 0: no probe node (the only choice for the empty tree) */
	__CPROVER_assume(in_p < NN && (in_p == 0 || (in_present >> in_p & 1)));
	__CPROVER_assume(build(in_present, in_new, k));
	g_key = key;
	g_p = in_p ? nd[in_p] : 0;
	g_pkey = k[in_p];
	observe(t_root, &g_pre);
	HCALLR(void *, PRE, POST, insert_observed(root, key, sz));
}
