/*
 * Contract of tree.c:rot(), shared by TREE.rot (enforced) and TREE.balance (rot replaced by this contract, so
 * that its precondition is asserted at balance()'s real call site).
 *
 * Shape (dir = deeper side; picture for dir == 1):      x            A,B,C,D: subtrees, NULL iff ghost height 0,
 *                                                      / \           otherwise a node whose STORED height is exact
 *                                                     A   y          z may be NULL (then B = C = NULL, hz = 0)
 *                                                        / \
 *                                                       z   D
 *                                                      / \
 *                                                     B   C
 * Ghosts (logical variables): the seven node pointers and four subtree heights of the pre-state.
 */
struct treenode *g_x, *g_y, *g_z, *g_A, *g_B, *g_C, *g_D;
int g_hA, g_hB, g_hC, g_hD, g_hx0, g_hz;
int g_dir;   /* == dir; a ghost so that it is a constant where the harness fixes it (symbolic child indices blow CBMC up) */

/* contract text must not add overflow obligations of its own when it is ASSUMED over havocked heights */
#pragma CPROVER check push
#pragma CPROVER check disable "signed-overflow"
#define HT(n)      ((n) ? ((struct treenode *)(n))->height : 0)
#define MAX(a, b)  ((a) > (b) ? (a) : (b))
#define CH(n, i)   ((struct treenode *)((struct treenode *)(n))->child[i])
#define EXACT(n)   (((struct treenode *)(n))->height == MAX(HT(CH(n, 0)), HT(CH(n, 1))) + 1)
#define BAL(n)     (HT(CH(n, 0)) - HT(CH(n, 1)) >= -1 && HT(CH(n, 0)) - HT(CH(n, 1)) <= 1)
#define SUB(n, h)  (((h) == 0 && (n) == 0) || ((h) > 0 && (n) != 0 && (n)->height == (h)))

#define PRE_ROT(X) \
	X((g_dir == 0 || g_dir == 1) && dir == g_dir) \
	X(p != 0 && x != 0 && x == g_x) \
	X(g_hA >= 0 && g_hB >= 0 && g_hC >= 0 && g_hD >= 0 && g_hA < 100 && g_hB < 100 && g_hC < 100 && g_hD < 100) \
	X(g_y == CH(x, g_dir) && g_y != 0 && g_A == CH(x, !g_dir)) \
	X(g_z == CH(g_y, !g_dir) && g_D == CH(g_y, g_dir)) \
	X(IMP(g_z != 0, g_B == CH(g_z, !g_dir) && g_C == CH(g_z, g_dir))) \
	X(IMP(g_z == 0, g_B == 0 && g_C == 0 && g_hB == 0 && g_hC == 0)) \
	X(SUB(g_A, g_hA) && SUB(g_B, g_hB) && SUB(g_C, g_hC) && SUB(g_D, g_hD)) \
	/* z and y carry exact stored heights and are AVL-balanced; x's deeper side is exactly two higher */ \
	X(g_hz == (g_z ? MAX(g_hB, g_hC) + 1 : 0)) \
	X(IMP(g_z != 0, g_z->height == g_hz && g_hB - g_hC >= -1 && g_hB - g_hC <= 1)) \
	X(g_y->height == MAX(g_hz, g_hD) + 1 && g_hz - g_hD >= -1 && g_hz - g_hD <= 1) \
	X(g_y->height - g_hA == 2) \
	X(g_hx0 == x->height)

/* Heights after the rotation, as functions of the four ghost subtree heights (the textbook AVL facts).
 * They are stated over ghosts, not by re-reading child pointers: where this contract REPLACES the call
 * (TREE.balance) the child pointers are havocked and CBMC cannot dereference through them. */
#define ABS1(a, b) ((a) - (b) >= -1 && (a) - (b) <= 1)
#define ROT_DOUBLE (g_hz > g_hD)
#define HX_D (MAX(g_hA, g_hB) + 1)
#define HY_D (MAX(g_hC, g_hD) + 1)
#define HZ_D (MAX(HX_D, HY_D) + 1)
#define HX_S (MAX(g_hA, g_hz) + 1)
#define HY_S (MAX(HX_S, g_hD) + 1)

#define POST_ROT(X) \
	/* double rotation iff the inner grandchild is the deeper one */ \
	X(IMP(ROT_DOUBLE, *p == g_z)) \
	X(IMP(!ROT_DOUBLE, *p == g_y)) \
	/* in-order sequence  A x B z C y D  is preserved */ \
	X(IMP(ROT_DOUBLE, CH(g_z, !g_dir) == g_x && CH(g_z, g_dir) == g_y)) \
	X(IMP(ROT_DOUBLE, CH(g_x, !g_dir) == g_A && CH(g_x, g_dir) == g_B)) \
	X(IMP(ROT_DOUBLE, CH(g_y, !g_dir) == g_C && CH(g_y, g_dir) == g_D)) \
	X(IMP(!ROT_DOUBLE, CH(g_y, !g_dir) == g_x && CH(g_y, g_dir) == g_D)) \
	X(IMP(!ROT_DOUBLE, CH(g_x, !g_dir) == g_A && CH(g_x, g_dir) == g_z)) \
	X(IMP(!ROT_DOUBLE && g_z != 0, CH(g_z, !g_dir) == g_B && CH(g_z, g_dir) == g_C && g_z->height == g_hz)) \
	/* every touched node has an exact stored height ... */ \
	X(IMP(ROT_DOUBLE, g_x->height == HX_D && g_y->height == HY_D && g_z->height == HZ_D)) \
	X(IMP(!ROT_DOUBLE, g_x->height == HX_S && g_y->height == HY_S)) \
	/* ... and is AVL-balanced */ \
	X(IMP(ROT_DOUBLE, ABS1(g_hA, g_hB) && ABS1(g_hC, g_hD) && ABS1(HX_D, HY_D))) \
	X(IMP(!ROT_DOUBLE, ABS1(g_hA, g_hz) && ABS1(HX_S, g_hD))) \
	/* the subtrees themselves are untouched */ \
	X(SUB(g_A, g_hA) && SUB(g_B, g_hB) && SUB(g_C, g_hC) && SUB(g_D, g_hD)) \
	/* return value: new height of the subtree minus the height x had stored */ \
	X(RET == (ROT_DOUBLE ? HZ_D : HY_S) - g_hx0)

static int rot_contract(void **p, struct treenode *x, int dir)
REQUIRES(PRE_ROT)
__CPROVER_assigns(*p, g_x->child[0], g_x->child[1], g_x->height, g_y->child[0], g_y->child[1], g_y->height)
__CPROVER_assigns(g_z != 0: g_z->child[0], g_z->child[1], g_z->height)
ENSURES(POST_ROT)
#ifdef ROT_CANARY
__CPROVER_ensures(!(g_hA == 2 && g_hB == 1 && g_hC == 2 && g_hD == 2))
#endif
;

#pragma CPROVER check pop

/* build the seven-node configuration from scalar inputs (used by both harnesses) */
static struct treenode t_x, t_y, t_z, t_A, t_B, t_C, t_D;
static void *t_root;

static struct treenode *
t_sub(struct treenode *n, int h)
{
	if (h == 0)
		return 0;
	n->height = h;
	return n;
}

static void
rot_build(int dir, int hA, int hB, int hC, int hD, int hasz, int hx0)
{
	g_dir = dir;
	g_hA = hA; g_hB = hB; g_hC = hC; g_hD = hD;
	g_x = &t_x; g_y = &t_y;
	g_z = hasz ? &t_z : 0;
	g_A = t_sub(&t_A, hA); g_B = t_sub(&t_B, hB); g_C = t_sub(&t_C, hC); g_D = t_sub(&t_D, hD);
	g_hz = g_z ? MAX(hB, hC) + 1 : 0;
	if (g_z) {
		t_z.child[!dir] = g_B; t_z.child[dir] = g_C; t_z.height = g_hz;
	}
	t_y.child[!dir] = g_z; t_y.child[dir] = g_D; t_y.height = MAX(g_hz, hD) + 1;
	t_x.child[!dir] = g_A; t_x.child[dir] = g_y; t_x.height = hx0;
	g_hx0 = hx0;
	t_root = &t_x;
}
