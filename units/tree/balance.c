/* UNIT
{
 "id": "TREE.balance",
 "file": "tree.c", "function": "balance",
 "properties": {"C15": "contract", "C19": "safety"},
 "mode": "dfcc", "enforce": "balance/balance_contract", "post_macro": "POST_BAL",
 "replace_contracts": {"rot": "rot_contract"},
 "kind": "proof",
 "variants": {"dir0": ["-DV_DIR=0"], "dir1": ["-DV_DIR=1"]},
 "timeout": 120,
 "expects": ["postcondition", "precondition"],
 "assumes": ["subtree heights < 100"]
}
*/
#include "tree.c"
#include "verif.h"
#include "rot_contract.h"

/*
 * balance(p) is called by treeinsert on every ancestor of the new node, bottom-up.  n = *p has two children that are
 * AVL subtrees with exact stored heights differing by at most 2; n->height is the value stored BEFORE the insertion.
 * The configuration reuses the seven-node picture of rot_contract.h: n = x, its two children are A (height hA) and
 * y (built from z/D); b_deep tells which side y is on.  When |h(A) - h(y)| <= 1 no rotation happens.
 */
int g_hn0, g_hy;

#define PRE_BAL(X) \
	X(p != 0 && *p == g_x && g_x != 0) \
	X(g_dir == 0 || g_dir == 1) \
	X(g_hA >= 0 && g_hB >= 0 && g_hC >= 0 && g_hD >= 0 && g_hA < 100 && g_hB < 100 && g_hC < 100 && g_hD < 100) \
	X(g_y == CH(g_x, g_dir) && g_y != 0 && g_A == CH(g_x, !g_dir)) \
	X(g_z == CH(g_y, !g_dir) && g_D == CH(g_y, g_dir)) \
	X(IMP(g_z != 0, g_B == CH(g_z, !g_dir) && g_C == CH(g_z, g_dir))) \
	X(IMP(g_z == 0, g_B == 0 && g_C == 0 && g_hB == 0 && g_hC == 0)) \
	X(SUB(g_A, g_hA) && SUB(g_B, g_hB) && SUB(g_C, g_hC) && SUB(g_D, g_hD)) \
	X(g_hz == (g_z ? MAX(g_hB, g_hC) + 1 : 0)) \
	X(IMP(g_z != 0, g_z->height == g_hz && g_hB - g_hC >= -1 && g_hB - g_hC <= 1)) \
	X(g_hy == MAX(g_hz, g_hD) + 1 && g_y->height == g_hy && g_hz - g_hD >= -1 && g_hz - g_hD <= 1) \
	/* children differ by at most two, y is the side that may be deeper */ \
	X(g_hy - g_hA <= 2 && g_hy - g_hA >= -1) \
	X(g_hn0 == g_x->height && g_hx0 == g_hn0)

#define NOROT  (g_hy - g_hA <= 1)
#define DOUBLE (g_hy - g_hA == 2 && ROT_DOUBLE)
#define SINGLE (g_hy - g_hA == 2 && !ROT_DOUBLE)
#define HX_N   (MAX(g_hA, g_hy) + 1)
#define POST_BAL(X) \
	/* no rotation when the node was already balanced: same root, same children, height recomputed exactly */ \
	X(IMP(NOROT, *p == g_x && CH(g_x, g_dir) == g_y && CH(g_x, !g_dir) == g_A)) \
	X(IMP(NOROT, g_x->height == HX_N && ABS1(g_hA, g_hy) && g_y->height == g_hy)) \
	X(IMP(NOROT, RET == HX_N - g_hn0)) \
	/* rotation exactly when the difference is two; in-order sequence A x B z C y D preserved */ \
	X(IMP(DOUBLE, *p == g_z && CH(g_z, !g_dir) == g_x && CH(g_z, g_dir) == g_y)) \
	X(IMP(DOUBLE, CH(g_x, !g_dir) == g_A && CH(g_x, g_dir) == g_B && CH(g_y, !g_dir) == g_C && CH(g_y, g_dir) == g_D)) \
	X(IMP(DOUBLE, g_x->height == HX_D && g_y->height == HY_D && g_z->height == HZ_D)) \
	X(IMP(DOUBLE, ABS1(g_hA, g_hB) && ABS1(g_hC, g_hD) && ABS1(HX_D, HY_D))) \
	X(IMP(DOUBLE, RET == HZ_D - g_hn0)) \
	X(IMP(SINGLE, *p == g_y && CH(g_y, !g_dir) == g_x && CH(g_y, g_dir) == g_D)) \
	X(IMP(SINGLE, CH(g_x, !g_dir) == g_A && CH(g_x, g_dir) == g_z)) \
	X(IMP(SINGLE, g_x->height == HX_S && g_y->height == HY_S)) \
	X(IMP(SINGLE, ABS1(g_hA, g_hz) && ABS1(HX_S, g_hD))) \
	X(IMP(SINGLE, RET == HY_S - g_hn0)) \
	/* the subtrees below are untouched */ \
	X(SUB(g_A, g_hA) && SUB(g_B, g_hB) && SUB(g_C, g_hC) && SUB(g_D, g_hD)) \
	X(IMP(!DOUBLE && g_z != 0, g_z->height == g_hz && CH(g_z, !g_dir) == g_B && CH(g_z, g_dir) == g_C)) \
	CANARY(X, !(g_hA == 2 && g_hB == 1 && g_hC == 2 && g_hD == 2))

static int balance_contract(void **p)
REQUIRES(PRE_BAL)
__CPROVER_assigns(*p, g_x->child[0], g_x->child[1], g_x->height, g_y->child[0], g_y->child[1], g_y->height)
__CPROVER_assigns(g_z != 0: g_z->child[0], g_z->child[1], g_z->height)
ENSURES(POST_BAL);

void
harness(void)
{
	int in_dir = V_DIR;
	IN(int, in_hA); IN(int, in_hB); IN(int, in_hC); IN(int, in_hD); IN(int, in_hasz); IN(int, in_hn0);
	void **p = &t_root;

	__CPROVER_assume(in_dir == 0 || in_dir == 1);
	__CPROVER_assume(in_hA >= 0 && in_hB >= 0 && in_hC >= 0 && in_hD >= 0 && in_hA < 100 && in_hB < 100 && in_hC < 100 && in_hD < 100);
	__CPROVER_assume(in_hn0 > 0 && in_hn0 < 200);
	__CPROVER_assume(in_hasz == 0 || in_hasz == 1);
	rot_build(in_dir, in_hA, in_hB, in_hC, in_hD, in_hasz, in_hn0);
	g_hn0 = in_hn0; g_hy = t_y.height;
	CALLR(int, PRE_BAL, POST_BAL, balance(p));
}
