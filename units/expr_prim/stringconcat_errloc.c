/* UNIT
{
 "id": "EXPR.stringconcat.errloc",
 "file": "expr.c", "function": "stringconcat", "also_functions": ["decodechar"],
 "properties": {"C11": "contract", "C19": "safety"},
 "mode": "harness",
 "link_repo": ["type.c", "utf.c"], "noreturn_macros": false, "stubs": [],
 "unwind": 8,
 "kind": "bounded",
 "bound": "two adjacent string literal tokens on different lines, each with a body of one ASCII character or one invalid UTF-8 byte",
 "timeout": 200,
 "assumes": ["error(loc, ...) is a stand-in that RECORDS the location it is given and ends the path; next() delivers the second token; arrayadd is a fixed-capacity append (UTIL.arrayadd)"]
}
*/
#include <stddef.h>
struct location;
void verif_error_at(const struct location *loc);
void verif_noreturn(void);
#define error(loc, ...) verif_error_at(loc)
#define fatal(...) verif_noreturn()
#include "expr.c"
#include "verif.h"

struct token tok;
const struct target *targ;
static struct target t_targ;
static char lit1[8], lit2[8];
static int want_line;
static struct { char buf[64]; } parts_store;
static int n_err;

void verif_noreturn(void) { __CPROVER_assume(0); }
void
verif_error_at(const struct location *loc)
{
	n_err++;
	__CPROVER_assert(loc != 0 && (int)loc->line == want_line, "a diagnostic about a piece of a concatenated string literal carries the location of THAT piece");
#ifdef VERIF_CANARY
	__CPROVER_assert(want_line != 202, "CANARY");
#endif
	__CPROVER_assume(0);
}
void next(void) { if (tok.lit == lit1) { tok.lit = lit2; tok.kind = TSTRINGLIT; tok.loc.line = 202; } else tok.kind = TEOF; }
void *xmalloc(size_t n) { void *p = malloc(n); __CPROVER_assume(p != 0); return p; }
static char out_store[64];
void *xreallocarray(void *b, size_t n, size_t m) { __CPROVER_assert(n * m <= sizeof out_store, "fits"); return out_store; }
void *arrayadd(struct array *a, size_t n) { void *v; if (!a->val) { a->val = parts_store.buf; a->cap = sizeof parts_store.buf; } __CPROVER_assert(a->len + n <= a->cap, "fits"); v = (char *)a->val + a->len; a->len += n; return v; }

/*
 * C11: "Every diagnostic starts with file:line:col ... where file and line identify ... a token of the offending construct".
 * For adjacent string literals spread over several lines the offending token is the piece that contains the bad character.
 */
void
harness(void)
{
	struct stringlit sl;
	IN(bool, in_bad1); IN(bool, in_bad2); IN(u8, in_c1); IN(u8, in_c2);

	__CPROVER_assume(in_c1 >= 0x20 && in_c1 < 0x7f && in_c1 != '"' && in_c1 != '\\');
	__CPROVER_assume(in_c2 >= 0x20 && in_c2 < 0x7f && in_c2 != '"' && in_c2 != '\\');
	__CPROVER_assume(in_bad1 || in_bad2);
	t_targ.typewchar = &typeint; targ = &t_targ;
	lit1[0] = '"'; lit1[1] = in_bad1 ? (char)0xff : (char)in_c1; lit1[2] = '"'; lit1[3] = 0;
	lit2[0] = '"'; lit2[1] = in_bad2 ? (char)0xff : (char)in_c2; lit2[2] = '"'; lit2[3] = 0;
	want_line = in_bad1 ? 201 : 202;
	n_err = 0;
	tok.kind = TSTRINGLIT; tok.lit = lit1; tok.loc.line = 201; tok.loc.col = 1; tok.loc.file = "msgs.c";

	stringconcat(&sl, false);

	__CPROVER_assert(0, "a literal with an invalid UTF-8 byte is diagnosed (no normal return)");
}
