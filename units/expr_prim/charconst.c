/* UNIT
{
 "id": "EXPR.primary.charconst",
 "file": "expr.c", "function": "primaryexpr", "also_functions": ["decodechar", "mkconstexpr"],
 "properties": {"C14": "contract", "C05": "contract", "C19": "safety"},
 "mode": "harness",
 "link_repo": ["type.c", "utf.c"],
 "unwind": 6,
 "kind": "proof-const-unwind",
 "bound": "character constants whose body is one ASCII character, a simple escape, \\xHH (1-2 hex digits) or an octal escape of 1-3 digits: the forms C11 6.4.4.4 gives a value without reference to the execution character set mapping of multi-byte characters",
 "timeout": 120,
 "assumes": ["next() consumes the token (stand-in); the scanner delivers a well-formed token text prefix ' body ' (SCAN.* units)",
             "targets: wchar_t is int or unsigned int, plain char signed or unsigned (targ.c)"]
}
*/
#include "expr.c"
#include "verif.h"

struct token tok;
const struct target *targ;
static struct target t_targ;
void next(void) { tok.kind = TEOF; }
extern int g_no_error;

/*
 * C11 6.4.4.4p10-11, C23 6.4.4.5: an integer character constant has type int and "the value ... is the value of an
 * object with type char whose value is that of the single character or escape sequence, converted to type int";
 * u8'' has type unsigned char (C23; char8_t), u'' char16_t (uint_least16_t = unsigned short), U'' char32_t
 * (uint_least32_t = unsigned int), L'' wchar_t (per target).  Octal/hex escapes denote the numeric value.
 */
void
harness(void)
{
	static char lit[12];
	IN(int, in_prefix);      /* 0 none, 1 u8, 2 u, 3 U, 4 L */
	IN(int, in_shape);       /* 0 plain ASCII char, 1 \xH, 2 \xHH, 3 octal 1 digit, 4 octal 2, 5 octal 3 */
	IN(u8, in_c1); IN(u8, in_c2); IN(u8, in_c3);
	IN(bool, in_signedchar); IN(bool, in_signedwchar);
	struct expr *e;
	struct type *want;
	unsigned n = 0, v = 0;
	long long wantv;

	__CPROVER_assume(in_prefix >= 0 && in_prefix <= 4 && in_shape >= 0 && in_shape <= 5);
	typechar.u.basic.issigned = in_signedchar;
	t_targ.typewchar = in_signedwchar ? &typeint : &typeuint;
	t_targ.signedchar = in_signedchar;
	targ = &t_targ;
	if (in_prefix == 1) { lit[n++] = 'u'; lit[n++] = '8'; }
	if (in_prefix == 2) lit[n++] = 'u';
	if (in_prefix == 3) lit[n++] = 'U';
	if (in_prefix == 4) lit[n++] = 'L';
	lit[n++] = '\'';
#define HEXV(c) ((c) >= '0' && (c) <= '9' ? (c) - '0' : (c) >= 'a' && (c) <= 'f' ? (c) - 'a' + 10 : (c) - 'A' + 10)
#define ISHEX(c) (((c) >= '0' && (c) <= '9') || ((c) >= 'a' && (c) <= 'f') || ((c) >= 'A' && (c) <= 'F'))
#define ISOCT(c) ((c) >= '0' && (c) <= '7')
	switch (in_shape) {
	case 0:
		__CPROVER_assume(in_c1 >= 0x20 && in_c1 < 0x7f && in_c1 != '\'' && in_c1 != '\\');
		lit[n++] = in_c1; v = in_c1; break;
	case 1:
		__CPROVER_assume(ISHEX(in_c1));
		lit[n++] = '\\'; lit[n++] = 'x'; lit[n++] = in_c1; v = HEXV(in_c1); break;
	case 2:
		__CPROVER_assume(ISHEX(in_c1) && ISHEX(in_c2));
		lit[n++] = '\\'; lit[n++] = 'x'; lit[n++] = in_c1; lit[n++] = in_c2; v = HEXV(in_c1) * 16 + HEXV(in_c2); break;
	case 3:
		__CPROVER_assume(ISOCT(in_c1));
		lit[n++] = '\\'; lit[n++] = in_c1; v = in_c1 - '0'; break;
	case 4:
		__CPROVER_assume(ISOCT(in_c1) && ISOCT(in_c2));
		lit[n++] = '\\'; lit[n++] = in_c1; lit[n++] = in_c2; v = (in_c1 - '0') * 8 + (in_c2 - '0'); break;
	case 5:
		__CPROVER_assume(ISOCT(in_c1) && in_c1 <= '3' && ISOCT(in_c2) && ISOCT(in_c3));
		lit[n++] = '\\'; lit[n++] = in_c1; lit[n++] = in_c2; lit[n++] = in_c3;
		v = (in_c1 - '0') * 64 + (in_c2 - '0') * 8 + (in_c3 - '0'); break;
	}
	lit[n++] = '\'';
	lit[n] = 0;
	tok.kind = TCHARCONST;
	tok.lit = lit;
	g_no_error = 1;                       /* every constant built here is valid: it must not be diagnosed */

	e = primaryexpr(0);

	switch (in_prefix) {
	case 0: want = &typeint; wantv = in_signedchar ? (long long)(signed char)v : (long long)v; break;
	case 1: want = &typeuchar; wantv = v; break;
	case 2: want = &typeushort; wantv = v; break;
	case 3: want = &typeuint; wantv = v; break;
	default: want = in_signedwchar ? &typeint : &typeuint; wantv = v; break;
	}
	__CPROVER_assert(e != 0 && e->kind == EXPRCONST, "a character constant is a constant expression");
	__CPROVER_assert(e->type == want, "type by prefix: none int, u8 unsigned char, u char16_t, U char32_t, L wchar_t of the target");
	__CPROVER_assert(in_prefix == 0 || e->u.constant.u == (u64)wantv, "prefixed constant: value of the character / numeric escape");
	__CPROVER_assert(in_prefix != 0 || e->u.constant.i == wantv, "plain constant: value of a char object holding it, converted to int (negative for bytes >= 0x80 where char is signed)");
	__CPROVER_assert(tok.kind == TEOF, "token consumed");
#ifdef VERIF_CANARY
	__CPROVER_assert(!(in_prefix == 3 && in_shape == 2), "CANARY");
#endif
}
