/* UNIT
{
 "id": "EXPR.assignexpr.compound",
 "file": "expr.c", "function": "assignexpr", "also_functions": ["mkassignexpr", "mkunaryexpr", "mkbinaryexpr"],
 "properties": {"C01": "contract", "C10": "contract", "C19": "safety"},
 "mode": "harness",
 "replace_calls": {"condexpr": "stub_condexpr"}, "replay": false,
 "link_repo": ["type.c"],
 "unwind": 4,
 "variants": {"MUL": ["-DV_TOK=TMULASSIGN"], "DIV": ["-DV_TOK=TDIVASSIGN"], "MOD": ["-DV_TOK=TMODASSIGN"], "ADD": ["-DV_TOK=TADDASSIGN"], "SUB": ["-DV_TOK=TSUBASSIGN"], "SHL": ["-DV_TOK=TSHLASSIGN"], "SHR": ["-DV_TOK=TSHRASSIGN"], "BAND": ["-DV_TOK=TBANDASSIGN"], "XOR": ["-DV_TOK=TXORASSIGN"], "BOR": ["-DV_TOK=TBORASSIGN"]},
 "canary_variant": "SHL",
 "kind": "proof-const-unwind",
 "timeout": 200,
 "assumes": ["condexpr() is a stand-in returning the two operands the harness built (left: an int or unsigned lvalue identifier with arbitrary qualifiers; right: an int constant); next() advances a two-token script; eval() is the identity",
             "operand types int/unsigned int (the typing of other operand pairs is EXPR.mkbinary.*'s business)"]
}
*/
#include "expr.c"
#include "verif.h"

struct token tok;
const struct target *targ;
static struct expr *g_operand[2];
static int g_ncond;
extern int g_no_error;
struct expr *eval(struct expr *e) { return e; }
void next(void) { tok.kind = TSEMICOLON; }

/* the parser below assignexpr: first call yields the left operand, second the right */
struct expr *stub_condexpr(struct scope *s) { return g_operand[g_ncond++ & 1]; }

/*
 * C11 6.5.16.2p3: "A compound assignment of the form E1 op= E2 is equivalent to the simple assignment expression
 * E1 = E1 op (E2), except that the lvalue E1 is evaluated only once".  cproc rewrites it to  T = &E1, *T = *T op E2.
 * The rewritten store must still be a store to E1's object WITH E1's qualifiers (a const or volatile E1 has to reach
 * the store check, C11 6.5.16p2 / cproc's documented volatile limitation), its type is E1's type, the operator is the
 * one spelled, and E1 itself appears exactly once (under the address-of).
 */
static struct expr *strip(struct expr *e) { while (e->kind == EXPRCAST) e = e->base; return e; }
/* read through a function parameter: CBMC 6.11 mis-resolves a nested dereference through a pointer read from the union in struct expr */
static struct type *typeof_(struct expr *e) { return e->type; }

void
harness(void)
{
	static struct decl d;
	static struct expr l0, r0;
	struct expr *e, *a1, *a2, *tmp, *lv, *bin, *bl;
	int in_tok = V_TOK;     /* one run per compound operator */
	IN(int, in_qual); IN(bool, in_unsigned);
	enum tokenkind want;

	switch (in_tok) {
	case TMULASSIGN: want = TMUL; break; case TDIVASSIGN: want = TDIV; break; case TMODASSIGN: want = TMOD; break;
	case TADDASSIGN: want = TADD; break; case TSUBASSIGN: want = TSUB; break; case TSHLASSIGN: want = TSHL; break;
	case TSHRASSIGN: want = TSHR; break; case TBANDASSIGN: want = TBAND; break; case TXORASSIGN: want = TXOR; break;
	case TBORASSIGN: want = TBOR; break;
	default: __CPROVER_assume(0);
	}
	__CPROVER_assume((in_qual & ~(QUALCONST|QUALVOLATILE|QUALRESTRICT)) == 0);
	typeint = (struct type){.kind = TYPEINT, .size = 4, .align = 4, .u.basic.issigned = 1, .prop = PROPSCALAR|PROPARITH|PROPREAL|PROPINT};
	typeuint = typeint; typeuint.u.basic.issigned = 0;
	d.kind = DECLOBJECT; d.type = in_unsigned ? &typeuint : &typeint; d.qual = in_qual;
	l0.kind = EXPRIDENT; l0.type = d.type; l0.qual = in_qual; l0.lvalue = true; l0.u.ident.decl = &d;
	r0.kind = EXPRCONST; r0.type = &typeint; r0.u.constant.u = 3;
	g_operand[0] = &l0; g_operand[1] = &r0; g_ncond = 0;
	tok.kind = in_tok;
	g_no_error = 1;

	e = assignexpr(0);

	__CPROVER_assert(e->kind == EXPRCOMMA && e->type == l0.type, "value and type of E1 op= E2 are those of E1 after the assignment");
	a1 = e->base;
	__CPROVER_assert(a1 && a1->kind == EXPRASSIGN && a1->next && a1->next->kind == EXPRASSIGN && a1->next->next == 0, "T = &E1, *T = *T op E2");
	a2 = a1->next;
	tmp = a1->u.assign.l;
	__CPROVER_assert(tmp->kind == EXPRTEMP && tmp->type->kind == TYPEPOINTER && tmp->type->base == l0.type, "T points to E1's type");
	__CPROVER_assert(strip(a1->u.assign.r)->kind == EXPRUNARY && strip(a1->u.assign.r)->op == TBAND && strip(a1->u.assign.r)->base == &l0, "E1 is evaluated once, as &E1");
	lv = a2->u.assign.l;
	__CPROVER_assert(lv->kind == EXPRUNARY && lv->op == TMUL && lv->base == tmp && lv->lvalue, "the store goes through *T");
	__CPROVER_assert(lv->type == l0.type, "the stored-to lvalue has E1's type");
	__CPROVER_assert(lv->qual == (enum typequal)in_qual, "the stored-to lvalue keeps E1's qualifiers (const/volatile reach the store check)");
	bin = strip(a2->u.assign.r);
	__CPROVER_assert(bin->kind == EXPRBINARY && bin->op == want, "the operator is the one spelled in op=");
	bl = strip(bin->u.binary.l);
	__CPROVER_assert(bl->kind == EXPRUNARY && bl->op == TMUL && bl->base == tmp, "left operand of op is the old value *T");
	__CPROVER_assert(strip(bin->u.binary.r) == &r0, "right operand of op is E2");
	__CPROVER_assert(typeof_(a2->u.assign.r) == l0.type, "result converted to E1's type before the store");
#ifdef VERIF_CANARY
	__CPROVER_assert(in_tok != TSHLASSIGN, "CANARY");
#endif
}
