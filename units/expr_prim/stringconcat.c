/* UNIT
{
 "id": "EXPR.stringconcat.bnd",
 "file": "expr.c", "function": "stringconcat", "also_functions": ["decodechar", "encodechar8", "encodechar16", "encodechar32"],
 "properties": {"C14": "contract", "C19": "safety"},
 "mode": "harness",
 "link_repo": ["type.c", "utf.c", "util.c"], "stubs": [], "noreturn_macros": false,
 "unwind": 16,
 "kind": "bounded",
 "bound": "one or two adjacent string-literal tokens; first literal: two elements, second: one element; each element is an ASCII character, a 3-digit octal escape, or a 2-byte UTF-8 character; every prefix combination",
 "timeout": 300, "mem_gb": 12,
 "assumes": ["next() delivers the following token (stand-in for the preprocessor); token texts are well-formed prefix \" body \" (SCAN.* units)",
             "util.c linked for arrayadd/xreallocarray with its fatal() mapped to a non-returning stub"]
}
*/
/* diagnostics of expr.c end the path; util.c is linked unmodified (its fatal() ends in exit()) */
#define error(...) verif_noreturn()
#include "expr.c"
#include "verif.h"

struct token tok;
const struct target *targ;
static struct target t_targ;
static char lit1[16], lit2[16];
static int ntok;
int g_no_error;
void verif_noreturn(void) { __CPROVER_assert(!g_no_error, "diagnostic reached on an input the property says must be accepted"); __CPROVER_assume(0); }
void next(void) { if (ntok == 2 && tok.lit == lit1) { tok.lit = lit2; tok.kind = TSTRINGLIT; } else tok.kind = TEOF; }

/*
 * C11 6.4.5p5-6: adjacent string literal tokens are concatenated; an unprefixed token next to a prefixed one takes the
 * prefix; the element type is char / char8_t (unsigned char) / char16_t / char32_t / wchar_t by prefix; each source
 * character is stored as its UTF-8 / UTF-16 / UTF-32 code units, each numeric escape sequence as ONE code unit with
 * that value -- independently of what precedes or follows it; a terminating zero element is appended.
 */
struct elem { int shape; u8 a, b, c; unsigned cp; };

static unsigned
put_elem(char *p, unsigned n, struct elem *e)
{
	switch (e->shape) {
	case 0: p[n++] = e->a; e->cp = e->a; break;
	case 1: p[n++] = '\\'; p[n++] = e->a; p[n++] = e->b; p[n++] = e->c;
		e->cp = (e->a - '0') * 64 + (e->b - '0') * 8 + (e->c - '0'); break;
	default: p[n++] = e->a; p[n++] = e->b; e->cp = (e->a & 0x1f) << 6 | (e->b & 0x3f); break;
	}
	return n;
}

static unsigned
put_prefix(char *p, int prefix)
{
	unsigned n = 0;
	if (prefix == 1) { p[n++] = 'u'; p[n++] = '8'; }
	if (prefix == 2) p[n++] = 'u';
	if (prefix == 3) p[n++] = 'U';
	if (prefix == 4) p[n++] = 'L';
	p[n++] = '"';
	return n;
}

/* expected code units of one element for element width w (1, 2, 4); returns count */
static unsigned
want_units(struct elem *e, unsigned w, unsigned *out)
{
	if (e->shape == 1) { out[0] = w == 1 ? (e->cp & 0xff) : e->cp; return 1; }   /* numeric escape: one unit */
	if (w == 1 && e->cp >= 0x80) { out[0] = 0xc0 | e->cp >> 6; out[1] = 0x80 | (e->cp & 0x3f); return 2; }
	out[0] = e->cp; return 1;
}

#define VALID(e) ((e).shape == 0 ? ((e).a >= 0x20 && (e).a < 0x7f && (e).a != '"' && (e).a != '\\') : \
                  (e).shape == 1 ? ((e).a >= '0' && (e).a <= '3' && (e).b >= '0' && (e).b <= '7' && (e).c >= '0' && (e).c <= '7') : \
                  ((e).a >= 0xc2 && (e).a <= 0xdf && (e).b >= 0x80 && (e).b <= 0xbf))

void
harness(void)
{
	IN(int, in_p1); IN(int, in_p2); IN(bool, in_two); IN(bool, in_signedwchar);
	IN(int, in_s1); IN(u8, in_a1); IN(u8, in_b1); IN(u8, in_c1);
	IN(int, in_s2); IN(u8, in_a2); IN(u8, in_b2); IN(u8, in_c2);
	IN(int, in_s3); IN(u8, in_a3); IN(u8, in_b3); IN(u8, in_c3);
	struct elem e[3] = {{in_s1, in_a1, in_b1, in_c1}, {in_s2, in_a2, in_b2, in_c2}, {in_s3, in_a3, in_b3, in_c3}};
	struct stringlit sl;
	struct type *t, *want;
	unsigned n, w, k, i, j, nwant = 0, wantu[8], tmp[2];
	int kind;

	__CPROVER_assume(in_p1 >= 0 && in_p1 <= 4 && in_p2 >= 0 && in_p2 <= 4);
	__CPROVER_assume(in_s1 >= 0 && in_s1 <= 2 && in_s2 >= 0 && in_s2 <= 2 && in_s3 >= 0 && in_s3 <= 2);
	__CPROVER_assume(VALID(e[0]) && VALID(e[1]) && VALID(e[2]));
	/* 6.4.5p5: two DIFFERENT encoding prefixes are not (portably) allowed; cproc diagnoses them */
	__CPROVER_assume(!in_two || in_p1 == 0 || in_p2 == 0 || in_p1 == in_p2);
	t_targ.typewchar = in_signedwchar ? &typeint : &typeuint;
	targ = &t_targ;
	n = put_prefix(lit1, in_p1); n = put_elem(lit1, n, &e[0]); n = put_elem(lit1, n, &e[1]); lit1[n++] = '"'; lit1[n] = 0;
	n = put_prefix(lit2, in_p2); n = put_elem(lit2, n, &e[2]); lit2[n++] = '"'; lit2[n] = 0;
	ntok = in_two ? 2 : 1;
	tok.kind = TSTRINGLIT; tok.lit = lit1;
	g_no_error = 1;

	t = stringconcat(&sl, false);

	kind = in_p1 ? in_p1 : in_two ? in_p2 : 0;
	switch (kind) {
	case 0: want = &typechar; w = 1; break;
	case 1: want = &typeuchar; w = 1; break;
	case 2: want = &typeushort; w = 2; break;
	case 3: want = &typeuint; w = 4; break;
	default: want = t_targ.typewchar; w = 4; break;
	}
	for (i = 0; i < (in_two ? 3u : 2u); i++) {
		k = want_units(&e[i], w, tmp);
		for (j = 0; j < k; j++)
			wantu[nwant++] = tmp[j];
	}
	wantu[nwant++] = 0;
	__CPROVER_assert(t == want, "element type by prefix (an unprefixed neighbour takes the other token's prefix)");
	__CPROVER_assert(sl.size == nwant, "length = code units of all elements + terminating zero");
	for (i = 0; i < nwant && i < 8; i++) {
		unsigned got = w == 1 ? ((unsigned char *)sl.data)[i] : w == 2 ? ((uint_least16_t *)sl.data)[i] : ((uint_least32_t *)sl.data)[i];
		__CPROVER_assert(got == wantu[i], "each character stored as its UTF-8/16/32 code units, each numeric escape as one unit, independently of its neighbours");
	}
	__CPROVER_assert(tok.kind == TEOF, "all adjacent string tokens consumed");
#ifdef VERIF_CANARY
	__CPROVER_assert(!(in_two && e[0].shape == 1 && e[2].shape == 2), "CANARY");
#endif
}
