/*
 * type_util.h -- helpers shared by the units on /repo/type.c (no PRE/POST macro lives here).
 *
 * The harnesses pick type arguments as POINTERS TO THE REAL GLOBAL TYPE OBJECTS of type.c by a nondeterministic index,
 * so that pointer-identity tests in the code (t == &typefloat, t2 == &typelong) are exercised as written, plus fresh
 * enumerated-type objects built the way decl.c:tagspec builds them (kind TYPEENUM, base = an integer type object,
 * size/align/signedness copied from the base, prop = that of an integer type).
 * typechar's signedness is set by targ.c:targinit from the target (x86_64: signed, aarch64/riscv64: unsigned): the
 * harnesses set it from a nondeterministic input, which covers every target.
 */
#ifndef TYPE_UTIL_H
#define TYPE_UTIL_H

enum { NINTOBJ = 12, NREALOBJ = 15 };

static inline struct type *
int_obj(unsigned i)      /* the twelve integer type objects */
{
	switch (i) {
	case 0: return &typebool;
	case 1: return &typechar;
	case 2: return &typeschar;
	case 3: return &typeuchar;
	case 4: return &typeshort;
	case 5: return &typeushort;
	case 6: return &typeint;
	case 7: return &typeuint;
	case 8: return &typelong;
	case 9: return &typeulong;
	case 10: return &typellong;
	}
	return &typeullong;
}

static inline struct type *
real_obj(unsigned i)     /* the fifteen real type objects */
{
	switch (i) {
	case 12: return &typefloat;
	case 13: return &typedouble;
	case 14: return &typeldouble;
	}
	return int_obj(i);
}

#define IS_INT_OBJ(t) ((t) == &typebool || (t) == &typechar || (t) == &typeschar || (t) == &typeuchar || (t) == &typeshort || \
	(t) == &typeushort || (t) == &typeint || (t) == &typeuint || (t) == &typelong || (t) == &typeulong || \
	(t) == &typellong || (t) == &typeullong)
#define IS_FLT_OBJ(t) ((t) == &typefloat || (t) == &typedouble || (t) == &typeldouble)
#define INTPROPS (PROPSCALAR|PROPARITH|PROPREAL|PROPINT)
/* an enumerated type as decl.c:tagspec completes it (a function, not a macro: as a macro the nested dereferences of a
   symbolic t made CBMC's symbolic execution take a minute) */
static inline bool
is_enum_obj(struct type *t)
{
	struct type *b;

	if (t->kind != TYPEENUM || t->prop != INTPROPS || t->incomplete)
		return 0;
	b = t->base;
	if (b == 0 || !IS_INT_OBJ(b))
		return 0;
	return t->size == b->size && t->align == b->align && t->u.basic.issigned == b->u.basic.issigned;
}
#define IS_ENUM_OBJ(t) is_enum_obj(t)

static inline void
mk_enum(struct type *t, struct type *base)
{
	t->kind = TYPEENUM;
	t->prop = INTPROPS;
	t->base = base;
	t->size = base->size;
	t->align = base->align;
	t->u.basic.issigned = base->u.basic.issigned;
	t->incomplete = false;
	t->flexible = false;
	t->value = 0;
	t->qual = QUALNONE;
}

#ifdef SPEC_C_TYPES_H
/* cproc's typekind -> the standard's conversion rank (6.3.1.1p1) */
static inline int
rank_of_kind(int kind)
{
	switch (kind) {
	case TYPEBOOL: return SPEC_RBOOL;
	case TYPECHAR: return SPEC_RCHAR;
	case TYPESHORT: return SPEC_RSHORT;
	case TYPEINT: return SPEC_RINT;
	case TYPELONG: return SPEC_RLONG;
	}
	return SPEC_RLLONG;
}

/* descriptor of a real type object; id = 0 for the standard types, the caller's id for an enumerated type */
static inline struct spec_type
desc_of(struct type *t, int enumid)
{
	struct spec_type d = {SPEC_COTHER, 0, 0, 0, 0};

	if (t == &typefloat) d.cls = SPEC_CFLOAT;
	else if (t == &typedouble) d.cls = SPEC_CDOUBLE;
	else if (t == &typeldouble) d.cls = SPEC_CLDOUBLE;
	else if (t->kind == TYPEENUM) {
		d.cls = SPEC_CINT;
		d.rank = rank_of_kind(t->base->kind);
		d.sg = t->base->u.basic.issigned;
		d.id = enumid;
	} else if (IS_INT_OBJ(t)) {
		d.cls = SPEC_CINT;
		d.rank = rank_of_kind(t->kind);
		d.sg = t->u.basic.issigned;
	}
	return d;
}

/* the standard type object of an integer descriptor with rank >= int and id 0 */
static inline struct type *
obj_of(struct spec_type d)
{
	switch (d.cls) {
	case SPEC_CFLOAT: return &typefloat;
	case SPEC_CDOUBLE: return &typedouble;
	case SPEC_CLDOUBLE: return &typeldouble;
	}
	switch (d.rank) {
	case SPEC_RBOOL: return &typebool;
	case SPEC_RSHORT: return d.sg ? &typeshort : &typeushort;
	case SPEC_RINT: return d.sg ? &typeint : &typeuint;
	case SPEC_RLONG: return d.sg ? &typelong : &typeulong;
	case SPEC_RLLONG: return d.sg ? &typellong : &typeullong;
	}
	return 0;   /* char has three objects: never the result of a promotion or a common type */
}
#endif

#endif
