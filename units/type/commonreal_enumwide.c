/* UNIT
{
 "id": "TYPE.commonreal.enumwide",
 "file": "type.c", "function": "typecommonreal", "also_functions": ["typepromote", "typerank"],
 "properties": {"C05": "contract", "C19": "safety"},
 "mode": "harness", "post_macro": "POST_CR",
 "kind": "proof",
 "timeout": 120,
 "expects": ["assertion_verif", "assertion_repo"],
 "assumes": ["harness-enforced (PRE assumed, POST asserted around the real call): DFCC would havoc the real type objects (see TYPE.hasint); loop-free; frame stated as POST clauses on *t1, *t2",
             "case split: only the pairs where the last rule of 6.3.1.8 applies to an enumerated type in the signed position, e.g. enum E : long long against unsigned long (all other pairs: TYPE.commonreal)",
             "bit-fields wider than int: see TYPE.promote; typechar's signedness is a nondeterministic input; LP64",
             "where 6.3.1.8 names no winner (an enumerated type against its compatible type or another enumerated type of the same rank and signedness) any of the candidates is accepted"]
}
*/
#include "type.c"
#include "verif.h"
#include "c_types.h"
#define CR_CASE (LASTRULE_ON_ENUM)
#include "commonreal_contract.h"

void
harness(void)
{
	IN(unsigned, in_t1);
	IN(unsigned, in_b1);
	IN(unsigned, in_t2);
	IN(unsigned, in_b2);
	IN(bool, in_charsigned);
	IN(unsigned, w1);
	IN(unsigned, w2);

	cr_run(in_t1, in_b1, in_t2, in_b2, in_charsigned, w1, w2);
}
