/*
 * Contract of type.c:typecompatible(t1, t2) on type shapes of depth <= 2 (recursive + a loop over the parameter lists:
 * harness mode, shape class fixed per variant, CONVENTIONS 5 "Recursion").
 *
 * Oracle (written from C11 6.2.7p1 and the clauses it cites, NOT from type.c):
 *   basic/enum  6.2.5, 6.7.2.2p4   a type is compatible with itself; char, signed char, unsigned char, and int/long/long long
 *                                  of equal size are DIFFERENT, mutually incompatible types; an enumerated type is compatible
 *                                  with its underlying (compatible) integer type and with nothing else; two enumerated types
 *                                  are not compatible with each other; struct/union types declared separately in one
 *                                  translation unit are incompatible
 *   pointer     6.7.6.1p2          identically qualified pointee (6.7.3p10) and compatible pointee types
 *   array       6.7.6.2p6          compatible (identically qualified) element types, and, if BOTH have a constant size,
 *                                  the same number of elements; an array of unknown size or a VLA is compatible with any
 *                                  array of compatible element type
 *   function    6.7.6.3p15         compatible return types, same number of parameters, same use of the ellipsis,
 *                                  corresponding parameters of compatible type (qualifiers of the parameters themselves
 *                                  are ignored)
 *   otherwise                      types of different kinds are incompatible
 * Callers: expr.c (exprconvert, pointer comparison/subtraction/assignment checks, _Generic, __builtin_types_compatible_p),
 * decl.c (redeclaration).  Type objects: the sixteen basic objects of type.c (by identity), enumerated types and derived
 * types as decl.c/type.c build them.  A type object for "array of n T" carries n either as the constant length expression
 * (decl.c:declarator) or, for string literals and __func__ (type.c:mkarraytype), only as size == n * sizeof(T) with a null
 * length expression.
 */
#include "type_util.h"

enum { SH_BASIC, SH_PTR, SH_ARRAY, SH_FUNC };
enum { AR_INCOMPLETE, AR_CONSTEXPR, AR_VLA, AR_SIZEONLY };

/* ghost description of one operand (what the harness built), indexed 0/1 */
struct shape {
	int sh;                   /* SH_*                                                   */
	struct type *t;           /* the type object itself                                 */
	struct type *b;           /* basic/enum object: the type itself (SH_BASIC), pointee, element or return type */
	int q;                    /* qualifiers of pointee / element / return type          */
	int ar; u64 n;            /* SH_ARRAY: AR_*, number of elements when constant       */
	bool var; unsigned np;    /* SH_FUNC: ellipsis, number of parameters (0..2)         */
	struct type *p[2];        /* SH_FUNC: parameter types (basic/enum objects)          */
} g_s[2];

/* compatibility of two basic/enum/void type objects */
static inline bool
spec_compat_basic(struct type *a, struct type *b)
{
	if (a == b)
		return 1;
	if (a->kind == TYPEENUM && a->base == b)
		return 1;
	if (b->kind == TYPEENUM && b->base == a)
		return 1;
	return 0;
}

#define A_CONST(s) ((s).ar == AR_CONSTEXPR || (s).ar == AR_SIZEONLY)
static inline bool
spec_compat(void)
{
	struct shape *x = &g_s[0], *y = &g_s[1];

	if (x->t == y->t)
		return 1;
	if (x->sh != y->sh)
		return 0;
	switch (x->sh) {
	case SH_BASIC:
		return spec_compat_basic(x->b, y->b);
	case SH_PTR:
		return x->q == y->q && spec_compat_basic(x->b, y->b);
	case SH_ARRAY:
		if (x->q != y->q || !spec_compat_basic(x->b, y->b))
			return 0;
		return !(A_CONST(*x) && A_CONST(*y)) || x->n == y->n;
	}
	if (x->q != y->q || !spec_compat_basic(x->b, y->b))
		return 0;
	if (x->var != y->var || x->np != y->np)
		return 0;
	if (x->np >= 1 && !spec_compat_basic(x->p[0], y->p[0]))
		return 0;
	if (x->np >= 2 && !spec_compat_basic(x->p[1], y->p[1]))
		return 0;
	return 1;
}

/* does the object t realise the shape s?  (PRE: ties the ghosts to what typecompatible reads) */
static inline bool
realises(struct type *t, struct shape *s, struct decl *d0, struct decl *d1, struct expr *len)
{
	if (t != s->t || s->b == 0)
		return 0;
	if (!(s->b == &typevoid || IS_INT_OBJ(s->b) || IS_FLT_OBJ(s->b) || is_enum_obj(s->b)))
		return 0;
	switch (s->sh) {
	case SH_BASIC:
		return t == s->b;
	case SH_PTR:
		return t->kind == TYPEPOINTER && t->base == s->b && t->qual == s->q;
	case SH_ARRAY:
		if (t->kind != TYPEARRAY || t->base != s->b || t->qual != s->q || s->b == &typevoid)
			return 0;
		if (t->incomplete != (s->ar == AR_INCOMPLETE))
			return 0;
		if (s->ar == AR_INCOMPLETE || s->ar == AR_SIZEONLY)
			return t->u.array.length == 0 && (s->ar == AR_INCOMPLETE || t->size == s->n * s->b->size);
		if (t->u.array.length != len)
			return 0;
		if (s->ar == AR_CONSTEXPR)
			return len->kind == EXPRCONST && len->u.constant.u == s->n;
		return len->kind != EXPRCONST;
	case SH_FUNC:
		if (t->kind != TYPEFUNC || t->base != s->b || t->qual != s->q || t->u.func.isvararg != s->var || s->np > 2)
			return 0;
		if (s->np == 0)
			return t->u.func.params == 0;
		if (t->u.func.params != d0 || d0->type != s->p[0])
			return 0;
		if (s->np == 1)
			return d0->next == 0;
		return d0->next == d1 && d1->type == s->p[1] && d1->next == 0;
	}
	return 0;
}

/* built objects */
static struct type h_d[2], h_enum[2];
static struct decl h_pd[2][2];
static struct expr h_len[2];
static struct decl h_lend[2];

#define STRLIT_CASE (g_s[0].sh == SH_ARRAY && g_s[1].sh == SH_ARRAY && A_CONST(g_s[0]) && A_CONST(g_s[1]) && \
                     (g_s[0].ar == AR_SIZEONLY || g_s[1].ar == AR_SIZEONLY) && g_s[0].n != g_s[1].n)

#define PRE_COMPAT(X) \
	X(t1 != 0 && t2 != 0) \
	X(realises(t1, &g_s[0], &h_pd[0][0], &h_pd[0][1], &h_len[0])) \
	X(realises(t2, &g_s[1], &h_pd[1][0], &h_pd[1][1], &h_len[1])) \
	X(g_no_error == 1) \
	X(COMPAT_CASE)

#define POST_COMPAT(X) \
	X(HRET == spec_compat()) \
	/* 6.2.7: reflexive */ \
	X(IMP(t1 == t2, HRET)) \
	/* different kinds of type: incompatible, except an enumerated type and its underlying type */ \
	X(IMP((g_s[0].sh != g_s[1].sh), !HRET)) \
	X(IMP((g_s[0].sh == SH_BASIC && g_s[1].sh == SH_BASIC && t1 != t2 && t1->kind != TYPEENUM && t2->kind != TYPEENUM), !HRET)) \
	X(IMP((g_s[0].sh == SH_BASIC && g_s[1].sh == SH_BASIC && t1->kind == TYPEENUM && t2->kind != TYPEENUM), HRET == (t1->base == t2))) \
	X(IMP((g_s[0].sh == SH_BASIC && g_s[1].sh == SH_BASIC && t1->kind == TYPEENUM && t2->kind == TYPEENUM && t1 != t2), !HRET)) \
	CANARY(X, !(g_s[0].sh == SH_PTR && g_s[1].sh == SH_PTR && g_s[0].b == &typeint && g_s[1].b == &typeuint)) \
	CANARY(X, !(g_s[0].sh == SH_BASIC && g_s[1].sh == SH_BASIC && t1 == &typeint)) \
	CANARY(X, !(g_s[0].sh == SH_ARRAY && g_s[1].sh == SH_ARRAY && g_s[0].n == 4 && g_s[1].n == 5)) \
	CANARY(X, !(g_s[0].sh == SH_FUNC && g_s[1].sh == SH_FUNC && g_s[0].np == 2)) \
	CANARY(X, !(g_s[0].sh == SH_PTR && g_s[1].sh == SH_FUNC))

extern int g_no_error;

/* the k-th basic type object: 0..14 real types, 15 void, 16 the operand's own enumerated type */
static inline struct type *
basic_pick(int i, unsigned k)
{
	if (k < NREALOBJ)
		return real_obj(k);
	return k == 15 ? &typevoid : &h_enum[i];
}

static inline struct type *
build(int i, int sh, unsigned b, unsigned eb, int q, int ar, u64 n, bool var, unsigned np, unsigned p0, unsigned p1)
{
	struct shape *s = &g_s[i];
	struct type *t = &h_d[i];

	__CPROVER_assume(b <= 16 && eb < NINTOBJ && p0 <= 16 && p1 <= 16 && np <= 2 && ar >= 0 && ar <= AR_SIZEONLY);
	__CPROVER_assume((q & ~(QUALCONST|QUALRESTRICT|QUALVOLATILE|QUALATOMIC)) == 0);
	mk_enum(&h_enum[i], int_obj(eb));
	s->sh = sh; s->b = basic_pick(i, b); s->q = q; s->ar = ar; s->n = n; s->var = var; s->np = np;
	s->p[0] = basic_pick(i, p0); s->p[1] = basic_pick(i, p1);
	if (sh == SH_BASIC) {
		s->t = s->b;
		return s->t;
	}
	s->t = t;
	t->base = s->b;
	t->qual = q;
	t->prop = PROPNONE;
	t->incomplete = false;
	if (sh == SH_PTR) {
		t->kind = TYPEPOINTER; t->prop = PROPSCALAR; t->size = 8; t->align = 8;
	} else if (sh == SH_ARRAY) {
		__CPROVER_assume(s->b != &typevoid && n <= 0xffffffff);
		t->kind = TYPEARRAY;
		t->incomplete = ar == AR_INCOMPLETE;
		t->align = s->b->align;
		t->size = ar == AR_INCOMPLETE || ar == AR_VLA ? 0 : n * s->b->size;
		if (ar == AR_CONSTEXPR) {
			h_len[i].kind = EXPRCONST; h_len[i].type = &typeulong; h_len[i].u.constant.u = n;
		} else {
			h_lend[i].kind = DECLOBJECT; h_len[i].kind = EXPRIDENT; h_len[i].type = &typeint; h_len[i].u.ident.decl = &h_lend[i];
			if (ar == AR_VLA)
				t->prop |= PROPVM;
		}
		{
			__typeof__(t->u.array) a = {ar == AR_CONSTEXPR || ar == AR_VLA ? &h_len[i] : 0, QUALNONE, 0};
			t->u.array = a;
		}
	} else {
		t->kind = TYPEFUNC;
		h_pd[i][0].kind = h_pd[i][1].kind = DECLOBJECT;
		h_pd[i][0].type = s->p[0]; h_pd[i][1].type = s->p[1];
		h_pd[i][0].next = np == 2 ? &h_pd[i][1] : 0;
		h_pd[i][1].next = 0;
		{
			__typeof__(t->u.func) f = {var, np ? &h_pd[i][0] : 0, np};
			t->u.func = f;
		}
	}
	return t;
}
