/*
 * Contract of type.c:typehasint(t, i, sign): "the integer value V is representable in the integer type t", where
 * V = (long long)i if sign, else V = i (how cproc carries constants: 64-bit pattern + signedness of its type).
 * Oracle: spec_representable (spec/c_types.h; C11 6.2.6.2, 6.2.5p2 for _Bool whose values are 0 and 1).
 *
 * Callers: expr.c:inttype (literal typing, C11 6.4.4.1p5; types int..unsigned long long), decl.c:tagspec (enumerator
 * values against int / the running enumerator type / a C23 fixed underlying type, which may be ANY integer type incl.
 * _Bool and char, and the (min,max) search for the compatible type).  t is one of the twelve integer type objects or an
 * enumerated type; i and sign are arbitrary.
 *
 * Two case units: TYPE.hasint (every integer type but _Bool) and TYPE.hasint.bool (_Bool and enums based on it).
 */
#include "type_util.h"

bool g_sg, g_isbool;
unsigned g_sz;

#define PRE_HASINT(X) \
	X(t != 0 && (IS_INT_OBJ(t) || IS_ENUM_OBJ(t))) \
	X(g_sz == t->size && g_sg == t->u.basic.issigned) \
	X(g_isbool == (t == &typebool || (t->kind == TYPEENUM && t->base == &typebool))) \
	X(HASINT_CASE)

#define POST_HASINT(X) \
	X(HRET == spec_representable(g_sz, g_sg, g_isbool, i, sign)) \
	/* the same fact, spelled out for the two ends of every range */ \
	X(IMP((sign && (i64)i < 0 && !g_sg), !HRET)) \
	X(IMP((!(sign && (i64)i < 0) && i > spec_umax(g_sz, g_sg)), !HRET)) \
	X(T_UNCHANGED(t)) \
	CANARY(X, !(t == &typeshort && i == 0x7fff && !sign)) \
	CANARY(X, !(t == &typebool && i == 1))

/* harness mode (see the unit header): the frame "assigns nothing" is stated as POST clauses on a snapshot of *t */
struct type g_t0;
#define T_UNCHANGED(t) ((t)->kind == g_t0.kind && (t)->prop == g_t0.prop && (t)->size == g_t0.size && (t)->align == g_t0.align && \
	(t)->base == g_t0.base && (t)->u.basic.issigned == g_t0.u.basic.issigned)

static struct type h_enum;

/* t := the in_t-th integer type object, or (in_t == 12) an enumerated type whose base is the in_base-th */
static inline struct type *
hasint_pick(unsigned in_t, unsigned in_base, bool in_charsigned)
{
	__CPROVER_assume(in_t <= NINTOBJ && in_base < NINTOBJ);
	typechar.u.basic.issigned = in_charsigned;
	mk_enum(&h_enum, int_obj(in_base));
	return in_t < NINTOBJ ? int_obj(in_t) : &h_enum;
}
