/* UNIT
{
 "id": "TYPE.mkarray",
 "file": "type.c", "function": "mkarraytype", "also_functions": ["mktype"],
 "properties": {"C06": "contract", "C19": "safety"},
 "mode": "dfcc", "enforce": "mkarraytype/mkarraytype_contract",
 "kind": "proof",
 "variants": {"base": ["-DV_HASBASE=1"], "nobase": ["-DV_HASBASE=0"]}, "canary_variant": "base",
 "cbmc_flags": ["--z3"], "retry_no_simplify": false,
 "timeout": 120,
 "expects": ["postcondition", "assigns"],
 "assumes": ["PRE `len * base->size` does not wrap: the callers that pass a base (expr.c:664 string literals, element count of bytes that exist in memory; qbe.c:533 __func__, strlen+1 chars) satisfy it; decl.c:declarator passes base == NULL and computes the size itself behind the guard `length > ULLONG_MAX / base.type->size => error` (decl.c:701), which is this same condition",
             "xmalloc does not fail (stubs/base.c)",
             "back end: cbmc --z3 (SMT, Z3) instead of the default SAT solver: `len` reaches the code as a by-value parameter, so code and clause multiply different SSA symbols and the 64-bit multiplier equivalence does not finish in SAT (> 100 s with minisat and cadical); Z3 closes it by congruence in 3 s"]
}
*/
#include <limits.h>
#include "type.c"
#include "verif.h"

/*
 * C11 6.2.5p20 (array type: element type and number of elements), 6.5.3.4p4 / psABI: sizeof(T[n]) == n * sizeof(T),
 * _Alignof(T[n]) == _Alignof(T); 6.7.6.2p4: no size => incomplete type.
 */
struct type *g_base;
unsigned long long g_bsize;
int g_balign;

#define PRE(X) \
	X(base == g_base) \
	X(IMP(base != 0, (g_bsize == base->size && g_balign == base->align))) \
	/* the "XXX: overflow?" in mkarraytype: guarded by the callers (see "assumes") */ \
	X(IMP((base != 0 && base->size != 0), len <= ULLONG_MAX / base->size))

#define POST(X) \
	X(RET != 0 && RET != g_base) \
	X(RET->kind == TYPEARRAY && RET->prop == PROPNONE) \
	X(RET->base == g_base && RET->qual == qual) \
	X(RET->u.array.length == 0 && RET->u.array.ptrqual == QUALNONE) \
	X(RET->incomplete == (len == 0) && !RET->flexible && RET->value == 0) \
	X(IMP(g_base != 0, RET->align == g_balign)) \
	/* the machine product; with PRE (no wrap) it IS the mathematical product n * sizeof(T).  The operands are named through \
	   the same objects the code uses so that CBMC shares the 64-bit multiplier (CONVENTIONS 5) */ \
	X(IMP(g_base != 0, RET->size == RET->base->size * len)) \
	X(IMP(g_base != 0, (g_base->size == g_bsize && g_base->align == g_balign))) \
	CANARY(X, !(g_base != 0 && g_bsize == 4 && len == 3))

struct type *mkarraytype_contract(struct type *base, enum typequal qual, unsigned long long len)
REQUIRES(PRE)
__CPROVER_assigns()
ENSURES(POST);

void
harness(void)
{
	static struct type tb;
	bool in_hasbase = V_HASBASE;     /* compile-time case split: with a symbolic base pointer Z3 does not finish either */
	IN(u64, in_bsize);
	IN(int, in_balign);
	IN(int, in_qual);
	IN(u64, len);
	struct type *base = in_hasbase ? &tb : 0;
	enum typequal qual = in_qual;

	tb.kind = TYPEINT; tb.size = in_bsize; tb.align = in_balign;
	g_base = base; g_bsize = in_bsize; g_balign = in_balign;
	CALLR(struct type *, PRE, POST, mkarraytype(base, qual, len));
}
