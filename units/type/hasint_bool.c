/* UNIT
{
 "id": "TYPE.hasint.bool",
 "file": "type.c", "function": "typehasint",
 "properties": {"C04": "contract", "C05": "contract", "C06": "contract", "C19": "safety"},
 "mode": "harness", "post_macro": "POST_HASINT",
 "kind": "proof",
 "timeout": 120,
 "expects": ["assertion_verif", "assertion_repo"],
 "assumes": ["case split: _Bool and enumerated types whose (C23 fixed) underlying type is _Bool (all other integer types: TYPE.hasint)",
             "harness-enforced (PRE assumed, POST asserted around the real call), not DFCC: goto-instrument --dfcc havocs every static-lifetime object, which would erase the contents of the REAL type objects of type.c that this unit is about (the runner cannot pass --nondet-static-exclude); the function is loop-free and non-recursive, so nothing is unwound; frame stated as POST clause on *t",
             "LP64 two's complement integer representations without padding bits (spec/c_types.h)",
             "typechar's signedness is a nondeterministic input (set by targinit per target)"]
}
*/
#include "type.c"
#include "verif.h"
#include "c_types.h"
#define HASINT_CASE (g_isbool)
#include "hasint_contract.h"

void
harness(void)
{
	IN(unsigned, in_t);          /* index of the type object; 12 = enumerated type */
	IN(unsigned, in_base);       /* underlying type of the enumerated type         */
	IN(bool, in_charsigned);
	IN(u64, i);
	IN(bool, sign);
	struct type *t = hasint_pick(in_t, in_base, in_charsigned);

	g_sz = t->size; g_sg = t->u.basic.issigned;
	g_isbool = t == &typebool || (t == &h_enum && t->base == &typebool);
	g_t0 = *t;
	HCALLR(bool, PRE_HASINT, POST_HASINT, typehasint(t, i, sign));
}
