/* UNIT
{
 "id": "TYPE.promote",
 "file": "type.c", "function": "typepromote", "also_functions": ["typerank"],
 "properties": {"C05": "contract", "C19": "safety"},
 "mode": "harness",
 "kind": "proof",
 "timeout": 120,
 "expects": ["assertion_verif", "assertion_repo"],
 "assumes": ["harness-enforced (PRE assumed, POST asserted around the real call): DFCC would havoc the real type objects (see TYPE.hasint); loop-free, nothing unwound; frame: typepromote has no side effect on *t (POST clause)",
             "bit-fields whose declared type is wider than int (an extension, 6.7.2.1p5) are promoted by (width, signedness) when the width is at most 32 and are unchanged otherwise (spec/c_types.h: spec_promote)",
             "float -> double is part of the contract because the only caller that can pass a floating type is the default argument promotion site expr.c:963 (the other exprpromote callers test PROPINT first; typecommonreal filters the floating types before promoting)",
             "typechar's signedness is a nondeterministic input; LP64"]
}
*/
#include "type.c"
#include "verif.h"
#include "c_types.h"
#include "type_util.h"

/*
 * typepromote(t, width): width == -1u for an expression that is not a bit-field, else the bit-field's width
 * (expr.c:bitfieldwidth = 8*size - before - after, 1 <= width <= 8*size, integer types only: decl.c:addmember).
 * Callers: expr.c:exprpromote (unary + - ~, shifts, switch: integer operands; variadic arguments: any type) and
 * typecommonreal (non-floating real types).  C11 6.3.1.1p2, 6.5.2.2p6.
 */
extern int g_no_error;
struct type g_t0;

#define ISBF (width != -1u)
#define D    (desc_of(t, 1))
#define P    (spec_argpromote(D, ISBF ? width : 0))
#define PRE(X) \
	X(t != 0) \
	X(IS_INT_OBJ(t) || IS_FLT_OBJ(t) || IS_ENUM_OBJ(t) || t == &typevoid || t == &typenullptr || t->kind == TYPEPOINTER || t->kind == TYPESTRUCT) \
	X(IMP(t->kind == TYPEPOINTER || t->kind == TYPESTRUCT, t->prop == (t->kind == TYPEPOINTER ? PROPSCALAR : PROPNONE))) \
	X(IMP(ISBF, (D.cls == SPEC_CINT && width >= 1 && width <= 8 * t->size))) \
	X(g_no_error == 1)

#define POST(X) \
	/* not an arithmetic type: unchanged */ \
	X(IMP(D.cls == SPEC_COTHER, HRET == t)) \
	/* 6.5.2.2p6: float -> double; double, long double unchanged */ \
	X(IMP(D.cls == SPEC_CFLOAT, HRET == &typedouble)) \
	X(IMP((D.cls == SPEC_CDOUBLE || D.cls == SPEC_CLDOUBLE), HRET == t)) \
	/* 6.3.1.1p2: int if int can represent all values of the type / of the bit-field, else unsigned int */ \
	X(IMP((D.cls == SPEC_CINT && !spec_type_eq(P, D)), HRET == obj_of(P))) \
	/* all other types are unchanged by the integer promotions */ \
	X(IMP((D.cls == SPEC_CINT && spec_type_eq(P, D)), HRET == t)) \
	/* the same facts spelled out on (width, signedness) */ \
	X(IMP((D.cls == SPEC_CINT && !ISBF && D.rank < SPEC_RINT), HRET == &typeint)) \
	X(IMP((D.cls == SPEC_CINT && ISBF && width < 32), HRET == &typeint)) \
	X(IMP((D.cls == SPEC_CINT && ISBF && width == 32), HRET == (D.sg ? &typeint : &typeuint))) \
	X(IMP((D.cls == SPEC_CINT && ISBF && width > 32), HRET == t)) \
	X(t->kind == g_t0.kind && t->prop == g_t0.prop && t->size == g_t0.size && t->base == g_t0.base) \
	CANARY(X, !(t == &typeushort && !ISBF)) \
	CANARY(X, !(t == &typeulong && width == 32))

static struct type h_enum, h_ptr, h_struct;

void
harness(void)
{
	IN(unsigned, in_t);          /* 0..14 real type objects, 15 enum, 16 void, 17 nullptr_t, 18 a pointer, 19 a struct */
	IN(unsigned, in_base);       /* underlying type of the enumerated type */
	IN(bool, in_charsigned);
	IN(unsigned, width);
	struct type *t;

	__CPROVER_assume(in_t <= 19 && in_base < NINTOBJ);
	typechar.u.basic.issigned = in_charsigned;
	mk_enum(&h_enum, int_obj(in_base));
	h_ptr.kind = TYPEPOINTER; h_ptr.prop = PROPSCALAR; h_ptr.size = 8; h_ptr.align = 8; h_ptr.base = &typeint;
	h_struct.kind = TYPESTRUCT; h_struct.prop = PROPNONE; h_struct.size = 8; h_struct.align = 4;
	t = in_t < NREALOBJ ? real_obj(in_t) : in_t == 15 ? &h_enum : in_t == 16 ? &typevoid : in_t == 17 ? &typenullptr :
	    in_t == 18 ? &h_ptr : &h_struct;
	g_no_error = 1;
	g_t0 = *t;
	HCALLR(struct type *, PRE, POST, typepromote(t, width));
}
