/*
 * Contract of type.c:typecommonreal(t1, w1, t2, w2) -- the common real type of the usual arithmetic conversions,
 * C11 6.3.1.8, oracle spec_common_real (spec/c_types.h, a decision procedure over (class, rank, signedness) written
 * from the text).  w1, w2: bit-field widths or -1u (see TYPE.promote).
 *
 * Only caller: expr.c:commonreal, for operands of arithmetic (real) type: * / % + - relational, equality, & ^ |,
 * ?: .  t1, t2 are real type objects: one of the fifteen basic ones or an enumerated type (any of the twelve integer type
 * objects as underlying type: C23 fixed underlying types make all of them possible); both may be the same object.
 *
 * Case units: TYPE.commonreal (CR_CASE = the oracle's result is a standard type or one of the operands, no enumerated
 * type of rank > int stands in a SIGNED operand position facing an unsigned type of lower rank and equal size) and
 * TYPE.commonreal.enumwide (the complement).
 */
#include "type_util.h"

extern int g_no_error;
struct type g_t10, g_t20;

#define BF(w) ((w) != -1u ? (w) : 0)
/* descriptors of the operands and of the result: computed once into ghosts (bound in PRE / by cr_call) */
struct spec_type g_D1, g_D2, g_RD;
#define D1    g_D1
#define D2    g_D2
/* the oracle's verdicts are computed once into ghosts (bound in PRE); the clauses read the ghosts */
struct spec_type g_S, g_SW, g_P1, g_P2;
#define S     g_S
#define SW    g_SW
#define SAME_DESC(a, b) ((a).cls == (b).cls && (a).rank == (b).rank && (a).sg == (b).sg && (a).id == (b).id && (a).either == (b).either)
#define RD    g_RD
#define P1    g_P1
#define P2    g_P2
/* last rule of 6.3.1.8 ("the unsigned integer type corresponding to the type of the operand with signed integer type")
   applied to an operand that is an enumerated type: signed, rank above the unsigned operand's, same size */
#define LASTRULE_ON_ENUM ( \
	D1.cls == SPEC_CINT && D2.cls == SPEC_CINT && P1.sg != P2.sg && \
	((P1.sg && P1.id != 0 && P2.rank < P1.rank && spec_rank_size(P2.rank) == spec_rank_size(P1.rank)) || \
	 (P2.sg && P2.id != 0 && P1.rank < P2.rank && spec_rank_size(P1.rank) == spec_rank_size(P2.rank))))

#define VALID_REAL(t) ((t) != 0 && (IS_INT_OBJ(t) || IS_FLT_OBJ(t) || IS_ENUM_OBJ(t)))
#define PRE_CR(X) \
	X(VALID_REAL(t1) && VALID_REAL(t2)) \
	X(IMP(w1 != -1u, (D1.cls == SPEC_CINT && w1 >= 1 && w1 <= 8 * t1->size))) \
	X(IMP(w2 != -1u, (D2.cls == SPEC_CINT && w2 >= 1 && w2 <= 8 * t2->size))) \
	/* every pair of real types has a common real type: the internal-error exit must be unreachable */ \
	X(g_no_error == 1) \
	X(SAME_DESC(g_D1, desc_of(t1, 1)) && SAME_DESC(g_D2, desc_of(t2, t2 == t1 ? 1 : 2))) \
	X(SAME_DESC(g_S, spec_common_real(D1, BF(w1), D2, BF(w2)))) \
	X(SAME_DESC(g_SW, spec_common_real(D2, BF(w2), D1, BF(w1)))) \
	X(SAME_DESC(g_P1, spec_promote(D1, BF(w1))) && SAME_DESC(g_P2, spec_promote(D2, BF(w2)))) \
	X(CR_CASE)

#define POST_CR(X) \
	X(HRET != 0) \
	/* floating operand present: long double > double > float (the three objects are unique) */ \
	X(IMP(S.cls != SPEC_CINT, HRET == obj_of(S))) \
	/* integer result: class, rank and signedness are those 6.3.1.8 prescribes */ \
	X(IMP(S.cls == SPEC_CINT, (RD.cls == SPEC_CINT && RD.rank == S.rank && RD.sg == S.sg))) \
	/* ... it is the standard type object when the prescribed type is a standard type */ \
	X(IMP((S.cls == SPEC_CINT && S.id == 0 && !S.either), HRET == obj_of(S))) \
	/* ... the operand itself when the prescribed type is an operand's enumerated type */ \
	X(IMP((S.cls == SPEC_CINT && S.id == 1), HRET == t1)) \
	X(IMP((S.cls == SPEC_CINT && S.id == 2), HRET == t2)) \
	/* ... and where the text leaves the choice between same-rank same-signedness types open, one of the candidates */ \
	X(IMP((S.cls == SPEC_CINT && S.either), (HRET == t1 || HRET == t2 || HRET == obj_of(S)))) \
	/* the result is never narrower than int (promotions were applied) */ \
	X(IMP(S.cls == SPEC_CINT, RD.rank >= SPEC_RINT)) \
	/* symmetry: exchanging the operands prescribes the same type (so the code's result class/rank/signedness is symmetric) */ \
	X(SW.cls == S.cls && SW.rank == S.rank && SW.sg == S.sg) \
	/* frame */ \
	X(t1->kind == g_t10.kind && t1->size == g_t10.size && t1->base == g_t10.base && t1->u.basic.issigned == g_t10.u.basic.issigned) \
	X(t2->kind == g_t20.kind && t2->size == g_t20.size && t2->base == g_t20.base && t2->u.basic.issigned == g_t20.u.basic.issigned) \
	CANARY(X, !(t1 == &typeuint && t2 == &typelong)) \
	CANARY(X, !(t2 == &typeulong && t1->kind == TYPEENUM && t1->base == &typellong))

static struct type h_enum1, h_enum2;

/* the REAL typecommonreal, plus the descriptor of what it returned */
static inline struct type *
cr_call(struct type *t1, unsigned w1, struct type *t2, unsigned w2)
{
	struct type *r = typecommonreal(t1, w1, t2, w2);

	if (r)
		g_RD = desc_of(r, r == t1 ? 1 : r == t2 ? 2 : 0);
	return r;
}

static inline void
cr_run(unsigned in_t1, unsigned in_b1, unsigned in_t2, unsigned in_b2, bool in_charsigned, unsigned w1, unsigned w2)
{
	struct type *t1, *t2;

	/* 0..14 real type objects, 15 = first enumerated type, 16 = second enumerated type (either operand may be either) */
	__CPROVER_assume(in_t1 <= 16 && in_t2 <= 16 && in_b1 < NINTOBJ && in_b2 < NINTOBJ);
	typechar.u.basic.issigned = in_charsigned;
	mk_enum(&h_enum1, int_obj(in_b1));
	mk_enum(&h_enum2, int_obj(in_b2));
	t1 = in_t1 < NREALOBJ ? real_obj(in_t1) : in_t1 == 15 ? &h_enum1 : &h_enum2;
	t2 = in_t2 < NREALOBJ ? real_obj(in_t2) : in_t2 == 15 ? &h_enum1 : &h_enum2;
	g_no_error = 1;
	g_t10 = *t1; g_t20 = *t2;
	g_D1 = desc_of(t1, 1);
	g_D2 = desc_of(t2, t2 == t1 ? 1 : 2);
	g_S = spec_common_real(D1, BF(w1), D2, BF(w2));
	g_SW = spec_common_real(D2, BF(w2), D1, BF(w1));
	g_P1 = spec_promote(D1, BF(w1));
	g_P2 = spec_promote(D2, BF(w2));
	HCALLR(struct type *, PRE_CR, POST_CR, cr_call(t1, w1, t2, w2));
}
