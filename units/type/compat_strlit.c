/* UNIT
{
 "id": "TYPE.compat.strlit",
 "file": "type.c", "function": "typecompatible",
 "properties": {"C05": "contract", "C19": "safety"},
 "mode": "harness", "post_macro": "POST_COMPAT",
 "unwind": 2, "unwindset": ["typecompatible.0:3"],
 "variants": {"array": ["-DV_SH1=SH_ARRAY", "-DV_SH2=SH_ARRAY"]},
 "canary_variant": "array",
 "kind": "proof-const-unwind",
 "timeout": 200,
 "expects": ["assertion_verif"],
 "assumes": ["shapes of depth <= 2 fixed per variant (both basic/enum/void; both pointers; both arrays; both functions with <= 2 parameters; different shape classes): recursion depth 2 and the parameter loop <= 2 iterations, --unwind 2 for the recursion and --unwindset typecompatible.0:3 for the parameter loop, unwinding assertions on; harness-enforced (PRE assumed, POST asserted; DFCC would havoc the real type objects, and rejects recursion)",
             "case split: only pairs of constant-size arrays with different element counts of which at least one carries its size only in ->size, e.g. the type of \"abc\" against char[5] (all other pairs: TYPE.compat)",
             "typechar's signedness is a nondeterministic input; struct/union operands are not built (same rule as distinct basic objects: identity)"]
}
*/
#include "type.c"
#include "verif.h"
#define COMPAT_CASE (STRLIT_CASE)
#include "compat_contract.h"

void
harness(void)
{
	IN(bool, in_charsigned);
	IN(bool, in_same);           /* t2 is the very object t1 */
	IN(int, in_sh1); IN(unsigned, in_b1); IN(unsigned, in_eb1); IN(int, in_q1); IN(int, in_ar1); IN(u64, in_n1);
	IN(bool, in_var1); IN(unsigned, in_np1); IN(unsigned, in_p10); IN(unsigned, in_p11);
	IN(int, in_sh2); IN(unsigned, in_b2); IN(unsigned, in_eb2); IN(int, in_q2); IN(int, in_ar2); IN(u64, in_n2);
	IN(bool, in_var2); IN(unsigned, in_np2); IN(unsigned, in_p20); IN(unsigned, in_p21);
	struct type *t1, *t2;
#ifdef V_MIXED
	__CPROVER_assume(in_sh1 >= SH_BASIC && in_sh1 <= SH_FUNC && in_sh2 >= SH_BASIC && in_sh2 <= SH_FUNC && in_sh1 != in_sh2);
	int sh1 = in_sh1, sh2 = in_sh2;
#else
	int sh1 = V_SH1, sh2 = V_SH2;
#endif

	typechar.u.basic.issigned = in_charsigned;
	t1 = build(0, sh1, in_b1, in_eb1, in_q1, in_ar1, in_n1, in_var1, in_np1, in_p10, in_p11);
	t2 = build(1, sh2, in_b2, in_eb2, in_q2, in_ar2, in_n2, in_var2, in_np2, in_p20, in_p21);
	if (in_same) {
		g_s[1] = g_s[0];
		t2 = t1;
	}
	g_no_error = 1;
	HCALLR(bool, PRE_COMPAT, POST_COMPAT, typecompatible(t1, t2));
}
