/*
 * Contract of type.c:typeadjust(t, tq) -- adjustment of a parameter's declared type, C11 6.7.6.3p7-8:
 *   "array of T" -> "qualified pointer to T", the pointer being qualified by the qualifiers written inside the [ ]
 *   (t->u.array.ptrqual); the element keeps its qualifiers (t->qual, plus *tq: qualifiers applied to the array type through
 *   a typedef name qualify the element type, 6.7.3p9);  "function returning T" -> "pointer to function returning T";
 *   every other type is unchanged.
 * In cproc a pointer/array type object carries the qualifiers OF ITS BASE TYPE in ->qual; the qualifiers of the declared
 * object itself travel in *tq.
 *
 * Call sites: decl.c:parameter (t = any declared parameter type, *tq = its qualifiers) and targ.c:targinit (va_list).
 * Case units: TYPE.adjust (all but a qualified function type) and TYPE.adjust.qualfunc (function type with *tq != 0,
 * reachable through a typedef: `typedef void F(void); void g(const F f);`).
 */
struct type *g_t, *g_base;
int g_kind, g_tq0, g_aq, g_ptrqual;
int g_baseprop;

#define QUALMASK (QUALCONST|QUALRESTRICT|QUALVOLATILE|QUALATOMIC)
#define PRE_ADJ(X) \
	X(t != 0 && tq != 0 && t == g_t) \
	X(g_kind == t->kind && g_tq0 == *tq && (g_tq0 & ~QUALMASK) == 0) \
	X(IMP(g_kind == TYPEARRAY, (g_base == t->base && g_base != 0 && g_aq == t->qual && g_ptrqual == t->u.array.ptrqual && \
	                            (g_aq & ~QUALMASK) == 0 && (g_ptrqual & ~QUALMASK) == 0 && g_baseprop == g_base->prop))) \
	X(IMP(g_kind == TYPEFUNC, g_baseprop == t->prop)) \
	X(ADJ_CASE)

#define POST_ADJ(X) \
	X(RET != 0) \
	/* 6.7.6.3p7: array of T -> pointer to T; element qualifiers kept; the pointer gets the [ ] qualifiers */ \
	X(IMP(g_kind == TYPEARRAY, (RET != g_t && RET->kind == TYPEPOINTER && RET->base == g_base))) \
	X(IMP(g_kind == TYPEARRAY, RET->qual == (g_tq0 | g_aq))) \
	X(IMP(g_kind == TYPEARRAY, *tq == g_ptrqual)) \
	/* 6.7.6.3p8: function -> pointer to that function type, unqualified */ \
	X(IMP(g_kind == TYPEFUNC, (RET != g_t && RET->kind == TYPEPOINTER && RET->base == g_t && RET->qual == QUALNONE))) \
	X(IMP((g_kind == TYPEFUNC && g_tq0 == QUALNONE), *tq == QUALNONE)) \
	/* (a QUALIFIED function type is undefined behaviour of the program, 6.7.3p9: no value is prescribed, but the compiler \
	   must diagnose or carry on, not die on its internal assert: that is the safety obligation typeadjust.assertion.1) */ \
	/* the new pointer type is a complete scalar object type of pointer size/alignment (LP64), variably-modified iff its base is */ \
	X(IMP((g_kind == TYPEARRAY || g_kind == TYPEFUNC), (RET->size == 8 && RET->align == 8 && !RET->incomplete && \
	      RET->prop == (PROPSCALAR | (g_baseprop & PROPVM))))) \
	/* anything else is not adjusted */ \
	X(IMP((g_kind != TYPEARRAY && g_kind != TYPEFUNC), (RET == g_t && *tq == g_tq0))) \
	/* the declared type object itself is never modified */ \
	X(g_t->kind == g_kind) \
	X(IMP(g_kind == TYPEARRAY, (g_t->base == g_base && g_t->qual == g_aq && g_t->u.array.ptrqual == g_ptrqual))) \
	CANARY(X, !(g_kind == TYPEARRAY && g_tq0 == QUALCONST && g_ptrqual == QUALRESTRICT)) \
	CANARY(X, !(g_kind == TYPEFUNC))

struct type *typeadjust_contract(struct type *t, enum typequal *tq)
REQUIRES(PRE_ADJ)
__CPROVER_assigns(*tq)
ENSURES(POST_ADJ);
