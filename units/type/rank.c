/* UNIT
{
 "id": "TYPE.rank",
 "file": "type.c", "function": "typerank",
 "properties": {"C05": "contract", "C19": "safety"},
 "mode": "harness",
 "kind": "proof",
 "timeout": 120,
 "expects": ["assertion_verif", "assertion_repo"],
 "assumes": ["relational contract over two calls (the rank NUMBERS are internal; the standard fixes only their order): harness-enforced, PRE assumed and POST asserted around two real calls; also DFCC would havoc the real type objects (see TYPE.hasint)",
             "typechar's signedness is a nondeterministic input; enumerated types are fresh objects built as decl.c:tagspec builds them, underlying type any of the twelve integer type objects"]
}
*/
#include "type.c"
#include "verif.h"
#include "c_types.h"
#include "type_util.h"

/*
 * C11 6.3.1.1p1: rank(long long) > rank(long) > rank(int) > rank(short) > rank(signed char); an unsigned type has the rank
 * of the corresponding signed type; char, signed char, unsigned char share a rank; _Bool ranks below every other standard
 * integer type; an enumerated type has the rank of its compatible integer type.  typerank's callers (typepromote,
 * typecommonreal) only COMPARE ranks, so the contract is: typerank is order-isomorphic to the standard's rank.
 */
extern int g_no_error;
struct type *g_t2;
int g_r2;          /* typerank(g_t2), computed by the real function */

#define PRE(X) \
	X(t != 0 && (IS_INT_OBJ(t) || IS_ENUM_OBJ(t))) \
	X(g_t2 != 0 && (IS_INT_OBJ(g_t2) || IS_ENUM_OBJ(g_t2))) \
	X(g_no_error == 1)

#define SR1 (desc_of(t, 1).rank)
#define SR2 (desc_of(g_t2, 2).rank)
#define POST(X) \
	X((HRET < g_r2) == (SR1 < SR2)) \
	X((HRET == g_r2) == (SR1 == SR2)) \
	X((HRET > g_r2) == (SR1 > SR2)) \
	/* 6.3.1.1p1 last-but-one bullet: an enumerated type has the rank of its compatible type */ \
	X(IMP((t->kind == TYPEENUM && g_t2 == t->base), HRET == g_r2)) \
	/* signed and unsigned of a kind share the rank */ \
	X(IMP((t->kind == g_t2->kind && t->kind != TYPEENUM), HRET == g_r2)) \
	CANARY(X, !(t == &typeushort && g_t2 == &typeint))

static struct type h_enum1, h_enum2;

void
harness(void)
{
	IN(unsigned, in_t1);         /* 0..11 integer type objects, 12 = enumerated type */
	IN(unsigned, in_b1);         /* its underlying type                                */
	IN(unsigned, in_t2);
	IN(unsigned, in_b2);
	IN(bool, in_charsigned);
	struct type *t;

	__CPROVER_assume(in_t1 <= NINTOBJ && in_t2 <= NINTOBJ && in_b1 < NINTOBJ && in_b2 < NINTOBJ);
	typechar.u.basic.issigned = in_charsigned;
	mk_enum(&h_enum1, int_obj(in_b1));
	mk_enum(&h_enum2, int_obj(in_b2));
	t = in_t1 < NINTOBJ ? int_obj(in_t1) : &h_enum1;
	g_t2 = in_t2 < NINTOBJ ? int_obj(in_t2) : &h_enum2;
	g_no_error = 1;
	g_r2 = typerank(g_t2);
	HCALLR(int, PRE, POST, typerank(t));
}
