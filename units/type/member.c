/* UNIT
{
 "id": "TYPE.member",
 "file": "type.c", "function": "typemember",
 "properties": {"C06": "contract", "C19": "safety"},
 "mode": "harness",
 "unwind": 2, "unwindset": ["typemember.0:4", "strcmp.0:4"],
 "kind": "bounded",
 "cbmc_flags": ["--sat-solver", "cadical"],
 "bound": "struct/union with <= 3 members, each named or an anonymous struct/union with <= 2 named members (nesting <= 2); member names and the searched name 1-2 characters; offsets and the caller's running offset < 2^32",
 "timeout": 200,
 "expects": ["assertion_verif", "unwind"],
 "assumes": ["harness-enforced (typemember is recursive and loops over a linked list; PRE fixes the list shapes up to the bound; --unwind 2 for the recursion, --unwindset typemember.0:4,strcmp.0:4 for the member-list loop and strcmp on 3-byte strings, unwinding assertions on)",
             "strcmp is CBMC's library model",
             "back end: cbmc --sat-solver cadical (the default minisat needs 20 s on the unchanged tree and > 200 s on some mutants for the clause HRET == SPEC_M; cadical < 1 s)",
             "offsets < 2^32 (part of the bound): no 64-bit wrap-around is exercised"]
}
*/
#include "type.c"
#include "verif.h"

/*
 * C11 6.7.2.1p13: the members of an anonymous structure or union are members of the containing structure or union,
 * recursively; 7.19 offsetof / psABI: the offset of such a member is the offset of the anonymous member plus the offset
 * inside it.  typemember(t, name, &off): the member designated by `name` in declaration order (depth first), off
 * increased by its offset from the start of t; NULL and off unchanged if there is none.
 * Callers: expr.c designator / postfixexpr (. and ->) / offsetof with *offset initialised by the caller (0 or a running sum).
 */
enum { NM = 3, NI = 2 };
static struct type h_S, h_I[NM];
static struct member h_m[NM], h_im[NM][NI];
static char h_mn[NM][3], h_imn[NM][NI][3], h_q[3];

/* ghosts: the shape */
unsigned g_nm;                 /* members of S: 1..3                                   */
bool g_anon[NM];               /* member i is an anonymous struct/union                */
unsigned g_ni[NM];             /* its number of members: 1..2                          */
u64 g_off[NM], g_ioff[NM][NI]; /* offsets                                              */
u64 g_off0;                    /* *offset before the call                              */

#define STREQ(a, b) ((a)[0] == (b)[0] && ((a)[0] == 0 || ((a)[1] == (b)[1] && ((a)[1] == 0 || (a)[2] == (b)[2]))))
/* does member i (named), resp. inner member j of anonymous member i, match the searched name? */
#define HIT(i)      (i < g_nm && !g_anon[i] && STREQ(h_mn[i], h_q))
#define IHIT(i, j)  (i < g_nm && g_anon[i] && j < g_ni[i] && STREQ(h_imn[i][j], h_q))
#define ANY(i)      (HIT(i) || IHIT(i, 0) || IHIT(i, 1))
/* the member the standard designates: first in declaration order, depth first */
#define SPEC_IN(i)  (HIT(i) ? &h_m[i] : IHIT(i, 0) ? &h_im[i][0] : &h_im[i][1])
#define SPEC_M      (ANY(0) ? SPEC_IN(0) : ANY(1) ? SPEC_IN(1) : ANY(2) ? SPEC_IN(2) : (struct member *)0)
/* the offset sum start + (offset inside the anonymous member) + (offset of the anonymous member); written in this
   association order so that the SAT back end does not have to prove 64-bit addition associative (it took > 200 s) */
#define SPEC_TOTIN(i) (HIT(i) ? g_off0 + g_off[i] : (g_off0 + (IHIT(i, 0) ? g_ioff[i][0] : g_ioff[i][1])) + g_off[i])
#define SPEC_TOTAL  (ANY(0) ? SPEC_TOTIN(0) : ANY(1) ? SPEC_TOTIN(1) : ANY(2) ? SPEC_TOTIN(2) : g_off0)

#define NAMEOK(s)   ((s)[0] != 0 && (s)[2] == 0)
#define MEMB_OK(i)  (IMP(i < g_nm, (h_m[i].offset == g_off[i] && h_m[i].next == (i + 1 < g_nm ? &h_m[i + 1 < NM ? i + 1 : 0] : 0) && \
	(g_anon[i] ? (h_m[i].name == 0 && h_m[i].type == &h_I[i] && g_ni[i] >= 1 && g_ni[i] <= NI) : (h_m[i].name == h_mn[i] && NAMEOK(h_mn[i]))))))
#define INNER_OK(i) (IMP((i < g_nm && g_anon[i]), ((h_I[i].kind == TYPESTRUCT || h_I[i].kind == TYPEUNION) && \
	h_I[i].u.structunion.members == &h_im[i][0] && \
	h_im[i][0].name == h_imn[i][0] && NAMEOK(h_imn[i][0]) && h_im[i][0].offset == g_ioff[i][0] && \
	h_im[i][0].next == (g_ni[i] == 2 ? &h_im[i][1] : 0) && \
	IMP(g_ni[i] == 2, (h_im[i][1].name == h_imn[i][1] && NAMEOK(h_imn[i][1]) && h_im[i][1].offset == g_ioff[i][1] && h_im[i][1].next == 0)))))

#define SMALL (1ull << 32)   /* bound on offsets: keeps the failing (mutant) SAT instances tractable */
#define PRE(X) \
	X(t == &h_S && (t->kind == TYPESTRUCT || t->kind == TYPEUNION) && name == h_q && NAMEOK(h_q) && offset != 0) \
	X(g_nm >= 1 && g_nm <= NM && t->u.structunion.members == &h_m[0]) \
	X(MEMB_OK(0) && MEMB_OK(1) && MEMB_OK(2)) \
	X(INNER_OK(0) && INNER_OK(1) && INNER_OK(2)) \
	X(*offset == g_off0 && g_off0 < SMALL) \
	X(g_off[0] < SMALL && g_off[1] < SMALL && g_off[2] < SMALL) \
	X(g_ioff[0][0] < SMALL && g_ioff[0][1] < SMALL && g_ioff[1][0] < SMALL && g_ioff[1][1] < SMALL && g_ioff[2][0] < SMALL && g_ioff[2][1] < SMALL)

#define POST(X) \
	X(HRET == SPEC_M) \
	X(*offset == SPEC_TOTAL) \
	X(IMP(HRET == 0, *offset == g_off0)) \
	X(IMP(HRET != 0, (HRET->name != 0 && STREQ(HRET->name, h_q)))) \
	/* the type is not modified */ \
	X(h_m[0].offset == g_off[0] && h_S.u.structunion.members == &h_m[0]) \
	CANARY(X, !(g_nm == 3 && g_anon[1] && g_ni[1] == 2 && IHIT(1, 1) && !ANY(0)))

void
harness(void)
{
	static unsigned long long off;
	struct type *t = &h_S;
	const char *name = h_q;
	unsigned long long *offset = &off;

	IN(unsigned, in_nm);
	IN(bool, in_union);
	IN(bool, in_anon0); IN(bool, in_anon1); IN(bool, in_anon2);
	IN(unsigned, in_ni0); IN(unsigned, in_ni1); IN(unsigned, in_ni2);
	IN(u64, in_off0); IN(u64, in_off1); IN(u64, in_off2);
	IN(u64, in_ioff00); IN(u64, in_ioff01); IN(u64, in_ioff10); IN(u64, in_ioff11); IN(u64, in_ioff20); IN(u64, in_ioff21);
	IN(unsigned, in_n0); IN(unsigned, in_n1); IN(unsigned, in_n2);      /* member names: 2 chars packed in 16 bits */
	IN(unsigned, in_n00); IN(unsigned, in_n01); IN(unsigned, in_n10); IN(unsigned, in_n11); IN(unsigned, in_n20); IN(unsigned, in_n21);
	IN(unsigned, in_q);
	IN(u64, in_start);

	__CPROVER_assume(in_nm >= 1 && in_nm <= NM);
	__CPROVER_assume(in_ni0 >= 1 && in_ni0 <= NI && in_ni1 >= 1 && in_ni1 <= NI && in_ni2 >= 1 && in_ni2 <= NI);
	g_nm = in_nm;
	g_anon[0] = in_anon0; g_anon[1] = in_anon1; g_anon[2] = in_anon2;
	g_ni[0] = in_ni0; g_ni[1] = in_ni1; g_ni[2] = in_ni2;
	g_off[0] = in_off0; g_off[1] = in_off1; g_off[2] = in_off2;
	g_ioff[0][0] = in_ioff00; g_ioff[0][1] = in_ioff01; g_ioff[1][0] = in_ioff10; g_ioff[1][1] = in_ioff11;
	g_ioff[2][0] = in_ioff20; g_ioff[2][1] = in_ioff21;
#define SETNAME(s, v) do { (s)[0] = (char)((v) & 0xff); (s)[1] = (char)(((v) >> 8) & 0xff); (s)[2] = 0; } while (0)
	SETNAME(h_mn[0], in_n0); SETNAME(h_mn[1], in_n1); SETNAME(h_mn[2], in_n2);
	SETNAME(h_imn[0][0], in_n00); SETNAME(h_imn[0][1], in_n01); SETNAME(h_imn[1][0], in_n10); SETNAME(h_imn[1][1], in_n11);
	SETNAME(h_imn[2][0], in_n20); SETNAME(h_imn[2][1], in_n21);
	SETNAME(h_q, in_q);

	h_S.kind = in_union ? TYPEUNION : TYPESTRUCT;
	{ __typeof__(h_S.u.structunion) su = {0, &h_m[0]}; h_S.u.structunion = su; }
#define BUILD(i) do { \
		h_m[i].name = g_anon[i] ? (char *)0 : &h_mn[i][0]; \
		h_m[i].type = &h_I[i];   /* a named member's type is never looked at; pointing it at a struct keeps the value sets small */ \
		h_m[i].offset = g_off[i]; \
		h_m[i].next = i + 1 < g_nm ? &h_m[i + 1 < NM ? i + 1 : 0] : 0; \
		h_I[i].kind = TYPESTRUCT; \
		{ __typeof__(h_I[i].u.structunion) su = {0, &h_im[i][0]}; h_I[i].u.structunion = su; } \
		h_im[i][0].name = h_imn[i][0]; h_im[i][0].type = 0; h_im[i][0].offset = g_ioff[i][0]; \
		h_im[i][0].next = g_ni[i] == 2 ? &h_im[i][1] : 0; \
		h_im[i][1].name = h_imn[i][1]; h_im[i][1].type = 0; h_im[i][1].offset = g_ioff[i][1]; \
		h_im[i][1].next = 0; \
	} while (0)
	BUILD(0); BUILD(1); BUILD(2);
	off = in_start; g_off0 = in_start;
	HCALLR(struct member *, PRE, POST, typemember(t, name, offset));
}
