/* UNIT
{
 "id": "TYPE.adjust.qualfunc",
 "file": "type.c", "function": "typeadjust", "also_functions": ["mkpointertype", "mktype"],
 "properties": {"C05": "contract", "C19": "safety"},
 "mode": "dfcc", "enforce": "typeadjust/typeadjust_contract", "post_macro": "POST_ADJ",
 "kind": "proof",
 "timeout": 120,
 "expects": ["postcondition", "assigns"],
 "assumes": ["case split: only a function type with a non-empty qualifier set, which decl.c:parameter passes for `typedef void F(void); void g(const F f);` (all other cases: TYPE.adjust)",
             "xmalloc does not fail (stubs/base.c); pointer size/alignment 8 (LP64)"]
}
*/
#include "type.c"
#include "verif.h"
#define ADJ_CASE (g_kind == TYPEFUNC && g_tq0 != QUALNONE)
#include "adjust_contract.h"

void
harness(void)
{
	static struct type ty, tb;
	static enum typequal q;
	struct type *t = &ty;
	enum typequal *tq = &q;

	IN(int, in_kind);
	IN(int, in_tq);
	IN(int, in_aq);
	IN(int, in_ptrqual);
	IN(int, in_baseprop);

	tb.kind = TYPEINT; tb.prop = in_baseprop; tb.size = 4; tb.align = 4;
	ty.kind = in_kind;
	ty.prop = in_kind == TYPEFUNC ? in_baseprop : 0;
	ty.base = &tb;
	ty.qual = in_aq;
	if (in_kind == TYPEARRAY)
		ty.u.array.ptrqual = in_ptrqual;
	q = in_tq;
	g_t = t; g_base = &tb; g_kind = in_kind; g_tq0 = in_tq; g_aq = in_aq; g_ptrqual = in_ptrqual; g_baseprop = in_baseprop;
	CALLR(struct type *, PRE_ADJ, POST_ADJ, typeadjust(t, tq));
}
