/* UNIT
{
 "id": "EXPR.decodechar.hex.bnd",
 "file": "expr.c", "function": "decodechar",
 "properties": {"C14": "contract", "C19": "safety"},
 "mode": "dfcc", "enforce": "decodechar/decodechar_contract",
 "kind": "bounded", "bound": "the token tail after \\x has at most 10 octets (so at most 10 hexadecimal digits: 40 bits, enough to leave the 32-bit carrier)",
 "unwind": 11,
 "timeout": 200,
 "expects": ["postcondition", "assertion_repo"],
 "assumes": ["src is what scan.c:escape() let through: \\x is followed by at least one hexadecimal digit; the token is NUL-terminated",
             "bounded twin of EXPR.decodechar.hex (which has no bound but no native replay): same statement with the value given by a direct 64-bit oracle, all octets are scalar inputs"]
}
*/
#include "expr.c"
#include "verif.h"
#include "c_charlit.h"

/*
 * decodechar on  \x h h ...  with at most 10 octets after the x (C11 6.4.4.4p6,p7,p9):
 *   RET = 2 + number of leading hexadecimal digits (longest match);
 *   normal return => the numerical value of the digits fits 32 bits and *chr is that value (no silent wrap-around);
 *   an escape whose value fits is not diagnosed (g_no_error);  *hexoct = true.
 */
extern int g_no_error;
size_t g_len;         /* strlen(src), 3..12 */
u8 g_d[10];           /* octets after \x; 0 where none exist */
bool g_ho0;

#define ISX(i)   (spec_xdigit(g_d[i]) >= 0)
/* number of leading hexadecimal digits of g_d[0..9] */
#define NDIG     (!ISX(0) ? 0u : !ISX(1) ? 1u : !ISX(2) ? 2u : !ISX(3) ? 3u : !ISX(4) ? 4u : !ISX(5) ? 5u : \
                  !ISX(6) ? 6u : !ISX(7) ? 7u : !ISX(8) ? 8u : !ISX(9) ? 9u : 10u)

/* numerical value of the first n (<= 10) digits, in 64 bits: cannot overflow (40 bits) */
static inline u64
spec_hexval(unsigned n)
{
	u64 v = 0;

#define STEP(i) if (n > i) v = v * 16 + (u64)spec_xdigit(g_d[i]);
	STEP(0) STEP(1) STEP(2) STEP(3) STEP(4) STEP(5) STEP(6) STEP(7) STEP(8) STEP(9)
#undef STEP
	return v;
}

#define SRCIS(i) (g_len > 2 + (i) ? (u8)src[2 + (i)] == g_d[i] : g_d[i] == 0)
#define PRE(X) \
	X(src != 0 && chr != 0) \
	X(g_len >= 3 && g_len <= 12) \
	X(src[0] == '\\' && src[1] == 'x' && src[g_len] == 0) \
	X(SRCIS(0) && SRCIS(1) && SRCIS(2) && SRCIS(3) && SRCIS(4)) \
	X(SRCIS(5) && SRCIS(6) && SRCIS(7) && SRCIS(8) && SRCIS(9)) \
	X(ISX(0)) \
	X(IMP(hexoct != 0, *hexoct == g_ho0))

#define POST(X) \
	X(RET == 2 + NDIG) \
	X(spec_hexval(NDIG) <= 0xffffffffu) \
	X(*chr == spec_hexval(NDIG)) \
	X(IMP(hexoct != 0, *hexoct == true)) \
	CANARY(X, !(NDIG == 9 && *chr == 0x41))

static size_t decodechar_contract(const char *src, uint_least32_t *chr, bool *hexoct, const char *desc, struct location *loc)
REQUIRES(PRE)
__CPROVER_assigns(*chr; hexoct != 0: *hexoct)
ENSURES(POST);

void
harness(void)
{
	IN(u8, in_d0);
	IN(u8, in_d1);
	IN(u8, in_d2);
	IN(u8, in_d3);
	IN(u8, in_d4);
	IN(u8, in_d5);
	IN(u8, in_d6);
	IN(u8, in_d7);
	IN(u8, in_d8);
	IN(u8, in_d9);
	IN(unsigned, in_len);
	IN(bool, in_honull);
	IN(bool, in_ho0);
	IN(u32, in_chr0);
	static struct location lc;
	struct location *loc = &lc;
	const char *desc = "string literal";
	uint_least32_t chrv = in_chr0, *chr = &chrv;
	bool hov = in_ho0, *hexoct = in_honull ? 0 : &hov;
	u8 in_d[10];
	char *buf;
	const char *src;
	unsigned i;

	in_d[0] = in_d0; in_d[1] = in_d1; in_d[2] = in_d2; in_d[3] = in_d3; in_d[4] = in_d4;
	in_d[5] = in_d5; in_d[6] = in_d6; in_d[7] = in_d7; in_d[8] = in_d8; in_d[9] = in_d9;
	__CPROVER_assume(in_len >= 3 && in_len <= 12);
	buf = malloc(in_len + 1);
	__CPROVER_assume(buf != 0);
	buf[0] = '\\';
	buf[1] = 'x';
	for (i = 0; i < 10; i++) {
		g_d[i] = 2 + i < in_len ? in_d[i] : 0;
		if (2 + i < in_len)
			buf[2 + i] = in_d[i];
	}
	buf[in_len] = 0;
	src = buf;
	g_len = in_len;
	g_ho0 = in_ho0;
	/* C11 6.4.4.4p9: a value that fits the widest element type (32 bits) must be accepted here */
	g_no_error = spec_hexval(NDIG) <= 0xffffffffu;
	CALLR(size_t, PRE, POST, decodechar(src, chr, hexoct, desc, loc));
}
