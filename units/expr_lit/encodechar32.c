/* UNIT
{
 "id": "EXPR.encodechar32",
 "file": "expr.c", "function": "encodechar32",
 "properties": {"C14": "contract", "C19": "safety"},
 "mode": "dfcc", "enforce": "encodechar32/encodechar32_contract",
 "kind": "proof",
 "timeout": 120,
 "expects": ["postcondition"],
 "assumes": ["hexoct == false => chr is a Unicode scalar value (see EXPR.encodechar8); then the UTF-32 code unit is chr itself",
             "dst is writable for one 32-bit unit and suitably aligned"]
}
*/
#include "expr.c"
#include "verif.h"
#include "../../spec/utf.h"

/*
 * encodechar32(dst, chr, hexoct): element type char32_t / 32-bit wchar_t: one unit equal to chr in both cases
 * (UTF-32 of a scalar value is the value; a numeric escape's value always fits), returns 4; writes nothing else.
 */
u32 g_after;        /* the unit following dst, before the call */

#define D          ((uint_least32_t *)dst)
#define PRE(X) \
	X(dst != 0) \
	X(IMP(!hexoct, spec_is_scalar(chr))) \
	X(D[1] == g_after)

#define POST(X) \
	X(RET == 4) \
	X(D[0] == chr) \
	X(D[1] == g_after) \
	CANARY(X, !(hexoct && chr == 0xFFFFFFFF))

static size_t encodechar32_contract(void *dst, uint_least32_t chr, bool hexoct)
REQUIRES(PRE)
__CPROVER_assigns(*(uint_least32_t *)dst)
ENSURES(POST);

void
harness(void)
{
	IN(u32, in_chr);
	IN(bool, in_hexoct);
	IN(u32, in_s0);
	IN(u32, in_after);
	uint_least32_t chr = in_chr;
	bool hexoct = in_hexoct;
	uint_least32_t *b;
	void *dst;

	b = malloc(2 * sizeof *b);
	__CPROVER_assume(b != 0);
	b[0] = in_s0;
	b[1] = in_after;
	dst = b;
	g_after = in_after;
	CALLR(size_t, PRE, POST, encodechar32(dst, chr, hexoct));
}
