/* UNIT
{
 "id": "EXPR.encodechar8",
 "file": "expr.c", "function": "encodechar8", "also_functions": ["utf8enc"],
 "properties": {"C14": "contract", "C19": "safety"},
 "mode": "dfcc", "enforce": "encodechar8/encodechar8_contract",
 "link_repo": ["utf.c"],
 "kind": "proof",
 "timeout": 120,
 "expects": ["postcondition", "assertion_repo"],
 "assumes": ["hexoct == false => chr is a Unicode scalar value: stringconcat passes decodechar's results or (0, false); EXPR.decodechar proves hexoct stays false exactly for simple escapes (ASCII) and UTF-8 source characters, whose value is utf8dec's, a scalar value by UTF.dec postcondition 3",
             "hexoct == true => chr is any 32-bit value (whatever the numeric escape said); nobody between decodechar and here checks its range",
             "dst is writable for the octets needed (stringconcat's buffer arithmetic is not verified)"]
}
*/
#include "expr.c"
#include "verif.h"
#include "../../spec/utf.h"

/*
 * encodechar8(dst, chr, hexoct): element type char / unsigned char (plain and u8 literals).
 *   source character or simple escape: the UTF-8 encoding of chr (RFC 3629), returns its length;
 *   numeric escape (C11 6.4.4.4p5,p6,p9): ONE element whose value is the value of the escape; the value must be
 *   representable in unsigned char -- storing something else (truncation) alters the literal.
 */
size_t g_avail;                 /* octets that exist behind dst */
u8 g_s0, g_s1, g_s2, g_s3;      /* their values before the call */

#define D          ((unsigned char *)dst)
#define NEED       (hexoct ? 1u : spec_utf8_enclen(chr))
#define PRE(X) \
	X(dst != 0) \
	X(IMP(!hexoct, spec_is_scalar(chr))) \
	X(g_avail >= NEED && g_avail <= 4) \
	X(D[0] == g_s0 && IMP(g_avail > 1, D[1] == g_s1) && IMP(g_avail > 2, D[2] == g_s2) && IMP(g_avail > 3, D[3] == g_s3))

#define POST(X) \
	X(RET == NEED) \
	/* numeric escape: one element carrying the value itself (if a later fix makes the CALLER check the range, move the p9 clause into PRE) */ \
	X(IMP(hexoct && chr <= 0xFF, D[0] == chr)) \
	/* 6.4.4.4p9: a value that is not representable in the element type must have been diagnosed, not stored (truncated) */ \
	X(IMP(hexoct, chr <= 0xFF)) \
	/* character: RFC 3629 octets */ \
	X(IMP(!hexoct, D[0] == spec_utf8_byte(chr, 0))) \
	X(IMP(!hexoct && NEED > 1, D[1] == spec_utf8_byte(chr, 1))) \
	X(IMP(!hexoct && NEED > 2, D[2] == spec_utf8_byte(chr, 2))) \
	X(IMP(!hexoct && NEED > 3, D[3] == spec_utf8_byte(chr, 3))) \
	/* frame */ \
	X(IMP(g_avail > 1 && NEED <= 1, D[1] == g_s1)) \
	X(IMP(g_avail > 2 && NEED <= 2, D[2] == g_s2)) \
	X(IMP(g_avail > 3 && NEED <= 3, D[3] == g_s3)) \
	CANARY(X, !(!hexoct && chr == 0xE9 && D[0] == 0xC3 && D[1] == 0xA9))

static size_t encodechar8_contract(void *dst, uint_least32_t chr, bool hexoct)
REQUIRES(PRE)
__CPROVER_assigns(__CPROVER_object_whole(dst))
ENSURES(POST);

void
harness(void)
{
	IN(u32, in_chr);
	IN(bool, in_hexoct);
	IN(unsigned, in_avail);
	IN(u8, in_s0);
	IN(u8, in_s1);
	IN(u8, in_s2);
	IN(u8, in_s3);
	uint_least32_t chr = in_chr;
	bool hexoct = in_hexoct;
	unsigned char *b;
	void *dst;

	__CPROVER_assume(in_avail >= 1 && in_avail <= 4);
	b = malloc(in_avail);
	__CPROVER_assume(b != 0);
	b[0] = in_s0;
	if (in_avail > 1) b[1] = in_s1;
	if (in_avail > 2) b[2] = in_s2;
	if (in_avail > 3) b[3] = in_s3;
	dst = b;
	g_avail = in_avail;
	g_s0 = in_s0; g_s1 = in_s1; g_s2 = in_s2; g_s3 = in_s3;
	CALLR(size_t, PRE, POST, encodechar8(dst, chr, hexoct));
}
