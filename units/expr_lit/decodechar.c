/* UNIT
{
 "id": "EXPR.decodechar",
 "file": "expr.c", "function": "decodechar", "also_functions": ["isodigit"],
 "properties": {"C14": "contract", "C19": "safety"},
 "mode": "dfcc", "enforce": "decodechar/decodechar_contract",
 "replace_contracts": {"utf8dec": "utf8dec_contract"},
 "kind": "proof-const-unwind", "unwind": 4,
 "timeout": 120,
 "expects": ["postcondition", "precondition", "assertion_repo"],
 "assumes": ["the character is not a hexadecimal escape (those: EXPR.decodechar.hex); for everything else decodechar looks at no more than 4 octets, so the 5-octet window of the harness is the general case",
             "src is what scan.c:escape() let through: after a backslash comes one of ' \" ? \\ a b f n r t v x or an octal digit 0-7 (SCAN.* units own that); the token is NUL-terminated",
             "execution character set is ASCII (all cproc targets)"]
}
*/
#include "expr.c"
#include "verif.h"
#include "c_charlit.h"
#include "../utf/dec_contract.h"

/*
 * decodechar(src, chr, hexoct, desc, loc) decodes ONE c-char / s-char at src (C11 6.4.4.4, 6.4.5):
 *   simple escape  -> its value, 2 octets consumed;
 *   octal escape   -> 1 to 3 octal digits (0-7; a following 8 or 9 is NOT part of it), value = the octal number;
 *   otherwise      -> one UTF-8 encoded source character (RFC 3629) -> its scalar value; ill-formed input is diagnosed;
 *   returns the number of octets consumed; *hexoct = true for numeric escapes only (untouched otherwise).
 *
 * ghosts: g_len = strlen(src) (the harness allocates g_len + 1 octets), g_b0..g_b3 (shared with utf8dec's contract:
 * the octets at src, 0 where none exist), g_b4; g_ho0 = *hexoct before the call.
 */
extern int g_no_error;   /* stubs/base.c */
size_t g_len;
u8 g_b4;
bool g_ho0;

#define ESC        (g_b0 == '\\')
#define SIMPLE     (ESC && spec_simple_escape(g_b1) >= 0)
#define OCTAL      (ESC && spec_is_odigit(g_b1))
#define UTF8LEN    spec_utf8_len(g_b0, g_b1, g_b2, g_b3, 4)

#define PRE(X) \
	X(src != 0 && chr != 0) \
	X(g_len >= 1 && g_len <= 5) \
	X(src[g_len] == 0) \
	X((u8)src[0] == g_b0 && (u8)src[1] == g_b1) \
	X(g_len >= 2 ? (u8)src[2] == g_b2 : g_b2 == 0) \
	X(g_len >= 3 ? (u8)src[3] == g_b3 : g_b3 == 0) \
	X(g_len >= 4 ? (u8)src[4] == g_b4 : g_b4 == 0) \
	X(g_avail == (g_len + 1 < 4 ? g_len + 1 : 4)) \
	/* what scan.c:escape() accepts after a backslash (hex escapes: the other unit) */ \
	X(IMP(ESC, spec_simple_escape(g_b1) >= 0 || spec_is_odigit(g_b1))) \
	X(IMP(hexoct != 0, *hexoct == g_ho0))

#define POST(X) \
	/* 6.4.4.4p3 + 5.2.2: simple escapes */ \
	X(IMP(SIMPLE, RET == 2)) \
	X(IMP(SIMPLE, *chr == (u32)spec_simple_escape(g_b1))) \
	/* 6.4.4.4p5,p7: octal escape = longest run of at most 3 OCTAL digits */ \
	X(IMP(OCTAL, RET == 1 + spec_octal_ndigits(g_b1, g_b2, g_b3))) \
	X(IMP(OCTAL, *chr == spec_octal_value(g_b1, g_b2, g_b3))) \
	/* source character: UTF-8 (RFC 3629); normal return only for well-formed input */ \
	X(IMP(!ESC, UTF8LEN != 0)) \
	X(IMP(!ESC, RET == UTF8LEN)) \
	X(IMP(!ESC, *chr == spec_utf8_val(g_b0, g_b1, g_b2, g_b3, UTF8LEN))) \
	/* hexoct: set for numeric escapes, untouched otherwise */ \
	X(IMP(hexoct != 0 && OCTAL, *hexoct == true)) \
	X(IMP(hexoct != 0 && !OCTAL, *hexoct == g_ho0)) \
	X(RET >= 1 && RET <= g_len) \
	CANARY(X, !(g_b0 == '\\' && g_b1 == '1' && g_b2 == '0' && g_b3 == '1' && *chr == 65))

static size_t decodechar_contract(const char *src, uint_least32_t *chr, bool *hexoct, const char *desc, struct location *loc)
REQUIRES(PRE)
__CPROVER_assigns(*chr; hexoct != 0: *hexoct)
ENSURES(POST);

void
harness(void)
{
	IN(u8, in_b0);
	IN(u8, in_b1);
	IN(u8, in_b2);
	IN(u8, in_b3);
	IN(u8, in_b4);
	IN(unsigned, in_len);
	IN(bool, in_honull);
	IN(bool, in_ho0);
	IN(u32, in_chr0);
	static struct location lc;
	struct location *loc = &lc;
	const char *desc = "string literal";
	uint_least32_t chrv = in_chr0, *chr = &chrv;
	bool hov = in_ho0, *hexoct = in_honull ? 0 : &hov;
	char *buf;
	const char *src;

	__CPROVER_assume(in_len >= 1 && in_len <= 5);
	buf = malloc(in_len + 1);
	__CPROVER_assume(buf != 0);
	buf[0] = in_b0;
	if (in_len > 1) buf[1] = in_b1;
	if (in_len > 2) buf[2] = in_b2;
	if (in_len > 3) buf[3] = in_b3;
	if (in_len > 4) buf[4] = in_b4;
	buf[in_len] = 0;
	src = buf;
	g_len = in_len;
	g_b0 = buf[0];
	g_b1 = buf[1];
	g_b2 = in_len >= 2 ? buf[2] : 0;
	g_b3 = in_len >= 3 ? buf[3] : 0;
	g_b4 = in_len >= 4 ? buf[4] : 0;
	g_avail = in_len + 1 < 4 ? in_len + 1 : 4;
	g_ho0 = in_ho0;
	/* a well-formed character must not be diagnosed */
	g_no_error = ESC || UTF8LEN != 0;
	CALLR(size_t, PRE, POST, decodechar(src, chr, hexoct, desc, loc));
}
