/* UNIT
{
 "id": "EXPR.inttype",
 "file": "expr.c", "function": "inttype", "also_functions": ["typehasint"],
 "properties": {"C04": "contract", "C05": "contract", "C19": "safety"},
 "mode": "harness",
 "link_repo": ["type.c"],
 "kind": "bounded", "bound": "the text after the digits has at most 5 characters (every integer-suffix has at most 3; longer ones are all invalid)",
 "unwind": 8,
 "timeout": 200,
 "expects": ["assertion_verif", "assertion_repo"],
 "assumes": ["harness mode with a length bound instead of a loop contract for the case-folding loop: inttype keeps its table in a static local, and both goto-instrument --dfcc and the non-DFCC --apply-loop-contracts re-initialise statics nondeterministically (probed: the table pointers become invalid), so no loop contract can be applied to this function with CBMC 6.11",
             "val is the value of the digit sequence (strtoull in primaryexpr; its saturation at ULLONG_MAX is NOT checked there -- see report), end points at the first character after the digits inside the writable NUL-terminated token",
             "int is 32 bits, long and long long are 64 bits on every cproc target: the sizes are those of type.c's real type objects (linked), asserted in PRE"]
}
*/
#include "expr.c"
#include "verif.h"
#include "c_intlit.h"

/*
 * inttype(val, decimal, end): C11 6.4.4.1.
 *   - returns normally only if `end` is a valid integer-suffix(opt) (p1) and some type of the list for that suffix and
 *     base can represent val (p5, p6 + 6.4.4p2); every such constant IS accepted (g_no_error);
 *   - the result is the type object of the FIRST type of the list that can represent val (p5 table);
 *   - that type can represent val (C04: the constant's value is not changed by its type).
 */
extern int g_no_error;
size_t g_len;                    /* strlen(end) */
u8 g_e0, g_e1, g_e2, g_e3, g_e4; /* the characters at end as written (case preserved); 0 where none exist */

static struct type *
il_obj(enum spec_ilt t)
{
	return t == SPEC_IL_INT ? &typeint : t == SPEC_IL_UINT ? &typeuint : t == SPEC_IL_LONG ? &typelong
	     : t == SPEC_IL_ULONG ? &typeulong : t == SPEC_IL_LLONG ? &typellong : t == SPEC_IL_ULLONG ? &typeullong : 0;
}

#define SUF     spec_intsuffix(g_e0, g_e1, g_e2, g_e3)
#define EXPECT  spec_intlit_type(SUF, decimal, val, 4, 8, 8)
#define LOWER(c) ((c) >= 'A' && (c) <= 'Z' ? (c) + 32 : (c))

#define PRE(X) \
	X(end != 0) \
	X(g_len <= 5 && end[g_len] == 0) \
	X((g_len > 0 ? (u8)end[0] == g_e0 && g_e0 != 0 : g_e0 == 0) && (g_len > 1 ? (u8)end[1] == g_e1 && g_e1 != 0 : g_e1 == 0)) \
	X((g_len > 2 ? (u8)end[2] == g_e2 && g_e2 != 0 : g_e2 == 0) && (g_len > 3 ? (u8)end[3] == g_e3 && g_e3 != 0 : g_e3 == 0)) \
	X((g_len > 4 ? (u8)end[4] == g_e4 && g_e4 != 0 : g_e4 == 0)) \
	X(typeint.size == 4 && typeuint.size == 4 && typelong.size == 8 && typeulong.size == 8 && typellong.size == 8 && typeullong.size == 8) \
	X(typeint.u.basic.issigned && !typeuint.u.basic.issigned && typelong.u.basic.issigned && !typeulong.u.basic.issigned) \
	X(typellong.u.basic.issigned && !typeullong.u.basic.issigned)

#define POST(X) \
	/* p1: only an integer-suffix may follow the digits */ \
	X(SUF != SPEC_SUF_INVALID) \
	/* p6, 6.4.4p2: a constant none of whose candidate types can represent it is diagnosed */ \
	X(IMP(SUF != SPEC_SUF_INVALID, EXPECT != SPEC_IL_NONE)) \
	/* p5: first type of the list that can represent the value */ \
	X(IMP(SUF != SPEC_SUF_INVALID, HRET == il_obj(EXPECT))) \
	X(HRET != 0 && (HRET->prop & PROPINT) && (HRET->size == 8 || val >> (8 * HRET->size - HRET->u.basic.issigned) == 0)) \
	/* frame: the token text is at most case-folded */ \
	X(end[g_len] == 0) \
	X(IMP(g_len > 0, (u8)end[0] == g_e0 || (u8)end[0] == LOWER(g_e0))) \
	X(IMP(g_len > 1, (u8)end[1] == g_e1 || (u8)end[1] == LOWER(g_e1))) \
	X(IMP(g_len > 2, (u8)end[2] == g_e2 || (u8)end[2] == LOWER(g_e2))) \
	CANARY(X, !(g_e0 == 'U' && g_e1 == 'L' && g_len == 2 && val == 5))

void
harness(void)
{
	IN(u64, in_val);
	IN(bool, in_decimal);
	IN(unsigned, in_len);
	IN(u8, in_e0);
	IN(u8, in_e1);
	IN(u8, in_e2);
	IN(u8, in_e3);
	IN(u8, in_e4);
	unsigned long long val = in_val;
	bool decimal = in_decimal;
	char *end;

	__CPROVER_assume(in_len <= 5);
	end = malloc(in_len + 1);
	__CPROVER_assume(end != 0);
	if (in_len > 0) end[0] = in_e0;
	if (in_len > 1) end[1] = in_e1;
	if (in_len > 2) end[2] = in_e2;
	if (in_len > 3) end[3] = in_e3;
	if (in_len > 4) end[4] = in_e4;
	end[in_len] = 0;
	g_len = in_len;
	g_e0 = in_len > 0 ? in_e0 : 0;
	g_e1 = in_len > 1 ? in_e1 : 0;
	g_e2 = in_len > 2 ? in_e2 : 0;
	g_e3 = in_len > 3 ? in_e3 : 0;
	g_e4 = in_len > 4 ? in_e4 : 0;
	/* a well-formed constant that has a type must not be diagnosed */
	g_no_error = SUF != SPEC_SUF_INVALID && EXPECT != SPEC_IL_NONE;
	HCALLR(struct type *, PRE, POST, inttype(val, decimal, end));
}
