/* UNIT
{
 "id": "EXPR.stringconcat.bnd",
 "file": "expr.c", "function": "stringconcat", "also_functions": ["decodechar", "encodechar8", "encodechar16", "encodechar32", "utf8dec", "utf8enc", "utf16enc"],
 "properties": {"C14": "contract", "C19": "safety"},
 "mode": "harness",
 "link_repo": ["type.c", "utf.c"], 
 "kind": "bounded", "bound": "one or two adjacent string literal tokens, any prefixes (none, u8, u, U, L), each body empty or ONE s-char of at most 7 octets (simple escape, octal escape, \\x + up to 5 hexadecimal digits, or one well-formed UTF-8 character)",
 "unwind": 13, "unwindset": ["stringconcat.0:3", "stringconcat.1:2", "stringconcat.2:3", "decodechar.0:6", "decodechar.1:4", "utf8dec.0:4"],
 "variants": {"one": ["-DV_NTOK=1"], "two": ["-DV_NTOK=2", "-DVERIF_OWN_XMALLOC"]},
 "timeout": 300,
 "expects": ["assertion_verif", "assertion_repo"],
 "assumes": ["next() is a stub that delivers the harness's token queue (tok.kind, tok.lit) and then TEOF; token text is what scan.c:stringlit() produces (prefix, quote, body, quote, NUL; escapes lexically valid)",
             "arrayadd: fixed-capacity model in the unit (two entries); xreallocarray: variant one: stubs/base.c (exact-size realloc, so every write past len * width is a bounds obligation); variant two: fixed 64-octet buffer in the unit + explicit POST clause 'written <= requested' (a symbolic-size heap object made the two-token runs take > 5 min)",
             "targ->typewchar is int or unsigned int (the three targets of targ.c)",
             "source characters are well-formed UTF-8 (ill-formed: UTF.dec / UTF.roundtrip.dec); a u8 literal's element type may be char (C11 6.4.5p6) or unsigned char (C23 char8_t, what cproc does): both accepted",
             "C11 6.4.5p5 leaves concatenating differently-prefixed wide literals implementation-defined; only u8 + wide is required to be diagnosed (6.4.5p2), equal prefixes / prefix + none are required to be accepted"]
}
*/
#include "expr.c"
#include "verif.h"
#include "c_charlit.h"
#include "../../spec/utf.h"

/*
 * stringconcat(str, forceutf8) -- C11 6.4.5 (translation phases 6 and 7 of 5.1.1.2 for string literals):
 *   p5: adjacent tokens are concatenated; if any token has an encoding prefix the result has that prefix;
 *   p2: u8 and wide literals must not be mixed (constraint);
 *   p6: element type char / char (u8) / wchar_t (L) / char16_t (u) / char32_t (U); a terminating zero element is
 *       appended; the elements are the code units of the characters in the encoding of the element type (UTF-8,
 *       UTF-16 with surrogate pairs, UTF-32); an octal/hex escape yields ONE element with that value, which must be
 *       representable in the (unsigned) element type (6.4.4.4p9);
 *   str->size = number of elements including the terminator; nothing is written outside the len * width allocation.
 */
extern int g_no_error;
struct token tok;
static struct target g_targ;
const struct target *targ = &g_targ;

#ifndef VERIF_REPLAY
/* util.c:arrayadd for the `parts` array (at most two 32-byte entries): fixed storage instead of realloc(256) --
   stubs/array_model.c makes the propositional problem intractable here (probed: > 5 min in "converting SSA") */
static _Alignas(16) char arr_store[64];

void *
arrayadd(struct array *a, size_t n)
{
	void *v;

	__CPROVER_assert(a->len + n <= sizeof arr_store, "arrayadd model: capacity");
	a->val = arr_store;
	a->cap = sizeof arr_store;
	v = arr_store + a->len;
	a->len += n;
	return v;
}
#endif

#ifdef VERIF_OWN_XMALLOC
/* two-token variants: the element buffer is a fixed 64-octet object (a symbolic-size heap object makes these runs
   take minutes); the size stringconcat ASKED for is recorded and "everything written lies inside what was asked for"
   becomes an explicit POST clause instead of a CBMC bounds obligation */
size_t g_alloc;
static _Alignas(16) unsigned char out_store[64];

void *
xreallocarray(void *buf, size_t n, size_t m)
{
	__CPROVER_assert(buf == 0, "xreallocarray model: one allocation");
	__CPROVER_assume(m == 0 || n <= (size_t)-1 / m);   /* the real one calls fatal() */
	g_alloc = n * m;
	return out_store;
}

void *
xmalloc(size_t n)
{
	void *p = malloc(n);
	__CPROVER_assume(p != 0);
	return p;
}
#define ALLOC_OK (g_str.size * WIDTH <= g_alloc)
#else
#define ALLOC_OK 1
#endif

/* token queue for next() */
static char *q_lit[2];
static unsigned q_n, q_pos;

void
next(void)
{
	++q_pos;
	if (q_pos < q_n) {
		tok.kind = TSTRINGLIT;
		tok.lit = q_lit[q_pos];
	} else {
		tok.kind = TEOF;
		tok.lit = 0;
	}
}

/* ghosts: per token prefix (0 none, 1 L, 2 u, 3 U, 4 u8), body length, body octets (0 where none) */
unsigned g_ntok;
unsigned g_pfx[2];
size_t g_blen[2];
u8 g_c[2][7];
bool g_wsigned, g_force;
/* results */
struct type *g_t;
struct stringlit g_str;
unsigned g_expn;            /* expected number of elements before the terminator */
bool g_data_ok, g_term_ok;

#define ESC(c)     ((c)[0] == '\\')
#define SIMPLE(c)  (ESC(c) && spec_simple_escape((c)[1]) >= 0)
#define OCTAL(c)   (ESC(c) && spec_is_odigit((c)[1]))
#define HEX(c)     (ESC(c) && (c)[1] == 'x')
#define NUMERIC(c) (OCTAL(c) || HEX(c))
#define ISX(c, i)  (spec_xdigit((c)[i]) >= 0)
#define NHEX(c)    (!ISX(c, 2) ? 0u : !ISX(c, 3) ? 1u : !ISX(c, 4) ? 2u : !ISX(c, 5) ? 3u : !ISX(c, 6) ? 4u : 5u)
#define U8LEN(c)   spec_utf8_len((c)[0], (c)[1], (c)[2], (c)[3], 4)

static inline u64
hexval(const u8 *c, unsigned n)
{
	u64 v = 0;
#define STEP(i) if (n > i) v = v * 16 + (u64)spec_xdigit(c[2 + i]);
	STEP(0) STEP(1) STEP(2) STEP(3) STEP(4)
#undef STEP
	return v;
}

#define CLEN(c)    (SIMPLE(c) ? 2u : OCTAL(c) ? 1u + spec_octal_ndigits((c)[1], (c)[2], (c)[3]) : HEX(c) ? 2u + NHEX(c) : U8LEN(c))
#define CVAL(c)    (SIMPLE(c) ? (u64)spec_simple_escape((c)[1]) : OCTAL(c) ? (u64)spec_octal_value((c)[1], (c)[2], (c)[3]) : \
                    HEX(c) ? hexval(c, NHEX(c)) : (u64)spec_utf8_val((c)[0], (c)[1], (c)[2], (c)[3], U8LEN(c)))
/* token k is well-formed for this unit: empty, or exactly one s-char */
#define TOKOK(k)   (g_blen[k] == 0 || ((ESC(g_c[k]) ? SIMPLE(g_c[k]) || OCTAL(g_c[k]) || (HEX(g_c[k]) && ISX(g_c[k], 2)) \
                                                    : U8LEN(g_c[k]) != 0 && g_c[k][0] != '"' && g_c[k][0] != '\n') && CLEN(g_c[k]) == g_blen[k]))
#define USED(k)    ((k) < g_ntok && g_blen[k] != 0)

/* resulting prefix (p5) */
#define P0         g_pfx[0]
#define P1         (g_ntok > 1 ? g_pfx[1] : 0u)
#define RPFX       (g_force ? 4u : P0 ? P0 : P1)
#define ISWIDE(p)  ((p) == 1 || (p) == 2 || (p) == 3)
#define MIX_U8WIDE ((P0 == 4 && ISWIDE(P1)) || (ISWIDE(P0) && P1 == 4))
#define COMPATIBLE (P0 == P1 || P0 == 0 || P1 == 0)
#define WIDTH      (RPFX == 0 || RPFX == 4 ? 1u : RPFX == 2 ? 2u : 4u)
#define UMAX       (WIDTH == 1 ? 0xffull : WIDTH == 2 ? 0xffffull : 0xffffffffull)
/* no raw NUL octet as a source character */
#define NONUL      (!(USED(0) && g_c[0][0] == 0) && !(USED(1) && g_c[1][0] == 0))
#define INRANGE(k) (!USED(k) || !NUMERIC(g_c[k]) || CVAL(g_c[k]) <= UMAX)

#define PRE(X) \
	X(g_ntok >= 1 && g_ntok <= 2) \
	X(g_pfx[0] <= 4 && g_pfx[1] <= 4 && g_blen[0] <= 7 && g_blen[1] <= 7) \
	X(tok.kind == TSTRINGLIT && tok.lit != 0) \
	X(g_targ.typewchar == (g_wsigned ? &typeint : &typeuint)) \
	X(TOKOK(0) && (g_ntok < 2 || TOKOK(1))) \
	/* the scanner (scan.c:stringlit) rejects a raw NUL octet inside a literal: token text is a C string */ \
	X(NONUL)

#define POST(X) \
	/* p2: u8 and wide literals are not mixed */ \
	X(!MIX_U8WIDE) \
	/* p6: element type by resulting prefix */ \
	X(IMP(RPFX == 0, g_t == &typechar)) \
	X(IMP(RPFX == 4, g_t == &typechar || g_t == &typeuchar)) \
	X(IMP(RPFX == 1, g_t == g_targ.typewchar)) \
	X(IMP(RPFX == 2, g_t == &typeushort)) \
	X(IMP(RPFX == 3, g_t == &typeuint)) \
	/* 6.4.4.4p9: out-of-range numeric escapes are diagnosed */ \
	X(INRANGE(0)) \
	X(INRANGE(1)) \
	/* number of elements, their values, the terminator */ \
	X(IMP(INRANGE(0) && INRANGE(1), g_str.size == g_expn + 1)) \
	X(IMP(INRANGE(0) && INRANGE(1), g_data_ok)) \
	X(IMP(INRANGE(0) && INRANGE(1), g_term_ok)) \
	X(tok.kind == TEOF) \
	/* everything written lies inside the allocation that was requested (fixed-buffer variants; otherwise CBMC's bounds checks) */ \
	X(IMP(NONUL, ALLOC_OK)) \
	CANARY(X, !(g_ntok == 2 && P0 == 0 && P1 == 2 && g_c[0][0] == 'a' && g_blen[1] == 4))

/* expected code units of character k for the resulting width, appended to e[] */
static unsigned
expect_units(unsigned k, unsigned n, u32 *e)
{
	u32 v;
	unsigned i, l;

	if (!USED(k))
		return n;
	v = CVAL(g_c[k]);
	if (NUMERIC(g_c[k]) || WIDTH == 4) {
		e[n++] = v;
	} else if (WIDTH == 1) {
		l = spec_utf8_enclen(v);
		for (i = 0; i < l; i++)
			e[n++] = spec_utf8_byte(v, i);
	} else {
		l = spec_utf16_enclen(v);
		for (i = 0; i < l; i++)
			e[n++] = spec_utf16_unit(v, i);
	}
	return n;
}

static u32
unit_at(const void *data, unsigned width, unsigned i)
{
	return width == 1 ? ((const unsigned char *)data)[i] : width == 2 ? ((const uint_least16_t *)data)[i] : ((const uint_least32_t *)data)[i];
}

static void
call(void)
{
	u32 e[9];
	unsigned i;

	g_t = stringconcat(&g_str, g_force);
	/* compare with the oracle (only meaningful when the escapes are in range) */
	g_expn = expect_units(1, expect_units(0, 0, e), e);
	g_data_ok = g_term_ok = false;
	if (INRANGE(0) && INRANGE(1) && g_str.size == g_expn + 1 && g_t != 0 && g_t->size == WIDTH) {
		g_data_ok = true;
		for (i = 0; i < g_expn; i++)
			if (unit_at(g_str.data, WIDTH, i) != e[i])
				g_data_ok = false;
		g_term_ok = unit_at(g_str.data, WIDTH, g_expn) == 0;
	}
}

static char *
mktoken(unsigned pfx, size_t blen, const u8 *c)
{
	char *lit, *p;
	unsigned i;

	lit = malloc(12);   /* fixed size: exact-size tokens (reads past the NUL) are EXPR.decodechar's business and double the run time here */
	__CPROVER_assume(lit != 0);
	p = lit;
	if (pfx == 4) {
		*p++ = 'u';
		*p++ = '8';
	} else if (pfx) {
		*p++ = pfx == 1 ? 'L' : pfx == 2 ? 'u' : 'U';
	}
	*p++ = '"';
	for (i = 0; i < 7; i++)
		if (i < blen)
			*p++ = c[i];
	*p++ = '"';
	*p = 0;
	return lit;
}

void
harness(void)
{
	IN(unsigned, in_ntok);
	IN(unsigned, in_pfx0);
	IN(unsigned, in_pfx1);
	IN(unsigned, in_blen0);
	IN(unsigned, in_blen1);
	IN(u64, in_body0);     /* 7 octets, little endian */
	IN(u64, in_body1);
	IN(bool, in_wsigned);
	IN(bool, in_force);
	unsigned i;

#ifdef V_NTOK
	/* compile-time case split (one CBMC run per token count): the propositional problem is too
	   large otherwise */
	__CPROVER_assume(in_ntok == V_NTOK);
#endif
	__CPROVER_assume(in_ntok >= 1 && in_ntok <= 2 && in_pfx0 <= 4 && in_pfx1 <= 4 && in_blen0 <= 7 && in_blen1 <= 7);
#ifdef V_NTOK
	g_ntok = V_NTOK;
#else
	g_ntok = in_ntok;
#endif
	g_pfx[0] = in_pfx0;
	g_pfx[1] = in_pfx1;
	g_blen[0] = in_blen0; g_blen[1] = in_blen1;
	for (i = 0; i < 7; i++) {
		g_c[0][i] = i < in_blen0 ? (u8)(in_body0 >> 8 * i) : 0;
		g_c[1][i] = i < in_blen1 ? (u8)(in_body1 >> 8 * i) : 0;
	}
	g_wsigned = in_wsigned;
	g_force = in_force;
	g_targ.typewchar = in_wsigned ? &typeint : &typeuint;
	q_lit[0] = mktoken(g_pfx[0], g_blen[0], g_c[0]);
	q_lit[1] = g_ntok > 1 ? mktoken(g_pfx[1], g_blen[1], g_c[1]) : 0;
	q_n = g_ntok;
	q_pos = 0;
	tok.kind = TSTRINGLIT;
	tok.lit = q_lit[0];
	g_str.size = 0;
	g_str.data = 0;
	/* what must be accepted: compatible prefixes and every escape in range */
	g_no_error = COMPATIBLE && INRANGE(0) && INRANGE(1);
	HCALL(PRE, POST, call());
}
