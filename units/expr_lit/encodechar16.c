/* UNIT
{
 "id": "EXPR.encodechar16",
 "file": "expr.c", "function": "encodechar16", "also_functions": ["utf16enc"],
 "properties": {"C14": "contract", "C19": "safety"},
 "mode": "dfcc", "enforce": "encodechar16/encodechar16_contract",
 "link_repo": ["utf.c"],
 "kind": "proof",
 "timeout": 120,
 "expects": ["postcondition", "assertion_repo"],
 "assumes": ["hexoct == false => chr is a Unicode scalar value (see EXPR.encodechar8)",
             "hexoct == true => chr is any 32-bit value; nobody between decodechar and here checks its range",
             "dst is writable for the 16-bit units needed and suitably aligned (stringconcat: base of an xreallocarray block + multiples of 2)"]
}
*/
#include "expr.c"
#include "verif.h"
#include "../../spec/utf.h"

/*
 * encodechar16(dst, chr, hexoct): element type char16_t (u"..." and 16-bit wchar_t).
 *   character: UTF-16 (RFC 2781 2.1): one unit, or a surrogate pair above U+FFFF; returns the number of OCTETS;
 *   numeric escape: ONE unit whose value is the value of the escape, which must be representable in 16 bits
 *   (C11 6.4.4.4p9) -- storing something else alters the literal.
 */
size_t g_avail;            /* 16-bit units that exist behind dst */
unsigned short g_s0, g_s1;

#define D          ((uint_least16_t *)dst)
#define NEED       (hexoct ? 1u : spec_utf16_enclen(chr))
#define PRE(X) \
	X(dst != 0) \
	X(IMP(!hexoct, spec_is_scalar(chr))) \
	X(g_avail >= NEED && g_avail <= 2) \
	X(D[0] == g_s0 && IMP(g_avail > 1, D[1] == g_s1))

#define POST(X) \
	X(RET == NEED * 2) \
	X(IMP(hexoct && chr <= 0xFFFF, D[0] == chr)) \
	/* 6.4.4.4p9: a value that is not representable in the element type must have been diagnosed, not stored (truncated) */ \
	X(IMP(hexoct, chr <= 0xFFFF)) \
	X(IMP(!hexoct, D[0] == spec_utf16_unit(chr, 0))) \
	X(IMP(!hexoct && NEED > 1, D[1] == spec_utf16_unit(chr, 1))) \
	X(IMP(g_avail > 1 && NEED <= 1, D[1] == g_s1)) \
	CANARY(X, !(!hexoct && chr == 0x1F600 && D[0] == 0xD83D && D[1] == 0xDE00))

static size_t encodechar16_contract(void *dst, uint_least32_t chr, bool hexoct)
REQUIRES(PRE)
__CPROVER_assigns(__CPROVER_object_whole(dst))
ENSURES(POST);

void
harness(void)
{
	IN(u32, in_chr);
	IN(bool, in_hexoct);
	IN(unsigned, in_avail);
	IN(unsigned short, in_s0);
	IN(unsigned short, in_s1);
	uint_least32_t chr = in_chr;
	bool hexoct = in_hexoct;
	uint_least16_t *b;
	void *dst;

	__CPROVER_assume(in_avail >= 1 && in_avail <= 2);
	b = malloc(in_avail * sizeof *b);
	__CPROVER_assume(b != 0);
	b[0] = in_s0;
	if (in_avail > 1) b[1] = in_s1;
	dst = b;
	g_avail = in_avail;
	g_s0 = in_s0; g_s1 = in_s1;
	CALLR(size_t, PRE, POST, encodechar16(dst, chr, hexoct));
}
