/* UNIT
{
 "id": "EXPR.decodechar.hex",
 "file": "expr.c", "function": "decodechar",
 "properties": {"C14": "contract", "C19": "safety"},
 "mode": "dfcc", "enforce": "decodechar/decodechar_contract",
 "loop_contracts": {"decodechar": [{"loop_id": "0",
     "assigns": "c, s",
     "invariants": "__CPROVER_same_object(s, src) && 2 <= ((unsigned long)s - (unsigned long)src) && ((unsigned long)s - (unsigned long)src) < g_len && ('0' <= *s && *s <= '9' ? *s - '0' : 'A' <= *s && *s <= 'F' ? *s - 'A' + 10 : 'a' <= *s && *s <= 'f' ? *s - 'a' + 10 : -1) >= 0 && (2 <= g_i && g_i < ((unsigned long)s - (unsigned long)src) ==> ('0' <= src[g_i] && src[g_i] <= '9' ? src[g_i] - '0' : 'A' <= src[g_i] && src[g_i] <= 'F' ? src[g_i] - 'A' + 10 : 'a' <= src[g_i] && src[g_i] <= 'f' ? src[g_i] - 'a' + 10 : -1) >= 0) && (2 <= g_i && g_i < ((unsigned long)s - (unsigned long)src) && ((unsigned long)s - (unsigned long)src) - 1 - g_i < 8 ==> ((c >> 4 * (((unsigned long)s - (unsigned long)src) - 1 - g_i)) & 15) == ('0' <= src[g_i] && src[g_i] <= '9' ? src[g_i] - '0' : 'A' <= src[g_i] && src[g_i] <= 'F' ? src[g_i] - 'A' + 10 : 'a' <= src[g_i] && src[g_i] <= 'f' ? src[g_i] - 'a' + 10 : -1)) && (((unsigned long)s - (unsigned long)src) - 2 < 8 ==> (c >> 4 * (((unsigned long)s - (unsigned long)src) - 2)) == 0) && (2 <= g_i && g_i < ((unsigned long)s - (unsigned long)src) && ((unsigned long)s - (unsigned long)src) - 1 - g_i >= 8 ==> src[g_i] == '0')",
     "decreases": "g_len - ((unsigned long)s - (unsigned long)src)",
     "symbol_map": "c,decodechar::1::c;s,decodechar::1::s;src,decodechar::src;g_len,g_len;g_i,g_i"}]},
 "loops_expected": {"decodechar": 2},
 "kind": "proof", "unwind": 4,
 "replay": false,
 "timeout": 200,
 "expects": ["postcondition", "loop_invariant_base", "loop_invariant_step", "loop_decreases", "assertion_repo"],
 "assumes": ["src is what scan.c:escape() let through: \\x is followed by at least one hexadecimal digit; the token is NUL-terminated (length < 2^31)",
             "universal statements about the digits are made for one arbitrary ghost index g_i (a rigid variable), which is the quantifier-free form of 'for all positions'",
             "no native replay: the literal has symbolic length, its octets are not scalar inputs (the bounded twin EXPR.decodechar.hex.bnd replays)"]
}
*/
#include "expr.c"
#include "verif.h"
#include "c_charlit.h"

/*
 * decodechar on a hexadecimal escape  \x h h h ...   (C11 6.4.4.4p6,p7,p9), any number of digits:
 *   - consumes the backslash, the x and ALL following hexadecimal digits (longest match), nothing else;
 *   - *chr is the numerical value of the hexadecimal integer so formed; stated per digit: the digit at position g_i is
 *     nibble number (RET-1-g_i) of *chr, and nibbles above the number of digits are 0;
 *   - the value must not silently wrap: a normal return means no significant digit was shifted out of the 32-bit
 *     carrier (p9 makes an out-of-range value a constraint violation; wrapping it into range hides it from every
 *     later check);
 *   - *hexoct = true;  terminates (loop variant); stays inside the token (safety).
 * The hex loop is handled by a loop contract whose invariant is the same per-digit statement for the prefix consumed
 * so far; XD() is spec_xdigit() written as an expression because loop-contract text cannot call functions.
 */
#define XD(ch) ('0' <= (ch) && (ch) <= '9' ? (ch) - '0' : 'A' <= (ch) && (ch) <= 'F' ? (ch) - 'A' + 10 : 'a' <= (ch) && (ch) <= 'f' ? (ch) - 'a' + 10 : -1)

extern int g_no_error;
size_t g_len;      /* strlen(src); the harness allocates g_len + 1 octets */
size_t g_i;        /* arbitrary position in the literal */
bool g_ho0;

#define U(i)       ((unsigned char)src[i])
#define NIB(v, k)  (((v) >> 4 * (k)) & 15)
#define INDIGITS   (2 <= g_i && g_i < RET)

#define PRE(X) \
	X(src != 0 && chr != 0) \
	X(g_len >= 3 && g_len < 0x7fffffff) \
	X(src[0] == '\\' && src[1] == 'x' && src[g_len] == 0) \
	X(spec_xdigit(U(2)) >= 0) \
	X(IMP(hexoct != 0, *hexoct == g_ho0))

#define POST(X) \
	X(RET >= 3 && RET <= g_len) \
	/* p7 longest match: what follows is not a hexadecimal digit, what was consumed are hexadecimal digits */ \
	X(spec_xdigit(U(RET)) < 0) \
	X(IMP(INDIGITS, spec_xdigit(U(g_i)) >= 0)) \
	/* p6 value, digit by digit */ \
	X(IMP(INDIGITS && RET - 1 - g_i < 8, NIB(*chr, RET - 1 - g_i) == (u32)spec_xdigit(U(g_i)))) \
	X(IMP(RET - 2 < 8, *chr >> 4 * (RET - 2) == 0)) \
	/* no silent wrap-around: digits that do not fit the carrier must be zeros */ \
	X(IMP(INDIGITS && RET - 1 - g_i >= 8, src[g_i] == '0')) \
	X(IMP(hexoct != 0, *hexoct == true)) \
	CANARY(X, !(RET == 4 && src[2] == '4' && src[3] == '1' && *chr == 65))

static size_t decodechar_contract(const char *src, uint_least32_t *chr, bool *hexoct, const char *desc, struct location *loc)
REQUIRES(PRE)
__CPROVER_assigns(*chr; hexoct != 0: *hexoct)
ENSURES(POST);

void
harness(void)
{
	IN(size_t, in_len);
	ING(size_t, g_i);
	IN(bool, in_honull);
	IN(bool, in_ho0);
	IN(u32, in_chr0);
	static struct location lc;
	struct location *loc = &lc;
	const char *desc = "string literal";
	uint_least32_t chrv = in_chr0, *chr = &chrv;
	bool hov = in_ho0, *hexoct = in_honull ? 0 : &hov;
	char *buf;
	const char *src;

	__CPROVER_assume(in_len >= 3 && in_len < 0x7fffffff);
	buf = malloc(in_len + 1);          /* contents: arbitrary */
	__CPROVER_assume(buf != 0);
	buf[0] = '\\';
	buf[1] = 'x';
	buf[in_len] = 0;
	__CPROVER_assume(spec_xdigit((unsigned char)buf[2]) >= 0);
	src = buf;
	g_len = in_len;
	g_ho0 = in_ho0;
	g_no_error = 0;   /* an escape whose value does not fit may (must) be diagnosed; acceptance of the ones that fit: bounded twin */
	CALLR(size_t, PRE, POST, decodechar(src, chr, hexoct, desc, loc));
}
