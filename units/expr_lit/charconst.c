/* UNIT
{
 "id": "EXPR.primaryexpr.charconst",
 "file": "expr.c", "function": "primaryexpr", "also_functions": ["decodechar", "mkconstexpr", "utf8dec"],
 "properties": {"C14": "contract", "C05": "contract", "C19": "safety"},
 "mode": "harness",
 "link_repo": ["type.c", "utf.c"],
 "kind": "bounded", "bound": "character constants  [L|u|U]'c'  whose body is ONE c-char of at most 10 octets (\\x + 8 hexadecimal digits, 3-digit octal, simple escape, or one well-formed UTF-8 character)",
 "unwind": 12,
 "timeout": 300,
 "expects": ["assertion_verif", "assertion_repo"],
 "assumes": ["only the TCHARCONST arm of primaryexpr is entered (tok.kind fixed by the harness); next() is a stub that counts calls; the scope argument is not used on this path",
             "tok.lit is what scan.c:charconst() produces: prefix, quote, body, quote, NUL; escapes already validated lexically (SCAN.* units)",
             "targ->typewchar is int or unsigned int, plain char is signed or not (the three targets of targ.c); typechar.u.basic.issigned == targ->signedchar as targinit() sets it",
             "source characters are well-formed UTF-8 (ill-formed: UTF.dec); u8 character constants (C23) and multi-character constants (implementation-defined) are not covered",
             "constants are kept canonical for their type: sign-extended to 64 bits when the type is signed (the representation eval.c and EVAL.* units assume)"]
}
*/
#include "expr.c"
#include "verif.h"
#include "c_charlit.h"
#include "../../spec/utf.h"

/*
 * primaryexpr on a character constant (C11 6.4.4.4):
 *   p10: unprefixed: type int; the value is that of a `char` object holding the character/escape, converted to int
 *        (so '\377' is -1 where char is signed);
 *   p11: L'c' has type wchar_t, u'c' char16_t (uint_least16_t), U'c' char32_t (uint_least32_t); value = the code of
 *        the character / the value of the escape, as a value OF THAT TYPE;
 *   p9 (constraint): the value of an octal/hex escape shall be representable in unsigned char (unprefixed) or the
 *        unsigned type corresponding to the constant's type -> otherwise a diagnostic, not a silently different value;
 *   exactly one token is consumed; the result is an EXPRCONST.
 */
extern int g_no_error;
struct token tok;
static struct target g_targ;
const struct target *targ = &g_targ;
int g_nextcalls;

void
next(void)
{
	++g_nextcalls;
	tok.kind = TEOF;
	tok.lit = 0;
}

/* ghosts */
unsigned g_pfx;          /* 0 none, 1 L, 2 u, 3 U */
size_t g_blen;           /* octets in the body */
u8 g_c[10];              /* body, 0 where none */
bool g_sc, g_wsigned;    /* char signed?  wchar_t signed? */
struct expr *g_e;        /* the result */

#define ESC       (g_c[0] == '\\')
#define SIMPLE    (ESC && spec_simple_escape(g_c[1]) >= 0)
#define OCTAL     (ESC && spec_is_odigit(g_c[1]))
#define HEX       (ESC && g_c[1] == 'x')
#define NUMERIC   (OCTAL || HEX)
#define ISX(i)    (spec_xdigit(g_c[i]) >= 0)
#define NHEX      (!ISX(2) ? 0u : !ISX(3) ? 1u : !ISX(4) ? 2u : !ISX(5) ? 3u : !ISX(6) ? 4u : !ISX(7) ? 5u : !ISX(8) ? 6u : !ISX(9) ? 7u : 8u)
#define U8LEN     spec_utf8_len(g_c[0], g_c[1], g_c[2], g_c[3], 4)

/* value of up to 8 hexadecimal digits g_c[2..] */
static inline u64
hexval(unsigned n)
{
	u64 v = 0;
#define STEP(i) if (n > i) v = v * 16 + (u64)spec_xdigit(g_c[2 + i]);
	STEP(0) STEP(1) STEP(2) STEP(3) STEP(4) STEP(5) STEP(6) STEP(7)
#undef STEP
	return v;
}

/* length in octets and value of the first c-char of the body, per C11 6.4.4.4 / RFC 3629 */
#define CLEN      (SIMPLE ? 2u : OCTAL ? 1u + spec_octal_ndigits(g_c[1], g_c[2], g_c[3]) : HEX ? 2u + NHEX : U8LEN)
#define CVAL      (SIMPLE ? (u64)spec_simple_escape(g_c[1]) : OCTAL ? (u64)spec_octal_value(g_c[1], g_c[2], g_c[3]) : \
                   HEX ? hexval(NHEX) : (u64)spec_utf8_val(g_c[0], g_c[1], g_c[2], g_c[3], U8LEN))
/* the body is exactly one c-char */
#define ONE       (CLEN == g_blen)
/* largest value of the unsigned type corresponding to the constant's type (p9) */
#define UMAX      (g_pfx == 0 ? 0xffull : g_pfx == 2 ? 0xffffull : 0xffffffffull)
/* cases in which C11 leaves the value to the implementation: a multibyte character in an unprefixed constant, a
   character outside the BMP in a char16_t constant */
#define IMPLDEF   (!ESC && ((g_pfx == 0 && CVAL > 0x7f) || (g_pfx == 2 && CVAL > 0xffff)))
/* canonical 64-bit carrier of value v in a type of `sz` octets, signed or not */
#define CANON(v, sz, sg) ((sg) ? ((sz) == 1 ? (u64)(i64)(signed char)(v) : (u64)(i64)(int)(v)) : (u64)(v))
#define EXPTYPE   (g_pfx == 0 ? &typeint : g_pfx == 1 ? g_targ.typewchar : g_pfx == 2 ? &typeushort : &typeuint)
#define EXPVAL    (g_pfx == 0 ? (NUMERIC ? CANON(CVAL, 1, g_sc) : CVAL) : g_pfx == 1 ? CANON(CVAL, 4, g_wsigned) : CVAL)

#define PRE(X) \
	X(g_pfx <= 3 && g_blen >= 1 && g_blen <= 10) \
	X(tok.kind == TCHARCONST && tok.lit != 0) \
	X(g_targ.typewchar == (g_wsigned ? &typeint : &typeuint) && g_targ.signedchar == g_sc && typechar.u.basic.issigned == g_sc) \
	/* lexically valid (scan.c:escape) and, for source characters, well-formed UTF-8 */ \
	X(IMP(ESC, SIMPLE || OCTAL || (HEX && ISX(2)))) \
	X(IMP(!ESC, U8LEN != 0 && g_c[0] != '\'' && g_c[0] != '\n')) \
	X(ONE)

#define POST(X) \
	X(g_e != 0 && g_e->kind == EXPRCONST) \
	X(g_nextcalls == 1) \
	/* p10, p11: type by prefix */ \
	X(g_e->type == EXPTYPE) \
	/* p9: an escape whose value is out of range for the type is diagnosed */ \
	X(IMP(NUMERIC, CVAL <= UMAX)) \
	/* p10, p11: value, carried canonically for the type */ \
	X(IMP(!IMPLDEF && CVAL <= UMAX, g_e->u.constant.u == EXPVAL)) \
	CANARY(X, !(g_pfx == 0 && g_c[0] == '\\' && g_c[1] == '3' && g_c[2] == '7' && g_c[3] == '7' && g_sc))

static void
call(void)
{
	g_e = primaryexpr(0);
}

void
harness(void)
{
	IN(unsigned, in_pfx);
	IN(unsigned, in_blen);
	IN(bool, in_sc);
	IN(bool, in_wsigned);
	IN(u8, in_c0);
	IN(u8, in_c1);
	IN(u8, in_c2);
	IN(u8, in_c3);
	IN(u8, in_c4);
	IN(u8, in_c5);
	IN(u8, in_c6);
	IN(u8, in_c7);
	IN(u8, in_c8);
	IN(u8, in_c9);
	u8 in_c[10];
	char *lit, *p;
	unsigned i;

	in_c[0] = in_c0; in_c[1] = in_c1; in_c[2] = in_c2; in_c[3] = in_c3; in_c[4] = in_c4;
	in_c[5] = in_c5; in_c[6] = in_c6; in_c[7] = in_c7; in_c[8] = in_c8; in_c[9] = in_c9;
	__CPROVER_assume(in_pfx <= 3 && in_blen >= 1 && in_blen <= 10);
	lit = malloc((in_pfx ? 1 : 0) + 1 + in_blen + 2);
	__CPROVER_assume(lit != 0);
	p = lit;
	if (in_pfx)
		*p++ = in_pfx == 1 ? 'L' : in_pfx == 2 ? 'u' : 'U';
	*p++ = '\'';
	for (i = 0; i < 10; i++) {
		g_c[i] = i < in_blen ? in_c[i] : 0;
		if (i < in_blen)
			*p++ = in_c[i];
	}
	*p++ = '\'';
	*p = 0;
	tok.kind = TCHARCONST;
	tok.lit = lit;
	g_pfx = in_pfx;
	g_blen = in_blen;
	g_sc = in_sc;
	g_wsigned = in_wsigned;
	g_targ.typewchar = in_wsigned ? &typeint : &typeuint;
	g_targ.signedchar = in_sc;
	typechar.u.basic.issigned = in_sc;
	g_nextcalls = 0;
	g_e = 0;
	/* a constant whose value is in range must be accepted */
	g_no_error = !IMPLDEF && (!NUMERIC || CVAL <= UMAX);
	HCALL(PRE, POST, call());
}
