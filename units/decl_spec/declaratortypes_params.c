/* UNIT
{
 "id": "DECL.declaratortypes.params",
 "file": "decl.c", "function": "declaratortypes",
 "properties": {"C10": "contract", "C16": "contract", "C19": "safety"},
 "mode": "harness",
 "replace_calls": {"parameter": "stub_parameter"},
 "link_repo": ["type.c"],
 "variants": {"np0": ["-DV_NP=0", "-DV_VAR=0"], "np1": ["-DV_NP=1", "-DV_VAR=0"], "np1v": ["-DV_NP=1", "-DV_VAR=1"], "np2": ["-DV_NP=2", "-DV_VAR=0"], "np2v": ["-DV_NP=2", "-DV_VAR=1"], "np3": ["-DV_NP=3", "-DV_VAR=0"], "np3v": ["-DV_NP=3", "-DV_VAR=1"]}, "canary_variant": "np3v",
 "unwind": 6,
 "kind": "bounded",
 "bound": "one function declarator `f ( P0, P1, P2 [, ...] )` with 0..3 parameter declarations (each of type int or void, unnamed or named a/b, any qualifiers) and an optional trailing ellipsis; with or without a funcscope out-parameter",
 "timeout": 120, "replay": false,
 "assumes": ["next()/consume()/expect() are a token-script stand-in (PP units); attr()/gnuattr() see no attribute (ATTR units)",
             "parameter() (DECL.parameter) is replaced by a stub that consumes the one script token standing for a parameter declaration and yields a prepared declaration (next == NULL as DECL.parameter/DECL.mkdecl establish); mkscope/delscope/scopeputdecl (SCOPE.chain) are recorders; util.c listinsert re-stated in the unit (util.c defines fatal()); type.c is the real file",
             "`(...)` without a named parameter (C23) is outside the bound",
             "no duplicate parameter names and no misplaced void parameter (DECL.declaratortypes.dupparam / .voidparam, which fail on the pinned tree)",
             "no native replay: replaced callee is static"]
}
*/
/*
 * C10/C16, C11 6.7.6.3p9/p10/p14, 6.2.1p4: parameter count, order and variadic flag as written; `(void)` = no
 * parameters; named parameters are entered, in order, in a new prototype scope nested in the current one, which is closed
 * with the declarator unless it is handed to the caller for a function definition.  Exactly the declarator is consumed.
 */
#include "declaratortypes_params.h"
