/*
 * Shared by DECL.declaratortypes.chain / .arrzero: the real declarator() + declaratortypes() (recursion included) on
 *     [*] [ ( [* [const]] ] f [S1] [ ) ] [S2] [S3] ;
 * with each suffix S either `[ N ]` (assignexpr() stub consumes N and yields a constant length expression) or `( P )`
 * (parameter() stub consumes P and yields an int parameter).  The SHAPE (V_P0, V_PAREN, V_P1, V_Q1, V_N1, V_N2) is a
 * compile-time constant per variant so that script positions are constant; which suffix is an array and which a function
 * is symbolic (both are 3 tokens long).
 *
 * C11 6.7.6p4-5, 6.7.6.1p1, 6.7.6.2p3, 6.7.6.3p1...: in `T D`, suffixes [] and () of a direct declarator bind before the `*` to
 * their left, parentheses regroup: the derivations, read from the identifier outwards, are
 *     inner suffix, inner pointer, outer suffixes left to right, outer pointer       applied to T.
 * E.g. `int (*f[3])(void)`: f is an array[3] of pointer to function(void) returning int.
 * 6.7.6.1p1: the qualifiers after a `*` qualify THAT pointer; the specifier's qualifiers qualify the innermost base type.
 * 6.7.6.3p1 "A function declarator shall not specify a return type that is a function type or an array type."
 * 6.7.6.2p1 "The element type shall not be an incomplete or function type."  "If the expression is a constant expression,
 *           it shall have a value greater than zero."
 */
#define NTOK 20
#include "declspecs_common.h"

void
listinsert(struct list *list, struct list *new)
{
	new->next = list->next;
	new->prev = list;
	list->next->prev = new;
	list->next = new;
}
struct expr *eval(struct expr *e) { return e; }

#define NSUF 3
static struct expr e_len[NSUF]; static struct type t_len;
static struct decl d_par[NSUF];
static struct scope sc_outer, sc_proto[NSUF];
static unsigned g_nsuf;          /* suffixes parsed so far (source order) */
static bool g_sufarr[NSUF], g_suffn[NSUF];
static unsigned g_nmk, g_ndel;
struct expr *
assignexpr(struct scope *s)
{
	unsigned j = g_nsuf++;
	__CPROVER_assert(j < NSUF, "one length expression per array declarator");
	if (j < NSUF) g_sufarr[j] = true;
	next();
	return &e_len[j < NSUF ? j : 0];
}
struct decl *
stub_parameter(struct scope *s)
{
	unsigned j = g_nsuf++;
	__CPROVER_assert(j < NSUF, "one parameter per function declarator");
	if (j < NSUF) g_suffn[j] = true;
	next();
	return &d_par[j < NSUF ? j : 0];
}
struct scope *mkscope(struct scope *parent) { unsigned j = g_nmk++; return &sc_proto[j < NSUF ? j : 0]; }
struct scope *delscope(struct scope *s) { g_ndel++; return &sc_outer; }
void scopeputdecl(struct scope *s, struct decl *d) { }

enum { D_PTR = 1, D_ARR, D_FN };
static char n_f[] = "f";

void
harness(void)
{
	IN(bool, in_fn0); IN(bool, in_fn1); IN(bool, in_fn2); IN(unsigned, in_bq); IN(bool, in_z0); IN(bool, in_z1); IN(bool, in_z2);
	static struct scope *am_funcscope; static char *am_name;
	const unsigned nsuf = V_N1 + V_N2;
	bool isfn[NSUF] = {in_fn0, in_fn1, in_fn2};       /* suffix j (source order) is a function declarator, else an array declarator */
	/* lengths 3, 5, 7 tell the array derivations apart (64-bit size arithmetic on symbolic lengths is DECL.arrsize's business) */
	u64 len[NSUF] = {in_z0 ? 0 : 3, in_z1 ? 0 : 5, in_z2 ? 0 : 7};
	unsigned seq[6], slot[6], q[6], n = 0, k = 0, j, nfn = 0;
	bool wellformed = true, zerolen = false;
	struct qualtype base, r;
	struct type *cur;

	__CPROVER_assume((in_bq & ~(QUALCONST | QUALVOLATILE)) == 0);
	for (j = 0; j < NSUF; j++) {
#ifndef V_ARRZERO
		__CPROVER_assume(len[j] != 0);
#endif
		e_len[j].kind = EXPRCONST; e_len[j].type = &t_len; e_len[j].u.constant.u = len[j];
		d_par[j].type = &typeint; d_par[j].name = 0; d_par[j].kind = DECLOBJECT; d_par[j].next = 0;
		g_sufarr[j] = g_suffn[j] = false;
		if (j < nsuf && isfn[j]) nfn++;
		if (j < nsuf && !isfn[j] && len[j] == 0) zerolen = true;
	}
	t_len.kind = TYPEINT; t_len.prop = PROPSCALAR | PROPARITH | PROPREAL | PROPINT; t_len.size = t_len.align = 4; t_len.u.basic.issigned = true;

	/* ---- the script (constant positions) ---- */
#define TOK(kd) (s_kind[k] = (kd), s_lit[k] = 0, k++)
#define SUFFIX(j) do { TOK(isfn[j] ? TLPAREN : TLBRACK); TOK(isfn[j] ? TINT : TNUMBER); TOK(isfn[j] ? TRPAREN : TRBRACK); } while (0)
	if (V_P0) TOK(TMUL);
	if (V_PAREN) TOK(TLPAREN);
	if (V_P1) { TOK(TMUL); if (V_Q1) TOK(TCONST); }
	s_kind[k] = TIDENT; s_lit[k] = n_f; k++;
	if (V_N1) SUFFIX(0);
	if (V_PAREN) TOK(TRPAREN);
	if (V_N2 >= 1) SUFFIX(V_N1);
	if (V_N2 >= 2) SUFFIX(V_N1 + 1);
	TOK(TSEMICOLON);
	s_n = k; s_pos = 0; s_overrun = 0; g_nsuf = g_nmk = g_ndel = 0; am_funcscope = 0; am_name = 0;

	/* ---- the derivations, from the identifier outwards (6.7.6) ---- */
#define DER(kind, sl, qual) (seq[n] = (kind), slot[n] = (sl), q[n] = (qual), n++)
	if (V_N1) DER(isfn[0] ? D_FN : D_ARR, 0, 0);
	if (V_P1) DER(D_PTR, 0, V_Q1 ? QUALCONST : 0);
	if (V_N2 >= 1) DER(isfn[V_N1] ? D_FN : D_ARR, V_N1, 0);
	if (V_N2 >= 2) DER(isfn[V_N1 + 1] ? D_FN : D_ARR, V_N1 + 1, 0);
	if (V_P0) DER(D_PTR, 0, 0);
	for (j = 0; j + 1 < 6; j++)
		if (j + 1 < n) {
			if (seq[j] == D_ARR && seq[j + 1] == D_FN) wellformed = false;                          /* 6.7.6.2p1: array of functions */
			if (seq[j] == D_FN && (seq[j + 1] == D_FN || seq[j + 1] == D_ARR)) wellformed = false;  /* 6.7.6.3p1 */
		}
#ifdef V_ARRZERO
	g_no_error = 0;
#else
	g_no_error = wellformed;
#endif
	base.type = &typeint; base.qual = in_bq; base.expr = 0;

	next();
	r = declarator(&sc_outer, base, &am_name, &am_funcscope, false);

#ifdef V_ARRZERO
	__CPROVER_assert(!zerolen, "C11 6.7.6.2p1: a constant array length that is not greater than zero is diagnosed");
#else
	__CPROVER_assert(wellformed, "C11 6.7.6.3p1 / 6.7.6.2p1: a function returning a function or an array, and an array of functions, are diagnosed");
#endif
	__CPROVER_assume(wellformed && !zerolen);
	__CPROVER_assert(!s_overrun && s_pos == s_n && tok.kind == TSEMICOLON, "exactly the declarator is consumed");
	__CPROVER_assert(am_name == n_f, "declared identifier");
	__CPROVER_assert(g_nsuf == nsuf, "every suffix parsed once");
	for (j = 0; j < NSUF; j++)
		if (j < nsuf) __CPROVER_assert(g_suffn[j] == isfn[j] && g_sufarr[j] == !isfn[j], "suffixes parsed in source order, each as what it is");
	/* walk the derived type from the outside in */
	cur = r.type;
	__CPROVER_assert((unsigned)r.qual == (n ? q[0] : in_bq), "6.7.6.1p1: the declared entity is qualified by the qualifiers of its own outermost derivation (a plain identifier: by the specifiers')");
	for (j = 0; j < 6; j++)
		if (j < n) {
			__CPROVER_assert(cur != 0 && cur != &typeint, "a derived type");
			__CPROVER_assert(cur->kind == (seq[j] == D_PTR ? TYPEPOINTER : seq[j] == D_ARR ? TYPEARRAY : TYPEFUNC), "6.7.6p4-5: derivations in the order: inner suffix, inner pointer, outer suffixes left to right, outer pointer");
			if (seq[j] == D_ARR) {
				__CPROVER_assert(cur->u.array.length == &e_len[slot[j]], "the array derivation carries ITS length expression");
				__CPROVER_assert(!cur->incomplete, "an array with a length is complete");
			}
			if (seq[j] == D_FN) __CPROVER_assert(cur->u.func.params == &d_par[slot[j]] && cur->u.func.nparam == 1, "the function derivation carries ITS parameter list");
			__CPROVER_assert((unsigned)cur->qual == (j + 1 < n ? q[j + 1] : in_bq), "6.7.6.1p1: each derived type refers to its base type qualified as written there (pointer qualifiers; the specifiers' qualifiers on the innermost base)");
			cur = cur->base;
		}
	__CPROVER_assert(cur == &typeint, "the innermost base type is the one the specifiers name");
	/* size of T a[n][m]: element sizes multiply from the inside (DECL.arrsize proves the arithmetic) */
	if (n == 2 && seq[0] == D_ARR && seq[1] == D_ARR)
		__CPROVER_assert(r.type->size == 4 * len[slot[0]] * len[slot[1]] && r.type->base->size == 4 * len[slot[1]], "6.7.6.2p3 / 6.5.3.4p4: an array of arrays: the leftmost length is the outermost dimension");
	__CPROVER_assert((am_funcscope != 0) == (n > 0 && seq[0] == D_FN), "6.9.1p2: the prototype scope of the function declarator that declares the IDENTIFIER (and only that) is kept for a function body");
	__CPROVER_assert(g_nmk == nfn && g_ndel == nfn - (n > 0 && seq[0] == D_FN ? 1 : 0), "6.2.1p4: every other prototype scope ends with its declarator");
#ifdef VERIF_CANARY
	__CPROVER_assert(!(in_bq == QUALCONST && !in_fn0), "CANARY");
#endif
}
