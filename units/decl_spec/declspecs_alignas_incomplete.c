/* UNIT
{
 "id": "DECL.declspecs.alignas-incomplete",
 "file": "decl.c", "function": "declspecs",
 "also_functions": ["typequal", "storageclass", "funcspec"],
 "properties": {"C10": "contract", "C06": "contract", "C19": "safety"},
 "mode": "harness",
 "replace_calls": {"tagspec": "stub_tagspec", "typename": "stub_typename"},
 "link_repo": ["type.c"],
 "unwind": 13,
 "kind": "bounded",
 "bound": "as DECL.declspecs.alignas, type-name operands may also be incomplete types or function types",
 "timeout": 200, "replay": false,
 "assumes": ["next()/consume()/expect() are a token-script stand-in (PP units); attr()/gnuattr() see no attribute (ATTR units)",
             "typename() (DECL.typename) is replaced by a stub: the operand token is a type name with a given type object, or not a type name; intconstexpr() (expr.c, eval.c) by a stub yielding the value of the operand; tagspec() not reached",
             "no native replay: replaced callees are static"]
}
*/
/*
 * C10, C11 6.7.5p6 "_Alignas(type-name) is equivalent to _Alignas(_Alignof(type-name))" and 6.5.3.4p1 "The _Alignof
 * operator shall not be applied to a function type or an incomplete type": such an operand must be diagnosed.
 * FAILS on the pinned tree: declspecs() reads other->align of whatever type typename() returned (finding).
 */
#define V_INCOMPLETE 1
#include "declspecs_alignas.h"
