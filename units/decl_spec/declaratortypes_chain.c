/* UNIT
{
 "id": "DECL.declaratortypes.chain",
 "file": "decl.c", "function": "declarator",
 "also_functions": ["declaratortypes", "typequal"],
 "properties": {"C05": "contract", "C10": "contract", "C19": "safety"},
 "mode": "harness",
 "replace_calls": {"parameter": "stub_parameter"},
 "link_repo": ["type.c"],
 "variants": {"f": ["-DV_P0=0", "-DV_PAREN=0", "-DV_P1=0", "-DV_Q1=0", "-DV_N1=0", "-DV_N2=0"], "pf_S": ["-DV_P0=1", "-DV_PAREN=0", "-DV_P1=0", "-DV_Q1=0", "-DV_N1=0", "-DV_N2=1"], "f_SS": ["-DV_P0=0", "-DV_PAREN=0", "-DV_P1=0", "-DV_Q1=0", "-DV_N1=0", "-DV_N2=2"], "pf_SS": ["-DV_P0=1", "-DV_PAREN=0", "-DV_P1=0", "-DV_Q1=0", "-DV_N1=0", "-DV_N2=2"], "LpfR_S": ["-DV_P0=0", "-DV_PAREN=1", "-DV_P1=1", "-DV_Q1=0", "-DV_N1=0", "-DV_N2=1"], "LpfSR_S": ["-DV_P0=0", "-DV_PAREN=1", "-DV_P1=1", "-DV_Q1=0", "-DV_N1=1", "-DV_N2=1"], "pLpfSR_S": ["-DV_P0=1", "-DV_PAREN=1", "-DV_P1=1", "-DV_Q1=0", "-DV_N1=1", "-DV_N2=1"], "LfSR_S": ["-DV_P0=0", "-DV_PAREN=1", "-DV_P1=0", "-DV_Q1=0", "-DV_N1=1", "-DV_N2=1"], "LpfSR_SS": ["-DV_P0=0", "-DV_PAREN=1", "-DV_P1=1", "-DV_Q1=0", "-DV_N1=1", "-DV_N2=2"], "LpfR_SS": ["-DV_P0=0", "-DV_PAREN=1", "-DV_P1=1", "-DV_Q1=0", "-DV_N1=0", "-DV_N2=2"], "LfR_S": ["-DV_P0=0", "-DV_PAREN=1", "-DV_P1=0", "-DV_Q1=0", "-DV_N1=0", "-DV_N2=1"], "pLpcfR": ["-DV_P0=1", "-DV_PAREN=1", "-DV_P1=1", "-DV_Q1=1", "-DV_N1=0", "-DV_N2=0"], "LpcfSR_S": ["-DV_P0=0", "-DV_PAREN=1", "-DV_P1=1", "-DV_Q1=1", "-DV_N1=1", "-DV_N2=1"]}, "canary_variant": "LpcfSR_S",
 "unwind": 3, "unwindset": ["declarator.0:6", "declaratortypes.4:5", "harness.0:4", "harness.4:6", "harness.5:4", "harness.6:7"],
 "kind": "bounded",
 "bound": "13 declarator shapes with 0..3 suffixes (each an array `[N]`, N = 3, 5, 7 by position, or a function `(P)`), optional pointer prefix outside/inside one level of parentheses, base type int with any of const/volatile",
 "timeout": 120, "replay": false,
 "assumes": ["next()/consume()/expect()/peek() are a token-script stand-in (PP units); attr()/gnuattr() see no attribute (ATTR units)",
             "parameter() (DECL.parameter) is replaced by a stub that consumes the one script token of `( P )` and yields an unnamed int parameter; assignexpr() (expr.c) by a stub that consumes the length token and yields a constant expression of type int; eval() is the identity on it (EVAL units); mkscope/delscope/scopeputdecl (SCOPE.chain) are recorders; util.c listinsert re-stated (util.c defines fatal()); type.c is the real file",
             "shape variants listed in the header: f, *f S, f S S, *f S S, (*f) S, (*f S) S, *(*f S) S, (f S) S, (*f S) S S, (*f) S S, (f) S, *(*const f), (*const f S) S  with every S symbolically `[N]` or `(P)`",
             "array lengths are the constants 3, 5, 7 (zero: DECL.declaratortypes.arrzero, which fails on the pinned tree; arithmetic: DECL.arrsize)",
             "no native replay: replaced callee is static"]
}
*/
/*
 * C05/C10, C11 6.7.6: order of derivation for pointer prefix / parenthesised declarator / array and function suffixes
 * (e.g. `int (*f[3])(void)` = array[3] of pointer to function(void) returning int), qualifier placement (6.7.6.1p1),
 * function returning function/array and array of functions diagnosed (6.7.6.3p1, 6.7.6.2p1), everything else accepted,
 * exactly the declarator consumed, the function-definition scope (6.9.1) kept only for the declarator of the identifier.
 */
#include "declaratortypes_chain.h"
