/* UNIT
{
 "id": "DECL.parameter",
 "file": "decl.c", "function": "parameter",
 "also_functions": ["mkdecl"],
 "properties": {"C10": "contract", "C05": "contract", "C19": "safety"},
 "mode": "harness",
 "replace_calls": {"declspecs": "stub_declspecs", "declarator": "stub_declarator"},
 "kind": "proof",
 "timeout": 100, "replay": false,
 "assumes": ["declspecs() (DECL.declspecs.*: yields type, qualifiers and the storage-class set, diagnoses function/alignment specifiers when the out-parameter is NULL) and declarator() (DECL.declaratortypes.*, DECL.arrsize) are replaced by stubs that record their arguments and yield ghost results; typeadjust() (TYPE.adjust: array -> pointer, function -> pointer to function) is a recording stub yielding a ghost type and qualifier set; attr() sees no attribute",
             "the storage-class set declspecs() reports is one DECL.storageclass can produce (at most one specifier, or _Thread_local with static/extern)",
             "no native replay: replaced callees are static"]
}
*/
/*
 * C10/C05, C11 6.7.6.3:  parameter-declaration: declaration-specifiers declarator | declaration-specifiers abstract-declarator(opt)
 *   p2  "The only storage-class specifier that shall occur in a parameter declaration is register."
 *   6.7.4p1/6.7.5p2: no function specifier, no alignment specifier in a parameter declaration.
 *   6.7.2p2: at least one type specifier.
 *   p7/p8: the declared type is ADJUSTED (array -> pointer, function -> pointer to function): the parameter has the adjusted
 *          type and the adjusted qualifiers.
 *   6.2.2p6: a function parameter has no linkage; 6.2.4p5: automatic storage duration.
 */
#include "declspecs_common.h"

static struct type t_spec, t_decl, t_adj;
static bool g_hastype; static int g_sc, g_specqual, g_declqual, g_adjqual;
static unsigned g_nds, g_ndr, g_nadj;
static bool g_ds_ok, g_dr_ok, g_adj_ok, g_hasname;
struct qualtype
stub_declspecs(struct scope *s, enum storageclass *sc, enum funcspec *fs, int *align)
{
	struct qualtype q = {g_hastype ? &t_spec : 0, g_specqual, 0};
	g_nds++;
	g_ds_ok = sc != 0 && fs == 0 && align == 0;
	if (sc) *sc = g_sc;
	return q;
}
struct qualtype
stub_declarator(struct scope *s, struct qualtype base, char **name, struct scope **funcscope, bool allowabstract)
{
	struct qualtype q = {&t_decl, g_declqual, 0};
	g_ndr++;
	g_dr_ok = base.type == &t_spec && (int)base.qual == g_specqual && name != 0 && funcscope == 0 && allowabstract;
	if (name) *name = g_hasname ? n_x : (char *)0;
	return q;
}
struct type *
typeadjust(struct type *t, enum typequal *tq)
{
	g_nadj++;
	g_adj_ok = t == &t_decl && tq != 0 && (int)*tq == g_declqual;
	if (tq) *tq = g_adjqual;
	return &t_adj;
}

#define SETOK(set) ((set) == SCNONE || (set) == SCTYPEDEF || (set) == SCEXTERN || (set) == SCSTATIC || (set) == SCAUTO || (set) == SCREGISTER || \
                    (set) == SCTHREADLOCAL || (set) == (SCTHREADLOCAL | SCSTATIC) || (set) == (SCTHREADLOCAL | SCEXTERN))

void
harness(void)
{
	IN(bool, in_hastype); IN(int, in_sc); IN(int, in_specqual); IN(int, in_declqual); IN(int, in_adjqual); IN(bool, in_hasname); IN(int, in_adjalign);
	static struct scope sc0;
	struct decl *d;
	bool wellformed;

	__CPROVER_assume(SETOK(in_sc));
	__CPROVER_assume((in_specqual & ~7) == 0 && (in_declqual & ~7) == 0 && (in_adjqual & ~7) == 0);
	g_hastype = in_hastype; g_sc = in_sc; g_specqual = in_specqual; g_declqual = in_declqual; g_adjqual = in_adjqual; g_hasname = in_hasname;
	t_adj.align = in_adjalign; t_decl.align = 1; t_spec.align = 2;
	g_nds = g_ndr = g_nadj = 0; g_ds_ok = g_dr_ok = g_adj_ok = false;
	wellformed = in_hastype && (in_sc == SCNONE || in_sc == SCREGISTER);
	g_no_error = wellformed;

	d = parameter(&sc0);

	__CPROVER_assert(wellformed, "C11 6.7.6.3p2 / 6.7.2p2: a parameter declaration with a storage class other than register, or without type specifier, is diagnosed");
	__CPROVER_assume(wellformed);
	__CPROVER_assert(g_nds == 1 && g_ds_ok, "6.7.6.3p2, 6.7.4p1, 6.7.5p2: storage class reported for checking; function and alignment specifiers not admitted");
	__CPROVER_assert(g_ndr == 1 && g_dr_ok, "6.7.6.3p1: a declarator or an abstract declarator (name optional) applied to the specified type");
	__CPROVER_assert(g_nadj == 1 && g_adj_ok, "6.7.6.3p7-8: the declared type and its qualifiers are adjusted, once");
	__CPROVER_assert(d != 0 && d->type == &t_adj && (int)d->qual == in_adjqual, "6.7.6.3p7-8: the parameter has the ADJUSTED type and qualifiers");
	__CPROVER_assert(d->name == (in_hasname ? n_x : (char *)0), "declared name (none for an abstract declarator)");
	__CPROVER_assert(d->kind == DECLOBJECT && d->linkage == LINKNONE, "6.2.2p6: a parameter is an object without linkage");
	__CPROVER_assert(d->u.obj.storage == SDAUTO, "6.2.4p5: automatic storage duration");
	__CPROVER_assert(d->u.obj.align == in_adjalign, "aligned as its (adjusted) type requires");
	__CPROVER_assert(d->next == 0 && !d->defined && !d->tentative && d->value == 0 && d->asmname == 0, "a fresh declaration: not linked into a list, not defined, no value");
#ifdef VERIF_CANARY
	__CPROVER_assert(!(in_sc == SCREGISTER && in_hasname && in_adjqual == QUALCONST), "CANARY");
#endif
}
