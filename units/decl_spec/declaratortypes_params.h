/*
 * Shared by DECL.declaratortypes.params / .voidparam / .dupparam: the real declaratortypes() on a function declarator
 *     f ( [P0 [, P1 [, P2]]] [, ...] ) ;
 * where each Pj is ONE script token standing for a whole parameter-declaration: parameter() (DECL.parameter) is
 * replaced by a stub that consumes it and yields a prepared declaration (type int or void, name none/"a"/"b",
 * qualifiers).  mkscope/delscope/scopeputdecl (SCOPE.chain) are recorders; mktype is the real one (type.c linked).
 *
 * C11 6.7.6.3:
 *   p10 "The special case of an unnamed parameter of type void as the only item in the list specifies that the function
 *        has no parameters."
 *   p9  "If the list terminates with an ellipsis (, ...), no information about the number or types of the parameters after
 *        the comma is supplied."   p14: an empty list `()` supplies no parameter information.
 *   p4/p10: a parameter of type void other than in that special case (void among several parameters, void before `, ...`,
 *        QUALIFIED void as the only item) is not the special case and has incomplete type: not a valid parameter
 *        (gcc/clang: "'void' must be the only parameter", "'void' as only parameter may not be qualified").
 *   6.7p3 "If an identifier has no linkage, there shall be no more than one declaration of the identifier (in a declarator
 *        or type specifier) with the same scope and in the same name space": two parameters of one list with the same name
 *        are a constraint violation (6.2.1p4: both have function prototype scope).
 *   6.2.1p4: parameter names have function prototype scope: they are entered in a NEW scope nested in the current one,
 *        which ends with the declarator unless the declarator is that of a function definition (kept for the body).
 */
#define NTOK 12
#define OWN_SCOPE 1
#include "declspecs_common.h"

void
listinsert(struct list *list, struct list *new)
{
	new->next = list->next;
	new->prev = list;
	list->next->prev = new;
	list->next = new;
}

#define NP 3
static struct type t_void, t_int;
static struct decl d_p[NP];
static char n_a[] = "a", n_b[] = "b", n_f[] = "f";
static unsigned g_nparam_calls;
static struct scope sc_outer, sc_proto, *g_param_scope_ok;
static bool g_param_scope_bad;
struct decl *
stub_parameter(struct scope *s)
{
	unsigned j = g_nparam_calls++;
	__CPROVER_assert(j < NP, "one parameter() call per parameter declaration");
	if (s != &sc_proto) g_param_scope_bad = true;
	next();
	return &d_p[j < NP ? j : 0];
}
static unsigned g_nmk, g_ndel, g_nput; static struct scope *g_mkparent, *g_delarg;
static struct decl *g_put[NP]; static bool g_put_scope_bad;
struct scope *mkscope(struct scope *parent) { g_nmk++; g_mkparent = parent; sc_proto.parent = parent; return &sc_proto; }
struct scope *delscope(struct scope *s) { g_ndel++; g_delarg = s; return s->parent; }
void
scopeputdecl(struct scope *s, struct decl *d)
{
	if (s != &sc_proto) g_put_scope_bad = true;
	if (g_nput < NP) g_put[g_nput] = d;
	g_nput++;
}
/* the prototype scope holds what was put into it; nothing else is visible non-recursively */
struct decl *
scopegetdecl(struct scope *s, const char *name, bool recurse)
{
	unsigned i;
	if (s == &sc_proto)
		for (i = 0; i < NP; i++)
			if (i < g_nput && g_put[i]->name == name)
				return g_put[i];
	return 0;
}
struct expr *assignexpr(struct scope *s) { __CPROVER_assert(0, "assignexpr() not reached"); return 0; }

void
harness(void)
{
	const unsigned in_np = V_NP; const bool in_var = V_VAR;     /* list shape: one CBMC run per shape (constant script positions) */
	IN(bool, in_hasfuncscope);
	IN(bool, in_void0); IN(bool, in_void1); IN(bool, in_void2); IN(unsigned, in_nm0); IN(unsigned, in_nm1); IN(unsigned, in_nm2);
	IN(unsigned, in_q0); IN(unsigned, in_q1); IN(unsigned, in_q2);
	struct list result = {&result, &result};
	static struct scope *am_funcscope; static char *am_name;
	struct scope **funcscope = in_hasfuncscope ? &am_funcscope : 0;
	bool isvoid[NP] = {in_void0, in_void1, in_void2};
	unsigned nm[NP] = {in_nm0, in_nm1, in_nm2}, pq[NP] = {in_q0, in_q1, in_q2}, j, k, nnamed = 0;
	bool sole_void, voidbad, dup, anyvoid = false, wellformed;
	struct type *t;

	for (j = 0; j < NP; j++) {
		__CPROVER_assume(nm[j] <= 2 && (pq[j] & ~7u) == 0);
		d_p[j].type = isvoid[j] ? &t_void : &t_int; d_p[j].name = nm[j] == 1 ? n_a : nm[j] == 2 ? n_b : (char *)0;
		d_p[j].qual = pq[j]; d_p[j].kind = DECLOBJECT; d_p[j].next = 0;
		if (j < in_np && isvoid[j]) anyvoid = true;
		if (j < in_np && nm[j]) nnamed++;
	}
	t_void.kind = TYPEVOID; t_void.incomplete = true; t_int.kind = TYPEINT; t_int.size = t_int.align = 4;

	s_kind[0] = TIDENT; s_lit[0] = n_f; s_kind[1] = TLPAREN;
	k = 2;
	for (j = 0; j < NP; j++)
		if (j < in_np) {
			if (j > 0) s_kind[k++] = TCOMMA;
			s_kind[k++] = TINT;
		}
	if (in_var) { s_kind[k++] = TCOMMA; s_kind[k++] = TELLIPSIS; }
	s_kind[k++] = TRPAREN; s_kind[k++] = TSEMICOLON;
	s_n = k; s_pos = 0; s_overrun = 0;
	g_nparam_calls = g_nmk = g_ndel = g_nput = 0; g_param_scope_bad = g_put_scope_bad = false; am_funcscope = 0; am_name = 0;

	sole_void = in_np == 1 && !in_var && in_void0 && in_nm0 == 0 && in_q0 == 0;
	voidbad = (in_np + (in_var ? 1 : 0) >= 2 && anyvoid) || (in_np == 1 && !in_var && in_void0 && in_nm0 == 0 && in_q0 != 0);
	dup = (in_np >= 2 && nm[0] != 0 && nm[0] == nm[1]) || (in_np >= 3 && nm[2] != 0 && (nm[2] == nm[0] || nm[2] == nm[1]));
	/* `void f(void x);` (NAMED sole void parameter): a constraint violation only in a function definition (6.7.6.3p4); left open here */
	__CPROVER_assume(!(in_np == 1 && !in_var && in_void0 && in_nm0 != 0));
#if defined(V_VOIDPARAM)
	__CPROVER_assume(!dup);
#elif defined(V_DUPPARAM)
	__CPROVER_assume(!voidbad);
#else
	__CPROVER_assume(!dup && !voidbad);
#endif
	wellformed = !dup && !voidbad;
	g_no_error = wellformed;

	next();
	declaratortypes(&sc_outer, &result, &am_name, funcscope, false);

#if defined(V_VOIDPARAM)
	__CPROVER_assert(!voidbad, "C11 6.7.6.3p10/p4: a parameter of type void that is not the only, unnamed, unqualified item of the list is diagnosed");
#elif defined(V_DUPPARAM)
	__CPROVER_assert(!dup, "C11 6.7p3: two parameters of one parameter list with the same name are diagnosed");
#endif
	__CPROVER_assume(wellformed);
	__CPROVER_assert(!s_overrun && s_pos == s_n && tok.kind == TSEMICOLON, "the declarator is consumed up to and including `)`, nothing more");
	__CPROVER_assert(am_name == n_f, "declared identifier");
	__CPROVER_assert(result.next != &result && result.next->next == &result && result.prev == result.next, "exactly one derivation: the function declarator");
	t = listelement(result.next, struct type, link);
	__CPROVER_assert(t->kind == TYPEFUNC, "a function type");
	__CPROVER_assert(g_nparam_calls == in_np && !g_param_scope_bad, "every parameter declaration parsed once, in the prototype scope");
	__CPROVER_assert(t->u.func.isvararg == in_var, "6.7.6.3p9: variadic iff the list ends in `, ...`");
	if (sole_void) {
		__CPROVER_assert(t->u.func.nparam == 0 && t->u.func.params == 0, "6.7.6.3p10: (void) = no parameters");
	} else {
		__CPROVER_assert(t->u.func.nparam == in_np, "parameter count");
		__CPROVER_assert(t->u.func.params == (in_np >= 1 ? &d_p[0] : (struct decl *)0), "first parameter");
		if (in_np >= 1) __CPROVER_assert(d_p[0].next == (in_np >= 2 ? &d_p[1] : (struct decl *)0), "parameters chained in source order (1)");
		if (in_np >= 2) __CPROVER_assert(d_p[1].next == (in_np >= 3 ? &d_p[2] : (struct decl *)0), "parameters chained in source order (2)");
		if (in_np >= 3) __CPROVER_assert(d_p[2].next == 0, "parameter chain terminated");
	}
	/* 6.2.1p4: prototype scope */
	__CPROVER_assert(g_nmk == 1 && g_mkparent == &sc_outer, "one new scope, nested in the current one");
	__CPROVER_assert(g_nput == nnamed && !g_put_scope_bad, "each NAMED parameter is entered once, in the prototype scope");
	for (j = 0, k = 0; j < NP; j++)
		if (j < in_np && nm[j]) {
			__CPROVER_assert(k < NP && g_put[k] == &d_p[j], "named parameters entered in source order");
			k++;
		}
	if (in_hasfuncscope)
		__CPROVER_assert(am_funcscope == &sc_proto && g_ndel == 0, "the scope of the function declarator that declares the identifier is handed to the caller (function definition), not closed");
	else
		__CPROVER_assert(g_ndel == 1 && g_delarg == &sc_proto, "6.2.1p4: the prototype scope ends with the declarator");
#if defined(VERIF_CANARY)
	__CPROVER_assert(!(in_np == 3 && in_var && in_nm0 == 1 && in_nm1 == 0 && in_nm2 == 2 && in_hasfuncscope), "CANARY");
#endif
}
