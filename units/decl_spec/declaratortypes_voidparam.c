/* UNIT
{
 "id": "DECL.declaratortypes.voidparam",
 "file": "decl.c", "function": "declaratortypes",
 "properties": {"C10": "contract", "C16": "contract", "C19": "safety"},
 "mode": "harness",
 "replace_calls": {"parameter": "stub_parameter"},
 "link_repo": ["type.c"],
 "variants": {"np1": ["-DV_NP=1", "-DV_VAR=0"], "np1v": ["-DV_NP=1", "-DV_VAR=1"], "np2": ["-DV_NP=2", "-DV_VAR=0"], "np3v": ["-DV_NP=3", "-DV_VAR=1"]}, "canary_variant": "np3v",
 "unwind": 6,
 "kind": "bounded",
 "bound": "one function declarator `f ( P0, P1, P2 [, ...] )` with 0..3 parameter declarations (each of type int or void, unnamed or named a/b, any qualifiers) and an optional trailing ellipsis; with or without a funcscope out-parameter",
 "timeout": 120, "replay": false,
 "assumes": ["next()/consume()/expect() are a token-script stand-in (PP units); attr()/gnuattr() see no attribute (ATTR units)",
             "parameter() (DECL.parameter) is replaced by a stub that consumes the one script token standing for a parameter declaration and yields a prepared declaration (next == NULL as DECL.parameter/DECL.mkdecl establish); mkscope/delscope/scopeputdecl (SCOPE.chain) are recorders; util.c listinsert re-stated in the unit (util.c defines fatal()); type.c is the real file",
             "`(...)` without a named parameter (C23) is outside the bound",
             "no native replay: replaced callee is static"]
}
*/
/*
 * C10, C11 6.7.6.3p10 (with p4): `void` is a valid parameter only as the sole, unnamed, unqualified item of the list.
 * FAILS on the pinned tree: `void f(void, int);`, `void f(int, void);`, `void f(void, ...);`, `void f(const void);` are
 * accepted (the last one as a function WITHOUT parameters); `void f(void x){}` ends in a failed internal assertion (finding).
 */
#define V_VOIDPARAM 1
#include "declaratortypes_params.h"
