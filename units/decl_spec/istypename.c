/* UNIT
{
 "id": "DECL.typename.isname",
 "file": "decl.c", "function": "istypename",
 "properties": {"C16": "contract", "C19": "safety"},
 "mode": "harness",
 "kind": "proof",
 "timeout": 100, "replay": false,
 "assumes": ["scopegetdecl() (SCOPE.chain: innermost visible declaration of the name, searching enclosing scopes iff asked to) is replaced by a stub that records its arguments and yields a ghost declaration or none",
             "no native replay: the function is static"]
}
*/
/*
 * C16, C11 6.7.8p3 / 6.2.1p4: an identifier is a typedef name iff the innermost VISIBLE declaration of it in the ordinary
 * name space (so: looked up through the enclosing scopes) declares a typedef; an inner object/function/enumerator
 * declaration of the same name hides the typedef.
 */
#define OWN_SCOPE 1
#include "declspecs_common.h"

static struct decl g_d; static bool g_found; static bool g_recurse; static const char *g_name; static struct scope *g_s; static unsigned g_n;
struct decl *
scopegetdecl(struct scope *s, const char *name, bool recurse)
{
	g_n++; g_s = s; g_name = name; g_recurse = recurse;
	return g_found ? &g_d : 0;
}

void
harness(void)
{
	IN(bool, in_found); IN(int, in_kind);
	static struct scope sc0;
	bool r;

	__CPROVER_assume(in_kind == DECLTYPE || in_kind == DECLOBJECT || in_kind == DECLFUNC || in_kind == DECLCONST || in_kind == DECLBUILTIN);
	g_found = in_found; g_d.kind = in_kind; g_n = 0;
	g_no_error = 1;
	r = istypename(&sc0, n_T);
	__CPROVER_assert(g_n == 1 && g_s == &sc0 && g_name == n_T && g_recurse, "6.2.1p4: the name is looked up once, in the given scope AND its enclosing scopes");
	__CPROVER_assert(r == (in_found && in_kind == DECLTYPE), "6.7.8p3: a typedef name iff the visible declaration is a typedef (an inner non-typedef declaration hides it; undeclared: no)");
#ifdef VERIF_CANARY
	__CPROVER_assert(!(in_found && in_kind == DECLTYPE), "CANARY");
#endif
}
