/* UNIT
{
 "id": "DECL.declspecs.multiset",
 "file": "decl.c", "function": "declspecs",
 "also_functions": ["typequal", "storageclass", "funcspec"],
 "properties": {"C05": "contract", "C10": "contract", "C16": "contract", "C19": "safety"},
 "mode": "harness",
 "replace_calls": {"tagspec": "stub_tagspec", "typename": "stub_typename"},
 "link_repo": ["type.c"],
 "unwind": 6,
 "tiers": {"thorough": {"cflags": ["-DNS=5"], "unwind": 7, "timeout": 900, "bound": "as quick, 0..5 tokens"}},
 "kind": "bounded",
 "bound": "declaration specifiers of 0..4 tokens (thorough tier: 0..5), each drawn from {void char short int long float double signed unsigned _Bool _Complex, a struct/union/enum specifier (one script token), the typedef name T, the object name x, const volatile restrict, static extern typedef register _Thread_local, inline _Noreturn}, followed by one non-specifier token; all four calling contexts (storage class allowed or not x function specifier allowed or not)",
 "timeout": 300, "replay": false,
 "assumes": ["next()/consume()/expect() are a token-script stand-in (PP.* units); attr()/gnuattr() see no attribute (ATTR.*)",
             "tagspec() (DECL.tagspec.*) is replaced by a stub that consumes the one script token standing for the whole struct/union/enum specifier and yields a type; scopegetdecl() (SCOPE.chain) answers: T is a typedef name, x an object",
             "typename()/intconstexpr()/expr() are not reached: the script has no _Alignas/typeof (DECL.declspecs.alignas)",
             "type.c is the real file: the basic type objects are the real ones"]
}
*/
/*
 * C05/C10, C11 6.7.2p2: the type specifiers of a declaration form one of the listed multisets, in ANY order and
 * intermixed with the other specifiers, and name the listed type; every other multiset is diagnosed; with any specifier
 * present at least one type specifier is required.  6.2.5p15: char, signed char, unsigned char distinct.
 * C10: _Complex is documented as unsupported: diagnosed, never accepted.
 * C10, 6.7.1p2 (one storage class, _Thread_local with static/extern), 6.7.3p5 (repeated qualifiers are harmless and
 * accumulate; qualifiers of a typedef name are added), 6.7.4 (function specifiers accumulate).
 * C16, 6.7.8p3 / 6.7.2p2: an identifier that is a typedef name is a type specifier only if no type specifier has been seen yet:
 * in `typedef int T; unsigned T;` the second T is the declarator.  An identifier that is not a typedef name ends the
 * specifiers.  Exactly the specifier tokens are consumed.
 */
#include "declspecs_common.h"
#include "c_declspec.h"
#include "linkage.h"

enum { K_VOID, K_CHAR, K_SHORT, K_INT, K_LONG, K_FLOAT, K_DOUBLE, K_SIGNED, K_UNSIGNED, K_BOOL, K_COMPLEX, K_TAG, K_TDNAME, K_OBJNAME,
       K_CONST, K_VOLATILE, K_RESTRICT, K_STATIC, K_EXTERN, K_TYPEDEF, K_REGISTER, K_TLS, K_INLINE, K_NORETURN, K_N };

static enum tokenkind
kkind(unsigned c)
{
	switch (c) {
	case K_VOID: return TVOID; case K_CHAR: return TCHAR; case K_SHORT: return TSHORT; case K_INT: return TINT; case K_LONG: return TLONG;
	case K_FLOAT: return TFLOAT; case K_DOUBLE: return TDOUBLE; case K_SIGNED: return TSIGNED; case K_UNSIGNED: return TUNSIGNED;
	case K_BOOL: return TBOOL; case K_COMPLEX: return T_COMPLEX; case K_TAG: return TSTRUCT; case K_TDNAME: case K_OBJNAME: return TIDENT;
	case K_CONST: return TCONST; case K_VOLATILE: return TVOLATILE; case K_RESTRICT: return TRESTRICT;
	case K_STATIC: return TSTATIC; case K_EXTERN: return TEXTERN; case K_TYPEDEF: return TTYPEDEF; case K_REGISTER: return TREGISTER;
	case K_TLS: return TTHREAD_LOCAL; case K_INLINE: return TINLINE; default: return T_NORETURN;
	}
}

static struct type t_tag;
static unsigned g_ntag;
struct type *stub_tagspec(struct scope *s) { g_ntag++; next(); return &t_tag; }
struct type *stub_typename(struct scope *s, enum typequal *tq, struct expr **toeval) { __CPROVER_assert(0, "typename() not reached: no _Alignas/typeof in the script"); return 0; }
unsigned long long intconstexpr(struct scope *s, bool allowneg) { __CPROVER_assert(0, "intconstexpr() not reached"); return 0; }
struct expr *expr(struct scope *s) { __CPROVER_assert(0, "expr() not reached"); return 0; }

static struct type *
ts_type(int id)
{
	switch (id) {
	case SPEC_TS_VOID: return &typevoid; case SPEC_TS_CHAR: return &typechar; case SPEC_TS_SCHAR: return &typeschar; case SPEC_TS_UCHAR: return &typeuchar;
	case SPEC_TS_SHORT: return &typeshort; case SPEC_TS_USHORT: return &typeushort; case SPEC_TS_INT: return &typeint; case SPEC_TS_UINT: return &typeuint;
	case SPEC_TS_LONG: return &typelong; case SPEC_TS_ULONG: return &typeulong; case SPEC_TS_LLONG: return &typellong; case SPEC_TS_ULLONG: return &typeullong;
	case SPEC_TS_FLOAT: return &typefloat; case SPEC_TS_DOUBLE: return &typedouble; case SPEC_TS_LDOUBLE: return &typeldouble; case SPEC_TS_BOOL: return &typebool;
	default: return 0;
	}
}

#ifndef NS
#define NS 4
#endif

void
harness(void)
{
	IN(unsigned, in_n); IN(unsigned, in_k0); IN(unsigned, in_k1); IN(unsigned, in_k2); IN(unsigned, in_k3); IN(unsigned, in_k4);
	IN(bool, in_hassc); IN(bool, in_hasfs); IN(unsigned, in_tdqual); IN(bool, in_endstar);
	static struct scope sc0;
	static enum storageclass am_sc; static enum funcspec am_fs;
	enum storageclass *sc = in_hassc ? &am_sc : 0;
	enum funcspec *fs = in_hasfs ? &am_fs : 0;
	unsigned kk[5] = {in_k0, in_k1, in_k2, in_k3, in_k4}, k[NS], i;
	struct spec_tscount n = {0};
	unsigned nspec = 0, ntypespec = 0, nsc = 0, nfs = 0, n_td = 0, n_ext = 0, n_st = 0, n_tl = 0, n_reg = 0;
	unsigned q = 0, fsset = 0, scset = 0;
	bool ended = false, tdname = false, tag = false, wellformed;
	int id;
	struct qualtype r;

	__CPROVER_assume(in_n <= NS && in_k0 < K_N && in_k1 < K_N && in_k2 < K_N && in_k3 < K_N && in_k4 < K_N);
	__CPROVER_assume((in_tdqual & ~(QUALCONST | QUALVOLATILE)) == 0);

	for (i = 0; i < NS; i++) k[i] = kk[i];
	/* the script: in_n candidate tokens, then a token that cannot be a declaration specifier */
	for (i = 0; i < NS; i++) {
		s_kind[i] = kkind(k[i]);
		s_lit[i] = k[i] == K_TDNAME ? n_T : k[i] == K_OBJNAME ? n_x : (char *)0;
	}
	for (i = 0; i <= NS; i++)
		if (i == in_n) { s_kind[i] = in_endstar ? TMUL : TSEMICOLON; s_lit[i] = 0; }
	s_n = in_n + 1; s_pos = 0; s_overrun = 0;
	d_td.kind = DECLTYPE; d_td.type = &t_td; d_td.qual = in_tdqual; d_x.kind = DECLOBJECT; d_x.type = &typeint;
	t_td.kind = TYPEINT; t_tag.kind = TYPESTRUCT; g_ntag = 0;

	/* what C11 says about this token sequence (one pass over the script, in order) */
	for (i = 0; i < NS; i++) {
		if (i < in_n && !ended) {
			switch (k[i]) {
			case K_VOID: n.n_void++; ntypespec++; break;
			case K_CHAR: n.n_char++; ntypespec++; break;
			case K_SHORT: n.n_short++; ntypespec++; break;
			case K_INT: n.n_int++; ntypespec++; break;
			case K_LONG: n.n_long++; ntypespec++; break;
			case K_FLOAT: n.n_float++; ntypespec++; break;
			case K_DOUBLE: n.n_double++; ntypespec++; break;
			case K_SIGNED: n.n_signed++; ntypespec++; break;
			case K_UNSIGNED: n.n_unsigned++; ntypespec++; break;
			case K_BOOL: n.n_bool++; ntypespec++; break;
			case K_COMPLEX: n.n_complex++; ntypespec++; break;
			case K_TAG: n.n_other++; ntypespec++; tag = true; break;
			case K_TDNAME:
				/* 6.7.8p3, 6.7.2p2: a typedef name is a type specifier only where a type specifier is still possible */
				if (ntypespec) ended = true; else { n.n_other++; ntypespec++; tdname = true; q |= in_tdqual; }
				break;
			case K_OBJNAME: ended = true; break;
			case K_CONST: q |= QUALCONST; break;
			case K_VOLATILE: q |= QUALVOLATILE; break;
			case K_RESTRICT: q |= QUALRESTRICT; break;
			case K_STATIC: n_st++; nsc++; scset |= SCSTATIC; break;
			case K_EXTERN: n_ext++; nsc++; scset |= SCEXTERN; break;
			case K_TYPEDEF: n_td++; nsc++; scset |= SCTYPEDEF; break;
			case K_REGISTER: n_reg++; nsc++; scset |= SCREGISTER; break;
			case K_TLS: n_tl++; nsc++; scset |= SCTHREADLOCAL; break;
			case K_INLINE: nfs++; fsset |= FUNCINLINE; break;
			default: nfs++; fsset |= FUNCNORETURN; break;
			}
			if (!ended) nspec++;
		}
	}
	id = spec_typespec(&n);
	wellformed = id != SPEC_TS_INVALID                                 /* 6.7.2p2: one of the listed multisets */
	          && n.n_complex == 0                                      /* _Complex: unsupported, must be diagnosed */
	          && (nspec == 0 || ntypespec >= 1)                        /* 6.7.2p2: at least one type specifier */
	          && spec_storageclass_legal(n_td, n_ext, n_st, n_tl, 0, n_reg)   /* 6.7.1p2 */
	          && (nsc == 0 || sc != 0) && (nfs == 0 || fs != 0);      /* contexts without storage class / function specifier (6.7.7, 6.7.2.1, 6.7.6.3) */
	g_no_error = wellformed;
	am_sc = SCAUTO; am_fs = FUNCNORETURN;      /* stale values the call must overwrite */

	next();
	r = declspecs(&sc0, sc, fs, 0);

	__CPROVER_assert(wellformed, "C11 6.7.2p2 / 6.7.1p2: a type-specifier multiset not in the list (or using the unsupported _Complex), specifiers without any type specifier, more than one storage class, or a storage class / function specifier where none is allowed, is diagnosed");
	__CPROVER_assume(wellformed);
	__CPROVER_assert(!s_overrun && s_pos == nspec + 1 && tok.kind == s_kind[nspec], "exactly the declaration specifiers are consumed; an identifier that cannot be a type specifier here (object name, or typedef name after a type specifier: 6.7.8p3) is left for the declarator");
	if (nspec == 0)
		__CPROVER_assert(r.type == 0, "no specifier at all: not a declaration (no type reported)");
	else if (tag)
		__CPROVER_assert(r.type == &t_tag && g_ntag == 1, "6.7.2p2: a struct/union/enum specifier alone names that type");
	else if (tdname)
		__CPROVER_assert(r.type == &t_td, "6.7.2p2 / 6.7.8p3: a typedef name alone names the type it was defined as");
	else
		__CPROVER_assert(r.type != 0 && r.type == ts_type(id), "6.7.2p2 (6.2.5p15 for the three char types): the multiset names the listed type, whatever the order of the specifiers");
	__CPROVER_assert((unsigned)r.qual == q, "6.7.3p5: the qualifiers are the union of those written (repeats allowed) and those of the typedef name");
	__CPROVER_assert(r.expr == 0, "no typeof expression");
	if (sc) __CPROVER_assert((unsigned)*sc == scset, "6.7.1: the storage-class specifiers written, and only those, are reported");
	if (fs) __CPROVER_assert((unsigned)*fs == fsset, "6.7.4: the function specifiers written, and only those, are reported");
	__CPROVER_assert(g_ntag == (tag ? 1 : 0), "a tag specifier is parsed once");
#ifdef VERIF_CANARY
	__CPROVER_assert(!(in_n == 4 && in_k0 == K_LONG && in_k1 == K_UNSIGNED && in_k2 == K_INT && in_k3 == K_LONG && r.type == &typeullong), "CANARY");
#endif
}
