/* UNIT
{
 "id": "DECL.staticassert",
 "file": "decl.c", "function": "staticassert",
 "properties": {"C10": "contract", "C19": "safety"},
 "mode": "harness",
 "kind": "proof",
 "timeout": 100, "replay": false,
 "assumes": ["next()/consume()/expect()/tokencheck() are a token-script stand-in (PP units)",
             "intconstexpr() (expr.c, eval.c) is a stub: it consumes the one script token standing for the expression, yields its 64-bit value (signed type) and, as the real one, diagnoses a negative value unless negative values are allowed; stringconcat() (EXPR.stringconcat) consumes the string literal token and yields its text",
             "the C23 form without message is treated as well-formed (cproc accepts it; C11 6.7.10 requires the message)",
             "no native replay: the function is static and reads the token script"]
}
*/
/*
 * C10, C11 6.7.10:  static_assert-declaration:  _Static_assert ( constant-expression , string-literal ) ;
 * p2 "The constant expression shall be an integer constant expression.  If the value of the constant expression compares
 * unequal to 0, the declaration has no effect.  Otherwise, the constraint is violated and the implementation shall
 * produce a diagnostic message".  So: value != 0 (including negative values and values with no low 32 bits set) and a
 * syntactically complete declaration => accepted (not diagnosed), whole declaration consumed, result "was a static
 * assertion"; value == 0 => diagnosed, with or without message; missing `(`, `)`, `;`, or a message that is not a string
 * literal => diagnosed.  Any other first token: not a static assertion, nothing consumed, nothing diagnosed.
 */
#define NTOK 8
#include "declspecs_common.h"

static u64 g_c; static unsigned g_nice, g_nstr;
unsigned long long
intconstexpr(struct scope *s, bool allowneg)
{
	g_nice++;
	next();
	if (!allowneg && (g_c >> 63))
		verif_noreturn();       /* "integer constant expression cannot be negative" */
	return g_c;
}
static char msgtext[4] = "bad";
struct type *
stringconcat(struct stringlit *str, bool forceutf8)
{
	__CPROVER_assert(tok.kind == TSTRINGLIT, "stringconcat() is called on a string literal");
	g_nstr++;
	str->data = msgtext; str->size = sizeof msgtext;
	next();
	return &typechar;
}
struct type typechar;

void
harness(void)
{
	IN(bool, in_isassert); IN(bool, in_lparen); IN(u64, in_c); IN(bool, in_hasmsg); IN(bool, in_msgisstr); IN(bool, in_rparen); IN(bool, in_semi);
	static struct scope sc0;
	unsigned p, len;
	bool wellformed, r;

	/* _Static_assert ( E [, "msg"] ) ; <next> */
	s_kind[0] = in_isassert ? TSTATIC_ASSERT : TINT;
	s_kind[1] = in_lparen ? TLPAREN : TLBRACK;
	s_kind[2] = TNUMBER;
	p = 3;
	if (in_hasmsg) { s_kind[3] = TCOMMA; s_kind[4] = in_msgisstr ? TSTRINGLIT : TNUMBER; p = 5; }
	if (in_hasmsg) { s_kind[5] = in_rparen ? TRPAREN : TRBRACK; s_kind[6] = in_semi ? TSEMICOLON : TCOMMA; s_kind[7] = TINT; }
	else { s_kind[3] = in_rparen ? TRPAREN : TRBRACK; s_kind[4] = in_semi ? TSEMICOLON : TCOMMA; s_kind[5] = TINT; }
	len = p + 2;
	s_n = len + 1; s_pos = 0; s_overrun = 0;
	g_c = in_c; g_nice = g_nstr = 0;

	wellformed = !in_isassert || (in_lparen && in_c != 0 && (!in_hasmsg || in_msgisstr) && in_rparen && in_semi);
	g_no_error = wellformed;

	next();
	r = staticassert(&sc0);

	__CPROVER_assert(wellformed, "C11 6.7.10p2: a static assertion whose expression is 0 (with or without message), or that is syntactically incomplete, is diagnosed");
	__CPROVER_assume(wellformed);
	__CPROVER_assert(r == in_isassert, "reports whether the declaration was a static assertion");
	if (in_isassert) {
		__CPROVER_assert(!s_overrun && s_pos == len + 1 && tok.kind == TINT, "6.7.10: the whole declaration up to and including `;` is consumed, nothing more");
		__CPROVER_assert(g_nice == 1 && g_nstr == (in_hasmsg ? 1 : 0), "expression and message parsed once");
	} else {
		__CPROVER_assert(s_pos == 1 && tok.kind == TINT && g_nice == 0 && g_nstr == 0, "anything else is left untouched");
	}
#ifdef VERIF_CANARY
	__CPROVER_assert(!(in_isassert && in_hasmsg && in_c == 0x8000000000000000ull), "CANARY");
#endif
}
