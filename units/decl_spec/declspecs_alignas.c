/* UNIT
{
 "id": "DECL.declspecs.alignas",
 "file": "decl.c", "function": "declspecs",
 "also_functions": ["typequal", "storageclass", "funcspec"],
 "properties": {"C10": "contract", "C06": "contract", "C19": "safety"},
 "mode": "harness",
 "replace_calls": {"tagspec": "stub_tagspec", "typename": "stub_typename"},
 "link_repo": ["type.c"],
 "unwind": 13,
 "kind": "bounded",
 "bound": "declaration specifiers `const [_Alignas(OP)] int [_Alignas(OP)]` with 0..2 alignment specifiers; each operand a type name (complete object type, alignment 1..16) or a constant expression (any 64-bit value); alignment specifier allowed (align != NULL) or not",
 "timeout": 200, "replay": false,
 "assumes": ["next()/consume()/expect() are a token-script stand-in (PP units); attr()/gnuattr() see no attribute (ATTR units)",
             "typename() (DECL.typename) is replaced by a stub: the operand token is a type name with a given type object, or not a type name; intconstexpr() (expr.c, eval.c) by a stub yielding the value of the operand; tagspec() not reached",
             "no native replay: replaced callees are static",
             "type-name operands are complete object types (the other case is DECL.declspecs.alignas-incomplete, which fails on the pinned tree)"]
}
*/
/*
 * C10/C06, C11 6.7.5p3: the value is zero or a power of two (else diagnosed); p6: zero has no effect, the strictest of
 * several specifiers wins, _Alignas(type-name) means the alignment of that type; 6.7.5p2/6.7.7: diagnosed where no
 * alignment specifier may appear (parameter, type name).  Type and qualifiers unaffected.
 */
#include "declspecs_alignas.h"
