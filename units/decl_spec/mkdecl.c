/* UNIT
{
 "id": "DECL.mkdecl",
 "file": "decl.c", "function": "mkdecl",
 "properties": {"C16": "contract", "C19": "safety"},
 "mode": "harness",
 "kind": "proof",
 "timeout": 100, "replay": false,
 "assumes": ["xmalloc() is malloc that does not fail (stubs/base.c; the real one ends in fatal())",
             "called twice to show the two results are distinct objects; type may be NULL (tag-less callers pass a type later) only for non-object kinds and objects alike (the code tolerates NULL)"]
}
*/
/*
 * C16/C19: every field of a new declaration is initialised: name, kind, linkage, type and qualifiers as given; no
 * value, no assembler name, not defined, not tentative, not in any list; an object's alignment is that of its type
 * (C11 6.2.8p1: "Complete object types have alignment requirements"; a stricter one is applied later by _Alignas);
 * for the other kinds the kind-specific fields are zero (function: not an inline definition, not _Noreturn;
 * enumeration constant: value 0 until set).  Two calls give two distinct objects.
 */
#include "declspecs_common.h"

void
harness(void)
{
	IN(int, in_kind); IN(int, in_linkage); IN(int, in_qual); IN(int, in_align); IN(bool, in_hastype);
	static struct type t0;
	struct decl *d, *d2;
	struct type *t = in_hastype ? &t0 : 0;

	__CPROVER_assume(in_kind == DECLTYPE || in_kind == DECLOBJECT || in_kind == DECLFUNC || in_kind == DECLCONST || in_kind == DECLBUILTIN);
	__CPROVER_assume(in_linkage == LINKNONE || in_linkage == LINKINTERN || in_linkage == LINKEXTERN);
	__CPROVER_assume((in_qual & ~7) == 0);
	t0.align = in_align;
	g_no_error = 1;

	d = mkdecl(n_x, in_kind, t, in_qual, in_linkage);
	d2 = mkdecl(n_y, DECLOBJECT, &t0, QUALNONE, LINKNONE);

	__CPROVER_assert(d != 0 && d2 != 0 && d != d2, "each call yields a new object");
	__CPROVER_assert(d->name == n_x && (int)d->kind == in_kind && (int)d->linkage == in_linkage && d->type == t && (int)d->qual == in_qual, "name, kind, linkage, type, qualifiers as given");
	__CPROVER_assert(d->value == 0 && d->asmname == 0 && !d->defined && !d->tentative && d->next == 0, "no value, no assembler name, not defined, not tentative, not in a list");
	if (in_kind == DECLOBJECT) {
		__CPROVER_assert(d->u.obj.align == (in_hastype ? in_align : 0), "an object is aligned as its type requires");
		__CPROVER_assert(d->u.obj.storage == 0, "storage duration not yet chosen");
	} else if (in_kind == DECLFUNC)
		__CPROVER_assert(!d->u.func.inlinedefn && !d->u.func.isnoreturn, "a function is not an inline definition / _Noreturn until declared so");
	else
		__CPROVER_assert(d->u.enumconst == 0, "kind-specific fields are zero");
	__CPROVER_assert(d2->name == n_y && d2->u.obj.align == in_align, "second object independent of the first");
#ifdef VERIF_CANARY
	__CPROVER_assert(!(in_kind == DECLOBJECT && in_align == 16 && in_hastype), "CANARY");
#endif
}
