/* UNIT
{
 "id": "DECL.typename",
 "file": "decl.c", "function": "typename",
 "properties": {"C10": "contract", "C05": "contract", "C19": "safety"},
 "mode": "harness",
 "replace_calls": {"declspecs": "stub_declspecs", "declarator": "stub_declarator"},
 "kind": "proof",
 "timeout": 100, "replay": false,
 "assumes": ["declspecs() (DECL.declspecs.multiset/.alignas: diagnoses a storage class, function specifier or alignment specifier when the corresponding out-parameter is NULL) and declarator() (DECL.declaratortypes.*, DECL.arrsize: diagnoses an identifier when name is NULL) are replaced by stubs that record their arguments and yield ghost results",
             "no native replay: replaced callees are static"]
}
*/
/*
 * C10/C05, C11 6.7.7p1:  type-name: specifier-qualifier-list abstract-declarator(opt).
 * A type name has no storage-class specifier, function specifier or alignment specifier (6.7.7 syntax: specifier-qualifier-list)
 * and declares no identifier (abstract declarator): typename() must ask for exactly that.  Its result is the type the
 * abstract declarator derives from the specifiers; the qualifiers of that type are ADDED to *tq (the caller may have
 * collected qualifiers already: `const typeof(volatile int)`); the typeof/VLA expression is handed on.
 * If the tokens do not start with a specifier the construct is not a type name: NULL, nothing else touched.
 */
#include "declspecs_common.h"

static struct type t_spec, t_res;
static struct expr e_spec, e_res;
static bool g_isname; static int g_specqual, g_resqual;
static unsigned g_nds, g_ndr;
static bool g_ds_ok, g_dr_ok;
struct qualtype
stub_declspecs(struct scope *s, enum storageclass *sc, enum funcspec *fs, int *align)
{
	struct qualtype q = {g_isname ? &t_spec : 0, g_isname ? g_specqual : 0, g_isname ? &e_spec : 0};
	g_nds++;
	g_ds_ok = sc == 0 && fs == 0 && align == 0;
	return q;
}
struct qualtype
stub_declarator(struct scope *s, struct qualtype base, char **name, struct scope **funcscope, bool allowabstract)
{
	struct qualtype q = {&t_res, g_resqual, &e_res};
	g_ndr++;
	g_dr_ok = base.type == &t_spec && (int)base.qual == g_specqual && base.expr == &e_spec && name == 0 && funcscope == 0 && allowabstract;
	return q;
}

void
harness(void)
{
	IN(bool, in_isname); IN(int, in_specqual); IN(int, in_resqual); IN(int, in_oldqual); IN(bool, in_hastq); IN(bool, in_hastoeval);
	static struct scope sc0; static struct expr e_old;
	static enum typequal am_tq; static struct expr *am_toeval;
	enum typequal *tq = in_hastq ? &am_tq : 0;
	struct expr **toeval = in_hastoeval ? &am_toeval : 0;
	struct type *r;

	__CPROVER_assume((in_specqual & ~7) == 0 && (in_resqual & ~7) == 0 && (in_oldqual & ~7) == 0);
	g_isname = in_isname; g_specqual = in_specqual; g_resqual = in_resqual; g_nds = g_ndr = 0; g_ds_ok = g_dr_ok = false;
	am_tq = in_oldqual; am_toeval = &e_old;
	g_no_error = 1;

	r = typename(&sc0, tq, toeval);

	__CPROVER_assert(g_nds == 1 && g_ds_ok, "C11 6.7.7p1: the specifier-qualifier-list of a type name admits no storage-class, function or alignment specifier");
	if (in_isname) {
		__CPROVER_assert(g_ndr == 1 && g_dr_ok, "C11 6.7.7p1: the specifiers are followed by an optional ABSTRACT declarator (no identifier) applied to the specified type");
		__CPROVER_assert(r == &t_res, "the type name denotes the type the declarator derives");
		if (tq) __CPROVER_assert((int)*tq == (in_oldqual | in_resqual), "the qualifiers of the named type are added to those the caller collected");
		if (toeval) __CPROVER_assert(*toeval == &e_res, "the expression to evaluate (typeof / variably modified type) is handed on");
	} else {
		__CPROVER_assert(r == 0 && g_ndr == 0, "no specifier: not a type name");
		if (tq) __CPROVER_assert((int)*tq == in_oldqual, "qualifiers untouched");
		if (toeval) __CPROVER_assert(*toeval == &e_old, "expression untouched");
	}
#ifdef VERIF_CANARY
	__CPROVER_assert(!(in_isname && in_hastq && in_oldqual == 1 && in_resqual == 2), "CANARY");
#endif
}
