/*
 * Shared by DECL.declspecs.alignas / .alignas-incomplete / .alignas-notype: the real declspecs() on
 *     const [_Alignas ( OP1 )] int [_Alignas ( OP2 )] ;          (V_NOTYPE:  _Alignas ( OP1 ) x ;)
 * where each operand OPj is one script token standing for a type-name (typename() stub yields the type object t_op[j])
 * or for an integer constant expression (typename() says "not a type name", intconstexpr() stub yields its value).
 *
 * C11 6.7.5p3: "The constant expression shall be an integer constant expression. It shall evaluate to a valid fundamental
 *   alignment, or to a valid extended alignment supported by the implementation in the context in which it appears, or to
 *   zero."  (6.2.8p4: every valid alignment value is a nonnegative integral power of two.)
 * 6.7.5p6: "The first form is equivalent to _Alignas (_Alignof (type-name))"  with 6.5.3.4p1: "The _Alignof operator
 *   shall not be applied to a function type or an incomplete type."
 * 6.7.5p6: "An alignment specification of zero has no effect."  "When multiple alignment specifiers occur in a
 *   declaration, the effective alignment requirement is the strictest specified alignment."
 * 6.7.5p2 / 6.7.7 / 6.7.2.1: no alignment specifier in a parameter declaration or a type name (align == NULL contexts).
 * 6.7.2p2: "At least one type specifier shall be given in the declaration specifiers in each declaration".
 */
#include "declspecs_common.h"

static struct type t_op[2];
static bool g_istype[2];
static u64 g_val[2];
static unsigned g_ntn, g_nice;
struct type *stub_tagspec(struct scope *s) { __CPROVER_assert(0, "tagspec() not reached"); return 0; }
struct type *
stub_typename(struct scope *s, enum typequal *tq, struct expr **toeval)
{
	unsigned j = g_ntn++;
	__CPROVER_assert(j < 2, "one typename() probe per _Alignas");
	if (j < 2 && g_istype[j]) { next(); return &t_op[j]; }
	return 0;
}
unsigned long long
intconstexpr(struct scope *s, bool allowneg)
{
	unsigned j = g_ntn - 1;     /* the operand typename() has just declined */
	g_nice++;
	__CPROVER_assert(g_ntn >= 1 && j < 2 && !g_istype[j], "the operand is evaluated as a constant expression only when it is not a type name");
	next();
	return j < 2 ? g_val[j] : 0;
}
struct expr *expr(struct scope *s) { __CPROVER_assert(0, "expr() not reached"); return 0; }

#define POW2(v) ((v) != 0 && ((v) & ((v) - 1)) == 0)

void
harness(void)
{
	IN(unsigned, in_na); IN(bool, in_hasalign);
	IN(bool, in_istype0); IN(bool, in_istype1); IN(u64, in_val0); IN(u64, in_val1);
	IN(unsigned, in_talign0); IN(unsigned, in_talign1); IN(bool, in_inc0); IN(bool, in_inc1); IN(bool, in_func0); IN(bool, in_func1);
	static struct scope sc0;
	static enum storageclass am_sc; static enum funcspec am_fs; static int am_align;
	int *align = in_hasalign ? &am_align : 0;
	bool istype[2] = {in_istype0, in_istype1}, inc[2] = {in_inc0, in_inc1}, fn[2] = {in_func0, in_func1};
	u64 val[2] = {in_val0, in_val1}, v[2], want = 0;
	unsigned ta[2] = {in_talign0, in_talign1}, j, p;
	bool valok = true, typeok = true, wellformed;
	struct qualtype r;

#ifdef V_NOTYPE
	__CPROVER_assume(in_na == 1);
#else
	__CPROVER_assume(in_na <= 2);
#endif
	for (j = 0; j < 2; j++) {
		__CPROVER_assume(ta[j] == 0 || ta[j] == 1 || ta[j] == 2 || ta[j] == 4 || ta[j] == 8 || ta[j] == 16);
#ifndef V_INCOMPLETE
		/* complete object types only; they have a nonzero alignment */
		__CPROVER_assume(!inc[j] && !fn[j] && ta[j] != 0);
#endif
		t_op[j].kind = fn[j] ? TYPEFUNC : inc[j] ? TYPESTRUCT : TYPEINT;
		t_op[j].incomplete = inc[j] && !fn[j];
		t_op[j].align = ta[j]; t_op[j].size = inc[j] || fn[j] ? 0 : ta[j];
		g_istype[j] = istype[j]; g_val[j] = val[j];
	}
	g_ntn = g_nice = 0;

	for (p = 0; p < NTOK; p++) { s_kind[p] = TCONST; s_lit[p] = 0; }
#ifdef V_NOTYPE
	s_kind[0] = TALIGNAS; s_kind[1] = TLPAREN; s_kind[2] = TNUMBER; s_kind[3] = TRPAREN; s_kind[4] = TIDENT; s_lit[4] = n_x; s_kind[5] = TSEMICOLON;
	s_n = 6;
#else
	if (in_na >= 1) { s_kind[1] = TALIGNAS; s_kind[2] = TLPAREN; s_kind[3] = TNUMBER; s_kind[4] = TRPAREN; }
	s_kind[5] = TINT;
	if (in_na >= 2) { s_kind[6] = TALIGNAS; s_kind[7] = TLPAREN; s_kind[8] = TNUMBER; s_kind[9] = TRPAREN; }
	s_kind[10] = TSEMICOLON;
	s_n = 11;
#endif
	s_pos = 0; s_overrun = 0;
	d_x.kind = DECLOBJECT; d_x.type = &typeint; d_td.kind = DECLTYPE; d_td.type = &t_td;

	/* what 6.7.5 says */
	for (j = 0; j < 2; j++)
		if (j < in_na) {
			if (istype[j] && (inc[j] || fn[j])) typeok = false;             /* 6.5.3.4p1 */
			v[j] = istype[j] ? ta[j] : val[j];
			if (!(v[j] == 0 || (POW2(v[j]) && v[j] <= INT_MAX))) valok = false;   /* 6.7.5p3; the result is an int */
			if (v[j] > want) want = v[j];                                   /* strictest; zero has no effect */
		}
	wellformed = valok && typeok && (in_na == 0 || align != 0)
#ifdef V_NOTYPE
	          && false                                                        /* 6.7.2p2: no type specifier */
#endif
	          ;
	g_no_error = wellformed;
	am_align = 64;      /* stale value the call must overwrite */

#if defined(VERIF_CANARY) && defined(V_NOTYPE)
	__CPROVER_assert(!(in_val0 == 8 && !in_istype0 && align), "CANARY");
#endif
	next();
	r = declspecs(&sc0, &am_sc, &am_fs, align);

#ifdef V_NOTYPE
	__CPROVER_assert(wellformed, "C11 6.7.2p2: declaration specifiers consisting of an alignment specifier only (no type specifier) are diagnosed, not silently consumed");
#elif defined(V_INCOMPLETE)
	__CPROVER_assert(typeok, "C11 6.7.5p6 + 6.5.3.4p1: _Alignas(type-name) with a function type or an incomplete type is diagnosed");
	__CPROVER_assume(wellformed);
#else
	__CPROVER_assert(wellformed, "C11 6.7.5p3 / p2: an alignment that is neither zero nor a power of two (representable), or an alignment specifier where none is allowed, is diagnosed");
#endif
	__CPROVER_assume(wellformed);
	__CPROVER_assert(!s_overrun && s_pos == s_n && tok.kind == TSEMICOLON, "exactly the declaration specifiers are consumed");
	__CPROVER_assert(r.type == &typeint && r.qual == QUALCONST, "type and qualifiers are not affected by the alignment specifiers");
	if (align) __CPROVER_assert(*align == (int)want, "6.7.5p6: the reported alignment is the strictest one specified; zero has no effect; none specified = 0");
	__CPROVER_assert(g_ntn == in_na && g_nice == (in_na >= 1 && !istype[0]) + (in_na >= 2 && !istype[1]), "each operand is parsed once");
#ifdef VERIF_CANARY
	__CPROVER_assert(!(in_na == 2 && in_istype0 && in_talign0 == 8 && !in_istype1 && in_val1 == 16 && align && *align == 16), "CANARY");
#endif
}
