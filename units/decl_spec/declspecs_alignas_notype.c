/* UNIT
{
 "id": "DECL.declspecs.alignas-notype",
 "file": "decl.c", "function": "declspecs",
 "also_functions": ["typequal", "storageclass", "funcspec"],
 "properties": {"C10": "contract", "C06": "contract", "C19": "safety"},
 "mode": "harness",
 "replace_calls": {"tagspec": "stub_tagspec", "typename": "stub_typename"},
 "link_repo": ["type.c"],
 "unwind": 13,
 "kind": "bounded",
 "bound": "declaration specifiers `_Alignas(OP)` followed by the identifier x (an object) and `;`",
 "timeout": 200, "replay": false,
 "assumes": ["next()/consume()/expect() are a token-script stand-in (PP units); attr()/gnuattr() see no attribute (ATTR units)",
             "typename() (DECL.typename) is replaced by a stub: the operand token is a type name with a given type object, or not a type name; intconstexpr() (expr.c, eval.c) by a stub yielding the value of the operand; tagspec() not reached",
             "no native replay: replaced callees are static"]
}
*/
/*
 * C10, C11 6.7.2p2 "At least one type specifier shall be given in the declaration specifiers in each declaration": declaration
 * specifiers that consist of an alignment specifier only must be diagnosed.  FAILS on the pinned tree: declspecs() checks
 * "no type" only when a qualifier, storage class or function specifier was seen; `_Alignas(8)` is consumed and "no
 * declaration here" is reported, so in a block `int x; _Alignas(8) x = 3;` is accepted as the statement `x = 3;` (finding).
 */
#define V_NOTYPE 1
#include "declspecs_alignas.h"
