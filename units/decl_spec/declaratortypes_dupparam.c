/* UNIT
{
 "id": "DECL.declaratortypes.dupparam",
 "file": "decl.c", "function": "declaratortypes",
 "properties": {"C10": "contract", "C16": "contract", "C19": "safety"},
 "mode": "harness",
 "replace_calls": {"parameter": "stub_parameter"},
 "link_repo": ["type.c"],
 "variants": {"np2": ["-DV_NP=2", "-DV_VAR=0"], "np3v": ["-DV_NP=3", "-DV_VAR=1"]}, "canary_variant": "np3v",
 "unwind": 6,
 "kind": "bounded",
 "bound": "one function declarator `f ( P0, P1, P2 [, ...] )` with 0..3 parameter declarations (each of type int or void, unnamed or named a/b, any qualifiers) and an optional trailing ellipsis; with or without a funcscope out-parameter",
 "timeout": 120, "replay": false,
 "assumes": ["next()/consume()/expect() are a token-script stand-in (PP units); attr()/gnuattr() see no attribute (ATTR units)",
             "parameter() (DECL.parameter) is replaced by a stub that consumes the one script token standing for a parameter declaration and yields a prepared declaration (next == NULL as DECL.parameter/DECL.mkdecl establish); mkscope/delscope/scopeputdecl (SCOPE.chain) are recorders; util.c listinsert re-stated in the unit (util.c defines fatal()); type.c is the real file",
             "`(...)` without a named parameter (C23) is outside the bound",
             "no native replay: replaced callee is static"]
}
*/
/*
 * C10/C16, C11 6.7p3 + 6.2.1p4: two parameters of one list with the same name are a constraint violation.
 * FAILS on the pinned tree: `void f(int a, int a);` and `int f(int a, int a){return a;}` are accepted (finding).
 */
#define V_DUPPARAM 1
#include "declaratortypes_params.h"
