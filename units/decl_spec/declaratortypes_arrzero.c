/* UNIT
{
 "id": "DECL.declaratortypes.arrzero",
 "file": "decl.c", "function": "declarator",
 "also_functions": ["declaratortypes", "typequal"],
 "properties": {"C05": "contract", "C10": "contract", "C19": "safety"},
 "mode": "harness",
 "replace_calls": {"parameter": "stub_parameter"},
 "link_repo": ["type.c"],
 "variants": {"pf_S": ["-DV_P0=1", "-DV_PAREN=0", "-DV_P1=0", "-DV_Q1=0", "-DV_N1=0", "-DV_N2=1"], "f_SS": ["-DV_P0=0", "-DV_PAREN=0", "-DV_P1=0", "-DV_Q1=0", "-DV_N1=0", "-DV_N2=2"], "LpfSR_S": ["-DV_P0=0", "-DV_PAREN=1", "-DV_P1=1", "-DV_Q1=0", "-DV_N1=1", "-DV_N2=1"]}, "canary_variant": "LpfSR_S",
 "unwind": 3, "unwindset": ["declarator.0:6", "declaratortypes.4:5", "harness.0:4", "harness.4:6", "harness.5:4", "harness.6:7"],
 "kind": "bounded",
 "bound": "3 declarator shapes (*f S, f S S, (*f S) S), array lengths 0 or 3/5/7",
 "timeout": 120, "replay": false,
 "assumes": ["next()/consume()/expect()/peek() are a token-script stand-in (PP units); attr()/gnuattr() see no attribute (ATTR units)",
             "parameter() (DECL.parameter) is replaced by a stub that consumes the one script token of `( P )` and yields an unnamed int parameter; assignexpr() (expr.c) by a stub that consumes the length token and yields a constant expression of type int; eval() is the identity on it (EVAL units); mkscope/delscope/scopeputdecl (SCOPE.chain) are recorders; util.c listinsert re-stated (util.c defines fatal()); type.c is the real file",
             "shape variants listed in the header: f, *f S, f S S, *f S S, (*f) S, (*f S) S, *(*f S) S, (f S) S, (*f S) S S, (*f) S S, (f) S, *(*const f), (*const f S) S  with every S symbolically `[N]` or `(P)`",
             "no native replay: replaced callee is static"]
}
*/
/*
 * C10, C11 6.7.6.2p1 "If the expression is a constant expression, it shall have a value greater than zero."
 * FAILS on the pinned tree: `int a[0];` is accepted (declarator() rejects only negative constants) (finding).
 */
#define V_ARRZERO 1
#include "declaratortypes_chain.h"
