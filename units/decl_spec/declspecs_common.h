/*
 * Shared by the DECL.declspecs.* / DECL.typename.* / DECL.parameter.* / DECL.declaratortypes.* / DECL.staticassert.*
 * units: the REAL functions of decl.c between a token-script stand-in for the preprocessor and recorder/verdict
 * stubs for the callees other units cover (CONVENTIONS section 8).
 *
 *   next()/consume()/expect()/peek()  pp.c; advance `tok` through the script s_kind[]/s_lit[] (one entry per token)
 *   attr()/gnuattr()                  attr.c; no attribute present (ATTR.* units)
 *   scopegetdecl()                    scope.c; the identifier "T" is a typedef name (type t_td, qualifiers g_tdqual),
 *                                     "x" an object, every other identifier is undeclared (SCOPE.chain)
 */
#include <stdlib.h>
#include "decl.c"
#include "verif.h"

extern int g_no_error;
struct token tok;

#ifndef NTOK
#define NTOK 12
#endif
static enum tokenkind s_kind[NTOK]; static char *s_lit[NTOK];
static unsigned s_n;        /* script length */
static unsigned s_pos;      /* number of script tokens loaded into `tok` so far: tok is token s_pos - 1 */
static bool s_overrun;      /* the function read past the end of the script */

void
next(void)
{
	if (s_pos < s_n && s_pos < NTOK) {
		tok.kind = s_kind[s_pos];
		tok.lit = s_lit[s_pos];
	} else {
		s_overrun = 1;
		tok.kind = TEOF;
		tok.lit = 0;
	}
	tok.loc.file = "in.c"; tok.loc.line = 1; tok.loc.col = s_pos + 1;
	s_pos++;
}
bool consume(int k) { if (tok.kind != k) return false; next(); return true; }
char *expect(enum tokenkind k, const char *msg) { char *lit; if (tok.kind != k) verif_noreturn(); lit = tok.lit; next(); return lit; }
char *tokencheck(const struct token *t, enum tokenkind k, const char *msg) { if (t->kind != k) verif_noreturn(); return t->lit; }
bool
peek(int k)
{
	if (s_pos < s_n && s_pos < NTOK && s_kind[s_pos] == k) { next(); next(); return true; }
	return false;
}
#ifndef OWN_ATTR
bool attr(struct attr *a, enum attrkind k) { return false; }
bool gnuattr(struct attr *a, enum attrkind k) { return false; }
#endif

static char n_T[] = "T", n_x[] = "x", n_y[] = "y";
static struct type t_td;                /* the type the typedef name T denotes */
static struct decl d_td, d_x;
static unsigned g_nlookup;
#ifndef OWN_SCOPE
struct decl *
scopegetdecl(struct scope *s, const char *name, bool recurse)
{
	g_nlookup++;
	if (name == n_T) return &d_td;
	if (name == n_x) return &d_x;
	return 0;
}
#endif
