/*
 * Shared by the QBE lowering-lemma units: is_valid(type) predicates for the type objects type.c / decl.c build,
 * and harness helpers.  Included after "qbe.c", "verif.h".
 */
#ifndef LOWER_COMMON_H
#define LOWER_COMMON_H

extern int g_no_error;

#define INTPROP (PROPSCALAR|PROPARITH|PROPREAL|PROPINT)
#define FLTPROP (PROPSCALAR|PROPARITH|PROPREAL|PROPFLOAT)

/* integer types: type.c INTTYPE() objects, enum types (decl.c: TYPEENUM, size 4, either signedness) */
#define ISINTT(t) ((((t)->prop & ~PROPCHAR) == INTPROP) && \
	(((t)->kind == TYPEBOOL && (t)->size == 1 && !(t)->u.basic.issigned) || \
	 ((t)->kind == TYPECHAR && (t)->size == 1) || ((t)->kind == TYPESHORT && (t)->size == 2) || \
	 (((t)->kind == TYPEINT || (t)->kind == TYPEENUM) && (t)->size == 4) || \
	 (((t)->kind == TYPELONG || (t)->kind == TYPELLONG) && (t)->size == 8)))
/* mkpointertype(): 8 bytes, PROPSCALAR only */
#define ISPTRT(t) ((t)->kind == TYPEPOINTER && (t)->size == 8 && (t)->prop == PROPSCALAR)
/* type.c typenullptr (C23 nullptr_t): 8 bytes, PROPSCALAR only; converts like a pointer */
#define ISNULLPTRT(t) ((t)->kind == TYPENULLPTR && (t)->size == 8 && (t)->prop == PROPSCALAR)
/* type.c FLTTYPE() objects */
#define ISFLTT(t) ((t)->prop == FLTPROP && (((t)->kind == TYPEFLOAT && (t)->size == 4) || \
	((t)->kind == TYPEDOUBLE && (t)->size == 8)))
#define ISLDBLT(t) ((t)->prop == FLTPROP && (t)->kind == TYPELDOUBLE && (t)->size == 16)
#define ISVOIDT(t) ((t)->kind == TYPEVOID && (t)->prop == PROPNONE)
#define ISAGGT(t)  (((t)->kind == TYPESTRUCT || (t)->kind == TYPEUNION || (t)->kind == TYPEARRAY) && !((t)->prop & PROPSCALAR))
/* a global basic integer type as type.c defines it (DFCC havocs globals, so PRE states what is relied upon) */
#define BASICT(T, k, n, s) ((T).kind == (k) && (T).size == (n) && (T).prop == INTPROP && (T).u.basic.issigned == (s))

#define CSIZE(t)  ((unsigned)(t)->size)
#define CSIGN(t)  ((t)->kind != TYPEPOINTER && (t)->kind != TYPENULLPTR && (t)->u.basic.issigned)

/* build a scalar/void type object from harness inputs */
static void
lc_mktype(struct type *t, int kind, unsigned size, bool sg)
{
	t->kind = kind;
	t->size = size;
	t->align = size;
	t->u.basic.issigned = 0;
	if (kind == TYPEPOINTER || kind == TYPENULLPTR) {
		t->prop = PROPSCALAR;
	} else if (kind == TYPEVOID || kind == TYPESTRUCT || kind == TYPEUNION || kind == TYPEARRAY) {
		t->prop = PROPNONE;
	} else if (kind == TYPEFLOAT || kind == TYPEDOUBLE || kind == TYPELDOUBLE) {
		t->prop = FLTPROP;
	} else {
		t->prop = INTPROP | (kind == TYPECHAR ? PROPCHAR : 0);
		t->u.basic.issigned = sg;
	}
}

static void
lc_basic(struct type *t, int kind, unsigned size, bool sg)
{
	t->kind = kind;
	t->size = size;
	t->align = size;
	t->prop = INTPROP;
	t->u.basic.issigned = sg;
}

#endif
