/*
 * funcexpr_redirect.h -- include BEFORE "qbe.c" (and `#undef funcexpr` after it).
 *
 * Redirects every CALL funcexpr(x, y) inside qbe.c to hyp_funcexpr(x, y) while leaving the DEFINITION (and the
 * prototype in cc.h) of funcexpr alone, so that a unit can verify the real body of funcexpr for one node with its
 * recursive calls taken by an induction hypothesis (DESIGN 2.3.7a).  Equivalent to
 *     goto-instrument --replace-calls funcexpr:hyp_funcexpr     (inner calls)
 * followed by a second pass that lets the harness reach the real function, which bin/vcheck cannot express
 * ("function funcexpr cannot both be replaced and be a replacement" in one pass).
 *
 * How: funcexpr is made a function-like macro.  In the definition/prototype the first macro argument starts with
 * the keyword `struct` ("struct func *f"); in a call it starts with an identifier.  FXR_PROBE_struct is defined,
 * FXR_PROBE_<identifier> is not, which selects between re-emitting `funcexpr(a, b)` (not re-expanded: C11
 * 6.10.3.4p2) and `hyp_funcexpr(a, b)`.
 */
#ifndef FUNCEXPR_REDIRECT_H
#define FUNCEXPR_REDIRECT_H

struct func;
struct expr;
struct value *hyp_funcexpr(struct func *, struct expr *);

#define FXR_CAT_(a, b) a##b
#define FXR_CAT(a, b) FXR_CAT_(a, b)
#define FXR_PROBE_struct ~, 1,
#define FXR_SECOND_(a, b, ...) b
#define FXR_SECOND(...) FXR_SECOND_(__VA_ARGS__)
#define FXR_ISDECL(a) FXR_SECOND(FXR_CAT_(FXR_PROBE_, a), 0, ~)
#define FXR_SEL_1(a, b) funcexpr(a, b)
#define FXR_SEL_0(a, b) hyp_funcexpr(a, b)
#define funcexpr(a, b) FXR_CAT(FXR_SEL_, FXR_ISDECL(a))(a, b)

#endif
