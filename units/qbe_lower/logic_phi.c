/* UNIT
{
 "id": "QBE.logic.phi",
 "file": "qbe.c", "function": "funcexpr", "also_functions": ["funcjnz", "funclabel", "mkblock", "functemp", "convert"],
 "properties": {"C03": "contract", "C01": "contract", "C19": "safety"},
 "mode": "harness",
 "generate": [{"tool": "gen_switch_arm", "args": ["qbe.c", "funcexpr", "e->kind", "EXPRBINARY"], "out": "qbe_funcexpr_binary.c"}],
 "replace_calls": {"funcinst": "rec_funcinst"},
 "variants": {"or": ["-DV_OP=TLOR"], "and": ["-DV_OP=TLAND"]},
 "cbmc_flags": ["--no-simplify"], "retry_no_simplify": false,
 "kind": "proof", "unwind": 2,
 "link_repo": ["type.c"],
 "timeout": 300, "replay": false,
 "assumes": ["MECHANICAL EXTRACTION as in QBE.binop (bin/gen_switch_arm keeps only `case EXPRBINARY:` of funcexpr's switch; needed because CBMC follows the union reads only with --no-simplify)",
             "inductive step: operand evaluation goes to hyp_funcexpr, which returns the operand's temporary and MAY open further blocks (an operand that itself contains &&, || or ?:), modelled by appending one fresh block with the real funclabel(); funcinst is a recorder; mkblock, funcjnz, funclabel, functemp, mkintconst, convert are the real functions",
             "operands int-typed (the conversions of other scalar operand types to a truth value are QBE.funcjnz / QBE.convert.int)"]
}
*/
#include "funcexpr_redirect.h"
#include "qbe_funcexpr_binary.c"
#undef funcexpr
#include "verif.h"

struct token tok;
const struct target *targ;

static struct value v_l, v_r, v_cnv;
static struct expr leaf_l, leaf_r;
static struct block blk_start, blk_nested_l, blk_nested_r;
static bool g_nest_l, g_nest_r;
static struct block *g_end_after_l, *g_end_after_r;

struct value *
hyp_funcexpr(struct func *f, struct expr *e)
{
	/* an operand with its own control flow leaves a different block current than the one it started in */
	if (e == &leaf_l) { if (g_nest_l) funclabel(f, &blk_nested_l); g_end_after_l = f->end; return &v_l; }
	if (g_nest_r) funclabel(f, &blk_nested_r);
	g_end_after_r = f->end;
	return &v_r;
}
struct value *rec_funcinst(struct func *f, int op, int class, struct value *a, struct value *b) { return &v_cnv; }

/*
 * C03: "every jump and phi names an existing block (phi sources being real predecessors)"; C11 6.5.13/14: a || b is 1
 * if a compares unequal to 0 (b is then not evaluated), else (b != 0); dually for &&.
 * Blocks: P = the block current after evaluating a (it ends in the jnz), R = logic_right, R' = the block current after
 * evaluating b (it falls through into J), J = logic_join.  J's phi must read  P -> the short-circuit constant,
 * R' -> (b != 0)  -- with R' != R whenever b has control flow of its own.
 */
void
harness(void)
{
	static struct type t_int;
	static struct expr e;
	static struct func fn;
	struct value *ret;
	struct block *P, *J, *R;
	IN(bool, in_nest_l); IN(bool, in_nest_r); IN(unsigned, in_lastid);
	enum tokenkind op = V_OP;

	__CPROVER_assume(in_lastid < 1000000);
	typeint = (struct type){.kind = TYPEINT, .size = 4, .align = 4, .u.basic.issigned = 1, .prop = PROPSCALAR|PROPARITH|PROPREAL|PROPINT};
	typebool = (struct type){.kind = TYPEBOOL, .size = 1, .align = 1, .prop = PROPSCALAR|PROPARITH|PROPREAL|PROPINT};
	leaf_l.kind = EXPRTEMP; leaf_l.type = &typeint; leaf_r.kind = EXPRTEMP; leaf_r.type = &typeint;
	e.kind = EXPRBINARY; e.op = op; e.type = &typeint; e.u.binary.l = &leaf_l; e.u.binary.r = &leaf_r;
	blk_start.jump.kind = JUMP_NONE; blk_nested_l.jump.kind = JUMP_NONE; blk_nested_r.jump.kind = JUMP_NONE;
	fn.start = fn.end = &blk_start; fn.lastid = in_lastid;
	g_nest_l = in_nest_l; g_nest_r = in_nest_r;

	ret = funcexpr(&fn, &e);

	P = g_end_after_l;
	J = fn.end;
	__CPROVER_assert(P->jump.kind == JUMP_JNZ && P->jump.arg == &v_l, "the block current after evaluating the left operand ends in jnz on its value");
	R = op == TLOR ? P->jump.blk[1] : P->jump.blk[0];
	__CPROVER_assert((op == TLOR ? P->jump.blk[0] : P->jump.blk[1]) == J, "|| leaves to the join block when the left operand is non-zero, && when it is zero");
	__CPROVER_assert(R != J && R != P && P->next == R, "otherwise control goes to a fresh block in which the right operand is evaluated");
	__CPROVER_assert(g_end_after_r->next == J && g_end_after_r->jump.kind == JUMP_NONE, "the block current after evaluating the right operand falls through into the join block");
	__CPROVER_assert(ret == &J->phi.res && J->phi.class == 'w' && J->phi.res.kind == VALUE_TEMP && J->phi.res.id == in_lastid + 1, "the value of the expression is a fresh word temporary defined by the join block's phi");
	__CPROVER_assert(J->phi.blk[0] == P, "first phi source is the block that holds the short-circuit jump (a real predecessor)");
	__CPROVER_assert(J->phi.val[0]->kind == VALUE_INTCONST && J->phi.val[0]->u.i == (op == TLOR ? 1u : 0u), "short-circuit value: 1 for ||, 0 for &&");
	__CPROVER_assert(J->phi.blk[1] == g_end_after_r, "second phi source is the block control actually comes from after the right operand (NOT logic_right when that operand opened blocks of its own)");
	__CPROVER_assert(J->phi.val[1] == &v_cnv, "its value is the right operand converted to 0/1");
#ifdef VERIF_CANARY
	__CPROVER_assert(!(in_nest_r && !in_nest_l), "CANARY");
#endif
}
