/* UNIT
{
 "id": "QBE.convert.flt",
 "file": "qbe.c", "function": "convert",
 "properties": {"C01": "contract", "C10": "contract", "C19": "safety"},
 "mode": "dfcc", "enforce": "convert/convert_contract", "post_macro": "POST_FLT",
 "replace_calls": {"funcinst": "rec_funcinst"},
 "kind": "proof",
 "link_repo": ["type.c"],
 "timeout": 120,
 "expects": ["postcondition", "assigns"],
 "replay": false,
 "assumes": ["IL builder: funcinst appends exactly the instruction it is given and returns its fresh result temporary (stubs/il_rec.c)",
             "floating side at OPCODE level: the IEEE meaning of stosi/stoui/dtosi/dtoui/swtof/uwtof/sltof/ultof/exts/truncd/cnes/cned is taken from the QBE IL reference, not executed (SAT is weak on floating point); the integer operand of int->float instructions is checked at value level",
             "representation invariant: a value of an integer type of size n < 8 lives in a temporary whose low n bytes are its value, other bits arbitrary (convert() itself returns the operand unchanged for narrowing conversions)"]
}
*/
#include "qbe.c"
#include "verif.h"
#include "c_arith.h"
#include "qbe_sem.h"
#include "il_rec.c"
#include "lower_common.h"
#include "convert_flt_contract.h"
