#!/bin/bash
# Regenerates every mutant patch of the qbe_lower units against the CURRENT /repo/qbe.c (run after /repo changed:
# the patches carry context lines).  usage: units/qbe_lower/mkmutants.sh ; then bin/selftest QBE.
set -e
cd /verif
m() { rm -f "mutants/$1/$2.patch"; bin/mkmutant "$1" qbe.c "$2" "$3"; }

U=QBE.qbetype
m $U signed_byte_load_swapped 's/case 1: return t->u.basic.issigned ? sb : ub;/case 1: return t->u.basic.issigned ? ub : sb;/'
m $U uh_loads_signed "s/uh = {'w', 'h', ILOADUH, ISTOREH}/uh = {'w', 'h', ILOADSH, ISTOREH}/"
m $U ldouble_accepted 's/case 16: fatal("long double is not yet supported");/case 16: return l;/'
m $U float_class_swapped 's/case 4: return t->prop \& PROPFLOAT ? s : w;/case 4: return t->prop \& PROPFLOAT ? w : s;/'
m $U long_stored_as_word "s/l = {'l', 'l', ILOADL, ISTOREL}/l = {'l', 'l', ILOADL, ISTOREW}/"

U=QBE.convert.int
m $U extw_sign_swapped 's/case 4: op = src->u.basic.issigned ? IEXTSW : IEXTUW; break;/case 4: op = src->u.basic.issigned ? IEXTUW : IEXTSW; break;/'
m $U bool_from_long_cnew 's/case 8: op = ICNEL; break;/case 8: op = ICNEW; break;/'
m $U bool_from_char_no_ext 's/case 1: op = ICNEW, l = funcinst(f, IEXTUB, .w., l, NULL); break;/case 1: op = ICNEW; break;/'
m $U short_ext_as_byte 's/case 2: op = src->u.basic.issigned ? IEXTSH : IEXTUH; break;/case 2: op = src->u.basic.issigned ? IEXTSB : IEXTUH; break;/'
m $U widen_class_w "s/class = dst->size == 8 ? 'l' : 'w';/class = dst->size > 8 ? 'l' : 'w';/"
m $U noop_le_to_lt 's/if (dst->size <= src->size)/if (dst->size < src->size)/'
m $U revert_fix_a1ac6ed_nullptr_src 's/if (src->kind == TYPEPOINTER || src->kind == TYPENULLPTR)/if (src->kind == TYPEPOINTER)/'

U=QBE.convert.flt
m $U ftoi_width_swapped 's/op = src->size == 8 ? IDTOSI : ISTOSI;/op = src->size == 8 ? ISTOSI : IDTOSI;/'
m $U ftoi_sign_from_source 's/^\t\t\tif (dst->u.basic.issigned)$/\t\t\tif (!dst->u.basic.issigned)/'
m $U long_to_float_as_word 's/op = src->size == 8 ? ISLTOF : ISWTOF;/op = src->size == 16 ? ISLTOF : ISWTOF;/'
m $U ext_trunc_swapped 's/op = src->size < dst->size ? IEXTS : ITRUNCD;/op = src->size > dst->size ? IEXTS : ITRUNCD;/'
m $U float_class_swapped "s/class = dst->size == 8 ? 'd' : 's';/class = dst->size == 8 ? 's' : 'd';/"
m $U uint_to_float_signed 's/op = src->size == 8 ? IULTOF : IUWTOF;/op = src->size == 8 ? IULTOF : ISWTOF;/'
# the two defects this unit found on the pinned snapshot (repaired by bc7214a, 6ae6305)
m $U revert_fix_bc7214a_short_to_float_not_extended 's/case 2: l = funcinst(f, src->u.basic.issigned ? IEXTSH : IEXTUH, .w., l, NULL); break;/case 2: break;/'
m $U revert_fix_6ae6305_ldouble_accepted 's/if (src->size == 16 || dst->size == 16)/if (0)/'
m $U char_to_float_zero_extended 's/case 1: l = funcinst(f, src->u.basic.issigned ? IEXTSB : IEXTUB, .w., l, NULL); break;/case 1: l = funcinst(f, IEXTUB, \x27w\x27, l, NULL); break;/'

U=QBE.funcjnz
m $U short_not_widened 's/if (t->prop \& PROPINT \&\& t->size < 4)/if (t->prop \& PROPINT \&\& t->size < 2)/'
m $U long_tested_as_word 's/else if (t->prop \& PROPFLOAT || t->size > 4)/else if (t->prop \& PROPFLOAT || t->size > 8)/'
m $U float_tested_raw 's/else if (t->prop \& PROPFLOAT || t->size > 4)/else if (t->size > 4)/'
m $U targets_swapped '/^funcjnz/,/^}/ s/b->jump.blk\[0\] = l1;/b->jump.blk[0] = l2;/; /^funcjnz/,/^}/ s/b->jump.blk\[1\] = l2;/b->jump.blk[1] = l1;/'
m $U terminated_block_overwritten '/^funcjnz/,/^}/ s/if (b->jump.kind)/if (b->jump.kind == JUMP_JNZ)/'
m $U float_cmp_against_one 's/case 4: op = ICNES, r = mkfltconst(VALUE_FLTCONST, 0); break;/case 4: op = ICNES, r = mkfltconst(VALUE_FLTCONST, 1); break;/'

U=QBE.bitfield.store
m $U mask_not_shifted 's/mask = 0xffffffffffffffffu >> 64 - t->size \* 8 + bits << lval.bits.before;/mask = 0xffffffffffffffffu >> 64 - t->size * 8 + bits;/'
m $U extract_sign_swapped 's/v = funcinst(f, t->u.basic.issigned ? ISAR : ISHR, class, v, mkintconst(bits));/v = funcinst(f, t->u.basic.issigned ? ISHR : ISAR, class, v, mkintconst(bits));/'
m $U keep_mask_not_inverted 's/mkintconst(~mask)/mkintconst(mask)/'
m $U subword_pad_bits_halved 's/bits += (t->size + 3 \& ~3) - t->size << 3;/bits += (t->size + 3 \& ~3) - t->size << 2;/'
m $U const_store_accepted "s/if (tq \& QUALCONST)/if (0)/"
m $U short_unit_stored_as_word "s/sh = {'w', 'h', ILOADSH, ISTOREH}/sh = {'w', 'h', ILOADSH, ISTOREW}/"
m $U value_not_positioned 's/v = funcinst(f, ISHL, qt.base, v, mkintconst(lval.bits.before));/v = funcinst(f, ISHL, qt.base, v, mkintconst(lval.bits.after));/'
# the defect this unit found on the pinned snapshot (repaired by 3ee136c): pad bits only shifted out when after != 0
m $U revert_fix_3ee136c_top_field_value 's/if (bits || b.before)$/if (bits)/'

U=QBE.bitfield.load
m $U extract_sign_swapped 's/v = funcinst(f, t->u.basic.issigned ? ISAR : ISHR, class, v, mkintconst(bits));/v = funcinst(f, t->u.basic.issigned ? ISHR : ISAR, class, v, mkintconst(bits));/'
m $U right_shift_by_after 's/bits += b.before;/bits += b.after;/'
m $U short_loaded_as_word "s/sh = {'w', 'h', ILOADSH, ISTOREH}/sh = {'w', 'h', ILOADW, ISTOREH}/"
m $U float_loaded_as_double "s/s = {'s', 's', ILOADS, ISTORES}/s = {'s', 's', ILOADD, ISTORES}/"
m $U int_field_in_l_class "/^funcbits/,/^}/ s/class = t->size <= 4 ? 'w' : 'l';/class = t->size < 4 ? 'w' : 'l';/"

U=QBE.funcstore.const
m $U volatile_store_accepted 's/if (tq \& QUALVOLATILE)/if (0)/'
m $U const_check_wrong_bit 's/if (tq \& QUALCONST)/if (tq \& QUALRESTRICT)/'
m $U store_operands_swapped 's/funcinst(f, qt.store, 0, v, lval.addr);/funcinst(f, qt.store, 0, lval.addr, v);/'
m $U copy_direction_swapped 's/funccopy(f, lval.addr, v, t->size, t->align);/funccopy(f, v, lval.addr, t->size, t->align);/'
m $U int_stored_as_half "s/w = {'w', 'w', ILOADW, ISTOREW}/w = {'w', 'w', ILOADW, ISTOREH}/"

U=QBE.funcexpr.const
m $U revert_fix_a1ac6ed_nullptr_const 's/if (t->prop \& PROPINT || t->kind == TYPEPOINTER || t->kind == TYPENULLPTR)/if (t->prop \& PROPINT || t->kind == TYPEPOINTER)/'
m $U float_const_kind_swapped 's/return mkfltconst(t->size == 4 ? VALUE_FLTCONST : VALUE_DBLCONST, e->u.constant.f);/return mkfltconst(t->size == 4 ? VALUE_DBLCONST : VALUE_FLTCONST, e->u.constant.f);/'
m $U pointer_const_as_float 's/if (t->prop \& PROPINT || t->kind == TYPEPOINTER || t->kind == TYPENULLPTR)/if (t->prop \& PROPINT || t->kind == TYPENULLPTR)/'


U=QBE.unary.neg
m $U neg_class_from_operand_size_wrong 's/return funcinst(f, INEG, qbetype(e->type).base, r, NULL);/return funcinst(f, INEG, ptrclass, r, NULL);/'
m $U neg_emits_sub_from_itself 's/return funcinst(f, INEG, qbetype(e->type).base, r, NULL);/return funcinst(f, ISUB, qbetype(e->type).base, r, r);/'
m $U neg_operand_evaluated_twice '/case TSUB:/,/return funcinst(f, INEG/ s/r = funcexpr(f, e->base);/funcexpr(f, e->base); r = funcexpr(f, e->base);/'
