/* UNIT
{
 "id": "QBE.funcstore.const",
 "file": "qbe.c", "function": "funcstore", "also_functions": ["qbetype"],
 "properties": {"C10": "contract", "C01": "contract", "C19": "safety"},
 "mode": "dfcc", "enforce": "funcstore/funcstore_contract",
 "replace_calls": {"funcinst": "rec_funcinst", "funccopy": "rec_funccopy"},
 "kind": "proof",
 "link_repo": ["type.c"],
 "timeout": 120,
 "expects": ["postcondition", "assigns"],
 "replay": false,
 "assumes": ["IL builder: funcinst appends exactly the instruction it is given; QBE executes it with the meaning of spec/qbe_sem.h; memory is one 8-byte little-endian cell at the lvalue's address (stubs/il_rec.c)",
             "plain (non-bit-field) lvalues here; bit-fields are QBE.bitfield.store",
             "aggregate assignment: funccopy is replaced by a stub that records its arguments (its own lemma is unit QBE.funccopy); floating stores at opcode level",
             "error()/fatal() do not return"]
}
*/
#include "qbe.c"
#include "verif.h"
#include "c_arith.h"
#include "c_bitfield.h"
#include "qbe_sem.h"
#include "il_rec.c"
#include "lower_common.h"

/* ghosts */
u64 g_old, g_v, g_addr;
unsigned long long g_sz;
int g_align;
bool g_int, g_agg, g_flt, g_ptr;
int g_tq;
struct value *g_vp, *g_ap;

/* recording stand-in for funccopy */
struct { int n; struct value *dst, *src; unsigned long long size; int align; } cpy;

void
rec_funccopy(struct func *f, struct value *dst, struct value *src, unsigned long long size, int align)
{
	++cpy.n;
	cpy.dst = dst;
	cpy.src = src;
	cpy.size = size;
	cpy.align = align;
}

#define QUALBAD (QUALCONST|QUALVOLATILE)
#define BYTES(n) spec_lowmask(8 * (unsigned)(n))

#define PRE(X) \
	X(f != 0 && t != 0 && t != &typeulong) \
	X(BASICT(typeulong, TYPELONG, 8, 0)) \
	X(g_int == ISINTT(t) && g_ptr == ISPTRT(t) && g_agg == ISAGGT(t) && g_flt == (ISFLTT(t) || ISLDBLT(t))) \
	X(g_int || g_ptr || g_agg || g_flt) \
	X(g_sz == t->size && g_align == t->align && g_tq == (int)tq) \
	X(lval.bits.before == 0 && lval.bits.after == 0) \
	X(lval.addr == g_ap && g_ap != 0 && g_ap->kind == VALUE_TEMP && g_ap->u.i == g_addr) \
	X(v == g_vp && g_vp != 0 && g_vp != g_ap && g_vp->kind == VALUE_TEMP && g_vp->u.i == g_v) \
	X(rec.n == 0 && rec.ok && !rec.overflow && !rec.nonint && rec.nload == 0 && rec.nstore == 0 && rec.maxw == 0) \
	X(rec.mem_addr == g_addr && rec.mem == g_old && cpy.n == 0) \
	/* the only inputs that may be diagnosed: const / volatile lvalues, long double */ \
	X(g_no_error == !((g_tq & QUALBAD) || (g_flt && g_sz == 16)))

#define POST(X) \
	/* C10, 6.5.16p2: the left operand shall be a modifiable lvalue => a store through a const lvalue is rejected */ \
	X(!(g_tq & QUALCONST)) \
	/* C10, documented as unsupported: volatile stores are rejected, not silently emitted as plain stores */ \
	X(!(g_tq & QUALVOLATILE)) \
	/* C10: long double */ \
	X(IMP(g_flt, g_sz != 16)) \
	/* 6.5.16p3: the value of the assignment is the (already converted) right operand */ \
	X(RET == g_vp) \
	/* scalar: exactly one store instruction `storeX v, addr` as wide as the object */ \
	X(IMP(!g_agg, rec.n == 1 && rec.nstore == 1 && rec.nload == 0 && rec.ok && rec.maxw == g_sz && cpy.n == 0)) \
	X(IMP(!g_agg, rec.first.arg[0] == g_vp && rec.first.arg[1] == g_ap && rec.first.cls == 0)) \
	/* integers and pointers: the object's bytes become v's low bytes, neighbouring bytes are kept */ \
	X(IMP(g_int || g_ptr, !rec.nonint && rec.mem == ((g_old & ~BYTES(g_sz)) | (g_v & BYTES(g_sz))))) \
	X(IMP(g_flt && g_sz == 4, rec.first.op == ISTORES)) \
	X(IMP(g_flt && g_sz == 8, rec.first.op == ISTORED)) \
	/* aggregate: one copy of size bytes from the object v designates to the lvalue, no other code */ \
	X(IMP(g_agg, rec.n == 0 && cpy.n == 1 && cpy.dst == g_ap && cpy.src == g_vp && cpy.size == g_sz && cpy.align == g_align)) \
	X(g_vp->u.i == g_v && g_ap->u.i == g_addr) \
	CANARY(X, !(g_int && g_sz == 2 && g_tq == QUALRESTRICT))

static struct value *funcstore_contract(struct func *f, struct type *t, enum typequal tq, struct lvalue lval, struct value *v)
REQUIRES(PRE)
__CPROVER_assigns(rec, cpy)
ENSURES(POST);

void
harness(void)
{
	static struct type ty;
	static struct func fn;
	static struct value val, adr;
	struct func *f = &fn;
	struct type *t = &ty;
	struct value *v = &val;
	struct lvalue lval;

	IN(int, in_kind); IN(unsigned, in_sz); IN(bool, in_sg); IN(int, in_align); IN(int, in_tq);
	IN(u64, in_v); IN(u64, in_old); IN(u64, in_addr);
	enum typequal tq = in_tq;

	__CPROVER_assume((in_tq & ~(QUALCONST|QUALRESTRICT|QUALVOLATILE|QUALATOMIC)) == 0);
	lc_mktype(t, in_kind, in_sz, in_sg);
	if (ISAGGT(t))
		t->align = in_align;
	lc_basic(&typeulong, TYPELONG, 8, 0);
	rec_mktemp(v, 1, in_v);
	rec_mktemp(&adr, 2, in_addr);
	lval.addr = &adr;
	lval.bits.before = 0;
	lval.bits.after = 0;
	rec_reset(in_addr, in_old);
	cpy.n = 0;

	g_old = in_old; g_v = in_v; g_addr = in_addr;
	g_sz = t->size; g_align = t->align; g_tq = in_tq;
	g_vp = v; g_ap = &adr;
	g_int = ISINTT(t); g_ptr = ISPTRT(t); g_agg = ISAGGT(t); g_flt = ISFLTT(t) || ISLDBLT(t);
	g_no_error = !((in_tq & QUALBAD) || (g_flt && g_sz == 16));
	CALLR(struct value *, PRE, POST, funcstore(f, t, tq, lval, v));
}
