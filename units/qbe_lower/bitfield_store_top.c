/* UNIT
{
 "id": "QBE.bitfield.store.top",
 "file": "qbe.c", "function": "funcstore", "also_functions": ["funcbits", "qbetype"],
 "properties": {"C01": "contract"},
 "finding": "FAILS on the pinned tree (genuine defect): funcstore() computes the value of `s.f = v` with funcbits() on v << before; for a char/short field with after == 0 funcbits emits no shl, so bits of v above the field width survive the sar/shr. `struct {short a:8, b:8;} s; int f(int x){return s.b = x;}`: f(0x180) yields 384, C (and gcc/clang) -128; `struct {unsigned char a:3, b:5;} u; return u.b = x;` with 0xff yields 255 instead of 31",
 "mode": "dfcc", "enforce": "funcstore/funcstore_contract", "post_macro": "POST_TOP",
 "replace_calls": {"funcinst": "rec_funcinst", "funccopy": "rec_unreachable_funccopy"},
 "kind": "proof",
 "cflags": ["-DBF_TOP_ONLY"],
 "variants": {"sz1": ["-DV_SZ=1"], "sz2": ["-DV_SZ=2"]},
 "canary_variant": "sz2",
 "link_repo": ["type.c"],
 "timeout": 200,
 "expects": ["postcondition", "assigns"],
 "replay": false,
 "assumes": ["IL builder: funcinst appends exactly the instruction it is given and returns its fresh result temporary; QBE executes it with the meaning of spec/qbe_sem.h; memory is one 8-byte little-endian cell at the lvalue's address (stubs/il_rec.c)",
             "bit-field geometry as decl.c addmember produces it: integer type of size 1/2/4/8, before >= 0, after >= 0, 1 <= width = 8*size - before - after (established by DECL.addmember's units)",
             "the stored value has the declared type of the field (exprassign converted it): low `size` bytes significant, _Bool holds 0/1",
             "conversion to a signed w-bit field reduces modulo 2^w (implementation-defined in C11 6.3.1.3p3; gcc/clang/psABI choice)",
             "funccopy is unreachable for scalar types (replaced by a stub that asserts false)"]
}
*/
#include "qbe.c"
#include "verif.h"
#include "c_arith.h"
#include "c_bitfield.h"
#include "qbe_sem.h"
#include "il_rec.c"
#include "lower_common.h"

#include "bitfield_store_contract.h"
