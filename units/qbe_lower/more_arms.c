/* UNIT
{
 "id": "QBE.funcexpr.arms2",
 "file": "qbe.c", "function": "funcexpr",
 "properties": {"C01": "contract", "C19": "safety"},
 "mode": "harness",
 "generate": [{"tool": "gen_switch_arm", "args": ["qbe.c", "funcexpr", "e->kind", "EXPRIDENT"], "out": "qbe_arm_EXPRIDENT.c"},
              {"tool": "gen_switch_arm", "args": ["qbe.c", "funcexpr", "e->kind", "EXPRBITFIELD"], "out": "qbe_arm_EXPRBITFIELD.c"},
              {"tool": "gen_switch_arm", "args": ["qbe.c", "funcexpr", "e->kind", "EXPRTEMP"], "out": "qbe_arm_EXPRTEMP.c"},
              {"tool": "gen_switch_arm", "args": ["qbe.c", "funcexpr", "e->kind", "EXPRSIZEOF"], "out": "qbe_arm_EXPRSIZEOF.c"}],
 "replace_calls": {"funcinst": "rec_funcinst", "funclval": "rec_funclval", "funcload": "rec_funcload", "funcstore": "rec_funcstore", "convert": "rec_convert", "calcvla": "rec_calcvla"},
 "variants": {"ident": ["-DV_ARM=10"], "bitfield": ["-DV_ARM=11", "-DV_KIND=EXPRBITFIELD"], "compound": ["-DV_ARM=11", "-DV_KIND=EXPRCOMPOUND"], "temp": ["-DV_ARM=12"], "sizeof": ["-DV_ARM=13"]},
 "canary_variant": "ident",
 "cbmc_flags": ["--no-simplify", "--slice-formula"], "retry_no_simplify": false,
 "kind": "proof", "unwind": 4,
 "link_repo": ["type.c"],
 "timeout": 300, "replay": false,
 "assumes": ["MECHANICAL EXTRACTION as in QBE.binop (bin/gen_switch_arm writes one copy of qbe.c per arm -- EXPRIDENT, EXPRBITFIELD/EXPRCOMPOUND, EXPRTEMP, EXPRSIZEOF -- each keeping only that arm of funcexpr's switch)",
             "sub-expressions go to hyp_funcexpr; funclval/funcload/funcstore/convert/funcinst/calcvla are recorders (their own units: QBE.funclval.*, QBE.funcload.*, QBE.bitfield.*)"]
}
*/
#include "funcexpr_redirect.h"
#if V_ARM == 10
#include "qbe_arm_EXPRIDENT.c"
#elif V_ARM == 11
#include "qbe_arm_EXPRBITFIELD.c"
#elif V_ARM == 12
#include "qbe_arm_EXPRTEMP.c"
#else
#include "qbe_arm_EXPRSIZEOF.c"
#endif
#undef funcexpr
#include "verif.h"

struct token tok;
const struct target *targ;

enum { EV_EVAL = 1, EV_LVAL, EV_LOAD, EV_STORE, EV_CONV, EV_INST, EV_VLA };
#define NEV 8
static struct { int kind; void *a, *b, *c; int x; } ev[NEV];
static unsigned nev;
static void log_(int k, void *a, void *b, void *c, int x) { if (nev < NEV) { ev[nev].kind = k; ev[nev].a = a; ev[nev].b = b; ev[nev].c = c; ev[nev].x = x; } nev++; }
#define EVIS(i, k, A, B, C) (ev[i].kind == (k) && ev[i].a == (void *)(A) && ev[i].b == (void *)(B) && ev[i].c == (void *)(C))

static struct expr sub[1];
static struct value v_sub[1], v_addr, v_load, v_store, v_conv, v_inst, v_obj, v_size;
static struct type t_a, t_arr, t_d, t_s;
static struct bitfield g_bits;

struct value *hyp_funcexpr(struct func *f, struct expr *e) { log_(EV_EVAL, e, 0, 0, 0); return &v_sub[0]; }
struct lvalue rec_funclval(struct func *f, struct expr *e) { struct lvalue l = {&v_addr}; l.bits = g_bits; log_(EV_LVAL, e, 0, 0, 0); return l; }
struct value *rec_funcload(struct func *f, struct type *t, struct lvalue lv) { log_(EV_LOAD, t, lv.addr, 0, lv.bits.before * 256 + lv.bits.after); return &v_load; }
struct value *rec_funcstore(struct func *f, struct type *t, enum typequal tq, struct lvalue lv, struct value *v) { log_(EV_STORE, t, lv.addr, v, tq); return &v_store; }
struct value *rec_convert(struct func *f, struct type *dst, struct type *src, struct value *l) { log_(EV_CONV, dst, src, l, 0); return &v_conv; }
struct value *rec_funcinst(struct func *f, int op, int class, struct value *a, struct value *b) { log_(EV_INST, a, b, 0, op * 256 + class); return &v_inst; }
void rec_calcvla(struct func *f, struct type *t) { log_(EV_VLA, t, 0, 0, 0); }

/*
 * C11 6.5.1p2 (an identifier designating an object is an lvalue; its VALUE is the stored value of the object, 6.3.2.1p2:
 * loaded with the expression's type from the object's address; an enumeration constant IS its value), 6.5.2.3/6.5.2.5
 * (member of bit-field type / compound literal used as a value: the object is located as an lvalue and then loaded with the
 * expression's type, the bit-field position going along), compiler temporaries yield the value bound to them, and
 * 6.5.3.4p2 (sizeof a variable length array type: "the operand is evaluated", the result is the run-time size).
 */
void
harness(void)
{
	static struct expr e; static struct func fn; static struct decl d;
	struct value *ret;
	IN(bool, in_const); IN(unsigned, in_before); IN(unsigned, in_after); IN(bool, in_hasbase);

	__CPROVER_assume(in_before < 64 && in_after < 64);
	t_a.kind = TYPEINT; t_a.size = t_a.align = 4; t_a.prop = PROPSCALAR|PROPARITH|PROPREAL|PROPINT; t_a.u.basic.issigned = 1;
	t_arr.kind = TYPEARRAY; t_arr.prop = PROPVM; t_arr.base = &t_a; t_arr.u.array.size = &v_size; t_arr.u.array.length = 0;
	t_d = t_a; t_s.kind = TYPESTRUCT; t_s.size = 8; t_s.align = 4;
	sub[0].kind = EXPRIDENT; sub[0].type = &t_s;    /* the struct the member belongs to */
	g_bits.before = in_before; g_bits.after = in_after;
	nev = 0;
#if V_ARM == 10
	e.kind = EXPRIDENT; e.type = &t_a; e.u.ident.decl = &d;
	d.kind = in_const ? DECLCONST : DECLOBJECT; d.value = &v_obj; d.type = &t_d;
	ret = funcexpr(&fn, &e);
	__CPROVER_assert(nev >= 1 && EVIS(0, EV_VLA, &t_a, 0, 0), "the expression's type is made complete first (variably modified types)");
	if (in_const)
		__CPROVER_assert(nev == 1 && ret == &v_obj, "an enumeration constant is its value: nothing is loaded");
	else
		__CPROVER_assert(nev == 2 && EVIS(1, EV_LOAD, &t_a, &v_obj, 0) && ev[1].x == 0 && ret == &v_load, "an object identifier's value is loaded with the expression's type from the object's address (no bit-field position)");
#elif V_ARM == 11
	e.kind = V_KIND; e.type = &t_a; e.base = &sub[0];
	ret = funcexpr(&fn, &e);
	__CPROVER_assert(nev == 3 && EVIS(0, EV_VLA, &t_a, 0, 0) && EVIS(1, EV_LVAL, &e, 0, 0), "the bit-field member / compound literal is located as an lvalue (once)");
	__CPROVER_assert(EVIS(2, EV_LOAD, &t_a, &v_addr, 0) && ev[2].x == (int)(in_before * 256 + in_after) && ret == &v_load, "and its value is loaded from there with the expression's type and the bit-field position the lvalue carries");
#elif V_ARM == 12
	e.kind = EXPRTEMP; e.type = &t_a; e.u.temp = &v_obj;
	ret = funcexpr(&fn, &e);
	__CPROVER_assert(nev == 1 && ret == &v_obj, "a compiler temporary yields the value bound to it; nothing is emitted");
#else
	e.kind = EXPRSIZEOF; e.type = &t_a; e.u.szof.type = &t_arr; e.base = in_hasbase ? &sub[0] : (struct expr *)0;
	ret = funcexpr(&fn, &e);
	__CPROVER_assert(nev == (in_hasbase ? 3u : 2u) && EVIS(0, EV_VLA, &t_a, 0, 0) && EVIS(1, EV_VLA, &t_arr, 0, 0), "the VLA type's size is computed");
	__CPROVER_assert(!in_hasbase || EVIS(2, EV_EVAL, &sub[0], 0, 0), "6.5.3.4p2: an operand of VLA type is evaluated (once)");
	__CPROVER_assert(ret == &v_size, "the result is the run-time size of the array type");
#endif
#ifdef VERIF_CANARY
	__CPROVER_assert(nev == 0, "CANARY");
#endif
}
