/*
 * Shared by the units that verify ONE node of funcexpr() (QBE.unary.neg, QBE.incdec, QBE.funcexpr.const*).
 * Include after funcexpr_redirect.h / "qbe.c" / `#undef funcexpr` / verif.h / il_rec.c.
 *
 * funcexpr is recursive; these units are the inductive step of a structural induction (DESIGN 2.3.7a): the real body
 * is run for one node whose operands are ALREADY EVALUATED, and every inner recursive call is redirected (by
 * funcexpr_redirect.h) to hyp_funcexpr(), the induction hypothesis for such operands: "an EXPRTEMP leaf yields its
 * temporary and emits no code".  That the argument IS such a leaf is asserted, so a call on anything else is a
 * failed obligation.  The units are harness-enforced (PRE assumed, POST asserted; no DFCC frame check).
 *
 * CBMC 6.11 limitation met here: `struct expr` keeps its per-kind data in a union whose first member (ident) is
 * narrower than the others.  A nested dereference through a pointer read from that union via a pointer to the node
 * (`e->u.binary.l->type`, qbe.c:794,813) is rewritten to a byte_extract from `e->u.ident` whose points-to set is
 * empty: the read yields symex::invalid_object.  EXPRBINARY / EXPRCOND / EXPRASSIGN nodes are therefore out of
 * reach (--no-simplify avoids the rewrite but then symex cannot prune funcexpr's switch: > 250 s per operator).
 * Nodes that only use e->base / e->type / a single-level union read are fine.
 */
#ifndef FUNCEXPR_NODE_H
#define FUNCEXPR_NODE_H

int hyp_calls;

struct value *
hyp_funcexpr(struct func *f, struct expr *e)
{
	++hyp_calls;
	__CPROVER_assert(e != 0 && e->kind == EXPRTEMP, "recursive call only on an already evaluated operand");
	__CPROVER_assert(e->u.temp != 0, "evaluated operand has a temporary");
	return e->u.temp;
}

#endif
