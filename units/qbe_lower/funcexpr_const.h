/*
 * Contract of funcexpr() on an EXPRCONST node + harness (unit QBE.funcexpr.const).
 */
/* ghosts */
u64 g_c;            /* the constant's integer carrier */
double g_f;         /* its floating value */
unsigned g_sz;
bool g_int, g_ptr, g_flt, g_null;

#define PRE(X) \
	X(f != 0 && e != 0 && e->kind == EXPRCONST && e->type != 0) \
	X(g_int == ISINTT(e->type) && g_ptr == ISPTRT(e->type) && g_flt == ISFLTT(e->type) && g_null == ISNULLPTRT(e->type)) \
	X(g_int || g_ptr || g_flt || g_null) \
	X(g_sz == CSIZE(e->type)) \
	X(IMP(!g_flt, e->u.constant.u == g_c)) \
	X(IMP(g_flt, e->u.constant.f == g_f)) \
	/* expr.c:727 `nullptr` is mkexpr(EXPRCONST, &typenullptr): its value is the null pointer */ \
	X(IMP(g_null, g_c == 0)) \
	X(rec.n == 0 && g_no_error == 1)

#define POST_CONST(X) \
	/* a constant needs no code */ \
	X(rec.n == 0 && hyp_calls == 0) \
	X(HRET != 0) \
	/* 6.4.4 / 6.6: the value of the expression is the constant: an integer literal of the IL for integer and pointer \
	   types, a single/double literal (by the size of the type) for floating types */ \
	X(IMP(g_int || g_ptr, HRET->kind == VALUE_INTCONST && HRET->u.i == g_c)) \
	X(IMP(g_flt && g_sz == 4, HRET->kind == VALUE_FLTCONST && HRET->u.f == g_f)) \
	X(IMP(g_flt && g_sz == 8, HRET->kind == VALUE_DBLCONST && HRET->u.f == g_f)) \
	/* C23 6.4.4.6 / 6.3.2.4: nullptr is the null pointer: the integer 0.  (On the pinned snapshot 135bd81 this case \
	   ran into assert(t->prop & PROPFLOAT) -- any nullptr inside a function body aborted cproc-qbe, C19 -- repaired in \
	   /repo by a1ac6ed; funcexpr.assertion.1 is the obligation that failed.) */ \
	X(IMP(g_null, HRET->kind == VALUE_INTCONST && HRET->u.i == 0)) \
	CANARY(X, !(g_int && g_sz == 2 && g_c == 7))

#define POST_SEL POST_CONST

void
harness(void)
{
	static struct type ty;
	static struct expr ee;
	static struct func fn;
	struct func *f = &fn;
	struct expr *e = &ee;

	IN(int, in_kind); IN(unsigned, in_sz); IN(bool, in_sg);
	IN(u64, in_c); IN(double, in_f);

	lc_mktype(&ty, in_kind, in_sz, in_sg);
	ee.kind = EXPRCONST;
	ee.type = &ty;
	if (ty.prop & PROPFLOAT)
		ee.u.constant.f = in_f;
	else
		ee.u.constant.u = in_c;
	rec_reset(0, 0);
	hyp_calls = 0;
	g_no_error = 1;
	g_c = in_c; g_f = in_f; g_sz = in_sz;
	g_int = ISINTT(&ty); g_ptr = ISPTRT(&ty); g_flt = ISFLTT(&ty); g_null = ISNULLPTRT(&ty);
	HCALLR(struct value *, PRE, POST_SEL, funcexpr(f, e));
}
