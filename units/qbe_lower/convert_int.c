/* UNIT
{
 "id": "QBE.convert.int",
 "file": "qbe.c", "function": "convert",
 "properties": {"C01": "contract", "C19": "safety"},
 "mode": "dfcc", "enforce": "convert/convert_contract",
 "replace_calls": {"funcinst": "rec_funcinst"},
 "kind": "proof",
 "link_repo": ["type.c"],
 "timeout": 120,
 "expects": ["postcondition", "assigns"],
 "replay": false,
 "assumes": ["IL builder: funcinst appends exactly the instruction it is given and returns its fresh result temporary; QBE executes it with the meaning of spec/qbe_sem.h (stubs/il_rec.c)",
             "representation invariant of cproc's lowering: a value of a type of size n < 8 lives in a temporary whose low n bytes are its value and whose other bits are arbitrary (every consumer re-extends: this unit, QBE.funcjnz, QBE.bitfield.*); an object of type _Bool holds 0 or 1",
             "pointers and nullptr_t (C23 6.3.2.4; the null pointer, carrier 0) convert like unsigned long (LP64, flat address space); int -> pointer sign-extends like every conversion from int (6.3.2.3p5: implementation-defined)",
             "typeulong is the 8-byte unsigned basic type type.c defines (stated in PRE: DFCC havocs globals)"]
}
*/
#include "qbe.c"
#include "verif.h"
#include "c_arith.h"
#include "qbe_sem.h"
#include "il_rec.c"

#include "lower_common.h"

/* ghosts */
u64 g_x;                    /* carrier of the source temporary: low g_ssz bytes significant, the rest arbitrary */
unsigned g_ssz, g_dsz;      /* C sizes of source / destination type (pointer, nullptr_t: 8)                  */
bool g_ssg, g_dsg;          /* C signedness (pointer, nullptr_t, _Bool: unsigned)                              */
bool g_dbool, g_dvoid;

#define PTRLIKE(t) (ISPTRT(t) || ISNULLPTRT(t))

#define PRE(X) \
	X(src != 0 && dst != 0 && src != &typeulong && dst != &typeulong) \
	X(ISINTT(src) || PTRLIKE(src)) \
	X(ISINTT(dst) || PTRLIKE(dst) || ISVOIDT(dst)) \
	X(typeulong.kind == TYPELONG && typeulong.size == 8 && typeulong.prop == INTPROP && !typeulong.u.basic.issigned) \
	X(g_ssz == CSIZE(src) && g_ssg == CSIGN(src)) \
	X(g_dvoid == (dst->kind == TYPEVOID) && g_dbool == (dst->kind == TYPEBOOL)) \
	X(IMP(!g_dvoid, g_dsz == CSIZE(dst) && g_dsg == CSIGN(dst))) \
	X(l != 0 && l->kind == VALUE_TEMP && l->u.i == g_x) \
	X(IMP(src->kind == TYPEBOOL, spec_wrap(g_x, 1, 0) <= 1)) \
	X(rec.n == 0 && rec.ok && !rec.overflow && !rec.nonint && rec.nload == 0 && rec.nstore == 0) \
	X(g_no_error == 1)

/* the C value of the source operand (canonical carrier), 6.3.1.3 applied to it, and the value the emitted IL leaves */
#define CVAL     spec_wrap(g_x, g_ssz, g_ssg)
#define RESULT   (RET->u.i)
#define POST(X) \
	/* (void)e: no value, no code */ \
	X(IMP(g_dvoid, RET == 0 && rec.n == 0)) \
	X(IMP(!g_dvoid, RET != 0 && (RET->kind == VALUE_TEMP))) \
	/* every emitted instruction is typed and defined, and is an integer instruction; no memory traffic */ \
	X(rec.ok && !rec.overflow && !rec.nonint && rec.nload == 0 && rec.nstore == 0) \
	/* 6.3.1.2: conversion to _Bool is (value != 0), and that as a full word (|| && and jnz consume it as an int) */ \
	X(IMP(g_dbool, spec_wrap(RESULT, 4, 0) == (CVAL != 0))) \
	/* 6.3.1.3: the low g_dsz bytes of the result are the converted value */ \
	X(IMP(!g_dvoid && !g_dbool, spec_wrap(RESULT, g_dsz, g_dsg) == spec_wrap(CVAL, g_dsz, g_dsg))) \
	/* the operand temporary and the type objects are only read */ \
	X(l->kind == VALUE_TEMP && l->u.i == g_x) \
	X(CSIZE(src) == g_ssz && typeulong.size == 8) \
	CANARY(X, !(g_ssz == 2 && g_dsz == 8 && g_x == 0x8000))

static struct value *convert_contract(struct func *f, struct type *dst, struct type *src, struct value *l)
REQUIRES(PRE)
__CPROVER_assigns(rec)
ENSURES(POST);

void
harness(void)
{
	static struct type ts, td;
	static struct func fn;
	static struct value lv;
	struct func *f = &fn;
	struct type *src = &ts, *dst = &td;
	struct value *l = &lv;

	IN(int, in_skind); IN(unsigned, in_ssz); IN(bool, in_ssg);
	IN(int, in_dkind); IN(unsigned, in_dsz); IN(bool, in_dsg);
	IN(u64, in_x);

	lc_mktype(src, in_skind, in_ssz, in_ssg);
	lc_mktype(dst, in_dkind, in_dsz, in_dsg);
	typeulong.kind = TYPELONG; typeulong.size = 8; typeulong.align = 8; typeulong.prop = INTPROP;
	typeulong.u.basic.issigned = 0;
	rec_mktemp(l, 1, in_x);
	rec_reset(0, 0);
	g_no_error = 1;            /* every integer/pointer conversion is valid C: no diagnostic may be reached */
	g_x = in_x;
	g_ssz = in_ssz; g_ssg = CSIGN(src);
	g_dsz = in_dsz; g_dsg = CSIGN(dst);
	g_dvoid = in_dkind == TYPEVOID; g_dbool = in_dkind == TYPEBOOL;
	CALLR(struct value *, PRE, POST, convert(f, dst, src, l));
}
