/* UNIT
{
 "id": "QBE.funcexpr.arms",
 "file": "qbe.c", "function": "funcexpr",
 "properties": {"C01": "contract", "C19": "safety"},
 "mode": "harness",
 "generate": [{"tool": "gen_switch_arm", "args": ["qbe.c", "funcexpr", "e->kind", "EXPRASSIGN"], "out": "qbe_arm_EXPRASSIGN.c"}, {"tool": "gen_switch_arm", "args": ["qbe.c", "funcexpr", "e->kind", "EXPRCOMMA"], "out": "qbe_arm_EXPRCOMMA.c"}, {"tool": "gen_switch_arm", "args": ["qbe.c", "funcexpr", "e->kind", "EXPRCAST"], "out": "qbe_arm_EXPRCAST.c"}, {"tool": "gen_switch_arm", "args": ["qbe.c", "funcexpr", "e->kind", "EXPRUNARY"], "out": "qbe_arm_EXPRUNARY.c"}, {"tool": "gen_switch_arm", "args": ["qbe.c", "funcexpr", "e->kind", "EXPRBUILTIN"], "out": "qbe_arm_EXPRBUILTIN.c"}],
 "replace_calls": {"funcinst": "rec_funcinst", "funclval": "rec_funclval", "funcload": "rec_funcload", "funcstore": "rec_funcstore", "convert": "rec_convert"},
 "variants": { "assign": ["-DV_ARM=0", "-DV_LTEMP=0"], "assign_temp": ["-DV_ARM=0", "-DV_LTEMP=1"], "comma": ["-DV_ARM=1"], "cast": ["-DV_ARM=2"], "addr": ["-DV_ARM=3"], "deref": ["-DV_ARM=4"], "builtin": ["-DV_ARM=5"]},
 "canary_variant": "comma",
 "cbmc_flags": ["--no-simplify", "--slice-formula"], "retry_no_simplify": false,
 "kind": "proof", "unwind": 4,
 "link_repo": ["type.c"],
 "timeout": 300, "replay": false,
 "assumes": ["MECHANICAL EXTRACTION as in QBE.binop (bin/gen_switch_arm writes one copy of qbe.c per arm -- EXPRASSIGN, EXPRCOMMA, EXPRCAST, EXPRUNARY, EXPRBUILTIN -- each keeping only that arm of funcexpr's switch)",
             "inductive step: sub-expressions go to hyp_funcexpr, which logs the ORDER of evaluation and returns one temporary per sub-expression; funclval/funcload/funcstore/convert/funcinst are recorders (their own units: QBE.funcstore.const, QBE.bitfield.*, QBE.convert.*)",
             "comma expressions of 3 operands", "--slice-formula (cone-of-influence slicing per obligation, sound) is needed for the EXPRASSIGN arm: without it the --no-simplify encoding has 26 M variables and needs 11 GB"]
}
*/
#include "funcexpr_redirect.h"
#if V_ARM == 0
#include "qbe_arm_EXPRASSIGN.c"
#elif V_ARM == 1
#include "qbe_arm_EXPRCOMMA.c"
#elif V_ARM == 2
#include "qbe_arm_EXPRCAST.c"
#elif V_ARM == 3 || V_ARM == 4
#include "qbe_arm_EXPRUNARY.c"
#else
#include "qbe_arm_EXPRBUILTIN.c"
#endif
#undef funcexpr
#include "verif.h"

struct token tok;
const struct target *targ;

/* event log: what funcexpr asks for, in order */
enum { EV_EVAL = 1, EV_LVAL, EV_LOAD, EV_STORE, EV_CONV, EV_INST };
#define NEV 8
static struct { int kind; void *a, *b, *c; int x; } ev[NEV];
static unsigned nev;
static void log_(int k, void *a, void *b, void *c, int x) { if (nev < NEV) { ev[nev].kind = k; ev[nev].a = a; ev[nev].b = b; ev[nev].c = c; ev[nev].x = x; } nev++; }
#define EVIS(i, k, A, B, C) (ev[i].kind == (k) && ev[i].a == (void *)(A) && ev[i].b == (void *)(B) && ev[i].c == (void *)(C))

static struct expr sub[3], e_l;
static struct value v_sub[3], v_addr, v_load, v_store, v_conv, v_inst;
static struct type t_a, t_b, t_l;

struct value *hyp_funcexpr(struct func *f, struct expr *e) { int i = e == &sub[0] ? 0 : e == &sub[1] ? 1 : 2; log_(EV_EVAL, e, 0, 0, 0); return &v_sub[i]; }
struct lvalue rec_funclval(struct func *f, struct expr *e) { struct lvalue l = {&v_addr}; log_(EV_LVAL, e, 0, 0, 0); return l; }
struct value *rec_funcload(struct func *f, struct type *t, struct lvalue lv) { log_(EV_LOAD, t, lv.addr, 0, 0); return &v_load; }
struct value *rec_funcstore(struct func *f, struct type *t, enum typequal tq, struct lvalue lv, struct value *v) { log_(EV_STORE, t, lv.addr, v, tq); return &v_store; }
struct value *rec_convert(struct func *f, struct type *dst, struct type *src, struct value *l) { log_(EV_CONV, dst, src, l, 0); return &v_conv; }
struct value *rec_funcinst(struct func *f, int op, int class, struct value *a, struct value *b) { log_(EV_INST, a, b, 0, op * 256 + class); return &v_inst; }

/*
 * C11 6.5.16 (assignment: the right operand's value, converted, is stored into the object designated by the left; the
 * value of the expression is the stored value), 6.5.17 (comma: operands evaluated left to right, value of the last),
 * 6.5.4 (cast: operand evaluated once, converted from ITS type to the named type), 6.5.3.2 (& yields the address of the
 * lvalue without evaluating it as a value; * loads through the pointer value), va_start/va_arg/alloca builtins.
 */
void
harness(void)
{
	static struct expr e; static struct func fn;
	struct value *ret;
	IN(int, in_qual); IN(int, in_bk); IN(bool, in_scalar); IN(bool, in_ltemp);
	int i;

	__CPROVER_assume((in_qual & ~(QUALCONST|QUALVOLATILE)) == 0 && in_bk >= 0 && in_bk <= 3);
	t_a.kind = TYPEINT; t_a.size = t_a.align = 4; t_a.prop = PROPSCALAR|PROPARITH|PROPREAL|PROPINT; t_a.u.basic.issigned = 1;
	t_b.kind = TYPELONG; t_b.size = t_b.align = 8; t_b.prop = PROPSCALAR|PROPARITH|PROPREAL|PROPINT; t_b.u.basic.issigned = 1;
	if (!in_scalar) { t_a.kind = TYPESTRUCT; t_a.prop = 0; }
	for (i = 0; i < 3; i++) { sub[i].kind = EXPRIDENT; sub[i].type = &t_b; sub[i].next = i < 2 ? &sub[i + 1] : 0; }
	nev = 0;
#if V_ARM == 0
	in_ltemp = V_LTEMP;
	e.kind = EXPRASSIGN; e.type = &t_a; e.u.assign.r = &sub[0]; e.u.assign.l = &e_l;
	t_l = t_a; e_l.kind = in_ltemp ? EXPRTEMP : EXPRIDENT; e_l.type = &t_l;   /* the left operand's own type object */ e_l.qual = in_qual; e_l.u.temp = 0;
	ret = funcexpr(&fn, &e);
	__CPROVER_assert(EVIS(0, EV_EVAL, &sub[0], 0, 0), "the right operand is evaluated (once, first)");
	if (in_ltemp) {
		__CPROVER_assert(nev == 1 && e_l.u.temp == &v_sub[0] && ret == &v_sub[0], "assignment to a compiler temporary binds it to the value; nothing is stored");
	} else {
		__CPROVER_assert(nev == 3 && EVIS(1, EV_LVAL, &e_l, 0, 0), "then the left operand is evaluated as an lvalue");
		__CPROVER_assert(EVIS(2, EV_STORE, &t_l, &v_addr, &v_sub[0]) && ev[2].x == in_qual, "the value is stored into that object with the object's (left operand's) type and QUALIFIERS (const/volatile reach the store check)");
		__CPROVER_assert(ret == &v_store, "the value of the assignment is the value the store yields (the stored, converted value)");
	}
#elif V_ARM == 1
	e.kind = EXPRCOMMA; e.type = &t_b; e.base = &sub[0];
	ret = funcexpr(&fn, &e);
	__CPROVER_assert(nev == 3 && EVIS(0, EV_EVAL, &sub[0], 0, 0) && EVIS(1, EV_EVAL, &sub[1], 0, 0) && EVIS(2, EV_EVAL, &sub[2], 0, 0), "every operand is evaluated exactly once, left to right");
	__CPROVER_assert(ret == &v_sub[2], "the value is that of the LAST operand");
#elif V_ARM == 2
	e.kind = EXPRCAST; e.type = &t_a; e.base = &sub[0]; e.toeval = in_ltemp ? &sub[1] : 0;
	ret = funcexpr(&fn, &e);
	i = 0;
	if (in_ltemp) { __CPROVER_assert(EVIS(0, EV_EVAL, &sub[1], 0, 0), "a size expression of the type name (VLA) is evaluated first"); i = 1; }
	__CPROVER_assert(nev == (unsigned)i + 2 && EVIS(i, EV_EVAL, &sub[0], 0, 0), "the operand is evaluated once");
	__CPROVER_assert(EVIS(i + 1, EV_CONV, &t_a, &t_b, &v_sub[0]) && ret == &v_conv, "and converted FROM its own type TO the type named in the cast; that is the value");
#elif V_ARM == 3
	e.kind = EXPRUNARY; e.op = TBAND; e.type = &t_b; e.base = &sub[0];
	ret = funcexpr(&fn, &e);
	__CPROVER_assert(nev == 1 && EVIS(0, EV_LVAL, &sub[0], 0, 0) && ret == &v_addr, "&E: E is evaluated as an lvalue only (no load); the value is its address");
#elif V_ARM == 4
	e.kind = EXPRUNARY; e.op = TMUL; e.type = &t_a; e.base = &sub[0];
	ret = funcexpr(&fn, &e);
	__CPROVER_assert(nev == 2 && EVIS(0, EV_EVAL, &sub[0], 0, 0) && EVIS(1, EV_LOAD, &t_a, &v_sub[0], 0) && ret == &v_load, "*E: E's value is the address; an object of the RESULT type is loaded from it");
#else
	e.kind = EXPRBUILTIN; e.type = &t_a; e.base = &sub[0]; e.toeval = 0;
	e.u.builtin.kind = in_bk == 0 ? BUILTINVASTART : in_bk == 1 ? BUILTINVAARG : in_bk == 2 ? BUILTINALLOCA : BUILTINUNREACHABLE;
	__CPROVER_assume(in_scalar);
	ret = funcexpr(&fn, &e);
	if (in_bk == 3) {
		__CPROVER_assert(nev == 0 && ret == 0, "__builtin_unreachable emits nothing");
	} else {
		__CPROVER_assert(nev == 2 && EVIS(0, EV_EVAL, &sub[0], 0, 0) && ev[1].kind == EV_INST && ev[1].a == &v_sub[0] && ev[1].b == 0, "the operand is evaluated once and handed to ONE instruction");
		__CPROVER_assert(ev[1].x == (in_bk == 0 ? IVASTART * 256 + 0 : in_bk == 1 ? IVAARG * 256 + 'w' : IALLOC16 * 256 + 'l'), "va_start -> vastart; va_arg -> vaarg in the class of the requested type; alloca -> alloc16 yielding a pointer");
		__CPROVER_assert(in_bk == 0 ? ret == 0 : ret == &v_inst, "va_start has no value; va_arg/alloca yield the instruction's result");
	}
#endif
#ifdef VERIF_CANARY
	__CPROVER_assert(nev == 0, "CANARY");
#endif
}
