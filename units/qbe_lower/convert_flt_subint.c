/* UNIT
{
 "id": "QBE.convert.flt.subint",
 "file": "qbe.c", "function": "convert",
 "properties": {"C01": "contract"},
 "mode": "dfcc", "enforce": "convert/convert_contract", "post_macro": "POST_SUBINT",
 "replace_calls": {"funcinst": "rec_funcinst"},
 "kind": "proof",
 "cflags": ["-DCF_SUBINT"],
 "link_repo": ["type.c"],
 "timeout": 120,
 "expects": ["postcondition", "assigns"],
 "replay": false,
 "finding": "FAILS on the pinned tree (genuine defect): convert() emits swtof/uwtof directly on a char/short operand whose upper bits are not its value: `float f(int x){return (float)(short)x;}` compiles to `%.4 =s swtof %x` (no extsh), so f(0x12345) is 74565.0 instead of 9029.0; `double g(unsigned x){return (unsigned char)x;}` gives 511.0 for 0x1ff instead of 255.0",
 "assumes": ["IL builder: funcinst appends exactly the instruction it is given and returns its fresh result temporary (stubs/il_rec.c)",
             "floating side at OPCODE level: the IEEE meaning of stosi/stoui/dtosi/dtoui/swtof/uwtof/sltof/ultof/exts/truncd/cnes/cned is taken from the QBE IL reference, not executed (SAT is weak on floating point); the integer operand of int->float instructions is checked at value level",
             "representation invariant: a value of an integer type of size n < 8 lives in a temporary whose low n bytes are its value, other bits arbitrary (convert() itself returns the operand unchanged for narrowing conversions)"]
}
*/
#include "qbe.c"
#include "verif.h"
#include "c_arith.h"
#include "qbe_sem.h"
#include "il_rec.c"
#include "lower_common.h"
#include "convert_flt_contract.h"
