/* UNIT
{
 "id": "QBE.cond.phi",
 "file": "qbe.c", "function": "funcexpr", "also_functions": ["funcjnz", "funcjmp", "funclabel", "mkblock", "functemp"],
 "properties": {"C03": "contract", "C01": "contract", "C19": "safety"},
 "mode": "harness",
 "generate": [{"tool": "gen_switch_arm", "args": ["qbe.c", "funcexpr", "e->kind", "EXPRCOND"], "out": "qbe_funcexpr_cond.c"}],
 "replace_calls": {"funcinst": "rec_funcinst"},
 "variants": {"int.n0": ["-DV_RK=0", "-DV_N0=0", "-DV_N1=0", "-DV_N2=0"], "int.n6": ["-DV_RK=0", "-DV_N0=0", "-DV_N1=1", "-DV_N2=1"], "void.n1": ["-DV_RK=3", "-DV_N0=1", "-DV_N1=0", "-DV_N2=0"]},
 "tiers": {"thorough": {"variants": {"int.n0": ["-DV_RK=0", "-DV_N0=0", "-DV_N1=0", "-DV_N2=0"], "int.n1": ["-DV_RK=0", "-DV_N0=1", "-DV_N1=0", "-DV_N2=0"], "int.n2": ["-DV_RK=0", "-DV_N0=0", "-DV_N1=1", "-DV_N2=0"], "int.n3": ["-DV_RK=0", "-DV_N0=1", "-DV_N1=1", "-DV_N2=0"], "int.n4": ["-DV_RK=0", "-DV_N0=0", "-DV_N1=0", "-DV_N2=1"], "int.n5": ["-DV_RK=0", "-DV_N0=1", "-DV_N1=0", "-DV_N2=1"], "int.n6": ["-DV_RK=0", "-DV_N0=0", "-DV_N1=1", "-DV_N2=1"], "int.n7": ["-DV_RK=0", "-DV_N0=1", "-DV_N1=1", "-DV_N2=1"], "long.n0": ["-DV_RK=1", "-DV_N0=0", "-DV_N1=0", "-DV_N2=0"], "long.n7": ["-DV_RK=1", "-DV_N0=1", "-DV_N1=1", "-DV_N2=1"], "double.n0": ["-DV_RK=2", "-DV_N0=0", "-DV_N1=0", "-DV_N2=0"], "double.n7": ["-DV_RK=2", "-DV_N0=1", "-DV_N1=1", "-DV_N2=1"], "void.n0": ["-DV_RK=3", "-DV_N0=0", "-DV_N1=0", "-DV_N2=0"], "void.n1": ["-DV_RK=3", "-DV_N0=1", "-DV_N1=0", "-DV_N2=0"], "void.n2": ["-DV_RK=3", "-DV_N0=0", "-DV_N1=1", "-DV_N2=0"], "void.n3": ["-DV_RK=3", "-DV_N0=1", "-DV_N1=1", "-DV_N2=0"], "void.n4": ["-DV_RK=3", "-DV_N0=0", "-DV_N1=0", "-DV_N2=1"], "void.n5": ["-DV_RK=3", "-DV_N0=1", "-DV_N1=0", "-DV_N2=1"], "void.n6": ["-DV_RK=3", "-DV_N0=0", "-DV_N1=1", "-DV_N2=1"], "void.n7": ["-DV_RK=3", "-DV_N0=1", "-DV_N1=1", "-DV_N2=1"]}, "timeout": 900}},
 "canary_variant": "int.n6",
 "cbmc_flags": ["--no-simplify"], "retry_no_simplify": false,
 "kind": "bounded", "unwind": 2,
 "bound": "quick tier: 3 of the 8 combinations of which operands open blocks of their own (none; second+third; first, void result); thorough tier: all 8 for int/void results and the extremes for long/double",
 "link_repo": ["type.c"],
 "timeout": 300, "replay": false,
 "assumes": ["MECHANICAL EXTRACTION as in QBE.binop (bin/gen_switch_arm keeps only `case EXPRCOND:`)",
             "inductive step: the three operands go to hyp_funcexpr, which returns their temporaries and may open further blocks (nested control flow), modelled by appending one fresh block with the real funclabel(); condition int-typed"]
}
*/
#include "funcexpr_redirect.h"
#include "qbe_funcexpr_cond.c"
#undef funcexpr
#include "verif.h"

struct token tok;
const struct target *targ;
static struct value v_c, v_t, v_f, v_cnv;
static struct expr e_c, e_t, e_f;
static struct block blk_start, nest[3];
static bool g_nest[3];
static struct block *g_end_after[3];

struct value *
hyp_funcexpr(struct func *f, struct expr *e)
{
	int i = e == &e_c ? 0 : e == &e_t ? 1 : 2;
	if (g_nest[i]) funclabel(f, &nest[i]);
	g_end_after[i] = f->end;
	return i == 0 ? &v_c : i == 1 ? &v_t : &v_f;
}
struct value *rec_funcinst(struct func *f, int op, int class, struct value *a, struct value *b) { return &v_cnv; }

/*
 * C11 6.5.15: the first operand is evaluated; the second is evaluated only if it compares unequal to 0, the third only
 * if equal; the result is the value of whichever was evaluated.  C03: phi sources are real predecessors.
 * Blocks: P (current after the condition; ends in jnz T, F), T' (current after the second operand; jmp J),
 * F' (current after the third operand; falls through into J), J's phi: T' -> value2, F' -> value3.
 */
void
harness(void)
{
	static struct expr e; static struct func fn; static struct type t_res;
	struct value *ret; struct block *P, *J, *T, *F;
	bool in_n0 = V_N0, in_n1 = V_N1, in_n2 = V_N2;   /* which operands have control flow of their own: one run per shape */
	IN(unsigned, in_lastid); int in_rk = V_RK;

	__CPROVER_assume(in_lastid < 1000000 && in_rk >= 0 && in_rk <= 3);
	typeint = (struct type){.kind = TYPEINT, .size = 4, .align = 4, .u.basic.issigned = 1, .prop = PROPSCALAR|PROPARITH|PROPREAL|PROPINT};
	typebool = (struct type){.kind = TYPEBOOL, .size = 1, .align = 1, .prop = PROPSCALAR|PROPARITH|PROPREAL|PROPINT};
	typevoid = (struct type){.kind = TYPEVOID, .incomplete = true};
	t_res = typeint;
	if (in_rk == 1) { t_res.kind = TYPELONG; t_res.size = t_res.align = 8; }
	if (in_rk == 2) { t_res.kind = TYPEDOUBLE; t_res.size = t_res.align = 8; t_res.prop = PROPSCALAR|PROPARITH|PROPREAL|PROPFLOAT; }
	e_c.kind = EXPRTEMP; e_c.type = &typeint; e_t.kind = EXPRTEMP; e_f.kind = EXPRTEMP;
	e_t.type = e_f.type = in_rk == 3 ? &typevoid : &t_res;
	e.kind = EXPRCOND; e.type = e_t.type; e.base = &e_c; e.u.cond.t = &e_t; e.u.cond.f = &e_f;
	blk_start.jump.kind = nest[0].jump.kind = nest[1].jump.kind = nest[2].jump.kind = JUMP_NONE;
	fn.start = fn.end = &blk_start; fn.lastid = in_lastid;
	g_nest[0] = in_n0; g_nest[1] = in_n1; g_nest[2] = in_n2;

	ret = funcexpr(&fn, &e);

	P = g_end_after[0]; J = fn.end;
	__CPROVER_assert(P->jump.kind == JUMP_JNZ && P->jump.arg == &v_c, "the block current after the condition ends in jnz on its value");
	T = P->jump.blk[0]; F = P->jump.blk[1];
	__CPROVER_assert(T != F && T != J && F != J && P->next == T, "non-zero -> the block of the second operand, zero -> the block of the third; both fresh");
	__CPROVER_assert(g_end_after[1]->jump.kind == JUMP_JMP && g_end_after[1]->jump.blk[0] == J, "after the second operand control jumps to the join block (the third operand is skipped)");
	__CPROVER_assert(g_end_after[1]->next == F, "the third operand's block follows in the text");
	__CPROVER_assert(g_end_after[2]->jump.kind == JUMP_NONE && g_end_after[2]->next == J, "after the third operand control falls through into the join block");
	__CPROVER_assert(J->phi.blk[0] == g_end_after[1] && J->phi.val[0] == &v_t, "phi source 1: the block control comes from after the SECOND operand, with its value");
	__CPROVER_assert(J->phi.blk[1] == g_end_after[2] && J->phi.val[1] == &v_f, "phi source 2: the block control comes from after the THIRD operand, with its value");
	if (in_rk == 3)
		__CPROVER_assert(ret == 0 && fn.lastid == in_lastid, "a void conditional has no value and defines no temporary");
	else
		__CPROVER_assert(ret == &J->phi.res && J->phi.res.kind == VALUE_TEMP && J->phi.res.id == in_lastid + 1 &&
		                 J->phi.class == (in_rk == 0 ? 'w' : in_rk == 1 ? 'l' : 'd'), "the value is a fresh temporary of the result type's class defined by the join block's phi");
#ifdef VERIF_CANARY
	__CPROVER_assert(in_lastid != 5, "CANARY");
#endif
}
