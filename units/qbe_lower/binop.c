/* UNIT
{
 "id": "QBE.binop",
 "file": "qbe.c", "function": "funcexpr", "also_functions": ["qbetype"],
 "properties": {"C01": "contract", "C19": "safety"},
 "mode": "harness",
 "generate": [{"tool": "gen_switch_arm", "args": ["qbe.c", "funcexpr", "e->kind", "EXPRBINARY"], "out": "qbe_funcexpr_binary.c"}],
 "replace_calls": {"funcinst": "rec_funcinst"},
 "variants": {"TMUL": ["-DV_OP=TMUL"], "TDIV": ["-DV_OP=TDIV"], "TMOD": ["-DV_OP=TMOD"], "TADD": ["-DV_OP=TADD"], "TSUB": ["-DV_OP=TSUB"],
              "TSHL": ["-DV_OP=TSHL"], "TSHR": ["-DV_OP=TSHR"], "TBAND": ["-DV_OP=TBAND"], "TBOR": ["-DV_OP=TBOR"], "TXOR": ["-DV_OP=TXOR"],
              "TLESS": ["-DV_OP=TLESS"], "TGREATER": ["-DV_OP=TGREATER"], "TLEQ": ["-DV_OP=TLEQ"], "TGEQ": ["-DV_OP=TGEQ"], "TEQL": ["-DV_OP=TEQL"], "TNEQ": ["-DV_OP=TNEQ"]},
 "canary_variant": "TSHR",
 "cbmc_flags": ["--no-simplify"], "retry_no_simplify": false,
 "kind": "proof", "unwind": 2,
 "link_repo": ["type.c"],
 "timeout": 300, "replay": false,
 "assumes": ["MECHANICAL EXTRACTION: the unit compiles a copy of /repo/qbe.c generated on every run by bin/gen_switch_arm, in which the arms of funcexpr's `switch (e->kind)` other than `case EXPRBINARY:` are deleted and nothing else is changed (CBMC needs --no-simplify to follow `e->u.binary.l->type`, a pointer read through the union of struct expr, and without the simplifier it cannot prune the other 13 arms); the tool aborts if the function, the switch or the label is not found exactly once",
             "inductive step of the structural induction over expressions: the two operands are already evaluated (the inner funcexpr calls go to hyp_funcexpr, which returns their temporaries); funcinst is a recorder returning a fresh temporary",
             "operands have the common type mkbinaryexpr gave them (EXPR.mkbinary.type): int, unsigned, long, unsigned long, float or double (pointers are compared/added as unsigned long); result type int for comparisons, the common type otherwise; shifts: left operand type",
             "value level for integer + - & | ^ << >> and all comparisons (QBE semantics spec/qbe_sem.h against C semantics spec/c_arith.h); opcode level (signed/unsigned/float choice and class) for * / % and for floating operands"]
}
*/
#include "funcexpr_redirect.h"
#include "qbe_funcexpr_binary.c"        /* generated: /repo/qbe.c with the other arms of funcexpr's switch removed */
#undef funcexpr
#include "verif.h"
#include "c_arith.h"
#include "qbe_sem.h"

struct token tok;
const struct target *targ;

static struct value v_l, v_r, v_res;
static struct expr leaf_l, leaf_r;
static int g_op, g_class, g_ninst;
static struct value *g_a, *g_b;

struct value *hyp_funcexpr(struct func *f, struct expr *e) { return e == &leaf_l ? &v_l : &v_r; }
struct value *
rec_funcinst(struct func *f, int op, int class, struct value *a, struct value *b)
{
	g_ninst++; g_op = op; g_class = class; g_a = a; g_b = b;
	return &v_res;
}

/*
 * C11 6.5.5-6.5.10: the binary operators on operands of a common real type T: signed T uses signed division, remainder,
 * arithmetic right shift and signed ordering; unsigned T (and pointers) the unsigned forms; the operation is carried
 * out in T's width; comparisons yield int 0/1.  The ONE instruction funcexpr emits must compute exactly that.
 */
void
harness(void)
{
	static struct type t, t_int;
	static struct expr e;
	static struct func fn;
	struct value *ret;
	IN(unsigned, in_sz); IN(bool, in_sg); IN(bool, in_flt); IN(u64, in_a); IN(u64, in_b);
	enum tokenkind op = V_OP;
	bool iscmp = op == TLESS || op == TGREATER || op == TLEQ || op == TGEQ || op == TEQL || op == TNEQ;
	bool ok = true; u64 got, want = 0; unsigned rsz;

	__CPROVER_assume(in_sz == 4 || in_sz == 8);
	__CPROVER_assume(!in_flt || !(op == TMOD || op == TSHL || op == TSHR || op == TBAND || op == TBOR || op == TXOR));
	t.kind = in_flt ? (in_sz == 4 ? TYPEFLOAT : TYPEDOUBLE) : (in_sz == 4 ? TYPEINT : TYPELONG);
	t.prop = PROPSCALAR|PROPARITH|PROPREAL|(in_flt ? PROPFLOAT : PROPINT);
	t.size = t.align = in_sz; t.u.basic.issigned = in_flt ? false : in_sg;
	t_int.kind = TYPEINT; t_int.prop = PROPSCALAR|PROPARITH|PROPREAL|PROPINT; t_int.size = t_int.align = 4; t_int.u.basic.issigned = true;
	leaf_l.kind = EXPRTEMP; leaf_l.type = &t; leaf_r.kind = EXPRTEMP; leaf_r.type = &t;
	e.kind = EXPRBINARY; e.op = op; e.type = iscmp ? &t_int : &t;
	e.u.binary.l = &leaf_l; e.u.binary.r = &leaf_r;
	g_ninst = 0;

	ret = funcexpr(&fn, &e);

	__CPROVER_assert(g_ninst == 1 && ret == &v_res && g_a == &v_l && g_b == &v_r, "exactly one instruction on the two operand values, left operand first; its result is the value of the expression");
	rsz = iscmp ? 4 : in_sz;
	__CPROVER_assert(g_class == (in_flt && !iscmp ? (in_sz == 4 ? 's' : 'd') : rsz == 4 ? 'w' : 'l'), "result class is the class of the expression's type");
	if (in_flt) {
		int w4 = in_sz == 4, wop =
			op == TMUL ? IMUL : op == TDIV ? IDIV : op == TADD ? IADD : op == TSUB ? ISUB :
			op == TLESS ? (w4 ? ICLTS : ICLTD) : op == TGREATER ? (w4 ? ICGTS : ICGTD) : op == TLEQ ? (w4 ? ICLES : ICLED) :
			op == TGEQ ? (w4 ? ICGES : ICGED) : op == TEQL ? (w4 ? ICEQS : ICEQD) : (w4 ? ICNES : ICNED);
		__CPROVER_assert(g_op == wop, "floating operands: the floating form of the operator for the operand width (ordered comparisons)");
	} else if (op == TMUL || op == TDIV || op == TMOD) {
		__CPROVER_assert(g_op == (op == TMUL ? IMUL : op == TDIV ? (in_sg ? IDIV : IUDIV) : (in_sg ? IREM : IUREM)),
		                 "* is mul; / and % are the signed forms for signed T and the unsigned forms for unsigned T");
	} else {
		u64 a = spec_wrap(in_a, in_sz, in_sg), b = spec_wrap(in_b, in_sz, in_sg);
		/* operands in class-w temporaries have arbitrary upper halves: take the inputs as given */
		u64 ra = in_sz == 4 ? in_a : a, rb = in_sz == 4 ? in_b : b;
		a = spec_wrap(ra, in_sz, in_sg); b = spec_wrap(rb, in_sz, in_sg);
		if (iscmp) {
			got = qbe_sem_cmp(g_op, ra, rb);
			__CPROVER_assert(qbe_cmp_argclass(g_op) == (in_sz == 4 ? 'w' : 'l'), "comparison in the width of the operands");
			switch (op) {
			case TLESS: want = spec_lt(a, b, in_sg); break; case TGREATER: want = spec_lt(b, a, in_sg); break;
			case TLEQ: want = spec_le(a, b, in_sg); break; case TGEQ: want = spec_le(b, a, in_sg); break;
			case TEQL: want = a == b; break; default: want = a != b; break;
			}
			__CPROVER_assert(got == want, "the comparison yields 1 iff the C relation holds in T's signedness, else 0");
		} else {
			if ((op == TSHL || op == TSHR) && !spec_shiftdefined(b, in_sz)) {
				ok = false;   /* undefined in C: unconstrained */
			} else {
				bool sok = true;
				got = qbe_sem_int(g_op, g_class, ra, rb, &sok);
				switch (op) {
				case TADD: want = spec_add(a, b, in_sz, in_sg); break; case TSUB: want = spec_sub(a, b, in_sz, in_sg); break;
				case TBAND: want = spec_and(a, b, in_sz, in_sg); break; case TBOR: want = spec_or(a, b, in_sz, in_sg); break;
				case TXOR: want = spec_xor(a, b, in_sz, in_sg); break;
				case TSHL: want = spec_shl(a, b, in_sz, in_sg); break; default: want = spec_shr(a, b, in_sz, in_sg); break;
				}
				__CPROVER_assert(sok, "the instruction is defined on these operands");
				__CPROVER_assert(spec_wrap(got, in_sz, in_sg) == want, "the value computed in T's width is the C result (wrapping + - <<; arithmetic >> for signed T, logical for unsigned)");
			}
		}
	}
#ifdef VERIF_CANARY
	__CPROVER_assert(!(in_sg && in_sz == 8 && !in_flt), "CANARY");
#endif
}
