/* UNIT
{
 "id": "QBE.binop",
 "file": "qbe.c", "function": "funcexpr", "also_functions": ["qbetype", "calcvla"],
 "properties": {"C01": "contract", "C19": "safety"},
 "mode": "harness",
 "replace_calls": {"funcinst": "rec_funcinst", "funcload": "un_funcload", "funcstore": "un_funcstore", "funclval": "un_funclval", "funcinit": "un_funcinit", "convert": "un_convert", "emittype": "un_emittype", "funcjnz": "un_funcjnz"},
 "cbmc_flags": ["--no-simplify"], "retry_no_simplify": false,
 "kind": "proof", "unwind": 2,
 "variants": {"TMUL": ["-DV_OP=TMUL"], "TDIV": ["-DV_OP=TDIV"], "TMOD": ["-DV_OP=TMOD"], "TADD": ["-DV_OP=TADD"], "TSUB": ["-DV_OP=TSUB"], "TSHL": ["-DV_OP=TSHL"], "TSHR": ["-DV_OP=TSHR"], "TBAND": ["-DV_OP=TBAND"], "TBOR": ["-DV_OP=TBOR"], "TXOR": ["-DV_OP=TXOR"], "TLESS": ["-DV_OP=TLESS"], "TGREATER": ["-DV_OP=TGREATER"], "TLEQ": ["-DV_OP=TLEQ"], "TGEQ": ["-DV_OP=TGEQ"], "TEQL": ["-DV_OP=TEQL"], "TNEQ": ["-DV_OP=TNEQ"]},
 "canary_variant": "TSHR",
 "link_repo": ["type.c"],
 "timeout": 200,
 "replay": false,
 "assumes": ["funcexpr is recursive: this is the inductive step of a structural induction (DESIGN 2.3.7a). The real body is verified for one EXPRBINARY node; its INNER recursive calls are redirected to the stand-in hyp_funcexpr() = the induction hypothesis for operands that are already evaluated (EXPRTEMP leaf: asserted; yields its temporary, emits nothing). Harness-enforced (PRE assumed, POST asserted around the real call; no DFCC frame check: under DFCC CBMC loses the points-to set of e->u.binary.l). The redirection is done by the preprocessor (funcexpr_redirect.h) because vcheck cannot sequence two --replace-calls passes and --enforce-contract-rec hangs in symex on this function; /repo is not edited and the outer body is the real text",
             "IL builder: funcinst appends exactly the instruction it is given and returns its fresh result temporary; QBE executes it with the meaning of spec/qbe_sem.h (stubs/il_rec.c)",
             "operand types as mkbinaryexpr leaves them: arithmetic/bitwise/comparison operands both of the common real type (size 4 or 8 integers after promotion, float, double) or both pointers; pointer +- integer as (pointer, unsigned long already scaled); shifts: both promoted separately, result type = left type; result type int for comparisons",
             "long double operands are outside the domain (every producer of a long double value is supposed to diagnose; see QBE.convert.ldouble)",
             "representation invariant: a 4-byte value lives in the low word of its temporary, upper bits arbitrary",
             "signed + - * << wrap; >> of a negative value is arithmetic (implementation-defined, every psABI target); / % << >> are constrained only where C defines them (6.5.5p5-6, 6.5.7p3)",
             "floating operators at opcode level (instruction, class, operand order)"]
}
*/
#include "funcexpr_redirect.h"      /* inner funcexpr(...) calls -> hyp_funcexpr(...), definition untouched */
#include "qbe.c"
#undef funcexpr
#include "verif.h"
#include "c_arith.h"
#include "qbe_sem.h"
#include "il_rec.c"
#include "lower_common.h"

/* ghosts */
u64 g_l, g_r;               /* carriers of the operand temporaries */
unsigned g_sz, g_rsz;       /* sizes of the left / right operand types (8 for pointers) */
bool g_sg, g_rsg;           /* their signedness (pointers: unsigned) */
bool g_flt, g_ptr;          /* left operand floating / pointer */
int g_op;
struct value *g_lp, *g_rp;
struct expr *g_el, *g_er;   /* the two operand nodes */

#define ISARITH(op) ((op) == TMUL || (op) == TDIV || (op) == TMOD || (op) == TADD || (op) == TSUB || \
                     (op) == TBAND || (op) == TBOR || (op) == TXOR)
#define ISSHIFT(op) ((op) == TSHL || (op) == TSHR)
#define ISCMP(op)   ((op) == TLESS || (op) == TGREATER || (op) == TLEQ || (op) == TGEQ || (op) == TEQL || (op) == TNEQ)
/* the operand nodes are named through ghosts: CBMC represents `e->u` by its first widest member (string: {char *,
   size_t}), so a pointer read back from u.binary.r has lost its provenance and cannot be dereferenced (pointer
   comparison still works) */
#define LT (g_el->type)
#define RT (g_er->type)
#define INT48(t) (ISINTT(t) && ((t)->size == 4 || (t)->size == 8))

#define LEAF (e->kind == EXPRTEMP)
#define NODE (e->kind == EXPRBINARY)

#define PRE(X) \
	X(f != 0 && e != 0 && NODE && (int)e->op == g_op) \
	X(ISARITH(g_op) || ISSHIFT(g_op) || ISCMP(g_op)) \
	X(e->u.binary.l == g_el && e->u.binary.r == g_er && g_el != 0 && g_er != 0 && g_el != g_er) \
	X(g_el->kind == EXPRTEMP && g_er->kind == EXPRTEMP) \
	X(g_el->u.temp == g_lp && g_er->u.temp == g_rp && g_lp != 0 && g_rp != 0 && g_lp != g_rp) \
	X(g_lp->kind == VALUE_TEMP && g_lp->u.i == g_l && g_rp->kind == VALUE_TEMP && g_rp->u.i == g_r) \
	X(INT48(LT) || ISPTRT(LT) || ISFLTT(LT)) \
	X(g_flt == ISFLTT(LT) && g_ptr == ISPTRT(LT)) \
	X(g_sz == CSIZE(LT) && g_rsz == CSIZE(RT)) \
	X(IMP(!g_flt, g_sg == CSIGN(LT) && g_rsg == CSIGN(RT))) \
	/* 6.5.5-6.5.12 operand constraints, after mkbinaryexpr's conversions */ \
	X(IMP(g_flt, g_op == TMUL || g_op == TDIV || g_op == TADD || g_op == TSUB || ISCMP(g_op))) \
	X(IMP(g_ptr, g_op == TADD || g_op == TSUB || ISCMP(g_op))) \
	X(IMP(ISSHIFT(g_op), INT48(RT) && e->type == LT)) \
	X(IMP(ISARITH(g_op) && !g_ptr, RT == LT && e->type == LT)) \
	X(IMP(ISARITH(g_op) && g_ptr, INT48(RT) && g_rsz == 8 && !g_rsg && e->type == LT)) \
	X(IMP(ISCMP(g_op), RT == LT && INT48(e->type) && e->type->size == 4 && e->type->u.basic.issigned)) \
	X(BASICT(typeulong, TYPELONG, 8, 0)) \
	X(rec.n == 0 && rec.ok && !rec.overflow && !rec.nonint && rec.nload == 0 && rec.nstore == 0) \
	X(g_no_error == 1)

#define L        spec_wrap(g_l, g_sz, g_sg)         /* C values of the operands, canonical carriers */
#define R        spec_wrap(g_r, g_rsz, g_rsg)
#define RES      (HRET->u.i)
#define RESV     spec_wrap(RES, g_sz, g_sg)         /* the result read as a value of the (left operand's =) result type */
#define RESI     spec_wrap(RES, 4, 1)               /* the result read as an int */
#define INTOP    (!g_flt)
#define DIVOK    spec_divdefined(L, R, g_sz, g_sg)
#define SHOK     spec_shiftdefined(R, g_sz)
#define LAST     rec.last
#define FCLS     (g_sz == 8 ? 'd' : 's')
#define FOP(s, d) (LAST.op == (g_sz == 8 ? (d) : (s)))

#define POST(X) \
	/* one instruction, on the two operand temporaries in source order, whose result is the value of the expression */ \
	X(IMP(NODE, HRET != 0 && rec.n == 1 && LAST.arg[0] == g_lp && LAST.arg[1] == g_rp && HRET == LAST.resp)) \
	X(IMP(NODE, !rec.overflow && rec.nload == 0 && rec.nstore == 0)) \
	/* result class: word for comparisons (int), else the class of the result type */ \
	X(IMP(NODE && ISCMP(g_op), LAST.cls == 'w')) \
	X(IMP(NODE && !ISCMP(g_op) && INTOP, LAST.cls == (g_sz == 8 ? 'l' : 'w'))) \
	X(IMP(NODE && !ISCMP(g_op) && g_flt, LAST.cls == FCLS)) \
	/* integers and pointers, value level: whenever C defines the result, the instruction is defined and computes it */ \
	X(IMP(NODE && INTOP && g_op != TDIV && g_op != TMOD && !ISSHIFT(g_op), rec.ok && !rec.nonint)) \
	X(IMP(NODE && INTOP && g_op == TMUL, RESV == spec_mul(L, R, g_sz, g_sg))) \
	X(IMP(NODE && INTOP && g_op == TADD, RESV == spec_add(L, R, g_sz, g_sg))) \
	X(IMP(NODE && INTOP && g_op == TSUB, RESV == spec_sub(L, R, g_sz, g_sg))) \
	X(IMP(NODE && INTOP && g_op == TBAND, RESV == spec_and(L, R, g_sz, g_sg))) \
	X(IMP(NODE && INTOP && g_op == TBOR, RESV == spec_or(L, R, g_sz, g_sg))) \
	X(IMP(NODE && INTOP && g_op == TXOR, RESV == spec_xor(L, R, g_sz, g_sg))) \
	X(IMP(NODE && INTOP && g_op == TDIV && DIVOK, rec.ok && RESV == spec_div(L, R, g_sz, g_sg))) \
	X(IMP(NODE && INTOP && g_op == TMOD && DIVOK, rec.ok && RESV == spec_mod(L, R, g_sz, g_sg))) \
	X(IMP(NODE && INTOP && g_op == TSHL && SHOK, rec.ok && RESV == spec_shl(L, R, g_sz, g_sg))) \
	X(IMP(NODE && INTOP && g_op == TSHR && SHOK, rec.ok && RESV == spec_shr(L, R, g_sz, g_sg))) \
	X(IMP(NODE && INTOP && g_op == TLESS, RESI == spec_lt(L, R, g_sg))) \
	X(IMP(NODE && INTOP && g_op == TGREATER, RESI == spec_lt(R, L, g_sg))) \
	X(IMP(NODE && INTOP && g_op == TLEQ, RESI == spec_le(L, R, g_sg))) \
	X(IMP(NODE && INTOP && g_op == TGEQ, RESI == spec_le(R, L, g_sg))) \
	X(IMP(NODE && INTOP && g_op == TEQL, RESI == (L == R))) \
	X(IMP(NODE && INTOP && g_op == TNEQ, RESI == (L != R))) \
	/* float / double, opcode level (QBE reference: add sub mul div on s/d; c{lt,gt,le,ge,eq,ne}{s,d}: ordered \
	   comparisons false on NaN, ne true on NaN, as 6.5.8p6/6.5.9p3 + IEEE 754 annex F require) */ \
	X(IMP(NODE && g_flt && g_op == TMUL, LAST.op == IMUL)) \
	X(IMP(NODE && g_flt && g_op == TDIV, LAST.op == IDIV)) \
	X(IMP(NODE && g_flt && g_op == TADD, LAST.op == IADD)) \
	X(IMP(NODE && g_flt && g_op == TSUB, LAST.op == ISUB)) \
	X(IMP(NODE && g_flt && g_op == TLESS, FOP(ICLTS, ICLTD))) \
	X(IMP(NODE && g_flt && g_op == TGREATER, FOP(ICGTS, ICGTD))) \
	X(IMP(NODE && g_flt && g_op == TLEQ, FOP(ICLES, ICLED))) \
	X(IMP(NODE && g_flt && g_op == TGEQ, FOP(ICGES, ICGED))) \
	X(IMP(NODE && g_flt && g_op == TEQL, FOP(ICEQS, ICEQD))) \
	X(IMP(NODE && g_flt && g_op == TNEQ, FOP(ICNES, ICNED))) \
	/* operands only read */ \
	X(IMP(NODE, g_lp->u.i == g_l && g_rp->u.i == g_r && e->kind == EXPRBINARY)) \
	CANARY(X, !(NODE && g_op == TSHR && g_sz == 4 && g_sg && g_r == 3))

/* CBMC 6.11's expression simplifier mis-rewrites `e->u.binary.l->type` (byte_extract from the union's FIRST member
   `ident`, which is only 8 bytes wide: the value read back is NULL), so this unit runs with --no-simplify.  Without
   the simplifier symex cannot prune the other cases of funcexpr's switch; the callees that only those cases use are
   replaced by stubs that assert false (sound: reaching one is a failed obligation). */
#define UNREACHED(what) __CPROVER_assert(0, what " reached from an EXPRBINARY node over evaluated operands")
struct value *un_funcload(struct func *f, struct type *t, struct lvalue lval) { UNREACHED("funcload"); return 0; }
struct value *un_funcstore(struct func *f, struct type *t, enum typequal tq, struct lvalue lval, struct value *v) { UNREACHED("funcstore"); return 0; }
struct lvalue un_funclval(struct func *f, struct expr *e) { struct lvalue lv = {0}; UNREACHED("funclval"); return lv; }
void un_funcinit(struct func *f, struct decl *d, struct init *init, bool hasinit) { UNREACHED("funcinit"); }
struct value *un_convert(struct func *f, struct type *dst, struct type *src, struct value *l) { UNREACHED("convert"); return 0; }
void un_emittype(struct type *t) { UNREACHED("emittype"); }
void un_funcjnz(struct func *f, struct value *v, struct type *t, struct block *l1, struct block *l2) { UNREACHED("funcjnz"); }

/* induction hypothesis for the operands (stands for the inner recursive calls) */
struct value *
hyp_funcexpr(struct func *f, struct expr *e)
{
	__CPROVER_assert(e == g_el || e == g_er, "recursive call on one of the two operand nodes");
	return e == g_el ? g_el->u.temp : g_er->u.temp;
}


void
harness(void)
{
	static struct type tl, tr, te;
	static struct expr ee, el, er;
	static struct func fn;
	static struct value lv, rv;
	struct func *f = &fn;
	struct expr *e = &ee;

	IN(int, in_op);
	IN(int, in_kind); IN(unsigned, in_sz); IN(bool, in_sg);
	IN(int, in_rkind); IN(unsigned, in_rsz); IN(bool, in_rsg);
	IN(u64, in_l); IN(u64, in_r);
#ifdef V_OP
	enum tokenkind op = V_OP;     /* one CBMC run per operator */
#else
	enum tokenkind op = in_op;
#endif

	lc_mktype(&tl, in_kind, in_sz, in_sg);
	lc_mktype(&tr, in_rkind, in_rsz, in_rsg);
	lc_basic(&te, TYPEINT, 4, 1);
	lc_basic(&typeulong, TYPELONG, 8, 0);
	el.kind = EXPRTEMP; el.type = &tl; el.u.temp = &lv;
	er.kind = EXPRTEMP; er.u.temp = &rv;
	er.type = (ISSHIFT(op) || (ISARITH(op) && in_kind == TYPEPOINTER)) ? &tr : &tl;
	ee.kind = EXPRBINARY;
	ee.op = op;
	ee.type = ISCMP(op) ? &te : &tl;
	ee.u.binary.l = &el;
	ee.u.binary.r = &er;
	rec_mktemp(&lv, 1, in_l);
	rec_mktemp(&rv, 2, in_r);
	rec_reset(0, 0);

	g_no_error = 1;        /* every operator/type combination admitted by PRE is valid C: no diagnostic may be reached */
	g_op = op;
	g_l = in_l; g_r = in_r; g_lp = &lv; g_rp = &rv; g_el = &el; g_er = &er;
	g_sz = tl.size; g_rsz = er.type->size;
	g_sg = in_kind != TYPEPOINTER && tl.u.basic.issigned;
	g_rsg = er.type->kind != TYPEPOINTER && er.type->u.basic.issigned;
	g_flt = (tl.prop & PROPFLOAT) != 0; g_ptr = in_kind == TYPEPOINTER;
	HCALLR(struct value *, PRE, POST, funcexpr(f, e));
}
