/* UNIT
{
 "id": "QBE.funcexpr.const",
 "file": "qbe.c", "function": "funcexpr",
 "properties": {"C01": "contract", "C19": "safety"},
 "mode": "harness", "post_macro": "POST_CONST",
 "replace_calls": {"funcinst": "rec_funcinst"},
 "kind": "proof", "unwind": 2,
 "link_repo": ["type.c"],
 "timeout": 120,
 "replay": false,
 "assumes": ["harness-enforced (funcexpr is recursive): PRE assumed, POST asserted around the real call; one EXPRCONST node, so no recursive call is reached (any would go to hyp_funcexpr and be counted)",
             "constant nodes as expr.c builds them: integer/pointer constants carry u.constant.u, floating constants u.constant.f, nullptr (expr.c:727) is an EXPRCONST of typenullptr with value 0; long double constants are outside the domain"]
}
*/
#include "funcexpr_redirect.h"      /* inner funcexpr(...) calls -> hyp_funcexpr(...), definition untouched */
#include "qbe.c"
#undef funcexpr
#include "verif.h"
#include "c_arith.h"
#include "qbe_sem.h"
#include "il_rec.c"
#include "lower_common.h"
#include "funcexpr_node.h"
#include "funcexpr_const.h"
