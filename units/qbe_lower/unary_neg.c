/* UNIT
{
 "id": "QBE.unary.neg",
 "file": "qbe.c", "function": "funcexpr", "also_functions": ["qbetype"],
 "properties": {"C01": "contract", "C19": "safety"},
 "mode": "harness",
 "replace_calls": {"funcinst": "rec_funcinst"},
 "kind": "proof", "unwind": 2,
 "link_repo": ["type.c"],
 "timeout": 120,
 "replay": false,
 "assumes": ["harness-enforced inductive step (funcexpr is recursive): one EXPRUNARY/TSUB node whose operand is already evaluated; the inner recursive call goes to hyp_funcexpr (funcexpr_node.h), which asserts that it is called on that evaluated leaf",
             "IL builder: funcinst appends exactly the instruction it is given and returns its fresh result temporary; QBE executes it with the meaning of spec/qbe_sem.h (stubs/il_rec.c)",
             "operand type as mkunaryexpr leaves it: promoted integer (size 4 or 8), float or double; result type == operand type; long double outside the domain (qbetype diagnoses it)",
             "signed negation wraps (INT_MIN stays INT_MIN: UB in C, so unconstrained by the standard); floating negation at opcode level"]
}
*/
#include "funcexpr_redirect.h"      /* inner funcexpr(...) calls -> hyp_funcexpr(...), definition untouched */
#include "qbe.c"
#undef funcexpr
#include "verif.h"
#include "c_arith.h"
#include "qbe_sem.h"
#include "il_rec.c"
#include "lower_common.h"
#include "funcexpr_node.h"

/* ghosts */
u64 g_x;
unsigned g_sz;
bool g_sg, g_flt;
struct value *g_xp;
struct expr *g_leaf;

#define INT48(t) (ISINTT(t) && ((t)->size == 4 || (t)->size == 8))

#define PRE(X) \
	X(f != 0 && e != 0 && e->kind == EXPRUNARY && e->op == TSUB && e->base == g_leaf && g_leaf != 0) \
	X(g_leaf->kind == EXPRTEMP && g_leaf->u.temp == g_xp && g_xp != 0 && g_xp->kind == VALUE_TEMP && g_xp->u.i == g_x) \
	X(e->type == g_leaf->type && (INT48(e->type) || ISFLTT(e->type))) \
	X(g_sz == CSIZE(e->type) && g_flt == ISFLTT(e->type)) \
	X(IMP(!g_flt, g_sg == CSIGN(e->type))) \
	X(rec.n == 0 && rec.ok && !rec.overflow && !rec.nonint && hyp_calls == 0 && g_no_error == 1)

#define LAST rec.last
#define POST(X) \
	/* the operand is evaluated exactly once; the value of the expression is the result of the last instruction */ \
	X(hyp_calls == 1) \
	X(HRET != 0 && rec.n >= 1 && !rec.overflow && HRET == LAST.resp && rec.nload == 0 && rec.nstore == 0) \
	/* floating (opcode level): exactly `neg` on the operand */ \
	X(IMP(g_flt, rec.n == 1 && LAST.op == INEG && LAST.arg[0] == g_xp && LAST.arg[1] == 0)) \
	X(IMP(!g_flt, LAST.cls == (g_sz == 8 ? 'l' : 'w'))) \
	X(IMP(g_flt, LAST.cls == (g_sz == 8 ? 'd' : 's'))) \
	/* 6.5.3.3p3: the result is the negative of the (promoted) operand, in the promoted type */ \
	X(IMP(!g_flt, rec.ok && !rec.nonint && spec_wrap(HRET->u.i, g_sz, g_sg) == spec_neg(spec_wrap(g_x, g_sz, g_sg), g_sz, g_sg))) \
	X(g_xp->u.i == g_x) \
	CANARY(X, !(!g_flt && g_sz == 4 && g_x == 5))

void
harness(void)
{
	static struct type ty;
	static struct expr ee, el;
	static struct func fn;
	static struct value xv;
	struct func *f = &fn;
	struct expr *e = &ee;

	IN(int, in_kind); IN(unsigned, in_sz); IN(bool, in_sg);
	IN(u64, in_x);

	lc_mktype(&ty, in_kind, in_sz, in_sg);
	el.kind = EXPRTEMP; el.type = &ty; el.u.temp = &xv;
	ee.kind = EXPRUNARY; ee.op = TSUB; ee.type = &ty; ee.base = &el;
	rec_mktemp(&xv, 1, in_x);
	rec_reset(0, 0);
	hyp_calls = 0;
	g_no_error = 1;
	g_x = in_x; g_xp = &xv; g_leaf = &el;
	g_sz = in_sz; g_sg = CSIGN(&ty); g_flt = ISFLTT(&ty);
	HCALLR(struct value *, PRE, POST, funcexpr(f, e));
}
