/* UNIT
{
 "id": "QBE.funcjnz",
 "file": "qbe.c", "function": "funcjnz", "also_functions": ["convert"],
 "properties": {"C01": "contract", "C10": "contract", "C19": "safety"},
 "mode": "dfcc", "enforce": "funcjnz/funcjnz_contract",
 "replace_calls": {"funcinst": "rec_funcinst"},
 "kind": "proof",
 "link_repo": ["type.c"],
 "timeout": 120,
 "expects": ["postcondition", "assigns"],
 "replay": false,
 "assumes": ["IL builder: funcinst appends exactly the instruction it is given and returns its fresh result temporary; QBE executes it with the meaning of spec/qbe_sem.h (stubs/il_rec.c)",
             "QBE IL reference, Jumps: `jnz v, @a, @b` reads v as a WORD (low 32 bits of an 'l' temporary) and goes to @a iff it is non-zero",
             "representation invariant: a value of a type of size n < 8 lives in a temporary whose low n bytes are its value, other bits arbitrary",
             "floating operands: opcode level only (the compare instruction, its class and operands are checked; its IEEE meaning `unordered or !=` is taken from the reference, not executed)",
             "typeint, typebool, typeulong as type.c defines them (stated in PRE: DFCC havocs globals); nullptr_t controlling expressions are tested like pointers (C23 6.3.2.4)"]
}
*/
#include "qbe.c"
#include "verif.h"
#include "c_arith.h"
#include "qbe_sem.h"
#include "il_rec.c"

#include "lower_common.h"

/* ghosts */
u64 g_x;                 /* carrier of v */
bool g_hast;             /* t != NULL */
unsigned g_sz;           /* size of *t */
bool g_sg, g_flt;        /* signedness (integers), floating */
int g_jk0;               /* b->jump.kind before the call */
struct value *g_jarg0, *g_v;
struct block *g_b, *g_jb0, *g_jb1, *g_l1, *g_l2;

#define ISFLT3(t) (ISFLTT(t) || ISLDBLT(t))

#define PRE(X) \
	X(f != 0 && f->end == g_b && g_b != 0 && v == g_v && v != 0 && l1 == g_l1 && l2 == g_l2) \
	X(g_hast == (t != 0)) \
	X(IMP(g_hast, t != &typeint && t != &typebool && t != &typeulong)) \
	X(IMP(g_hast, ISINTT(t) || ISPTRT(t) || ISNULLPTRT(t) || ISFLT3(t))) \
	X(IMP(g_hast, g_sz == t->size && g_flt == ((t->prop & PROPFLOAT) != 0))) \
	X(IMP(g_hast && !g_flt, g_sg == CSIGN(t))) \
	X(BASICT(typeint, TYPEINT, 4, 1) && BASICT(typebool, TYPEBOOL, 1, 0) && BASICT(typeulong, TYPELONG, 8, 0)) \
	X(v->kind == VALUE_TEMP && v->u.i == g_x) \
	X(IMP(g_hast && t->kind == TYPEBOOL, spec_wrap(g_x, 1, 0) <= 1)) \
	X(g_jk0 == (int)g_b->jump.kind && g_jarg0 == g_b->jump.arg && g_jb0 == g_b->jump.blk[0] && g_jb1 == g_b->jump.blk[1]) \
	X(rec.n == 0 && rec.ok && !rec.overflow && !rec.nonint && rec.nload == 0 && rec.nstore == 0) \
	/* the only unsupported controlling type is long double */ \
	X(g_no_error == !(g_hast && g_flt && g_sz == 16))

#define OPEN     (g_jk0 == JUMP_NONE)                   /* the current block has no terminator yet */
#define CVAL     spec_wrap(g_x, g_sz, g_sg)             /* C value of the controlling expression */
#define TESTED   ((u32)(g_b->jump.arg->u.i))            /* what jnz looks at */
#define POST(X) \
	/* code after a terminator is unreachable: nothing is emitted, the terminator stays */ \
	X(IMP(!OPEN, (int)g_b->jump.kind == g_jk0 && g_b->jump.arg == g_jarg0 && g_b->jump.blk[0] == g_jb0 && g_b->jump.blk[1] == g_jb1)) \
	X(IMP(!OPEN, rec.n == 0)) \
	/* C10: long double is diagnosed, not branched on */ \
	X(IMP(OPEN && g_hast && g_flt, g_sz != 16)) \
	X(IMP(OPEN, g_b->jump.kind == JUMP_JNZ && g_b->jump.blk[0] == g_l1 && g_b->jump.blk[1] == g_l2 && g_b->jump.arg != 0)) \
	X(rec.ok && !rec.overflow && rec.nload == 0 && rec.nstore == 0) \
	/* t == NULL: the caller vouches for a word (casesearch passes c*w results) */ \
	X(IMP(OPEN && !g_hast, g_b->jump.arg == g_v && rec.n == 0)) \
	/* 6.8.4.1p2 / 6.8.5p4: the branch is taken iff the expression compares unequal to 0 */ \
	X(IMP(OPEN && g_hast && !g_flt, !rec.nonint && (TESTED != 0) == (CVAL != 0))) \
	/* floating: one c{ne}{s,d} against a zero constant of the same class, word result, tested directly */ \
	X(IMP(OPEN && g_hast && g_flt, rec.n == 1 && rec.first.cls == 'w' && rec.first.arg[0] == g_v && g_b->jump.arg == rec.first.resp)) \
	X(IMP(OPEN && g_hast && g_flt && g_sz == 4, rec.first.op == ICNES && rec.first.arg[1] != 0 && rec.first.arg[1]->kind == VALUE_FLTCONST && rec.first.arg[1]->u.f == 0.0)) \
	X(IMP(OPEN && g_hast && g_flt && g_sz == 8, rec.first.op == ICNED && rec.first.arg[1] != 0 && rec.first.arg[1]->kind == VALUE_DBLCONST && rec.first.arg[1]->u.f == 0.0)) \
	/* frame */ \
	X(f->end == g_b && g_v->u.i == g_x) \
	CANARY(X, !(OPEN && g_hast && g_sz == 8 && !g_flt && g_x == 0x100000000ull))

void funcjnz_contract(struct func *f, struct value *v, struct type *t, struct block *l1, struct block *l2)
REQUIRES(PRE)
__CPROVER_assigns(rec, f->end->jump)
ENSURES(POST);

void
harness(void)
{
	static struct type ty;
	static struct func fn;
	static struct block blk, bl1, bl2, bo1, bo2;
	static struct value val, oldarg;
	struct func *f = &fn;
	struct value *v = &val;
	struct block *l1 = &bl1, *l2 = &bl2;

	IN(bool, in_hast); IN(int, in_kind); IN(unsigned, in_sz); IN(bool, in_sg);
	IN(u64, in_x);
	IN(int, in_jk);
	struct type *t = in_hast ? &ty : 0;

	lc_mktype(&ty, in_kind, in_sz, in_sg);
	typeint.kind = TYPEINT; typeint.size = 4; typeint.prop = INTPROP; typeint.u.basic.issigned = 1;
	typebool.kind = TYPEBOOL; typebool.size = 1; typebool.prop = INTPROP; typebool.u.basic.issigned = 0;
	typeulong.kind = TYPELONG; typeulong.size = 8; typeulong.prop = INTPROP; typeulong.u.basic.issigned = 0;

	__CPROVER_assume(in_jk >= JUMP_NONE && in_jk <= JUMP_HLT);
	fn.start = fn.end = &blk;
	blk.jump.kind = in_jk;
	blk.jump.arg = in_jk == JUMP_NONE ? 0 : &oldarg;
	blk.jump.blk[0] = in_jk == JUMP_NONE ? 0 : &bo1;
	blk.jump.blk[1] = in_jk == JUMP_NONE ? 0 : &bo2;
	rec_mktemp(v, 1, in_x);
	rec_reset(0, 0);

	g_b = &blk; g_v = v; g_l1 = l1; g_l2 = l2;
	g_hast = in_hast; g_sz = in_sz; g_x = in_x;
	g_flt = in_hast && (ty.prop & PROPFLOAT) != 0;
	g_sg = CSIGN(&ty);
	g_jk0 = in_jk; g_jarg0 = blk.jump.arg; g_jb0 = blk.jump.blk[0]; g_jb1 = blk.jump.blk[1];
	g_no_error = !(g_hast && g_flt && g_sz == 16);
	CALL(PRE, POST, funcjnz(f, v, t, l1, l2));
}
