/* UNIT
{
 "id": "QBE.call",
 "file": "qbe.c", "function": "funcexpr", "also_functions": ["qbetype"],
 "properties": {"C08": "contract", "C03": "contract", "C01": "contract", "C19": "safety"},
 "mode": "harness",
 "generate": [{"tool": "gen_switch_arm", "args": ["qbe.c", "funcexpr", "e->kind", "EXPRCALL"], "out": "qbe_funcexpr_call.c"}],
 "replace_calls": {"funcinst": "rec_funcinst", "emittype": "rec_emittype", "funchlt": "rec_funchlt"},
 "variants": {"n0": ["-DV_N=0"], "n1": ["-DV_N=1"], "n2": ["-DV_N=2"]},
 "canary_variant": "n2",
 "cbmc_flags": ["--no-simplify"], "retry_no_simplify": false,
 "kind": "bounded", "unwind": 4,
 "bound": "calls with 0, 1 or 2 arguments; argument and return types drawn from int, long, float, double, pointer and a struct; prototypes with 0..2 named parameters, variadic or not",
 "link_repo": ["type.c"],
 "timeout": 300, "replay": false,
 "assumes": ["MECHANICAL EXTRACTION as in QBE.binop (bin/gen_switch_arm keeps only `case EXPRCALL:`)",
             "inductive step: callee and argument evaluation go to hyp_funcexpr (one temporary each); funcinst logs the instruction stream; emittype is a recorder that gives an aggregate type its descriptor value (QBE.emittype is not under contract); funchlt is a recorder",
             "a call of a variadic function that passes NO variadic argument is emitted without the ... marker (upstream behaviour; the QBE reference allows a trailing marker and the SysV ABI wants %al set even then -- noted, not claimed)",
             "arguments already carry their converted/promoted types (EXPR.exprassign, TYPE.promote; default argument promotions are applied by postfixexpr, not under contract)"]
}
*/
#include "funcexpr_redirect.h"
#include "qbe_funcexpr_call.c"
#undef funcexpr
#include "verif.h"

struct token tok;
const struct target *targ;

#define NLOG 8
static struct { int op, class; struct value *a, *b; } lg[NLOG];
static unsigned nlog, nhlt;
static struct value v_fn, v_arg[2], v_call, v_other, v_desc[4];
static struct expr e_fn, e_arg[2];
static unsigned n_described;

struct value *hyp_funcexpr(struct func *f, struct expr *e) { return e == &e_fn ? &v_fn : e == &e_arg[0] ? &v_arg[0] : &v_arg[1]; }
struct value *
rec_funcinst(struct func *f, int op, int class, struct value *a, struct value *b)
{
	if (nlog < NLOG) { lg[nlog].op = op; lg[nlog].class = class; lg[nlog].a = a; lg[nlog].b = b; }
	nlog++;
	return op == ICALL ? &v_call : &v_other;
}
void
rec_emittype(struct type *t)
{
	/* what emittype does for the caller: an aggregate type gets (once) the value that names its description */
	if ((t->kind == TYPESTRUCT || t->kind == TYPEUNION) && !t->value && n_described < 4)
		t->value = &v_desc[n_described++];
}
void rec_funchlt(struct func *f) { nhlt++; }

/*
 * C08: "the parameter/return classes and the aggregate type descriptions cproc hands to the backend describe ... the same
 * layout and register classes as the C declarations"; C03: "call arguments, returns and parameters agree in class with
 * their signatures ... every aggregate type is defined before its first use".
 * QBE IL (reference, "Call"): `%r =T call $f(T1 a1, ..., ..., Tn an)`: scalar T = w l s d by the C type, aggregates by
 * their `:type`; the `...` marker stands right before the first variadic argument.
 */
static struct type tys[6], t_fn, t_fnptr;
static char classof[6] = {'w', 'l', 's', 'd', 'l', 'l'};   /* int long float double pointer struct */

static void
mkty(struct type *t, int k)
{
	static const unsigned sz[] = {4, 8, 4, 8, 8, 16};
	t->kind = k == 0 ? TYPEINT : k == 1 ? TYPELONG : k == 2 ? TYPEFLOAT : k == 3 ? TYPEDOUBLE : k == 4 ? TYPEPOINTER : TYPESTRUCT;
	t->prop = k == 5 ? 0 : k == 4 ? PROPSCALAR : PROPSCALAR|PROPARITH|PROPREAL|(k >= 2 ? PROPFLOAT : PROPINT);
	t->size = sz[k]; t->align = k == 5 ? 8 : sz[k]; t->u.basic.issigned = 1; t->value = 0;
}

void
harness(void)
{
	static struct expr e, e_addr, e_id; static struct decl d_fn; static struct func fn;
	static struct type ta[2], tr;
	struct value *ret;
	unsigned n = V_N, i, k, want;
	IN(int, in_k0); IN(int, in_k1); IN(int, in_kr); IN(unsigned, in_nparam); IN(bool, in_vararg); IN(bool, in_noreturn); IN(bool, in_direct);

	__CPROVER_assume(in_k0 >= 0 && in_k0 <= 5 && in_k1 >= 0 && in_k1 <= 5 && in_kr >= 0 && in_kr <= 5);
	__CPROVER_assume(in_nparam <= n && (in_vararg || in_nparam == n));
	typevoid.kind = TYPEVOID;
	mkty(&ta[0], in_k0); mkty(&ta[1], in_k1); mkty(&tr, in_kr);
	t_fn.kind = TYPEFUNC; t_fn.base = &tr; t_fn.u.func.isvararg = in_vararg; t_fn.u.func.nparam = in_nparam;
	t_fnptr.kind = TYPEPOINTER; t_fnptr.base = &t_fn; t_fnptr.size = t_fnptr.align = 8; t_fnptr.prop = PROPSCALAR;
	/* callee: &f (direct call) or an arbitrary pointer expression */
	d_fn.kind = DECLFUNC; d_fn.u.func.isnoreturn = in_noreturn;
	e_id.kind = EXPRIDENT; e_id.u.ident.decl = &d_fn; e_id.type = &t_fn;
	e_fn.kind = in_direct ? EXPRUNARY : EXPRTEMP; e_fn.op = TBAND; e_fn.base = &e_id; e_fn.type = &t_fnptr;
	for (i = 0; i < 2; i++) { e_arg[i].kind = EXPRTEMP; e_arg[i].type = &ta[i]; e_arg[i].next = 0; }
	e_arg[0].next = n > 1 ? &e_arg[1] : 0;
	e.kind = EXPRCALL; e.type = &tr; e.base = &e_fn; e.u.call.args = n ? &e_arg[0] : 0; e.u.call.nargs = n;
	nlog = nhlt = n_described = 0;

	ret = funcexpr(&fn, &e);

	want = 1 + n + (in_vararg && in_nparam < n ? 1 : 0);
	__CPROVER_assert(nlog == want, "one call instruction, one arg instruction per argument, one ... marker iff variadic arguments are passed");
	__CPROVER_assert(lg[0].op == ICALL && lg[0].a == &v_fn && ret == &v_call, "the call instruction comes first (QBE's encoding), on the evaluated callee; its result is the value of the expression");
	__CPROVER_assert(lg[0].class == classof[in_kr], "return class by the C return type");
	__CPROVER_assert(in_kr == 5 ? (lg[0].b != 0 && lg[0].b == tr.value) : lg[0].b == 0, "an aggregate return type is named by its description, which exists before the call is emitted");
	k = 1;
	for (i = 0; i < n; i++) {
		if (in_vararg && i == in_nparam) {
			__CPROVER_assert(lg[k].op == IVARARG, "the ... marker stands right before the first variadic argument");
			k++;
		}
		__CPROVER_assert(lg[k].op == IARG && lg[k].a == &v_arg[i], "arguments in order, each with its evaluated value");
		__CPROVER_assert(lg[k].class == classof[i == 0 ? in_k0 : in_k1], "argument class by the C type of the (converted) argument");
		__CPROVER_assert((i == 0 ? in_k0 : in_k1) == 5 ? (lg[k].b != 0 && lg[k].b == ta[i].value) : lg[k].b == 0,
		                 "an aggregate argument -- named OR variadic -- is passed under its type description, which exists before use");
		k++;
	}
	__CPROVER_assert(nhlt == (in_direct && in_noreturn ? 1u : 0u), "a direct call to a _Noreturn function is followed by hlt");
#ifdef VERIF_CANARY
	__CPROVER_assert(!(in_vararg && in_k1 == 5), "CANARY");
#endif
}
