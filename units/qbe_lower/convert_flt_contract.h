/*
 * Contract of qbe.c:convert() where a floating type is involved + harness (unit QBE.convert.flt).
 * Oracle: C11 6.3.1.4 (real floating <-> integer: truncation toward zero; exact or correctly rounded value of the
 * integer), 6.3.1.5 (float <-> double), 6.3.1.2 (_Bool); QBE IL reference "Conversions": stosi/stoui/dtosi/dtoui
 * take an s resp. d operand and give a signed/unsigned integer of the result class w or l; swtof/uwtof read a
 * signed/unsigned WORD, sltof/ultof a signed/unsigned LONG and give the result class s or d; exts: d(s); truncd: s(d).
 * The floating side is checked at OPCODE level (SAT is weak on floating point); the integer operand of
 * {s,u}{w,l}tof is checked at VALUE level: the integer the instruction reads is the C value of the source.
 */
/* ghosts */
u64 g_x;                    /* carrier of the source temporary if it is an integer: low g_ssz bytes significant */
unsigned g_ssz, g_dsz;
bool g_ssg, g_dsg, g_sflt, g_dflt, g_dbool;
struct value *g_lp;

#define PRE(X) \
	X(src != 0 && dst != 0 && src != &typeulong && dst != &typeulong) \
	X(ISINTT(src) || ISFLTT(src) || ISLDBLT(src)) \
	X(ISINTT(dst) || ISFLTT(dst) || ISLDBLT(dst)) \
	X(g_sflt == ((src->prop & PROPFLOAT) != 0) && g_dflt == ((dst->prop & PROPFLOAT) != 0) && (g_sflt || g_dflt)) \
	X(g_ssz == CSIZE(src) && g_dsz == CSIZE(dst) && g_dbool == (dst->kind == TYPEBOOL)) \
	X(IMP(!g_sflt, g_ssg == CSIGN(src))) \
	X(IMP(!g_dflt, g_dsg == CSIGN(dst))) \
	X(l == g_lp && g_lp != 0 && g_lp->kind == VALUE_TEMP && g_lp->u.i == g_x) \
	X(IMP(src->kind == TYPEBOOL, spec_wrap(g_x, 1, 0) <= 1)) \
	X(rec.n == 0 && rec.ok && !rec.overflow && !rec.nonint && rec.nload == 0 && rec.nstore == 0) \
	/* only long double may be diagnosed */ \
	X(g_no_error == !(g_ssz == 16 || g_dsz == 16))

#define LDBL     (g_ssz == 16 || g_dsz == 16)
#define SUBINT   (!g_sflt && g_ssz < 4)
#define F2F      (g_sflt && g_dflt)
#define F2I      (g_sflt && !g_dflt && !g_dbool)
#define F2B      (g_sflt && g_dbool)
#define I2F      (!g_sflt && g_dflt)
#define LAST     rec.last
#define ONE(o, c) (rec.n == 1 && LAST.op == (o) && LAST.cls == (c) && LAST.arg[0] == g_lp && RET == LAST.resp)

/* the mathematical integer (sign, 64 low bits) C converts, and the one the emitted int->float instruction reads */
#define CVAL     spec_wrap(g_x, g_ssz, g_ssg)
#define C_NEG    (g_ssg && (CVAL >> 63) != 0)
#define OPND     (LAST.a[0])
#define OP_LO    (LAST.op == ISWTOF ? (u64)(i64)(int32_t)(u32)OPND : LAST.op == IUWTOF ? (u64)(u32)OPND : OPND)
#define OP_NEG   ((LAST.op == ISWTOF || LAST.op == ISLTOF) && (OP_LO >> 63) != 0)
#define I2F_OP   (LAST.op == ISWTOF || LAST.op == IUWTOF || LAST.op == ISLTOF || LAST.op == IULTOF)

#define POST_FLT(X) \
	X(RET != 0) \
	X(rec.ok && !rec.overflow && rec.nload == 0 && rec.nstore == 0) \
	/* 6.3.1.5: same type: value unchanged, no code; float -> double exact (exts), double -> float rounds (truncd) */ \
	X(IMP(!LDBL && F2F && g_ssz == g_dsz, RET == g_lp && rec.n == 0)) \
	X(IMP(!LDBL && F2F && g_ssz == 4 && g_dsz == 8, ONE(IEXTS, 'd') && LAST.arg[1] == 0)) \
	X(IMP(!LDBL && F2F && g_ssz == 8 && g_dsz == 4, ONE(ITRUNCD, 's') && LAST.arg[1] == 0)) \
	/* 6.3.1.4p1: floating -> integer truncates toward zero: {s,d}to{s,u}i by source width and DESTINATION signedness, \
	   result class by destination size */ \
	X(IMP(!LDBL && F2I && g_ssz == 4 && g_dsg, ONE(ISTOSI, g_dsz == 8 ? 'l' : 'w') && LAST.arg[1] == 0)) \
	X(IMP(!LDBL && F2I && g_ssz == 4 && !g_dsg, ONE(ISTOUI, g_dsz == 8 ? 'l' : 'w') && LAST.arg[1] == 0)) \
	X(IMP(!LDBL && F2I && g_ssz == 8 && g_dsg, ONE(IDTOSI, g_dsz == 8 ? 'l' : 'w') && LAST.arg[1] == 0)) \
	X(IMP(!LDBL && F2I && g_ssz == 8 && !g_dsg, ONE(IDTOUI, g_dsz == 8 ? 'l' : 'w') && LAST.arg[1] == 0)) \
	/* 6.3.1.2: floating -> _Bool is (x != 0): cne{s,d} against a zero of the operand's class, word result */ \
	X(IMP(!LDBL && F2B && g_ssz == 4, ONE(ICNES, 'w') && LAST.arg[1] != 0 && LAST.arg[1]->kind == VALUE_FLTCONST && LAST.arg[1]->u.f == 0.0)) \
	X(IMP(!LDBL && F2B && g_ssz == 8, ONE(ICNED, 'w') && LAST.arg[1] != 0 && LAST.arg[1]->kind == VALUE_DBLCONST && LAST.arg[1]->u.f == 0.0)) \
	/* 6.3.1.4p2: integer -> floating: the last instruction is {s,u}{w,l}tof with the destination's class ... */ \
	X(IMP(!LDBL && I2F, rec.n >= 1 && I2F_OP && LAST.cls == (g_dsz == 8 ? 'd' : 's') && LAST.arg[1] == 0 && RET == LAST.resp)) \
	/* ... and the integer it reads (a signed/unsigned word/long per its mnemonic) IS the source value */ \
	X(IMP(!LDBL && I2F && !SUBINT, OP_LO == CVAL && OP_NEG == C_NEG)) \
	/* same fact for char/short/_Bool sources: its own clause because it FAILED on the pinned snapshot 135bd81 \
	   (swtof/uwtof applied to the un-extended operand: `(float)(short)x` compiled to `swtof %x`, f(0x12345) == 74565.0 \
	   instead of 9029.0); repaired in /repo by bc7214a */ \
	X(IMP(!LDBL && I2F && SUBINT, OP_LO == CVAL && OP_NEG == C_NEG)) \
	/* C10 (README "What's missing": long double): a conversion to or from long double is rejected.  FAILED on the \
	   pinned snapshot (`double g(int x){return (long double)x;}` compiled silently to swtof/truncd on mismatched \
	   classes); repaired in /repo by 6ae6305 */ \
	X(!LDBL) \
	X(g_lp->u.i == g_x) \
	CANARY(X, !(I2F && g_ssz == 8 && g_dsz == 4 && g_x == 5))

#define POST_SEL POST_FLT

static struct value *convert_contract(struct func *f, struct type *dst, struct type *src, struct value *l)
REQUIRES(PRE)
__CPROVER_assigns(rec)
ENSURES(POST_SEL);

void
harness(void)
{
	static struct type ts, td;
	static struct func fn;
	static struct value lv;
	struct func *f = &fn;
	struct type *src = &ts, *dst = &td;
	struct value *l = &lv;

	IN(int, in_skind); IN(unsigned, in_ssz); IN(bool, in_ssg);
	IN(int, in_dkind); IN(unsigned, in_dsz); IN(bool, in_dsg);
	IN(u64, in_x);

	__CPROVER_assume(in_skind != TYPEPOINTER && in_skind != TYPEVOID && in_skind != TYPESTRUCT && in_skind != TYPEUNION && in_skind != TYPEARRAY);
	__CPROVER_assume(in_dkind != TYPEPOINTER && in_dkind != TYPEVOID && in_dkind != TYPESTRUCT && in_dkind != TYPEUNION && in_dkind != TYPEARRAY);
	lc_mktype(src, in_skind, in_ssz, in_ssg);
	lc_mktype(dst, in_dkind, in_dsz, in_dsg);
	lc_basic(&typeulong, TYPELONG, 8, 0);
	rec_mktemp(l, 1, in_x);
	rec_reset(0, 0);
	g_no_error = !(in_ssz == 16 || in_dsz == 16);
	g_x = in_x; g_lp = l;
	g_ssz = in_ssz; g_ssg = in_ssg; g_dsz = in_dsz; g_dsg = in_dsg;
	g_sflt = (src->prop & PROPFLOAT) != 0; g_dflt = (dst->prop & PROPFLOAT) != 0;
	g_dbool = in_dkind == TYPEBOOL;
	CALLR(struct value *, PRE, POST_SEL, convert(f, dst, src, l));
}
