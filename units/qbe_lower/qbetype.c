/* UNIT
{
 "id": "QBE.qbetype",
 "file": "qbe.c", "function": "qbetype",
 "properties": {"C08": "contract", "C10": "contract", "C19": "safety"},
 "mode": "dfcc", "enforce": "qbetype/qbetype_contract",
 "kind": "proof",
 "link_repo": ["type.c"],
 "timeout": 120,
 "expects": ["postcondition"],
 "replay": false,
 "assumes": ["type objects are well-formed as type.c builds them: a scalar type has size 1, 2, 4, 8 or 16; size 1/2 scalars are basic integer types (u.basic.issigned meaningful); a 4-byte scalar is float iff PROPFLOAT, an 8-byte scalar is double iff PROPFLOAT (pointers and nullptr_t are 8-byte non-float scalars); the only 16-byte scalar is long double",
             "psABI (x86-64 SysV 3.2.3, AAPCS64, RISC-V LP64): _Bool/char/short/int/enum travel in 32-bit-or-wider integer registers = QBE class w, long/long long/pointers in 64-bit = l, float = s, double = d; aggregates are handed to QBE as an 'l' address together with their :type",
             "error()/fatal() do not return"]
}
*/
#include "qbe.c"
#include "verif.h"

extern int g_no_error;

/* ghosts */
unsigned long long g_size;
int g_prop;
bool g_sg;
bool g_isvoid;

#define SCALAR   ((g_prop & PROPSCALAR) != 0)
#define FLOATING ((g_prop & PROPFLOAT) != 0)

#define PRE(X) \
	X(t != 0) \
	X(g_isvoid == (t == &typevoid)) \
	X(g_size == t->size && g_prop == (int)t->prop && g_sg == t->u.basic.issigned) \
	/* is_valid(type): scalar sizes that type.c / targ.c can produce */ \
	X(IMP(SCALAR && !g_isvoid, g_size == 1 || g_size == 2 || g_size == 4 || g_size == 8 || g_size == 16)) \
	X(IMP(SCALAR && FLOATING, g_size == 4 || g_size == 8 || g_size == 16)) \
	X(IMP(SCALAR && g_size == 16, FLOATING)) \
	X(IMP(g_isvoid, !SCALAR))

/* Oracle (QBE IL reference "Types", "Memory"; psABI register classes):
 *   integer/pointer scalar of size n: base class w for n <= 4, l for n == 8;
 *     data item class b/h/w/l by size; store{b,h,w,l} by size; load sign- resp. zero-extending BY THE TYPE'S
 *     SIGNEDNESS for the sub-word sizes (loadsb/loadub, loadsh/loaduh), loadw, loadl;
 *   float: s / stores / loads;  double: d / stored / loadd;
 *   struct/union/array: the value is the ADDRESS of the object: class l, moved as l;
 *   void: no class at all;  long double: not supported => must be diagnosed (C10), never classified. */
#define R RET
#define POST(X) \
	/* C10: a normal return means the type was not long double */ \
	X(IMP(SCALAR, g_size != 16)) \
	X(IMP(g_isvoid, R.base == 0 && R.data == 0)) \
	X(IMP(!g_isvoid && !SCALAR, R.base == 'l' && R.data == 'l' && R.load == ILOADL && R.store == ISTOREL)) \
	X(IMP(SCALAR && !FLOATING && g_size <= 4, R.base == 'w')) \
	X(IMP(SCALAR && !FLOATING && g_size == 8, R.base == 'l')) \
	X(IMP(SCALAR && FLOATING && g_size == 4, R.base == 's' && R.data == 's' && R.load == ILOADS && R.store == ISTORES)) \
	X(IMP(SCALAR && FLOATING && g_size == 8, R.base == 'd' && R.data == 'd' && R.load == ILOADD && R.store == ISTORED)) \
	X(IMP(SCALAR && g_size == 1, R.data == 'b' && R.store == ISTOREB)) \
	X(IMP(SCALAR && g_size == 2, R.data == 'h' && R.store == ISTOREH)) \
	X(IMP(SCALAR && !FLOATING && g_size == 4, R.data == 'w' && R.store == ISTOREW && R.load == ILOADW)) \
	X(IMP(SCALAR && !FLOATING && g_size == 8, R.data == 'l' && R.store == ISTOREL && R.load == ILOADL)) \
	X(IMP(SCALAR && g_size == 1, R.load == (g_sg ? ILOADSB : ILOADUB))) \
	X(IMP(SCALAR && g_size == 2, R.load == (g_sg ? ILOADSH : ILOADUH))) \
	/* the type object is only read */ \
	X(t->size == g_size && (int)t->prop == g_prop) \
	CANARY(X, !(SCALAR && g_size == 2 && g_sg))

static struct qbetype qbetype_contract(struct type *t)
REQUIRES(PRE)
__CPROVER_assigns()
ENSURES(POST);

void
harness(void)
{
	static struct type ty;
	IN(bool, in_void);
	IN(unsigned long long, in_size);
	IN(int, in_prop);
	IN(bool, in_sg);
	IN(int, in_kind);
	struct type *t = in_void ? &typevoid : &ty;

	g_no_error = 0;   /* DFCC havocs every global at start-up; long double is a legitimate diagnostic here */
	ty.kind = in_kind;
	ty.size = in_size;
	ty.prop = in_prop;
	ty.u.basic.issigned = in_sg;
	g_isvoid = in_void;
	g_size = t->size;
	g_prop = t->prop;
	g_sg = t->u.basic.issigned;
	CALLR(struct qbetype, PRE, POST, qbetype(t));
}
