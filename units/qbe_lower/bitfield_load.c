/* UNIT
{
 "id": "QBE.bitfield.load",
 "file": "qbe.c", "function": "funcload", "also_functions": ["funcbits", "qbetype"],
 "properties": {"C01": "contract", "C10": "contract", "C19": "safety"},
 "mode": "dfcc", "enforce": "funcload/funcload_contract",
 "replace_calls": {"funcinst": "rec_funcinst"},
 "kind": "proof",
 "variants": {"sz1": ["-DV_SZ=1"], "sz2": ["-DV_SZ=2"], "sz4": ["-DV_SZ=4"], "sz8": ["-DV_SZ=8"], "other": ["-DV_OTHER"]},
 "canary_variant": "sz2",
 "link_repo": ["type.c"],
 "timeout": 200,
 "expects": ["postcondition", "assigns"],
 "replay": false,
 "assumes": ["IL builder: funcinst appends exactly the instruction it is given and returns its fresh result temporary; QBE executes it with the meaning of spec/qbe_sem.h; memory is one 8-byte little-endian cell at the lvalue's address (stubs/il_rec.c)",
             "bit-field geometry as decl.c addmember produces it: integer type of size 1/2/4/8, before >= 0, after >= 0, 1 <= width = 8*size - before - after; before == after == 0 is the plain scalar load",
             "floating and pointer loads, aggregates (variant `other`): opcode level (load instruction, class, address operand)",
             "error()/fatal() do not return; long double is the only scalar that may be diagnosed"]
}
*/
#include "qbe.c"
#include "verif.h"
#include "c_arith.h"
#include "c_bitfield.h"
#include "qbe_sem.h"
#include "il_rec.c"
#include "lower_common.h"

/* ghosts */
u64 g_old;               /* the 8 bytes at the lvalue's address (storage unit = its low g_sz bytes) */
u64 g_addr;
unsigned g_sz;
bool g_sg, g_int, g_agg, g_flt, g_ptr;
int g_before, g_after;
u64 g_o, g_w;            /* free logical variables of the round-trip clause */
struct value *g_ap;

#define WIDTH   ((unsigned)(8 * g_sz - g_before - g_after))

#define PRE(X) \
	X(f != 0 && t != 0) \
	X(g_int == ISINTT(t) && g_ptr == ISPTRT(t) && g_agg == ISAGGT(t) && g_flt == (ISFLTT(t) || ISLDBLT(t))) \
	X(g_int || g_ptr || g_agg || g_flt) \
	X(g_sz == CSIZE(t)) \
	X(IMP(g_int, g_sg == CSIGN(t))) \
	X(lval.bits.before == g_before && lval.bits.after == g_after) \
	X(g_before >= 0 && g_after >= 0) \
	X(IMP(g_int, g_before + g_after < 8 * (int)g_sz)) \
	X(IMP(!g_int, g_before == 0 && g_after == 0)) \
	X(lval.addr == g_ap && g_ap != 0 && g_ap->kind == VALUE_TEMP && g_ap->u.i == g_addr) \
	X(rec.n == 0 && rec.ok && !rec.overflow && !rec.nonint && rec.nload == 0 && rec.nstore == 0 && rec.maxw == 0) \
	X(rec.mem_addr == g_addr && rec.mem == g_old) \
	X(g_no_error == !(g_flt && g_sz == 16))

#define POST(X) \
	/* aggregates are designated by their address: no code */ \
	X(IMP(g_agg, RET == g_ap && rec.n == 0)) \
	/* C10: long double is diagnosed */ \
	X(IMP(g_flt, g_sz != 16)) \
	/* scalars: exactly one load, of exactly the object / storage unit, nothing written */ \
	X(IMP(!g_agg, rec.nload == 1 && rec.nstore == 0 && rec.maxw == g_sz && rec.ok && !rec.overflow)) \
	X(IMP(!g_agg, rec.first.arg[0] == g_ap && rec.first.arg[1] == 0)) \
	X(rec.mem == g_old) \
	X(IMP(!g_agg, RET != 0 && RET->kind == VALUE_TEMP)) \
	/* 6.3.2.1p2 lvalue conversion / 6.7.2.1p10: the value of the w-bit field, sign- or zero-extended by its type */ \
	X(IMP(g_int, !rec.nonint && spec_wrap(RET->u.i, g_sz, g_sg) == spec_bf_extract(g_old, WIDTH, g_before, g_sg))) \
	/* round trip with QBE.bitfield.store: a unit produced by `field = w` reads back as w converted to the field */ \
	X(IMP(g_int && g_old == spec_bf_insert(g_o, g_w, WIDTH, g_before), spec_wrap(RET->u.i, g_sz, g_sg) == spec_bf_conv(g_w, WIDTH, g_sg))) \
	/* pointer, float, double: the one instruction is the load of that class (QBE reference, Memory) */ \
	X(IMP(g_ptr, rec.n == 1 && rec.first.op == ILOADL && rec.first.cls == 'l' && RET->u.i == g_old)) \
	X(IMP(g_flt && g_sz == 4, rec.n == 1 && rec.first.op == ILOADS && rec.first.cls == 's')) \
	X(IMP(g_flt && g_sz == 8, rec.n == 1 && rec.first.op == ILOADD && rec.first.cls == 'd')) \
	X(g_ap->u.i == g_addr && rec.mem_addr == g_addr) \
	CANARY(X, !(g_sz == 2 && g_before == 3 && g_after == 8 && g_sg))

static struct value *funcload_contract(struct func *f, struct type *t, struct lvalue lval)
REQUIRES(PRE)
__CPROVER_assigns(rec)
ENSURES(POST);

void
harness(void)
{
	static struct type ty;
	static struct func fn;
	static struct value adr;
	struct func *f = &fn;
	struct type *t = &ty;
	struct lvalue lval;

	IN(int, in_kind); IN(unsigned, in_sz); IN(bool, in_sg);
	IN(int, in_before); IN(int, in_after);
	IN(u64, in_old); IN(u64, in_addr);
	ING(u64, g_o); ING(u64, g_w);
#ifdef V_SZ
	in_sz = V_SZ;    /* one CBMC run per storage-unit size */
	__CPROVER_assume(in_kind == TYPEBOOL || in_kind == TYPECHAR || in_kind == TYPESHORT || in_kind == TYPEINT ||
	                 in_kind == TYPEENUM || in_kind == TYPELONG || in_kind == TYPELLONG);
#else
	__CPROVER_assume(in_kind == TYPEPOINTER || in_kind == TYPEFLOAT || in_kind == TYPEDOUBLE || in_kind == TYPELDOUBLE ||
	                 in_kind == TYPESTRUCT || in_kind == TYPEUNION || in_kind == TYPEARRAY);
#endif
	__CPROVER_assume(in_before >= 0 && in_after >= 0 && in_before < 64 && in_after < 64);
	lc_mktype(t, in_kind, in_sz, in_sg);
	rec_mktemp(&adr, 2, in_addr);
	lval.addr = &adr;
	lval.bits.before = in_before;
	lval.bits.after = in_after;
	rec_reset(in_addr, in_old);

	g_old = in_old; g_addr = in_addr;
	g_sz = in_sz; g_sg = in_sg; g_before = in_before; g_after = in_after;
	g_ap = &adr;
	g_int = ISINTT(t); g_ptr = ISPTRT(t); g_agg = ISAGGT(t); g_flt = ISFLTT(t) || ISLDBLT(t);
	g_no_error = !(g_flt && g_sz == 16);
	CALLR(struct value *, PRE, POST, funcload(f, t, lval));
}
