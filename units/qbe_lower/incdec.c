/* UNIT
{
 "id": "QBE.incdec",
 "file": "qbe.c", "function": "funcexpr", "also_functions": ["qbetype", "mkintconst"],
 "properties": {"C01": "contract", "C19": "safety"},
 "mode": "harness",
 "generate": [{"tool": "gen_switch_arm", "args": ["qbe.c", "funcexpr", "e->kind", "EXPRINCDEC"], "out": "qbe_funcexpr_incdec.c"}],
 "replace_calls": {"funcinst": "rec_funcinst", "funclval": "rec_funclval", "funcload": "rec_funcload", "funcstore": "rec_funcstore"},
 "cbmc_flags": ["--no-simplify"], "retry_no_simplify": false,
 "kind": "proof", "unwind": 2,
 "link_repo": ["type.c"],
 "timeout": 300, "replay": false,
 "assumes": ["MECHANICAL EXTRACTION as in QBE.binop (bin/gen_switch_arm keeps only `case EXPRINCDEC:`)",
             "funclval/funcload/funcstore are recorders (their own units: QBE.bitfield.load/store, QBE.funcstore.const): the load yields the object's current value, the store stores the value it is given converted to the object's width; funcinst executes add/sub per spec/qbe_sem.h on ghost values",
             "operand types: char/short/int/long signed or unsigned, _Bool, pointer to an object of 1..64 bytes; floating operands at opcode level"]
}
*/
#include "funcexpr_redirect.h"
#include "qbe_funcexpr_incdec.c"
#undef funcexpr
#include "verif.h"
#include "c_arith.h"
#include "qbe_sem.h"

struct token tok;
const struct target *targ;
struct value *hyp_funcexpr(struct func *f, struct expr *e) { __CPROVER_assert(0, "the operand is evaluated as an lvalue only"); return 0; }

static struct value v_addr, v_old, v_new;
static u64 g_old, g_newv, g_stored; static bool g_isflt_const;
static int n_load, n_store, n_inst, n_conv, g_op, g_class;
static struct value *g_stored_v;

static u64 gv(struct value *v) { return v == &v_old ? g_old : v == &v_new ? g_newv : v->u.i; }
struct lvalue rec_funclval(struct func *f, struct expr *e) { struct lvalue l = {&v_addr}; return l; }
struct value *rec_funcload(struct func *f, struct type *t, struct lvalue lval) { n_load++; __CPROVER_assert(lval.addr == &v_addr, "loads the operand object"); return &v_old; }
struct value *
rec_funcinst(struct func *f, int op, int class, struct value *a, struct value *b)
{
	bool ok = true;
	if (op == IADD || op == ISUB) {
		n_inst++; g_op = op; g_class = class;
		g_isflt_const = b->kind == VALUE_FLTCONST || b->kind == VALUE_DBLCONST;
		__CPROVER_assert(a == &v_old, "the arithmetic is done on the loaded value");
		if (class == 'w' || class == 'l')
			g_newv = qbe_sem_int(op, class, gv(a), gv(b), &ok);
	} else {
		/* a conversion of the new value to the operand's type (convert(): cnew for _Bool) */
		n_conv++;
		__CPROVER_assert(a == &v_new && qbe_cmp_argclass(op) != 0, "anything else emitted is a comparison that converts the NEW value");
		g_newv = qbe_sem_cmp(op, gv(a), gv(b));
	}
	return &v_new;
}
struct value *
rec_funcstore(struct func *f, struct type *t, enum typequal tq, struct lvalue lval, struct value *v)
{
	n_store++; g_stored_v = v;
	__CPROVER_assert(lval.addr == &v_addr, "stores to the operand object");
	return v;
}

/*
 * C11 6.5.2.4 / 6.5.3.1: E++ / ++E add 1 to the value of the operand (for a pointer: one element), the result is the old
 * value for the postfix form and the NEW value of the operand for the prefix form; "the value 1 of the appropriate type
 * is added" and the result is stored as if by assignment, i.e. CONVERTED to the type of E (for _Bool: 0 or 1).
 */
void
harness(void)
{
	static struct type t, t_el; static struct expr e, e_op; static struct func fn;
	struct value *ret;
	IN(int, in_k);          /* 0 integer, 1 _Bool, 2 pointer, 3 float, 4 double */
	IN(unsigned, in_sz); IN(bool, in_sg); IN(u64, in_old); IN(bool, in_inc); IN(bool, in_post); IN(u64, in_elsz);
	unsigned sz;

	__CPROVER_assume(in_k >= 0 && in_k <= 4 && (in_sz == 1 || in_sz == 2 || in_sz == 4 || in_sz == 8) && in_elsz >= 1 && in_elsz <= 64);
	sz = in_k == 1 ? 1 : in_k == 2 ? 8 : in_k == 3 ? 4 : in_k == 4 ? 8 : in_sz;
	t.kind = in_k == 0 ? (sz == 1 ? TYPECHAR : sz == 2 ? TYPESHORT : sz == 4 ? TYPEINT : TYPELONG) : in_k == 1 ? TYPEBOOL : in_k == 2 ? TYPEPOINTER : in_k == 3 ? TYPEFLOAT : TYPEDOUBLE;
	t.prop = in_k == 2 ? PROPSCALAR : PROPSCALAR|PROPARITH|PROPREAL|(in_k >= 3 ? PROPFLOAT : PROPINT);
	t.size = t.align = sz; t.u.basic.issigned = in_k == 0 ? in_sg : false;
	t_el.kind = TYPESTRUCT; t_el.size = in_elsz; t_el.align = 1; t.base = in_k == 2 ? &t_el : 0;
	e_op.kind = EXPRIDENT; e_op.type = &t; e_op.lvalue = true;
	e.kind = EXPRINCDEC; e.op = in_inc ? TINC : TDEC; e.type = &t; e.base = &e_op; e.u.incdec.post = in_post; e.qual = QUALNONE;
	/* the loaded value: canonical for integer objects (QBE.bitfield.load / loads extend), 0 or 1 for _Bool */
	g_old = in_k == 1 ? (in_old & 1) : in_k == 2 ? in_old : spec_wrap(in_old, sz, in_sg);
	n_load = n_store = n_inst = n_conv = 0;
	v_new.kind = VALUE_TEMP; v_old.kind = VALUE_TEMP;

	ret = funcexpr(&fn, &e);

	__CPROVER_assert(n_load == 1 && n_inst == 1 && n_store == 1, "one load, one add/sub, one store: the operand is evaluated once");
	__CPROVER_assert(g_op == (in_inc ? IADD : ISUB), "++ adds, -- subtracts");
	__CPROVER_assert(g_stored_v == &v_new, "the new value is what is stored");
	__CPROVER_assert(n_conv <= 1, "at most one conversion of the new value");
	__CPROVER_assert(ret == (in_post ? &v_old : &v_new), "postfix yields the old value, prefix the new value");
	if (in_k >= 3) {
		__CPROVER_assert(g_class == (in_k == 3 ? 's' : 'd') && g_isflt_const, "floating operand: the floating add/sub of the operand's class with the constant 1");
	} else {
		u64 delta = in_k == 2 ? in_elsz : 1;
		u64 mathnew = in_inc ? g_old + delta : g_old - delta;
		__CPROVER_assert(g_class == (sz == 8 ? 'l' : 'w'), "integer class by the operand's size");
		if (in_k == 1)
			__CPROVER_assert(spec_wrap(g_newv, 1, false) == (u64)(mathnew != 0), "_Bool operand: the stored value is (old +- 1) converted to _Bool, i.e. 0 or 1");
		else
			__CPROVER_assert(spec_wrap(g_newv, sz, in_k == 0 && in_sg) == spec_wrap(mathnew, sz, in_k == 0 && in_sg),
			                 "the new value, in the operand's width, is old +- 1 (pointer: +- one element)");
	}
#ifdef VERIF_CANARY
	__CPROVER_assert(!(in_k == 2 && in_post), "CANARY");
#endif
}
