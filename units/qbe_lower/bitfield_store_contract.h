/*
 * Contract of qbe.c:funcstore() on bit-field lvalues + harness (unit QBE.bitfield.store).
 */
/* ghosts */
u64 g_old;               /* the 8 bytes at the lvalue's address before the store (unit = its low g_sz bytes) */
u64 g_v;                 /* carrier of the stored value */
u64 g_addr;              /* run-time address held by lval.addr */
unsigned g_sz;           /* size of the storage unit = size of the field's declared type */
bool g_sg;
int g_before, g_after;
int g_tq;
struct value *g_vp, *g_ap;

#define WIDTH   ((unsigned)(8 * g_sz - g_before - g_after))

#define PRE(X) \
	X(f != 0 && t != 0 && t != &typeulong && ISINTT(t)) \
	X(g_sz == CSIZE(t) && g_sg == CSIGN(t) && g_tq == (int)tq) \
	X(lval.bits.before == g_before && lval.bits.after == g_after) \
	X(g_before >= 0 && g_after >= 0 && g_before + g_after > 0 && g_before + g_after < 8 * (int)g_sz) \
	X(lval.addr == g_ap && g_ap != 0 && g_ap->kind == VALUE_TEMP && g_ap->u.i == g_addr) \
	X(v == g_vp && g_vp != 0 && g_vp != g_ap && g_vp->kind == VALUE_TEMP && g_vp->u.i == g_v) \
	X(IMP(t->kind == TYPEBOOL, spec_wrap(g_v, 1, 0) <= 1)) \
	X(rec.n == 0 && rec.ok && !rec.overflow && !rec.nonint && rec.nload == 0 && rec.nstore == 0 && rec.maxw == 0) \
	X(rec.mem_addr == g_addr && rec.mem == g_old) \
	/* C10: the only inputs that may be diagnosed are const / volatile lvalues */ \
	X(g_no_error == !(g_tq & (QUALCONST|QUALVOLATILE)))

#define TOPFIELD (g_sz < 4 && g_after == 0)

#define POST_STORE(X) \
	/* C10 (6.5.16p2 modifiable lvalue; README: volatile stores unsupported): a normal return means neither */ \
	X(!(g_tq & QUALCONST)) \
	X(!(g_tq & QUALVOLATILE)) \
	/* all emitted instructions are typed and defined integer/memory instructions (shift counts < class width) */ \
	X(rec.ok && !rec.overflow && !rec.nonint) \
	/* read-modify-write of exactly the storage unit: no access is wider than the unit (no out-of-bounds access) */ \
	X(rec.nload == 1 && rec.nstore == 1 && rec.maxw == g_sz) \
	/* the field's bits are replaced by v's low bits, every other bit in and around the unit is kept */ \
	X(rec.mem == spec_bf_insert(g_old, g_v, WIDTH, g_before)) \
	/* 6.5.16p3: the value of the assignment expression is the value of the field after the assignment */ \
	X(RET != 0 && RET->kind == VALUE_TEMP) \
	X(IMP(!TOPFIELD, spec_wrap(RET->u.i, g_sz, g_sg) == spec_bf_conv(g_v, WIDTH, g_sg))) \
	/* same fact for a field that ends at the top of a char/short unit (after == 0, size < 4): its own clause because \
	   it FAILED on the pinned snapshot 135bd81 (funcbits emitted no shl, so bits of v above the field survived: \
	   `struct {short a:8, b:8;} s; (s.b = 0x180)` was 384 instead of -128); repaired in /repo by 3ee136c */ \
	X(IMP(TOPFIELD, spec_wrap(RET->u.i, g_sz, g_sg) == spec_bf_conv(g_v, WIDTH, g_sg))) \
	/* ... which is what a later read of the unit yields */ \
	X(spec_bf_extract(rec.mem, WIDTH, g_before, g_sg) == spec_bf_conv(g_v, WIDTH, g_sg)) \
	/* operands only read */ \
	X(g_vp->u.i == g_v && g_ap->u.i == g_addr && rec.mem_addr == g_addr) \
	CANARY(X, !(g_sz == 2 && g_before == 3 && g_after == 8 && g_sg))

#define POST_SEL POST_STORE

static struct value *funcstore_contract(struct func *f, struct type *t, enum typequal tq, struct lvalue lval, struct value *v)
REQUIRES(PRE)
__CPROVER_assigns(rec)
ENSURES(POST_SEL);

void
rec_unreachable_funccopy(struct func *f, struct value *dst, struct value *src, unsigned long long size, int align)
{
	__CPROVER_assert(0, "funccopy reached from a scalar store");
}

void
harness(void)
{
	static struct type ty;
	static struct func fn;
	static struct value val, adr;
	struct func *f = &fn;
	struct type *t = &ty;
	struct value *v = &val;
	struct lvalue lval;

	IN(int, in_kind); IN(unsigned, in_sz); IN(bool, in_sg);
	IN(int, in_before); IN(int, in_after); IN(int, in_tq);
	IN(u64, in_v); IN(u64, in_old); IN(u64, in_addr);
	enum typequal tq = in_tq;
#ifdef V_SZ
	in_sz = V_SZ;    /* one CBMC run per storage-unit size (symbolic size: 196 s in one run) */
#endif

	__CPROVER_assume(in_before >= 0 && in_after >= 0 && in_before < 64 && in_after < 64);
	__CPROVER_assume((in_tq & ~(QUALCONST|QUALRESTRICT|QUALVOLATILE|QUALATOMIC)) == 0);
	lc_mktype(t, in_kind, in_sz, in_sg);
	lc_basic(&typeulong, TYPELONG, 8, 0);
	rec_mktemp(v, 1, in_v);
	rec_mktemp(&adr, 2, in_addr);
	lval.addr = &adr;
	lval.bits.before = in_before;
	lval.bits.after = in_after;
	rec_reset(in_addr, in_old);

	g_old = in_old; g_v = in_v; g_addr = in_addr;
	g_sz = in_sz; g_sg = in_sg; g_before = in_before; g_after = in_after; g_tq = in_tq;
	g_vp = v; g_ap = &adr;
	g_no_error = !(in_tq & (QUALCONST|QUALVOLATILE));
	CALLR(struct value *, PRE, POST_SEL, funcstore(f, t, tq, lval, v));
}
