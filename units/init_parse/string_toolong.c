/* UNIT
{
 "id": "INIT.parseinit.string.toolong",
 "file": "init.c", "function": "parseinit", "also_functions": ["mkinit"],
 "properties": {"C10": "contract"},
 "mode": "harness",
 "replace_calls": {"initadd": "rec_initadd"},
 "unwind": 6,
 "kind": "bounded",
 "bound": "char a[4] = \"s\" with a literal of 1..8 elements including the null",
 "timeout": 200, "replay": false,
 "assumes": ["stand-ins and MODEL of parse_common.h"]
}
*/
#include "parse_common.h"

/*
 * C11 6.7.9p2 (constraint): "No initializer shall attempt to provide a value for an object not contained within the entity being
 * initialized."  p14 lets only the terminating null be dropped ("if there is room"); a literal with more CHARACTERS than the array
 * has elements provides values for elements that do not exist: a diagnostic is required (gcc, clang: "initializer-string for
 * char array is too long").
 */
void
harness(void)
{
	static struct type t_arr;
	IN(u64, in_slen); IN(u64, in_id);
	bool wellformed;

	__CPROVER_assume(in_slen >= 1 && in_slen <= 8);
	exprs_init(&t_char, in_slen, &t_int);
	mkarr(&t_arr, &t_char, 4, false);
	script_begin();
	put(TSTRINGLIT, in_id);
	script_end();
	wellformed = in_slen - 1 <= 4;
	g_no_error = wellformed;
	r_n = 0;

	parseinit(0, &t_arr);

	__CPROVER_assert(wellformed, "6.7.9p2: a string literal with more characters than the array has elements is diagnosed");
	__CPROVER_assume(wellformed);
	__CPROVER_assert(r_n == 1 && r_start[0] == 0 && r_end[0] == 4 && r_expr[0] == &e_strlit, "6.7.9p14: the literal initialises the whole array");
#ifdef VERIF_CANARY
	__CPROVER_assert(in_slen != 5, "CANARY");
#endif
}
