/* UNIT
{
 "id": "INIT.parseinit.array",
 "file": "init.c", "function": "parseinit", "also_functions": ["designator", "focus", "advance", "subobj", "mkinit"],
 "properties": {"C07": "contract", "C10": "contract", "C19": "safety"},
 "mode": "harness",
 "replace_calls": {"initadd": "rec_initadd"},
 "variants": {"complete": ["-DV_INCOMPLETE=0"], "unknown": ["-DV_INCOMPLETE=1"]},
 "unwind": 9, "unwindset": ["parseinit.0:3", "parseinit.1:2", "parseinit.2:3", "parseinit.3:6", "advance.0:2", "designator.0:3"],
 "kind": "bounded",
 "bound": "int a[3] / int a[]; initializer `{ item , item , item ,? }` with 0..3 items, each `e` or `[d] = e` with d in 0..5, optional trailing comma",
 "timeout": 300, "replay": false,
 "assumes": ["token script, assignexpr/intconstexpr/exprassign stand-ins and the initadd recorder of parse_common.h",
             "index designators whose byte offset does not fit 64 bits: INIT.parseinit.array.bigindex"]
}
*/
#include "parse_common.h"

#ifndef V_INCOMPLETE
#define V_INCOMPLETE 0
#endif
#define NEL 3

/*
 * C11 6.7.9: p17 "In the absence of [a designator], subobjects of the current object are initialized in order according to the
 * type of the current object: array elements in increasing subscript order"; "a designation causes the following initializer to
 * begin initialization of the subobject described by the designator.  Initialization then continues forward in order, beginning
 * with the next subobject after that described by the designator".  p6 (constraint): [constant] "shall [be] nonnegative" and, for
 * an array of known size, less than the array size... p2 (constraint): no initializer for an object outside the entity.
 * p22: "If an array of unknown size is initialized, its size is determined by the largest indexed element with an explicit
 * initializer. The array type is completed at the end of its initializer list."  C23 6.7.10p? : an array of unknown size shall
 * not be initialized by an empty initializer.
 */
u64 nondet_u64(void);

/* one initializer of a fixed token STRUCTURE (in_n, in_comma, which items are designated: compile-time constants at every call)
   with symbolic designator values and expression ids */
static void
scenario(unsigned in_n, bool in_comma, bool in_des0, bool in_des1, bool in_des2)
{
	static struct type t_arr;
	u64 in_d0 = nondet_u64(), in_d1 = nondet_u64(), in_d2 = nondet_u64(), in_id = nondet_u64();
	bool des[3]; u64 d[3], idx[3], maxidx;
	unsigned i;
	bool inrange, wellformed;
	struct init *ret;

	SCENARIO_ENTER();
	__CPROVER_assume(in_d0 <= 5 && in_d1 <= 5 && in_d2 <= 5 && in_id < 1000);
	des[0] = in_des0; des[1] = in_des1; des[2] = in_des2; d[0] = in_d0; d[1] = in_d1; d[2] = in_d2;
	exprs_init(&t_char, 4, &t_int);
	mkarr(&t_arr, &t_int, NEL, V_INCOMPLETE);

	script_begin();
	put(TLBRACE, 0);
	for (i = 0; i < 3; i++)
		if (i < in_n) {
			if (i > 0) put(TCOMMA, 0);
			if (des[i]) { put(TLBRACK, 0); put(TNUMBER, d[i]); put(TRBRACK, 0); put(TASSIGN, 0); }
			put(TNUMBER, in_id + i);
		}
	if (in_comma) put(TCOMMA, 0);
	put(TRBRACE, 0);
	script_end();

	/* what 6.7.9 says */
	inrange = true; maxidx = 0;
	for (i = 0; i < 3; i++)
		if (i < in_n) {
			idx[i] = des[i] ? d[i] : i == 0 ? 0 : idx[i - 1] + 1;
			if (!V_INCOMPLETE && idx[i] >= NEL) inrange = false;
			if (idx[i] > maxidx) maxidx = idx[i];
		}
	wellformed = inrange && !(V_INCOMPLETE && in_n == 0);
	g_no_error = wellformed;
	r_n = 0;

	ret = parseinit(0, &t_arr);

	__CPROVER_assert(wellformed, "6.7.9p2/p6: an initializer for an element outside a complete array (designated or by running off the end) is diagnosed; an array of unknown size with an empty initializer is diagnosed");
	__CPROVER_assume(wellformed);
	__CPROVER_assert(s_pos == s_n && tok.kind == TSEMICOLON, "exactly the tokens of the initializer are consumed (trailing comma allowed)");
	__CPROVER_assert(r_n == in_n, "one request per initializer of the list");
	for (i = 0; i < 3; i++)
		if (i < in_n) {
			EXPECT_REC(i, idx[i] * 4, 4, in_id + i, &e_conv, "6.7.9p17: element d for `[d] =`, otherwise the element after the previous one (the first: element 0), in list order");
			__CPROVER_assert(r_conv[i] == &t_int, "6.7.9p11: converted to the element type");
			__CPROVER_assert(!des[i] || r_head[i], "6.7.9p19: a designated initializer may override ANY earlier one: the list is scanned from its head");
		}
	__CPROVER_assert(!t_arr.incomplete, "6.7.9p22: the array type is complete at the end of its initializer list");
	__CPROVER_assert(t_arr.size == (V_INCOMPLETE ? (maxidx + 1) * 4 : NEL * 4), "6.7.9p22: an array of unknown size gets its size from the largest indexed element; a complete one keeps its size");
	__CPROVER_assert(t_arr.base == &t_int && t_int.size == 4, "element type untouched");
	__CPROVER_assert((in_n == 0) == (ret == 0), "the returned list is empty iff there was no initializer");
#ifdef VERIF_CANARY
	__CPROVER_assert(!(g_last && in_d1 == 0), "CANARY");
#endif
}

void
harness(void)
{
	unsigned n, m, c;

	/* every structure of the family: (n, designated-mask, trailing comma); `{,}` is not in the family */
	g_last = false;
	scenario(0, false, false, false, false);
	for (n = 1; n <= 3; n++)
		for (m = 0; m < 8; m++)
			for (c = 0; c < 2; c++)
				if (m < (1u << n)) {
					g_last = n == 3 && m == 7 && c == 1;
					scenario(n, c, m & 1, m & 2, m & 4);
				}
}
