/* UNIT
{
 "id": "INIT.focus.struct",
 "file": "init.c", "function": "focus", "also_functions": ["subobj"],
 "properties": {"C07": "contract", "C19": "contract"},
 "mode": "harness",
 "variants": {"d0": ["-DV_DEPTH=0"], "d30": ["-DV_DEPTH=30"], "d31": ["-DV_DEPTH=31"]},
 "unwind": 3,
 "kind": "proof",
 "bound": "cursor at stack depth 0, 30 or 31 on a struct { T first; ... } or union { T first; ... } at an arbitrary offset, the first member at offset 0 (6.7.2.1p15)",
 "timeout": 100, "replay": false,
 "assumes": ["MODEL of parse_common.h (union read as struct)", "p->sub points into p->obj[0..31]; its type is a struct or union with at least one member (decl.c rejects member-less ones) -- arrays: INIT.cursor.array"]
}
*/
#include "parse_common.h"

#ifndef V_DEPTH
#define V_DEPTH 0
#endif

/*
 * C11 6.7.9p17/p20: entering an aggregate or union without designator starts at its first member ("structure members in
 * declaration order, and the first named member of a union").  C19: the 32-slot cursor stack is never overrun: the 33rd level
 * is diagnosed.
 */
void
harness(void)
{
	static struct initparser ip;
	static struct type t_agg, t_first;
	static struct member m_first, m_second;
	static char n_f[] = "f", n_g[] = "g";
	struct initparser *p = &ip;
	IN(bool, in_union); IN(u64, in_base); IN(u64, in_moff);

	/* 6.7.2.1p15: "There may be unnamed padding within a structure object, but not at its beginning": the first member is at 0 */
	__CPROVER_assume(in_base <= (1ull << 40) && in_moff == 0);
	exprs_init(&t_char, 4, &t_int);
	mkscalar(&t_first, TYPEINT, 4, PROPSCALAR|PROPARITH|PROPREAL|PROPINT);
	mkmem(&m_second, n_g, &t_int, 8, 0);
	mkmem(&m_first, n_f, &t_first, in_moff, &m_second);
	mkstruct(&t_agg, in_union ? TYPEUNION : TYPESTRUCT, &m_first, 12);
	ip.obj[V_DEPTH].type = &t_agg; ip.obj[V_DEPTH].offset = in_base; ip.obj[V_DEPTH].iscur = true;
	ip.cur = ip.sub = &ip.obj[V_DEPTH]; ip.init = 0; ip.last = &ip.init;
	g_no_error = V_DEPTH < 31;
#if defined(VERIF_CANARY) && V_DEPTH == 31
	__CPROVER_assert(!(in_union && in_base == 4), "CANARY");       /* this variant always ends in the diagnostic */
#endif

	focus(p);

	__CPROVER_assert(V_DEPTH < 31, "C19: the 33rd nesting level is diagnosed, the stack is not overrun");
	__CPROVER_assert(p->sub == &ip.obj[V_DEPTH + 1], "one level deeper");
	__CPROVER_assert(p->sub->type == &t_first && p->sub->offset == in_base + in_moff && !p->sub->iscur, "6.7.9p17: the first member, at its offset inside the object");
	__CPROVER_assert(ip.obj[V_DEPTH].u.mem == &m_first, "the entered slot names its first member");
	__CPROVER_assert(ip.cur == &ip.obj[V_DEPTH] && ip.obj[V_DEPTH].type == &t_agg && ip.obj[V_DEPTH].offset == in_base && ip.obj[V_DEPTH].iscur, "brace level and entered slot untouched");
#ifdef VERIF_CANARY
	__CPROVER_assert(!(in_union && in_base == 4), "CANARY");
#endif
}
