/* UNIT
{
 "id": "INIT.parseinit.anon.next",
 "file": "init.c", "function": "parseinit", "also_functions": ["designator", "findmember", "focus", "advance", "subobj", "mkinit"],
 "properties": {"C07": "contract", "C19": "safety"},
 "mode": "harness",
 "replace_calls": {"initadd": "rec_initadd"},
 "variants": {"first": ["-DV_CASE=0"], "after_a": ["-DV_CASE=1"], "b_then": ["-DV_CASE=2"]},
 "unwind": 12,
 "kind": "bounded",
 "bound": "struct A { int a; struct { int b; int c; }; int d; }; lists: .c=e,e (first) | e,.c=e,e (after_a) | .b=e,e,e (b_then)",
 "timeout": 300, "replay": false,
 "assumes": ["stand-ins and MODEL of parse_common.h"]
}
*/
#include "anon_common.h"

#ifndef V_CASE
#define V_CASE 0
#endif

void
harness(void)
{
	g_last = true;
#if V_CASE == 0
	scenario(2, D_C, 0, 0, 0);
#elif V_CASE == 1
	scenario(3, 0, D_C, 0, 0);
#else
	scenario(3, D_B, 0, 0, 0);
#endif
}
