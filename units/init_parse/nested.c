/* UNIT
{
 "id": "INIT.parseinit.nested",
 "file": "init.c", "function": "parseinit", "also_functions": ["designator", "findmember", "focus", "advance", "subobj", "mkinit"],
 "properties": {"C07": "contract", "C10": "contract", "C19": "safety"},
 "mode": "harness",
 "replace_calls": {"initadd": "rec_initadd"},
 "variants": {"c_e": ["-DV_INCOMPLETE=0", "-DV_FORM0=0"], "c_be": ["-DV_INCOMPLETE=0", "-DV_FORM0=1"], "c_bee": ["-DV_INCOMPLETE=0", "-DV_FORM0=2"], "c_t": ["-DV_INCOMPLETE=0", "-DV_FORM0=3"], "c_long": ["-DV_INCOMPLETE=0", "-DV_FORM0=4"],
              "u_e": ["-DV_INCOMPLETE=1", "-DV_FORM0=0"], "u_bee": ["-DV_INCOMPLETE=1", "-DV_FORM0=2"], "u_t": ["-DV_INCOMPLETE=1", "-DV_FORM0=3"], "u_long": ["-DV_INCOMPLETE=1", "-DV_FORM0=4"]},
 "unwind": 14,
 "kind": "bounded",
 "bound": "struct P { int x; int y; } a[2] / a[]; `{ item , item }`: first item {none, [i], [i].x, [i].y} x {e, {e}, {e,e}, t} (t: an expression of type struct P; i in 0..3 symbolic), second item absent or one of {e, {e,e}, t, [j].y = e}; variant long: e,e,e,e | e,e,e,e,e | t,t | {e},e,e | e,{e},e | [1]=t,e",
 "timeout": 400, "replay": false,
 "assumes": ["stand-ins and MODEL of parse_common.h", "two initializers inside the braces of a scalar: skipped, INIT.parseinit.scalar.excess (finding)"]
}
*/
#include "parse_common.h"

#ifndef V_INCOMPLETE
#define V_INCOMPLETE 0
#endif
#ifndef V_FORM0
#define V_FORM0 0
#endif
#define NEL 2

/*
 * C11 6.7.9 for  struct P { int x; int y; } a[2] (or a[]) = { ... };
 * p13: "The initializer for a structure or union object that has automatic storage duration shall be either an initializer
 *      list as described below, or a single expression that has compatible structure or union type. In the latter case, the
 *      initial value of the object, including unnamed members, is that of the expression."   p20: an expression of type
 *      struct P that is NOT in braces initialises the whole element a[i] when a[i] is the current object; otherwise brace elision
 *      descends to x (and a struct expression for the scalar x violates 6.5.16.1: diagnosed by exprassign).
 * p17/p20/p2/p22 as in INIT.parseinit.array / INIT.parseinit.struct: order, elision, excess diagnosed, unknown size from the
 *      largest indexed element.
 */
enum { D_NONE, D_I, D_IX, D_IY, D_N };
enum { FM_E, FM_BE, FM_BEE, FM_T, FM_N };
#define MAXIT 5
static char n_x[] = "x", n_y[] = "y";
static struct type t_P, t_arr;
static struct member m_x, m_y;
u64 nondet_u64(void);

static void
scenario(unsigned n, const unsigned char *des, const unsigned char *form)
{
	u64 id0 = nondet_u64(), dv[MAXIT], x_off[NREC], x_sz[NREC], x_id[NREC], el = 0, maxel = 0;
	bool x_head[NREC], x_whole[NREC];
	unsigned i, x_n = 0, mem = 0, k = 0;
	bool atagg = true, wellformed = true, scalarexcess = false;
	struct init *ret;

	SCENARIO_ENTER();
	__CPROVER_assume(id0 < 1000);
	for (i = 0; i < MAXIT; i++) { dv[i] = nondet_u64(); __CPROVER_assume(dv[i] <= 3); }
	exprs_init(&t_char, 4, &t_P);
	mkmem(&m_y, n_y, &t_int, 4, 0);
	mkmem(&m_x, n_x, &t_int, 0, &m_y);
	mkstruct(&t_P, TYPESTRUCT, &m_x, 8);
	mkarr(&t_arr, &t_P, NEL, V_INCOMPLETE);

	script_begin();
	put(TLBRACE, 0);
	for (i = 0; i < MAXIT; i++)
		if (i < n) {
			if (i > 0) put(TCOMMA, 0);
			if (des[i] != D_NONE) {
				put(TLBRACK, 0); put(TNUMBER, dv[i]); put(TRBRACK, 0);
				if (des[i] != D_I) { put(TPERIOD, 0); put(TIDENT, des[i] == D_IY ? 'y' - 'a' : 'x' - 'a'); }
				put(TASSIGN, 0);
			}
			if (form[i] == FM_BE || form[i] == FM_BEE) put(TLBRACE, 0);
			put(form[i] == FM_T ? TIDENT : TNUMBER, id0 + k++);
			if (form[i] == FM_BEE) { put(TCOMMA, 0); put(TNUMBER, id0 + k++); }
			if (form[i] == FM_BE || form[i] == FM_BEE) put(TRBRACE, 0);
		}
	put(TRBRACE, 0);
	script_end();

	k = 0;
	for (i = 0; i < MAXIT; i++)
		if (i < n && wellformed && !scalarexcess) {
			if (des[i] != D_NONE) { el = dv[i]; mem = des[i] == D_IY; atagg = des[i] == D_I; }
			if (!V_INCOMPLETE && el >= NEL) { wellformed = false; break; }      /* p6 / p2 */
			if (form[i] == FM_BEE && !atagg) { scalarexcess = true; break; }
			if (form[i] == FM_T && !atagg) { wellformed = false; break; }         /* 6.5.16.1: struct expression for the int member */
			if (el > maxel) maxel = el;
			x_head[x_n] = des[i] != D_NONE;
			if (atagg && form[i] != FM_E) {
				x_whole[x_n] = form[i] == FM_T;
				x_off[x_n] = el * 8; x_sz[x_n] = form[i] == FM_T ? 8 : 4; x_id[x_n] = id0 + k++; x_n++;
				if (form[i] == FM_BEE) { x_head[x_n] = false; x_whole[x_n] = false; x_off[x_n] = el * 8 + 4; x_sz[x_n] = 4; x_id[x_n] = id0 + k++; x_n++; }
				el++; mem = 0; atagg = true;
			} else {
				x_whole[x_n] = false;
				x_off[x_n] = el * 8 + mem * 4; x_sz[x_n] = 4; x_id[x_n] = id0 + k++; x_n++;
				if (mem == 1) { el++; mem = 0; atagg = true; } else { mem = 1; atagg = false; }
			}
		}
	if (scalarexcess)
		return;
	g_no_error = wellformed;
	r_n = 0;

	ret = parseinit(0, &t_arr);

	__CPROVER_assert(wellformed, "6.7.9p2/p6: an element outside the complete array (designated or by running off the end) is diagnosed; 6.5.16.1: a struct expression for an int member is diagnosed");
	__CPROVER_assume(wellformed);
	__CPROVER_assert(s_pos == s_n && tok.kind == TSEMICOLON, "exactly the tokens of the initializer are consumed");
	__CPROVER_assert(r_n == x_n, "one request per expression of the list");
	for (i = 0; i < NREC; i++)
		if (i < x_n) {
			EXPECT_REC(i, x_off[i], x_sz[i], x_id[i], x_whole[i] ? &e_struct : &e_conv, "6.7.9p13/p17/p20: a struct-typed expression initialises the whole current element [8i, 8i+8) unconverted; other expressions the designated or next int member, in list order");
			__CPROVER_assert(!x_head[i] || r_head[i], "6.7.9p19: designated => scanned from the list head");
		}
	__CPROVER_assert(!t_arr.incomplete && t_arr.size == (V_INCOMPLETE ? (maxel + 1) * 8 : NEL * 8), "6.7.9p22: size of the array of unknown size from the largest indexed element; complete at the end");
	__CPROVER_assert(t_P.size == 8 && ret != 0, "element type untouched, list returned");
#ifdef VERIF_CANARY
	__CPROVER_assert(!(g_last && id0 == 5 && dv[0] == 0 && dv[1] == 1), "CANARY");
#endif
}

void
harness(void)
{
#if V_FORM0 < 4
	static const unsigned char D1[4] = {D_NONE, D_NONE, D_NONE, D_IY};
	static const unsigned char F1[4] = {FM_E, FM_BEE, FM_T, FM_E};
	static const unsigned char D0[D_N] = {D_NONE, D_IX, D_IY, D_I};     /* [i] last: well-formed with every form */
	unsigned d0, j;
	unsigned char des[MAXIT], form[MAXIT];

	for (d0 = 0; d0 < D_N; d0++) {
		des[0] = D0[d0]; form[0] = V_FORM0;
		g_last = false;
		scenario(1, des, form);
		for (j = 0; j < 4; j++) {
			des[1] = D1[j]; form[1] = F1[j];
			g_last = d0 == D_N - 1 && j == 3;       /* [i].y = .., [j].y = e */
			scenario(2, des, form);
		}
		g_last = false;
	}
#else
	static const unsigned char D[6][MAXIT] = {{0,0,0,0,0}, {0,0,0,0,0}, {0,0,0,0,0}, {0,0,0,0,0}, {0,0,0,0,0}, {D_I,0,0,0,0}};
	static const unsigned char F[6][MAXIT] = {{0,0,0,0,0}, {0,0,0,0,0}, {FM_T,FM_T,0,0,0}, {FM_BE,0,0,0,0}, {0,FM_BE,0,0,0}, {FM_T,0,0,0,0}};
	static const unsigned char N[6] = {4, 5, 2, 3, 3, 2};
	unsigned j;

	for (j = 0; j < 6; j++) {
		g_last = j == 5;
		scenario(N[j], D[j], F[j]);
	}
#endif
}
