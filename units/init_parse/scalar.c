/* UNIT
{
 "id": "INIT.parseinit.scalar",
 "file": "init.c", "function": "parseinit", "also_functions": ["designator", "mkinit"],
 "properties": {"C07": "contract", "C10": "contract", "C19": "safety"},
 "mode": "harness",
 "replace_calls": {"initadd": "rec_initadd"},
 "unwind": 5,
 "kind": "bounded",
 "bound": "object of type int; the initializer is one of: e | {e} | {e,} | {} | {{e}} | {.a = e} | {[0] = e} | {e e}",
 "timeout": 200, "replay": false,
 "assumes": ["token script, assignexpr/intconstexpr/exprassign/typecompatible stand-ins and the initadd recorder of parse_common.h",
             "`{}` (C23 6.7.10) and `{{e}}` (undefined in C11: 6.7.9p11 is not a constraint) may be accepted or diagnosed; if accepted the requests must be those of `{}` = none / `{e}`",
             "`{e, e}` for a scalar is stated in INIT.parseinit.scalar.excess (finding)"]
}
*/
#include "parse_common.h"

/*
 * C11 6.7.9p11: "The initializer for a scalar shall be a single expression, optionally enclosed in braces. The initial value of
 * the object is that of the expression (after conversion); the same type constraints and conversions as for simple assignment
 * apply".  Syntax 6.7.9p1: initializer-list with optional trailing comma.  Constraints p6/p7: a designator [..] needs an array
 * current object, .name a struct/union one.
 */
enum { F_E, F_BE, F_BEC, F_EMPTY, F_BBE, F_DMEM, F_DIDX, F_NOCOMMA, F_N };

void
harness(void)
{
	IN(unsigned, in_form); IN(u64, in_id);
	struct init *ret;
	bool wellformed, mustdiag;

	__CPROVER_assume(in_form < F_N);
	exprs_init(&t_char, 4, &t_int);
	script_begin();
	if (in_form != F_E) put(TLBRACE, 0);
	if (in_form == F_BBE) put(TLBRACE, 0);
	if (in_form == F_DMEM) { put(TPERIOD, 0); put(TIDENT, 0); put(TASSIGN, 0); }
	if (in_form == F_DIDX) { put(TLBRACK, 0); put(TNUMBER, 0); put(TRBRACK, 0); put(TASSIGN, 0); }
	if (in_form != F_EMPTY) put(TNUMBER, in_id);
	if (in_form == F_NOCOMMA) put(TNUMBER, in_id + 1);
	if (in_form == F_BEC) put(TCOMMA, 0);
	if (in_form == F_BBE) put(TRBRACE, 0);
	if (in_form != F_E) put(TRBRACE, 0);
	script_end();

	wellformed = in_form == F_E || in_form == F_BE || in_form == F_BEC;
	mustdiag = in_form == F_DMEM || in_form == F_DIDX || in_form == F_NOCOMMA;
	g_no_error = wellformed;
	r_n = 0;

	ret = parseinit(0, &t_int);

	__CPROVER_assert(!mustdiag, "6.7.9p6/p7 (designator in the braces of a scalar), 6.7.9p1 (missing comma): diagnosed");
	__CPROVER_assume(!mustdiag);
	__CPROVER_assert(s_pos == s_n && tok.kind == TSEMICOLON, "exactly the tokens of the initializer are consumed");
	if (in_form == F_EMPTY) {
		__CPROVER_assert(r_n == 0 && ret == 0, "an empty initializer requests nothing (the object is zero)");
	} else {
		__CPROVER_assert(r_n == 1, "6.7.9p11: one expression, one request");
		EXPECT_REC(0, 0, 4, in_id, &e_conv, "6.7.9p11: the whole scalar [0, size), no bit-field, gets THE expression, converted");
		__CPROVER_assert(r_conv[0] == &t_int, "6.7.9p11: converted as if by assignment to the object's type");
		__CPROVER_assert(ret != 0 && ret->start == 0 && ret->end == 4 && ret->expr == &e_conv, "the returned list holds the request");
	}
	__CPROVER_assert(t_int.size == 4 && !t_int.incomplete, "the type is unchanged");
#ifdef VERIF_CANARY
	__CPROVER_assert(!(in_form == F_BEC && in_id == 7), "CANARY");
#endif
}
