/* UNIT
{
 "id": "INIT.findmember",
 "file": "init.c", "function": "findmember", "also_functions": ["subobj"],
 "properties": {"C07": "contract", "C19": "contract"},
 "mode": "harness",
 "variants": {"d0": ["-DV_DEPTH=0"], "d5": ["-DV_DEPTH=5"], "d28": ["-DV_DEPTH=28"], "d29": ["-DV_DEPTH=29"], "d30": ["-DV_DEPTH=30"], "d31": ["-DV_DEPTH=31"]},
 "unwind": 5, "unwindset": ["strcmp.0:3"],
 "kind": "proof-const-unwind",
 "bound": "struct { int a; struct { int b; union { int c; short d; }; }; int e; } under a cursor at stack depth 0, 5, 28, 29, 30 or 31 with an arbitrary base offset; the name looked up is any one-letter string",
 "timeout": 200, "replay": false,
 "assumes": ["MODEL of parse_common.h (union read as struct)", "p->sub points into p->obj[0..31] and its type is a struct/union with at least one member (designator() checks the kind; decl.c rejects member-less structs)",
             "that the slots of the ANONYMOUS levels passed on the way remember which member was entered is not stated here: INIT.parseinit.anon.next (finding)"]
}
*/
#include "parse_common.h"

#ifndef V_DEPTH
#define V_DEPTH 0
#endif

/*
 * C11 6.7.2.1p13: "An unnamed member whose type specifier is a structure specifier with no tag is called an anonymous
 * structure; ... union ... anonymous union. The members of an anonymous structure or union are considered to be members of the
 * containing structure or union. This applies recursively".  6.7.9p7: `.identifier` shall name a member of the current object.
 * So: found iff the name is one of a b c d e; the designated subobject has the member's type and lies at
 * (offset of the current object) + (sum of the offsets of the anonymous members passed) + (member offset).
 * C19: the cursor stack has 32 slots; a lookup that would need more is diagnosed, the stack is never overrun; a failed lookup
 * leaves the cursor where it was.
 */
void
harness(void)
{
	static struct initparser ip;
	static struct type t_A, t_an1, t_an2, t_short, t_below;
	static struct member m_a, m_an1, m_e, m_b, m_an2, m_c, m_d;
	static char n_a[] = "a", n_b[] = "b", n_c[] = "c", n_d[] = "d", n_e[] = "e";
	struct initparser *p = &ip;
	char name[2];
	IN(char, in_name); IN(u64, in_base);
	bool found, r;
	unsigned lv;
	u64 off;
	struct type *ty;
	struct member *mm;

	__CPROVER_assume(in_name != 0 && in_base <= (1ull << 40));
	exprs_init(&t_char, 4, &t_int);
	mkscalar(&t_short, TYPESHORT, 2, PROPSCALAR|PROPARITH|PROPREAL|PROPINT);
	mkmem(&m_d, n_d, &t_short, 0, 0);
	mkmem(&m_c, n_c, &t_int, 0, &m_d);
	mkstruct(&t_an2, TYPEUNION, &m_c, 4);
	mkmem(&m_an2, 0, &t_an2, 4, 0);
	mkmem(&m_b, n_b, &t_int, 0, &m_an2);
	mkstruct(&t_an1, TYPESTRUCT, &m_b, 8);
	mkmem(&m_e, n_e, &t_int, 12, 0);
	mkmem(&m_an1, 0, &t_an1, 4, &m_e);
	mkmem(&m_a, n_a, &t_int, 0, &m_an1);
	mkstruct(&t_A, TYPESTRUCT, &m_a, 16);
	name[0] = in_name; name[1] = 0;
	if (V_DEPTH > 0) { ip.obj[V_DEPTH - 1].type = &t_below; ip.obj[V_DEPTH - 1].offset = 77; ip.obj[V_DEPTH - 1].iscur = true; }
	ip.obj[V_DEPTH].type = &t_A; ip.obj[V_DEPTH].offset = in_base; ip.obj[V_DEPTH].iscur = false;
	ip.cur = &ip.obj[V_DEPTH > 0 ? V_DEPTH - 1 : 0]; ip.sub = &ip.obj[V_DEPTH]; ip.init = 0; ip.last = &ip.init;
	g_no_error = 0;

	found = in_name >= 'a' && in_name <= 'e';
	lv = in_name == 'a' || in_name == 'e' ? 1 : in_name == 'b' ? 2 : 3;
	off = in_name == 'a' ? 0 : in_name == 'b' ? 4 : in_name == 'e' ? 12 : 8;
	ty = in_name == 'd' ? &t_short : &t_int;
	mm = in_name == 'a' ? &m_a : in_name == 'b' ? &m_b : in_name == 'c' ? &m_c : in_name == 'd' ? &m_d : &m_e;
	/* a lookup must not be diagnosed as long as the search (which enters the two anonymous levels speculatively, also when the
	   name is not in them) and the result fit the 32 slots; beyond that "too many designators" is a permitted translation limit */
	g_no_error = V_DEPTH + 2 <= 31 && (!found || V_DEPTH + lv <= 31);

	r = findmember(p, name);

	__CPROVER_assert(r == found, "6.7.2.1p13: found iff the name is a member, directly or through anonymous structs/unions");
	if (r) {
		__CPROVER_assert(V_DEPTH + lv <= 31, "C19: a lookup that needs more than the 32 slots is diagnosed (normal return => it fitted)");
		__CPROVER_assert(p->sub == &ip.obj[V_DEPTH + lv], "one slot per level entered");
		__CPROVER_assert(p->sub->type == ty, "the designated subobject has the member's type");
		__CPROVER_assert(p->sub->offset == in_base + off, "at current object + anonymous members' offsets + member offset");
		__CPROVER_assert(!p->sub->iscur, "not a brace level");
		__CPROVER_assert(p->sub[-1].u.mem == mm, "the enclosing slot remembers the member (its bit-field position is taken from there)");
	} else {
		__CPROVER_assert(p->sub == &ip.obj[V_DEPTH], "a failed lookup leaves the cursor where it was");
	}
	__CPROVER_assert(ip.obj[V_DEPTH].type == &t_A && ip.obj[V_DEPTH].offset == in_base && ip.cur == &ip.obj[V_DEPTH > 0 ? V_DEPTH - 1 : 0], "the current object's slot and the brace level are untouched");
	if (V_DEPTH > 0)
		__CPROVER_assert(ip.obj[V_DEPTH - 1].type == &t_below && ip.obj[V_DEPTH - 1].offset == 77 && ip.obj[V_DEPTH - 1].iscur, "enclosing slots untouched");
#ifdef VERIF_CANARY
	__CPROVER_assert(in_name != (V_DEPTH >= 30 ? 'a' : 'd'), "CANARY");
#endif
}
