/* UNIT
{
 "id": "INIT.parseinit.scalar.excess",
 "file": "init.c", "function": "parseinit", "also_functions": ["mkinit"],
 "properties": {"C10": "contract", "C19": "contract"},
 "mode": "harness",
 "replace_calls": {"initadd": "rec_initadd"},
 "unwind": 5,
 "kind": "bounded",
 "bound": "object of type int; the initializer is {e} or {e, e} (optionally with a trailing comma)",
 "timeout": 200, "replay": false,
 "assumes": ["token script, assignexpr/exprassign stand-ins and the initadd recorder of parse_common.h"]
}
*/
#include "parse_common.h"

/*
 * C11 6.7.9p2 (constraint): "No initializer shall attempt to provide a value for an object not contained within the entity
 * being initialized."  p11: the initializer for a scalar is a SINGLE expression, optionally enclosed in braces.
 * `int x = {1, 2};` has a second initializer with no object left to initialise: a diagnostic is required.
 */
void
harness(void)
{
	IN(unsigned, in_n); IN(bool, in_comma); IN(u64, in_id);
	struct init *ret;

	__CPROVER_assume(in_n >= 1 && in_n <= 2);
	exprs_init(&t_char, 4, &t_int);
	script_begin();
	put(TLBRACE, 0);
	put(TNUMBER, in_id);
	if (in_n == 2) { put(TCOMMA, 0); put(TNUMBER, in_id + 1); }
	if (in_comma) put(TCOMMA, 0);
	put(TRBRACE, 0);
	script_end();
	g_no_error = in_n == 1;
	r_n = 0;

	ret = parseinit(0, &t_int);

	__CPROVER_assert(in_n == 1, "6.7.9p2: a second initializer in the braces of a scalar is diagnosed");
	__CPROVER_assume(in_n == 1);
	__CPROVER_assert(r_n == 1 && r_start[0] == 0 && r_end[0] == 4 && r_eid[0] == in_id, "6.7.9p11: one request for the whole scalar");
	__CPROVER_assert(s_pos == s_n, "exactly the tokens of the initializer are consumed");
#ifdef VERIF_CANARY
	__CPROVER_assert(!(in_comma && in_id == 7), "CANARY");
#endif
}
