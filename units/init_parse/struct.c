/* UNIT
{
 "id": "INIT.parseinit.struct",
 "file": "init.c", "function": "parseinit", "also_functions": ["designator", "findmember", "focus", "advance", "subobj", "mkinit"],
 "properties": {"C07": "contract", "C10": "contract", "C19": "safety"},
 "mode": "harness",
 "replace_calls": {"initadd": "rec_initadd"},
 "variants": {"f0": ["-DV_FORM0=0"], "f1": ["-DV_FORM0=1"], "f2": ["-DV_FORM0=2"], "long": ["-DV_FORM0=3"]},
 "unwind": 20,
 "kind": "bounded",
 "bound": "struct S { int a; int b[2]; int c : 8 (at bit 3 of its unit); }; initializer `{ item , item }`: first item any of {none .a .b .b[0] .b[1] .c} x {e, {e}, {e,e}}, second item absent or one of {e, {e}, {e,e}, .b[1] = e, .c = e, .b = {e,e}} (variants f0-f2 by the first item's form); variant long: 9 lists of 3-5 items (full brace elision, excess, braces inside an elided array, designator followed by positional items); symbolic expression ids",
 "timeout": 400, "replay": false,
 "assumes": ["token script, assignexpr/intconstexpr/exprassign stand-ins and the initadd recorder of parse_common.h; member names are single letters"]
}
*/
#include "parse_common.h"

/*
 * C11 6.7.9 for  struct S { int a; int b[2]; int c; } s = { ... };
 * p17: without designator the subobjects are initialised in declaration / increasing subscript order; `.m` / `[i]` designators
 *      make the named subobject the current one and "initialization then continues forward in order, beginning with the next
 *      subobject after that described by the designator" -- also OUT of the array b into c (p17, example p33/p35).
 * p20: "If the aggregate or union contains elements or members that are aggregates or unions, these rules apply recursively ...
 *      If the initializer of a subaggregate or contained union begins with a left brace, the initializers enclosed by that brace
 *      and its matching right brace initialize the elements or members of the subaggregate ... Otherwise, only enough
 *      initializers from the list are taken to account for the elements or members of the subaggregate ...; any remaining
 *      initializers are left to initialize the next element or member of the aggregate of which the current subaggregate ... is
 *      a part."
 * p11: a scalar's initializer may be enclosed in braces.   p2 (constraint): no initializer for an object outside the entity
 *      (too many initializers for S, for the braced b, or a second initializer inside the braces of a scalar).
 * p21: fewer initializers than members: the rest is implicitly initialised (no request).
 */
enum { D_NONE, D_A, D_B, D_B0, D_B1, D_C, D_N };
enum { FM_E, FM_BE, FM_BEE, FM_N };
#define MAXIT 5

static char n_a[] = "a", n_b[] = "b", n_c[] = "c";
static struct type t_S, t_b;
static struct member m_a, m_b, m_c;

u64 nondet_u64(void);

static void
scenario(unsigned n, const unsigned char *des, const unsigned char *form, bool comma)
{
	static const u64 leafoff[4] = {0, 4, 8, 12};
	u64 id0 = nondet_u64(), x_off[NREC], x_id[NREC];
	bool x_head[NREC], x_bf[NREC];
	unsigned i, x_n = 0, nxt = 0, k = 0;
	bool atagg = false, wellformed = true, scalarexcess = false;
	struct init *ret;

	SCENARIO_ENTER();
	__CPROVER_assume(id0 < 1000);
	exprs_init(&t_char, 4, &t_int);
	mkarr(&t_b, &t_int, 2, false);
	mkmem(&m_c, n_c, &t_int, 12, 0);
	m_c.bits.before = 3; m_c.bits.after = 21;       /* c is a bit-field `int c : 8` 3 bits into its storage unit */
	mkmem(&m_b, n_b, &t_b, 4, &m_c);
	mkmem(&m_a, n_a, &t_int, 0, &m_b);
	mkstruct(&t_S, TYPESTRUCT, &m_a, 16);

	script_begin();
	put(TLBRACE, 0);
	for (i = 0; i < MAXIT; i++)
		if (i < n) {
			if (i > 0) put(TCOMMA, 0);
			if (des[i] != D_NONE) {
				put(TPERIOD, 0);
				put(TIDENT, des[i] == D_A ? 0 : des[i] == D_C ? 2 : 1);
				if (des[i] == D_B0 || des[i] == D_B1) { put(TLBRACK, 0); put(TNUMBER, des[i] == D_B1); put(TRBRACK, 0); }
				put(TASSIGN, 0);
			}
			if (form[i] != FM_E) put(TLBRACE, 0);
			put(TNUMBER, id0 + k++);
			if (form[i] == FM_BEE) { put(TCOMMA, 0); put(TNUMBER, id0 + k++); }
			if (form[i] != FM_E) put(TRBRACE, 0);
		}
	if (comma) put(TCOMMA, 0);
	put(TRBRACE, 0);
	script_end();

	/* what 6.7.9 prescribes: leaves 0..3 = a, b[0], b[1], c; atagg = the current object is b as a whole (not yet entered) */
	k = 0;
	for (i = 0; i < MAXIT; i++)
		if (i < n && wellformed) {
			bool designated = des[i] != D_NONE;
			switch (des[i]) {
			case D_A: nxt = 0; atagg = false; break;
			case D_B: nxt = 1; atagg = true; break;
			case D_B0: nxt = 1; atagg = false; break;
			case D_B1: nxt = 2; atagg = false; break;
			case D_C: nxt = 3; atagg = false; break;
			default:
				if (nxt == 4) wellformed = false;      /* p2: nothing left in S */
			}
			if (!wellformed) break;
			if (form[i] == FM_BEE && !atagg) { scalarexcess = true; break; }   /* p2/p11: two initializers in the braces of a scalar */
			x_head[x_n] = designated;
			if (form[i] != FM_E && atagg) {
				/* p20: the braced list initialises b */
				x_bf[x_n] = false; x_off[x_n] = 4; x_id[x_n] = id0 + k++; x_n++;
				if (form[i] == FM_BEE) { x_bf[x_n] = false; x_head[x_n] = false; x_off[x_n] = 8; x_id[x_n] = id0 + k++; x_n++; }
				nxt = 3; atagg = false;
			} else {
				/* p20 brace elision / p11 braced scalar: the next leaf */
				x_bf[x_n] = nxt == 3; x_off[x_n] = leafoff[nxt]; x_id[x_n] = id0 + k++; x_n++;
				nxt++; atagg = nxt == 1;
			}
		}
	if (scalarexcess)
		return;                /* stated in INIT.parseinit.scalar.excess (finding): not repeated here */
	g_no_error = wellformed;
	r_n = 0;

	ret = parseinit(0, &t_S);

	__CPROVER_assert(wellformed, "6.7.9p2: an initializer with no subobject left (after c, or after b[1] inside b's braces) is diagnosed");
	__CPROVER_assume(wellformed);
	__CPROVER_assert(s_pos == s_n && tok.kind == TSEMICOLON, "exactly the tokens of the initializer are consumed");
	__CPROVER_assert(r_n == x_n, "one request per expression of the list");
	for (i = 0; i < NREC; i++)
		if (i < x_n) {
			__CPROVER_assert(r_start[i] == x_off[i] && r_end[i] == x_off[i] + 4 && r_eid[i] == x_id[i] && r_expr[i] == &e_conv, "6.7.9p17/p20: each expression initialises the subobject the designator names or the next one in order (brace elision), in list order");
			__CPROVER_assert(r_before[i] == (x_bf[i] ? 3 : 0) && r_after[i] == (x_bf[i] ? 21 : 0), "a bit-field member is initialised at its bit position inside the storage unit (its neighbours stay untouched); other members whole");
			__CPROVER_assert(r_conv[i] == &t_int, "6.7.9p11: converted to the member's type");
			__CPROVER_assert(!x_head[i] || r_head[i], "6.7.9p19: a designated initializer may override any earlier one: scanned from the list head");
		}
	__CPROVER_assert(ret != 0 && t_S.size == 16 && t_b.size == 8 && !t_b.incomplete, "types untouched, list returned");
#ifdef VERIF_CANARY
	__CPROVER_assert(!(g_last && id0 == 5), "CANARY");
#endif
}

#ifndef V_FORM0
#define V_FORM0 0
#endif

void
harness(void)
{
#if V_FORM0 < 3
	/* second items: e | {e} | {e,e} | .b[1] = e | .c = e | .b = {e,e} */
	static const unsigned char D1[6] = {D_NONE, D_NONE, D_NONE, D_B1, D_C, D_B};
	static const unsigned char F1[6] = {FM_E, FM_BE, FM_BEE, FM_E, FM_E, FM_BEE};
	static const unsigned char D0[D_N] = {D_NONE, D_A, D_B0, D_B1, D_C, D_B};   /* .b last: well-formed with every form */
	unsigned d0, j;
	unsigned char des[MAXIT], form[MAXIT];

	for (d0 = 0; d0 < D_N; d0++) {
		des[0] = D0[d0]; form[0] = V_FORM0;
		g_last = false;
		scenario(1, des, form, d0 & 1);
		for (j = 0; j < 6; j++) {
			des[1] = D1[j]; form[1] = F1[j];
			g_last = d0 == D_N - 1 && j == 4;       /* .c = e, .c = e: well-formed for every first form */
			scenario(2, des, form, j & 1);
		}
		g_last = false;
	}
#else
	/* e,e,e,e: full brace elision; e,e,e,e,e: one too many; e,{e,e},e; e,e,{e},e: braces around b[1] inside the elided b;
	   .b[1]=e,e: continues with c; .b[1]=e,e,e: excess; .b=e,e,e: elision after a designator; {e},{e},{e}; .c=e,.a=e,e,e */
	static const unsigned char D[9][MAXIT] = {
		{0,0,0,0,0}, {0,0,0,0,0}, {0,0,0,0,0}, {0,0,0,0,0}, {D_B1,0,0,0,0}, {D_B1,0,0,0,0}, {D_B,0,0,0,0}, {0,0,0,0,0}, {D_C,D_A,0,0,0}};
	static const unsigned char F[9][MAXIT] = {
		{0,0,0,0,0}, {0,0,0,0,0}, {0,FM_BEE,0,0,0}, {0,0,FM_BE,0,0}, {0,0,0,0,0}, {0,0,0,0,0}, {0,0,0,0,0}, {FM_BE,FM_BE,FM_BE,0,0}, {0,0,0,0,0}};
	static const unsigned char N[9] = {4, 5, 3, 4, 2, 3, 3, 3, 4};
	unsigned j;

	for (j = 0; j < 9; j++) {
		g_last = j == 8;
		scenario(N[j], D[j], F[j], j & 1);
	}
#endif
}
