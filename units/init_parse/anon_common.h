/*
 * struct A { int a; struct { int b; int c; }; int d; } x = { ... };
 * C11 6.7.2.1p13: "The members of an anonymous structure or union are considered to be members of the containing structure or
 * union" -- so `.b`, `.c` designate members of A (at offsets 4 and 8), and positionally the anonymous struct is a subaggregate
 * (6.7.9p20 brace elision).  6.7.9p17: after a designated member initialization "continues forward in order, beginning with the
 * next subobject after that described by the designator": after .b comes c, after .c comes d.
 */
#include "parse_common.h"

enum { D_NONE, D_A, D_B, D_C, D_D };
#define MAXIT 4
static char n_a[] = "a", n_b[] = "b", n_c[] = "c", n_d[] = "d";
static struct type t_A, t_anon;
static struct member m_a, m_anon, m_d, m_b, m_c;
u64 nondet_u64(void);

static void
scenario(unsigned n, unsigned d0, unsigned d1, unsigned d2, unsigned d3)
{
	unsigned des[MAXIT] = {d0, d1, d2, d3};
	u64 id0 = nondet_u64(), x_off[MAXIT];
	unsigned i, nxt = 0;
	bool wellformed = true;

	SCENARIO_ENTER();
	__CPROVER_assume(id0 < 1000);
	exprs_init(&t_char, 4, &t_int);
	mkmem(&m_c, n_c, &t_int, 4, 0);
	mkmem(&m_b, n_b, &t_int, 0, &m_c);
	mkstruct(&t_anon, TYPESTRUCT, &m_b, 8);
	mkmem(&m_d, n_d, &t_int, 12, 0);
	mkmem(&m_anon, 0, &t_anon, 4, &m_d);
	mkmem(&m_a, n_a, &t_int, 0, &m_anon);
	mkstruct(&t_A, TYPESTRUCT, &m_a, 16);

	script_begin();
	put(TLBRACE, 0);
	for (i = 0; i < MAXIT; i++)
		if (i < n) {
			if (i > 0) put(TCOMMA, 0);
			if (des[i] != D_NONE) { put(TPERIOD, 0); put(TIDENT, des[i] - D_A); put(TASSIGN, 0); }
			put(TNUMBER, id0 + i);
		}
	put(TRBRACE, 0);
	script_end();

	for (i = 0; i < MAXIT; i++)
		if (i < n) {
			if (des[i] != D_NONE) nxt = des[i] - D_A;
			else if (nxt == 4) wellformed = false;
			x_off[i] = nxt * 4;
			nxt++;
		}
	g_no_error = wellformed;
	r_n = 0;

	parseinit(0, &t_A);

	__CPROVER_assert(wellformed, "6.7.9p2: an initializer after the last member is diagnosed");
	__CPROVER_assume(wellformed);
	__CPROVER_assert(s_pos == s_n && r_n == n, "the whole list is consumed, one request per expression");
	for (i = 0; i < MAXIT; i++)
		if (i < n) {
			EXPECT_REC(i, x_off[i], 4, id0 + i, &e_conv, "6.7.2.1p13 + 6.7.9p17: members of the anonymous struct are designated by name at containing offset + inner offset; initialization continues with the NEXT member in order, out of the anonymous struct into d");
			__CPROVER_assert(des[i] == D_NONE || r_head[i], "6.7.9p19: designated => scanned from the list head");
		}
#ifdef VERIF_CANARY
	__CPROVER_assert(!(g_last && id0 == 5), "CANARY");
#endif
}
