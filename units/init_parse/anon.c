/* UNIT
{
 "id": "INIT.parseinit.anon",
 "file": "init.c", "function": "parseinit", "also_functions": ["designator", "findmember", "focus", "advance", "subobj", "mkinit"],
 "properties": {"C07": "contract", "C10": "contract", "C19": "safety"},
 "mode": "harness",
 "replace_calls": {"initadd": "rec_initadd"},
 "unwind": 12,
 "kind": "bounded",
 "bound": "struct A { int a; struct { int b; int c; }; int d; }; lists: e,e,e,e | e,e,e,e,e (excess) | e,e | .b=e | .c=e | .d=e | .c=e,.a=e | e,.b=e | .d=e,e (excess) | .a=e,e,e,e; symbolic expression ids",
 "timeout": 300, "replay": false,
 "assumes": ["stand-ins and MODEL of parse_common.h",
             "a positional initializer FOLLOWING a designated member of the anonymous struct: INIT.parseinit.anon.next (finding)"]
}
*/
#include "anon_common.h"

void
harness(void)
{
	g_last = false;
	scenario(4, 0, 0, 0, 0);
	scenario(2, 0, 0, 0, 0);
	scenario(1, D_B, 0, 0, 0);
	scenario(1, D_C, 0, 0, 0);
	scenario(1, D_D, 0, 0, 0);
	scenario(2, D_C, D_A, 0, 0);
	scenario(2, 0, D_B, 0, 0);
	scenario(2, D_D, 0, 0, 0);
	g_last = true;
	scenario(4, D_A, 0, 0, 0);
}
