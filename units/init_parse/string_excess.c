/* UNIT
{
 "id": "INIT.parseinit.string.excess",
 "file": "init.c", "function": "parseinit", "also_functions": ["focus", "subobj", "mkinit"],
 "properties": {"C10": "contract", "C07": "contract"},
 "mode": "harness",
 "replace_calls": {"initadd": "rec_initadd"},
 "variants": {"only": ["-DV_MORE=0"], "more": ["-DV_MORE=1"]},
 "unwind": 6,
 "kind": "bounded",
 "bound": "char a[4] = {\"s\"} | {\"s\", e}",
 "timeout": 200, "replay": false,
 "assumes": ["stand-ins and MODEL of parse_common.h"]
}
*/
#include "parse_common.h"

/*
 * C11 6.7.9p14: the string literal, "optionally enclosed in braces", initialises the elements of the array -- all of them
 * (the rest is zero, p21).  An initializer that follows the literal inside those braces has no element left to initialise:
 * 6.7.9p2 (constraint) requires a diagnostic (gcc, clang: "excess elements in char array initializer").  cproc restarts at
 * element 0: `char a[4] = {"abc", 100};` is accepted and yields "dbc".
 */
void
harness(void)
{
	static struct type t_arr;
	IN(u64, in_id);
	bool in_more = V_MORE;      /* the token structure is a compile-time constant (parse_common.h) */

	exprs_init(&t_char, 4, &t_int);
	mkarr(&t_arr, &t_char, 4, false);
	script_begin();
	put(TLBRACE, 0);
	put(TSTRINGLIT, in_id);
	if (in_more) { put(TCOMMA, 0); put(TNUMBER, in_id + 1); }
	put(TRBRACE, 0);
	script_end();
#ifdef VERIF_CANARY
	__CPROVER_assert(in_id != 5, "CANARY");
#endif
	g_no_error = !in_more;
	r_n = 0;

	parseinit(0, &t_arr);

	__CPROVER_assert(!in_more, "6.7.9p2: an initializer after the string literal that initialised the whole array is diagnosed");
	__CPROVER_assume(!in_more);
	__CPROVER_assert(r_n == 1 && r_start[0] == 0 && r_end[0] == 4 && r_expr[0] == &e_strlit, "6.7.9p14: the literal initialises the whole array");
}
