/* UNIT
{
 "id": "INIT.parseinit.flexible",
 "file": "init.c", "function": "parseinit", "also_functions": ["designator", "findmember", "focus", "advance", "subobj", "mkinit"],
 "properties": {"C10": "contract", "C07": "contract", "C19": "contract"},
 "mode": "harness",
 "replace_calls": {"initadd": "rec_initadd"},
 "variants": {"none": ["-DV_CASE=0"], "elided": ["-DV_CASE=1"], "braced": ["-DV_CASE=2"], "designated": ["-DV_CASE=3"]},
 "unwind": 10,
 "kind": "bounded",
 "bound": "struct F { int n; int fam[]; } (size 4) initialised by {e} (none) | {e, e} (elided) | {e, {e}} (braced) | {.fam[1] = e} (designated)",
 "timeout": 200, "replay": false,
 "assumes": ["stand-ins and MODEL of parse_common.h"]
}
*/
#include "parse_common.h"

#ifndef V_CASE
#define V_CASE 0
#endif

/*
 * C11 6.7.2.1p18: "the flexible array member is ignored. In particular, the size of the structure is as if the flexible array
 * member were omitted"; an object of the struct type declared with an initializer has NO elements of fam.  6.7.9p2 (constraint):
 * "No initializer shall attempt to provide a value for an object not contained within the entity being initialized": any
 * initializer for fam[i] must be diagnosed.  cproc accepts them all, treats the member like an array of unknown size of its own
 * (grows the MEMBER TYPE, shared by every object of struct F), and requests bytes beyond sizeof(struct F): the static case
 * aborts in emitdata (assertion `offset <= d->type->size'), the automatic case stores past the 4-byte stack slot.
 */
void
harness(void)
{
	static struct type t_F, t_fam;
	static struct member m_n, m_fam;
	static char n_n[] = "n", n_f[] = "f";
	IN(u64, in_id);
	unsigned i;

	__CPROVER_assume(in_id < 1000);
	exprs_init(&t_char, 4, &t_int);
	mkarr(&t_fam, &t_int, 0, true);
	mkmem(&m_fam, n_f, &t_fam, 4, 0);
	mkmem(&m_n, n_n, &t_int, 0, &m_fam);
	mkstruct(&t_F, TYPESTRUCT, &m_n, 4);
	t_F.flexible = true;

	script_begin();
	put(TLBRACE, 0);
#if V_CASE == 3
	put(TPERIOD, 0); put(TIDENT, 'f' - 'a'); put(TLBRACK, 0); put(TNUMBER, 1); put(TRBRACK, 0); put(TASSIGN, 0); put(TNUMBER, in_id);
#else
	put(TNUMBER, in_id);
	if (V_CASE >= 1) put(TCOMMA, 0);
	if (V_CASE == 2) put(TLBRACE, 0);
	if (V_CASE >= 1) put(TNUMBER, in_id + 1);
	if (V_CASE == 2) put(TRBRACE, 0);
#endif
	put(TRBRACE, 0);
	script_end();
	g_no_error = V_CASE == 0;
	r_n = 0;
#ifdef VERIF_CANARY
	__CPROVER_assert(in_id != 5, "CANARY");
#endif

	parseinit(0, &t_F);

	__CPROVER_assert(V_CASE == 0, "6.7.9p2 + 6.7.2.1p18: an initializer for an element of the flexible array member is diagnosed");
	for (i = 0; i < NREC; i++)
		if (i < r_n)
			__CPROVER_assert(r_end[i] <= t_F.size, "6.7.9p2: every request lies inside the object [0, sizeof(struct F))");
	__CPROVER_assert(t_fam.size == 0 && t_fam.incomplete, "the member's (shared) type is not changed by initialising one object");
	__CPROVER_assert(V_CASE != 0 || (r_n == 1 && r_start[0] == 0 && r_end[0] == 4 && r_eid[0] == in_id), "n is initialised");
}
