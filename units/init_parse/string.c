/* UNIT
{
 "id": "INIT.parseinit.string",
 "file": "init.c", "function": "parseinit", "also_functions": ["designator", "findmember", "focus", "advance", "subobj", "mkinit"],
 "properties": {"C07": "contract", "C10": "contract", "C19": "safety"},
 "mode": "harness",
 "replace_calls": {"initadd": "rec_initadd"},
 "variants": {"char4": ["-DV_SHAPE=0"], "charU": ["-DV_SHAPE=1"], "wide4": ["-DV_SHAPE=2"], "wideU": ["-DV_SHAPE=3"], "mismatch": ["-DV_SHAPE=4"], "member": ["-DV_SHAPE=5"], "ptr": ["-DV_SHAPE=6"]},
 "unwind": 10,
 "kind": "bounded",
 "bound": "char a[4] | char a[] | wchar_t a[4] | wchar_t a[] initialised by \"s\" | {\"s\"} | {\"s\",} with a literal of 1..5 elements incl. the null (at most 4 characters + null for the complete arrays: exact fit without the terminator included); mismatch: char a[4] = L\"s\", wchar_t a[4] = \"s\" ; member: struct { char s[4]; int n; } = {\"s\", e} | {{\"s\"}, e} | {.s = \"s\", e}; ptr: char *p[2] = {\"s\", \"s\"}",
 "timeout": 300, "replay": false,
 "assumes": ["stand-ins and MODEL of parse_common.h; a string literal is ONE script token (adjacent literals are concatenated by EXPR.stringconcat)",
             "a literal with more characters than the array has elements: INIT.parseinit.string.toolong; an element initializer after the string inside the braces: INIT.parseinit.string.excess (findings)"]
}
*/
#include "parse_common.h"

#ifndef V_SHAPE
#define V_SHAPE 0
#endif

/*
 * C11 6.7.9p14: "An array of character type may be initialized by a character string literal or UTF-8 string literal,
 * optionally enclosed in braces. Successive bytes of the string literal (including the terminating null character if there is
 * room or if the array is of unknown size) initialize the elements of the array."  p15: the same for an array with element type
 * compatible with wchar_t (char16_t, char32_t) and a wide string literal with the corresponding prefix.  p22: an array of unknown
 * size gets exactly the literal's length (null included).  A char array with a wide literal, or a wchar_t array with a narrow
 * one, matches neither p14 nor p15: the literal then is an ordinary initializer for the first ELEMENT, a pointer for an integer:
 * constraint violation (6.5.16.1).  p20: in a struct the literal initialises the char-array member as a whole (brace elision does
 * not descend into it), the next initializer goes to the next member.  A pointer element takes the (decayed) literal as a scalar.
 */
static char n_s[] = "s", n_n[] = "n";
static struct type t_arr, t_S;
static struct member m_s, m_n;
u64 nondet_u64(void);

static void
scenario(unsigned form /* 0: "s"  1: {"s"}  2: {"s",}  3 (member): {.s = "s", e}  */)
{
	u64 slen = nondet_u64(), id0 = nondet_u64();
	bool wide = V_SHAPE == 2 || V_SHAPE == 3, unknown = V_SHAPE == 1 || V_SHAPE == 3;
	struct type *el = wide ? &t_wchar : &t_char;
	u64 es = wide ? 4 : 1;
	struct init *ret;

	SCENARIO_ENTER();
	__CPROVER_assume(id0 < 1000 && slen >= 1 && slen <= 5);
	exprs_init(V_SHAPE == 4 ? (form ? &t_char : &t_wchar) : el, slen, &t_int);
	if (V_SHAPE == 4) { el = form ? &t_wchar : &t_char; es = form ? 4 : 1; }
	mkarr(&t_arr, V_SHAPE == 6 ? &t_ptr : el, V_SHAPE == 6 ? 2 : 4, unknown);
	mkmem(&m_n, n_n, &t_int, 4, 0);
	mkmem(&m_s, n_s, &t_arr, 0, &m_n);
	mkstruct(&t_S, TYPESTRUCT, &m_s, 8);

	script_begin();
#if V_SHAPE <= 4
	if (V_SHAPE == 4 || form) put(TLBRACE, 0);
	put(TSTRINGLIT, id0);
	if (V_SHAPE != 4 && form == 2) put(TCOMMA, 0);
	if (V_SHAPE == 4 || form) put(TRBRACE, 0);
#elif V_SHAPE == 5
	put(TLBRACE, 0);
	if (form == 1) put(TLBRACE, 0);
	if (form == 3) { put(TPERIOD, 0); put(TIDENT, 's' - 'a'); put(TASSIGN, 0); }
	put(TSTRINGLIT, id0);
	if (form == 1) put(TRBRACE, 0);
	put(TCOMMA, 0); put(TNUMBER, id0 + 1);
	put(TRBRACE, 0);
#else
	put(TLBRACE, 0); put(TSTRINGLIT, id0); put(TCOMMA, 0); put(TSTRINGLIT, id0 + 1); put(TRBRACE, 0);
#endif
	script_end();
	__CPROVER_assume(unknown || V_SHAPE == 6 || slen - 1 <= 4);     /* at most as many characters as elements (toolong: own unit) */
	g_no_error = V_SHAPE != 4;
	r_n = 0;

#if defined(VERIF_CANARY) && V_SHAPE == 4
	__CPROVER_assert(!(g_last && id0 == 5 && slen == 4), "CANARY");   /* this variant's scripts all end in a diagnostic */
#endif
	ret = parseinit(0, V_SHAPE == 5 ? &t_S : &t_arr);

	__CPROVER_assert(V_SHAPE != 4, "6.7.9p14/p15 + 6.5.16.1: a string literal whose element type does not match the array's is diagnosed");
	__CPROVER_assume(V_SHAPE != 4);
	__CPROVER_assert(s_pos == s_n && tok.kind == TSEMICOLON, "exactly the tokens of the initializer are consumed");
#if V_SHAPE <= 3
	__CPROVER_assert(r_n == 1, "6.7.9p14: one request for the whole array");
	EXPECT_REC(0, 0, unknown ? slen * es : 4 * es, id0, &e_strlit, "6.7.9p14/p15/p22: the string LITERAL (not the pointer it decays to) initialises the whole array [0, size); size of an array of unknown size = length of the literal, null included");
	__CPROVER_assert(!t_arr.incomplete && t_arr.size == (unknown ? slen * es : 4 * es), "6.7.9p22: complete afterwards, with the literal's length; a complete array keeps its size (exact fit: the null is dropped, not the array grown)");
	__CPROVER_assert(g_convtype == 0, "no assignment conversion is applied to the literal");
#elif V_SHAPE == 5
	__CPROVER_assert(r_n == 2, "two expressions, two requests");
	EXPECT_REC(0, 0, 4, id0, &e_strlit, "6.7.9p14/p20: the literal initialises the member s as a whole, with or without braces or designator");
	EXPECT_REC(1, 4, 4, id0 + 1, &e_conv, "6.7.9p17/p20: the next initializer goes to the next member n, not into s");
	__CPROVER_assert(t_arr.size == 4 && t_S.size == 8, "types untouched");
#else
	__CPROVER_assert(r_n == 2, "two expressions, two requests");
	EXPECT_REC(0, 0, 8, id0, &e_convp, "pointer element 0 takes the decayed literal, converted as by assignment");
	EXPECT_REC(1, 8, 8, id0 + 1, &e_convp, "pointer element 1");
#endif
	__CPROVER_assert(ret != 0, "list returned");
#ifdef VERIF_CANARY
	__CPROVER_assert(!(g_last && id0 == 5 && slen == 4), "CANARY");
#endif
}

void
harness(void)
{
	g_last = false;
#if V_SHAPE <= 3
	scenario(0); scenario(1); g_last = true; scenario(2);
#elif V_SHAPE == 4
	scenario(0); g_last = true; scenario(1);
#elif V_SHAPE == 5
	scenario(0); scenario(1); g_last = true; scenario(3);
#else
	g_last = true; scenario(0);
#endif
}
