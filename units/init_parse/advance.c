/* UNIT
{
 "id": "INIT.advance.struct",
 "file": "init.c", "function": "advance", "also_functions": ["subobj"],
 "properties": {"C07": "contract", "C10": "contract", "C19": "safety"},
 "mode": "harness",
 "unwind": 13, "unwindset": ["advance.0:4"], "unwind_failure": "violation",
 "kind": "proof-const-unwind",
 "bound": "struct S { int a; struct T { int x; int y; } t; union U { int i; short h; } u; int b[2]; int c; } at an arbitrary base offset; the cursor stands on any of a, t (whole), t.x, t.y, u (whole), u.i, u.h, b (whole), b[0], b[1], c; the brace level is S or (for t, t.x, t.y) T",
 "timeout": 200, "replay": false,
 "assumes": ["MODEL of parse_common.h (union read as struct)", "p->sub is above p->cur (parseinit: `else if (p.sub != p.cur) advance(&p)`)", "cursor stacks as focus()/findmember()/advance() build them: every struct slot's u.mem names the member entered, every array slot's u.idx the byte index"]
}
*/
#include "parse_common.h"

/*
 * C11 6.7.9p17: "... subobjects of the current object are initialized in order according to the type of the current object:
 * array elements in increasing subscript order, structure members in declaration order, and the first named member of a union"
 * p20: when a subaggregate (elided braces) is exhausted, "any remaining initializers are left to initialize the next element or
 * member of the aggregate of which the current subaggregate or contained union is a part".  A union holds one member: after any
 * member of u comes b.  p2 (constraint): when the object of the innermost BRACE level is exhausted there is no next subobject:
 * diagnosed, the cursor never leaves the brace level.
 */
enum { P_A, P_T, P_TX, P_TY, P_U, P_UI, P_UH, P_B, P_B0, P_B1, P_C, P_N };
static char n_a[] = "a", n_t[] = "t", n_u[] = "u", n_b[] = "b", n_c[] = "c", n_x[] = "x", n_y[] = "y", n_i[] = "i", n_h[] = "h";
static struct type t_S, t_T, t_U, t_B, t_short;
static struct member m_a, m_t, m_u, m_b, m_c, m_x, m_y, m_i, m_h;
static struct initparser ip;
#define O 1     /* S sits in slot 1; slot 0 holds an enclosing struct Z { struct S s; int w; } that is NOT the brace level: a cursor that
                   wrongly leaves the brace level lands on defined data (w) instead of below the stack */
static struct type t_Z; static struct member m_s, m_w; static char n_s[] = "s", n_w[] = "w";
u64 nondet_u64(void);

static void
push(struct type *t, u64 off)
{
	ip.sub++;
	ip.sub->type = t; ip.sub->offset = off; ip.sub->iscur = false;
}

static void
scenario(unsigned pos, bool curT)
{
	struct initparser *p = &ip;
	u64 base = nondet_u64();
	unsigned xdepth; u64 xoff; struct type *xt; struct member *xm;
	bool wellformed = true;

	SCENARIO_ENTER();
	__CPROVER_assume(base <= (1ull << 40));
	exprs_init(&t_char, 4, &t_int);
	mkscalar(&t_short, TYPESHORT, 2, PROPSCALAR|PROPARITH|PROPREAL|PROPINT);
	mkmem(&m_y, n_y, &t_int, 4, 0); mkmem(&m_x, n_x, &t_int, 0, &m_y); mkstruct(&t_T, TYPESTRUCT, &m_x, 8);
	mkmem(&m_h, n_h, &t_short, 0, 0); mkmem(&m_i, n_i, &t_int, 0, &m_h); mkstruct(&t_U, TYPEUNION, &m_i, 4);
	mkarr(&t_B, &t_int, 2, false);
	mkmem(&m_c, n_c, &t_int, 24, 0); mkmem(&m_b, n_b, &t_B, 16, &m_c); mkmem(&m_u, n_u, &t_U, 12, &m_b);
	mkmem(&m_t, n_t, &t_T, 4, &m_u); mkmem(&m_a, n_a, &t_int, 0, &m_t); mkstruct(&t_S, TYPESTRUCT, &m_a, 28);

	mkmem(&m_w, n_w, &t_int, 28, 0); mkmem(&m_s, n_s, &t_S, 0, &m_w); mkstruct(&t_Z, TYPESTRUCT, &m_s, 32);
	ip.obj[0].type = &t_Z; ip.obj[0].offset = 0; ip.obj[0].iscur = true; ip.obj[0].u.mem = &m_s;
	ip.init = 0; ip.last = &ip.init;
	ip.sub = &ip.obj[O]; ip.obj[O].type = &t_S; ip.obj[O].offset = base; ip.obj[O].iscur = true;
	ip.cur = &ip.obj[O];
	switch (pos) {
	case P_A: ip.obj[O].u.mem = &m_a; push(&t_int, base); break;
	case P_T: ip.obj[O].u.mem = &m_t; push(&t_T, base + 4); break;
	case P_TX: ip.obj[O].u.mem = &m_t; push(&t_T, base + 4); ip.obj[O + 1].u.mem = &m_x; push(&t_int, base + 4); break;
	case P_TY: ip.obj[O].u.mem = &m_t; push(&t_T, base + 4); ip.obj[O + 1].u.mem = &m_y; push(&t_int, base + 8); break;
	case P_U: ip.obj[O].u.mem = &m_u; push(&t_U, base + 12); break;
	case P_UI: ip.obj[O].u.mem = &m_u; push(&t_U, base + 12); ip.obj[O + 1].u.mem = &m_i; push(&t_int, base + 12); break;
	case P_UH: ip.obj[O].u.mem = &m_u; push(&t_U, base + 12); ip.obj[O + 1].u.mem = &m_h; push(&t_short, base + 12); break;
	case P_B: ip.obj[O].u.mem = &m_b; push(&t_B, base + 16); break;
	case P_B0: ip.obj[O].u.mem = &m_b; push(&t_B, base + 16); ip.obj[O + 1].u.idx = 0; push(&t_int, base + 16); break;
	case P_B1: ip.obj[O].u.mem = &m_b; push(&t_B, base + 16); ip.obj[O + 1].u.idx = 4; push(&t_int, base + 20); break;
	default: ip.obj[O].u.mem = &m_c; push(&t_int, base + 24); break;
	}
	if (curT) { ip.cur = &ip.obj[O + 1]; ip.obj[O + 1].iscur = true; }

	/* the next subobject in order (6.7.9p17/p20) */
	xm = 0;
	switch (pos) {
	case P_A: xdepth = 1; xt = &t_T; xoff = 4; xm = &m_t; break;
	case P_TX: xdepth = 2; xt = &t_int; xoff = 8; break;
	case P_T: case P_TY: xdepth = 1; xt = &t_U; xoff = 12; xm = &m_u; wellformed = !curT; break;     /* inside the braces of t nothing follows t.y */
	case P_U: case P_UI: case P_UH: xdepth = 1; xt = &t_B; xoff = 16; xm = &m_b; break;
	case P_B0: xdepth = 2; xt = &t_int; xoff = 20; break;
	case P_B: case P_B1: xdepth = 1; xt = &t_int; xoff = 24; xm = &m_c; break;
	default: xdepth = 0; xt = 0; xoff = 0; wellformed = false; break;
	}
	g_no_error = wellformed;

	advance(p);

	__CPROVER_assert(wellformed, "6.7.9p2: past the last subobject of the brace level's object there is nothing to initialise: diagnosed");
	__CPROVER_assume(wellformed);
	__CPROVER_assert(p->sub == &ip.obj[O + xdepth], "exhausted subaggregates are left (one slot per level), the next subobject is entered");
	__CPROVER_assert(p->sub->type == xt && p->sub->offset == base + xoff && !p->sub->iscur, "6.7.9p17/p20: next member in declaration order / next element / the member after the union or exhausted subaggregate, at its offset");
	__CPROVER_assert(xm == 0 || ip.obj[O].u.mem == xm, "the enclosing struct slot names the member now entered");
	__CPROVER_assert(pos != P_TX || ip.obj[O + 1].u.mem == &m_y, "the enclosing struct slot names the member now entered (nested)");
	__CPROVER_assert(pos != P_B0 || ip.obj[O + 1].u.idx == 4, "the enclosing array slot holds the byte index of the element now entered");
	__CPROVER_assert(ip.cur == &ip.obj[O + (curT ? 1 : 0)] && ip.obj[O].type == &t_S && ip.obj[O].offset == base && ip.obj[O].iscur, "brace level and outer slot untouched");
	__CPROVER_assert(ip.obj[0].type == &t_Z && ip.obj[0].u.mem == &m_s && ip.obj[0].iscur, "the slot below the brace level is untouched");
	__CPROVER_assert(t_S.size == 28 && t_B.size == 8 && !t_B.incomplete, "types untouched");
#ifdef VERIF_CANARY
	__CPROVER_assert(!(g_last && base == 5), "CANARY");
#endif
}

void
harness(void)
{
	unsigned pos;

	g_last = false;
	for (pos = 0; pos < P_N; pos++)
		scenario(pos, false);
	scenario(P_TY, true);          /* (parseinit calls advance() only with p.sub above the brace level: t itself with brace level T is not a call state) */
	g_last = true;
	scenario(P_TX, true);
}
