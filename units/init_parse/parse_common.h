/*
 * parse_common.h -- the stand-ins shared by the INIT.parseinit.* / INIT.advance.* / INIT.focus.* / INIT.findmember.* units
 * (CONVENTIONS section 8): the REAL init.c between
 *
 *   - a token SCRIPT for tok/next()/consume()/expect() (the scanner/preprocessor are the SCAN.* / PP.* units' business),
 *   - assignexpr(): one script token = one assignment-expression; hands out one of three expression prototypes (an int
 *     constant, a decayed string literal, an lvalue of struct type) and remembers the script id of the expression,
 *   - intconstexpr(): one TNUMBER script token = the constant expression of an index designator,
 *   - exprassign(): the verdict of the real one (EXPR.exprassign): int -> arithmetic scalar converts, everything else into an
 *     arithmetic scalar violates 6.5.16.1 and is diagnosed there; string -> pointer converts,
 *   - typecompatible(): identity of the type objects the harness built (TYPE.compat proves the real one),
 *   - initadd() replaced by a RECORDER (replace_calls): the ordered sequence of (byte range, bit-field, expression) requests is
 *     what 6.7.9p17-p23 prescribe; merging them (p19 override) is INIT.initadd's business.
 *
 * Every unit fixes its type graph AND the token structure of each script at compile time (a harness runs many fixed structures
 * one after the other) and leaves designator values / expression ids / string lengths symbolic: with a symbolic structure the
 * cursor p.sub becomes a symbolic pointer into the uninitialised p.obj[32] and symex does not finish.
 *
 * MODEL: init.c and cc.h are compiled with `union` read as `struct` (struct object's {mem, idx}, struct type's u, struct expr's
 * u).  CBMC 6.11 does not propagate pointers stored in unions (CONVENTIONS 6): `p->sub->u.mem->type` then is a symbolic pointer,
 * every switch on t->kind explores all arms and dereferences the index of an array slot as a member pointer (symex never
 * finishes).  Under the model a read of a member other than the last one written yields that member's own last value (for the
 * uninitialised local p.obj[]: an arbitrary value) instead of the punned bits.
 */
#include <stdlib.h>
#include <assert.h>
#include <stdbool.h>
#include <string.h>
#include <stdio.h>
#include <stdint.h>
#include <stddef.h>
#define union struct
#include "init.c"
#undef union
#include "verif.h"

struct token tok;
extern int g_no_error;

/* ---------------------------------------------------------------- token script */
#ifndef NTOK
#define NTOK 24
#endif
static enum tokenkind s_kind[NTOK];
static u64 s_val[NTOK];            /* TNUMBER: value / expression id; TIDENT: member name letter - 'a' / expression id; TSTRINGLIT: expression id */
static unsigned s_n, s_pos;        /* s_kind[s_n] is the token AFTER the initializer (';') */

static void
put(enum tokenkind k, u64 v)
{
	__CPROVER_assume(s_n < NTOK - 1);
	s_kind[s_n] = k;
	s_val[s_n] = v;
	s_n++;
}

static void
script_begin(void)
{
	s_n = 0;
	s_pos = 0;
}

static void
script_end(void)
{
	s_kind[s_n] = TSEMICOLON;
	s_val[s_n] = 0;
	s_pos = 0;
	tok.kind = s_kind[0];
	tok.lit = 0;
}

void
next(void)
{
	__CPROVER_assert(s_pos < s_n, "nothing is read past the token that follows the initializer");
	s_pos++;
	tok.kind = s_kind[s_pos];
	tok.lit = 0;
}

bool
consume(int kind)
{
	if (tok.kind != kind)
		return false;
	next();
	return true;
}

char *
expect(enum tokenkind kind, const char *msg)
{
	char *lit = 0;

	if (tok.kind != kind)
		verif_noreturn();      /* syntax error, diagnosed by the real expect() */
	if (kind == TIDENT) {
		lit = malloc(2);       /* the scanner hands out heap strings; designator() frees the name */
		__CPROVER_assume(lit != 0);
		lit[0] = 'a' + (char)s_val[s_pos];
		lit[1] = 0;
	}
	next();
	return lit;
}

/* ---------------------------------------------------------------- expressions */
static struct type t_int, t_char, t_wchar, t_ptr, t_strarr;
static struct expr e_int, e_str, e_strlit, e_struct, e_conv, e_convp;
static u64 g_eid;                  /* script id of the last assignment-expression */
static unsigned g_nexpr;           /* number of assignment-expressions parsed */
static struct type *g_convtype;    /* target type of the last exprassign() */

static void
mkscalar(struct type *t, enum typekind k, u64 size, enum typeprop prop)
{
	t->kind = k;
	t->size = size;
	t->align = size;
	t->prop = prop;
	t->incomplete = false;
	t->base = 0;
}

static void
mkarr(struct type *t, struct type *base, u64 n, bool incomplete)
{
	t->kind = TYPEARRAY;
	t->base = base;
	t->size = incomplete ? 0 : n * base->size;
	t->align = base->align;
	t->prop = 0;
	t->incomplete = incomplete;
}

static void
mkmem(struct member *m, char *name, struct type *t, u64 off, struct member *nx)
{
	m->name = name;
	m->type = t;
	m->offset = off;
	m->bits.before = 0;
	m->bits.after = 0;
	m->next = nx;
	m->qual = QUALNONE;
}

static void
mkstruct(struct type *t, enum typekind k, struct member *m, u64 size)
{
	t->kind = k;
	t->size = size;
	t->align = 4;
	t->prop = 0;
	t->incomplete = false;
	t->base = 0;
	{
		/* one whole-member assignment: CBMC then propagates the pointer stored in the union (CONVENTIONS 6) */
		__typeof__(t->u.structunion) su = {0, m};
		t->u.structunion = su;
	}
}

/* strel: element type of the string literal, slen: its length in elements INCLUDING the terminating null; structtype: type of
   the struct-typed expression */
static void
exprs_init(struct type *strel, u64 slen, struct type *structtype)
{
	mkscalar(&t_int, TYPEINT, 4, PROPSCALAR|PROPARITH|PROPREAL|PROPINT);
	mkscalar(&t_char, TYPECHAR, 1, PROPSCALAR|PROPARITH|PROPREAL|PROPINT|PROPCHAR);
	mkscalar(&t_wchar, TYPEINT, 4, PROPSCALAR|PROPARITH|PROPREAL|PROPINT);
	mkscalar(&t_ptr, TYPEPOINTER, 8, PROPSCALAR);
	mkarr(&t_strarr, strel, slen, false);
	e_int.kind = EXPRCONST; e_int.type = &t_int; e_int.decayed = false; e_int.base = 0; e_int.lvalue = false;
	e_strlit.kind = EXPRSTRING; e_strlit.type = &t_strarr; e_strlit.decayed = false; e_strlit.base = 0; e_strlit.lvalue = true;
	e_str.kind = EXPRUNARY; e_str.op = TBAND; e_str.type = &t_ptr; e_str.decayed = true; e_str.base = &e_strlit; e_str.lvalue = false;
	e_struct.kind = EXPRIDENT; e_struct.type = structtype; e_struct.decayed = false; e_struct.base = 0; e_struct.lvalue = true;
	e_conv.kind = EXPRCAST; e_conv.decayed = false; e_conv.base = &e_int;
	e_convp.kind = EXPRCAST; e_convp.decayed = false; e_convp.base = &e_str;
	g_eid = 0; g_nexpr = 0; g_convtype = 0;
}

struct expr *
assignexpr(struct scope *s)
{
	struct expr *e;

	if (tok.kind != TNUMBER && tok.kind != TSTRINGLIT && tok.kind != TIDENT)
		verif_noreturn();      /* no expression starts here: syntax error, diagnosed by the real expression parser */
	e = tok.kind == TNUMBER ? &e_int : tok.kind == TSTRINGLIT ? &e_str : &e_struct;
	g_eid = s_val[s_pos];
	g_nexpr++;
	next();
	return e;
}

unsigned long long
intconstexpr(struct scope *s, bool allowneg)
{
	u64 v;

	__CPROVER_assert(!allowneg, "6.7.9p6: an array index designator is not allowed to be negative");
	if (tok.kind != TNUMBER)
		verif_noreturn();
	v = s_val[s_pos];
	next();
	return v;
}

struct expr *
exprassign(struct expr *e, struct type *t)
{
	g_convtype = t;
	if (e == &e_int && (t->prop & PROPARITH))
		return &e_conv;
	if (e == &e_str && t->kind == TYPEPOINTER)
		return &e_convp;
	verif_noreturn();          /* 6.5.16.1p1 constraint, diagnosed by the real exprassign() */
	return 0;
}

bool
typecompatible(struct type *a, struct type *b)
{
	return a == b;
}

/* ---------------------------------------------------------------- the initadd() recorder */
#ifndef NREC
#define NREC 6
#endif
static unsigned r_n;
static u64 r_start[NREC], r_end[NREC], r_eid[NREC];
static short r_before[NREC], r_after[NREC];
static struct expr *r_expr[NREC];
static struct type *r_conv[NREC];
static bool r_head[NREC];          /* the request scans from the head of the list (designator() reset p->last) */

void
rec_initadd(struct initparser *p, struct init *new)
{
	__CPROVER_assert(r_n < NREC, "more initializer requests than the script has expressions");
	__CPROVER_assume(r_n < NREC);
	r_start[r_n] = new->start;
	r_end[r_n] = new->end;
	r_before[r_n] = new->bits.before;
	r_after[r_n] = new->bits.after;
	r_expr[r_n] = new->expr;
	r_eid[r_n] = g_eid;
	r_conv[r_n] = g_convtype;
	r_head[r_n] = p->last == &p->init;
	r_n++;
	if (!p->init)
		p->init = new;
	p->last = &new->next;      /* as the real one: the next positional request scans from here */
}

/*
 * A harness runs many scripts of FIXED structure one after the other.  Each one is entered under a nondeterministic choice:
 * a script that is (correctly) diagnosed ends its path in error() = assume(false) and must not cut off the scripts after it.
 * g_last is set by the harness before its final script; the canary sits at the end of that one (all scripts before it were
 * passed through).
 */
bool nondet_bool(void);
static bool g_last;
#define SCENARIO_ENTER() do { if (!nondet_bool()) return; } while (0)

/* one expected request */
#define EXPECT_REC(i, off, sz, id, ex, msg) \
	__CPROVER_assert(r_start[i] == (off) && r_end[i] == (off) + (sz) && r_before[i] == 0 && r_after[i] == 0 && \
	                 r_eid[i] == (id) && r_expr[i] == (ex), msg)
