/* UNIT
{
 "id": "INIT.parseinit.array.bigindex",
 "file": "init.c", "function": "parseinit", "also_functions": ["designator", "subobj", "mkinit"],
 "properties": {"C07": "contract", "C10": "contract"},
 "mode": "harness",
 "replace_calls": {"initadd": "rec_initadd"},
 "variants": {"complete": ["-DV_INCOMPLETE=0"], "unknown": ["-DV_INCOMPLETE=1"]},
 "unwind": 4,
 "kind": "proof-const-unwind",
 "bound": "int a[3] / int a[]; initializer `{ [d] = e }` with d any 64-bit value",
 "timeout": 200, "replay": false,
 "assumes": ["token script, assignexpr/intconstexpr/exprassign stand-ins and the initadd recorder of parse_common.h"]
}
*/
#include "parse_common.h"

/*
 * C11 6.7.9p6 (constraint): "If a designator has the form [ constant-expression ] then the current object ... shall have array
 * type and the expression shall be an integer constant expression. If the array is of unknown size, any nonnegative value is
 * valid" -- and, by 6.7.9p2 / 6.7.9p6 for a complete array, the value must be less than the number of elements.  p22: the size
 * of an array of unknown size is (largest index + 1) elements: when that does not fit the size type the object cannot be
 * created and the declaration must be rejected (5.2.4.1), never given a wrapped-around size.
 */
void
harness(void)
{
	static struct type t_arr;
	IN(u64, in_d); IN(u64, in_id);
	bool wellformed;

	exprs_init(&t_char, 4, &t_int);
	mkarr(&t_arr, &t_int, 3, V_INCOMPLETE);
	script_begin();
	put(TLBRACE, 0); put(TLBRACK, 0); put(TNUMBER, in_d); put(TRBRACK, 0); put(TASSIGN, 0); put(TNUMBER, in_id); put(TRBRACE, 0);
	script_end();
	wellformed = V_INCOMPLETE ? in_d <= (1ull << 62) - 2 : in_d < 3;    /* (d + 1) * sizeof(int) must not wrap the 64-bit size */
	g_no_error = V_INCOMPLETE ? in_d < (1ull << 40) : in_d < 3;
	r_n = 0;

	parseinit(0, &t_arr);

	__CPROVER_assert(wellformed, "6.7.9p6/p2: a designated index outside a complete array, or one whose element lies beyond the largest representable object, is diagnosed");
	__CPROVER_assume(wellformed);
	__CPROVER_assert(r_n == 1 && r_start[0] == in_d * 4 && r_end[0] == in_d * 4 + 4 && r_eid[0] == in_id, "6.7.9p17: element d, at byte offset d * sizeof(int)");
	__CPROVER_assert(t_arr.size == (V_INCOMPLETE ? (in_d + 1) * 4 : 12) && !t_arr.incomplete, "6.7.9p22: size from the largest index");
#ifdef VERIF_CANARY
	__CPROVER_assert(in_d != 2, "CANARY");
#endif
}
