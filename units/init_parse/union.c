/* UNIT
{
 "id": "INIT.parseinit.union",
 "file": "init.c", "function": "parseinit", "also_functions": ["designator", "findmember", "focus", "advance", "subobj", "mkinit"],
 "properties": {"C07": "contract", "C10": "contract", "C19": "safety"},
 "mode": "harness",
 "replace_calls": {"initadd": "rec_initadd"},
 "variants": {"f0": ["-DV_FORM0=0"], "f1": ["-DV_FORM0=1"], "f2": ["-DV_FORM0=2"], "top": ["-DV_FORM0=3"]},
 "unwind": 12,
 "kind": "bounded",
 "bound": "struct W { union U { int i; short h; } u; int z; }; `{ item , item }`: first item {none, .u, .u.i, .u.h, .z} x {e, {e}, {e,e}}, second item absent or one of {e, {e}, .u.h = e, .z = e}; variant top: union U = {e} | {.h = e} | {e, e} | {.h = e, e} | {.i = e, .h = e}",
 "timeout": 300, "replay": false,
 "assumes": ["stand-ins and MODEL of parse_common.h", "two initializers inside the braces of a scalar: skipped, INIT.parseinit.scalar.excess (finding)"]
}
*/
#include "parse_common.h"

#ifndef V_FORM0
#define V_FORM0 0
#endif

/*
 * C11 6.7.9p17: "... union members in declaration order ..." does not exist: "the first named member of a union" is initialised
 * when no designator is given (p10, p17: "In contrast, a designation causes the following initializer to begin initialization of
 * the subobject described by the designator"); a union holds ONE member, so a second initializer in the (explicit or elided)
 * list of a union has no object left: p2 (constraint) for explicit braces; with brace elision (p20) "only enough initializers
 * from the list are taken to account for ... the first member of the contained union; any remaining initializers are left to
 * initialize the next element or member of the aggregate of which the ... contained union is a part" -- here z.
 */
enum { D_NONE, D_U, D_UI, D_UH, D_Z, D_N };
enum { FM_E, FM_BE, FM_BEE, FM_N };
#define MAXIT 3
static char n_u[] = "u", n_z[] = "z", n_i[] = "i", n_h[] = "h";
static struct type t_W, t_U, t_short;
static struct member m_u, m_z, m_i, m_h;
u64 nondet_u64(void);

static void
scenario(bool top, unsigned n, const unsigned char *des, const unsigned char *form)
{
	u64 id0 = nondet_u64(), x_off[NREC], x_sz[NREC], x_id[NREC];
	bool x_head[NREC];
	unsigned i, x_n = 0, pos = 0, k = 0;
	bool atagg = !top, memh = false, wellformed = true, scalarexcess = false;
	struct init *ret;

	SCENARIO_ENTER();
	__CPROVER_assume(id0 < 1000);
	exprs_init(&t_char, 4, &t_int);
	mkscalar(&t_short, TYPESHORT, 2, PROPSCALAR|PROPARITH|PROPREAL|PROPINT);
	mkmem(&m_h, n_h, &t_short, 0, 0);
	mkmem(&m_i, n_i, &t_int, 0, &m_h);
	mkstruct(&t_U, TYPEUNION, &m_i, 4);
	mkmem(&m_z, n_z, &t_int, 4, 0);
	mkmem(&m_u, n_u, &t_U, 0, &m_z);
	mkstruct(&t_W, TYPESTRUCT, &m_u, 8);

	script_begin();
	put(TLBRACE, 0);
	for (i = 0; i < MAXIT; i++)
		if (i < n) {
			if (i > 0) put(TCOMMA, 0);
			if (des[i] != D_NONE) {
				if (!top) { put(TPERIOD, 0); put(TIDENT, des[i] == D_Z ? 'z' - 'a' : 'u' - 'a'); }
				if (des[i] == D_UI || des[i] == D_UH) { put(TPERIOD, 0); put(TIDENT, des[i] == D_UI ? 'i' - 'a' : 'h' - 'a'); }
				put(TASSIGN, 0);
			}
			if (form[i] != FM_E) put(TLBRACE, 0);
			put(TNUMBER, id0 + k++);
			if (form[i] == FM_BEE) { put(TCOMMA, 0); put(TNUMBER, id0 + k++); }
			if (form[i] != FM_E) put(TRBRACE, 0);
		}
	put(TRBRACE, 0);
	script_end();

	/* pos: 0 = the union, 1 = z, 2 = nothing left (top: 1 = nothing left) */
	k = 0;
	for (i = 0; i < MAXIT; i++)
		if (i < n && wellformed && !scalarexcess) {
			switch (des[i]) {
			case D_U: pos = 0; atagg = true; memh = false; break;
			case D_UI: pos = 0; atagg = false; memh = false; break;
			case D_UH: pos = 0; atagg = false; memh = true; break;
			case D_Z: pos = 1; break;
			default:
				if (pos == (top ? 1 : 2)) wellformed = false;
			}
			if (!wellformed) break;
			x_head[x_n] = des[i] != D_NONE;
			if (pos == 0) {
				if (form[i] == FM_BEE) {
					if (atagg) wellformed = false;      /* p2: the braces of a union hold one initializer */
					else scalarexcess = true;
					break;
				}
				x_off[x_n] = 0; x_sz[x_n] = memh ? 2 : 4; x_id[x_n] = id0 + k++; x_n++;
				pos = 1;
			} else {
				if (form[i] == FM_BEE) { scalarexcess = true; break; }
				x_off[x_n] = 4; x_sz[x_n] = 4; x_id[x_n] = id0 + k++; x_n++;
				pos = 2;
			}
		}
	if (scalarexcess)
		return;
	g_no_error = wellformed;
	r_n = 0;

	ret = parseinit(0, top ? &t_U : &t_W);

	__CPROVER_assert(wellformed, "6.7.9p2: a second initializer for a union (which holds one member), or one after the last member, is diagnosed");
	__CPROVER_assume(wellformed);
	__CPROVER_assert(s_pos == s_n && tok.kind == TSEMICOLON, "exactly the tokens of the initializer are consumed");
	__CPROVER_assert(r_n == x_n, "one request per expression of the list");
	for (i = 0; i < NREC; i++)
		if (i < x_n) {
			EXPECT_REC(i, x_off[i], x_sz[i], x_id[i], &e_conv, "6.7.9p10/p17/p20: the first named member of the union unless a member is designated; then on to z");
			__CPROVER_assert(r_conv[i] == (x_sz[i] == 2 ? &t_short : &t_int), "6.7.9p11: converted to the type of the member that is initialised");
			__CPROVER_assert(!x_head[i] || r_head[i], "6.7.9p19: designated => scanned from the list head");
		}
	__CPROVER_assert(ret != 0 && t_U.size == 4 && t_W.size == 8, "types untouched, list returned");
#ifdef VERIF_CANARY
	__CPROVER_assert(!(g_last && id0 == 5), "CANARY");
#endif
}

void
harness(void)
{
	unsigned char des[MAXIT], form[MAXIT];
#if V_FORM0 < 3
	static const unsigned char D0[D_N] = {D_NONE, D_UI, D_UH, D_Z, D_U};
	static const unsigned char D1[4] = {D_NONE, D_NONE, D_UH, D_Z};
	static const unsigned char F1[4] = {FM_E, FM_BE, FM_E, FM_E};
	unsigned d0, j;

	for (d0 = 0; d0 < D_N; d0++) {
		des[0] = D0[d0]; form[0] = V_FORM0;
		g_last = false;
		scenario(false, 1, des, form);
		for (j = 0; j < 4; j++) {
			des[1] = D1[j]; form[1] = F1[j];
			g_last = V_FORM0 < 2 && d0 == D_N - 1 && j == 3;
			scenario(false, 2, des, form);
		}
	}
#if V_FORM0 == 2
	/* every `.u = {e,e}` above is diagnosed: close with a well-formed list for the canary */
	des[0] = D_NONE; form[0] = FM_E; des[1] = D_NONE; form[1] = FM_E;
	g_last = true;
	scenario(false, 2, des, form);
#endif
#else
	form[0] = FM_E; form[1] = FM_E;
	g_last = false;
	des[0] = D_NONE; scenario(true, 1, des, form);
	des[0] = D_UH; scenario(true, 1, des, form);
	des[0] = D_NONE; des[1] = D_NONE; scenario(true, 2, des, form);
	des[0] = D_UH; des[1] = D_NONE; scenario(true, 2, des, form);
	g_last = true;
	des[0] = D_UI; des[1] = D_UH; scenario(true, 2, des, form);
#endif
}
