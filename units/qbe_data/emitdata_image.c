/* UNIT
{
 "id": "QBE.emitdata.image.bnd",
 "file": "qbe.c", "function": "emitdata", "also_functions": ["dataitem"],
 "properties": {"C07": "contract", "C03": "contract", "C19": "safety"},
 "mode": "harness",
 "link_repo": ["type.c"],
 "unwind": 14,
 "kind": "bounded",
 "bound": "quick: objects of 1..8 bytes with up to 2 initialisers (thorough: 1..12 bytes, up to 2; three initialisers did not finish in 30 min), each a scalar constant of 1/2/4/8 bytes, a bit-field inside a 1/2/4-byte unit, or (variant str) one char16_t string of up to 3 elements followed by one scalar",
 "variants": {"n0": ["-DV_SCALARS","-DV_N=0"], "n1": ["-DV_SCALARS","-DV_N=1"], "n2": ["-DV_SCALARS","-DV_N=2"], "str1": ["-DV_STR","-DV_N=1"], "str2": ["-DV_STR","-DV_N=2"]},
 "canary_variant": "n2",
 "timeout": 300, "mem_gb": 10, "replay": false,
 "tiers": {"thorough": {"cflags": ["-DMAXS=12"], "unwind": 18, "timeout": 1800, "variants": {"n0": ["-DV_SCALARS","-DV_N=0"], "n1": ["-DV_SCALARS","-DV_N=1"], "n2": ["-DV_SCALARS","-DV_N=2"], "str1": ["-DV_STR","-DV_N=1"], "str2": ["-DV_STR","-DV_N=2"]}}},
 "assumes": ["stdio is a byte-image recorder: printf/fputs/putchar/puts calls of emitdata/dataitem are interpreted by the formats they use ('z N' = N zero bytes, 'b V' = one byte, '<class> V' = one little-endian item of the class size, string items = their elements); QBE lays data items out back to back in that order (QBE IL reference, 'Data')",
             "initialiser list sorted and non-overlapping at bit granularity (INIT.initadd's postcondition), bit-field values already reduced to the field width (parseinit), eval() is the identity on already-folded constants",
             "native replay not available (stdio redirected by macros in the unit)"]
}
*/
#include <stdio.h>
#include <stdarg.h>
#include <inttypes.h>
#include "verif.h"

/* ---------------------------------------------------------------- byte-image recorder standing in for stdout */
#ifndef MAXS
#define MAXS 8
#endif
#define NIMG (MAXS + 4)
static unsigned char img[NIMG];
static unsigned pos;
static unsigned cls;          /* size in bytes of the current item class */
static int instr;             /* inside a "..." string item */
static int g_align = -1;

static void put(unsigned long long v, unsigned n) { unsigned i; for (i = 0; i < n; i++) { if (pos < NIMG) img[pos] = v >> 8 * i; pos++; } }
static void zeros(unsigned long long n) { __CPROVER_assert(n <= NIMG, "zero fill larger than any object in this unit"); while (n--) { if (pos < NIMG) img[pos] = 0; pos++; } }

int
rec_printf(const char *f, ...)
{
	va_list ap;

	va_start(ap, f);
	if (f[0] == 'z' && f[1] == ' ') zeros(va_arg(ap, unsigned long long));                       /* "z %llu, " / "z %llu " */
	else if (f[0] == ',' && f[1] == ' ' && f[2] == 'z') zeros(va_arg(ap, unsigned long long));    /* ", z %llu"            */
	else if (f[0] == 'b' && f[1] == ' ') put(va_arg(ap, unsigned), 1);                            /* "b %u, "              */
	else if (f[0] == '%' && f[1] == 'c' && f[2] == ' ') {                                         /* "%c " item class      */
		int c = va_arg(ap, char);      /* CBMC keeps variadic arguments unpromoted */
		cls = c == 'b' ? 1 : c == 'h' ? 2 : c == 'w' || c == 's' ? 4 : 8;
	} else if (f[0] == '%' && f[1] == 'l' && f[2] == 'l' && f[3] == 'u' && f[4] == 0) put(va_arg(ap, unsigned long long), cls);  /* "%llu" */
	else if (f[0] == '%' && f[1] == 'u' && f[2] == ' ') {                                         /* "%" PRIuLEAST16/32 " " */
		if (cls == 2) put(va_arg(ap, unsigned short), 2); else put(va_arg(ap, unsigned), 4);
	}
	else if (f[0] == '\\') put(va_arg(ap, unsigned), 1);                                          /* "\\%03o" in a string  */
	else if (f[0] == ' ' && f[1] == '=') g_align = va_arg(ap, int);                               /* " = align %d { "      */
	va_end(ap);
	return 0;
}
int rec_fputs(const char *s, FILE *f) { return 0; }
int rec_puts(const char *s) { return 0; }
int rec_fputc(int c, FILE *f) { if (c == '"') instr = !instr; return c; }
int rec_putchar(int c) { if (instr) put(c, 1); return c; }

#define printf  rec_printf
#define fputs   rec_fputs
#define puts    rec_puts
#define fputc   rec_fputc
#undef putchar
#define putchar rec_putchar

#include "qbe.c"

struct token tok;
struct expr *eval(struct expr *e) { return e; }
extern int g_no_error;

/*
 * C07: "the emitted definition is byte-for-byte the image C prescribes: each initialised member holds its converted
 * value ..., everything not explicitly initialised (members, array tails, bit-field neighbours, padding) is zero, string
 * initialisers are ... zero-extended to the array ...; the definition's size and alignment are the object's."
 */
struct in { unsigned start, size, before, width; u64 val; int isbf; };

static struct type t_obj, t_elem16, t_arr16;
static struct type t_int[9];     /* indexed by size */
static struct init inits[3];
static struct expr exprs[3];
static struct decl d;
static struct value dval;
static uint_least16_t strdata[4];

static struct type *
inttype_of(unsigned size)
{
	struct type *t = &t_int[size];
	t->kind = size == 1 ? TYPECHAR : size == 2 ? TYPESHORT : size == 4 ? TYPEINT : TYPELONG;
	t->prop = PROPSCALAR|PROPARITH|PROPREAL|PROPINT;
	t->size = t->align = size;
	t->u.basic.issigned = 0;
	return t;
}

void
harness(void)
{
	unsigned char want[NIMG] = {0};
	struct in in[3];
	unsigned n, i, k, S;
	IN(unsigned, in_S);
	IN(unsigned, in_start0); IN(unsigned, in_size0); IN(unsigned, in_before0); IN(unsigned, in_width0); IN(u64, in_val0); IN(bool, in_bf0);
	IN(unsigned, in_start1); IN(unsigned, in_size1); IN(unsigned, in_before1); IN(unsigned, in_width1); IN(u64, in_val1); IN(bool, in_bf1);
	IN(unsigned, in_start2); IN(unsigned, in_size2); IN(unsigned, in_before2); IN(unsigned, in_width2); IN(u64, in_val2); IN(bool, in_bf2);
	IN(unsigned, in_strlen); IN(unsigned, in_arrlen); IN(u64, in_chars);

	in[0] = (struct in){in_start0, in_size0, in_before0, in_width0, in_val0, in_bf0};
	in[1] = (struct in){in_start1, in_size1, in_before1, in_width1, in_val1, in_bf1};
	in[2] = (struct in){in_start2, in_size2, in_before2, in_width2, in_val2, in_bf2};
	S = in_S; n = V_N;     /* number of initialisers: one CBMC run per count, so the list shape is concrete */
	__CPROVER_assume(S >= 1 && S <= MAXS);
	pos = 0; cls = 0; instr = 0; g_no_error = 0;
	for (i = 0; i < NIMG; i++) img[i] = 0xAA;              /* poison: bytes never emitted stay visible */

#ifdef V_SCALARS
	{
		unsigned long long prevend = 0;                 /* in bits */
		for (i = 0; i < n; i++) {
			struct in *p = &in[i];
			__CPROVER_assume(p->size == 1 || p->size == 2 || p->size == 4 || p->size == 8);
			__CPROVER_assume(p->start < MAXS && p->start % p->size == 0 && p->start + p->size <= S);
			if (p->isbf) {
				__CPROVER_assume(p->size <= 4 && p->width >= 1 && p->before < 32 && p->width < 32 && p->before + p->width <= 8 * p->size && p->width < 8 * p->size);
				__CPROVER_assume(p->val < (1ull << p->width));
			} else {
				p->before = 0; p->width = 8 * p->size;
				__CPROVER_assume(p->size == 8 || p->val < (1ull << 8 * p->size));
			}
			/* sorted, non-overlapping at bit granularity */
			__CPROVER_assume(8ull * p->start + p->before >= prevend);
			prevend = 8ull * p->start + p->before + p->width;
			exprs[i].kind = EXPRCONST;
			exprs[i].type = inttype_of(p->size);
			exprs[i].u.constant.u = p->val;
			inits[i].start = p->start;
			inits[i].end = p->start + p->size;
			inits[i].bits.before = p->before;
			inits[i].bits.after = 8 * p->size - p->before - p->width;
			inits[i].expr = &exprs[i];
			inits[i].next = i + 1 < n ? &inits[i + 1] : 0;
			/* expected image: OR the field into its little-endian unit */
			for (k = 0; k < p->size; k++)
				want[p->start + k] |= (unsigned char)((p->val << p->before) >> 8 * k);
		}
	}
#else
	{
		/* char16_t a[arrlen] = u"..." (strlen elements incl. terminator, possibly truncated), then one scalar */
		unsigned asz;
		__CPROVER_assume(in_arrlen >= 1 && in_arrlen <= 4 && in_strlen >= 1 && in_strlen <= 4);
		asz = 2 * in_arrlen;
		__CPROVER_assume(asz <= S);
		t_elem16 = *inttype_of(2);
		t_arr16.kind = TYPEARRAY; t_arr16.base = &t_elem16; t_arr16.size = asz; t_arr16.align = 2;
		for (i = 0; i < 4; i++) strdata[i] = i + 1 < in_strlen ? (uint_least16_t)(in_chars >> 16 * i) : 0;
		exprs[0].kind = EXPRSTRING; exprs[0].type = &t_arr16;
		exprs[0].u.string.data = strdata; exprs[0].u.string.size = in_strlen;
		inits[0].start = 0; inits[0].end = asz; inits[0].bits.before = inits[0].bits.after = 0;
		inits[0].expr = &exprs[0]; inits[0].next = n == 2 ? &inits[1] : 0;
		for (i = 0; i < in_arrlen; i++) {
			unsigned v = i < in_strlen ? strdata[i] : 0;
			want[2 * i] = v; want[2 * i + 1] = v >> 8;
		}
		if (n == 2) {
			struct in *p = &in[1];
			__CPROVER_assume((p->size == 1 || p->size == 2 || p->size == 4) && p->start < MAXS && p->start % p->size == 0 && p->start >= asz && p->start + p->size <= S);
			__CPROVER_assume(p->val < (1ull << 8 * p->size));
			exprs[1].kind = EXPRCONST; exprs[1].type = inttype_of(p->size); exprs[1].u.constant.u = p->val;
			inits[1].start = p->start; inits[1].end = p->start + p->size; inits[1].bits.before = inits[1].bits.after = 0;
			inits[1].expr = &exprs[1]; inits[1].next = 0;
			for (k = 0; k < p->size; k++) want[p->start + k] = p->val >> 8 * k;
		}
	}
#endif
	t_obj.kind = TYPESTRUCT; t_obj.size = S; t_obj.align = 1;
	dval.kind = VALUE_GLOBAL; dval.id = 0; dval.u.name = "x";
	d.kind = DECLOBJECT; d.type = &t_obj; d.value = &dval; d.linkage = LINKEXTERN;
	d.u.obj.align = 8; d.u.obj.storage = SDSTATIC;

	emitdata(&d, n ? &inits[0] : 0);

	__CPROVER_assert(pos == S, "the definition has exactly the size of the object");
	__CPROVER_assert(g_align == 8, "the definition carries the object's alignment");
	for (i = 0; i < S; i++)
		__CPROVER_assert(img[i] == want[i], "every byte: initialised members hold their value, everything else (gaps, tails, bit-field neighbours) is zero");
#ifdef VERIF_CANARY
	__CPROVER_assert(!(S == 8), "CANARY");
#endif
}
