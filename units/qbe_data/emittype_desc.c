/* UNIT
{
 "id": "QBE.emittype.desc.bnd",
 "file": "qbe.c", "function": "emittype", "also_functions": ["emitclass", "emitname", "qbetype"],
 "properties": {"C08": "contract", "C03": "contract", "C19": "safety"},
 "mode": "harness",
 "link_repo": ["type.c"],
 "unwind": 5,
 "variants": {"dims0.ic": ["-DV_DIMS=0", "-DV_ARR0=0", "-DV_K0=2", "-DV_KI=0"], "dims1.dl": ["-DV_DIMS=1", "-DV_ARR0=1", "-DV_K0=5", "-DV_KI=3"], "dims2.sf": ["-DV_DIMS=2", "-DV_ARR0=1", "-DV_K0=1", "-DV_KI=4"], "dims2s.ic": ["-DV_DIMS=2", "-DV_ARR0=0", "-DV_K0=2", "-DV_KI=0"]},
 "tiers": {"thorough": {"variants": {"dims0.ic": ["-DV_DIMS=0", "-DV_ARR0=0", "-DV_K0=2", "-DV_KI=0"], "dims0.dl": ["-DV_DIMS=0", "-DV_ARR0=0", "-DV_K0=5", "-DV_KI=3"], "dims0.sf": ["-DV_DIMS=0", "-DV_ARR0=0", "-DV_K0=1", "-DV_KI=4"], "dims1.ic": ["-DV_DIMS=1", "-DV_ARR0=1", "-DV_K0=2", "-DV_KI=0"], "dims1.dl": ["-DV_DIMS=1", "-DV_ARR0=1", "-DV_K0=5", "-DV_KI=3"], "dims1.sf": ["-DV_DIMS=1", "-DV_ARR0=1", "-DV_K0=1", "-DV_KI=4"], "dims2.ic": ["-DV_DIMS=2", "-DV_ARR0=1", "-DV_K0=2", "-DV_KI=0"], "dims2.dl": ["-DV_DIMS=2", "-DV_ARR0=1", "-DV_K0=5", "-DV_KI=3"], "dims2.sf": ["-DV_DIMS=2", "-DV_ARR0=1", "-DV_K0=1", "-DV_KI=4"], "dims2s.ic": ["-DV_DIMS=2", "-DV_ARR0=0", "-DV_K0=2", "-DV_KI=0"], "dims2s.dl": ["-DV_DIMS=2", "-DV_ARR0=0", "-DV_K0=5", "-DV_KI=3"], "dims2s.sf": ["-DV_DIMS=2", "-DV_ARR0=0", "-DV_K0=1", "-DV_KI=4"]}, "timeout": 900}},
 "unwindset": ["emittype:3"], "cbmc_flags": ["--object-bits", "10"],
 "canary_variant": "dims2.sf",
 "kind": "bounded",
 "bound": "a struct with two members: m0 a scalar or a 1-dimensional scalar array (<= 4 elements), m1 a nested struct (one scalar member) or a 1- or 2-dimensional array of it (dimensions <= 3)",
 "timeout": 300, "replay": false,
 "assumes": ["stdio is a recorder of the descriptor text: 'type :name.id = { <field>, ... }' with <field> = class letter or :type reference, optionally followed by an element count (QBE IL reference, 'Aggregate Types')",
             "member offsets/sizes are those DECL.addmember.* establish (no bit-fields, no overlapping storage units in this unit)",
             "native replay not available (stdio redirected by macros in the unit)"]
}
*/
#include <stdio.h>
#include <stdarg.h>
#include "verif.h"

/* ------------------------------------------------------------ recorder standing in for stdout */
enum { ST_IDLE, ST_HEAD, ST_BODY };
static int st;
struct fld { int cls; unsigned ref; unsigned long long count; };
#define NT 4
static struct { unsigned id; int begun, done; unsigned begin_seq, end_seq; struct fld f[4]; unsigned nf; } ty[NT];
static unsigned nty, seq;
static int cur = -1;
static struct fld curf; static int infield;
static int stack[NT]; static int sp;

static void endfield(void) { if (cur >= 0 && infield && ty[cur].nf < 4) ty[cur].f[ty[cur].nf++] = curf; infield = 0; }

int
rec_printf(const char *f, ...)
{
	va_list ap;
	va_start(ap, f);
	if (f[0] == '.' && f[1] == '%' && f[2] == 'u') {               /* ".%u": the id of a name */
		unsigned id = va_arg(ap, unsigned);
		if (st == ST_HEAD && cur >= 0) ty[cur].id = id;
		else if (st == ST_BODY) curf.ref = id;
	} else if (f[0] == ' ' && f[1] == '%' && f[2] == 'l') {        /* " %llu": element count */
		curf.count = va_arg(ap, unsigned long long);
	}
	va_end(ap);
	return 0;
}
int
rec_fputs(const char *s, FILE *fp)
{
	if (s[0] == 't' && s[1] == 'y' && s[2] == 'p' && s[3] == 'e') {       /* "type " */
		if (cur >= 0 && sp < NT) stack[sp++] = cur;                     /* (a nested definition would interleave: recorded as such) */
		cur = nty < NT ? (int)nty++ : -1;
		if (cur >= 0) { ty[cur].begun = 1; ty[cur].begin_seq = ++seq; ty[cur].nf = 0; }
		st = ST_HEAD;
	} else if (s[0] == ' ' && s[1] == '=' && s[2] == ' ' && s[3] == '{') { /* " = { " */
		st = ST_BODY; infield = 0;
	} else if (s[0] == ',' && s[1] == ' ') {                                /* ", " ends a struct field */
		endfield();
	}
	return 0;
}
int
rec_putchar(int c)
{
	if (st == ST_BODY) {
		if (c == ':') { curf.cls = ':'; curf.ref = 0; curf.count = 1; infield = 1; }
		else if (c == 'b' || c == 'h' || c == 'w' || c == 'l' || c == 's' || c == 'd') { curf.cls = c; curf.ref = 0; curf.count = 1; infield = 1; }
	}
	return c;
}
int
rec_puts(const char *s)
{
	if (s[0] == '}' && cur >= 0) { ty[cur].done = 1; ty[cur].end_seq = ++seq; st = ST_IDLE; cur = sp > 0 ? stack[--sp] : -1; if (cur >= 0) st = ST_BODY; }
	return 0;
}
#define printf  rec_printf
#define fputs   rec_fputs
#define puts    rec_puts
#undef putchar
#define putchar rec_putchar

#include "qbe.c"

struct token tok;
const struct target *targ;
static struct target t_targ;
extern int g_no_error;

/*
 * C08: "the aggregate type descriptions cproc hands to the backend describe, field for field, the same layout and
 * register classes as the C declarations"; C03: "every aggregate type is defined before its first use".
 * For  struct O { T0 m0[n0]; struct I m1[d1][d2]; }  the module must contain, in this order, a complete definition of
 * :I and then  type :O = { <class of T0> n0, :I d1*d2, }.
 */
static struct type t_s[2], t_arr0, t_in, t_a1, t_a2, t_out;
static struct member mi, m0, m1;

static void
scalar(struct type *t, int kind)
{
	/* kind: 0 char 1 short 2 int 3 long 4 float 5 double */
	static const unsigned sz[] = {1, 2, 4, 8, 4, 8};
	t->kind = kind == 0 ? TYPECHAR : kind == 1 ? TYPESHORT : kind == 2 ? TYPEINT : kind == 3 ? TYPELONG : kind == 4 ? TYPEFLOAT : TYPEDOUBLE;
	t->prop = PROPSCALAR|PROPARITH|PROPREAL|(kind >= 4 ? PROPFLOAT : PROPINT);
	t->size = t->align = sz[kind];
	t->u.basic.issigned = 1;
	t->value = 0;
}
static char classof(int kind) { return "bhwlsd"[kind]; }

void
harness(void)
{
	int in_k0 = V_K0, in_ki = V_KI;   /* member scalar kinds: constants per run (a symbolic type kind makes "is it an array?" symbolic) */
	IN(unsigned, in_n0); unsigned in_dims = V_DIMS; IN(unsigned, in_d1); IN(unsigned, in_d2);
	unsigned long long cnt1, off1;
	int io, ii;
	unsigned i;

	__CPROVER_assume(in_k0 >= 0 && in_k0 <= 5 && in_ki >= 0 && in_ki <= 5);
	__CPROVER_assume((V_ARR0 ? in_n0 >= 2 : in_n0 == 1) && in_n0 <= 4 && in_dims <= 2 && in_d1 >= 1 && in_d1 <= 3 && in_d2 >= 1 && in_d2 <= 3);
	st = ST_IDLE; nty = 0; seq = 0; cur = -1; sp = 0; infield = 0; g_no_error = 1;
	for (i = 0; i < NT; i++) { ty[i].begun = ty[i].done = 0; ty[i].nf = 0; ty[i].id = 0; }
	t_targ.typevalist = 0; targ = &t_targ;
	scalar(&t_s[0], in_k0); scalar(&t_s[1], in_ki);
	/* inner struct I { Ti x; } */
	t_in.kind = TYPESTRUCT; t_in.size = t_s[1].size; t_in.align = t_s[1].align; t_in.value = 0;
	t_in.u.structunion.tag = "I"; t_in.u.structunion.members = &mi;
	mi.name = "x"; mi.type = &t_s[1]; mi.offset = 0; mi.next = 0; mi.bits.before = mi.bits.after = 0;
	/* m0: T0 or T0[n0] */
	t_arr0.kind = TYPEARRAY; t_arr0.base = &t_s[0]; t_arr0.size = t_s[0].size * in_n0; t_arr0.align = t_s[0].align;
	m0.name = "m0"; m0.type = V_ARR0 ? &t_arr0 : &t_s[0]; m0.offset = 0; m0.next = &m1; m0.bits.before = m0.bits.after = 0;
	/* m1: I, I[d1] or I[d1][d2] */
	t_a2.kind = TYPEARRAY; t_a2.base = &t_in; t_a2.size = t_in.size * in_d2; t_a2.align = t_in.align;
	t_a1.kind = TYPEARRAY; t_a1.base = in_dims == 2 ? &t_a2 : &t_in; t_a1.size = t_a1.base->size * in_d1; t_a1.align = t_in.align;
	m1.type = in_dims == 0 ? &t_in : &t_a1;
	cnt1 = in_dims == 0 ? 1 : in_dims == 1 ? in_d1 : (unsigned long long)in_d1 * in_d2;
	off1 = (m0.type->size + t_in.align - 1) / t_in.align * t_in.align;
	/* keep the two members in different 8-byte storage units so that emittype's union-of-overlapping-units rule is not in play */
	off1 = (off1 + 7) / 8 * 8;
	m1.name = "m1"; m1.offset = off1; m1.next = 0; m1.bits.before = m1.bits.after = 0;
	t_out.kind = TYPESTRUCT; t_out.align = 8; t_out.size = off1 + (m1.type->size + 7) / 8 * 8; t_out.value = 0;
	t_out.u.structunion.tag = "O"; t_out.u.structunion.members = &m0;

	emittype(&t_out);

	__CPROVER_assert(nty == 2, "exactly two aggregate types are described: the nested struct and the outer one");
	ii = 0; io = 1;
	__CPROVER_assert(ty[ii].done && ty[io].done, "both descriptions are complete");
	__CPROVER_assert(t_in.value != 0 && t_out.value != 0 && ty[ii].id == t_in.value->id && ty[io].id == t_out.value->id && ty[ii].id != ty[io].id,
	                 "the nested struct is described first, under its own unique name");
	__CPROVER_assert(ty[ii].end_seq < ty[io].begin_seq, "an aggregate type is completely defined BEFORE the definition that uses it starts");
	__CPROVER_assert(ty[ii].nf == 1 && ty[ii].f[0].cls == classof(in_ki) && ty[ii].f[0].count == 1, "nested struct: one field of its member's class");
	__CPROVER_assert(ty[io].nf == 2, "outer struct: one field per member");
	__CPROVER_assert(ty[io].f[0].cls == classof(in_k0) && ty[io].f[0].count == in_n0, "scalar (array) member: its class and its element count");
	__CPROVER_assert(ty[io].f[1].cls == ':' && ty[io].f[1].ref == ty[ii].id, "struct (array) member refers to the nested struct's description, whatever the number of array dimensions");
	__CPROVER_assert(ty[io].f[1].count == cnt1, "its count is the total number of elements of all dimensions");
#ifdef VERIF_CANARY
	__CPROVER_assert(in_d1 != 2, "CANARY");
#endif
}
