/* UNIT
{
 "id": "EXPR.cast",
 "file": "expr.c", "function": "castexpr", "also_functions": ["postfixexpr", "decay", "mkunaryexpr", "mkexpr", "castcheck"],
 "properties": {"C05": "contract", "C10": "contract", "C19": "safety"},
 "mode": "harness",
 "replace_calls": {"unaryexpr": "stub_unaryexpr", "expr": "stub_expr"}, "replay": false,
 "link_repo": ["type.c"],
 "unwind": 4, "unwindset": ["typecompatible:2", "typecompatible.0:2"],
 "variants": {"CAST1": ["-DV_SHAPE=S_CAST1"], "CAST2": ["-DV_SHAPE=S_CAST2"], "PAREN": ["-DV_SHAPE=S_PAREN"], "CASTPAREN": ["-DV_SHAPE=S_CASTPAREN"], "COMPOUND": ["-DV_SHAPE=S_COMPOUND"], "CASTCOMPOUND": ["-DV_SHAPE=S_CASTCOMPOUND"]},
 "canary_variant": "CAST2",
 "cflags": ["-DCHECK_MAIN"],
 "kind": "proof-const-unwind",
 "bound": "token scripts: (T)U  (T)(T)U  (E)  (T)(E)  (T){}  (T)(T){}",
 "timeout": 200,
 "expects": ["assertion_verif"],
 "assumes": ["typename() is a stand-in: the single token `int` is a type name whose type / qualifiers the harness chose from post_common.h's universe (all arithmetic types, enum, void, struct, incomplete struct, union, function, arrays, pointers to all of these), anything else is not a type name",
             "unaryexpr() / expr() are stand-ins consuming one token and returning an opaque decayed operand of arbitrary type, lvalue-ness and qualifiers; parseinit() consumes `{` `}` and records its type argument; mkdecl() records its arguments",
             "nullptr_t (C23) is outside the universe; _Atomic is rejected by decl.c",
             "native replay impossible (static callees redirected with --replace-calls)"]
}
*/
/* C11 6.5.4 casts, 6.5.1p5 parenthesized expression, 6.5.2.5 compound literal hand-off; see cast_common.h */
#include "cast_common.h"
