/*
 * generic_common.h -- harness shared by the EXPR.generic* units (generic() of /repo/expr.c).
 * The including unit fixes the association list through V_SHAPE (variants) and selects one group of facts:
 *   CHECK_MAIN   every fact below except
 *   CHECK_DUP    6.5.1.1p2 "no two generic associations shall specify compatible types" when neither is selected
 *                (fails on the pinned tree)
 *
 * C11 6.5.1.1
 *  p2 (constraints) at most one default association; the type name of an association specifies a complete object type
 *     other than a variably modified type; no two associations specify compatible types; the controlling expression has
 *     a type compatible with at most one of the named types; without default, with exactly one.
 *  p3 the controlling expression is not evaluated; the result expression is the one of the association with a compatible
 *     type, otherwise the default's; none of the other expressions is evaluated.
 *  p4 type, value and lvalue-ness of the generic selection are those of its result expression.
 *  The type of the controlling expression is taken after lvalue conversion (qualifiers dropped, 6.3.2.1p2; DR 481), so
 *  an association with a qualified type never matches; compatibility is 6.2.7 / 6.7.3p10 (identically qualified).
 */
#define NTOK 18
#include "expr.c"
#include "verif.h"
#include "post_common.h"

/* shapes (preprocessor constants): T = `type-name : E`, D = `default : E`, N = `<not a type name> : E` */
#define G_TT 0
#define G_TD 1
#define G_DT 2
#define G_DD 3
#define G_TTD 4
#define G_TTT 5
#define G_N 6

static struct type *g_tn_type[3];
static unsigned g_tn_qual[3];
static int g_ntn;
static struct expr *g_e[4];
static int g_nassign;

struct type *
typename(struct scope *s, enum typequal *tq, struct expr **toeval)
{
	int k;

	if (tok.kind != TINT)
		return 0;
	__CPROVER_assert(g_ntn < 3, "no more type names parsed than written");
	k = g_ntn++;
	next();
	if (tq)
		*tq = k == 0 ? g_tn_qual[0] : k == 1 ? g_tn_qual[1] : g_tn_qual[2];
	if (toeval)
		*toeval = 0;
	return k == 0 ? g_tn_type[0] : k == 1 ? g_tn_type[1] : g_tn_type[2];
}

struct expr *
stub_assignexpr(struct scope *s)
{
	int k;

	__CPROVER_assert(tok.kind == TNUMBER, "an expression is parsed where it stands");
	__CPROVER_assert(g_nassign < 4, "no more expressions parsed than written");
	k = g_nassign++;
	next();
	return k == 0 ? g_e[0] : k == 1 ? g_e[1] : k == 2 ? g_e[2] : g_e[3];
}

#define TD_COMPLETEOBJ(d) ((d).ts >= T_NBASE || B_COMPLETEOBJ((d).ts))

void
harness(void)
{
	static struct type ty_p0, ty_p1, ty_p2, ty_pc;
	struct expr *r;
	struct tdesc c, a0, a1, a2;
	unsigned q0, q1, q2;
	bool wf, ok0, ok1, ok2, m0, m1, m2, c01, c02, c12, dup_unmatched;
	int nmatch, want;      /* want = index into g_e[] of the result expression */
	IN(unsigned, in_cts); IN(unsigned, in_cbs); IN(unsigned, in_cbq); IN(bool, in_clv); IN(unsigned, in_cqual);
	IN(unsigned, in_t0); IN(unsigned, in_b0); IN(unsigned, in_bq0); IN(unsigned, in_q0);
	IN(unsigned, in_t1); IN(unsigned, in_b1); IN(unsigned, in_bq1); IN(unsigned, in_q1);
	IN(unsigned, in_t2); IN(unsigned, in_b2); IN(unsigned, in_bq2); IN(unsigned, in_q2);

	__CPROVER_assume(in_cts < T_NULLPTR && in_t0 < T_NULLPTR && in_t1 < T_NULLPTR && in_t2 < T_NULLPTR);
	__CPROVER_assume(in_cbs < T_NBASE && in_b0 < T_NBASE && in_b1 < T_NBASE && in_b2 < T_NBASE);
	__CPROVER_assume(in_cbq <= QUALMAX && in_bq0 <= QUALMAX && in_bq1 <= QUALMAX && in_bq2 <= QUALMAX);
	__CPROVER_assume(in_cqual <= QUALMAX && in_q0 <= QUALMAX && in_q1 <= QUALMAX && in_q2 <= QUALMAX);
	__CPROVER_assume(in_cts != T_FN && !B_ISARR(in_cts));          /* the controlling expression has decayed (6.3.2.1p3,4) */
	build_universe(0);
	g_tn_type[0] = optype(in_t0, &ty_p0, in_b0, in_bq0); g_tn_qual[0] = in_q0;
	g_tn_type[1] = optype(in_t1, &ty_p1, in_b1, in_bq1); g_tn_qual[1] = in_q1;
	g_tn_type[2] = optype(in_t2, &ty_p2, in_b2, in_bq2); g_tn_qual[2] = in_q2;
	g_e[0] = mk_operand(optype(in_cts, &ty_pc, in_cbs, in_cbq), in_clv, in_cqual);
	g_e[1] = mk_operand(&typeint, false, 0);
	g_e[2] = mk_operand(&typelong, true, QUALCONST);
	g_e[3] = mk_operand(&typedouble, false, 0);
	g_ntn = g_nassign = 0;
	c.ts = in_cts; c.bs = in_cbs; c.bq = in_cbq;
	a0.ts = in_t0; a0.bs = in_b0; a0.bq = in_bq0; q0 = in_q0;
	a1.ts = in_t1; a1.bs = in_b1; a1.bq = in_bq1; q1 = in_q1;
	a2.ts = in_t2; a2.bs = in_b2; a2.bq = in_bq2; q2 = in_q2;

	g_script[0].kind = T_GENERIC; g_script[1].kind = TLPAREN; g_script[2].kind = TNUMBER; g_script[3].kind = TCOMMA;
#define A_T(i) g_script[i].kind = TINT; g_script[i + 1].kind = TCOLON; g_script[i + 2].kind = TNUMBER
#define A_D(i) g_script[i].kind = TDEFAULT; g_script[i + 1].kind = TCOLON; g_script[i + 2].kind = TNUMBER
#define A_N(i) g_script[i].kind = TNUMBER; g_script[i + 1].kind = TCOLON; g_script[i + 2].kind = TNUMBER
#define END2 g_script[11].kind = TRPAREN; g_script[12].kind = TSEMICOLON; g_script[13].kind = TEOF; g_script[14].kind = TEOF; g_script[15].kind = TEOF; g_script[16].kind = TEOF
#define END3 g_script[11].kind = TCOMMA; g_script[15].kind = TRPAREN; g_script[16].kind = TSEMICOLON
	g_script[7].kind = TCOMMA; g_script[17].kind = TEOF;
	/* the k-th type name written is association k's; associations without a type name get a placeholder that matches nothing */
#if V_SHAPE == G_TT
	A_T(4); A_T(8); END2;
#define ENDPOS 12
	ok0 = TD_COMPLETEOBJ(a0); ok1 = TD_COMPLETEOBJ(a1);
	m0 = q0 == 0 && spec_compat(a0, c); m1 = q1 == 0 && spec_compat(a1, c);
	c01 = q0 == q1 && spec_compat(a0, a1);
	nmatch = m0 + m1;
	wf = ok0 && ok1 && !c01 && nmatch == 1;
	want = m0 ? 1 : 2;
	dup_unmatched = c01 && !m0;
#elif V_SHAPE == G_TD
	A_T(4); A_D(8); END2;
#define ENDPOS 12
	ok0 = TD_COMPLETEOBJ(a0); m0 = q0 == 0 && spec_compat(a0, c);
	wf = ok0; want = m0 ? 1 : 2; dup_unmatched = false;
#elif V_SHAPE == G_DT
	A_D(4); A_T(8); END2;
#define ENDPOS 12
	ok0 = TD_COMPLETEOBJ(a0); m0 = q0 == 0 && spec_compat(a0, c);
	wf = ok0; want = m0 ? 2 : 1; dup_unmatched = false;
#elif V_SHAPE == G_DD
	A_D(4); A_D(8); END2;
#define ENDPOS 12
	wf = false; want = 0; dup_unmatched = false;          /* p2: at most one default */
#elif V_SHAPE == G_N
	A_N(4); A_D(8); END2;
#define ENDPOS 12
	wf = false; want = 0; dup_unmatched = false;          /* syntax: generic-association is `type-name :` or `default :` */
#elif V_SHAPE == G_TTD
	A_T(4); A_T(8); END3; A_D(12);
#define ENDPOS 16
	ok0 = TD_COMPLETEOBJ(a0); ok1 = TD_COMPLETEOBJ(a1);
	m0 = q0 == 0 && spec_compat(a0, c); m1 = q1 == 0 && spec_compat(a1, c);
	c01 = q0 == q1 && spec_compat(a0, a1);
	wf = ok0 && ok1 && !c01;
	want = m0 ? 1 : m1 ? 2 : 3;
	dup_unmatched = c01 && !m0;
#else
	A_T(4); A_T(8); END3; A_T(12);
#define ENDPOS 16
	ok0 = TD_COMPLETEOBJ(a0); ok1 = TD_COMPLETEOBJ(a1); ok2 = TD_COMPLETEOBJ(a2);
	m0 = q0 == 0 && spec_compat(a0, c); m1 = q1 == 0 && spec_compat(a1, c); m2 = q2 == 0 && spec_compat(a2, c);
	c01 = q0 == q1 && spec_compat(a0, a1); c02 = q0 == q2 && spec_compat(a0, a2); c12 = q1 == q2 && spec_compat(a1, a2);
	nmatch = m0 + m1 + m2;
	wf = ok0 && ok1 && ok2 && !c01 && !c02 && !c12 && nmatch == 1;
	want = m0 ? 1 : m1 ? 2 : 3;
	dup_unmatched = c01 && !m0 || c02 && !m0 || c12 && !m1;
#endif
	script_start();
#ifdef CHECK_MAIN
	__CPROVER_assume(!dup_unmatched);             /* isolated in EXPR.generic.dup */
#endif
	g_no_error = wf;

	r = generic(0);

#ifdef CHECK_DUP
	__CPROVER_assert(!dup_unmatched, "6.5.1.1p2: two generic associations with compatible types are diagnosed (also when neither is selected)");
#endif
#ifdef CHECK_MAIN
	__CPROVER_assert(wf, "6.5.1.1p2: <=1 default, complete object types, no two compatible, exactly one match or a default: else diagnosed");
	__CPROVER_assume(wf);
	__CPROVER_assert(g_pos == ENDPOS && tok.kind == TSEMICOLON, "exactly the generic selection is consumed");
	__CPROVER_assert(r == (want == 1 ? g_e[1] : want == 2 ? g_e[2] : g_e[3]), "6.5.1.1p3: the result expression is the matching association's, otherwise the default's");
	__CPROVER_assert(r != g_e[0], "6.5.1.1p3: the controlling expression is not part of the result");
	__CPROVER_assert(kindof_(r) == EXPRIDENT && typeof_(r) == (want == 1 ? &typeint : want == 2 ? &typelong : &typedouble) && r->lvalue == (want == 2) && r->qual == (want == 2 ? QUALCONST : QUALNONE),
	                 "6.5.1.1p4: type, lvalue-ness and qualifiers are those of the result expression (which is left intact)");
#endif
#ifdef VERIF_CANARY
	__CPROVER_assert(!(in_t0 == T_PTR && in_b0 == T_DOUBLE), "CANARY");
#endif
}
