/* UNIT
{
 "id": "EXPR.builtin",
 "file": "expr.c", "function": "builtinfunc", "also_functions": ["designator", "mkunaryexpr", "mkexpr", "mkconstexpr", "delexpr", "typecompatible", "builtintype"],
 "properties": {"C05": "contract", "C10": "contract", "C08": "contract", "C19": "safety"},
 "mode": "harness",
 "replace_calls": {"assignexpr": "stub_assignexpr", "condexpr": "stub_condexpr", "exprassign": "rec_exprassign", "typemember": "stub_typemember"}, "replay": false,
 "link_repo": ["type.c"],
 "unwind": 3, "unwindset": ["typecompatible:3", "typecompatible.0:2"],
 "variants": {"ALLOCA": ["-DV_KIND=K_ALLOCA"], "CONSTANTP": ["-DV_KIND=K_CONSTANTP"], "EXPECT": ["-DV_KIND=K_EXPECT"], "OFFSETOF": ["-DV_KIND=K_OFFSETOF"], "TYPESCOMPAT": ["-DV_KIND=K_TYPESCOMPAT"], "UNREACHABLE": ["-DV_KIND=K_UNREACHABLE"], "VAARG": ["-DV_KIND=K_VAARG"], "VASTART1": ["-DV_KIND=K_VASTART1"], "VASTART2": ["-DV_KIND=K_VASTART2"], "VAEND": ["-DV_KIND=K_VAEND"]},
 "canary_variant": "OFFSETOF",
 "cflags": ["-DCHECK_MAIN"],
 "kind": "proof-const-unwind",
 "timeout": 200,
 "expects": ["assertion_verif"],
 "assumes": ["typename() is a stand-in: the single token `int` is a type name whose type the harness chose from post_common.h's universe, anything else is not a type name (NULL, nothing consumed); qualifiers of the type name are dropped as decl.c:typename does when called with tq == NULL",
             "assignexpr() / condexpr() consume one token and return opaque operands whose type is either the target's adjusted va_list type or any type of the universe; eval() folds to a constant or not as the harness chooses; exprassign() is a recorder; typemember() a verdict stand-in (TYPE.member proves the real one)",
             "va_list is modelled both as targ.c's x86_64-sysv array-of-one-struct and as a plain struct (aarch64); riscv64's void * representation is not in the universe",
             "__builtin_inff / __builtin_nanf (strtod, string-literal node), offsetof member-designator suffixes ([i], .m) and __builtin_va_copy (CBMC 6.11 mis-resolves e->u.assign.l->type, CONVENTIONS 6; --no-simplify does not finish) are not covered",
             "native replay impossible (static callees redirected with --replace-calls)"]
}
*/
/* result type / value / operand checks of the __builtin_* functions; see builtin_common.h */
#include "builtin_common.h"
