/*
 * call_common.h -- harness shared by the EXPR.post.call* units (postfixexpr, function call).
 * The including unit defines V_NA (number of arguments written, fixes the token script) and V_NP (number of parameters) through its variants and one of
 *   CHECK_MAIN      everything below except
 *   CHECK_RETINC    6.5.2.2p1 "returning void or returning a complete object type" (fails on the pinned tree)
 *   CHECK_VARFEW    6.5.2.2p2 fewer arguments than NAMED parameters of a variadic function (fails on the pinned tree)
 *
 * C11 6.5.2.2
 *  p1 (constraint) the called expression has type pointer to function returning void or a complete object type other
 *     than an array type.
 *  p2 (constraint) with a prototype, the number of arguments agrees with the number of parameters (at least as many for
 *     `...`); each argument is assignable to the unqualified type of its parameter.
 *  p5 the call has the function's return type (and is not an lvalue, 6.5.2.2 fn / 6.3.2.1).
 *  p7 arguments are converted, as if by assignment, to the parameter types; the ellipsis stops that conversion and the
 *     default argument promotions (p6: integer promotions, float -> double) are performed on trailing arguments.
 *  p4/p10, C08: the arguments are passed in the order written, exactly once each.
 * cproc has no unprototyped function types (C23 semantics for `T f()`), so p6's first half does not arise.
 */
#include "expr.c"
#include "verif.h"
#include "post_common.h"

#define NARG 3
static struct expr *g_arg[NARG];
static int g_narg;
static struct expr *g_asg_e[NARG];
static struct type *g_asg_t[NARG];
static struct expr g_conv[NARG];
static int g_nasg;

/* the parser below postfixexpr: one assignment-expression, one token long */
struct expr *
stub_assignexpr(struct scope *s)
{
	struct expr *e;

	__CPROVER_assert(tok.kind == TNUMBER, "an argument is parsed where an argument stands");
	__CPROVER_assert(g_narg < NARG, "no more arguments parsed than written");
	e = g_narg == 0 ? g_arg[0] : g_narg == 1 ? g_arg[1] : g_arg[2];
	++g_narg;
	next();
	return e;
}

/* recorder for exprassign (EXPR.exprassign / EXPR.mkassign prove the real one): result is a node of type t */
struct expr *
rec_exprassign(struct expr *e, struct type *t)
{
	struct expr *c;

	__CPROVER_assert(g_nasg < NARG, "no more conversions than arguments");
	c = g_nasg == 0 ? &g_conv[0] : g_nasg == 1 ? &g_conv[1] : &g_conv[2];
	if (g_nasg == 0) { g_asg_e[0] = e; g_asg_t[0] = t; }
	if (g_nasg == 1) { g_asg_e[1] = e; g_asg_t[1] = t; }
	if (g_nasg == 2) { g_asg_e[2] = e; g_asg_t[2] = t; }
	++g_nasg;
	c->kind = EXPRCAST; c->type = t; c->base = e; c->next = 0;
	return c;
}

static struct expr *nextof_(struct expr *e) { return e->next; }

/* 6.3.1.1p2 + 6.5.2.2p6 on the universe: is `t` the type selector `ts` is promoted to by the default argument promotions? */
static bool
is_promoted(struct type *t, unsigned ts)
{
	switch (ts) {
	case T_BOOL: case T_CHAR: case T_SHORT: case T_INT: return t == &typeint;
	case T_UINT: return t == &typeuint;
	case T_ENUM: return t == &typeuint || t == &ty_enum;      /* compatible with unsigned int: same representation */
	case T_LONG: return t == &typelong;
	case T_ULONG: return t == &typeulong;
	case T_FLOAT: case T_DOUBLE: return t == &typedouble;
	case T_LDOUBLE: return t == &typeldouble;
	default: return t == ty_base[ts];
	}
}

void
harness(void)
{
	static struct type ty_pl, ty_f;
	static struct decl par[2];
	struct expr *l, *e, *a0, *a1, *a2, *a3;
	struct type *lt;
	unsigned na = V_NA;
	bool wf, isfn;
	IN(unsigned, in_cts); IN(unsigned, in_cbs); IN(unsigned, in_cq);
	IN(unsigned, in_ret); IN(bool, in_vararg);
	const unsigned in_np = V_NP;       /* number of parameters: fixed per variant */
	IN(unsigned, in_p0); IN(unsigned, in_p1); IN(unsigned, in_a0); IN(unsigned, in_a1); IN(unsigned, in_a2);

	__CPROVER_assume(in_cts < T_N && in_cbs < T_NBASE && in_cq <= QUALMAX);
	__CPROVER_assume(in_cts != T_FN && !B_ISARR(in_cts));                           /* the callee has decayed */
	__CPROVER_assume(in_ret < T_NBASE && in_ret != T_FN && !B_ISARR(in_ret));       /* 6.7.6.3p1: no function returns a function or an array */
	/* parameters (adjusted, 6.7.6.3p7,8) and arguments (decayed) have arithmetic, pointer or struct type */
#define VALTYPE(ts) (T_ISARITH(ts) || (ts) == T_PI || (ts) == T_S1)
	__CPROVER_assume(VALTYPE(in_p0) && VALTYPE(in_p1) && VALTYPE(in_a0) && VALTYPE(in_a1) && VALTYPE(in_a2));
	build_universe(0);
	ty_f.kind = TYPEFUNC; ty_f.base = ty_base[in_ret]; ty_f.u.func.isvararg = in_vararg; ty_f.u.func.nparam = in_np;
	par[0].kind = DECLOBJECT; par[0].type = ty_base[in_p0]; par[0].next = in_np > 1 ? &par[1] : 0;
	par[1].kind = DECLOBJECT; par[1].type = ty_base[in_p1]; par[1].next = 0;
	ty_f.u.func.params = in_np > 0 ? &par[0] : 0;
	lt = optype(in_cts, &ty_pl, in_cbs, in_cq);
	isfn = in_cts == T_PTR && in_cbs == T_FN;
	if (isfn)
		ty_pl.base = &ty_f;
	l = mk_operand(lt, false, 0);
	g_arg[0] = mk_operand(ty_base[in_a0], false, 0);
	g_arg[1] = mk_operand(ty_base[in_a1], false, 0);
	g_arg[2] = mk_operand(ty_base[in_a2], false, 0);
	g_narg = 0; g_nasg = 0;
	g_script[0].kind = TLPAREN;
#if V_NA == 0
	g_script[1].kind = TRPAREN; g_script[2].kind = TSEMICOLON; g_script[3].kind = TEOF; g_script[4].kind = TEOF; g_script[5].kind = TEOF; g_script[6].kind = TEOF; g_script[7].kind = TEOF;
#define ENDPOS 2
#elif V_NA == 1
	g_script[1].kind = TNUMBER; g_script[2].kind = TRPAREN; g_script[3].kind = TSEMICOLON; g_script[4].kind = TEOF; g_script[5].kind = TEOF; g_script[6].kind = TEOF; g_script[7].kind = TEOF;
#define ENDPOS 3
#elif V_NA == 2
	g_script[1].kind = TNUMBER; g_script[2].kind = TCOMMA; g_script[3].kind = TNUMBER; g_script[4].kind = TRPAREN; g_script[5].kind = TSEMICOLON; g_script[6].kind = TEOF; g_script[7].kind = TEOF;
#define ENDPOS 5
#else
	g_script[1].kind = TNUMBER; g_script[2].kind = TCOMMA; g_script[3].kind = TNUMBER; g_script[4].kind = TCOMMA; g_script[5].kind = TNUMBER; g_script[6].kind = TRPAREN; g_script[7].kind = TSEMICOLON;
#define ENDPOS 7
#endif
	g_script[8].kind = TEOF; g_script[9].kind = TEOF; g_script[10].kind = TEOF; g_script[11].kind = TEOF;
	script_start();

	/* what the standard says about this input */
	wf = isfn && (in_ret == T_VOID || !B_INCOMPLETE(in_ret))        /* p1 */
	     && (in_vararg ? na >= in_np : na == in_np);               /* p2 */
#ifdef CHECK_MAIN
	__CPROVER_assume(!(isfn && in_ret == T_SINC));                  /* isolated in EXPR.post.call.retinc */
	__CPROVER_assume(!(isfn && in_vararg && na < in_np));           /* isolated in EXPR.post.call.varfew */
#endif
	g_no_error = wf;

	e = postfixexpr(0, l);

#ifdef CHECK_RETINC
	__CPROVER_assume(isfn && (in_vararg ? na >= in_np : na == in_np));
	__CPROVER_assert(in_ret == T_VOID || !B_INCOMPLETE(in_ret), "6.5.2.2p1: a call to a function returning an incomplete (non-void) type is diagnosed");
#endif
#ifdef CHECK_VARFEW
	__CPROVER_assume(isfn && in_vararg && (in_ret == T_VOID || !B_INCOMPLETE(in_ret)));
	__CPROVER_assert(na >= in_np, "6.5.2.2p2: fewer arguments than named parameters of a variadic function: diagnosed");
#endif
#ifdef CHECK_MAIN
	__CPROVER_assert(isfn, "6.5.2.2p1: the called expression is a pointer to function: else diagnosed");
	__CPROVER_assert(in_vararg || na <= in_np, "6.5.2.2p2: too many arguments for the prototype: diagnosed");
	__CPROVER_assert(na >= in_np, "6.5.2.2p2: too few arguments for the prototype: diagnosed");
	__CPROVER_assume(wf);
	__CPROVER_assert(g_pos == ENDPOS && tok.kind == TSEMICOLON, "exactly `(` arguments `)` is consumed");
	__CPROVER_assert(e->kind == EXPRCALL && e->base == l, "a call of the called expression");
	__CPROVER_assert(e->type == ty_base[in_ret], "6.5.2.2p5: the call has the return type of the function");
	__CPROVER_assert(!e->lvalue && !e->decayed, "a call is not an lvalue");
	__CPROVER_assert(g_narg == (int)na && e->u.call.nargs == na, "C08: as many arguments passed as written");
	__CPROVER_assert(g_nasg == (int)(na < in_np ? na : in_np), "6.5.2.2p7: exactly the arguments that have a parameter are converted as if by assignment");
	a0 = e->u.call.args;
	a1 = na > 0 ? nextof_(a0) : 0;
	a2 = na > 1 ? nextof_(a1) : 0;
	a3 = na > 2 ? nextof_(a2) : 0;
	__CPROVER_assert(na == 0 ? a0 == 0 : na == 1 ? a1 == 0 : na == 2 ? a2 == 0 : a3 == 0, "C08: the argument list ends after the last argument");
#if V_NA >= 1
	if (in_np >= 1) {
		__CPROVER_assert(g_asg_e[0] == g_arg[0] && g_asg_t[0] == ty_base[in_p0] && a0 == &g_conv[0], "6.5.2.2p7: argument 1 converted to the type of parameter 1");
	} else {
		__CPROVER_assert(strip(a0) == g_arg[0] && is_promoted(typeof_(a0), in_a0), "6.5.2.2p6,p7: trailing argument 1 undergoes the default argument promotions");
	}
#endif
#if V_NA >= 2
	if (in_np >= 2) {
		__CPROVER_assert(g_asg_e[1] == g_arg[1] && g_asg_t[1] == ty_base[in_p1] && a1 == &g_conv[1], "6.5.2.2p7: argument 2 converted to the type of parameter 2");
	} else {
		__CPROVER_assert(strip(a1) == g_arg[1] && is_promoted(typeof_(a1), in_a1), "6.5.2.2p6,p7: trailing argument 2 undergoes the default argument promotions");
	}
#endif
#if V_NA >= 3
	__CPROVER_assert(strip(a2) == g_arg[2] && is_promoted(typeof_(a2), in_a2), "6.5.2.2p6,p7: trailing argument 3 undergoes the default argument promotions");
#endif
#endif
#ifdef VERIF_CANARY
	__CPROVER_assert(!(in_vararg && in_ret == T_DOUBLE), "CANARY");
#endif
}
