/*
 * cast_common.h -- harness shared by the EXPR.cast.* units (castexpr of /repo/expr.c).
 * The including unit fixes the token script through V_SHAPE (variants) and selects one group of facts:
 *   CHECK_MAIN       every fact below except the isolated ones
 *   CHECK_PTRFLT     6.5.4p4 pointer <-> floating casts                          (fails on the pinned tree)
 *   CHECK_VOIDOPND   6.5.4p2 operand of a non-void cast is a (void) cast          (fails on the pinned tree)
 *   CHECK_CLFUNC     6.5.2.5p1 compound literal of function type                  (fails on the pinned tree)
 *
 * C11 6.5.4
 *  p2 (constraint) unless the type name specifies a void type, it shall specify a scalar type and the operand shall
 *     have scalar type.
 *  p4 (constraint) a pointer type shall not be converted to any floating type, nor a floating type to any pointer type.
 *  p5 + fn 104: the cast converts the value to the named type; a cast does not yield an lvalue; a cast to a qualified
 *     type has the same effect as a cast to the unqualified version of the type.
 * C11 6.5.1p5: a parenthesized expression has the type, value and lvalue-ness of the unparenthesized expression.
 * C11 6.5.2.5: p1 (constraint) the type name of a compound literal specifies a complete object type or an array of
 *     unknown size; p4 it provides an unnamed object of that (qualified) type and is an lvalue; p5 the object has static
 *     storage duration outside a function body, automatic otherwise; 6.3.2.1p3 an array compound literal decays.
 */
#include "expr.c"
#include "verif.h"
#include "post_common.h"

/* shapes (preprocessor constants: used in #if) */
#define S_CAST1 0
#define S_CAST2 1
#define S_PAREN 2
#define S_CASTPAREN 3
#define S_COMPOUND 4
#define S_CASTCOMPOUND 5

struct scope filescope;
static struct scope g_blockscope;

static struct type *g_tn_type[2];
static unsigned g_tn_qual[2];
static int g_ntn;
static struct expr *g_operand;
static int g_nunary, g_nexpr, g_ninit;
static struct init g_init;
static struct type *g_init_type;
static struct decl g_decl;
static int g_ndecl;

/* decl.c:typename stand-in: a type name is the single token TINT; anything else is not a type name (returns NULL, nothing consumed) */
struct type *
typename(struct scope *s, enum typequal *tq, struct expr **toeval)
{
	int k;

	if (tok.kind != TINT)
		return 0;
	__CPROVER_assert(g_ntn < 2, "no more type names parsed than written");
	k = g_ntn++;
	next();
	if (tq)
		*tq = k == 0 ? g_tn_qual[0] : g_tn_qual[1];
	if (toeval)
		*toeval = 0;
	return k == 0 ? g_tn_type[0] : g_tn_type[1];
}

struct expr *
stub_unaryexpr(struct scope *s)
{
	__CPROVER_assert(tok.kind == TNUMBER, "the operand is parsed where it stands");
	++g_nunary;
	next();
	return g_operand;
}

struct expr *
stub_expr(struct scope *s)
{
	__CPROVER_assert(tok.kind == TNUMBER, "the parenthesized expression is parsed where it stands");
	++g_nexpr;
	next();
	return g_operand;
}

/* init.c:parseinit stand-in: consumes `{` `}`; its own checks (incomplete non-array type) are INIT.*'s business */
struct init *
parseinit(struct scope *s, struct type *t)
{
	__CPROVER_assert(tok.kind == TLBRACE, "the initializer list is parsed where it stands");
	__CPROVER_assert(t->kind != TYPEFUNC, "6.5.2.5p1: a compound literal of function type is diagnosed (init.c:258 assert(t->prop & PROPSCALAR) aborts otherwise)");
	++g_ninit;
	g_init_type = t;
	next();
	next();
	return &g_init;
}

struct decl *
mkdecl(char *name, enum declkind k, struct type *t, enum typequal tq, enum linkage linkage)
{
	++g_ndecl;
	g_decl.name = name; g_decl.kind = k; g_decl.type = t; g_decl.qual = tq; g_decl.linkage = linkage;
	return &g_decl;
}

/* 6.5.4p2 + p4 on selectors: may a value of type `from` be cast to type `to`? */
#define CAST_P2(to, from) ((to) == T_VOID || T_ISSCALAR(to) && T_ISSCALAR(from))
#define CAST_P4(to, from) (!(T_ISPTR(to) && T_ISFLT(from)) && !(T_ISFLT(to) && T_ISPTR(from)))

void
harness(void)
{
	static struct type ty_p1, ty_p2, ty_po;
	struct expr *r, *c1, *c2, *D;
	struct type *t1, *t2, *ot;
	struct scope *s;
	bool wf, ok1, ok2;
	unsigned opnd_ts;        /* type selector of what the innermost cast applies to */
	IN(unsigned, in_t1); IN(unsigned, in_b1); IN(unsigned, in_bq1); IN(unsigned, in_q1);
	IN(unsigned, in_t2); IN(unsigned, in_b2); IN(unsigned, in_bq2); IN(unsigned, in_q2);
	IN(unsigned, in_ots); IN(unsigned, in_obs); IN(unsigned, in_oq); IN(bool, in_olv); IN(unsigned, in_oqual);
	IN(bool, in_filescope); IN(unsigned, in_arrq);

	__CPROVER_assume(in_t1 < T_NULLPTR && in_t2 < T_NULLPTR && in_ots < T_NULLPTR && in_b1 < T_NBASE && in_b2 < T_NBASE && in_obs < T_NBASE);
	__CPROVER_assume(in_bq1 <= QUALMAX && in_bq2 <= QUALMAX && in_q1 <= QUALMAX && in_q2 <= QUALMAX && in_oq <= QUALMAX && in_oqual <= QUALMAX && in_arrq <= QUALMAX);
	__CPROVER_assume(in_ots != T_FN && !B_ISARR(in_ots));           /* the operand has decayed */
	build_universe(in_arrq);
	t1 = optype(in_t1, &ty_p1, in_b1, in_bq1);
	t2 = optype(in_t2, &ty_p2, in_b2, in_bq2);
	ot = optype(in_ots, &ty_po, in_obs, in_oq);
	g_tn_type[0] = t1; g_tn_qual[0] = in_q1; g_tn_type[1] = t2; g_tn_qual[1] = in_q2;
	g_operand = mk_operand(ot, in_olv, in_oqual);
	g_ntn = g_nunary = g_nexpr = g_ninit = g_ndecl = 0; g_init_type = 0;
	s = in_filescope ? &filescope : &g_blockscope;
	g_script[0].kind = TLPAREN;
#if V_SHAPE == S_CAST1          /* ( T1 ) U ; */
	g_script[1].kind = TINT; g_script[2].kind = TRPAREN; g_script[3].kind = TNUMBER; g_script[4].kind = TSEMICOLON;
	g_script[5].kind = TEOF; g_script[6].kind = TEOF; g_script[7].kind = TEOF; g_script[8].kind = TEOF;
#define ENDPOS 4
#elif V_SHAPE == S_CAST2        /* ( T1 ) ( T2 ) U ; */
	g_script[1].kind = TINT; g_script[2].kind = TRPAREN; g_script[3].kind = TLPAREN; g_script[4].kind = TINT; g_script[5].kind = TRPAREN;
	g_script[6].kind = TNUMBER; g_script[7].kind = TSEMICOLON; g_script[8].kind = TEOF;
#define ENDPOS 7
#elif V_SHAPE == S_PAREN        /* ( E ) ; */
	g_script[1].kind = TNUMBER; g_script[2].kind = TRPAREN; g_script[3].kind = TSEMICOLON; g_script[4].kind = TEOF;
	g_script[5].kind = TEOF; g_script[6].kind = TEOF; g_script[7].kind = TEOF; g_script[8].kind = TEOF;
#define ENDPOS 3
#elif V_SHAPE == S_CASTPAREN    /* ( T1 ) ( E ) ; */
	g_script[1].kind = TINT; g_script[2].kind = TRPAREN; g_script[3].kind = TLPAREN; g_script[4].kind = TNUMBER; g_script[5].kind = TRPAREN;
	g_script[6].kind = TSEMICOLON; g_script[7].kind = TEOF; g_script[8].kind = TEOF;
#define ENDPOS 6
#elif V_SHAPE == S_COMPOUND     /* ( T1 ) { } ; */
	g_script[1].kind = TINT; g_script[2].kind = TRPAREN; g_script[3].kind = TLBRACE; g_script[4].kind = TRBRACE; g_script[5].kind = TSEMICOLON;
	g_script[6].kind = TEOF; g_script[7].kind = TEOF; g_script[8].kind = TEOF;
#define ENDPOS 5
#else                           /* ( T1 ) ( T2 ) { } ; */
	g_script[1].kind = TINT; g_script[2].kind = TRPAREN; g_script[3].kind = TLPAREN; g_script[4].kind = TINT; g_script[5].kind = TRPAREN;
	g_script[6].kind = TLBRACE; g_script[7].kind = TRBRACE; g_script[8].kind = TSEMICOLON;
#define ENDPOS 8
#endif
	g_script[9].kind = TEOF; g_script[10].kind = TEOF; g_script[11].kind = TEOF;
	script_start();

	/* what the standard says about this input */
#define ISCL (V_SHAPE == S_COMPOUND || V_SHAPE == S_CASTCOMPOUND)
#define CLT  (V_SHAPE == S_COMPOUND ? in_t1 : in_t2)        /* selector of the compound literal's type name */
#if ISCL
	/* incomplete non-array types are diagnosed by parseinit (INIT.*); here: complete object types, T[] and function types */
	__CPROVER_assume(CLT != T_VOID && CLT != T_SINC);
	/* a compound literal of array type decays to int * (6.3.2.1p3) */
	opnd_ts = B_ISARR(CLT) ? (unsigned)T_PI : CLT;
#else
	opnd_ts = in_ots;
#endif
#if V_SHAPE == S_CAST1 || V_SHAPE == S_CASTPAREN
	ok1 = CAST_P2(in_t1, opnd_ts); ok2 = CAST_P4(in_t1, opnd_ts);
	wf = ok1 && ok2;
#elif V_SHAPE == S_CAST2
	ok1 = CAST_P2(in_t2, opnd_ts) && CAST_P2(in_t1, in_t2); ok2 = CAST_P4(in_t2, opnd_ts) && CAST_P4(in_t1, in_t2);
	wf = ok1 && ok2;
#elif V_SHAPE == S_PAREN
	ok1 = ok2 = wf = true;
#elif V_SHAPE == S_COMPOUND
	ok1 = ok2 = true; wf = CLT != T_FN;                                     /* 6.5.2.5p1 */
#else
	ok1 = CAST_P2(in_t1, opnd_ts); ok2 = CAST_P4(in_t1, opnd_ts);
	wf = ok1 && ok2 && CLT != T_FN;
#endif
#ifdef CHECK_MAIN
	/* isolated in EXPR.cast.ptrflt / EXPR.cast.voidopnd / EXPR.cast.clfunc */
	__CPROVER_assume(ok2);
#if V_SHAPE == S_CAST2
	__CPROVER_assume(!(in_t2 == T_VOID && in_t1 != T_VOID));
#endif
#if ISCL
	__CPROVER_assume(CLT != T_FN);
#endif
#endif
#ifdef CHECK_CLFUNC
	__CPROVER_assume(CLT == T_FN);
#endif
	g_no_error = wf;
#if defined(VERIF_CANARY) && defined(CHECK_CLFUNC)
	/* every input of this unit must be diagnosed: the canary sits before the call */
	__CPROVER_assert(!(in_t1 == T_LONG || in_t1 == T_FN), "CANARY");
#endif

	r = castexpr(s);

#ifdef CHECK_PTRFLT
	__CPROVER_assume(ok1);
	__CPROVER_assert(ok2, "6.5.4p4: a cast between a pointer type and a floating type is diagnosed");
#endif
#ifdef CHECK_VOIDOPND
	__CPROVER_assume(CAST_P2(in_t2, opnd_ts) && ok2);
	__CPROVER_assert(CAST_P2(in_t1, in_t2), "6.5.4p2: the operand of a non-void cast shall have scalar type: a cast of a (void) cast is diagnosed");
#endif
#ifdef CHECK_CLFUNC
	__CPROVER_assert(0, "6.5.2.5p1: a compound literal of function type is diagnosed");
#endif
#ifdef CHECK_MAIN
	__CPROVER_assert(wf, "6.5.4p2: cast to void or scalar type of a scalar operand: else diagnosed");
	__CPROVER_assume(wf);
	__CPROVER_assert(g_pos == ENDPOS && tok.kind == TSEMICOLON, "exactly the cast-expression is consumed");
#if V_SHAPE == S_PAREN
	__CPROVER_assert(r == g_operand && g_nexpr == 1 && g_ntn == 0, "6.5.1p5: a parenthesized expression is the expression itself (type, value, lvalue-ness)");
	__CPROVER_assert(r->lvalue == in_olv && r->qual == (enum typequal)in_oqual && r->type == ot, "6.5.1p5: nothing about it changes");
#elif V_SHAPE == S_COMPOUND
	D = B_ISARR(CLT) ? baseof_(r) : r;
#else
	c1 = r;
	__CPROVER_assert(c1->kind == EXPRCAST && c1->type == t1, "6.5.4p5: the cast has the named type");
	__CPROVER_assert(!c1->lvalue && !c1->decayed, "6.5.4 fn 104: a cast does not yield an lvalue");
	__CPROVER_assert(c1->qual == QUALNONE, "6.5.4 fn 104: a cast to a qualified type is a cast to the unqualified version");
#if V_SHAPE == S_CAST1
	__CPROVER_assert(baseof_(c1) == g_operand && g_nunary == 1, "the cast converts its operand");
#elif V_SHAPE == S_CASTPAREN
	__CPROVER_assert(baseof_(c1) == g_operand && g_nexpr == 1 && g_nunary == 0, "the cast converts the parenthesized expression");
#elif V_SHAPE == S_CAST2
	c2 = baseof_(c1);
	__CPROVER_assert(kindof_(c2) == EXPRCAST && typeof_(c2) == t2 && !c2->lvalue && c2->qual == QUALNONE, "6.5.4p5: the inner cast has its named type, unqualified, not an lvalue");
	__CPROVER_assert(baseof_(c2) == g_operand && g_nunary == 1, "the inner cast converts the operand");
#else
	D = baseof_(c1);
	if (B_ISARR(CLT))
		D = baseof_(D);
#endif
#endif
#if ISCL
	__CPROVER_assert(kindof_(D) == EXPRCOMPOUND && typeof_(D) == (V_SHAPE == S_COMPOUND ? t1 : t2), "6.5.2.5p4: the compound literal has the named type");
	__CPROVER_assert(D->lvalue, "6.5.2.5p4: a compound literal is an lvalue");
	__CPROVER_assert(D->qual == (enum typequal)(V_SHAPE == S_COMPOUND ? in_q1 : in_q2), "6.5.2.5p4: with the qualifiers of the type name");
	__CPROVER_assert(g_ninit == 1 && g_init_type == typeof_(D) && D->u.compound.init == &g_init, "6.5.2.5p4: initialized by the brace-enclosed list, parsed for that type");
	__CPROVER_assert(g_ndecl == 1 && D->u.compound.decl == &g_decl && g_decl.kind == DECLOBJECT && g_decl.type == typeof_(D) && g_decl.qual == D->qual && g_decl.linkage == LINKNONE && g_decl.name == 0,
	                 "6.5.2.5p4: it provides an unnamed object of that type");
	__CPROVER_assert(g_decl.u.obj.storage == (in_filescope ? SDSTATIC : SDAUTO), "6.5.2.5p5: static storage duration outside a function body, automatic otherwise");
	if (B_ISARR(CLT)) {
		struct expr *dec = V_SHAPE == S_COMPOUND ? r : baseof_(r);
		__CPROVER_assert(kindof_(dec) == EXPRUNARY && opof_(dec) == TBAND && dec->decayed && !dec->lvalue, "6.3.2.1p3: an array compound literal decays to a pointer to its first element");
		__CPROVER_assert(typeof_(dec)->kind == TYPEPOINTER && typeof_(dec)->base == &typeint && typeof_(dec)->qual == (in_arrq | D->qual), "6.3.2.1p3: pointer to the (so-qualified) element type");
	}
#endif
#endif
#ifdef VERIF_CANARY
	__CPROVER_assert(!(in_t1 == T_LONG || in_t1 == T_S1), "CANARY");
#endif
}
