/*
 * builtin_common.h -- harness shared by the EXPR.builtin* units (builtinfunc() of /repo/expr.c).
 * builtinfunc() is entered by postfixexpr after `(` and leaves the closing `)` to it; the script holds the arguments.
 * V_KIND (variants) fixes the builtin and the script; the including unit selects
 *   CHECK_MAIN     result type / value / operand checks of every builtin with well-formed syntax
 *   CHECK_NOTYPE   a builtin whose type-name argument is missing (fails on the pinned tree: NULL dereference)
 *
 * Sources of the postconditions
 *   __builtin_alloca(n)                 GCC manual "Other Builtins": void *__builtin_alloca(size_t size)
 *   __builtin_constant_p(e)             GCC manual: int; 1 only if e is known to be a compile-time constant
 *   __builtin_expect(e, c)              GCC manual: the value of the call is e
 *   __builtin_offsetof(T, m)            C11 7.19p3: integer constant of type size_t, value = offset in bytes of member m;
 *                                       T a structure (or union) type having a member m
 *   __builtin_types_compatible_p(T, U)  GCC manual: int; 1 iff the unqualified versions of T and U are compatible
 *   __builtin_unreachable()             GCC manual: void
 *   __builtin_va_arg(ap, T)             C11 7.16.1.1: ap a va_list; an expression of the specified type T
 *   __builtin_va_start(ap[, parmN])     C11 7.16.1.4 (C23: second argument optional): ap a va_list; void
 *   __builtin_va_end(ap)                C11 7.16.1.3: void
 *   __builtin_va_copy(dst, src)         C11 7.16.1.2: both va_list; void; dst = src
 * __builtin_inff / __builtin_nanf depend on strtod("inf"/"nan") and on the string-literal node: not covered here.
 */
#define POST_OWN_EVAL
#include "expr.c"
#include "verif.h"
#include "post_common.h"

#define K_ALLOCA 0
#define K_CONSTANTP 1
#define K_EXPECT 2
#define K_OFFSETOF 3
#define K_TYPESCOMPAT 4
#define K_UNREACHABLE 5
#define K_VAARG 6
#define K_VASTART1 7
#define K_VASTART2 8
#define K_VAEND 9
#define K_VACOPY 10
/* scripts with the type name left out */
#define K_OFFSETOF_NOTYPE 11      /* ( , m )   */
#define K_TYPESCOMPAT_NO1 12      /* ( , T )   */
#define K_TYPESCOMPAT_NO2 13      /* ( T , )   */
#define K_VAARG_NOTYPE 14         /* ( ap , )  */

static struct type *g_tn_type[2];
static int g_ntn;
static bool g_tn_sawqualptr;
static struct expr *g_e[2];
static int g_nassign, g_ncond, g_neval, g_nasg, g_nlookup;
static struct expr *g_asg_e; static struct type *g_asg_t; static struct expr g_conv;
static struct expr g_folded; static bool g_isconst;
static struct member g_member; static bool g_found; static struct type *g_sutype;
static char *g_name;      /* heap: builtinfunc frees the identifier it got from expect() */

struct type *
typename(struct scope *s, enum typequal *tq, struct expr **toeval)
{
	int k;

	if (tok.kind != TINT)
		return 0;
	__CPROVER_assert(g_ntn < 2, "no more type names parsed than written");
	k = g_ntn++;
	next();
	if (toeval)
		*toeval = 0;
	return k == 0 ? g_tn_type[0] : g_tn_type[1];
}

struct expr *
stub_assignexpr(struct scope *s)
{
	int k;

	__CPROVER_assert(tok.kind == TNUMBER, "an expression is parsed where it stands");
	__CPROVER_assert(g_nassign < 2, "no more expressions parsed than written");
	k = g_nassign++;
	next();
	return k == 0 ? g_e[0] : g_e[1];
}

struct expr *
stub_condexpr(struct scope *s)
{
	__CPROVER_assert(tok.kind == TNUMBER, "an expression is parsed where it stands");
	++g_ncond;
	next();
	return g_e[0];
}

/* eval.c:eval stand-in: folds the argument to a constant or leaves it (the harness chooses) */
struct expr *
eval(struct expr *e)
{
	++g_neval;
	if (g_isconst) {
		g_folded.kind = EXPRCONST; g_folded.type = e->type;
		return &g_folded;
	}
	return e;
}

struct expr *
rec_exprassign(struct expr *e, struct type *t)
{
	++g_nasg;
	g_asg_e = e; g_asg_t = t;
	g_conv.kind = EXPRCAST; g_conv.type = t; g_conv.base = e;
	return &g_conv;
}

struct member *
stub_typemember(struct type *t, const char *name, unsigned long long *offset)
{
	__CPROVER_assert(t->kind == TYPESTRUCT || t->kind == TYPEUNION, "typemember precondition (type.c:252 assert): struct or union type");
	__CPROVER_assert(name == g_name, "the member is looked up by the identifier written");
	++g_nlookup;
	g_sutype = t;
	if (!g_found)
		return 0;
	*offset += g_member.offset;
	return &g_member;
}

void
harness(void)
{
	static struct type ty_p0, ty_p1, ty_pe0, ty_pe1, ty_VA, ty_VAarr, ty_VAptr;
	static struct target g_targ;
	struct expr *r, *b, *al, *ar;
	struct type *et0, *et1;
	struct tdesc a0, a1;
	bool wf;
	const int kind = V_KIND;
	IN(unsigned, in_t0); IN(unsigned, in_b0); IN(unsigned, in_bq0);
	IN(unsigned, in_t1); IN(unsigned, in_b1); IN(unsigned, in_bq1);
	IN(unsigned, in_e0); IN(unsigned, in_eb0); IN(unsigned, in_ebq0); IN(bool, in_ap0);
	IN(unsigned, in_e1); IN(unsigned, in_eb1); IN(unsigned, in_ebq1); IN(bool, in_ap1);
	IN(bool, in_arrvalist); IN(bool, in_isconst); IN(bool, in_found); IN(u64, in_off);

	__CPROVER_assume(in_t0 < T_NULLPTR && in_t1 < T_NULLPTR && in_b0 < T_NBASE && in_b1 < T_NBASE && in_bq0 <= QUALMAX && in_bq1 <= QUALMAX);
	__CPROVER_assume(in_e0 < T_NULLPTR && in_e1 < T_NULLPTR && in_eb0 < T_NBASE && in_eb1 < T_NBASE && in_ebq0 <= QUALMAX && in_ebq1 <= QUALMAX);
	__CPROVER_assume(in_e0 != T_FN && !B_ISARR(in_e0) && in_e1 != T_FN && !B_ISARR(in_e1));       /* expressions have decayed */
	build_universe(0);
	/* va_list as targ.c defines it: x86_64-sysv `struct [1]` (adjusted: pointer to struct), otherwise a struct */
	ty_VA.kind = TYPESTRUCT; ty_VA.size = 24; ty_VA.align = 8;
	ty_VAarr.kind = TYPEARRAY; ty_VAarr.base = &ty_VA; ty_VAarr.size = 24; ty_VAarr.align = 8;
	mk_ptr(&ty_VAptr, &ty_VA, QUALNONE);
	g_targ.typevalist = in_arrvalist ? &ty_VAarr : &ty_VA;
	typeadjvalist = in_arrvalist ? &ty_VAptr : &ty_VA;       /* targ.c:60 typeadjust() */
	targ = &g_targ;
	g_tn_type[0] = optype(in_t0, &ty_p0, in_b0, in_bq0);
	g_tn_type[1] = optype(in_t1, &ty_p1, in_b1, in_bq1);
	et0 = in_ap0 ? typeadjvalist : optype(in_e0, &ty_pe0, in_eb0, in_ebq0);
	et1 = in_ap1 ? typeadjvalist : optype(in_e1, &ty_pe1, in_eb1, in_ebq1);
	g_e[0] = mk_operand(et0, !in_arrvalist, 0);
	g_e[1] = mk_operand(et1, !in_arrvalist, 0);
	g_ntn = g_nassign = g_ncond = g_neval = g_nasg = g_nlookup = 0;
	g_isconst = in_isconst; g_found = in_found; g_sutype = 0;
	g_name = malloc(2); __CPROVER_assume(g_name != 0); g_name[0] = 'm'; g_name[1] = 0;
	g_member.name = g_name; g_member.type = &typeint; g_member.offset = in_off; g_member.next = 0;
	a0.ts = in_t0; a0.bs = in_b0; a0.bq = in_bq0; a1.ts = in_t1; a1.bs = in_b1; a1.bq = in_bq1;
	g_script[0].kind = TRPAREN; g_script[1].kind = TRPAREN; g_script[2].kind = TRPAREN; g_script[3].kind = TRPAREN; g_script[4].kind = TRPAREN;
	g_script[5].kind = TEOF; g_script[6].kind = TEOF; g_script[7].kind = TEOF; g_script[8].kind = TEOF; g_script[9].kind = TEOF; g_script[10].kind = TEOF; g_script[11].kind = TEOF;
#if V_KIND == K_ALLOCA || V_KIND == K_CONSTANTP || V_KIND == K_VASTART1 || V_KIND == K_VAEND
	g_script[0].kind = TNUMBER;
#define ENDPOS 1
#elif V_KIND == K_EXPECT || V_KIND == K_VASTART2 || V_KIND == K_VACOPY
	g_script[0].kind = TNUMBER; g_script[1].kind = TCOMMA; g_script[2].kind = TNUMBER;
#define ENDPOS 3
#elif V_KIND == K_OFFSETOF
	g_script[0].kind = TINT; g_script[1].kind = TCOMMA; g_script[2].kind = TIDENT; g_script[2].lit = g_name;
#define ENDPOS 3
#elif V_KIND == K_OFFSETOF_NOTYPE
	g_script[0].kind = TCOMMA; g_script[1].kind = TIDENT; g_script[1].lit = g_name;
#define ENDPOS 2
#elif V_KIND == K_TYPESCOMPAT
	g_script[0].kind = TINT; g_script[1].kind = TCOMMA; g_script[2].kind = TINT;
#define ENDPOS 3
#elif V_KIND == K_TYPESCOMPAT_NO1
	g_script[0].kind = TCOMMA; g_script[1].kind = TINT;
#define ENDPOS 2
#elif V_KIND == K_TYPESCOMPAT_NO2
	g_script[0].kind = TINT; g_script[1].kind = TCOMMA;
#define ENDPOS 2
#elif V_KIND == K_UNREACHABLE
#define ENDPOS 0
#elif V_KIND == K_VAARG
	g_script[0].kind = TNUMBER; g_script[1].kind = TCOMMA; g_script[2].kind = TINT;
#define ENDPOS 3
#elif V_KIND == K_VAARG_NOTYPE
	g_script[0].kind = TNUMBER; g_script[1].kind = TCOMMA;
#define ENDPOS 2
#endif
	script_start();

	/* what the documents say about this input */
#if V_KIND == K_ALLOCA || V_KIND == K_CONSTANTP || V_KIND == K_EXPECT || V_KIND == K_UNREACHABLE || V_KIND == K_TYPESCOMPAT
	wf = true;
#elif V_KIND == K_OFFSETOF
	__CPROVER_assume(in_off < (1ull << 40));
	if (in_t0 == T_SINC) g_found = false;                /* an incomplete type has no members */
	wf = T_ISSU(in_t0) && g_found;
#elif V_KIND == K_VAARG || V_KIND == K_VASTART1 || V_KIND == K_VASTART2 || V_KIND == K_VAEND
	/* an operand that is not the va_list type: any type of the universe (none is compatible with struct VA / its pointer) */
	wf = in_ap0;
#elif V_KIND == K_VACOPY
	wf = in_ap0 && in_ap1;
#else
	wf = false;                                          /* syntax error: a type name is required */
#endif
	g_no_error = wf;
#if defined(VERIF_CANARY) && defined(CHECK_NOTYPE)
	/* every input of this unit must be diagnosed: the canary sits before the call */
	__CPROVER_assert(!in_isconst, "CANARY");
#endif

	r = builtinfunc(0, V_KIND == K_ALLOCA ? BUILTINALLOCA : V_KIND == K_CONSTANTP ? BUILTINCONSTANTP : V_KIND == K_EXPECT ? BUILTINEXPECT :
	                   V_KIND == K_OFFSETOF || V_KIND == K_OFFSETOF_NOTYPE ? BUILTINOFFSETOF :
	                   V_KIND == K_TYPESCOMPAT || V_KIND == K_TYPESCOMPAT_NO1 || V_KIND == K_TYPESCOMPAT_NO2 ? BUILTINTYPESCOMPATIBLEP :
	                   V_KIND == K_UNREACHABLE ? BUILTINUNREACHABLE : V_KIND == K_VAARG || V_KIND == K_VAARG_NOTYPE ? BUILTINVAARG :
	                   V_KIND == K_VASTART1 || V_KIND == K_VASTART2 ? BUILTINVASTART : V_KIND == K_VAEND ? BUILTINVAEND : BUILTINVACOPY);

#ifdef CHECK_NOTYPE
	__CPROVER_assert(0, "C19/C10: a builtin whose type-name argument is missing is diagnosed (no NULL type reaches the caller or is dereferenced)");
#endif
#ifdef CHECK_MAIN
	__CPROVER_assert(wf, "operand constraints of the builtin: else diagnosed");
	__CPROVER_assume(wf);
	__CPROVER_assert(g_pos == ENDPOS && tok.kind == TRPAREN, "exactly the arguments are consumed; `)` is left to postfixexpr");
	__CPROVER_assert(!r->lvalue && !r->decayed || V_KIND == K_EXPECT, "a builtin call is not an lvalue");
#if V_KIND == K_ALLOCA
	__CPROVER_assert(r->kind == EXPRBUILTIN && r->u.builtin.kind == BUILTINALLOCA, "alloca node");
	__CPROVER_assert(r->type->kind == TYPEPOINTER && r->type->base == &typevoid && r->type->qual == QUALNONE, "void *__builtin_alloca(size_t)");
	__CPROVER_assert(g_nasg == 1 && g_asg_e == g_e[0] && g_asg_t == &typeulong && baseof_(r) == &g_conv, "the argument is converted to size_t as if by assignment (6.5.2.2p7)");
#elif V_KIND == K_CONSTANTP
	__CPROVER_assert(r->kind == EXPRCONST && r->type == &typeint, "int __builtin_constant_p(e) is an integer constant");
	__CPROVER_assert(r->u.constant.u == (in_isconst ? 1 : 0), "1 if e folds to a constant, else 0");
	__CPROVER_assert(g_ncond == 1 && g_neval == 1, "the argument is parsed once and folded once");
#elif V_KIND == K_EXPECT
	__CPROVER_assert(r == g_e[0] && g_nassign == 2, "the value of __builtin_expect(e, c) is e; c is parsed and dropped");
#elif V_KIND == K_OFFSETOF
	__CPROVER_assert(r->kind == EXPRCONST && r->type == &typeulong, "7.19p3: offsetof is an integer constant of type size_t");
	__CPROVER_assert(r->u.constant.u == in_off, "7.19p3: its value is the offset in bytes of the member");
	__CPROVER_assert(g_nlookup == 1 && g_sutype == ty_base[in_t0], "the member is looked up in the named struct/union type");
#elif V_KIND == K_TYPESCOMPAT
	__CPROVER_assert(r->kind == EXPRCONST && r->type == &typeint, "int __builtin_types_compatible_p(T, U) is an integer constant");
	__CPROVER_assert(r->u.constant.u == (spec_compat(a0, a1) ? 1 : 0), "1 iff the unqualified versions of T and U are compatible (6.2.7)");
#elif V_KIND == K_UNREACHABLE
	__CPROVER_assert(r->kind == EXPRBUILTIN && r->u.builtin.kind == BUILTINUNREACHABLE && r->type == &typevoid && r->base == 0, "void __builtin_unreachable(void)");
#elif V_KIND == K_VAARG
	__CPROVER_assert(r->kind == EXPRBUILTIN && r->u.builtin.kind == BUILTINVAARG, "va_arg node");
	__CPROVER_assert(r->type == g_tn_type[0], "7.16.1.1p2: va_arg(ap, type) has the specified type");
	b = baseof_(r);
	__CPROVER_assert(in_arrvalist ? b == g_e[0] : kindof_(b) == EXPRUNARY && opof_(b) == TBAND && baseof_(b) == g_e[0], "C08: the va_list object is passed by reference (pointer value for an array va_list, address otherwise)");
#elif V_KIND == K_VASTART1 || V_KIND == K_VASTART2
	__CPROVER_assert(r->kind == EXPRBUILTIN && r->u.builtin.kind == BUILTINVASTART && r->type == &typevoid, "7.16.1.4: void va_start(ap, ...)");
	b = baseof_(r);
	__CPROVER_assert(in_arrvalist ? b == g_e[0] : kindof_(b) == EXPRUNARY && opof_(b) == TBAND && baseof_(b) == g_e[0], "C08: the va_list object is passed by reference");
	__CPROVER_assert(g_nassign == (V_KIND == K_VASTART2 ? 2 : 1), "parmN is parsed and dropped");
#elif V_KIND == K_VAEND
	__CPROVER_assert(r->type == &typevoid && r->kind == EXPRCAST && baseof_(r) == g_e[0], "7.16.1.3: void va_end(ap): ap evaluated, value discarded");
#elif V_KIND == K_VACOPY
	__CPROVER_assert(r->kind == EXPRASSIGN && r->type == &typevoid, "7.16.1.2: void va_copy(dst, src) is an assignment of the va_list state");
	al = r->u.assign.l; ar = r->u.assign.r;
	__CPROVER_assert(in_arrvalist ? kindof_(al) == EXPRUNARY && opof_(al) == TMUL && baseof_(al) == g_e[0] && typeof_(al) == &ty_VA : al == g_e[0], "dst is the first va_list object");
	__CPROVER_assert(in_arrvalist ? kindof_(ar) == EXPRUNARY && opof_(ar) == TMUL && baseof_(ar) == g_e[1] && typeof_(ar) == &ty_VA : ar == g_e[1], "src is the second va_list object");
#endif
#endif
#ifdef VERIF_CANARY
	__CPROVER_assert(!(in_off == 7 || in_t0 == T_S1 || in_isconst), "CANARY");
#endif
}
