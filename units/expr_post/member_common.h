/*
 * member_common.h -- harness shared by the EXPR.post.member* units (postfixexpr, `.` and `->`).
 * The including unit defines V_OP (TPERIOD / TARROW) through its variants and one of
 *   CHECK_MAIN     every fact of C11 6.5.2.3 except the two below
 *   CHECK_BFQUAL   6.5.2.3p3/p4 qualifiers on a BIT-FIELD member
 *   CHECK_ARRLV    6.3.2.1p3 / 6.5.2.3p3: lvalue-ness when the member has array type
 * (the last two fail on the pinned tree; they are kept apart so that the mutants of the first are meaningful).
 *
 * C11 6.5.2.3
 *  p1 (constraint) the first operand of . shall have a structure or union type, the second shall name a member of it.
 *  p2 (constraint) the first operand of -> shall have type pointer to structure or union, the second shall name a member.
 *  p3 E.m designates the member: its value/type are the member's; it is an lvalue if E is an lvalue; if E has qualified
 *     type the result has the so-qualified version of the member's type.
 *  p4 E->m is an lvalue designating the member of the object E points to; if E points to a qualified type, the result has
 *     the so-qualified version of the member's type.
 * C01: the designated object lives at (address of the struct) + offsetof(member); a bit-field is described by its position.
 */
#include "expr.c"
#include "verif.h"
#include "post_common.h"

static struct type *g_sutype;        /* the struct/union type the member lookup must be made in */
static struct member g_member;
static bool g_found;
static int g_nlookup;
static char g_name[2];

/* verdict stand-in for type.c:typemember (TYPE.member proves the real one): finds g_member or nothing */
struct member *
stub_typemember(struct type *t, const char *name, unsigned long long *offset)
{
	__CPROVER_assert(t->kind == TYPESTRUCT || t->kind == TYPEUNION, "typemember precondition (type.c:252 assert): struct or union type");
	__CPROVER_assert(name == g_name, "the member is looked up by the identifier after the operator");
	__CPROVER_assert(*offset == 0, "member offset accumulated from 0");
	++g_nlookup;
	g_sutype = t;
	if (!g_found)
		return 0;
	*offset += g_member.offset;
	return &g_member;
}

void
harness(void)
{
	static struct type ty_pl;
	struct expr *l, *e, *D, *sum, *addr, *inner;
	struct type *lt, *mt;
	unsigned lq, want_qual;
	bool wf, want_lv, isbf;
	int op = V_OP;
	IN(unsigned, in_lts); IN(unsigned, in_lbs); IN(unsigned, in_lq); IN(bool, in_llv); IN(unsigned, in_lqual);
	IN(unsigned, in_mts); IN(unsigned, in_mq); IN(u64, in_off); IN(unsigned, in_before); IN(unsigned, in_after);
	IN(bool, in_found); IN(unsigned, in_arrq);

	__CPROVER_assume(in_lts < T_N && in_lbs < T_NBASE && in_lq <= QUALMAX && in_lqual <= QUALMAX && in_arrq <= QUALMAX);
	__CPROVER_assume(in_lts != T_FN && !B_ISARR(in_lts));           /* the left operand has decayed */
	/* a member has a complete object type (6.7.2.1p3); a flexible array member int[] is allowed last */
	__CPROVER_assume(in_mts < T_NBASE && in_mts != T_FN && in_mts != T_VOID && in_mts != T_SINC && in_mq <= QUALMAX);
	/* a bit-field has integer type and fits its storage unit (6.7.2.1p4,5; DECL.addmember.bf) */
	isbf = in_before || in_after;
	__CPROVER_assume(!isbf || T_ISINT(in_mts) && in_before < 64 && in_after < 64 && in_before + in_after < 8 * B_SIZE(in_mts));
	__CPROVER_assume(in_off < (1ull << 40));
	build_universe(in_arrq);
	lt = optype(in_lts, &ty_pl, in_lbs, in_lq);
	l = mk_operand(lt, in_llv, in_lqual);
	mt = ty_base[in_mts];
	g_member.name = g_name; g_member.type = mt; g_member.qual = in_mq; g_member.offset = in_off;
	g_member.bits.before = in_before; g_member.bits.after = in_after; g_member.next = 0;
	g_name[0] = 'm'; g_name[1] = 0;
	g_nlookup = 0; g_sutype = 0;
	g_script[0].kind = op; g_script[1].kind = TIDENT; g_script[1].lit = g_name; g_script[2].kind = TSEMICOLON;
	g_script[3].kind = TEOF; g_script[4].kind = TEOF; g_script[5].kind = TEOF; g_script[6].kind = TEOF; g_script[7].kind = TEOF;
	g_script[8].kind = TEOF; g_script[9].kind = TEOF; g_script[10].kind = TEOF; g_script[11].kind = TEOF;
	script_start();

	/* what the standard says about this input */
	if (in_lts == T_PI) { in_lbs = T_INT; in_lq = 0; }
	if (op == TPERIOD) {
		wf = T_ISSU(in_lts);                      /* p1 */
		g_found = in_found && in_lts != T_SINC;   /* an incomplete type has no members */
		lq = in_lqual;
		want_lv = in_llv;                         /* p3 */
	} else {
		wf = T_ISPTR(in_lts) && T_ISSU(in_lbs);   /* p2 */
		g_found = in_found && in_lbs != T_SINC;
		lq = in_lq;
		want_lv = true;                           /* p4 */
	}
	wf = wf && g_found;
	want_qual = lq | in_mq;
	g_no_error = wf;

	e = postfixexpr(0, l);

	__CPROVER_assert(wf, "6.5.2.3p1,p2: left operand (pointer to) struct/union and the identifier names a member: else diagnosed");
	__CPROVER_assume(wf);
#ifdef CHECK_MAIN
	__CPROVER_assert(g_pos == 2 && tok.kind == TSEMICOLON, "exactly the operator and the identifier are consumed");
	__CPROVER_assert(g_nlookup == 1 && g_sutype == ty_base[op == TPERIOD ? in_lts : in_lbs], "the member is looked up once, in the struct/union type of the left operand");
	D = isbf ? baseof_(e) : B_ISARR(in_mts) ? baseof_(e) : e;     /* the lvalue designating the member's storage */
	if (isbf) {
		__CPROVER_assert(e->kind == EXPRBITFIELD && e->type == mt, "6.5.2.3p3: a bit-field member access has the member's declared type");
		__CPROVER_assert(e->u.bitfield.bits.before == (short)in_before && e->u.bitfield.bits.after == (short)in_after, "C01: the bit-field is the member's bits of its storage unit");
		__CPROVER_assert(e->lvalue == want_lv, "6.5.2.3p3,p4: lvalue iff '->' or the left operand of '.' is an lvalue (bit-field)");
	} else if (B_ISARR(in_mts)) {
		__CPROVER_assert(e->kind == EXPRUNARY && e->op == TBAND && e->decayed, "6.3.2.1p3: a member of array type decays to a pointer");
		__CPROVER_assert(e->type->kind == TYPEPOINTER && e->type->base == &typeint && e->type->qual == (in_arrq | want_qual), "6.3.2.1p3 + 6.5.2.3p3: pointer to the so-qualified element type");
	} else {
		__CPROVER_assert(!e->decayed && e->lvalue == want_lv, "6.5.2.3p3,p4: lvalue iff '->' or the left operand of '.' is an lvalue");
	}
	__CPROVER_assert(kindof_(D) == EXPRUNARY && opof_(D) == TMUL && typeof_(D) == mt, "6.5.2.3p3: the result has the type of the named member");
	__CPROVER_assert(D->qual == (enum typequal)want_qual, "6.5.2.3p3,p4: the member type is qualified by the qualifiers of the left operand (and its own)");
	sum = baseof_(D);
	__CPROVER_assert(kindof_(sum) == EXPRBINARY && opof_(sum) == TADD, "C01: member address = struct address + offset");
	__CPROVER_assert(kindof_(binr_(sum)) == EXPRCONST && constof_(binr_(sum)) == in_off, "C01: the offset is the member's offset");
	addr = strip(binl_(sum));
	if (op == TARROW) {
		__CPROVER_assert(addr == l, "C01: '->' starts from the pointer operand");
	} else {
		__CPROVER_assert(kindof_(addr) == EXPRUNARY && opof_(addr) == TBAND && baseof_(addr) == l, "C01: '.' starts from the address of the left operand");
	}
	__CPROVER_assert(typeof_(sum)->kind == TYPEPOINTER && typeof_(sum)->base == mt, "the computed address points to the member type");
#endif
#ifdef CHECK_BFQUAL
	__CPROVER_assume(isbf);
	__CPROVER_assert(e->kind == EXPRBITFIELD, "a bit-field member access");
	__CPROVER_assert(e->qual == (enum typequal)want_qual, "6.5.2.3p3,p4: a bit-field member is qualified by the qualifiers of the left operand (and its own): const reaches the store check of 6.5.16p2 / 6.5.2.4p1");
#endif
#ifdef CHECK_ARRLV
	__CPROVER_assume(B_ISARR(in_mts));
	__CPROVER_assert(e->decayed && !e->lvalue, "6.3.2.1p3: the pointer an array member decays to is not an lvalue");
	inner = baseof_(e);
	__CPROVER_assert(inner->lvalue == want_lv, "6.5.2.3p3: E.m with E not an lvalue is not an lvalue (array member of a non-lvalue struct)");
#endif
#ifdef VERIF_CANARY
	__CPROVER_assert(!(in_mts == T_ARR3 && in_mq == QUALCONST || in_before == 3), "CANARY");
#endif
}
