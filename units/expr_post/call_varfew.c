/* UNIT
{
 "id": "EXPR.post.call.varfew",
 "file": "expr.c", "function": "postfixexpr", "also_functions": ["exprpromote", "exprconvert", "decay", "mkexpr"],
 "properties": {"C05": "contract", "C10": "contract", "C08": "contract", "C19": "safety"},
 "mode": "harness",
 "replace_calls": {"assignexpr": "stub_assignexpr", "exprassign": "rec_exprassign"}, "replay": false,
 "link_repo": ["type.c"],
 "unwind": 5, "unwindset": ["typecompatible:2", "typecompatible.0:2"],
 "variants": {"A0P1": ["-DV_NA=0", "-DV_NP=1"], "A0P2": ["-DV_NA=0", "-DV_NP=2"], "A1P2": ["-DV_NA=1", "-DV_NP=2"], "A2P2": ["-DV_NA=2", "-DV_NP=2"]},
 "canary_variant": "A2P2",
 "cflags": ["-DCHECK_VARFEW"],
 "kind": "proof-const-unwind",
 "bound": "0..3 arguments written, 0..2 parameters, with or without ellipsis",
 "timeout": 200,
 "expects": ["assertion_verif"],
 "assumes": ["token script `(` 0..3 arguments separated by `,` `)` `;`; assignexpr() is a stand-in that consumes the one token of an argument and returns the operand the harness built",
             "exprassign() is a recorder (argument, target type) returning a node of the target type; EXPR.exprassign / EXPR.mkassign prove the real one (assignability constraint of 6.5.2.2p2 included)",
             "callee: opaque decayed expression with a type from post_common.h's universe; when it is a pointer to function the function type has 0..2 parameters of arithmetic / pointer / struct type, an optional ellipsis and any return type that a declarator can give",
             "cproc has no unprototyped function types (T f() is T f(void)): reported separately, not expressible here",
             "native replay impossible (static callees redirected with --replace-calls)"]
}
*/
/* C11 6.5.2.2p2: a variadic function needs at least as many arguments as named parameters; see call_common.h */
#include "call_common.h"
