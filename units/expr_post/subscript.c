/* UNIT
{
 "id": "EXPR.post.subscript",
 "file": "expr.c", "function": "postfixexpr", "also_functions": ["mkbinaryexpr", "mkunaryexpr", "decay", "exprconvert", "mkexpr"],
 "properties": {"C05": "contract", "C10": "contract", "C01": "contract", "C19": "safety"},
 "mode": "harness",
 "replace_calls": {"expr": "stub_expr"}, "replay": false,
 "link_repo": ["type.c"],
 "unwind": 3,
 "kind": "proof-const-unwind",
 "timeout": 200,
 "expects": ["assertion_verif"],
 "assumes": ["token script `[` <expression> `]` `;`; expr() is a stand-in that consumes the one <expression> token and returns the index operand the harness built",
             "operands are opaque (already decayed) expressions whose types range over post_common.h's universe: every arithmetic type, an enum, void, struct/union, int*, fresh pointers to every base type with arbitrary qualifiers, nullptr_t",
             "eval() is the identity (constant folding is EVAL.*'s business)",
             "native replay impossible (expr is redirected with --replace-calls)"]
}
*/
#include "expr.c"
#include "verif.h"
#include "post_common.h"

static struct expr *g_idx;
static int g_nexpr;

/* the parser below postfixexpr: one expression, one token long */
struct expr *
stub_expr(struct scope *s)
{
	__CPROVER_assert(g_pos == 1, "the subscript expression is parsed right after '['");
	++g_nexpr;
	next();
	return g_idx;
}

/*
 * C11 6.5.2.1p1 (constraint): one of the expressions shall have type "pointer to complete object type", the other
 * shall have integer type, and the result has type "type".
 * 6.5.2.1p2: E1[E2] is identical to (*((E1)+(E2))); so (6.5.3.2p4) the result is an lvalue designating the element, with
 * the qualifiers of the referenced type; (6.3.2.1p3) an element of array type decays to a pointer to its first element.
 * 6.5.6p8 / C01: the address is E1 + E2 * sizeof(element).
 */
void
harness(void)
{
	static struct type ty_pl, ty_pr;
	struct expr *l, *r, *e, *P, *I, *D, *sum, *scaled;
	struct type *lt, *rt;
	unsigned bs, q;
	bool wf, lptr, rptr;
	IN(unsigned, in_lts); IN(unsigned, in_lbs); IN(unsigned, in_lq);
	IN(unsigned, in_rts); IN(unsigned, in_rbs); IN(unsigned, in_rq);
	IN(unsigned, in_arrq); IN(bool, in_llv); IN(bool, in_rlv); IN(unsigned, in_lqual); IN(unsigned, in_rqual);

	__CPROVER_assume(in_lts < T_N && in_rts < T_N && in_lbs < T_NBASE && in_rbs < T_NBASE);
	__CPROVER_assume(in_lq <= QUALMAX && in_rq <= QUALMAX && in_arrq <= QUALMAX && in_lqual <= QUALMAX && in_rqual <= QUALMAX);
	/* operands have undergone array/function decay (6.3.2.1p3,4): no operand of array or function type */
	__CPROVER_assume(in_lts != T_FN && !B_ISARR(in_lts) && in_rts != T_FN && !B_ISARR(in_rts));
	build_universe(in_arrq);
	lt = optype(in_lts, &ty_pl, in_lbs, in_lq);
	rt = optype(in_rts, &ty_pr, in_rbs, in_rq);
	l = mk_operand(lt, in_llv, in_lqual);
	r = mk_operand(rt, in_rlv, in_rqual);
	g_idx = r; g_nexpr = 0;
	g_script[0].kind = TLBRACK; g_script[1].kind = TNUMBER; g_script[2].kind = TRBRACK; g_script[3].kind = TSEMICOLON;
	g_script[4].kind = TEOF; g_script[5].kind = TEOF; g_script[6].kind = TEOF; g_script[7].kind = TEOF;
	g_script[8].kind = TEOF; g_script[9].kind = TEOF; g_script[10].kind = TEOF; g_script[11].kind = TEOF;
	script_start();

	/* what the standard says about this input */
	lptr = T_ISPTR(in_lts); rptr = T_ISPTR(in_rts);
	if (in_lts == T_PI) { in_lbs = T_INT; in_lq = 0; }
	if (in_rts == T_PI) { in_rbs = T_INT; in_rq = 0; }
	wf = lptr && B_COMPLETEOBJ(in_lbs) && T_ISINT(in_rts) || rptr && B_COMPLETEOBJ(in_rbs) && T_ISINT(in_lts);
	g_no_error = wf;

	e = postfixexpr(0, l);

	__CPROVER_assert(wf, "6.5.2.1p1: one operand pointer to complete object type, the other integer type: else diagnosed");
	__CPROVER_assume(wf);
	P = lptr ? l : r; I = lptr ? r : l;
	bs = lptr ? in_lbs : in_rbs; q = lptr ? in_lq : in_rq;
	__CPROVER_assert(g_nexpr == 1 && g_pos == 3 && tok.kind == TSEMICOLON, "exactly `[` expression `]` is consumed");
	D = B_ISARR(bs) ? baseof_(e) : e;
	if (B_ISARR(bs)) {
		__CPROVER_assert(e->kind == EXPRUNARY && e->op == TBAND && e->decayed && !e->lvalue, "6.3.2.1p3: an element of array type decays to a pointer");
		__CPROVER_assert(e->type->kind == TYPEPOINTER && e->type->base == &typeint && e->type->qual == (in_arrq | q), "6.3.2.1p3: pointer to the element type, qualifiers kept");
	} else {
		__CPROVER_assert(!e->decayed, "no decay for a non-array element");
	}
	__CPROVER_assert(kindof_(D) == EXPRUNARY && opof_(D) == TMUL, "6.5.2.1p2: E1[E2] is *((E1)+(E2))");
	__CPROVER_assert(typeof_(D) == ty_base[bs], "6.5.2.1p1: the result has the referenced type of the pointer operand");
	__CPROVER_assert(D->lvalue, "6.5.3.2p4: the result is an lvalue");
	__CPROVER_assert(D->qual == (enum typequal)q, "6.5.3.2p4: the lvalue carries the qualifiers of the referenced type");
	sum = baseof_(D);
	__CPROVER_assert(kindof_(sum) == EXPRBINARY && opof_(sum) == TADD && typeof_(sum) == P->type, "6.5.6p8: (E1)+(E2) has the pointer operand's type");
	__CPROVER_assert(binl_(sum) == P, "the pointer operand is the base of the addition, whichever side of [] it was written on");
	scaled = binr_(sum);
	__CPROVER_assert(kindof_(scaled) == EXPRBINARY && opof_(scaled) == TMUL && strip(binl_(scaled)) == I, "6.5.6p8: the integer operand counts elements");
	__CPROVER_assert(kindof_(binr_(scaled)) == EXPRCONST && constof_(binr_(scaled)) == B_SIZE(bs), "6.5.6p8: scaled by the size of the element type");
#ifdef VERIF_CANARY
	__CPROVER_assert(!(in_lts == T_INT && in_rts == T_PTR && in_rbs == T_S1), "CANARY");
#endif
}
