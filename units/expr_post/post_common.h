/*
 * post_common.h -- token-script stand-in and type universe shared by the units on postfixexpr / castexpr / generic /
 * builtinfunc of /repo/expr.c (CONVENTIONS section 8).  No contract lives here.
 *
 * Token source: g_script[] is written by the harness with CONSTANT indices; next()/consume()/expect()/peek() are the
 * obvious readers (what pp.c's versions do on an already preprocessed token sequence).  The last scripted token is
 * sticky (TEOF), so over-reading is harmless and visible (g_pos).
 *
 * Types: the REAL global type objects of type.c (linked) plus fresh derived types laid out the way decl.c / type.c lay
 * them out.  The oracle knows a type by its SELECTOR, never by reading the struct fields the code reads.
 */
#ifndef POST_COMMON_H
#define POST_COMMON_H

extern int g_no_error;      /* stubs/base.c */

struct token tok;
const struct target *targ;

#ifndef NTOK
#define NTOK 12
#endif
static struct token g_script[NTOK];
static unsigned g_pos;

void
next(void)
{
	if (g_pos + 1 < NTOK)
		++g_pos;
	tok = g_script[g_pos];
}

bool
consume(int kind)
{
	if (tok.kind != kind)
		return false;
	next();
	return true;
}

bool
peek(int kind)
{
	return g_pos + 1 < NTOK && g_script[g_pos + 1].kind == kind;
}

char *
expect(enum tokenkind kind, const char *msg)
{
	char *lit;

	if (tok.kind != kind)
		error(&tok.loc, "expected %d %s", kind, msg);
	lit = tok.lit;
	next();
	return lit;
}

static void
script_start(void)
{
	g_pos = 0;
	tok = g_script[0];
}

#define QUALMAX (QUALCONST|QUALRESTRICT|QUALVOLATILE)

/* ---- type selectors ---- */
enum {
	T_BOOL, T_CHAR, T_SHORT, T_INT, T_UINT, T_LONG, T_ULONG,       /* integer types */
	T_ENUM,                                                         /* enumerated type compatible with unsigned int */
	T_FLOAT, T_DOUBLE, T_LDOUBLE,                                   /* real floating types */
	T_VOID, T_S1, T_SINC, T_U1, T_FN, T_ARR3, T_ARRINC, T_PI,       /* void, struct, incomplete struct, union, int(void), int[3], int[], int* */
	T_NBASE,
	T_PTR = T_NBASE,                                                /* a fresh pointer type; referenced type = a base selector */
	T_NULLPTR,
	T_N
};

static struct type ty_enum, ty_S1, ty_Sinc, ty_U1, ty_fn, ty_arr3, ty_arrinc, ty_pi;
static struct type *const ty_base[T_NBASE] = {
	&typebool, &typechar, &typeshort, &typeint, &typeuint, &typelong, &typeulong,
	&ty_enum,
	&typefloat, &typedouble, &typeldouble,
	&typevoid, &ty_S1, &ty_Sinc, &ty_U1, &ty_fn, &ty_arr3, &ty_arrinc, &ty_pi
};

/* ---- oracle-side facts (C11 6.2.5) ---- */
#define T_ISINT(ts)      ((ts) <= T_ENUM)                                   /* 6.2.5p17 */
#define T_ISFLT(ts)      ((ts) >= T_FLOAT && (ts) <= T_LDOUBLE)             /* 6.2.5p10 */
#define T_ISARITH(ts)    ((ts) <= T_LDOUBLE)                                /* 6.2.5p18 */
#define T_ISPTR(ts)      ((ts) == T_PTR || (ts) == T_PI)
#define T_ISSCALAR(ts)   (T_ISARITH(ts) || T_ISPTR(ts) || (ts) == T_NULLPTR) /* 6.2.5p21 */
#define T_ISSU(ts)       ((ts) == T_S1 || (ts) == T_SINC || (ts) == T_U1)
#define B_ISFUNC(bs)     ((bs) == T_FN)
#define B_INCOMPLETE(bs) ((bs) == T_VOID || (bs) == T_SINC || (bs) == T_ARRINC) /* 6.2.5p1, p19, p22 */
#define B_COMPLETEOBJ(bs) (!B_ISFUNC(bs) && !B_INCOMPLETE(bs))
#define B_ISARR(bs)      ((bs) == T_ARR3 || (bs) == T_ARRINC)
#define B_SIZE(bs) ((bs) == T_BOOL || (bs) == T_CHAR ? 1u : (bs) == T_SHORT ? 2u : (bs) == T_INT || (bs) == T_UINT || (bs) == T_ENUM || (bs) == T_FLOAT ? 4u : \
                    (bs) == T_LONG || (bs) == T_ULONG || (bs) == T_DOUBLE || (bs) == T_PI ? 8u : (bs) == T_LDOUBLE ? 16u : \
                    (bs) == T_S1 ? 12u : (bs) == T_U1 ? 4u : (bs) == T_ARR3 ? 12u : 0u)

static void
mk_ptr(struct type *t, struct type *base, unsigned qual)
{
	/* type.c:mkpointertype */
	t->kind = TYPEPOINTER;
	t->prop = PROPSCALAR;
	t->base = base;
	t->qual = qual;
	t->size = 8;
	t->align = 8;
	t->incomplete = false;
}

static void
build_universe(unsigned arrq)
{
	/* decl.c:tagspec */
	ty_enum.kind = TYPEENUM; ty_enum.prop = PROPSCALAR|PROPARITH|PROPREAL|PROPINT; ty_enum.base = &typeuint;
	ty_enum.size = 4; ty_enum.align = 4; ty_enum.u.basic.issigned = false;
	ty_S1.kind = TYPESTRUCT; ty_S1.size = 12; ty_S1.align = 4;
	ty_Sinc.kind = TYPESTRUCT; ty_Sinc.incomplete = true;
	ty_U1.kind = TYPEUNION; ty_U1.size = 4; ty_U1.align = 4;
	ty_fn.kind = TYPEFUNC; ty_fn.base = &typeint;
	mk_ptr(&ty_pi, &typeint, QUALNONE);
	ty_arr3.kind = TYPEARRAY; ty_arr3.base = &typeint; ty_arr3.size = 12; ty_arr3.align = 4; ty_arr3.qual = arrq;
	ty_arrinc.kind = TYPEARRAY; ty_arrinc.base = &typeint; ty_arrinc.align = 4; ty_arrinc.incomplete = true; ty_arrinc.qual = arrq;
}

/* the type object for selector ts (pt = the operand's own fresh pointer type, referenced type bs with qualifiers q) */
static struct type *
optype(unsigned ts, struct type *pt, unsigned bs, unsigned q)
{
	if (ts < T_NBASE)
		return ty_base[ts];
	if (ts == T_PTR) {
		mk_ptr(pt, ty_base[bs], q);
		return pt;
	}
	return &typenullptr;
}

/* an operand as the parser hands it over (heap allocated: mkunaryexpr may free a decayed operand); an opaque EXPRIDENT */
static struct decl g_opdecl;
static struct expr *
mk_operand(struct type *t, bool lvalue, unsigned qual)
{
	struct expr *e = malloc(sizeof(*e));

	__CPROVER_assume(e != 0);
	memset(e, 0, sizeof(*e));
	e->kind = EXPRIDENT;
	e->type = t;
	e->lvalue = lvalue;
	e->qual = qual;
	g_opdecl.kind = DECLOBJECT;
	e->u.ident.decl = &g_opdecl;
	return e;
}

/* field readers: CBMC 6.11 mis-resolves a nested dereference through a pointer read from the union in struct expr */
static struct type *typeof_(struct expr *e) { return e->type; }
static struct expr *baseof_(struct expr *e) { return e->base; }
static int kindof_(struct expr *e) { return e->kind; }
static int opof_(struct expr *e) { return e->op; }
static struct expr *binl_(struct expr *e) { return e->u.binary.l; }
static struct expr *binr_(struct expr *e) { return e->u.binary.r; }
static u64 constof_(struct expr *e) { return e->u.constant.u; }
static struct expr *strip(struct expr *e) { while (e->kind == EXPRCAST) e = e->base; return e; }

/* a type as written in a type name / of an expression: selector, and for T_PTR the referenced type */
struct tdesc { unsigned ts, bs, bq; };

/* C11 6.2.7p1, 6.7.2.2p4, 6.7.6.1p2, 6.7.6.2p6 on the universe (unqualified top level) */
static bool
spec_basecompat(unsigned a, unsigned b)
{
	if (a == b)
		return true;
	if (a == T_ENUM && b == T_UINT || a == T_UINT && b == T_ENUM)
		return true;                        /* an enumerated type and its compatible integer type */
	if (a == T_ARR3 && b == T_ARRINC || a == T_ARRINC && b == T_ARR3)
		return true;                        /* int[3] ~ int[] */
	return false;
}

static bool
spec_compat(struct tdesc a, struct tdesc b)
{
	/* T_PI is `int *` */
	if (a.ts == T_PI) { a.ts = T_PTR; a.bs = T_INT; a.bq = 0; }
	if (b.ts == T_PI) { b.ts = T_PTR; b.bs = T_INT; b.bq = 0; }
	if (a.ts == T_PTR || b.ts == T_PTR)
		return a.ts == b.ts && a.bq == b.bq && spec_basecompat(a.bs, b.bs);     /* 6.7.6.1p2 */
	return spec_basecompat(a.ts, b.ts);
}

/* ASSUMED: folding is proved on eval.c itself (EVAL.*); operands here are not constants: eval(e) == e */
#ifndef POST_OWN_EVAL
struct expr *eval(struct expr *e) { return e; }
#endif

#endif
