/* UNIT
{
 "id": "EXPR.post.incdec",
 "file": "expr.c", "function": "postfixexpr",
 "properties": {"C01": "contract", "C05": "contract", "C19": "safety"},
 "mode": "harness",
 "replace_calls": {"mkincdecexpr": "rec_mkincdecexpr"}, "replay": false,
 "link_repo": ["type.c"],
 "unwind": 4,
 "variants": {"I": ["-DV_K0=TINC", "-DV_K1=TINC", "-DV_TWO=0"], "D": ["-DV_K0=TDEC", "-DV_K1=TINC", "-DV_TWO=0"], "ID": ["-DV_K0=TINC", "-DV_K1=TDEC", "-DV_TWO=1"], "DI": ["-DV_K0=TDEC", "-DV_K1=TINC", "-DV_TWO=1"]},
 "canary_variant": "ID",
 "kind": "proof-const-unwind",
 "timeout": 100,
 "expects": ["assertion_verif"],
 "assumes": ["token script: one or two postfix `++` / `--` operators, then `;`",
             "mkincdecexpr() is a recorder (operator, operand, post flag) returning a fresh node; EXPR.mkincdec proves the real one (6.5.2.4p1 constraints, result type)",
             "native replay impossible (mkincdecexpr redirected with --replace-calls)"]
}
*/
/*
 * C11 6.5.2.4: E++ / E-- : the result is the value of the operand; the operand is then incremented/decremented.
 * postfixexpr must hand exactly (operator written, the expression to its left, postfix) to mkincdecexpr, left to right
 * (6.5.2: postfix operators group left-to-right), and return the outermost node.
 */
#include "expr.c"
#include "verif.h"
#include "post_common.h"

static struct expr g_node[2];
static int g_n, g_op[2];
static struct expr *g_base[2];
static bool g_post[2];

struct expr *
rec_mkincdecexpr(enum tokenkind op, struct expr *base, bool post)
{
	int k = g_n++;

	__CPROVER_assert(k < 2, "no more operators applied than written");
	if (k == 0) { g_op[0] = op; g_base[0] = base; g_post[0] = post; return &g_node[0]; }
	g_op[1] = op; g_base[1] = base; g_post[1] = post;
	return &g_node[1];
}

void
harness(void)
{
	struct expr *l, *r;
	const bool in_two = V_TWO;      /* the script is fixed per variant */
	const int k0 = V_K0, k1 = V_K1;
	IN(bool, in_lv); IN(unsigned, in_q);

	__CPROVER_assume(in_q <= QUALMAX);
	l = mk_operand(&typeint, in_lv, in_q);
	g_n = 0;
	g_script[0].kind = k0; g_script[1].kind = in_two ? k1 : TSEMICOLON; g_script[2].kind = TSEMICOLON; g_script[3].kind = TEOF;
	g_script[4].kind = TEOF; g_script[5].kind = TEOF; g_script[6].kind = TEOF; g_script[7].kind = TEOF;
	g_script[8].kind = TEOF; g_script[9].kind = TEOF; g_script[10].kind = TEOF; g_script[11].kind = TEOF;
	script_start();
	g_no_error = 1;

	r = postfixexpr(0, l);

	__CPROVER_assert(g_n == (in_two ? 2 : 1), "one increment/decrement node per operator written");
	__CPROVER_assert(g_op[0] == k0 && g_base[0] == l && g_post[0], "6.5.2.4: the first operator applies, as a POSTFIX operator, to the expression on its left");
	__CPROVER_assert(!in_two || g_op[1] == k1 && g_base[1] == &g_node[0] && g_post[1], "6.5.2: postfix operators group left to right");
	__CPROVER_assert(r == (in_two ? &g_node[1] : &g_node[0]), "the outermost node is the result");
	__CPROVER_assert(tok.kind == TSEMICOLON && g_pos == (in_two ? 2u : 1u), "exactly the operators are consumed");
#ifdef VERIF_CANARY
	__CPROVER_assert(!(in_lv && in_q == QUALCONST), "CANARY");
#endif
}
