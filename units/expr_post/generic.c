/* UNIT
{
 "id": "EXPR.generic",
 "file": "expr.c", "function": "generic", "also_functions": ["delexpr", "typecompatible"],
 "properties": {"C05": "contract", "C10": "contract", "C19": "safety"},
 "mode": "harness",
 "replace_calls": {"assignexpr": "stub_assignexpr"}, "replay": false,
 "link_repo": ["type.c"], "stubs": ["base.c", "array_model.c"],
 "unwind": 5, "unwindset": ["typecompatible:3", "typecompatible.0:2", "delexpr:2", "arrayadd.0:2"],
 "variants": {"TT": ["-DV_SHAPE=G_TT"], "TD": ["-DV_SHAPE=G_TD"], "DT": ["-DV_SHAPE=G_DT"], "DD": ["-DV_SHAPE=G_DD"], "TTD": ["-DV_SHAPE=G_TTD"], "TTT": ["-DV_SHAPE=G_TTT"], "N": ["-DV_SHAPE=G_N"]},
 "canary_variant": "TTD",
 "cflags": ["-DCHECK_MAIN"],
 "kind": "bounded",
 "bound": "association lists: T,T  T,default  default,T  default,default  T,T,default  T,T,T  <non-type>,default",
 "timeout": 600,
 "expects": ["assertion_verif"],
 "assumes": ["typename() is a stand-in: the single token `int` is a type name whose type / qualifiers the harness chose from post_common.h's universe (incl. function and incomplete types, pointers to everything, qualified versions), anything else is not a type name; variably modified types are outside the universe",
             "assignexpr() is a stand-in consuming one token and returning heap-allocated opaque operands (the controlling expression has an arbitrary decayed type, lvalue-ness and qualifiers)",
             "the REAL type.c:typecompatible judges compatibility (TYPE.compat proves it against 6.2.7 on its own universe)",
             "native replay impossible (assignexpr redirected with --replace-calls)"]
}
*/
/* C11 6.5.1.1 generic selection: constraints and selection; see generic_common.h */
#include "generic_common.h"
