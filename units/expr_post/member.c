/* UNIT
{
 "id": "EXPR.post.member",
 "file": "expr.c", "function": "postfixexpr", "also_functions": ["mkbinaryexpr", "mkunaryexpr", "decay", "exprconvert", "mkexpr", "mkconstexpr"],
 "properties": {"C05": "contract", "C10": "contract", "C01": "contract", "C19": "safety"},
 "mode": "harness",
 "replace_calls": {"typemember": "stub_typemember"}, "replay": false,
 "link_repo": ["type.c"],
 "unwind": 3,
 "variants": {"DOT": ["-DV_OP=TPERIOD"], "ARROW": ["-DV_OP=TARROW"]},
 "canary_variant": "ARROW",
 "cflags": ["-DCHECK_MAIN"],
 "kind": "proof-const-unwind",
 "timeout": 200,
 "expects": ["assertion_verif"],
 "assumes": ["token script: operator, identifier, `;`; typemember() is a verdict stand-in (found with a member of arbitrary complete object type / qualifiers / offset / bit-field position, or not found); TYPE.member proves the real one",
             "the left operand is an opaque, already decayed expression whose type ranges over post_common.h's universe, lvalue or not, with arbitrary qualifiers",
             "native replay impossible (typemember is redirected with --replace-calls)"]
}
*/
/* all facts of C11 6.5.2.3 on E.m / E->m except the two isolated in member_bfqual.c and member_arrlv.c; see member_common.h */
#include "member_common.h"
