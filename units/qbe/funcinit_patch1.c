/* UNIT
{
 "id": "QBE.funcinit.patch1",
 "file": "qbe.c", "function": "funcinit", "also_functions": ["mkintconst"],
 "properties": {"C07": "contract", "C01": "contract", "C19": "safety"},
 "mode": "harness",
 "replace_calls": {"funcalloc": "rec_funcalloc", "zero": "rec_zero", "funcstore": "rec_funcstore", "funcexpr": "rec_funcexpr", "funcinst": "rec_funcinst"},
 "variants": {"n2": ["-DV_N=2", "-DV_STRMASK=1"]},
 "cflags": ["-DI_ALLOW_INSIDE", "-DI_REQUIRE_INSIDE"],
 "unwind": 6,
 "kind": "bounded", "bound": "a string initializer (<= 3 elements) followed by ONE scalar initializer that overrides one of its elements; everything else symbolic",
 "timeout": 200,
 "replay": false,
 "expects": ["assertion_verif", "unwind"],
 "assumes": ["callees by contract (recording stubs): funcalloc sets d->value (QBE.funcalloc); zero(addr, align, offset, end) zero-stores [offset, end) and possibly up to the next multiple of align after end, nothing else, nothing if offset >= end (QBE.zero); funcstore(t, lval, v) writes the t->size bytes at lval (read-modify-write of the storage unit for a bit-field lvalue); funcexpr(e) yields the value of e; funcinst(IADD, base, K) yields base + K",
             "list validity (what init.c:initadd maintains, INIT.initadd): sorted by start, pairwise bit-disjoint, except that a scalar initializer may lie inside an EARLIER string initializer (C11 6.7.9p19 override of single array elements); start < end <= size; size % align == 0; align in {1,2,4,8}"]
}
*/
#include "qbe.c"
#include "verif.h"
#include "funcinit_body.h"
