/* UNIT
{
 "id": "QBE.mkblock.first",
 "file": "qbe.c", "function": "mkblock",
 "properties": {"C03": "contract", "C19": "safety"},
 "mode": "harness",
 "kind": "proof",
 "timeout": 60,
 "expects": ["assertion_verif"],
 "assumes": ["base case of the induction whose step is QBE.mkblock: run from the initial static state (label counter 0); xmalloc does not fail"]
}
*/
#include "qbe.c"
#include "verif.h"

#define PRE(X) X(name != 0)
#define POST(X) \
	X(HRET != 0 && HRET->label.id == 1) \
	X(HRET->label.u.name == name) \
	CANARY(X, !(in_x == 3))

void
harness(void)
{
	static char n1[4];
	char *name = n1;
	IN(int, in_x);

	HCALLR(struct block *, PRE, POST, mkblock(name));
}
