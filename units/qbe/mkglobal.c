/* UNIT
{
 "id": "QBE.mkglobal",
 "file": "qbe.c", "function": "mkglobal",
 "properties": {"C09": "contract", "C03": "contract", "C19": "safety"},
 "mode": "harness", "cbmc_flags": ["--nondet-static"],
 "kind": "proof",
 "timeout": 60,
 "expects": ["assertion_verif"],
 "assumes": ["the id counter is mkglobal()'s function-local static, which a contract cannot name; DFCC allows only one top-level call of the function under contract, so this is a harness-mode unit (PRE assumed, POST asserted, no frame check) run with cbmc --nondet-static (every static, the counter included, starts with an arbitrary value): the harness calls mkglobal() twice in one symbolic run and binds the ghost g_prev to the id the first call handed out, so 'fresh id == previous id + 1' is checked for an ARBITRARY counter state",
             "induction step only: that the FIRST id handed out is 1 (counter starts at 0) is unit QBE.mkglobal.first", "g_prev < UINT_MAX (machine arithmetic: fewer than 2^32 - 1 local symbols; at UINT_MAX the id wraps to 0, which emitname prints as an ordinary external-style name)",
             "xmalloc does not fail"]
}
*/
#include "qbe.c"
#include "verif.h"
#include <limits.h>

/*
 * C11 6.2.2 / property C09.  emitname() prints a global as  $ [".L" if id != 0] name [ "." id if id != 0 ], so
 *   id == 0  : the symbol is spelt exactly `name`  -> identifiers with external or internal linkage (one entity per
 *              translation unit, 6.2.2p2) and assembler labels (used verbatim);
 *   id  > 0  : a local symbol `.Lname.id`          -> objects with NO linkage but static storage (block-scope statics,
 *              string literals, static compound literals, __func__): each declaration is a unique entity (6.2.2p2),
 *              so ids must be pairwise different and never 0.
 * "thread-local objects are marked as such": VALUE_THREAD iff object with thread storage duration.
 */
bool g_have_prev;      /* a previous call handed out id g_prev to a no-linkage declaration */
unsigned g_prev;
char *g_name, *g_asmname;
int g_linkage, g_kind;

#define NOLINK_LOCAL(d) ((d)->asmname == 0 && (d)->linkage == LINKNONE)
#define ISTHREAD(d)     ((d)->kind == DECLOBJECT && (d)->u.obj.storage == SDTHREAD)

#define PRE(X) \
	X(d != 0) \
	X(d->linkage == LINKNONE || d->linkage == LINKINTERN || d->linkage == LINKEXTERN) \
	X(d->kind >= DECLTYPE && d->kind <= DECLBUILTIN) \
	X(g_name == d->name && g_asmname == d->asmname) \
	X(IMP(g_have_prev, g_prev < UINT_MAX))

#define POST(X) \
	X(HRET != 0 && (HRET->kind & 0xf) == VALUE_GLOBAL) \
	/* thread flag iff object with thread storage duration; no other flag bits */ \
	X(IMP(ISTHREAD(d), HRET->kind == (VALUE_GLOBAL | VALUE_THREAD))) \
	X(IMP(!ISTHREAD(d), HRET->kind == VALUE_GLOBAL)) \
	/* assembler label: verbatim, never decorated */ \
	X(IMP(d->asmname != 0, HRET->u.name == g_asmname && HRET->id == 0)) \
	/* external / internal linkage: the identifier itself */ \
	X(IMP(d->asmname == 0, HRET->u.name == g_name)) \
	X(IMP(d->asmname == 0 && d->linkage != LINKNONE, HRET->id == 0)) \
	/* no linkage: fresh local id, the successor of the last one handed out, never 0 */ \
	X(IMP(NOLINK_LOCAL(d) && g_have_prev, HRET->id == g_prev + 1 && HRET->id > g_prev && HRET->id != 0)) \
	/* the declaration itself is not modified */ \
	X(d->name == g_name && d->asmname == g_asmname && (int)d->linkage == g_linkage && (int)d->kind == g_kind) \
	CANARY(X, !(g_have_prev && g_prev == 7 && d->linkage == LINKINTERN && d->asmname == 0))


void
harness(void)
{
	static struct decl probe, dd;
	static char nm[4], an[4];
	struct decl *d;
	struct value *first;
	IN(int, in_kind);
	IN(int, in_linkage);
	IN(int, in_storage);
	IN(bool, in_asm);

	/* first call: a block-scope static; whatever the counter was, it is first->id afterwards */
	probe.name = nm;
	probe.asmname = 0;
	probe.kind = DECLOBJECT;
	probe.linkage = LINKNONE;
	probe.u.obj.storage = SDSTATIC;
	g_have_prev = 0;
	d = &probe;
	g_name = d->name; g_asmname = d->asmname;
	first = mkglobal(d);
	__CPROVER_assume(first->id < UINT_MAX);

	/* second call: any declaration */
	__CPROVER_assume(in_kind >= DECLTYPE && in_kind <= DECLBUILTIN);
	__CPROVER_assume(in_linkage >= LINKNONE && in_linkage <= LINKEXTERN);
	__CPROVER_assume(in_storage >= SDSTATIC && in_storage <= SDAUTO);
	dd.name = nm;
	dd.asmname = in_asm ? &an[0] : (char *)0;
	dd.kind = in_kind;
	dd.linkage = in_linkage;
	dd.u.obj.storage = in_storage;
	d = &dd;
	g_name = d->name; g_asmname = d->asmname;
	g_linkage = d->linkage; g_kind = d->kind;
	g_prev = first->id;
	g_have_prev = 1;
	HCALLR(struct value *, PRE, POST, mkglobal(d));
}
