/* UNIT
{
 "id": "QBE.jump.once.jnz",
 "file": "qbe.c", "function": "funcjnz", "also_functions": ["convert", "funcinst", "mkinst", "functemp", "mkintconst", "mkfltconst"],
 "properties": {"C03": "contract", "C19": "safety"},
 "mode": "dfcc", "enforce": "funcjnz/funcjnz_contract",
 "stubs": ["base.c", "array_model.c"],
 "unwindset": ["arrayadd.0:2"],
 "kind": "proof-const-unwind",
 "timeout": 120,
 "expects": ["postcondition", "assigns", "unwind"],
 "assumes": ["t is NULL (casesearch) or any type object with PROPSCALAR set; kinds/sizes that convert() rejects end in fatal() (path ends)",
             "typeint/typebool/typeulong hold the values type.c gives them (DFCC nondet-initialises globals; the harness sets them, PRE states them)",
             "instruction array of the current block: empty or 256 <= cap <= 2^20, len % 8 == 0; f->lastid < UINT_MAX - 1",
             "the VALUE that jnz tests (non-zero iff the C scalar compares unequal to 0) is the business of the lowering unit QBE.funcjnz (C01), not of this one"]
}
*/
#include "qbe.c"
#include "verif.h"
#ifdef VERIF_REPLAY
#define __CPROVER_frees(...)
#endif
#include "jump_common.h"
extern int g_no_error;

struct type typeint, typebool, typeulong;   /* type.c is not linked: the harness fills them in as type.c does */
size_t g_cap0;

#define PTRSZ     (sizeof(void *))
#define LASTINST  (((struct inst **)g_b0->insts.val)[g_b0->insts.len / PTRSZ - 1])
/* funcjnz widens sub-int integers to int and compares 64-bit and floating values with 0 first (C01, QBE.funcjnz);
   a 32-bit integer (or no type at all: casesearch passes a 'w' comparison result) is tested as it is */
#define NOCONV    (t == 0 || !(((t->prop & PROPINT) && t->size < 4) || (t->prop & PROPFLOAT) || t->size > 4))
#define INT_AS_TYPE_C(T, K, N, S) ((T).kind == (K) && (T).size == (N) && (T).u.basic.issigned == (S) && \
                                   (T).prop == (PROPSCALAR|PROPARITH|PROPREAL|PROPINT))

/* consistency of a scalar type object as type.c / mktype / mkpointertype build them */
#define ISINTKIND(k) ((k) == TYPEBOOL || (k) == TYPECHAR || (k) == TYPESHORT || (k) == TYPEINT || (k) == TYPEENUM || (k) == TYPELONG || (k) == TYPELLONG)
#define ISFLTKIND(k) ((k) == TYPEFLOAT || (k) == TYPEDOUBLE || (k) == TYPELDOUBLE)
#define VALIDT(t) \
	(IMP(ISINTKIND((t)->kind), ((t)->prop & (PROPINT|PROPREAL|PROPFLOAT)) == (PROPINT|PROPREAL)) && \
	 IMP(ISFLTKIND((t)->kind), ((t)->prop & (PROPINT|PROPREAL|PROPFLOAT)) == (PROPFLOAT|PROPREAL)) && \
	 IMP(!ISINTKIND((t)->kind) && !ISFLTKIND((t)->kind), ((t)->prop & (PROPINT|PROPREAL|PROPFLOAT)) == 0) && \
	 IMP((t)->kind == TYPEPOINTER || (t)->kind == TYPENULLPTR, (t)->size == 8))

#define PRE(X) \
	JUMP_PRE(X) \
	X(IMP(t != 0, (t->prop & PROPSCALAR) != 0 && VALIDT(t))) \
	X(INT_AS_TYPE_C(typeint, TYPEINT, 4, 1) && INT_AS_TYPE_C(typebool, TYPEBOOL, 1, 0) && INT_AS_TYPE_C(typeulong, TYPELONG, 8, 0)) \
	X(g_cap0 == g_b0->insts.cap) \
	X((g_cap0 == 0 && g_len0 == 0 && g_b0->insts.val == 0) || \
	  (g_cap0 >= 256 && g_cap0 <= (1u << 20) && g_len0 <= g_cap0 && g_len0 % PTRSZ == 0 && g_b0->insts.val != 0)) \
	X(f->lastid < UINT_MAX - 1)

#define POST(X) \
	/* a terminated block keeps its terminator: kind, argument and both targets ... */ \
	X(IMP(g_jk0 != JUMP_NONE, (int)g_b0->jump.kind == g_jk0 && g_b0->jump.arg == g_jarg0 && g_b0->jump.blk[0] == g_jblk0 && g_b0->jump.blk[1] == g_jblk1)) \
	/* ... and receives no instruction */ \
	X(IMP(g_jk0 != JUMP_NONE, g_b0->insts.len == g_len0)) \
	/* the current block does not change: the jump lands on the block that was current */ \
	X(f->end == g_b0) \
	/* an open block is terminated by exactly `jnz <arg>, @l1, @l2` */ \
	X(IMP(g_jk0 == JUMP_NONE, g_b0->jump.kind == JUMP_JNZ && g_b0->jump.blk[0] == l1 && g_b0->jump.blk[1] == l2)) \
	/* the tested value is v itself, or a temporary DEFINED IN THIS BLOCK by the last instruction before the jump \
	   (C03: every temporary is defined before its use) */ \
	X(IMP(g_jk0 == JUMP_NONE && NOCONV, g_b0->jump.arg == v && g_b0->insts.len == g_len0)) \
	X(IMP(g_jk0 == JUMP_NONE && !NOCONV, g_b0->insts.len > g_len0 && g_b0->insts.len <= g_len0 + 2 * PTRSZ)) \
	X(IMP(g_jk0 == JUMP_NONE && !NOCONV, g_b0->jump.arg == &LASTINST->res && g_b0->jump.arg->kind == VALUE_TEMP)) \
	CANARY(X, !(g_jk0 == JUMP_NONE && t != 0 && t->size == 2 && g_len0 == 8))

static void funcjnz_contract(struct func *f, struct value *v, struct type *t, struct block *l1, struct block *l2)
REQUIRES(PRE)
__CPROVER_assigns(g_b0->jump.kind, g_b0->jump.arg, g_b0->jump.blk[0], g_b0->jump.blk[1], g_b0->insts, f->lastid)
__CPROVER_assigns(g_b0->insts.val != 0: __CPROVER_object_whole(g_b0->insts.val))
__CPROVER_frees(g_b0->insts.val)
ENSURES(POST);

static void
mkint(struct type *t, enum typekind k, unsigned size, bool sg)
{
	t->kind = k;
	t->prop = PROPSCALAR|PROPARITH|PROPREAL|PROPINT;
	t->size = size;
	t->align = size;
	t->u.basic.issigned = sg;
}

void
harness(void)
{
	static struct type tt;
	IN(int, in_jk);
	IN(size_t, in_len);
	IN(size_t, in_cap);
	IN(unsigned, in_lastid);
	IN(bool, in_hast);
	IN(int, in_kind);
	IN(int, in_prop);
	IN(u64, in_size);
	IN(bool, in_sg);
	struct func *f;
	struct value *v = &j_v;
	struct type *t = in_hast ? &tt : 0;
	struct block *l1 = &j_l1, *l2 = &j_l2;

	__CPROVER_assume(in_jk >= JUMP_NONE && in_jk <= JUMP_HLT);
	__CPROVER_assume(in_cap == 0 || (in_cap >= 256 && in_cap <= (1u << 20)));
	__CPROVER_assume(in_len <= in_cap && in_len % PTRSZ == 0);
	__CPROVER_assume(in_kind >= TYPEVOID && in_kind <= TYPENULLPTR);
	__CPROVER_assume(in_prop >= 0 && in_prop < 128);
	g_no_error = 0;
	mkint(&typeint, TYPEINT, 4, 1);
	mkint(&typebool, TYPEBOOL, 1, 0);
	mkint(&typeulong, TYPELONG, 8, 0);
	tt.kind = in_kind;
	tt.prop = in_prop;
	tt.size = in_size;
	tt.u.basic.issigned = in_sg;
	f = jump_build(in_jk, in_len, in_cap);
	f->lastid = in_lastid;
	g_cap0 = in_cap;
	CALL(PRE, POST, funcjnz(f, v, t, l1, l2));
}
