/*
 * Contract of qbe.c:zero(func, addr, align, offset, end), shared by QBE.zero (align 1..8) and QBE.zero.over8
 * (align >= 16): "emit zero stores into the automatic object at `addr` covering the byte range [offset, end)".
 *
 * Call sites (all in funcinit): zero(func, d->value, d->type->align, <bytes done so far>, <start of the next
 * initialiser | end of a bit-field storage unit | d->type->size>).  d->type->align is the alignment of a complete
 * object type: 1,2,4,8 for scalars, 16 for long double, and ANY power of two up to INT_MAX for a struct/union with an
 * _Alignas member (decl.c: declspecs TALIGNAS accepts i with !(i & i-1) && i <= INT_MAX; addmember raises
 * t->align to it).  offset > end happens (an initialiser that starts inside an earlier one): nothing to do then.
 *
 * funcinst() is replaced by the recording stub rec_funcinst() below: it checks each emitted instruction against
 * the QBE IL reference (spec/qbe_mem.h) and keeps the ghost summary `g`:
 *     g.pos      next byte not yet zeroed (stores must be contiguous: each store starts at g.pos)
 *     g.ok_*     one sticky flag per fact, so that a failed POST clause names the fact
 *     g.bcov     the arbitrary ghost byte g_b (universally quantified: ING) has been zero-stored
 */
#include "qbe_mem.h"
#ifndef ZCALL
#define ZCALL CALL
#endif

struct zghost {
	u64 pos;          /* bytes [g_off0, pos) have been zero-stored, contiguously, in increasing order      */
	u64 tmpoff;       /* byte offset the last `add addr, K` temporary points at                             */
	unsigned n;       /* number of instructions emitted (saturating at 2)                                   */
	bool have_tmp;    /* g_tmp currently holds addr + tmpoff                                                */
	bool ok_op;       /* every instruction is `add` or an integer store storeb/h/w/l                        */
	bool ok_add;      /* every add is  =l add addr, <intconst>                                              */
	struct value *vptr; /* value operand of the first store                                                   */
	bool ok_val;      /* every store stores one and the same operand object [QBE.zero.value: holding INTCONST 0] */
	bool ok_dst;      /* every store's address operand is addr (offset 0) or the temporary of the last add  */
	bool ok_contig;   /* every store starts where the previous one ended (first one at `offset`)            */
	bool ok_natural;  /* every store's size divides its byte offset (natural alignment of the access)       */
	bool ok_size;     /* every store's size is <= align (it may not assume more alignment than the object)  */
	bool bcov;        /* byte g_b was covered by some store                                                 */
};
struct zghost g;
/* enum constants are not visible to the loop-contract parser: name them through objects */
const int k_storeb = ISTOREB, k_storeh = ISTOREH, k_storew = ISTOREW, k_storel = ISTOREL;
u64 g_off0, g_end, g_b;          /* pre-state offset/end, arbitrary byte index */
int g_align;
struct value *g_addr;
struct func *g_func;
struct value g_tmp, g_none;      /* what the stub returns for an add / for a store */
struct value g_const;            /* the one integer constant alive at a time (see rec_mkintconst) */

/*
 * mkintconst() allocates; DFCC forbids dynamic allocation inside a loop that carries a loop contract
 * (__CPROVER_contracts_write_set_add_allocated "dynamic allocation is allowed" fails), so it is replaced by its
 * own postcondition: "returns an integer-constant value whose payload is n".  zero() needs at most one constant
 * alive at a time (the `add` operand is consumed by the very next funcinst call).
 */
struct value *
rec_mkintconst(unsigned long long n)
{
	g_const.kind = VALUE_INTCONST;
	g_const.u.i = n;
	return &g_const;
}

struct value *
rec_funcinst(struct func *f, int op, int class, struct value *arg0, struct value *arg1)
{
	unsigned sz;
	u64 at;

	if (g.n < 2)
		g.n++;
	if (f != g_func)
		g.ok_op = 0;
	if (op == IADD) {
		if (class != 'l' || arg0 != g_addr || arg1 == 0 || arg1->kind != VALUE_INTCONST)
			g.ok_add = 0;
		else {
			g.tmpoff = arg1->u.i;
			g.have_tmp = 1;
		}
		return &g_tmp;
	}
	sz = QBE_STORE_SIZE(op);
	if (sz == 0 || op == ISTORES || op == ISTORED) {
		g.ok_op = 0;
		return &g_none;
	}
	if (class != 0)
		g.ok_op = 0;
	/* value operand: one and the same object for every store (zero() does not write it: frame) ... */
	if (g.vptr == 0)
		g.vptr = arg0;
	if (arg0 == 0 || arg0 != g.vptr)
		g.ok_val = 0;
#ifdef Z_CHECK_VALUE
	/* ... which holds the integer constant 0.  The operand is zero()'s function-local `static struct value z`;
	   DFCC nondet-initialises function-local statics and a contract cannot name them, so the content is checked
	   only by the non-DFCC unit QBE.zero.value, where statics have their initialisers. */
	if (arg0 == 0 || arg0->kind != VALUE_INTCONST || arg0->u.i != 0)
		g.ok_val = 0;
#endif
	if (arg1 == g_addr)
		at = 0;
	else if (arg1 == &g_tmp && g.have_tmp)
		at = g.tmpoff;
	else {
		g.ok_dst = 0;
		return &g_none;
	}
	if (at != g.pos)
		g.ok_contig = 0;
	if ((at & (sz - 1)) != 0)
		g.ok_natural = 0;
	if (sz > (unsigned)g_align)
		g.ok_size = 0;
	if (at <= g_b && g_b - at < sz)
		g.bcov = 1;
	g.pos = at + sz;
	return &g_none;
}

#ifdef Z_END_MAX
#define Z_BOUND(X) X(end <= Z_END_MAX)    /* bounded stand-in (QBE.zero.value only) */
#else
#define Z_BOUND(X)
#endif
#define Z_ENDUP  SPEC_ALIGNUP(g_end, g_align)

#define PRE_ZERO(X) \
	X(func != 0 && func == g_func && addr != 0 && addr == g_addr) \
	X(align >= Z_ALIGN_MIN && align <= Z_ALIGN_MAX && SPEC_ISPOW2(align) && align == g_align) \
	/* machine arithmetic: object sizes are far below 2^62 (offset + 8 and ALIGNUP(end) must not wrap) */ \
	X(offset <= (1ull << 62) && end <= (1ull << 62)) \
	X(offset == g_off0 && end == g_end) \
	Z_BOUND(X) \
	X(g.pos == offset && g.n == 0 && !g.have_tmp && !g.bcov && g.vptr == 0) \
	X(g.ok_op && g.ok_add && g.ok_val && g.ok_dst && g.ok_contig && g.ok_natural && g.ok_size)

#define POST_ZERO(X) \
	/* C19/C03: only well-formed instructions: =l add addr, K  and  storeb/h/w/l 0, <addr | that temporary> */ \
	X(g.ok_op) \
	X(g.ok_add) \
	X(g.ok_dst) \
	/* C07: what is stored is zero */ \
	X(g.ok_val) \
	/* C07: the stores are contiguous and increasing, starting exactly at `offset` ... */ \
	X(g.ok_contig) \
	/* ... and reach `end`: every byte of [offset, end) is zeroed (ghost byte g_b stands for "every byte") */ \
	X(IMP(g_off0 < g_end, g.pos >= g_end)) \
	X(IMP(g_off0 <= g_b && g_b < g_end, g.bcov)) \
	/* C01: every access is naturally aligned and never wider than the object's alignment */ \
	X(g.ok_natural) \
	X(g.ok_size) \
	/* C01: nothing beyond the alignment boundary that follows `end` is written: with end <= size and \
	   size % align == 0 (complete object types) no store leaves the object; exactly `end` if end is aligned */ \
	X(IMP(g_off0 < g_end, g.pos <= Z_ENDUP)) \
	X(IMP(g_off0 < g_end && (g_end & ((u64)g_align - 1)) == 0, g.pos == g_end)) \
	/* nothing before `offset` is touched (bytes already member-stored by funcinit) */ \
	X(IMP(g_b < g_off0, !g.bcov)) \
	/* empty range: no instruction at all */ \
	X(IMP(g_off0 >= g_end, g.n == 0 && g.pos == g_off0)) \
	CANARY(X, !(g_align == Z_ALIGN_MIN && g_off0 == 3 && g_end == 9 && g_b == 7))

static void zero_contract(struct func *func, struct value *addr, int align, unsigned long long offset, unsigned long long end)
REQUIRES(PRE_ZERO)
__CPROVER_assigns(g, g_const)
ENSURES(POST_ZERO);

static void
zero_harness(void)
{
	static struct func fn;
	static struct value av;
	struct func *func = &fn;
	struct value *addr = &av;
	IN(int, align);
	IN(u64, offset);
	IN(u64, end);
	ING(u64, g_b);

	g_func = func; g_addr = addr; g_align = align; g_off0 = offset; g_end = end;
	g.pos = offset; g.tmpoff = 0; g.n = 0; g.have_tmp = 0; g.bcov = 0; g.vptr = 0;
	g.ok_op = g.ok_add = g.ok_val = g.ok_dst = g.ok_contig = g.ok_natural = g.ok_size = 1;
	ZCALL(PRE_ZERO, POST_ZERO, zero(func, addr, align, offset, end));
}
