/* UNIT
{
 "id": "QBE.funcinit",
 "file": "qbe.c", "function": "funcinit", "also_functions": ["mkintconst"],
 "properties": {"C07": "contract", "C01": "contract", "C19": "safety"},
 "mode": "harness",
 "replace_calls": {"funcalloc": "rec_funcalloc", "zero": "rec_zero", "funcstore": "rec_funcstore", "funcexpr": "rec_funcexpr", "funcinst": "rec_funcinst"},
 "variants": {"n0": ["-DV_N=0", "-DV_STRMASK=0"], "n1": ["-DV_N=1", "-DV_STRMASK=0"], "n1s": ["-DV_N=1", "-DV_STRMASK=1"], "n2": ["-DV_N=2", "-DV_STRMASK=0"], "n2s0": ["-DV_N=2", "-DV_STRMASK=1"], "n2s1": ["-DV_N=2", "-DV_STRMASK=2"]},
 "tiers": {"thorough": {"variants": {"n0": ["-DV_N=0", "-DV_STRMASK=0"], "n1": ["-DV_N=1", "-DV_STRMASK=0"], "n1s": ["-DV_N=1", "-DV_STRMASK=1"], "n2": ["-DV_N=2", "-DV_STRMASK=0"], "n2s0": ["-DV_N=2", "-DV_STRMASK=1"], "n2s1": ["-DV_N=2", "-DV_STRMASK=2"], "n2ss": ["-DV_N=2", "-DV_STRMASK=3"], "n3": ["-DV_N=3", "-DV_STRMASK=0"], "n3s0": ["-DV_N=3", "-DV_STRMASK=1"], "n3s1": ["-DV_N=3", "-DV_STRMASK=2"], "n3s2": ["-DV_N=3", "-DV_STRMASK=4"]}, "timeout": 900}},
 "unwind": 6,
 "kind": "bounded", "bound": "quick: initializer lists of <= 2 initializers (thorough: <= 3, at most one string among three); string initializers of <= 3 elements (width 1, 2 or 4); which initializers are strings is fixed per variant; offsets, sizes, bit-fields and the object size are symbolic",
 "timeout": 200,
 "replay": false,
 "expects": ["assertion_verif", "unwind"],
 "assumes": ["callees by contract (recording stubs): funcalloc sets d->value (QBE.funcalloc); zero(addr, align, offset, end) zero-stores [offset, end) and possibly up to the next multiple of align after end, nothing else, nothing if offset >= end (QBE.zero); funcstore(t, lval, v) writes the t->size bytes at lval (read-modify-write of the storage unit for a bit-field lvalue); funcexpr(e) yields the value of e; funcinst(IADD, base, K) yields base + K",
             "pairwise bit-disjoint lists only; an element override inside a string initializer: QBE.funcinit.patch1 / QBE.funcinit.override", "list validity (what init.c:initadd maintains, INIT.initadd): sorted by start, pairwise bit-disjoint, except that a scalar initializer may lie inside an EARLIER string initializer (C11 6.7.9p19 override of single array elements); start < end <= size; size % align == 0; align in {1,2,4,8}"]
}
*/
#include "qbe.c"
#include "verif.h"
#include "funcinit_body.h"
