/* UNIT
{
 "id": "QBE.mkfunc",
 "file": "qbe.c", "function": "mkfunc", "also_functions": ["functemp", "funclabel", "mkblock"],
 "properties": {"C08": "contract", "C01": "contract", "C03": "contract", "C19": "safety"},
 "mode": "harness",
 "replace_calls": {"emittype": "rec_emittype", "funcalloc": "rec_funcalloc", "funcstore": "rec_funcstore", "mkglobal": "rec_mkglobal"},
 "variants": {"n0": ["-DV_N=0"], "n1": ["-DV_N=1"], "n2": ["-DV_N=2"], "n3": ["-DV_N=3"]},
 "canary_variant": "n3",
 "unwind": 5, "unwindset": ["strlen.0:5"],
 "kind": "proof-const-unwind",
 "bound": "functions of 0..3 parameters, each independently scalar or aggregate, named or unnamed; function name of 3 characters",
 "timeout": 200, "replay": false,
 "assumes": ["emittype (QBE.emittype.desc.bnd), funcalloc (QBE.funcalloc), funcstore (QBE.funcstore.*) are recorders; mkarraytype/mkdecl/mkglobal/scopeputdecl/mapinit are recorders or minimal stand-ins (TYPE.mkarray, DECL.mkdecl, QBE.mkglobal, SCOPE.*, MAP.init); xmalloc/xreallocarray do not fail"]
}
*/
/*
 * Function entry (psABI as QBE implements it: `function $f(class %p1, ...)`): every parameter, named or not, is received in
 * a temporary of its own, in declaration order (C08: position = argument position); the types the header mentions are described
 * before (C03).  A NAMED scalar parameter is an object (C11 6.9.1p9: "each parameter has automatic storage duration; its
 * identifier is an lvalue"): storage is allocated and the received value stored into it, with the parameter's type, before the
 * body; a named aggregate parameter IS the object QBE passes by address (no copy); an unnamed parameter has no object.
 * 6.4.2.2: `__func__` is declared in the function's scope as static const char[strlen(name) + 1].
 */
#include "qbe.c"
#include "verif.h"

struct token tok;
const struct target *targ;
struct type typechar;

enum { EV_TYPE = 1, EV_ALLOC, EV_STORE };
#define NEV 16
static struct { int kind; void *a, *b, *c; } ev[NEV]; static unsigned nev;
static void log_(int k, void *a, void *b, void *c) { if (nev < NEV) { ev[nev].kind = k; ev[nev].a = a; ev[nev].b = b; ev[nev].c = c; } nev++; }
#define EVIS(i, k, A, B, C) ((i) < nev && ev[i].kind == (k) && ev[i].a == (void *)(A) && ev[i].b == (void *)(B) && ev[i].c == (void *)(C))

static struct value v_obj[3];
void rec_emittype(struct type *t) { log_(EV_TYPE, t, 0, 0); }
void rec_funcalloc(struct func *f, struct decl *d) { int i = d->name[0] - 'a'; log_(EV_ALLOC, d, 0, 0); d->value = &v_obj[i]; }
struct value *rec_funcstore(struct func *f, struct type *t, enum typequal tq, struct lvalue lv, struct value *v) { log_(EV_STORE, t, lv.addr, v); return v; }
static struct type t_name; static unsigned long long g_namelen; static struct decl d_func; static struct value v_glob; static int g_nput; static struct scope *g_puts;
struct type *mkarraytype(struct type *base, enum typequal q, unsigned long long len) { g_namelen = len; t_name.kind = TYPEARRAY; t_name.base = base; t_name.qual = q; t_name.size = len; return &t_name; }
struct decl *mkdecl(char *name, enum declkind k, struct type *t, enum typequal tq, enum linkage l) { d_func.name = name; d_func.kind = k; d_func.type = t; d_func.qual = tq; d_func.linkage = l; return &d_func; }
struct value *rec_mkglobal(struct decl *d) { return &v_glob; }
void scopeputdecl(struct scope *s, struct decl *d) { g_nput++; g_puts = s; }
void mapinit(struct map *h, size_t cap) { h->cap = cap; h->len = 0; }
void *xmalloc(size_t n) { void *p = malloc(n); __CPROVER_assume(p != 0); return p; }
static struct value tempbuf[4];
void *xreallocarray(void *b, size_t n, size_t m) { __CPROVER_assert(b == 0 && n <= 3 && m == sizeof(struct value), "one temporary per parameter"); return tempbuf; }

void
harness(void)
{
	static struct decl fdecl, par[3]; static struct type t_fn, t_ret, t_par[3]; static struct value v_agg[3]; static struct scope sc;
	static char fname[] = "fun", pn[3][2] = {"a", "b", "c"};
	IN(bool, in_named0); IN(bool, in_named1); IN(bool, in_named2); IN(bool, in_agg0); IN(bool, in_agg1); IN(bool, in_agg2);
	bool named[3] = {in_named0, in_named1, in_named2}, agg[3] = {in_agg0, in_agg1, in_agg2};
	struct func *f; unsigned i, e, n = V_N;

	t_ret.kind = TYPEINT; t_ret.size = 4;
	t_fn.kind = TYPEFUNC; t_fn.base = &t_ret; t_fn.u.func.nparam = n; t_fn.u.func.params = n ? &par[0] : (struct decl *)0; t_fn.u.func.isvararg = false;
	for (i = 0; i < 3; i++) {
		t_par[i].kind = agg[i] ? TYPESTRUCT : TYPEINT; t_par[i].size = agg[i] ? 24 : 4; t_par[i].align = 4; t_par[i].value = agg[i] ? &v_agg[i] : (struct value *)0;
		par[i].kind = DECLOBJECT; par[i].type = &t_par[i]; par[i].name = named[i] ? pn[i] : (char *)0; par[i].value = 0;
		par[i].next = i + 1 < n ? &par[i + 1] : (struct decl *)0;
	}
	nev = 0; g_nput = 0;

	f = mkfunc(&fdecl, fname, &t_fn, &sc);

	__CPROVER_assert(f->decl == &fdecl && f->name == fname && f->type == &t_fn && f->namedecl == &d_func, "the function record names its declaration, name and type");
	__CPROVER_assert(f->start != 0 && f->start->label.u.name[0] == 's' && f->start->next == f->end && f->end != f->start && f->end->label.u.name[0] == 'b' && f->end->next == 0, "two blocks so far: `start` (parameter set-up) and `body`, in this order");
	__CPROVER_assert(f->gotos.cap == 8 && f->gotos.len == 0, "an empty label table");
	__CPROVER_assert(EVIS(0, EV_TYPE, &t_ret, 0, 0), "the return type is described first");
	__CPROVER_assert(f->paramtemps == tempbuf && f->lastid == n, "one temporary per parameter and no other so far");
	e = 1;
	for (i = 0; i < 3; i++)
		if (i < n) {
			__CPROVER_assert(tempbuf[i].kind == VALUE_TEMP && tempbuf[i].id == i + 1, "parameter i is received in temporary i + 1: declaration order is argument order");
			__CPROVER_assert(EVIS(e, EV_TYPE, &t_par[i], 0, 0), "its type is described before the header can mention it");
			e++;
			if (named[i] && !agg[i]) {
				__CPROVER_assert(EVIS(e, EV_ALLOC, &par[i], 0, 0) && EVIS(e + 1, EV_STORE, &t_par[i], &v_obj[i], &tempbuf[i]), "a named scalar parameter gets storage and the received value is stored there with the parameter's type");
				__CPROVER_assert(par[i].value == &v_obj[i], "the parameter object is that storage");
				e += 2;
			} else if (named[i]) {
				__CPROVER_assert(par[i].value == &tempbuf[i], "a named aggregate parameter is the object passed by address: no copy");
			} else {
				__CPROVER_assert(par[i].value == 0, "an unnamed parameter has no object");
			}
		}
	__CPROVER_assert(nev == e, "nothing else is allocated, stored or described");
	__CPROVER_assert(g_nput == 1 && g_puts == &sc && d_func.name[2] == 'f' && d_func.kind == DECLOBJECT && d_func.linkage == LINKNONE && d_func.u.obj.storage == SDSTATIC && d_func.value == &v_glob, "6.4.2.2: __func__ is declared in the function's scope with static storage");
	__CPROVER_assert(g_namelen == 4 && t_name.base == &typechar && t_name.qual == QUALCONST, "as const char[strlen(name) + 1]");
#ifdef VERIF_CANARY
	__CPROVER_assert(!(in_named0 && !in_agg0 && in_named2 && in_agg2), "CANARY");
#endif
}
