/* UNIT
{
 "id": "QBE.calcvla",
 "file": "qbe.c", "function": "calcvla",
 "properties": {"C01": "contract", "C19": "safety"},
 "mode": "harness",
 "replace_calls": {"funcexpr": "rec_funcexpr", "convert": "rec_convert", "funcinst": "rec_funcinst", "mkintconst": "rec_mkintconst"},
 "variants": {"notvm": ["-DV_SHAPE=0"], "vla1": ["-DV_SHAPE=1"], "vla2": ["-DV_SHAPE=2"], "ptrvla": ["-DV_SHAPE=3"], "vla_of_const": ["-DV_SHAPE=4"]},
 "canary_variant": "vla2",
 "unwind": 5,
 "kind": "proof-const-unwind",
 "bound": "type shapes: a type that is not variably modified; int[n]; int[n][m]; pointer to int[n]; int[n][3] -- each with its run-time size already computed or not",
 "timeout": 120, "replay": false,
 "assumes": ["funcexpr (QBE.funcexpr.*), convert (QBE.convert.*), funcinst (QBE.funcinst), mkintconst are recorders"]
}
*/
/*
 * C11 6.7.6.2p5 / 6.5.3.4p2: the size of a variable length array is evaluated when its declaration (or type name) is reached:
 * size = number of elements, converted to the size type, times the size of the element, where the element may itself be a VLA
 * whose size must then have been computed BEFORE (inner first).  It is evaluated ONCE: the length expression has side effects
 * (`int a[n++]`), so a type whose size is known already (constant, or computed earlier) is not evaluated again.
 */
#include "qbe.c"
#include "verif.h"

struct token tok;
const struct target *targ;
struct type typeulong;

enum { EV_EXPR = 1, EV_CONV, EV_MUL, EV_CONST };
#define NEV 12
static struct { int kind; void *a, *b, *c; unsigned long long x; } ev[NEV]; static unsigned nev;
static void log_(int k, void *a, void *b, void *c, unsigned long long x) { if (nev < NEV) { ev[nev].kind = k; ev[nev].a = a; ev[nev].b = b; ev[nev].c = c; ev[nev].x = x; } nev++; }
#define EVIS(i, k, A, B, C) ((i) < nev && ev[i].kind == (k) && ev[i].a == (void *)(A) && ev[i].b == (void *)(B) && ev[i].c == (void *)(C))
static struct value v_expr[2], v_conv[2], v_mul[2], v_const; static unsigned n_expr, n_conv, n_mul;
struct value *rec_funcexpr(struct func *f, struct expr *e) { log_(EV_EXPR, e, 0, 0, 0); return &v_expr[n_expr++ & 1]; }
struct value *rec_convert(struct func *f, struct type *dst, struct type *src, struct value *l) { log_(EV_CONV, dst, src, l, 0); return &v_conv[n_conv++ & 1]; }
struct value *rec_funcinst(struct func *f, int op, int class, struct value *a, struct value *b) { log_(EV_MUL, a, b, 0, op * 256 + class); return &v_mul[n_mul++ & 1]; }
struct value *rec_mkintconst(unsigned long long n) { log_(EV_CONST, 0, 0, 0, n); return &v_const; }

void
harness(void)
{
	static struct func fn; static struct type t_int, t_in, t_out, t_ptr; static struct expr e_n, e_m; static struct type t_len;
	static struct value v_known;
	IN(bool, in_done_in); IN(bool, in_done_out);

	t_int.kind = TYPEINT; t_int.size = 4; t_int.prop = PROPSCALAR;
	t_len.kind = TYPEINT; t_len.size = 4;
	e_n.type = &t_len; e_m.type = &t_len;
	n_expr = n_conv = n_mul = nev = 0;
#if V_SHAPE == 0
	calcvla(&fn, &t_int);
	__CPROVER_assert(nev == 0, "a type that is not variably modified costs nothing at run time");
#elif V_SHAPE == 1
	/* int[n] */
	t_out.kind = TYPEARRAY; t_out.prop = PROPVM; t_out.base = &t_int; t_out.size = 0; t_out.u.array.length = &e_n; t_out.u.array.size = in_done_out ? &v_known : (struct value *)0;
	calcvla(&fn, &t_out);
	if (in_done_out)
		__CPROVER_assert(nev == 0 && t_out.u.array.size == &v_known, "a size computed earlier is not evaluated again (the length expression may have side effects)");
	else {
		__CPROVER_assert(nev == 4 && EVIS(0, EV_EXPR, &e_n, 0, 0) && EVIS(1, EV_CONV, &typeulong, &t_len, &v_expr[0]), "the length expression is evaluated once and converted from ITS type to the size type");
		__CPROVER_assert(ev[2].kind == EV_CONST && ev[2].x == 4 && EVIS(3, EV_MUL, &v_conv[0], &v_const, 0) && ev[3].x == IMUL * 256 + 'l', "size = length * sizeof(element), a 64-bit multiplication");
		__CPROVER_assert(t_out.u.array.size == &v_mul[0], "and is recorded in the type");
	}
#elif V_SHAPE == 2
	/* int[n][m]: t_out = array n of t_in, t_in = array m of int */
	t_in.kind = TYPEARRAY; t_in.prop = PROPVM; t_in.base = &t_int; t_in.size = 0; t_in.u.array.length = &e_m; t_in.u.array.size = in_done_in ? &v_known : (struct value *)0;
	t_out.kind = TYPEARRAY; t_out.prop = PROPVM; t_out.base = &t_in; t_out.size = 0; t_out.u.array.length = &e_n; t_out.u.array.size = 0;
	calcvla(&fn, &t_out);
	{
		unsigned b = in_done_in ? 0 : 4;
		struct value *insz = in_done_in ? &v_known : &v_mul[0];
		__CPROVER_assert(nev == b + 3, "inner size (unless known) and outer size, nothing else");
		if (!in_done_in)
			__CPROVER_assert(EVIS(0, EV_EXPR, &e_m, 0, 0) && EVIS(1, EV_CONV, &typeulong, &t_len, &v_expr[0]) && ev[2].kind == EV_CONST && ev[2].x == 4 && EVIS(3, EV_MUL, &v_conv[0], &v_const, 0), "the element array's size is computed FIRST: m * sizeof(int)");
		__CPROVER_assert(t_in.u.array.size == insz, "inner size recorded (or kept)");
		__CPROVER_assert(EVIS(b, EV_EXPR, &e_n, 0, 0) && ev[b + 1].kind == EV_CONV && ev[b + 1].a == &typeulong && ev[b + 1].b == &t_len && ev[b + 2].kind == EV_MUL && ev[b + 2].b == insz, "outer size = n (converted) * the run-time size of the element array");
		__CPROVER_assert(t_out.u.array.size != 0 && t_out.u.array.size != insz, "outer size recorded");
	}
#elif V_SHAPE == 3
	/* pointer to int[n] */
	t_in.kind = TYPEARRAY; t_in.prop = PROPVM; t_in.base = &t_int; t_in.size = 0; t_in.u.array.length = &e_n; t_in.u.array.size = in_done_in ? &v_known : (struct value *)0;
	t_ptr.kind = TYPEPOINTER; t_ptr.prop = PROPSCALAR | PROPVM; t_ptr.base = &t_in; t_ptr.size = 8;
	calcvla(&fn, &t_ptr);
	__CPROVER_assert(nev == (in_done_in ? 0u : 4u) && t_in.u.array.size == (in_done_in ? &v_known : &v_mul[0]), "a pointer to a VLA evaluates the VLA's size (once); the pointer itself has a constant size");
#else
	/* int[n][3]: the element has constant size 12 */
	t_in.kind = TYPEARRAY; t_in.prop = 0; t_in.base = &t_int; t_in.size = 12;
	t_out.kind = TYPEARRAY; t_out.prop = PROPVM; t_out.base = &t_in; t_out.size = 0; t_out.u.array.length = &e_n; t_out.u.array.size = 0;
	calcvla(&fn, &t_out);
	__CPROVER_assert(nev == 4 && EVIS(0, EV_EXPR, &e_n, 0, 0) && ev[2].kind == EV_CONST && ev[2].x == 12 && EVIS(3, EV_MUL, &v_conv[0], &v_const, 0) && t_out.u.array.size == &v_mul[0], "size = n * 12; the constant-size element is not evaluated");
#endif
#ifdef VERIF_CANARY
	__CPROVER_assert(in_done_in, "CANARY");
#endif
}
