/* UNIT
{
 "id": "QBE.zero",
 "file": "qbe.c", "function": "zero",
 "properties": {"C07": "contract", "C01": "contract", "C19": "safety"},
 "mode": "dfcc", "enforce": "zero/zero_contract", "post_macro": "POST_ZERO",
 "replace_calls": {"funcinst": "rec_funcinst", "mkintconst": "rec_mkintconst"},
 "loop_contracts": {"zero": [{"loop_id": "0",
     "assigns": "offset, a, tmp, g, g_const",
     "invariants": "store[1] == k_storeb && store[2] == k_storeh && store[4] == k_storew && store[8] == k_storel && a >= 1 && a <= align && (a & (a - 1)) == 0 && (offset & ((unsigned long long)a - 1)) == 0 && g.pos == offset && offset >= g_off0 && (g_off0 >= end ==> (offset == g_off0 && g.n == 0)) && (g_off0 < end ==> offset <= ((end + (unsigned long long)align - 1) & ~((unsigned long long)align - 1))) && g.ok_op && g.ok_add && g.ok_val && (g.vptr == 0 || g.vptr == &z) && g.ok_dst && g.ok_contig && g.ok_natural && g.ok_size && (g.bcov == (g_off0 <= g_b && g_b < offset))",
     "decreases": "((end + (unsigned long long)align - 1) & ~((unsigned long long)align - 1)) - offset, align - a",
     "symbol_map": "offset,zero::offset;end,zero::end;align,zero::align;a,zero::1::a;tmp,zero::1::tmp;store,zero::1::store;z,zero::1::z;k_storeb,k_storeb;k_storeh,k_storeh;k_storew,k_storew;k_storel,k_storel;g,g;g_const,g_const;g_off0,g_off0;g_b,g_b"}]},
 "loops_expected": {"zero": 1},
 "cflags": ["-DZ_ALIGN_MIN=1", "-DZ_ALIGN_MAX=8"],
 "kind": "proof",
 "timeout": 120,
 "replay": false,
 "expects": ["postcondition", "loop_invariant_step", "loop_decreases", "array_bounds"],
 "assumes": ["align in {1,2,4,8} (the alignments of scalar types and of aggregates without an _Alignas(>=16) member; larger alignments: unit QBE.zero.over8)",
             "offset, end <= 2^62 (64-bit offset arithmetic does not wrap)",
             "funcinst appends exactly the instruction it is given and returns its result temporary (units QBE.funcinst.dead, QBE.functemp); mkintconst(n) yields an integer constant of value n (replaced by that postcondition: DFCC forbids malloc inside a contracted loop)"]
}
*/
#include "qbe.c"
#include "verif.h"
#include "zero_contract.h"

void
harness(void)
{
	zero_harness();
}
