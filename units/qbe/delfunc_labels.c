/* UNIT
{
 "id": "QBE.delfunc.labels",
 "file": "qbe.c", "function": "delfunc", "also_functions": ["delgoto"],
 "properties": {"C10": "contract", "C03": "contract", "C19": "safety"},
 "mode": "harness",
 "unwind": 4,
 "kind": "proof-const-unwind",
 "bound": "a finished function with no blocks left to free and 0..2 labels in its label table, each defined or only named by goto",
 "timeout": 120, "replay": false,
 "assumes": ["mapfree() is a stand-in that calls the destructor once per live entry (MAP.free proves that of the real one); free() of the records is CBMC's"]
}
*/
/*
 * C11 6.8.6.1p1: "The identifier in a goto statement shall name a label located somewhere in the enclosing function."
 * funcgoto() records every label name met in a goto or a labelled statement (STMT.labelstmt*: `defined` is set exactly by the
 * labelled statement).  When the function is finished, a label that is still only named must be diagnosed: otherwise the IL
 * contains a jump to a block that does not exist (C03).
 */
#include "qbe.c"
#include "verif.h"

struct token tok;
const struct target *targ;
extern int g_no_error;
static struct gotolabel *g_ent[2]; static unsigned g_nent; static int g_ndtor;
void mapfree(struct map *h, void del(void *)) { unsigned i; for (i = 0; i < 2; i++) if (i < g_nent) { g_ndtor++; del(g_ent[i]); } }

void
harness(void)
{
	static struct block b0, b1; static char n0[] = "a", n1[] = "b";
	struct func *f = malloc(sizeof(*f));
	IN(unsigned, in_n); IN(bool, in_d0); IN(bool, in_d1);
	bool alldef;

	__CPROVER_assume(f != 0 && in_n <= 2);
	f->start = 0;
	g_ent[0] = malloc(sizeof(struct gotolabel)); g_ent[1] = malloc(sizeof(struct gotolabel));
	__CPROVER_assume(g_ent[0] != 0 && g_ent[1] != 0);
	b0.label.kind = VALUE_LABEL; b0.label.u.name = n0; b1.label.kind = VALUE_LABEL; b1.label.u.name = n1;
	g_ent[0]->label = &b0; g_ent[0]->defined = in_d0; g_ent[1]->label = &b1; g_ent[1]->defined = in_d1;
	g_nent = in_n; g_ndtor = 0;
	alldef = (in_n < 1 || in_d0) && (in_n < 2 || in_d1);
	g_no_error = alldef;

	delfunc(f);

	__CPROVER_assert(alldef, "C11 6.8.6.1p1: a label that is named by goto but defined nowhere in the function is diagnosed");
	__CPROVER_assert(g_ndtor == (int)in_n, "every label record is released once");
#ifdef VERIF_CANARY
	__CPROVER_assert(!(in_n == 2), "CANARY");
#endif
}
