/* UNIT
{
 "id": "QBE.zero.value",
 "file": "qbe.c", "function": "zero",
 "properties": {"C07": "contract", "C19": "safety"},
 "mode": "harness",
 "replace_calls": {"funcinst": "rec_funcinst", "mkintconst": "rec_mkintconst"},
 "cflags": ["-DZ_ALIGN_MIN=1", "-DZ_ALIGN_MAX=8", "-DZ_CHECK_VALUE", "-DZCALL=HCALL", "-DZ_END_MAX=12"],
 "unwind": 17,
 "kind": "bounded", "bound": "end <= 12, align in {1,2,4,8} (loop fully unwound; unwinding assertions on)",
 "timeout": 120,
 "replay": false,
 "expects": ["assertion_verif", "unwind", "array_bounds"],
 "assumes": ["complements QBE.zero: there every store is shown to use one and the same, unmodified value operand; here (no DFCC, so function-local statics keep their initialisers) that operand is shown to be the integer constant 0.  The operand object is zero()'s private `static struct value z`; no code in qbe.c writes through an instruction operand pointer",
             "funcinst / mkintconst as in QBE.zero"]
}
*/
#include "qbe.c"
#include "verif.h"
#include "zero_contract.h"

void
harness(void)
{
	zero_harness();
}
