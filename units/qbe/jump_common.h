/*
 * Shared by the four QBE.jump.once.* units (funcjmp, funcjnz, funcret, funchlt).
 *
 * QBE IL reference, "Blocks"/"Jumps": a block ends with exactly ONE jump (jmp, jnz, ret, hlt).  The builder stores the
 * jump of the current block f->end in b->jump; C code after `return`/`break`/`goto` (and the implicit jump emitted at
 * a label) makes stmt.c call the jump builders on a block that is already terminated.  The first jump must win:
 * the later one is unreachable code.  Contract of every jump builder:
 *     old(jump.kind) != JUMP_NONE  ==>  the block (jump AND instruction array) and f->end are unchanged
 *     old(jump.kind) == JUMP_NONE  ==>  the jump is exactly the requested one, on the block that was current
 */
#include <limits.h>

struct func *g_f;
struct block *g_b0;             /* f->end before the call */
int g_jk0;                      /* its jump.kind          */
struct value *g_jarg0;
struct block *g_jblk0, *g_jblk1;
size_t g_len0;

#define JUMP_PRE(X) \
	X(f != 0 && f == g_f && f->end != 0 && f->end == g_b0) \
	X(g_b0->jump.kind >= JUMP_NONE && g_b0->jump.kind <= JUMP_HLT && g_jk0 == (int)g_b0->jump.kind) \
	X(g_jarg0 == g_b0->jump.arg && g_jblk0 == g_b0->jump.blk[0] && g_jblk1 == g_b0->jump.blk[1]) \
	X(g_len0 == g_b0->insts.len)

/* POST of every unit starts with the same three clauses (written out in each unit so that the runner can label them) */

static struct func j_fn;
static struct block j_b0, j_t0, j_t1, j_l1, j_l2;
static struct value j_ja, j_v;

/* build f with current block b0 from scalars; instruction array: empty or cap 256 with len bytes used */
static struct func *
jump_build(int jk, size_t len, size_t cap)
{
	j_b0.label.kind = VALUE_LABEL;
	j_b0.insts.cap = cap;
	j_b0.insts.len = len;
	j_b0.insts.val = 0;
	if (cap) {
		j_b0.insts.val = malloc(cap);
		__CPROVER_assume(j_b0.insts.val != 0);
	}
	j_b0.jump.kind = jk;
	j_b0.jump.arg = &j_ja;
	j_b0.jump.blk[0] = &j_t0;
	j_b0.jump.blk[1] = &j_t1;
	j_b0.next = 0;
	j_fn.start = &j_b0;
	j_fn.end = &j_b0;
	g_f = &j_fn; g_b0 = &j_b0; g_jk0 = jk;
	g_jarg0 = j_b0.jump.arg; g_jblk0 = j_b0.jump.blk[0]; g_jblk1 = j_b0.jump.blk[1];
	g_len0 = len;
	return &j_fn;
}
