/* UNIT
{
 "id": "QBE.functemp",
 "file": "qbe.c", "function": "functemp",
 "properties": {"C03": "contract", "C19": "safety"},
 "mode": "dfcc", "enforce": "functemp/functemp_contract",
 "kind": "proof",
 "timeout": 60,
 "expects": ["postcondition", "assigns"],
 "assumes": ["f->lastid < UINT_MAX (machine arithmetic: fewer than 2^32 - 1 temporaries in one function; at UINT_MAX the counter wraps to 0 and names repeat)"]
}
*/
#include "qbe.c"
#include "verif.h"
#include <limits.h>

/*
 * C03 "every temporary is defined exactly once": all function-local temporaries are named %.<id> (emitname: sigil,
 * optional name, '.', id -- the id suffix is printed only when id != 0) and every id comes from this function.
 * So: the id handed out is old(lastid)+1, it is never 0, and lastid strictly increases => no two calls on the same
 * function return the same name.
 */
unsigned g_lastid0;

#define PRE(X) \
	X(f != 0 && v != 0) \
	X(f->lastid < UINT_MAX && g_lastid0 == f->lastid)

#define POST(X) \
	X(v->kind == VALUE_TEMP) \
	X(v->u.name == 0) \
	X(v->id == g_lastid0 + 1) \
	X(v->id != 0) \
	X(f->lastid == v->id && f->lastid > g_lastid0) \
	CANARY(X, !(g_lastid0 == 41))

static void functemp_contract(struct func *f, struct value *v)
REQUIRES(PRE)
__CPROVER_assigns(f->lastid, v->kind, v->u, v->id)
ENSURES(POST);

void
harness(void)
{
	static struct func fn;
	static struct value val;
	struct func *f = &fn;
	struct value *v = &val;
	IN(unsigned, in_lastid);
	IN(int, in_kind);
	IN(unsigned, in_id);

	fn.lastid = in_lastid;
	val.kind = in_kind;
	val.id = in_id;
	g_lastid0 = in_lastid;
	CALL(PRE, POST, functemp(f, v));
}
