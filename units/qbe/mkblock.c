/* UNIT
{
 "id": "QBE.mkblock",
 "file": "qbe.c", "function": "mkblock",
 "properties": {"C03": "contract", "C19": "safety"},
 "mode": "harness", "cbmc_flags": ["--nondet-static"],
 "kind": "proof",
 "timeout": 60,
 "expects": ["assertion_verif"],
 "assumes": ["the label counter is mkblock()'s function-local static: a contract cannot name it and DFCC allows one top-level call only, so this is a harness-mode unit run with cbmc --nondet-static (arbitrary counter); mkblock() is called twice in one symbolic run and the ghost g_prev is bound to the id of the first block: induction step 'next id == previous id + 1'.  Base case (first id is 1): QBE.mkblock.first",
             "g_prev < UINT_MAX (machine arithmetic: fewer than 2^32 - 1 blocks per translation unit)",
             "xmalloc does not fail"]
}
*/
#include "qbe.c"
#include "verif.h"
#include <limits.h>

/*
 * QBE IL: block labels must be unique within a function; jumps and phis name blocks by label.  emitname() prints a
 * label as @name.id (the ".id" only when id != 0); cproc reuses the same name ("body", "dead", "cond_true", user goto
 * labels ...) many times, so uniqueness rests on the id alone: strictly increasing, never 0.
 * A fresh block is open (no jump), has no phi and no instructions, and is not linked anywhere.
 */
unsigned g_prev;
char *g_name;

#define PRE(X) \
	X(g_prev < UINT_MAX && g_name == name)
#define POST(X) \
	X(HRET != 0 && HRET != g_first) \
	X(HRET->label.kind == VALUE_LABEL && HRET->label.u.name == g_name) \
	X(HRET->label.id == g_prev + 1 && HRET->label.id > g_prev && HRET->label.id != 0) \
	X(HRET->jump.kind == JUMP_NONE) \
	X(HRET->phi.res.kind == VALUE_NONE) \
	X(HRET->insts.val == 0 && HRET->insts.len == 0 && HRET->insts.cap == 0) \
	X(HRET->next == 0) \
	/* the block made before is not disturbed */ \
	X(g_first->label.id == g_prev && g_first->jump.kind == JUMP_NONE) \
	CANARY(X, !(g_prev == 41))

struct block *g_first;

void
harness(void)
{
	static char n1[4], n2[4];
	IN(bool, in_same);
	char *name;

	g_first = mkblock(n1);
	__CPROVER_assume(g_first->label.id < UINT_MAX);
	g_prev = g_first->label.id;
	name = in_same ? n1 : n2;
	g_name = name;
	HCALLR(struct block *, PRE, POST, mkblock(name));
}
