/* contract, recording stubs and harness shared by QBE.funcinit, QBE.funcinit.patch1 and QBE.funcinit.override */
#include "qbe_mem.h"

/*
 * C07 "an automatic object given the same initialiser holds the same member values at run time"; C11 6.7.9p19:
 * "each initializer provided for a particular subobject overriding any previously listed initializer for the same
 * subobject; all subobjects that are not initialized explicitly shall be initialized implicitly the same as objects
 * that have static storage duration" (= zero, 6.7.9p10; padding bits of an object with an initializer list included,
 * p10 via p21).
 *
 * Stated for ONE arbitrary bit of the object, g_bit (universally quantified ghost, ING): after funcinit()
 *   - if no initializer covers g_bit, the last thing written to it is a zero store;
 *   - otherwise the last thing written to it is the member store of the LAST initializer in list order covering it;
 *   - no zero store ever hits a bit after a member store did (that would destroy the member);
 *   - a bit-field (read-modify-write) store only happens on storage that has been written before;
 *   - nothing at or beyond d->type->size is written.
 * The recording stubs keep exactly that much state about g_bit.
 */
#define NI 3
#define ND 4                    /* elements in each string data buffer */
#ifndef NS
#define NS 3                    /* bound on the number of string elements */
#endif
#ifndef I_SIZE_MAX
#define I_SIZE_MAX (1ull << 40)
#endif
enum { ST_UNINIT, ST_ZERO, ST_MEMBER };

struct ighost {
	int st;                     /* what the last write to g_bit was                                             */
	u64 lw_off, lw_size;        /* last member store covering g_bit: byte offset, size                          */
	struct type *lw_t;          /*   its type                                                                    */
	struct value *lw_v;         /*   the value stored                                                            */
	int lw_before, lw_after;    /*   bit-field position within the unit (0,0: plain store)                       */
	u64 at_off;                 /* offset denoted by the address temporary g_at                                  */
	bool have_at;
	unsigned n_alloc, n_ev;     /* funcalloc calls; zero/store/add/expr events                                   */
	bool ok_first;              /* funcalloc came before every other event                                      */
	bool ok_addr;               /* every store/zero goes through d->value or `add d->value, K`                  */
	bool ok_zarg;               /* zero() is given d->type->align                                                */
	bool ok_inrange;            /* nothing written at or beyond size                                             */
	bool ok_nozam;              /* no zero store on a bit after a member store on it                             */
	bool ok_rmw;                /* no bit-field store on never-written storage                                   */
	bool ok_tq;                 /* stores are unqualified (initialisation of a const object is not an assignment) */
};
struct ighost h;

/* the (bounded) initializer list, built by the harness */
struct init g_in[NI];
struct expr g_ex[NI];
struct type g_ty[NI], g_tb[NI];
uint_least32_t g_data[NI][ND];
struct value g_ev[NI];          /* value of g_ex[i] as returned by the funcexpr stub */
struct value g_objv, g_at, g_none;
int g_n;                        /* number of initializers */
u64 g_size, g_bit;
int g_align;
int g_kstar;                    /* index of the last initializer covering g_bit, -1 if none */
struct func *g_func;
struct decl *g_d;
bool g_hasinit;

#define ISSTR(i)     (g_ex[i].kind == EXPRSTRING)
#define W(i)         (g_tb[i].size)                                     /* string element width: 1, 2 or 4 */
#define WL(i)        (W(i) == 4 ? 2 : W(i) == 2 ? 1 : 0)                /* its log2: divisions by W are written as shifts (SAT cost) */
#define NEL(i)       ((g_in[i].end - g_in[i].start) >> WL(i))           /* elements of the array the string initialises */
#define NSTORED(i)   (NEL(i) < g_ex[i].u.string.size ? NEL(i) : g_ex[i].u.string.size)
#define SBIT(i)      (g_in[i].start * 8 + (u64)g_in[i].bits.before)      /* first bit initialised by i */
#define EBIT(i)      (ISSTR(i) ? (g_in[i].start + (NSTORED(i) << WL(i))) * 8 : g_in[i].end * 8 - (u64)g_in[i].bits.after)   /* one past the last */
#define COVERS(i, b) (SBIT(i) <= (b) && (b) < EBIT(i))
#define RBIT(i)      (g_in[i].end * 8 - (u64)g_in[i].bits.after)        /* range end as initadd sees it */

/* validity of initializer i, and of the pair i < j */
#define VALID1(i) \
	(g_in[i].start < g_in[i].end && g_in[i].end <= g_size && g_in[i].expr == &g_ex[i] && g_ex[i].type == &g_ty[i] && \
	 g_in[i].bits.before >= 0 && g_in[i].bits.after >= 0 && \
	 (ISSTR(i) ? (g_in[i].bits.before == 0 && g_in[i].bits.after == 0 && g_ty[i].kind == TYPEARRAY && g_ty[i].base == &g_tb[i] && \
	              (W(i) == 1 || W(i) == 2 || W(i) == 4) && ((g_in[i].end - g_in[i].start) & (W(i) - 1)) == 0 && \
	              g_ex[i].u.string.size >= 1 && g_ex[i].u.string.size <= NS && g_ex[i].u.string.data == (void *)g_data[i]) \
	            : (g_ty[i].size == g_in[i].end - g_in[i].start && g_ty[i].kind == TYPEINT && \
	               IMP(g_in[i].bits.before != 0 || g_in[i].bits.after != 0, \
	                   (g_ty[i].size == 1 || g_ty[i].size == 2 || g_ty[i].size == 4 || g_ty[i].size == 8) && \
	                   (u64)g_in[i].bits.before + (u64)g_in[i].bits.after < 8 * g_ty[i].size))))
#define INSIDE_STRING(i, j) \
	(ISSTR(i) && !ISSTR(j) && g_in[j].bits.before == 0 && g_in[j].bits.after == 0 && g_in[j].start >= g_in[i].start && \
	 g_in[j].end <= g_in[i].end && g_in[j].end - g_in[j].start == W(i) && ((g_in[j].start - g_in[i].start) & (W(i) - 1)) == 0)
#ifdef I_ALLOW_INSIDE
#define VALID2(i, j) \
	(g_in[i].start <= g_in[j].start && (RBIT(i) <= SBIT(j) || INSIDE_STRING(i, j)))
#else        /* QBE.funcinit proper: pairwise disjoint; element overrides inside a string: QBE.funcinit.override */
#define VALID2(i, j) \
	(g_in[i].start <= g_in[j].start && RBIT(i) <= SBIT(j))
#endif

#ifdef I_REQUIRE_INSIDE      /* the units about element overrides: initializer 1 really lies inside string 0 */
#define I_INSIDE_PRE(X) X(g_n >= 2 && INSIDE_STRING(0, 1))
#else
#define I_INSIDE_PRE(X)
#endif

#define PRE(X) \
	X(func != 0 && func == g_func && d != 0 && d == g_d && d->type != 0 && hasinit == g_hasinit) \
	X(d->type->size == g_size && g_size >= 1 && g_size <= I_SIZE_MAX && d->type->align == g_align) \
	X((g_align == 1 || g_align == 2 || g_align == 4 || g_align == 8) && (g_size & ((u64)g_align - 1)) == 0) \
	X(g_n >= 0 && g_n <= NI && init == (g_n > 0 ? &g_in[0] : (struct init *)0)) \
	X(IMP(g_n > 0, g_in[0].next == (g_n > 1 ? &g_in[1] : (struct init *)0) && VALID1(0))) \
	X(IMP(g_n > 1, g_in[1].next == (g_n > 2 ? &g_in[2] : (struct init *)0) && VALID1(1) && VALID2(0, 1))) \
	X(IMP(g_n > 2, g_in[2].next == (struct init *)0 && VALID1(2) && VALID2(0, 2) && VALID2(1, 2))) \
	I_INSIDE_PRE(X) \
	X(g_bit < 8 * g_size) \
	X(g_kstar == (g_n > 2 && COVERS(2, g_bit) ? 2 : g_n > 1 && COVERS(1, g_bit) ? 1 : g_n > 0 && COVERS(0, g_bit) ? 0 : -1)) \
	X(h.st == ST_UNINIT && h.n_alloc == 0 && h.n_ev == 0 && !h.have_at) \
	X(h.ok_first && h.ok_addr && h.ok_zarg && h.ok_inrange && h.ok_nozam && h.ok_rmw && h.ok_tq)

#define KS           g_kstar
#define KELEM        (((g_bit >> 3) - g_in[KS].start) >> WL(KS))              /* string element holding g_bit */
#define KCHAR        (W(KS) == 1 ? ((unsigned char *)g_data[KS])[KELEM] : W(KS) == 2 ? ((uint_least16_t *)g_data[KS])[KELEM] : g_data[KS][KELEM])

#define POST(X) \
	/* the object is allocated exactly once, before anything is stored */ \
	X(h.n_alloc == 1 && h.ok_first) \
	X(IMP(!g_hasinit, h.n_ev == 0)) \
	/* all stores go to the object, inside it */ \
	X(h.ok_addr) \
	X(h.ok_zarg && h.ok_tq) \
	X(h.ok_inrange) \
	/* a zero store never destroys a member that was stored before it */ \
	X(h.ok_nozam) \
	/* a bit-field is inserted into storage that has been written before */ \
	X(h.ok_rmw) \
	/* 6.7.9p19/p21: a bit no initializer covers ends up zero-stored */ \
	X(IMP(g_hasinit && KS < 0, h.st == ST_ZERO)) \
	/* a covered bit ends up written by the member store of the LAST initializer covering it: */ \
	X(IMP(g_hasinit && KS >= 0, h.st == ST_MEMBER)) \
	/*   scalar/aggregate initializer: the value of its expression, with its type, at its offset and bit position */ \
	X(IMP(g_hasinit && KS >= 0 && !ISSTR(KS), h.lw_off == g_in[KS].start && h.lw_t == &g_ty[KS] && h.lw_v == &g_ev[KS])) \
	X(IMP(g_hasinit && KS >= 0 && !ISSTR(KS), h.lw_before == g_in[KS].bits.before && h.lw_after == g_in[KS].bits.after)) \
	/*   string initializer: element i of the literal, as an element-sized constant store at start + i*w */ \
	X(IMP(g_hasinit && KS >= 0 && ISSTR(KS), h.lw_off == g_in[KS].start + (KELEM << WL(KS)) && h.lw_t == &g_tb[KS] && h.lw_before == 0 && h.lw_after == 0)) \
	X(IMP(g_hasinit && KS >= 0 && ISSTR(KS), h.lw_v != 0 && h.lw_v->kind == VALUE_INTCONST && h.lw_v->u.i == KCHAR)) \
	CANARY(X, !(g_n == V_N && KS == (V_N > 1 ? 1 : V_N - 1) && g_hasinit))

void funcinit_contract(struct func *func, struct decl *d, struct init *init, bool hasinit)
REQUIRES(PRE)
__CPROVER_assigns(h, d->value, g_ev)
ENSURES(POST);

/* ------------------------------------------------------------------------------------------ recording stubs */

static void
ev(void)
{
	if (h.n_alloc != 1)
		h.ok_first = 0;
	if (h.n_ev < 1000)
		h.n_ev++;
}

void
rec_funcalloc(struct func *f, struct decl *d)
{
	if (h.n_ev != 0 || f != g_func || d != g_d)
		h.ok_first = 0;
	h.n_alloc++;
	d->value = &g_objv;
}

/* byte offset denoted by an address operand; sets ok_addr = 0 if it is not an address into the object */
static u64
addr_off(struct value *a)
{
	if (a == &g_objv)
		return 0;
	if (a == &g_at && h.have_at)
		return h.at_off;
	h.ok_addr = 0;
	return 0;
}

struct value *
rec_funcinst(struct func *f, int op, int class, struct value *arg0, struct value *arg1)
{
	ev();
	if (f != g_func || op != IADD || class != 'l' || arg0 != &g_objv || arg1 == 0 || arg1->kind != VALUE_INTCONST) {
		h.ok_addr = 0;
		h.have_at = 0;
		return &g_none;
	}
	h.at_off = arg1->u.i;
	h.have_at = 1;
	return &g_at;
}

struct value *
rec_funcexpr(struct func *f, struct expr *e)
{
	ev();
	if (e == &g_ex[0]) return &g_ev[0];
	if (e == &g_ex[1]) return &g_ev[1];
	if (e == &g_ex[2]) return &g_ev[2];
	return &g_none;
}

/* contract of zero(), see QBE.zero: definitely [offset, end), possibly up to the alignment boundary after end */
void
rec_zero(struct func *func, struct value *addr, int align, unsigned long long offset, unsigned long long end)
{
	u64 endup;

	ev();
	if (func != g_func || addr != &g_objv)
		h.ok_addr = 0;
	if (align != g_align)
		h.ok_zarg = 0;
	if (offset >= end)
		return;
	endup = SPEC_ALIGNUP(end, g_align);
	if (endup > g_size)
		h.ok_inrange = 0;
	if (offset * 8 <= g_bit && g_bit < endup * 8) {
		if (h.st == ST_MEMBER)
			h.ok_nozam = 0;
		if (g_bit < end * 8)
			h.st = ST_ZERO;
	}
}

struct value *
rec_funcstore(struct func *f, struct type *t, enum typequal tq, struct lvalue lval, struct value *v)
{
	u64 off, sz, lo, hi;
	bool isbf = lval.bits.before != 0 || lval.bits.after != 0;

	ev();
	if (f != g_func)
		h.ok_addr = 0;
	if (tq != QUALNONE)
		h.ok_tq = 0;
	off = addr_off(lval.addr);
	sz = t->size;
	if (off + sz > g_size)
		h.ok_inrange = 0;
	if (isbf) {
		/* read-modify-write of the whole unit: every bit of it must have been written before */
		if (off * 8 <= g_bit && g_bit < (off + sz) * 8 && h.st == ST_UNINIT)
			h.ok_rmw = 0;
		lo = off * 8 + (u64)lval.bits.before;
		hi = (off + sz) * 8 - (u64)lval.bits.after;
	} else {
		lo = off * 8;
		hi = (off + sz) * 8;
	}
	if (lo <= g_bit && g_bit < hi) {
		h.st = ST_MEMBER;
		h.lw_off = off;
		h.lw_size = sz;
		h.lw_t = t;
		h.lw_v = v;
		h.lw_before = lval.bits.before;
		h.lw_after = lval.bits.after;
	}
	return v;
}

/* ------------------------------------------------------------------------------------------------ harness */

static void
mkinit_i(int i, u64 start, u64 end, int before, int after, bool isstr, unsigned w, unsigned nchars, u64 data)
{
	g_in[i].start = start;
	g_in[i].end = end;
	g_in[i].bits.before = before;
	g_in[i].bits.after = after;
	g_in[i].expr = &g_ex[i];
	g_in[i].next = 0;
	g_ex[i].type = &g_ty[i];
	g_ev[i].kind = VALUE_TEMP;
	if (isstr) {
		g_ex[i].kind = EXPRSTRING;
		g_ex[i].u.string.size = nchars;
		g_ex[i].u.string.data = g_data[i];
		g_data[i][0] = (uint_least32_t)data;                 /* arbitrary, overlapping bit patterns */
		g_data[i][1] = (uint_least32_t)(data >> 11);
		g_data[i][2] = (uint_least32_t)(data >> 22);
		g_data[i][3] = (uint_least32_t)(data >> 32);
		g_ty[i].kind = TYPEARRAY;
		g_ty[i].base = &g_tb[i];
		g_ty[i].size = end - start;
		g_tb[i].kind = TYPEINT;
		g_tb[i].size = w;
	} else {
		g_ex[i].kind = EXPRCONST;
		g_ty[i].kind = TYPEINT;
		g_ty[i].size = end - start;
	}
}

/* which initializers are string initializers is fixed per variant (bit i of V_STRMASK): SAT cost */
#ifndef V_STRMASK
#define V_STRMASK 0
#endif
/* (inputs are declared one by one, not through a token-pasting macro: the runner finds IN() names textually) */
#define ASSUME_INIT(i) \
	__CPROVER_assume(in_before##i >= 0 && in_before##i < 64 && in_after##i >= 0 && in_after##i < 64); \
	__CPROVER_assume(in_w##i <= 4 && in_nchars##i <= NS); \
	__CPROVER_assume(in_isstr##i == (((V_STRMASK) >> i) & 1)); \
	mkinit_i(i, in_start##i, in_end##i, in_before##i, in_after##i, in_isstr##i, in_w##i, in_nchars##i, in_data##i)

void
harness(void)
{
	static struct func fn;
	static struct decl dd;
	static struct type tt;
	struct func *func = &fn;
	struct decl *d = &dd;
	struct init *init;
#ifdef V_N
	int in_n = V_N;                      /* one CBMC run per list length */
#else
	IN(int, in_n);
#endif
	IN(bool, hasinit);
	IN(u64, in_size);
	IN(int, in_align);
	ING(u64, g_bit);

	__CPROVER_assume(in_n >= 0 && in_n <= NI);
	IN(u64, in_start0); IN(u64, in_end0); IN(int, in_before0); IN(int, in_after0);
	IN(bool, in_isstr0); IN(unsigned, in_w0); IN(unsigned, in_nchars0); IN(u64, in_data0);
	IN(u64, in_start1); IN(u64, in_end1); IN(int, in_before1); IN(int, in_after1);
	IN(bool, in_isstr1); IN(unsigned, in_w1); IN(unsigned, in_nchars1); IN(u64, in_data1);
	IN(u64, in_start2); IN(u64, in_end2); IN(int, in_before2); IN(int, in_after2);
	IN(bool, in_isstr2); IN(unsigned, in_w2); IN(unsigned, in_nchars2); IN(u64, in_data2);
	ASSUME_INIT(0);
	ASSUME_INIT(1);
	ASSUME_INIT(2);
	if (in_n > 1) g_in[0].next = &g_in[1];
	if (in_n > 2) g_in[1].next = &g_in[2];
	init = in_n > 0 ? &g_in[0] : 0;
	tt.kind = TYPESTRUCT;
	tt.size = in_size;
	tt.align = in_align;
	dd.type = &tt;
	dd.kind = DECLOBJECT;
	dd.value = 0;
	g_n = in_n; g_size = in_size; g_align = in_align; g_func = func; g_d = d; g_hasinit = hasinit;
	g_kstar = in_n > 2 && COVERS(2, g_bit) ? 2 : in_n > 1 && COVERS(1, g_bit) ? 1 : in_n > 0 && COVERS(0, g_bit) ? 0 : -1;
	h.st = ST_UNINIT; h.n_alloc = 0; h.n_ev = 0; h.have_at = 0; h.at_off = 0;
	h.lw_off = 0; h.lw_size = 0; h.lw_t = 0; h.lw_v = 0; h.lw_before = 0; h.lw_after = 0;
	h.ok_first = h.ok_addr = h.ok_zarg = h.ok_inrange = h.ok_nozam = h.ok_rmw = h.ok_tq = 1;
	HCALL(PRE, POST, funcinit(func, d, init, hasinit));
}
