/* UNIT
{
 "id": "QBE.jump.once.ret",
 "file": "qbe.c", "function": "funcret",
 "properties": {"C03": "contract", "C19": "safety"},
 "mode": "dfcc", "enforce": "funcret/funcret_contract",
 "kind": "proof",
 "timeout": 60,
 "expects": ["postcondition", "assigns"],
 "assumes": []
}
*/
#include "qbe.c"
#include "verif.h"
#include "jump_common.h"

#define PRE(X) JUMP_PRE(X)
#define POST(X) \
	/* a terminated block keeps its terminator: kind, argument and both targets ... */ \
	X(IMP(g_jk0 != JUMP_NONE, (int)g_b0->jump.kind == g_jk0 && g_b0->jump.arg == g_jarg0 && g_b0->jump.blk[0] == g_jblk0 && g_b0->jump.blk[1] == g_jblk1)) \
	/* ... and receives no instruction */ \
	X(IMP(g_jk0 != JUMP_NONE, g_b0->insts.len == g_len0)) \
	/* the current block does not change: the jump lands on the block that was current */ \
	X(f->end == g_b0) \
	/* an open block is terminated by exactly `ret v` (v == NULL: plain `ret` of a void function) */ \
	X(IMP(g_jk0 == JUMP_NONE, g_b0->jump.kind == JUMP_RET && g_b0->jump.arg == v)) \
	X(g_b0->insts.len == g_len0) \
	CANARY(X, !(g_jk0 == JUMP_JMP && v == 0))

static void funcret_contract(struct func *f, struct value *v)
REQUIRES(PRE)
__CPROVER_assigns(g_b0->jump.kind, g_b0->jump.arg)
ENSURES(POST);

void
harness(void)
{
	IN(int, in_jk);
	IN(bool, in_v);
	struct func *f;
	struct value *v = in_v ? &j_v : 0;

	__CPROVER_assume(in_jk >= JUMP_NONE && in_jk <= JUMP_HLT);
	f = jump_build(in_jk, 0, 0);
	CALL(PRE, POST, funcret(f, v));
}
