/* UNIT
{
 "id": "QBE.funcalloc",
 "file": "qbe.c", "function": "funcalloc", "also_functions": ["mkintconst"],
 "properties": {"C01": "contract", "C19": "safety"},
 "mode": "dfcc", "enforce": "funcalloc/funcalloc_contract",
 "replace_calls": {"funcinst": "rec_funcinst", "calcvla": "rec_calcvla"},
 "kind": "proof",
 "timeout": 120,
 "replay": false,
 "expects": ["postcondition", "assigns", "assertion_repo"],
 "assumes": ["d->u.obj.align is a power of two in [1, 2^30] (mkdecl copies type->align, decl.c raises it to an _Alignas value: powers of two <= INT_MAX)",
             "object size (or run-time VLA size) <= 2^40, stack addresses <= 2^62: the 64-bit address arithmetic of the emitted add/and does not wrap",
             "calcvla() (recursive; replaced by a no-op) has stored the VLA size temporary in type->u.array.size before the allocation; for a VLA the ghost g_vlasize is the run-time value of that temporary",
             "QBE IL reference: `allocN s` returns an address that is a multiple of N (N = 4, 8, 16) of a fresh region of s bytes; add/and on class l are 64-bit two's complement",
             "funcinst appends the instruction to f->end and returns its result temporary (QBE.funcinst.dead); f->start is an open block (no jump builder ever runs while f->end == f->start: mkfunc moves f->end to the body block right after the parameters, and funcalloc switches back only around its own funcinst calls) -- otherwise funcinst would link a dead block after f->start and cut the block chain"]
}
*/
#include "qbe.c"
#include "verif.h"
#include "qbe_mem.h"

/*
 * C01 / C11 6.2.8, 6.7.5: an automatic object of size S declared with alignment ALIGN lives at an address that is a
 * multiple of ALIGN and has S bytes of its own.  QBE only offers alloc4/alloc8/alloc16, so for ALIGN > 16 cproc
 * over-allocates and rounds the address.  The recording stub EXECUTES the emitted instructions on ghost 64-bit values
 * (the alloc result being an arbitrary multiple of N, chosen by the input g_A) and the contract states the three
 * facts about the resulting address value V = value(d->value):
 *       V % ALIGN == 0,     A <= V,     V + S <= A + s          (A, s: address and size of the one alloc)
 */
#define NT 5
struct aghost {
	unsigned n;                 /* instructions emitted                                                           */
	unsigned nalloc;            /* how many of them were allocs                                                    */
	u64 A, s;                   /* address returned by / size given to the alloc                                   */
	unsigned N;                 /* alignment the alloc opcode guarantees                                           */
	struct block *blk;          /* block (f->end) the alloc was appended to                                        */
	bool ok_op;                 /* only alloc4/8/16, add, and; all of class l with two/one operands                */
	bool ok_blk;                /* all instructions went to the same block as the alloc                            */
	bool vla_done;              /* calcvla() was called (before the first instruction)                             */
};
struct aghost g;
/* result temporaries handed out by the stub and the VLA size temporary; the GHOST RUN-TIME VALUE of each is kept in
   its own u.i field (unused for VALUE_TEMP), so that "value of an operand" is v->u.i for constants and temporaries */
struct value g_t[NT], g_vla;
u64 g_A, g_vlasize, g_size;     /* arbitrary stack address; run-time size of a VLA; bytes the object needs         */
int g_align;
struct func *g_func;
struct block *g_start0, *g_end0;
struct decl *g_d;
struct type *g_type;

void
rec_calcvla(struct func *f, struct type *t)
{
	if (g.n == 0 && f == g_func && t == g_type)
		g.vla_done = 1;
}

struct value *
rec_funcinst(struct func *f, int op, int class, struct value *arg0, struct value *arg1)
{
	unsigned k = g.n;
	struct value *r;

	if (k >= NT - 1 || arg0 == 0) {
		g.ok_op = 0;
		return &g_t[NT - 1];
	}
	g.n = k + 1;
	r = &g_t[k];
	if (f != g_func || class != 'l')
		g.ok_op = 0;
	if (QBE_ALLOC_ALIGN(op) != 0) {
		if (arg1 != 0)
			g.ok_op = 0;
		g.nalloc++;
		g.N = QBE_ALLOC_ALIGN(op);
		g.s = arg0->u.i;
		g.A = g_A & ~(u64)(g.N - 1);      /* any multiple of N */
		g.blk = f->end;
		r->u.i = g.A;
		return r;
	}
	if (arg1 == 0) {
		g.ok_op = 0;
		return r;
	}
	if (op == IADD)
		r->u.i = arg0->u.i + arg1->u.i;
	else if (op == IAND)
		r->u.i = arg0->u.i & arg1->u.i;
	else
		g.ok_op = 0;
	if (g.nalloc != 0 && f->end != g.blk)
		g.ok_blk = 0;
	return r;
}

#define ISVLA      (g_type->size == 0)
#define V          (d->value->u.i)          /* ghost run-time value of the address the object is given */

#define PRE(X) \
	X(f != 0 && f == g_func && d != 0 && d == g_d && d->type != 0 && d->type == g_type) \
	X(f->start != 0 && f->end != 0 && f->start == g_start0 && f->end == g_end0) \
	X(!g_type->incomplete) \
	X(IMP(ISVLA, g_type->kind == TYPEARRAY && g_type->u.array.size == &g_vla && g_vla.u.i == g_vlasize)) \
	X(d->u.obj.align >= 1 && d->u.obj.align <= (1 << 30) && SPEC_ISPOW2(d->u.obj.align) && d->u.obj.align == g_align) \
	X(g_size == (ISVLA ? g_vlasize : g_type->size) && g_size <= (1ull << 40) && g_A <= (1ull << 62)) \
	X(g.n == 0 && g.nalloc == 0 && g.ok_op && g.ok_blk && !g.vla_done)

#define POST(X) \
	/* well-formed: one alloc, the rest =l add / =l and over known operands */ \
	X(g.ok_op) \
	X(g.nalloc == 1 && g.N >= 4) \
	/* the object's address is the value of an emitted temporary ... */ \
	X(d->value != 0 && g.n >= 1 && d->value == &g_t[g.n - 1]) \
	/* ... that is aligned as declared ... */ \
	X((V & ((u64)g_align - 1)) == 0) \
	/* ... and has its g_size bytes inside the allocated region [A, A + s) */ \
	X(V >= g.A) \
	X(V + g_size <= g.A + g.s) \
	/* no over-allocation unless QBE cannot align the slot itself; then less than one alignment unit */ \
	X(IMP(g_align <= 16, g.s == g_size && V == g.A)) \
	X(IMP(g_align > 16, g.s - g_size < (u64)g_align)) \
	/* fixed-size objects are allocated once, in the function's start block; a VLA where it is declared;       \
	   the address fix-up follows in the same block; the current block is the same as before */ \
	X(IMP(!ISVLA, g.blk == g_start0)) \
	X(IMP(ISVLA, g.blk == g_end0)) \
	X(g.ok_blk) \
	X(f->end == g_end0 && f->start == g_start0) \
	X(g.vla_done) \
	CANARY(X, !(g_align == 64 && g_size == 24 && !ISVLA))

static void funcalloc_contract(struct func *f, struct decl *d)
REQUIRES(PRE)
__CPROVER_assigns(g, f->end, d->value, __CPROVER_object_whole(g_t))
ENSURES(POST);

void
harness(void)
{
	static struct func fn;
	static struct block bs, be;
	static struct decl dd;
	static struct type tt;
	struct func *f = &fn;
	struct decl *d = &dd;
	IN(u64, in_size);
	IN(int, in_align);
	IN(bool, in_same);
	ING(u64, g_A);
	ING(u64, g_vlasize);
	int i;

	fn.start = &bs;
	fn.end = in_same ? &bs : &be;       /* parameters are allocated while f->end is still the start block */
	bs.jump.kind = JUMP_NONE;
	tt.kind = in_size ? TYPESTRUCT : TYPEARRAY;
	tt.size = in_size;
	tt.incomplete = 0;
	tt.prop = in_size ? PROPNONE : PROPVM;
	tt.u.array.size = in_size ? 0 : &g_vla;
	dd.type = &tt;
	dd.kind = DECLOBJECT;
	dd.u.obj.align = in_align;
	dd.value = 0;
	g_vla.kind = VALUE_TEMP;
	g_vla.u.i = g_vlasize;
	g_func = f; g_d = d; g_type = &tt; g_start0 = fn.start; g_end0 = fn.end; g_align = in_align;
	g_size = in_size ? in_size : g_vlasize;
	g.n = 0; g.nalloc = 0; g.A = 0; g.s = 0; g.N = 0; g.blk = 0; g.ok_op = 1; g.ok_blk = 1; g.vla_done = 0;
	for (i = 0; i < NT; i++)
		g_t[i].kind = VALUE_TEMP;
	CALL(PRE, POST, funcalloc(f, d));
}
