/* UNIT
{
 "id": "QBE.mkinst",
 "file": "qbe.c", "function": "mkinst", "also_functions": ["functemp"],
 "properties": {"C03": "contract", "C19": "safety"},
 "mode": "dfcc", "enforce": "mkinst/mkinst_contract",
 "kind": "proof",
 "timeout": 60,
 "expects": ["postcondition", "assigns"],
 "assumes": ["f->lastid < UINT_MAX", "xmalloc does not fail"]
}
*/
#include "qbe.c"
#include "verif.h"
#include <limits.h>

/*
 * C03: an instruction defines a temporary iff it has a class and is not an IARG pseudo-instruction (whose class is
 * the class of the ARGUMENT: emitinst prints IARG/IVARARG inside the parenthesised argument list of the preceding
 * call, never as `%t =c op`).  Instructions that define nothing (stores, vastart, vararg marker, arg) must not
 * consume or fabricate a temporary name, the others get exactly one fresh name (QBE.functemp).
 */
unsigned g_lastid0;
#define DEFINES(op, class)  ((class) != 0 && (op) != IARG)

#define PRE(X) \
	X(f != 0) \
	X(f->lastid < UINT_MAX && g_lastid0 == f->lastid)

#define POST(X) \
	X(RET != 0) \
	X((int)RET->kind == op && RET->class == class && RET->arg[0] == arg0 && RET->arg[1] == arg1) \
	X(IMP(DEFINES(op, class), RET->res.kind == VALUE_TEMP && RET->res.id == g_lastid0 + 1 && RET->res.id != 0)) \
	X(IMP(DEFINES(op, class), f->lastid == g_lastid0 + 1)) \
	X(IMP(!DEFINES(op, class), RET->res.kind == VALUE_NONE)) \
	X(IMP(!DEFINES(op, class), f->lastid == g_lastid0)) \
	CANARY(X, !(op == IARG && class == 'w'))

static struct inst *mkinst_contract(struct func *f, int op, int class, struct value *arg0, struct value *arg1)
REQUIRES(PRE)
__CPROVER_assigns(f->lastid)
ENSURES(POST);

void
harness(void)
{
	static struct func fn;
	static struct value a0, a1;
	struct func *f = &fn;
	IN(unsigned, in_lastid);
	IN(int, op);
	IN(int, class);
	IN(bool, in_arg0);
	IN(bool, in_arg1);
	struct value *arg0 = in_arg0 ? &a0 : 0, *arg1 = in_arg1 ? &a1 : 0;

	fn.lastid = in_lastid;
	g_lastid0 = in_lastid;
	CALLR(struct inst *, PRE, POST, mkinst(f, op, class, arg0, arg1));
}
