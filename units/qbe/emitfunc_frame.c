/* UNIT
{
 "id": "QBE.emitfunc.frame",
 "file": "qbe.c", "function": "emitfunc", "also_functions": ["emitname", "emitvalue", "emitclass", "emitinst", "emitjump", "qbetype", "funcret"],
 "properties": {"C03": "contract", "C19": "safety"},
 "mode": "dfcc", "enforce": "emitfunc/emitfunc_contract",
 "stubs": ["base.c", "stdio_noop.c"],
 "unwind": 4, "unwindset": ["harness.0:8", "harness.1:5", "strcmp.0:9"],
 "kind": "bounded", "bound": "function with 2 blocks (start, body), at most 1 instruction per block, at most 1 parameter, name of <= 7 characters; instruction kinds, classes, operand/value kinds, jump kinds and targets symbolic",
 "timeout": 120,
 "replay": false,
 "expects": ["postcondition", "assigns", "unwind", "assertion_repo"],
 "assumes": ["stdio output calls are no-ops whose arguments are not evaluated (stubs/stdio_noop.c)",
             "IL validity (what the builder units establish): instruction kinds are opcodes of ops.h or IARG/IVARARG only directly after a call, operands non-NULL where printed, jump kinds JUMP_NONE..JUMP_HLT with non-NULL targets, values with a printable kind"]
}
*/
#include <stdbool.h>
#include <stdio.h>
int verif_out(void);
#define printf(...)   verif_out()
#define puts(s)       verif_out()
#define fputs(s, f)   verif_out()
#define putchar(c)    verif_out()
#define fputc(c, f)   verif_out()
#include "qbe.c"
#undef printf
#undef puts
#undef fputs
#undef putchar
#undef fputc
#include "verif.h"

/*
 * Complement of QBE.emitfunc.term for a bounded function shape: the whole of emitfunc(), printing loops included,
 * (1) does not modify the IL it prints -- the only write is the implicit `ret` on an open last block (frame clause,
 *     checked by DFCC on every assignment in emitfunc/emitinst/emitjump/emitname/emitvalue/emitclass/qbetype), and
 * (2) is memory-safe on a valid IL (instname[] / sigil[] table indices, operand dereferences, assert()s).
 */
struct type typeint, typevoid;
extern int g_no_error;
struct func *g_f;
struct block *g_last;
int g_jk0;

#define VALKIND_OK(v)  (((v)->kind & ~0x1f) == 0)       /* any kind/flag combination; emitname() rejects the unprintable ones with fatal() */
#define INST_OK(i)     ((i)->kind > INONE && (i)->kind < IARG && (i)->kind != ICALL && (i)->arg[0] != 0 && VALKIND_OK((i)->arg[0]) && \
                        IMP((i)->arg[1] != 0, VALKIND_OK((i)->arg[1])) && IMP((i)->res.kind != VALUE_NONE, (i)->res.kind == VALUE_TEMP))
#define JUMP_OK(b)     ((b)->jump.kind >= JUMP_NONE && (b)->jump.kind <= JUMP_HLT && (b)->jump.blk[0] != 0 && (b)->jump.blk[1] != 0 && \
                        IMP((b)->jump.kind == JUMP_JNZ, (b)->jump.arg != 0) && IMP((b)->jump.arg != 0, VALKIND_OK((b)->jump.arg)))

#define PRE(X) \
	X(f != 0 && f == g_f && f->start != 0 && f->end != 0 && f->end == g_last && f->type != 0 && f->name != 0 && f->decl != 0 && f->decl->value != 0) \
	X(f->start->next == f->end && f->end->next == 0) \
	X(g_jk0 == (int)g_last->jump.kind && JUMP_OK(f->start) && JUMP_OK(f->end)) \
	X(VALKIND_OK(f->decl->value))

#define POST(X) \
	X(g_last->jump.kind != JUMP_NONE) \
	X(IMP(g_jk0 != JUMP_NONE, (int)g_last->jump.kind == g_jk0)) \
	X(f->end == g_last && f->start->next == g_last) \
	CANARY(X, !(g_jk0 == JUMP_JNZ && global))

void emitfunc_contract(struct func *f, bool global)
REQUIRES(PRE)
__CPROVER_assigns(g_last->jump.kind, g_last->jump.arg)
ENSURES(POST);

static struct value vals[4];
static struct inst insts[2];
static struct inst *ia[2][1];
static struct block blk[2];

static struct value *
pickval(int k)
{
	return k >= 0 && k < 4 ? &vals[k] : 0;
}

void
harness(void)
{
	static struct func fn;
	static struct type ft, pt;
	static struct decl fd, pd;
	static struct value fv, pv;
	static char name[8];
	struct func *f = &fn;
	IN(bool, global);
	IN(u64, in_name);
	IN(int, in_base);
	IN(bool, in_haspar);
	IN(bool, in_vararg);
	IN(int, in_vk0); IN(int, in_vk1); IN(int, in_vk2); IN(int, in_vk3);
	IN(int, in_n0); IN(int, in_n1);
	IN(int, in_k0); IN(int, in_k1); IN(int, in_c0); IN(int, in_c1);
	IN(int, in_a00); IN(int, in_a01); IN(int, in_a10); IN(int, in_a11);
	IN(int, in_r0); IN(int, in_r1);
	IN(int, in_jk0); IN(int, in_jk1); IN(int, in_ja0); IN(int, in_ja1);
	IN(bool, in_phi);
	int i;

	g_no_error = 0;
	for (i = 0; i < 7; i++)
		name[i] = (char)(in_name >> (8 * i));
	name[7] = 0;
	vals[0].kind = in_vk0; vals[1].kind = in_vk1; vals[2].kind = in_vk2; vals[3].kind = in_vk3;
	for (i = 0; i < 4; i++)
		__CPROVER_assume(VALKIND_OK(&vals[i]));
	__CPROVER_assume(in_n0 >= 0 && in_n0 <= 1 && in_n1 >= 0 && in_n1 <= 1);
	insts[0].kind = in_k0; insts[0].class = in_c0; insts[0].arg[0] = pickval(in_a00); insts[0].arg[1] = pickval(in_a01);
	insts[1].kind = in_k1; insts[1].class = in_c1; insts[1].arg[0] = pickval(in_a10); insts[1].arg[1] = pickval(in_a11);
	insts[0].res.kind = in_r0; insts[1].res.kind = in_r1;
	__CPROVER_assume(INST_OK(&insts[0]) && INST_OK(&insts[1]));
	__CPROVER_assume((in_c0 == 'w' || in_c0 == 'l' || in_c0 == 's' || in_c0 == 'd' || in_c0 == 0) && (in_c1 == 'w' || in_c1 == 'l' || in_c1 == 0));
	__CPROVER_assume(IMP(in_r0 != VALUE_NONE, in_c0 != 0) && IMP(in_r1 != VALUE_NONE, in_c1 != 0));
	ia[0][0] = in_n0 ? &insts[0] : 0; ia[1][0] = in_n1 ? &insts[1] : 0;      /* slots beyond len hold no instruction */
	for (i = 0; i < 2; i++) {
		blk[i].label.kind = VALUE_LABEL;
		blk[i].insts.val = ia[i];
		blk[i].insts.cap = sizeof ia[i];
		blk[i].phi.res.kind = VALUE_NONE;
		blk[i].jump.blk[0] = &blk[1];
		blk[i].jump.blk[1] = &blk[0];
	}
	blk[0].insts.len = in_n0 * sizeof(struct inst *);
	blk[1].insts.len = in_n1 * sizeof(struct inst *);
	blk[0].jump.kind = in_jk0; blk[0].jump.arg = pickval(in_ja0);
	blk[1].jump.kind = in_jk1; blk[1].jump.arg = pickval(in_ja1);
	if (in_phi) {
		blk[1].phi.res.kind = VALUE_TEMP;
		blk[1].phi.class = 'w';
		blk[1].phi.blk[0] = &blk[0]; blk[1].phi.blk[1] = &blk[1];
		blk[1].phi.val[0] = &vals[0]; blk[1].phi.val[1] = &vals[1];
	}
	blk[0].next = &blk[1];
	blk[1].next = 0;
	__CPROVER_assume(in_base >= 0 && in_base <= 2);
	pt.value = 0; typevoid.value = 0; pt.kind = TYPEINT; pt.prop = PROPSCALAR|PROPARITH|PROPREAL|PROPINT; pt.size = 4; pt.u.basic.issigned = 1;
	typeint = pt;
	typevoid.kind = TYPEVOID;
	pd.type = &pt; pd.next = 0;
	pv.kind = VALUE_TEMP;
	ft.kind = TYPEFUNC;
	ft.base = in_base == 0 ? &typeint : in_base == 1 ? &typevoid : &pt;
	ft.u.func.params = in_haspar ? &pd : 0;
	ft.u.func.nparam = in_haspar;
	ft.u.func.isvararg = in_vararg;
	fv.kind = VALUE_GLOBAL;
	fd.value = &fv;
	fn.decl = &fd; fn.name = name; fn.type = &ft; fn.paramtemps = &pv;
	fn.start = &blk[0]; fn.end = &blk[1];
	g_f = f; g_last = &blk[1]; g_jk0 = in_jk1;
	CALL(PRE, POST, emitfunc(f, global));
}
