/* UNIT
{
 "id": "QBE.mkglobal.first",
 "file": "qbe.c", "function": "mkglobal",
 "properties": {"C09": "contract", "C03": "contract", "C19": "safety"},
 "mode": "harness",
 "kind": "proof",
 "timeout": 60,
 "expects": ["assertion_verif"],
 "assumes": ["base case of the induction whose step is QBE.mkglobal: run WITHOUT --nondet-static, i.e. from the initial static state of the program (id counter 0); xmalloc does not fail"]
}
*/
#include "qbe.c"
#include "verif.h"

/* the first no-linkage declaration of a translation unit gets local id 1 (not 0: id 0 means "spelt verbatim",
   see QBE.mkglobal); calls for declarations with linkage or an asm label before it do not consume ids */
#define PRE(X) \
	X(d != 0 && d->asmname == 0 && d->linkage == LINKNONE)
#define POST(X) \
	X(HRET != 0 && HRET->id == 1) \
	X(HRET->u.name == d->name) \
	CANARY(X, !(in_before == 1))

void
harness(void)
{
	static struct decl other, dd;
	static char nm[4], an[4];
	struct decl *d = &dd;
	IN(int, in_before);      /* 0: nothing before; 1: an extern declaration before; 2: an asm-labelled static before */

	__CPROVER_assume(in_before >= 0 && in_before <= 2);
	other.name = nm;
	other.kind = DECLOBJECT;
	other.u.obj.storage = SDSTATIC;
	if (in_before == 1) {
		other.linkage = LINKEXTERN;
		other.asmname = 0;
		(void)mkglobal(&other);
	} else if (in_before == 2) {
		other.linkage = LINKNONE;
		other.asmname = an;
		(void)mkglobal(&other);
	}
	dd.name = nm;
	dd.asmname = 0;
	dd.kind = DECLOBJECT;
	dd.linkage = LINKNONE;
	dd.u.obj.storage = SDSTATIC;
	HCALLR(struct value *, PRE, POST, mkglobal(d));
}
