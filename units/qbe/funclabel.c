/* UNIT
{
 "id": "QBE.funclabel",
 "file": "qbe.c", "function": "funclabel",
 "properties": {"C03": "contract", "C19": "safety"},
 "mode": "dfcc", "enforce": "funclabel/funclabel_contract",
 "kind": "proof",
 "timeout": 60,
 "expects": ["postcondition", "assigns"],
 "assumes": []
}
*/
#include "qbe.c"
#include "verif.h"

/*
 * C03: emitfunc() prints the blocks by following ->next from f->start; a block that is not on that chain is never
 * emitted, so every jump/phi naming it would dangle.  funclabel() is the only function that extends the chain (the
 * other writers of ->next/f->end are mkblock (NULL), mkfunc (start) and funcalloc (temporary switch to f->start)):
 * it appends b right after the current last block and makes it current; nothing else changes -- in particular the
 * old block keeps its jump (a block without jump falls through to the next one, which is exactly b).
 */
struct func *g_f;
struct block *g_end0, *g_start0, *g_bnext0;
int g_jk0;

#define PRE(X) \
	X(f != 0 && f == g_f && b != 0 && f->end != 0 && f->end == g_end0 && f->start == g_start0) \
	X(g_jk0 == (int)g_end0->jump.kind && g_bnext0 == b->next)

#define POST(X) \
	X(g_end0->next == b) \
	X(f->end == b) \
	X(f->start == g_start0) \
	X(b->next == g_bnext0 || b == g_end0) \
	X((int)g_end0->jump.kind == g_jk0) \
	CANARY(X, !(g_jk0 == JUMP_RET))

void funclabel_contract(struct func *f, struct block *b)
REQUIRES(PRE)
__CPROVER_assigns(f->end, g_end0->next)
ENSURES(POST);

void
harness(void)
{
	static struct func fn;
	static struct block bs, be, nb;
	struct func *f = &fn;
	struct block *b = &nb;
	IN(bool, in_same);
	IN(int, in_jk);

	__CPROVER_assume(in_jk >= JUMP_NONE && in_jk <= JUMP_HLT);
	fn.start = &bs;
	fn.end = in_same ? &bs : &be;
	bs.next = in_same ? 0 : &be;
	be.next = 0;
	nb.next = 0;
	fn.end->jump.kind = in_jk;
	g_f = f; g_end0 = fn.end; g_start0 = fn.start; g_bnext0 = nb.next; g_jk0 = in_jk;
	CALL(PRE, POST, funclabel(f, b));
}
