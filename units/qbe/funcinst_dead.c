/* UNIT
{
 "id": "QBE.funcinst.dead",
 "file": "qbe.c", "function": "funcinst", "also_functions": ["mkinst", "functemp", "mkblock", "funclabel"],
 "properties": {"C03": "contract", "C19": "safety"},
 "mode": "dfcc", "enforce": "funcinst/funcinst_contract",
 "stubs": ["base.c", "array_model.c"],
 "unwindset": ["arrayadd.0:2"],
 "kind": "proof-const-unwind",
 "timeout": 120,
 "expects": ["postcondition", "assigns", "unwind"],
 "assumes": ["the current block's instruction array is empty {0,0,0} or has 256 <= cap <= 2^20 bytes (what arrayadd's doubling from 256 produces), len a multiple of 8, len <= cap",
             "f->lastid < UINT_MAX (machine arithmetic: fewer than 2^32 temporaries per function)",
             "arrayadd/arrayaddptr: stubs/array_model.c (text of util.c with a realloc that does not fail); xmalloc does not fail"]
}
*/
#include "qbe.c"
#include "verif.h"
#include <limits.h>
#ifdef VERIF_REPLAY
#define __CPROVER_frees(...)     /* verif.h has no replay definition for frees clauses */
#endif

/*
 * QBE IL reference, "Blocks": a block is a label, phi instructions, regular instructions, and ONE jump that ends it.
 * The builder keeps the jump separately from the instruction array, so the IL is well formed only if no instruction
 * is ever appended to a block whose jump has been set (C03: "every block is terminated", "no instruction follows a
 * jump").  funcinst() is the only function that appends instructions.
 */
struct func *g_f;
struct block *g_b0;             /* f->end before the call                                         */
int g_jk0;                      /* its jump.kind                                                  */
struct value *g_jarg0;
struct block *g_jblk0, *g_jblk1;
size_t g_len0, g_cap0;
unsigned g_lastid0;
size_t g_i;                     /* arbitrary index of an instruction already in the block         */
void *g_elem;                   /* the instruction pointer stored there                           */
struct block *g_start0;

#define PTRSZ       (sizeof(void *))
#define NEWB        (f->end)                                   /* block that received the instruction */
#define LASTINST    (((struct inst **)NEWB->insts.val)[NEWB->insts.len / PTRSZ - 1])
#define DEFINES(op, class)  ((class) != 0 && (op) != IARG)    /* the instruction has a result temporary */

#define PRE(X) \
	X(f != 0 && f == g_f && f->end != 0 && f->end == g_b0 && f->start == g_start0) \
	X(g_b0->jump.kind >= JUMP_NONE && g_b0->jump.kind <= JUMP_HLT && g_jk0 == (int)g_b0->jump.kind) \
	X(g_jarg0 == g_b0->jump.arg && g_jblk0 == g_b0->jump.blk[0] && g_jblk1 == g_b0->jump.blk[1]) \
	X(g_len0 == g_b0->insts.len && g_cap0 == g_b0->insts.cap) \
	X((g_cap0 == 0 && g_len0 == 0 && g_b0->insts.val == 0) || \
	  (g_cap0 >= 256 && g_cap0 <= (1u << 20) && g_len0 <= g_cap0 && g_len0 % PTRSZ == 0 && g_b0->insts.val != 0)) \
	X(IMP(g_len0 != 0, g_i < g_len0 / PTRSZ && g_elem == ((void **)g_b0->insts.val)[g_i])) \
	X(f->lastid < UINT_MAX && g_lastid0 == f->lastid)

#define POST(X) \
	/* C03: the block the instruction went to is NOT terminated */ \
	X(NEWB != 0 && NEWB->jump.kind == JUMP_NONE) \
	/* an open current block keeps being the current block ... */ \
	X(IMP(g_jk0 == JUMP_NONE, NEWB == g_b0)) \
	/* ... a terminated one gets nothing: a fresh block is linked after it and becomes the current (and last) block */ \
	X(IMP(g_jk0 != JUMP_NONE, NEWB != g_b0 && g_b0->next == NEWB && NEWB->next == 0)) \
	X(IMP(g_jk0 != JUMP_NONE, g_b0->insts.len == g_len0)) \
	X(IMP(g_jk0 != JUMP_NONE, NEWB->label.kind == VALUE_LABEL && NEWB->phi.res.kind == VALUE_NONE)) \
	/* the terminator of the old block is untouched: a block is terminated once */ \
	X((int)g_b0->jump.kind == g_jk0 && g_b0->jump.arg == g_jarg0 && g_b0->jump.blk[0] == g_jblk0 && g_b0->jump.blk[1] == g_jblk1) \
	/* exactly one instruction was appended, at the end, and it is the requested one */ \
	X(NEWB->insts.len == (g_jk0 == JUMP_NONE ? g_len0 : 0) + PTRSZ && NEWB->insts.len <= NEWB->insts.cap) \
	X(LASTINST != 0 && (int)LASTINST->kind == op && LASTINST->class == class && LASTINST->arg[0] == arg0 && LASTINST->arg[1] == arg1) \
	X(RET == &LASTINST->res) \
	/* earlier instructions of the block keep their place */ \
	X(IMP(g_len0 != 0, ((void **)g_b0->insts.val)[g_i] == g_elem)) \
	/* one fresh temporary per instruction result; none for stores/arg/vararg (class 0 or IARG) */ \
	X(IMP(DEFINES(op, class), RET->kind == VALUE_TEMP && RET->id == g_lastid0 + 1 && f->lastid == g_lastid0 + 1)) \
	X(IMP(!DEFINES(op, class), RET->kind == VALUE_NONE && f->lastid == g_lastid0)) \
	X(f->start == g_start0) \
	CANARY(X, !(g_jk0 == JUMP_RET && g_len0 == 16 && op == IADD))

static struct value *funcinst_contract(struct func *f, int op, int class, struct value *arg0, struct value *arg1)
REQUIRES(PRE)
__CPROVER_assigns(f->end, f->lastid, g_b0->next, g_b0->insts)
__CPROVER_assigns(g_b0->insts.val != 0: __CPROVER_object_whole(g_b0->insts.val))
__CPROVER_frees(g_b0->insts.val)
ENSURES(POST);

void
harness(void)
{
	static struct func fn;
	static struct block b0, bstart, t0, t1;
	static struct value a0, a1, ja;
	struct func *f = &fn;
	struct value *arg0, *arg1;
	IN(int, op);
	IN(int, class);
	IN(int, in_jk);
	IN(size_t, in_len);
	IN(size_t, in_cap);
	IN(unsigned, in_lastid);
	IN(bool, in_arg0);
	IN(bool, in_arg1);
	ING(size_t, g_i);

	__CPROVER_assume(in_jk >= JUMP_NONE && in_jk <= JUMP_HLT);
	__CPROVER_assume(in_cap == 0 || (in_cap >= 256 && in_cap <= (1u << 20)));
	__CPROVER_assume(in_len <= in_cap && in_len % PTRSZ == 0);
	arg0 = in_arg0 ? &a0 : 0;
	arg1 = in_arg1 ? &a1 : 0;
	b0.label.kind = VALUE_LABEL;
	b0.insts.cap = in_cap;
	b0.insts.len = in_len;
	b0.insts.val = 0;
	if (in_cap) {
		b0.insts.val = malloc(in_cap);
		__CPROVER_assume(b0.insts.val != 0);
	}
	b0.jump.kind = in_jk;
	b0.jump.arg = &ja;
	b0.jump.blk[0] = &t0;
	b0.jump.blk[1] = &t1;
	b0.next = 0;
	bstart.next = &b0;
	fn.start = &bstart;
	fn.end = &b0;
	fn.lastid = in_lastid;

	g_f = f; g_b0 = &b0; g_jk0 = in_jk; g_start0 = &bstart;
	g_jarg0 = b0.jump.arg; g_jblk0 = b0.jump.blk[0]; g_jblk1 = b0.jump.blk[1];
	g_len0 = in_len; g_cap0 = in_cap; g_lastid0 = in_lastid;
	if (in_len) {
		__CPROVER_assume(g_i < in_len / PTRSZ);
		g_elem = ((void **)b0.insts.val)[g_i];
	}
	CALLR(struct value *, PRE, POST, funcinst(f, op, class, arg0, arg1));
}
