/* UNIT
{
 "id": "QBE.funccopy",
 "file": "qbe.c", "function": "funccopy",
 "properties": {"C01": "all", "C19": "safety"},
 "mode": "dfcc", "enforce": "funccopy/funccopy_contract",
 "replace_calls": {"funcinst": "rec_funcinst"},
 "loop_contracts": {"funccopy": [{"loop_id": "0",
     "assigns": "off, tmp, src, dst, g",
     "invariants": "g.phase == 0 && off == g.pos && g.srcoff == off && g.dstoff == off && g.cursrc == src && g.curdst == dst && src != 0 && dst != 0 && off < size && (off & ((unsigned long long)align - 1)) == 0 && align == g_chunk && inc != 0 && inc->kind == k_intconst && inc->u.i == (unsigned long long)align && g.ok_seq && g.ok_op && g.ok_src && g.ok_dst && g.ok_val && g.ok_inc && g.ok_contig && g.ok_mirror && g.ok_inrange && g.ok_natural && (g.bcov == (g_b < off))",
     "decreases": "size - off",
     "symbol_map": "off,funccopy::1::off;tmp,funccopy::1::tmp;inc,funccopy::1::inc;src,funccopy::src;dst,funccopy::dst;size,funccopy::size;align,funccopy::align;g,g;g_chunk,g_chunk;g_b,g_b;k_intconst,k_intconst"}]},
 "loops_expected": {"funccopy": 1},
 "kind": "proof",
 "timeout": 120,
 "replay": false,
 "expects": ["postcondition", "loop_contract", "assertion_repo"],
 "assumes": ["size >= 1 and size % min(align, 8) == 0: struct/union sizes are rounded up to their alignment by decl.c:tagspec and array sizes are multiples of the element size.  NOT true for __attribute__((packed)) structs with an _Alignas member (tagspec skips the rounding): see the report, defect 'packed struct copy'",
             "align is a power of two in [1, 2^30]; size <= 2^62",
             "funcinst appends exactly the instruction it is given and returns its result temporary (QBE.funcinst.dead); mkintconst real (inlined)"]
}
*/
#include "qbe.c"
#include "verif.h"
#include "qbe_mem.h"

/*
 * C01, aggregate copy (C11 6.5.16.1p2 simple assignment of structure/union values, 6.7.9p13 initialisation from an
 * expression of the same type, 6.8.6.4 return, argument passing to the local copy): all `size` bytes of the object
 * representation are copied, nothing outside either object is read or written.
 *
 * funcinst() is replaced by a recording stub that follows the emitted sequence
 *      t =c load S ; store t, D ; S' =l add S, K ; D' =l add D, K ; ...
 * and keeps, as ghost state, the byte offsets (relative to the original src/dst) that S and D point at.
 */
struct cghost {
	int phase;                 /* 0: expect load, 1: expect store, 2: expect add src, 3: expect add dst           */
	u64 pos;                   /* bytes [0, pos) have been copied                                                  */
	u64 srcoff, dstoff;        /* offset of the current source / destination address value                         */
	u64 loadoff;               /* offset the pending loaded value was read from                                    */
	struct value *cursrc, *curdst;
	bool ok_seq;               /* instructions come in the order load, store, add, add                             */
	bool ok_op;                /* load/store opcodes access exactly g_chunk bytes, integer class w (<= 4) or l (8) */
	bool ok_src, ok_dst;       /* loads read through the current source address, stores write through the dst one  */
	bool ok_val;               /* the stored value is the temporary just loaded                                    */
	bool ok_inc;               /* both addresses advance by exactly the chunk size, =l add                         */
	bool ok_contig;            /* each chunk starts where the previous one ended (first at 0), increasing          */
	bool ok_mirror;            /* a chunk is stored at the offset it was loaded from                               */
	bool ok_inrange;           /* no byte at offset >= size is read or written                                     */
	bool ok_natural;           /* chunk offset is a multiple of the chunk size                                     */
	bool bcov;                 /* byte g_b has been copied                                                         */
};
struct cghost g;
const int k_intconst = VALUE_INTCONST;
u64 g_size, g_b;
int g_align;
unsigned g_chunk;              /* min(align, 8): the access width the object's alignment permits, at most a QBE `l` */
struct func *g_func;
struct value *g_src0, *g_dst0;
struct value g_sv, g_dv, g_tv, g_none;

struct value *
rec_funcinst(struct func *f, int op, int class, struct value *arg0, struct value *arg1)
{
	if (f != g_func)
		g.ok_seq = 0;
	switch (g.phase) {
	case 0:
		if (QBE_LOAD_SIZE(op) != g_chunk || op == ILOADS || op == ILOADD || class != (g_chunk == 8 ? 'l' : 'w') || arg1 != 0)
			g.ok_op = 0;
		if (QBE_LOAD_SIZE(op) == 0)
			g.ok_seq = 0;
		if (arg0 == 0 || arg0 != g.cursrc)
			g.ok_src = 0;
		if (g.srcoff != g.pos)
			g.ok_contig = 0;
		if (g.srcoff + g_chunk > g_size)
			g.ok_inrange = 0;
		if ((g.srcoff & (g_chunk - 1)) != 0)
			g.ok_natural = 0;
		g.loadoff = g.srcoff;
		g.phase = 1;
		return &g_tv;
	case 1:
		if (QBE_STORE_SIZE(op) != g_chunk || op == ISTORES || op == ISTORED || class != 0)
			g.ok_op = 0;
		if (QBE_STORE_SIZE(op) == 0)
			g.ok_seq = 0;
		if (arg0 != &g_tv)
			g.ok_val = 0;
		if (arg1 == 0 || arg1 != g.curdst)
			g.ok_dst = 0;
		if (g.dstoff != g.pos)
			g.ok_contig = 0;
		if (g.dstoff != g.loadoff)
			g.ok_mirror = 0;
		if (g.dstoff + g_chunk > g_size)
			g.ok_inrange = 0;
		if ((g.dstoff & (g_chunk - 1)) != 0)
			g.ok_natural = 0;
		if (g.dstoff <= g_b && g_b - g.dstoff < g_chunk)
			g.bcov = 1;
		g.pos = g.dstoff + g_chunk;
		g.phase = 2;
		return &g_none;
	case 2:
		if (op != IADD)
			g.ok_seq = 0;
		if (class != 'l' || arg0 != g.cursrc || arg1 == 0 || arg1->kind != VALUE_INTCONST || arg1->u.i != g_chunk)
			g.ok_inc = 0;
		g.srcoff += g_chunk;
		g.cursrc = &g_sv;
		g.phase = 3;
		return &g_sv;
	default:
		if (op != IADD)
			g.ok_seq = 0;
		if (class != 'l' || arg0 != g.curdst || arg1 == 0 || arg1->kind != VALUE_INTCONST || arg1->u.i != g_chunk)
			g.ok_inc = 0;
		g.dstoff += g_chunk;
		g.curdst = &g_dv;
		g.phase = 0;
		return &g_dv;
	}
}

#define PRE(X) \
	X(f != 0 && f == g_func && dst != 0 && src != 0 && dst == g_dst0 && src == g_src0) \
	X(align >= 1 && align <= (1 << 30) && SPEC_ISPOW2(align) && align == g_align) \
	X(g_chunk == (align < 8 ? (unsigned)align : 8u)) \
	X(size >= 1 && size <= (1ull << 62) && size % g_chunk == 0 && size == g_size) \
	X(g.phase == 0 && g.pos == 0 && g.srcoff == 0 && g.dstoff == 0 && g.cursrc == src && g.curdst == dst && !g.bcov) \
	X(g.ok_seq && g.ok_op && g.ok_src && g.ok_dst && g.ok_val && g.ok_inc && g.ok_contig && g.ok_mirror && g.ok_inrange && g.ok_natural)

#define POST(X) \
	/* well-formed sequence of integer loads/stores of min(align,8) bytes and =l add <addr>, min(align,8) */ \
	X(g.ok_seq) \
	X(g.ok_op) \
	X(g.ok_inc) \
	/* every load goes through the source address, every store through the destination address ... */ \
	X(g.ok_src) \
	X(g.ok_dst) \
	/* ... stores exactly the value just loaded, at the offset it was loaded from (loads mirror stores) */ \
	X(g.ok_val) \
	X(g.ok_mirror) \
	/* chunks are contiguous and increasing from 0 and cover exactly [0, size) */ \
	X(g.ok_contig) \
	X(g.pos == g_size) \
	X(IMP(g_b < g_size, g.bcov)) \
	/* no access outside either object; every access naturally aligned */ \
	X(g.ok_inrange) \
	X(g.ok_natural) \
	/* ends after a store (no dangling address computation): the last two instructions are load, store */ \
	X(g.phase == 2) \
	CANARY(X, !(g_align == 4 && g_size == 12 && g_b == 9))

static void funccopy_contract(struct func *f, struct value *dst, struct value *src, unsigned long long size, int align)
REQUIRES(PRE)
__CPROVER_assigns(g)
ENSURES(POST);

void
harness(void)
{
	static struct func fn;
	static struct value sv, dv;
	struct func *f = &fn;
	IN(bool, in_same);
	IN(u64, size);
	IN(int, align);
	ING(u64, g_b);
	struct value *src = &sv, *dst = in_same ? &sv : &dv;     /* a = a: both operands are the same address value */

	g_func = f; g_src0 = src; g_dst0 = dst; g_size = size; g_align = align;
	g_chunk = align < 8 ? (unsigned)align : 8u;
	g.phase = 0; g.pos = 0; g.srcoff = 0; g.dstoff = 0; g.loadoff = 0; g.cursrc = src; g.curdst = dst; g.bcov = 0;
	g.ok_seq = g.ok_op = g.ok_src = g.ok_dst = g.ok_val = g.ok_inc = g.ok_contig = g.ok_mirror = g.ok_inrange = g.ok_natural = 1;
	CALL(PRE, POST, funccopy(f, dst, src, size, align));
}
