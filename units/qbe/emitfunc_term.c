/* UNIT
{
 "id": "QBE.emitfunc.term",
 "file": "qbe.c", "function": "emitfunc", "also_functions": ["funcret", "mkintconst"],
 "properties": {"C03": "contract", "C01": "contract", "C19": "safety"},
 "mode": "harness",
 "unwind": 10,
 "kind": "proof-const-unwind",
 "timeout": 60,
 "replay": false,
 "expects": ["assertion_verif"],
 "assumes": ["POST is checked at emitfunc()'s FIRST output call (puts(\"export\") / fputs(\"function \")), where the analysis stops: everything emitfunc does before it prints (the implicit-return logic) is covered for an arbitrary function body; the printing loops after that point (which only read the IL: emitname/emitvalue/emitinst/emitjump) are not part of this unit",
             "f->name is a NUL-terminated string of at most 7 characters (all such strings; `main` has 4) -- strcmp is CBMC's model, unwound 10 times with unwinding assertions",
             "typeint/typevoid are the unique type objects for int/void (type.c); xmalloc does not fail"]
}
*/
#include <stdbool.h>
#include <stdio.h>
/* the two functions emitfunc() can print with first are routed to the checking stub (stdio.h is already included,
   so only the CALLS in qbe.c are rewritten) */
int verif_first_out(int which, const char *s);
#define puts(s)      verif_first_out(1, s)
#define fputs(s, f)  verif_first_out(2, s)
#include "qbe.c"
#undef puts
#undef fputs
#include "verif.h"

/*
 * C03 "every function and block is terminated": when emitfunc() starts printing, the LAST block (f->end) must have a
 * jump; all other blocks either have one or fall through to their successor (legal in QBE), the last one cannot.
 * C11 5.1.2.2.3 (C01): "reaching the } that terminates the main function returns a value of 0" when main's return
 * type is int.  6.9.1p12: for any other function falling off the end is fine unless the caller uses the value.
 * An existing terminator is never replaced (QBE.jump.once.ret).
 * C09 "external definitions are exported": the very first output is the line `export` iff `global`.
 */
struct type typeint, typevoid;
struct func *g_f;
struct block *g_b0;
int g_jk0;
struct value *g_jarg0;
bool g_global, g_ismain, g_retint, g_retvoid;
int g_nout;                       /* number of output calls seen (the analysis stops after the first) */

#define PRE(X) \
	X(f != 0 && f == g_f && f->end != 0 && f->end == g_b0 && f->type != 0 && f->name != 0) \
	X(g_b0->jump.kind >= JUMP_NONE && g_b0->jump.kind <= JUMP_HLT && g_jk0 == (int)g_b0->jump.kind && g_jarg0 == g_b0->jump.arg) \
	X(g_retint == (f->type->base == &typeint) && g_retvoid == (f->type->base == &typevoid)) \
	X(g_ismain == (f->name[0] == 'm' && f->name[1] == 'a' && f->name[2] == 'i' && f->name[3] == 'n' && f->name[4] == 0)) \
	X(g_global == global && g_nout == 0)

/* evaluated inside the first output call: over ghosts, emitfunc's locals are not in scope there */
#define POST(X) \
	X(g_f->end == g_b0) \
	X(g_b0->jump.kind != JUMP_NONE) \
	X(IMP(g_jk0 != JUMP_NONE, (int)g_b0->jump.kind == g_jk0 && g_b0->jump.arg == g_jarg0)) \
	X(IMP(g_jk0 == JUMP_NONE, g_b0->jump.kind == JUMP_RET)) \
	X(IMP(g_jk0 == JUMP_NONE && g_ismain && g_retint, g_b0->jump.arg != 0 && g_b0->jump.arg->kind == VALUE_INTCONST && g_b0->jump.arg->u.i == 0)) \
	/* a void function returns no value (C03: returns agree with the signature); for other non-int/non-main \
	   functions that fall off the end any value will do (6.9.1p12, 5.1.2.2.3: unspecified), so nothing is required */ \
	X(IMP(g_jk0 == JUMP_NONE && g_retvoid, g_b0->jump.arg == 0)) \
	X(IMP(g_global, which == 1 && s[0] == 'e' && s[1] == 'x' && s[2] == 'p' && s[3] == 'o' && s[4] == 'r' && s[5] == 't' && s[6] == 0)) \
	X(IMP(!g_global, which == 2 && s[0] == 'f' && s[1] == 'u' && s[2] == 'n' && s[3] == 'c')) \
	CANARY(X, !(g_jk0 == JUMP_NONE && g_ismain && g_retvoid && g_global))

int
verif_first_out(int which, const char *s)
{
	g_nout++;
	POST(V_ASSERT)
	__CPROVER_assume(0);      /* stop here: the printing part is outside this unit */
	return 0;
}

void
harness(void)
{
	static struct func fn;
	static struct block b0;
	static struct type ft, other;
	static struct value ja;
	static char name[8];
	struct func *f = &fn;
	IN(int, in_jk);
	IN(u64, in_name);
	IN(int, in_base);
	IN(bool, global);
	int i;

	__CPROVER_assume(in_jk >= JUMP_NONE && in_jk <= JUMP_HLT);
	__CPROVER_assume(in_base >= 0 && in_base <= 2);
	for (i = 0; i < 7; i++)
		name[i] = (char)(in_name >> (8 * i));
	name[7] = 0;
	b0.jump.kind = in_jk;
	b0.jump.arg = &ja;
	ft.kind = TYPEFUNC;
	ft.base = in_base == 0 ? &typeint : in_base == 1 ? &typevoid : &other;
	fn.name = name;
	fn.type = &ft;
	fn.start = &b0;
	fn.end = &b0;
	g_f = f; g_b0 = &b0; g_jk0 = in_jk; g_jarg0 = b0.jump.arg; g_global = global; g_nout = 0;
	g_retint = in_base == 0;
	g_retvoid = in_base == 1;
	g_ismain = name[0] == 'm' && name[1] == 'a' && name[2] == 'i' && name[3] == 'n' && name[4] == 0;
	PRE(V_ASSUME)
	emitfunc(f, global);
	__CPROVER_assert(0, "emitfunc() returned without any output call");
}
