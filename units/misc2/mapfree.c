/* UNIT
{
 "id": "MAP.free",
 "file": "map.c", "function": "mapfree",
 "properties": {"C16": "contract", "C19": "safety"},
 "mode": "harness",
 "replace_calls": {"free": "rec_free"},
 "variants": {"cap4": ["-DV_CAP=4"], "cap8": ["-DV_CAP=8"]},
 "canary_variant": "cap4",
 "unwindset": ["mapfree.0:9", "harness.0:9", "harness.1:9"],
 "unwind": 9,
 "kind": "bounded",
 "bound": "tables of capacity 4 and 8, every occupancy pattern (each slot empty or live), with and without a destructor",
 "timeout": 120, "replay": false,
 "assumes": ["free() is replaced by a recorder (which pointer, how often, in which order relative to the destructor calls); the destructor is a recorder too",
             "the values of empty slots are never initialised by mapinit/mapput: the harness gives them a poison pointer that the destructor must never see"]
}
*/
/*
 * C16/C19 (clear / scope exit): mapfree(h, del) ends the life of a table: the destructor, if any, is applied EXACTLY
 * ONCE to the value of every live entry (no leak, no double free of e.g. qbe.c's goto labels: delfunc passes free) and
 * to nothing else (the value cell of a never-used slot is uninitialised memory); both tables are released exactly
 * once, and only after the last value has been read from them; the key bytes belong to the client (interned
 * identifiers) and are not released.
 */
#include <stdlib.h>
#include "map.c"
#include "verif.h"

#ifndef V_CAP
#define V_CAP 4
#endif
#define CAP V_CAP

static char vobj[CAP], poison, kbytes[CAP];
static unsigned g_delmask, g_ndel, g_nfree, g_freed_keys, g_freed_vals, g_bad;
static struct mapkey *g_keys; static void **g_vals;
static unsigned g_occ;

void
rec_free(void *p)
{
	g_nfree++;
	if (p == (void *)g_keys) g_freed_keys++;
	else if (p == (void *)g_vals) g_freed_vals++;
	else g_bad++;
}

static void
rec_del(void *v)
{
	unsigned j;
	char *c = v;

	__CPROVER_assert(g_nfree == 0, "values are read from the table before the table is released");
	__CPROVER_assert(c >= vobj && c < vobj + CAP, "the destructor sees only values of live entries (never an unused slot's cell)");
	__CPROVER_assume(c >= vobj && c < vobj + CAP);
	j = (unsigned)(c - vobj);
	__CPROVER_assert(g_occ >> j & 1, "the destructor sees only values of live entries");
	__CPROVER_assert(!(g_delmask >> j & 1), "no value is destroyed twice");
	g_delmask |= 1u << j;
	g_ndel++;
}

void
harness(void)
{
	static struct map m;
	struct map *h = &m;
	IN(unsigned, in_occ); IN(bool, in_hasdel);
	unsigned j, n = 0;

	__CPROVER_assume(in_occ < (1u << CAP));
	g_occ = in_occ;
	m.cap = CAP;
	m.keys = malloc(CAP * sizeof(m.keys[0]));
	m.vals = malloc(CAP * sizeof(m.vals[0]));
	__CPROVER_assume(m.keys != 0 && m.vals != 0);
	for (j = 0; j < CAP; j++) {
		bool occ = in_occ >> j & 1;
		m.keys[j].str = occ ? &kbytes[j] : 0;
		m.keys[j].len = 1; m.keys[j].hash = j;
		m.vals[j] = occ ? (void *)&vobj[j] : (void *)&poison;
		n += occ;
	}
	m.len = n;
	g_keys = m.keys; g_vals = m.vals;
	g_delmask = 0; g_ndel = 0; g_nfree = 0; g_freed_keys = 0; g_freed_vals = 0; g_bad = 0;

	mapfree(h, in_hasdel ? rec_del : 0);

	__CPROVER_assert(g_ndel == (in_hasdel ? n : 0), "the destructor runs once per live entry; without a destructor the values are left alone");
	__CPROVER_assert(IMP(in_hasdel, g_delmask == in_occ), "every live entry's value is destroyed");
	__CPROVER_assert(g_freed_keys == 1, "the key table is released exactly once");
	__CPROVER_assert(g_freed_vals == 1, "the value table is released exactly once");
	__CPROVER_assert(g_bad == 0 && g_nfree == 2, "nothing else is released (key bytes belong to the client)");
#ifdef VERIF_CANARY
	__CPROVER_assert(!(in_hasdel && in_occ == 5), "CANARY");
#endif
}
