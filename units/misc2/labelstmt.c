/* UNIT
{
 "id": "STMT.labelstmt",
 "file": "stmt.c", "function": "labelstmt", "also_functions": ["label", "stmt"],
 "properties": {"C16": "contract", "C01": "contract", "C19": "safety"},
 "mode": "harness",
 "unwind": 4, "unwindset": ["harness.0:7"],
 "variants": {"g_ll":  ["-DV_NL0=0", "-DV_SK0=SK_GOTO",  "-DV_NL1=2", "-DV_SK1=SK_NULL"],
              "ll_g":  ["-DV_NL0=2", "-DV_SK0=SK_NULL",  "-DV_NL1=0", "-DV_SK1=SK_GOTO"],
              "lg_b":  ["-DV_NL0=1", "-DV_SK0=SK_GOTO",  "-DV_NL1=0", "-DV_SK1=SK_BLOCK"],
              "g_l":   ["-DV_NL0=0", "-DV_SK0=SK_GOTO",  "-DV_NL1=1", "-DV_SK1=SK_NULL"],
              "l_g":   ["-DV_NL0=1", "-DV_SK0=SK_NULL",  "-DV_NL1=0", "-DV_SK1=SK_GOTO"],
              "g_g":   ["-DV_NL0=0", "-DV_SK0=SK_GOTO",  "-DV_NL1=0", "-DV_SK1=SK_GOTO"],
              "e_le":  ["-DV_NL0=0", "-DV_SK0=SK_EXPR",  "-DV_NL1=1", "-DV_SK1=SK_EXPR"],
              "lb_n":  ["-DV_NL0=1", "-DV_SK0=SK_BLOCK", "-DV_NL1=0", "-DV_SK1=SK_NULL"],
              "b_lg":  ["-DV_NL0=0", "-DV_SK0=SK_BLOCK", "-DV_NL1=1", "-DV_SK1=SK_GOTO"],
              "le_b":  ["-DV_NL0=1", "-DV_SK0=SK_EXPR",  "-DV_NL1=0", "-DV_SK1=SK_BLOCK"],
              "n_llg": ["-DV_NL0=0", "-DV_SK0=SK_NULL",  "-DV_NL1=2", "-DV_SK1=SK_GOTO"]},
 "canary_variant": "g_ll",
 "kind": "bounded",
 "bound": "two labelled statements in sequence (as the two arms of if/else), each: 0..2 labels drawn from {a, b}, then one of `;`, `goto X;`, `X;` (expression statement starting with an identifier), `{ X: ; }`; 11 of the 144 shape pairs (one CBMC run each, token KINDS constant so that symbolic execution prunes stmt()'s other arms; all label NAMES symbolic); every label name defined at most once in the function (duplicates: STMT.labelstmt.dup)",
 "timeout": 200, "replay": false,
 "assumes": ["next/peek/consume/expect are token-script stand-ins with pp.c's meaning; funcgoto() is a two-name label table (the real one is a MAP.* client in qbe.c); funclabel/funcjmp/funcexpr record events; mkscope/delscope are a counted pool (SCOPE.*); decl() finds no declaration; attr()/gnuattr() find no attribute",
             "native replay impossible: labelstmt is static and the stand-ins replace extern functions of other translation units"]
}
*/
/*
 * C11 6.8.1: labeled-statement: identifier : statement.  p3/6.2.1p3: a label name has FUNCTION scope: it can be used in a
 * goto "anywhere in the function in which it appears", before or after its definition; every mention of one name in a
 * function denotes one label (C16).  6.8.6.1p2: goto jumps to the statement prefixed by the named label.
 * An identifier NOT followed by ':' does not start a labelled statement (it starts an expression statement).
 * Hence, for the back end: each `name :` places THE block of that name at this point (in source order, before the
 * statement that follows), marks the name defined; `goto name` jumps to THE block of that name, whether the label was
 * defined before or comes later, and does not define it; exactly the tokens of the statement are consumed.
 */
#include "labelstmt_common.h"

void
harness(void)
{
	static struct scope outer;
	struct scope *s = &outer;
	struct func *f = 0;
	IN(unsigned, in_l00); IN(unsigned, in_l01); IN(unsigned, in_sn0);
	IN(unsigned, in_l10); IN(unsigned, in_l11); IN(unsigned, in_sn1);
	unsigned in_nl0 = V_NL0, in_sk0 = V_SK0, in_nl1 = V_NL1, in_sk1 = V_SK1;      /* shape: compile-time case split */
	unsigned i;

	__CPROVER_assume(in_nl0 <= 2 && in_l00 <= 1 && in_l01 <= 1 && in_sk0 < SK_N && in_sn0 <= 1);
	__CPROVER_assume(in_nl1 <= 2 && in_l10 <= 1 && in_l11 <= 1 && in_sk1 < SK_N && in_sn1 <= 1);
	g_ls[0].nl = in_nl0; g_ls[0].ln[0] = in_l00; g_ls[0].ln[1] = in_l01; g_ls[0].sk = in_sk0; g_ls[0].sn = in_sn0;
	g_ls[1].nl = in_nl1; g_ls[1].ln[0] = in_l10; g_ls[1].ln[1] = in_l11; g_ls[1].sk = in_sk1; g_ls[1].sn = in_sn1;
	build();
	__CPROVER_assume(g_ndef[0] <= 1 && g_ndef[1] <= 1);       /* C11 6.8.1p3; the violating inputs: STMT.labelstmt.dup */
	outer.parent = 0; outer.breaklabel = 0; outer.continuelabel = 0; outer.switchcases = 0;
	g_no_error = 1;                                            /* a well-formed statement is not rejected */

	labelstmt(f, s);
	__CPROVER_assert(s_pos == g_end[0], "6.8.1: exactly the labels and the statement they prefix are consumed");
	labelstmt(f, s);
	__CPROVER_assert(s_pos == g_end[1] && tok.kind == TRBRACE, "second labelled statement: consumed exactly, the token after it is current");

	__CPROVER_assert(nev == x_n, "one back-end request per label / jump / expression statement, no other");
	for (i = 0; i < 6; i++)
		if (i < x_n) {
			__CPROVER_assert(ev_kind[i] == x_kind[i], "labels are placed and statements lowered in source order, the label before the statement it prefixes");
			__CPROVER_assert(ev_arg[i] == x_arg[i], "6.2.1p3/6.8.6.1p2: a label definition and every goto naming it, earlier or later in the function, denote one and the same block; different names different blocks");
		}
	__CPROVER_assert(g_known[0] == (g_ndef[0] > 0 || (in_sk0 == SK_GOTO && in_sn0 == 0) || (in_sk1 == SK_GOTO && in_sn1 == 0)), "the label table gets an entry only for names used as labels (an identifier starting an expression statement is not one)");
	__CPROVER_assert(IMP(g_known[0], g_lab[0].defined == (g_ndef[0] > 0)), "a: recorded as defined iff a labelled statement defines it (a goto alone does not)");
	__CPROVER_assert(IMP(g_known[1], g_lab[1].defined == (g_ndef[1] > 0)), "b: recorded as defined iff a labelled statement defines it");
	__CPROVER_assert(g_lab[0].label == (g_known[0] ? &lblk[0] : g_lab[0].label) && IMP(g_known[1], g_lab[1].label == &lblk[1]), "the blocks of the labels are not re-pointed");
	__CPROVER_assert(g_open == 0, "6.8.2: every block scope opened by the statement is closed again");
	__CPROVER_assert(outer.parent == 0 && outer.breaklabel == 0 && outer.switchcases == 0, "enclosing scope untouched");
#ifdef VERIF_CANARY
	__CPROVER_assert(!(in_sn0 == 1 && in_l11 == 1 && in_l10 == 0), "CANARY");
#endif
}
