/* UNIT
{
 "id": "TYPE.same.strict",
 "file": "type.c", "function": "typesame", "also_functions": ["typecompatible"],
 "properties": {"C05": "contract", "C10": "contract"},
 "mode": "harness", "post_macro": "POST_SAME",
 "unwind": 2, "unwindset": ["typecompatible.0:3", "typesame.0:3"],
 "variants": {"basic": ["-DV_SH1=SH_BASIC", "-DV_SH2=SH_BASIC"], "ptr": ["-DV_SH1=SH_PTR", "-DV_SH2=SH_PTR"],
              "array": ["-DV_SH1=SH_ARRAY", "-DV_SH2=SH_ARRAY"], "func": ["-DV_SH1=SH_FUNC", "-DV_SH2=SH_FUNC"]},
 "canary_variant": "ptr",
 "kind": "proof-const-unwind",
 "timeout": 200,
 "expects": ["assertion_verif"],
 "assumes": ["FAILS on the pinned tree (genuine defect, `XXX: implement` in the source): typesame() is typecompatible(): `enum E {A}; typedef unsigned T; typedef enum E T;` and `typedef int T[]; typedef int T[3];` are accepted as redefinitions to the SAME type (gcc/clang: conflicting types for 'T'); exit status 0",
             "type shapes of depth <= 2 as in TYPE.compat (units/type/compat_contract.h builds them): both basic/enum/void, both pointers, both arrays, both functions with <= 2 parameters; no variable length arrays (6.7p3 excludes variably modified types from typedef redefinition; sameness of two VLA types is not a static property)",
             "harness-enforced (PRE assumed, POST asserted): recursion; DFCC would havoc the real type objects"]
}
*/
/*
 * C11 6.7p3: "a typedef name may be redefined to denote the SAME type as it currently does"; 6.2.7p1 defines only
 * compatibility, sameness is identity of the type denoted (6.2.5): an enumerated type and its underlying integer type
 * are two different (compatible) types (6.7.2.2p4, 6.2.5p16 "Each distinct enumeration constitutes a different
 * enumerated type"); `int[]` and `int[3]` are different (compatible) types (6.2.5p20: an array type is characterized by
 * its element type and the number of elements; 6.2.5p22 unknown size = incomplete type); derived types are the same iff
 * derived in the same way from the same types with the same qualifiers.
 * Callers: decl.c:1052 typedef redefinition; expr.c va_list checks of the __builtin_va_* family.
 */
#include "type.c"
#include "verif.h"
#define COMPAT_CASE (g_s[0].ar != AR_VLA && g_s[1].ar != AR_VLA)
#include "../type/compat_contract.h"

static inline bool
spec_same(void)
{
	struct shape *x = &g_s[0], *y = &g_s[1];

	if (x->t == y->t)
		return 1;
	if (x->sh != y->sh)
		return 0;
	if (x->sh == SH_BASIC)
		return 0;                                      /* two different basic/enumerated type objects */
	if (x->q != y->q || x->b != y->b)
		return 0;                                      /* pointee / element / return type and its qualifiers */
	if (x->sh == SH_PTR)
		return 1;
	if (x->sh == SH_ARRAY) {
		if (x->ar == AR_INCOMPLETE || y->ar == AR_INCOMPLETE)
			return x->ar == y->ar;
		return x->n == y->n;
	}
	if (x->var != y->var || x->np != y->np)
		return 0;
	if (x->np >= 1 && x->p[0] != y->p[0])
		return 0;
	if (x->np >= 2 && x->p[1] != y->p[1])
		return 0;
	return 1;
}

#define POST_SAME(X) \
	X(HRET == spec_same()) \
	/* the two reproducers */ \
	X(IMP((g_s[0].sh == SH_BASIC && t1->kind == TYPEENUM && t2 == t1->base), !HRET)) \
	X(IMP((g_s[0].sh == SH_ARRAY && g_s[0].ar == AR_INCOMPLETE && g_s[1].ar == AR_CONSTEXPR), !HRET)) \
	CANARY(X, !(g_s[0].sh == SH_PTR && g_s[0].b == &typeint && g_s[1].b == &typeint && g_s[0].q == g_s[1].q))

void
harness(void)
{
	IN(bool, in_charsigned);
	IN(bool, in_same);           /* t2 is the very object t1 */
	IN(unsigned, in_b1); IN(unsigned, in_eb1); IN(int, in_q1); IN(int, in_ar1); IN(u64, in_n1);
	IN(bool, in_var1); IN(unsigned, in_np1); IN(unsigned, in_p10); IN(unsigned, in_p11);
	IN(unsigned, in_b2); IN(unsigned, in_eb2); IN(int, in_q2); IN(int, in_ar2); IN(u64, in_n2);
	IN(bool, in_var2); IN(unsigned, in_np2); IN(unsigned, in_p20); IN(unsigned, in_p21);
	struct type *t1, *t2;
	int sh1 = V_SH1, sh2 = V_SH2;

	typechar.u.basic.issigned = in_charsigned;
	t1 = build(0, sh1, in_b1, in_eb1, in_q1, in_ar1, in_n1, in_var1, in_np1, in_p10, in_p11);
	t2 = build(1, sh2, in_b2, in_eb2, in_q2, in_ar2, in_n2, in_var2, in_np2, in_p20, in_p21);
	/* an operand's own enumerated type may be based on ANY integer type, so "the other operand is its base" is covered */
	if (in_same) {
		g_s[1] = g_s[0];
		t2 = t1;
	}
	g_no_error = 1;
	HCALLR(bool, PRE_COMPAT, POST_SAME, typesame(t1, t2));
}
