/* UNIT
{
 "id": "TYPE.composite.arraysize",
 "file": "type.c", "function": "typecomposite",
 "properties": {"C05": "contract", "C01": "contract"},
 "mode": "harness", "post_macro": "POST_COMP",
 "unwind": 2,
 "cflags": ["-DV_SH=SH_ARRAY", "-DCOMPAT_CASE=(spec_compat()&&ONE_KNOWN)"],
 "kind": "proof",
 "timeout": 200,
 "expects": ["assertion_verif"],
 "assumes": ["FAILS on the pinned tree (genuine defect, `XXX: implement 6.2.7` in the source): typecomposite() returns its first argument.  decl.c:946/967 pass the NEW declaration's type first, so `extern int a[3]; extern int a[]; int f(void){return sizeof a;}` is rejected ('sizeof operator applied to incomplete type'; swapped order compiles), and expr.c:1282 passes the second operand's referenced type first: `int (*p)[]; int (*q)[3]; ... sizeof(*(c?p:q))` rejected, `c?q:p` accepted.  Valid programs (C11 6.2.7p4, 6.5.15p6), gcc/clang accept both orders",
             "PRE: the operands are compatible array types of which exactly one has a known constant size (the other: unknown size or VLA); shapes as in TYPE.composite"]
}
*/
/*
 * C11 6.2.7p3: "A composite type can be constructed from two types that are compatible; it is a type that is compatible
 * with both of the two types and satisfies the following conditions: - If both types are array types ...: If one type is
 * an array of known constant size, the composite type is an array of that size ... The element type of the composite
 * type is the composite type of the two element types. ... - If both types are function types with parameter type
 * lists, the type of each parameter in the composite parameter type list is the composite type of the corresponding
 * parameters.  These rules apply recursively to the types from which the two types are derived."
 */
#include "type.c"
#include "verif.h"
#ifndef COMPAT_CASE
#define COMPAT_CASE (spec_compat() && !ONE_KNOWN)
#endif
#include "../type/compat_contract.h"
#include "composite_common.h"

void
harness(void)
{
	IN(bool, in_charsigned);
	IN(bool, in_same);
	IN(unsigned, in_b1); IN(unsigned, in_eb1); IN(int, in_q1); IN(int, in_ar1); IN(u64, in_n1);
	IN(bool, in_var1); IN(unsigned, in_np1); IN(unsigned, in_p10); IN(unsigned, in_p11);
	IN(unsigned, in_b2); IN(unsigned, in_eb2); IN(int, in_q2); IN(int, in_ar2); IN(u64, in_n2);
	IN(bool, in_var2); IN(unsigned, in_np2); IN(unsigned, in_p20); IN(unsigned, in_p21);
	struct type *t1, *t2;

	typechar.u.basic.issigned = in_charsigned;
	t1 = build(0, V_SH, in_b1, in_eb1, in_q1, in_ar1, in_n1, in_var1, in_np1, in_p10, in_p11);
	t2 = build(1, V_SH, in_b2, in_eb2, in_q2, in_ar2, in_n2, in_var2, in_np2, in_p20, in_p21);
	if (in_same) {
		g_s[1] = g_s[0];
		t2 = t1;
	}
	snapshot(t1, t2);
	g_no_error = 1;
	HCALLR(struct type *, PRE_COMPAT, POST_COMP, typecomposite(t1, t2));
}
