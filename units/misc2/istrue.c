/* UNIT
{
 "id": "EVAL.istrue",
 "file": "eval.c", "function": "istrue",
 "properties": {"C04": "contract", "C19": "safety"},
 "mode": "dfcc", "enforce": "istrue/istrue_contract",
 "kind": "proof",
 "timeout": 60,
 "expects": ["postcondition", "assigns"],
 "assumes": ["operand is a folded constant (kind EXPRCONST) of scalar type as eval() passes it: integer (any width, incl. _Bool/enum), floating (value kept as a double in u.constant.f, also for float) or pointer / nullptr_t (integer constant converted to a pointer: the address value lives in u.constant.u); long double constants are carried as double by the front end",
             "an address constant (&object) is never folded to EXPRCONST by eval(), so it does not reach istrue(): its truth is decided at run time (eval leaves `&x || 0` unfolded)"]
}
*/
/*
 * C11 6.5.13p3 / 6.5.14p3 / 6.5.15p4 / 6.8.4.1p2: an operand "compares unequal to 0".  Integer and pointer constants:
 * value != 0 (a null pointer constant converted to a pointer type is false, any other address value true).  Floating
 * constants: compared AS A FLOATING VALUE with 0 (6.5.9p4, IEC 60559): +0.0 and -0.0 are both false, every other
 * value is true, and a NaN is true (NaN != 0 holds).  The operand is not modified.
 */
#include "eval.c"
#include "verif.h"
#include "../eval/eval_util.h"

struct expr *g_e;
u64 g_bits;
struct type *g_t;
int g_cls;                /* 0 integer, 1 floating, 2 pointer */

/* the IEEE-754 binary64 value denoted by the bit pattern is zero iff all bits but the sign are clear */
#define FLT_IS_ZERO(b) (((b) & 0x7fffffffffffffffull) == 0)

#define PRE(X) \
	X(expr != 0 && expr == g_e && expr->type == g_t && g_t != 0) \
	X(expr->kind == EXPRCONST && expr->u.constant.u == g_bits) \
	X(g_cls == 0 || g_cls == 1 || g_cls == 2) \
	X(IMP(g_cls == 0, T_ISINT(g_t))) \
	X(IMP(g_cls == 1, T_ISFLT(g_t))) \
	X(IMP(g_cls == 2, !(g_t->prop & (PROPINT|PROPFLOAT)) && (g_t->prop & PROPSCALAR)))

#define POST(X) \
	X(IMP(g_cls != 1, RET == (g_bits != 0)))                           /* integer, pointer: value != 0 */ \
	X(IMP(g_cls == 1, RET == !FLT_IS_ZERO(g_bits)))                    /* floating: -0.0 false, NaN true */ \
	X(g_e->u.constant.u == g_bits && g_e->kind == EXPRCONST && g_e->type == g_t)    /* operand untouched */ \
	CANARY(X, !(g_cls == 1 && g_bits == 0x8000000000000000ull))

static bool istrue_contract(struct expr *expr)
REQUIRES(PRE)
__CPROVER_assigns()
ENSURES(POST);

void
harness(void)
{
	static struct expr ex;
	static struct type ty;
	IN(unsigned, in_cls); IN(int, in_kind); IN(unsigned, in_size); IN(bool, in_sg);
	ING(u64, g_bits);
	struct expr *expr = &ex;

	__CPROVER_assume(in_cls <= 2);
	__CPROVER_assume(in_size == 1 || in_size == 2 || in_size == 4 || in_size == 8 || in_size == 16);
	mk_type(&ty, in_cls, in_kind, in_size, in_sg);
	ex.kind = EXPRCONST; ex.type = &ty; ex.u.constant.u = g_bits;
	g_e = expr; g_t = &ty; g_cls = in_cls;
	CALLR(bool, PRE, POST, istrue(expr));
}
