/* UNIT
{
 "id": "STMT.labelstmt.undef",
 "file": "qbe.c", "function": "funcgoto",
 "properties": {"C10": "contract", "C16": "contract", "C19": "safety"},
 "mode": "harness",
 "unwind": 4,
 "kind": "proof",
 "timeout": 60, "replay": false,
 "assumes": ["FAILS on the pinned tree (genuine defect): funcgoto() creates the record of a label first mentioned by `goto` with xmalloc and never initialises `defined`; stmt.c:label() only ever SETS the flag and nothing reads it, so `void f(void){ goto nowhere; }` compiles with exit status 0 and emits `jmp @nowhere.3` to a block that does not exist (ill-formed IL, C03) -- C11 6.8.6.1p1 constraint, listed in C10 ('jump to an undefined label').  Repair: `g->defined = false;` here (units/misc2/repairs/qbe.c.patch) plus a check over f->gotos when the function body ends (decl.c after stmt(), or delfunc/emitfunc) -- the latter is outside this unit",
             "mapkey()/mapput() are a one-slot table (MAP.* units); the function's label table holds at most the one name used here",
             "the obligation that fails is the FIRST one a diagnosis of undefined labels needs: an undefined label must be recognisable as such"]
}
*/
/*
 * C11 6.8.6.1p1 (constraint): "The identifier in a goto statement shall name a label located somewhere in the enclosing
 * function."  To diagnose a violation at the end of the function body the label table must tell labels that were
 * defined (6.8.1 `identifier :`) from labels that were only jumped to.  funcgoto(f, name) is the table access used by
 * both: for a name not yet in the table it must create a record with a fresh block (the jump target) that is NOT YET
 * DEFINED; a later access with the same name returns the same record (C16: one label per name and function).
 */
#include "qbe.c"
#include "verif.h"

extern int g_no_error;
static void *g_slot; static int g_nput;
void mapkey(struct mapkey *k, const void *s, size_t n) { k->str = s; k->len = n; k->hash = 0; }
void **mapput(struct map *h, struct mapkey *k) { g_nput++; return &g_slot; }
void *mapget(struct map *h, struct mapkey *k) { return g_slot; }
void mapinit(struct map *h, size_t cap) { }
void mapfree(struct map *h, void del(void *)) { }

void
harness(void)
{
	static struct func fn;
	static char name[] = "x";
	struct gotolabel *g, *g2;

	g_slot = 0; g_nput = 0; g_no_error = 1;
	g = funcgoto(&fn, name);              /* `goto x;` */
	__CPROVER_assert(g != 0 && g->label != 0, "the jump gets a target block");
	__CPROVER_assert(g_slot == (void *)g && g_nput == 1, "the record is entered in the function's label table under the name");
	__CPROVER_assert(!g->defined, "C11 6.8.6.1p1 / C10: a label that has only been named in a goto is recorded as NOT defined (else a jump to an undefined label can never be diagnosed)");
	g2 = funcgoto(&fn, name);             /* a second `goto x;` or the definition `x:` */
	__CPROVER_assert(g2 == g && g2->label == g->label, "C16: every mention of the name in the function denotes the same label");
#ifdef VERIF_CANARY
	__CPROVER_assert(g_nput != 2, "CANARY");
#endif
}
