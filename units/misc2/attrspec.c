/* UNIT
{
 "id": "ATTR.attrspec",
 "file": "attr.c", "function": "attrspec", "also_functions": ["parseattr", "strip"],
 "properties": {"C10": "contract", "C06": "contract", "C19": "contract"},
 "mode": "harness",
 "unwind": 12, "unwindset": ["attrspec.0:5", "parseattr.0:7", "harness.0:4"],
 "variants": {"n0": ["-DV_N=0"], "n1": ["-DV_N=1"], "n2": ["-DV_N=2"], "n3": ["-DV_N=3"], "notspec": ["-DV_N=1", "-DV_NOTSPEC"]},
 "canary_variant": "n2",
 "cbmc_flags": ["--sat-solver", "cadical"],
 "kind": "bounded",
 "bound": "one attribute specifier `[[ list ]]` followed by `;`: the list has 0..3 elements, each a comma or an attribute out of {foo, packed, gnu::packed, __gnu__::__packed__, vnd::packed, gnu::foo, foo(args), vnd::foo(args)} with args one of `()`, `(1,1)`, `((1))`, `([1])` or the unterminated `(1 <end of input>`; closed by `]]`, by a single `]`, or cut off by end of input; plus the non-specifiers `[ 1 ]` and `;`.  Excluded here (they FAIL, see ATTR.attrspec.syntax): two attributes without a comma between them, and argument clauses whose brackets/braces do not balance",
 "timeout": 600, "replay": false,
 "assumes": ["next/peek/consume/expect are token-script stand-ins with pp.c's meaning (attr_common2.h); the set `allowed` contains packed (the not-supported-here diagnostic is ATTR.parseattr's business)",
             "native replay impossible (attrspec is static; stand-ins replace pp.c)"]
}
*/
/*
 * C23 (N3096) 6.7.12.1: attribute-specifier: `[ [ attribute-list ] ]`; attribute-list: attribute_opt | attribute-list ,
 * attribute_opt; attribute: attribute-token attribute-argument-clause_opt; attribute-token: identifier | identifier ::
 * identifier; attribute-argument-clause: ( balanced-token-sequence_opt ).  p4?: an attribute-token the implementation
 * does not know is ignored (6.7.12.1p3 "Any attribute-token that is not recognized ... is ignored"); the standard
 * attribute namespace has no `packed`: only gnu::packed (GCC manual "Attribute Syntax": `[[gnu::packed]]`, also spelled
 * with double underscores) requests packing.  `[` not followed by `[` does not start a specifier (array declarator).
 * C19: end of input anywhere inside the specifier is diagnosed; no skipping loop spins on EOF.
 */
#include "attr_common2.h"

enum { EL_COMMA, EL_FOO, EL_PACKED, EL_GNU_PACKED, EL_UGNU_UPACKED, EL_VND_PACKED, EL_GNU_FOO, EL_FOO_ARGS, EL_VND_FOO_ARGS, EL_N };
enum { END_OK, END_ONE, END_EOF, END_N };

void
harness(void)
{
	static struct attr am;
	struct attr *a;
	IN(unsigned, in_e0); IN(unsigned, in_e1); IN(unsigned, in_e2);
	IN(unsigned, in_s0); IN(unsigned, in_s1); IN(unsigned, in_s2);
	IN(unsigned, in_end); IN(bool, in_hasa); IN(int, in_oldkind); IN(int, in_oldalign); IN(unsigned, in_notspec);
	unsigned el[3] = {in_e0, in_e1, in_e2}, sh[3] = {in_s0, in_s1, in_s2};
	unsigned j, endpos;
	bool wf = true, prev_attr = false, cut = false, gnupacked = false, r;
	bool c_adjacent = false, c_unbalanced = false;      /* the two classes of ATTR.attrspec.syntax */

	__CPROVER_assume(in_e0 < EL_N && in_e1 < EL_N && in_e2 < EL_N && in_s0 < AS_N && in_s1 < AS_N && in_s2 < AS_N && in_end < END_N);
	__CPROVER_assume(in_oldkind >= 0 && in_oldkind <= 15 && in_oldalign >= 0);
	names_init();
	s_n = 0;
#ifdef V_NOTSPEC
	__CPROVER_assume(in_notspec <= 1);
	if (in_notspec == 0) { put(TLBRACK, 0); put(TNUMBER, 0); put(TRBRACK, 0); }
	put(TSEMICOLON, 0);
	wf = true; endpos = 0;
#else
	put(TLBRACK, 0); put(TLBRACK, 0);
	for (j = 0; j < 3; j++)
		if (j < V_N && !cut) {
			bool isattr = el[j] != EL_COMMA;
			if (isattr && prev_attr) {
				wf = false;                         /* attribute-list: attributes are separated by commas */
				c_adjacent = true;
			}
			if ((el[j] == EL_FOO_ARGS || el[j] == EL_VND_FOO_ARGS) && sh[j] >= AS_BRACE_BRACK && sh[j] <= AS_CROSSED)
				c_unbalanced = true;
			prev_attr = isattr;
			switch (el[j]) {
			case EL_COMMA: put(TCOMMA, 0); break;
			case EL_FOO: put(TIDENT, w_foo[j]); break;
			case EL_PACKED: set_packed(j, false); put(TIDENT, w_packed[j]); break;
			case EL_GNU_PACKED: set_gnu(j, false); set_packed(j, false); put(TIDENT, w_gnu[j]); put(TCOLONCOLON, 0); put(TIDENT, w_packed[j]); gnupacked = true; break;
			case EL_UGNU_UPACKED: set_gnu(j, true); set_packed(j, true); put(TIDENT, w_gnu[j]); put(TCOLONCOLON, 0); put(TIDENT, w_packed[j]); gnupacked = true; break;
			case EL_VND_PACKED: set_packed(j, false); put(TIDENT, w_vnd[j]); put(TCOLONCOLON, 0); put(TIDENT, w_packed[j]); break;
			case EL_GNU_FOO: set_gnu(j, false); put(TIDENT, w_gnu[j]); put(TCOLONCOLON, 0); put(TIDENT, w_foo[j]); break;
			case EL_FOO_ARGS: put(TIDENT, w_foo[j]); if (!put_args(sh[j])) wf = false; if (sh[j] == AS_OPEN) cut = true; break;
			default: put(TIDENT, w_vnd[j]); put(TCOLONCOLON, 0); put(TIDENT, w_foo[j]); if (!put_args(sh[j])) wf = false; if (sh[j] == AS_OPEN) cut = true; break;
			}
#ifndef V_SYNTAX
			/* the two input classes on which the pinned tree fails are ATTR.attrspec.syntax's */
			__CPROVER_assume(!(isattr && j > 0 && el[j - 1] != EL_COMMA));
			__CPROVER_assume(!((el[j] == EL_FOO_ARGS || el[j] == EL_VND_FOO_ARGS) && sh[j] >= AS_BRACE_BRACK && sh[j] <= AS_CROSSED));
#endif
		}
	if (cut || in_end == END_EOF) wf = false;                      /* end of input inside the specifier */
	else if (in_end == END_ONE) { put(TRBRACK, 0); wf = false; put(TSEMICOLON, 0); }
	else { put(TRBRACK, 0); put(TRBRACK, 0); put(TSEMICOLON, 0); }
	endpos = s_n - 1;
#endif
	__CPROVER_assert(s_n <= NSCRIPT, "script fits");
	s_pos = 0; g_eof_next = 0; settok();
	a = in_hasa ? &am : 0;
	am.kind = in_oldkind; am.align = in_oldalign;
	g_no_error = wf;
#ifdef V_SYNTAX
	__CPROVER_assume((c_adjacent || c_unbalanced) && !cut && in_end == END_OK);
#ifdef VERIF_CANARY
	__CPROVER_assert(!(in_e0 == EL_FOO && in_e1 == EL_FOO), "CANARY");
#endif
#endif

	r = attrspec(a, ATTRPACKED);

	__CPROVER_assert(wf, "C23 6.7.12.1 / C19: a malformed attribute specifier (missing `]]`, end of input inside the list or inside an argument clause, attributes not separated by commas, unbalanced argument clause) is diagnosed");
	__CPROVER_assume(wf);
#ifdef V_NOTSPEC
	__CPROVER_assert(!r && s_pos == 0 && tok.kind == s_kind[0], "`[` not followed by `[` (or no `[` at all) is not an attribute specifier: nothing is consumed");
	__CPROVER_assert(am.kind == in_oldkind && am.align == in_oldalign, "... and nothing recorded");
#else
	__CPROVER_assert(r, "an attribute specifier was parsed");
	__CPROVER_assert(s_pos == endpos && tok.kind == TSEMICOLON, "exactly the tokens up to and including the closing `]]` are consumed");
	__CPROVER_assert(IMP(in_hasa, (int)am.kind == (in_oldkind | (gnupacked ? ATTRPACKED : 0))), "recorded: what was there, plus packed iff gnu::packed / __gnu__::__packed__ occurs; unknown, vendor-prefixed and unprefixed `packed` tokens are ignored (6.7.12.1)");
	__CPROVER_assert(am.align == in_oldalign && IMP(!in_hasa, (int)am.kind == in_oldkind), "no alignment recorded; without a result object only the syntax is checked");
	__CPROVER_assert(g_eof_next == 0, "end of input is not reached");
#endif
#if defined(VERIF_CANARY) && !defined(V_SYNTAX)
	__CPROVER_assert(!(in_e0 == EL_VND_FOO_ARGS && in_s0 == AS_BRACK && in_e1 == EL_COMMA), "CANARY");
#endif
}
