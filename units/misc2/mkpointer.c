/* UNIT
{
 "id": "TYPE.mkpointer",
 "file": "type.c", "function": "mkpointertype", "also_functions": ["mktype"],
 "properties": {"C06": "contract", "C05": "contract", "C19": "safety"},
 "mode": "dfcc", "enforce": "mkpointertype/mkpointertype_contract",
 "kind": "proof",
 "timeout": 60,
 "expects": ["postcondition", "assigns"],
 "assumes": ["xmalloc does not fail (stubs/base.c)", "base may be NULL (decl.c:declarator builds the derivation chain first and links the referenced types afterwards)"]
}
*/
/*
 * C11 6.2.5p20 (pointer type derived from the referenced type), 6.2.5p21 (scalar), 6.7.6.1p1 ("for each type qualifier in
 * the list, ident is a so-qualified pointer": `qual` here is the qualification of the REFERENCED type, kept in ->qual
 * next to ->base; the pointer's own qualifiers travel separately with the declaration/expression); LP64 psABIs
 * (x86_64 SysV fig. 3.1, AAPCS64 10.1, RISC-V ELF psABI "C types"): every object/function pointer has size 8, alignment 8.
 * 6.7.6p3/6.7.6.2p? "variably modified": a pointer to a variably modified type is variably modified; a pointer is never
 * an arithmetic/integer/floating type whatever it points to.
 */
#include "type.c"
#include "verif.h"

struct type *g_base;
int g_bprop, g_bkind; unsigned long long g_bsize;

#define PRE(X) \
	X(base == g_base) \
	X(IMP(base != 0, (g_bprop == (int)base->prop && g_bkind == (int)base->kind && g_bsize == base->size)))

#define POST(X) \
	X(RET != 0 && RET != g_base) \
	X(RET->kind == TYPEPOINTER) \
	X(RET->base == g_base) \
	X(RET->qual == qual) \
	X(RET->size == 8 && RET->align == 8) \
	X((RET->prop & ~PROPVM) == PROPSCALAR) \
	X(((RET->prop & PROPVM) != 0) == (g_base != 0 && (g_bprop & PROPVM) != 0)) \
	X(RET->value == 0 && !RET->incomplete && !RET->flexible) \
	X(IMP(g_base != 0, ((int)g_base->prop == g_bprop && (int)g_base->kind == g_bkind && g_base->size == g_bsize))) \
	CANARY(X, !(g_base != 0 && (g_bprop & PROPVM) && qual == QUALCONST))

struct type *mkpointertype_contract(struct type *base, enum typequal qual)
REQUIRES(PRE)
__CPROVER_assigns()
ENSURES(POST);

void
harness(void)
{
	static struct type tb;
	IN(bool, in_hasbase); IN(int, in_bprop); IN(int, in_bkind); IN(u64, in_bsize); IN(int, in_qual);
	struct type *base = in_hasbase ? &tb : 0;
	enum typequal qual = in_qual;

	tb.prop = in_bprop; tb.kind = in_bkind; tb.size = in_bsize;
	g_base = base; g_bprop = in_bprop; g_bkind = in_bkind; g_bsize = in_bsize;
	CALLR(struct type *, PRE, POST, mkpointertype(base, qual));
}
