/*
 * Shared by STMT.labelstmt and STMT.labelstmt.dup: stmt.c:labelstmt() (with the real label() and stmt()) run on a
 * scripted token stream, between stand-ins for the parser/back-end callees.
 *   next/peek/consume/expect   pp.c, re-stated over the script; peek(k) has pp.c's meaning: if the token AFTER the current
 *                              one is k, both are consumed and the one after becomes current, else nothing changes
 *   funcgoto()                 qbe.c: the per-function label table (name -> struct gotolabel), here two names 'a', 'b'; a
 *                              name first mentioned gets a record with its own block and defined == false
 *   funclabel/funcjmp/funcexpr qbe.c: event log
 *   mkscope/delscope           scope.c (SCOPE.*): pool with parent links, counted
 */
#include "stmt.c"
#include "verif.h"

struct token tok;
extern int g_no_error;
struct block { int id; };
struct value { int id; };
struct type typevoid;

#define NTOK 24
static enum tokenkind s_kind[NTOK]; static char *s_lit[NTOK]; static unsigned s_n, s_pos;
static char n_a[] = "a", n_b[] = "b";

static void settok(void)
{
	if (s_pos < s_n && s_pos < NTOK) { tok.kind = s_kind[s_pos]; tok.lit = s_lit[s_pos]; }
	else { tok.kind = TEOF; tok.lit = 0; }
}
void next(void) { __CPROVER_assert(s_pos < s_n, "nothing is read past the end of the script"); s_pos++; settok(); }
bool
peek(int k)
{
	if (s_pos + 1 < s_n && s_pos + 1 < NTOK && s_kind[s_pos + 1] == (enum tokenkind)k) { s_pos += 2; settok(); return true; }
	return false;
}
bool consume(int k) { if (tok.kind != (enum tokenkind)k) return false; next(); return true; }
char *expect(enum tokenkind k, const char *msg) { char *lit = tok.lit; if (tok.kind != k) verif_noreturn(); next(); return lit; }
bool attr(struct attr *a, enum attrkind k) { return false; }
bool gnuattr(struct attr *a, enum attrkind k) { return false; }

/* event log */
enum { EV_LABEL = 1, EV_JMP, EV_EXPR };
#define NEV 12
static int ev_kind[NEV]; static void *ev_arg[NEV]; static unsigned nev;
static void ev(int kind, void *a) { if (nev < NEV) { ev_kind[nev] = kind; ev_arg[nev] = a; } nev++; }

/* the function's label table */
static struct block lblk[2], oblk[4]; static unsigned noblk;
static struct gotolabel g_lab[2]; static bool g_known[2]; static int g_ngoto;
struct gotolabel *
funcgoto(struct func *f, char *name)
{
	int n = name[0] == 'a' ? 0 : 1;

	__CPROVER_assert(name == n_a || name == n_b, "the label table is consulted with the identifier's spelling");
	g_ngoto++;
	if (!g_known[n]) { g_known[n] = true; g_lab[n].label = &lblk[n]; g_lab[n].defined = false; }
	return &g_lab[n];
}
void funclabel(struct func *f, struct block *b) { ev(EV_LABEL, b); }
void funcjmp(struct func *f, struct block *b) { ev(EV_JMP, b); }
static struct value val0; static struct expr e_x; static struct type t_int;
struct value *funcexpr(struct func *f, struct expr *e) { ev(EV_EXPR, e); return &val0; }
struct expr *expr(struct scope *s) { __CPROVER_assert(tok.kind == TIDENT, "expression statement starts at its first token"); next(); return &e_x; }
void delexpr(struct expr *e) { }
struct expr *exprpromote(struct expr *e) { return e; }
struct expr *exprassign(struct expr *e, struct type *t) { return e; }
bool decl(struct scope *s, struct func *f) { return false; }
struct block *mkblock(char *name) { return &oblk[noblk++ & 3]; }
void funcjnz(struct func *f, struct value *v, struct type *t, struct block *b1, struct block *b2) { }
void funcswitch(struct func *f, struct value *v, struct switchcases *c, struct block *d) { }
void funcret(struct func *f, struct value *v) { }
struct type *functype(struct func *f) { return &t_int; }
unsigned long long intconstexpr(struct scope *s, bool allowneg) { return 0; }
void switchcase(struct switchcases *c, unsigned long long i, struct block *b) { }

#define NSC 4
static struct scope scpool[NSC]; static unsigned nsc; static int g_open;
struct scope *
mkscope(struct scope *parent)
{
	struct scope *s = &scpool[nsc++ % NSC];
	s->decls.len = 0; s->tags.len = 0;
	s->breaklabel = parent->breaklabel; s->continuelabel = parent->continuelabel; s->switchcases = parent->switchcases;
	s->parent = parent; g_open++;
	return s;
}
struct scope *delscope(struct scope *s) { g_open--; return s->parent; }

/* statement kinds of the script */
enum { SK_NULL, SK_GOTO, SK_EXPR, SK_BLOCK, SK_N };

/* one `labelled-statement` of the script: nl labels (names ln[]), then statement kind sk with name sn */
struct lsdesc { unsigned nl; unsigned ln[2]; unsigned sk; unsigned sn; };
static struct lsdesc g_ls[2];
/* what the standard says must be told to the back end, in order */
static int x_kind[NEV]; static void *x_arg[NEV]; static unsigned x_n;
static unsigned g_ndef[2];           /* definitions of label 'a' / 'b' in the function */
static unsigned g_end[2];            /* script index just after statement i */

static void put(enum tokenkind k, char *lit) { if (s_n < NTOK) { s_kind[s_n] = k; s_lit[s_n] = lit; } s_n++; }
static void xev(int k, void *a) { if (x_n < NEV) { x_kind[x_n] = k; x_arg[x_n] = a; } x_n++; }
#define NAME(n) ((n) ? n_b : n_a)

static void
build(void)
{
	unsigned i, j;

	s_n = 0; x_n = 0; g_ndef[0] = g_ndef[1] = 0;
	for (i = 0; i < 2; i++) {
		for (j = 0; j < 2; j++)
			if (j < g_ls[i].nl) {
				put(TIDENT, NAME(g_ls[i].ln[j])); put(TCOLON, 0);
				xev(EV_LABEL, &lblk[g_ls[i].ln[j]]); g_ndef[g_ls[i].ln[j]]++;
			}
		switch (g_ls[i].sk) {
		case SK_NULL: put(TSEMICOLON, 0); break;
		case SK_GOTO: put(TGOTO, 0); put(TIDENT, NAME(g_ls[i].sn)); put(TSEMICOLON, 0); xev(EV_JMP, &lblk[g_ls[i].sn]); break;
		case SK_EXPR: put(TIDENT, NAME(g_ls[i].sn)); put(TSEMICOLON, 0); xev(EV_EXPR, &e_x); break;
		default:      put(TLBRACE, 0); put(TIDENT, NAME(g_ls[i].sn)); put(TCOLON, 0); put(TSEMICOLON, 0); put(TRBRACE, 0);
		              xev(EV_LABEL, &lblk[g_ls[i].sn]); g_ndef[g_ls[i].sn]++; break;
		}
		g_end[i] = s_n;
	}
	put(TRBRACE, 0);       /* the enclosing function body goes on */
	s_pos = 0; settok();
	nev = 0; noblk = 0; nsc = 0; g_open = 0; g_ngoto = 0;
	g_known[0] = g_known[1] = false;
	t_int.kind = TYPEINT; t_int.prop = PROPSCALAR|PROPARITH|PROPREAL|PROPINT; t_int.size = 4; t_int.align = 4; t_int.u.basic.issigned = 1;
	e_x.kind = EXPRIDENT; e_x.type = &t_int;
}
