/* UNIT
{
 "id": "ATTR.gnuattr.syntax",
 "file": "attr.c", "function": "gnuattr", "also_functions": ["gnuattrspec", "parseattr"],
 "properties": {"C10": "contract"},
 "mode": "harness",
 "unwind": 12,
 "cflags": ["-DV_K=1", "-DV_SYNTAX"],
 "kind": "bounded",
 "bound": "`__attribute__ (( e0 e1 )) ;` with e0, e1 two ATTRIBUTES (not commas) out of packed, __packed__, foo, foo(1,1), foo((1))",
 "timeout": 200, "replay": false,
 "assumes": ["FAILS on the pinned tree (genuine defect): gnuattrspec() loops `while (parseattr(..) || consume(TCOMMA))`, so the comma between attributes is optional: `int x __attribute__((unused used));` and `struct __attribute__((packed packed)) S { char c; int i; };` compile with exit status 0 (gcc: expected ')' before 'used'); GCC manual: an attribute list is a comma-separated sequence",
             "the harness is that of gnuattr_seq.c compiled with -DV_SYNTAX"]
}
*/
#include "gnuattr_seq.c"
