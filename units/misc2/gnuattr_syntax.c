/* UNIT
{
 "id": "ATTR.gnuattr.syntax",
 "file": "attr.c", "function": "gnuattr", "also_functions": ["gnuattrspec", "parseattr"],
 "properties": {"C10": "contract"},
 "mode": "harness",
 "unwind": 12, "unwindset": ["gnuattr.0:5", "gnuattrspec.0:4", "parseattr.0:7", "harness.0:4", "harness.1:4"],
 "variants": {"p_p":   ["-DV_SYNTAX", "-DV_K=1", "-DV_N0=2", "-DV_E00=EL_PACKED", "-DV_E01=EL_PACKED", "-DV_N1=0", "-DV_E10=0"],
              "f_up":  ["-DV_SYNTAX", "-DV_K=1", "-DV_N0=2", "-DV_E00=EL_FOO", "-DV_E01=EL_UPACKED", "-DV_N1=0", "-DV_E10=0"],
              "fl_f":  ["-DV_SYNTAX", "-DV_K=1", "-DV_N0=2", "-DV_E00=EL_FOO_LIST", "-DV_E01=EL_FOO", "-DV_N1=0", "-DV_E10=0"]},
 "canary_variant": "p_p",
 "cbmc_flags": ["--sat-solver", "cadical"],
 "kind": "bounded",
 "bound": "`__attribute__ (( e0 e1 )) ;` with (e0, e1) = (packed, packed), (foo, __packed__), (foo(1,1), foo): two attributes without a comma",
 "timeout": 600, "replay": false,
 "assumes": ["FAILS on the pinned tree (genuine defect): gnuattrspec() loops `while (parseattr(..) || consume(TCOMMA))`, so the comma between attributes is optional: `int x __attribute__((unused used));` and `struct __attribute__((packed packed)) S { char c; int i; };` compile with exit status 0 (gcc: expected ')' before 'used'); GCC manual: an attribute list is a comma-separated sequence",
             "the harness is that of gnuattr_seq.c compiled with -DV_SYNTAX"]
}
*/
#include "gnuattr_seq.c"
