/* UNIT
{
 "id": "SCOPE.shadow.realmap",
 "file": "scope.c", "function": "delscope", "also_functions": ["mkscope", "scopeputdecl", "scopeputtag", "scopegetdecl", "scopegettag", "mapinit", "mapput", "mapget", "mapfree", "mapkey", "keyindex", "keyequal", "hash"],
 "properties": {"C16": "contract", "C19": "safety"},
 "mode": "harness",
 "link_repo": ["map.c"],
 "unwind": 5, "unwindset": ["mapinit.0:33", "keyindex.0:5", "harness.0:4", "harness.1:4", "harness.2:4", "harness.3:4", "harness.4:4", "harness.5:4", "want_decl.0:4", "want_tag.0:4"],
 "cflags": ["-DVERIF_OWN_XMALLOC"],
 "variants": {"mixed": ["-DV_BD=0x115", "-DV_BT=0x0a3", "-DV_REV=0"],
              "all":   ["-DV_BD=0x1ff", "-DV_BT=0x1ff", "-DV_REV=1"],
              "split": ["-DV_BD=0x1c0", "-DV_BT=0x007", "-DV_REV=0"]},
 "canary_variant": "all",
 "cbmc_flags": ["--memory-leak-check"],
 "kind": "bounded",
 "bound": "file scope + two nested block scopes; three names 'a', 'ah', 'ba' that share the home slot of the 32-slot table ('a' is a prefix of 'ah', 'ba' differs from 'ah' in bytes only); three binding configurations, one CBMC run each (mixed: ordinary a,ba / ah / ba and tags a,ah / ba / ah in file / outer / inner scope; all: every name bound in both name spaces in every scope, entered in reverse order; split: ordinary identifiers only in the inner scope, tags only at file scope); symbolic: the looked-up name, the scope the lookup starts in, recurse, optionally one name re-bound in the innermost scope; one lookup before and one after each scope exit",
 "timeout": 300, "replay": false,
 "assumes": ["scope.c is run together with the REAL map.c (FNV-1a hash, linear probing, memcmp, malloc/free); only xmalloc/xreallocarray are stand-ins (do not fail)",
             "PRE of delscope (from its call sites: every delscope in stmt.c/decl.c closes a scope obtained from mkscope): s is not the file scope; the file scope, a static object, is never deleted",
             "the table does not grow (at most 3 names per table; growth: MAP.putget.bnd)",
             "native replay impossible (needs two repo translation units)"]
}
*/
/*
 * C11 6.2.1p4: "If an identifier designates two different entities in the same name space, the scopes might overlap.
 * If so, the scope of one entity (the inner scope) will end strictly before the scope of the other entity (the outer
 * scope).  Within the inner scope, the identifier designates the entity declared in the inner scope; the entity
 * declared in the outer scope is hidden (and not visible) within the inner scope."  => while the inner scope is open a
 * lookup finds the inner entity; once it has ended (delscope) the outer entity is visible again, unchanged.
 * 6.2.3p1: tags and ordinary identifiers are separate name spaces: `struct a` and a variable `a` do not collide.
 * 6.2.1p2 "different entities designated by the same identifier either have different scopes, or are in different name
 * spaces"; identifiers are the same iff same spelling (6.4.2.1): 'a' / 'ah' / 'ba' are three names although their
 * hashes share the low bits.  Re-binding a name in ONE scope (completing a tag, redeclaration) replaces the binding.
 * delscope(s): returns the enclosing scope, releases the scope and its tables exactly once (C19: no double free, no
 * free of a table that was never allocated, no leak).
 */
#include "scope.c"
#include "verif.h"

const struct target *targ;
struct block { int dummy; };

#ifndef VERIF_REPLAY
/* allocation stand-ins: do not fail; the tables are 32 slots and never grow here (<= 3 names per table), which is asserted,
   so that symbolic execution does not follow mapput's growth path */
void *xmalloc(size_t n) { void *p = malloc(n); __CPROVER_assume(p != 0); return p; }
void *
xreallocarray(void *buf, size_t n, size_t m)
{
	void *p;
	__CPROVER_assert(buf == 0 && n == 32, "scope tables are created with 32 slots and do not grow with <= 3 names");
	__CPROVER_assume(n == 32);
	/* typed allocations: CBMC then models the tables as arrays of structs / pointers instead of byte arrays */
	if (m == sizeof(struct mapkey))
		p = malloc(32 * sizeof(struct mapkey));
	else {
		__CPROVER_assert(m == sizeof(void *), "map.c allocates a key table and a value table");
		p = malloc(32 * sizeof(void *));
	}
	__CPROVER_assume(p != 0);
	return p;
}
#endif

static char nm[3][3] = { "a", "ah", "ba" };
static struct decl dd[3][3], dd_re;           /* ordinary declarations [scope][name], and the re-declaration */
static struct type tt[3][3], tt_re;
static unsigned g_bd, g_bt;

#define BIT(m, sc, n) ((m) >> (3 * (sc) + (n)) & 1)

/* the declaration / tag that C11 6.2.1p4 makes `name` denote when used in scope `from`, scopes above `top` having ended */
static struct decl *
want_decl(unsigned from, unsigned name, bool recurse, bool redone)
{
	unsigned i;
	for (i = 0; i < 3; i++) {
		unsigned j = from - i;
		if (i > from) break;
		if (BIT(g_bd, j, name) && (recurse || j == from))
			return redone && j == 2 ? &dd_re : &dd[j][name];
		if (!recurse) break;
	}
	return 0;
}
static struct type *
want_tag(unsigned from, unsigned name, bool recurse, bool redone)
{
	unsigned i;
	for (i = 0; i < 3; i++) {
		unsigned j = from - i;
		if (i > from) break;
		if (BIT(g_bt, j, name) && (recurse || j == from))
			return redone && j == 2 ? &tt_re : &tt[j][name];
		if (!recurse) break;
	}
	return 0;
}

void
harness(void)
{
	struct scope *sc[3], *r;
	unsigned i, n;
	IN(unsigned, in_binddecl); IN(unsigned, in_bindtag);
	IN(unsigned, in_from); IN(unsigned, in_name); IN(bool, in_recurse);
	IN(bool, in_rev);                      /* enter the names of a scope in reverse order (other probe layout) */
	IN(bool, in_redecl); IN(bool, in_retag);   /* re-bind in_name in the innermost scope */
	IN(unsigned, in_name2); IN(bool, in_recurse2);
	static struct block b0, b1; static struct switchcases sw;

	__CPROVER_assume(in_from < 3 && in_name < 3 && in_name2 < 3 && in_binddecl < 512 && in_bindtag < 512);
	__CPROVER_assume(in_binddecl == V_BD && in_bindtag == V_BT && in_rev == V_REV);
	g_bd = V_BD; g_bt = V_BT;                  /* compile-time case split: the tables then have constant contents up to the re-binding */
	__CPROVER_assume(!in_redecl || BIT(g_bd, 2, in_name));
	__CPROVER_assume(!in_retag || BIT(g_bt, 2, in_name));
	filescope.breaklabel = &b0; filescope.continuelabel = &b1; filescope.switchcases = &sw;
	sc[0] = &filescope;
	sc[1] = mkscope(sc[0]);
	sc[2] = mkscope(sc[1]);
	__CPROVER_assert(sc[1] != sc[0] && sc[2] != sc[1] && sc[2] != sc[0] && sc[1]->parent == sc[0] && sc[2]->parent == sc[1], "mkscope: a fresh scope nested in its parent");
	__CPROVER_assert(sc[2]->breaklabel == &b0 && sc[2]->continuelabel == &b1 && sc[2]->switchcases == &sw, "mkscope: jump targets of the enclosing statement are inherited");
	__CPROVER_assert(scopegetdecl(sc[2], nm[0], false) == 0 && scopegettag(sc[2], nm[0], false) == 0, "a fresh scope declares nothing");
	/* every name reaches scope.c/map.c as a CONSTANT pointer (case split by constant-index loops): a symbolic spelling would
	   make the real FNV-1a multiplications symbolic */
#define PUTS(i, n) do { dd[i][n].name = nm[n]; \
		if (BIT(g_bd, i, n)) scopeputdecl(sc[i], &dd[i][n]); \
		if (BIT(g_bt, i, n)) scopeputtag(sc[i], nm[n], &tt[i][n]); } while (0)
	for (i = 0; i < 3; i++) {
		if (V_REV) { PUTS(i, 2); PUTS(i, 1); PUTS(i, 0); }
		else { PUTS(i, 0); PUTS(i, 1); PUTS(i, 2); }
	}
	for (n = 0; n < 3; n++)
		if (n == in_name) {
			dd_re.name = nm[n];
			if (in_redecl)
				scopeputdecl(sc[2], &dd_re);
			if (in_retag)
				scopeputtag(sc[2], nm[n], &tt_re);
		}

	/* all three scopes open */
	for (i = 0; i < 3; i++)
		for (n = 0; n < 3; n++)
			if (i == in_from && n == in_name) {
				__CPROVER_assert(scopegetdecl(sc[i], nm[n], in_recurse) == want_decl(i, n, in_recurse, in_redecl),
				                 "6.2.1p4 ordinary identifier: the innermost enclosing declaration of exactly that spelling (only the given scope without recurse); never a tag; a re-declaration in the same scope replaces the binding");
				__CPROVER_assert(scopegettag(sc[i], nm[n], in_recurse) == want_tag(i, n, in_recurse, in_retag),
				                 "6.2.3 tag: the innermost enclosing tag of that spelling, independent of ordinary identifiers of the same spelling");
			}

	/* the innermost scope ends */
	r = delscope(sc[2]);
	__CPROVER_assert(r == sc[1], "delscope returns the enclosing scope");
	for (n = 0; n < 3; n++)
		if (n == in_name2) {
			__CPROVER_assert(scopegetdecl(r, nm[n], in_recurse2) == want_decl(1, n, in_recurse2, false),
			                 "6.2.1p4: when the inner scope has ended the outer declaration it hid is visible again; bindings of enclosing scopes are untouched");
			__CPROVER_assert(scopegettag(r, nm[n], in_recurse2) == want_tag(1, n, in_recurse2, false), "the same for tags");
		}
	r = delscope(sc[1]);
	__CPROVER_assert(r == &filescope && filescope.parent == 0, "the outermost block scope returns to the file scope");
	for (n = 0; n < 3; n++)
		if (n == in_name2) {
			__CPROVER_assert(scopegetdecl(r, nm[n], true) == want_decl(0, n, true, false), "file-scope declarations survive every block scope");
			__CPROVER_assert(scopegettag(r, nm[n], true) == want_tag(0, n, true, false), "file-scope tags survive every block scope");
		}
	/* the file scope lives to the end of the translation unit; release its tables here so that the leak check speaks
	   about what mkscope/scopeput* allocated and delscope must have released */
	if (filescope.decls.len) mapfree(&filescope.decls, 0);
	if (filescope.tags.len) mapfree(&filescope.tags, 0);
#ifdef VERIF_CANARY
	__CPROVER_assert(!(in_from == 2 && in_recurse && in_name == 1 && in_redecl && in_name2 == 2), "CANARY");
#endif
}
