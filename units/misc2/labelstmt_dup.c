/* UNIT
{
 "id": "STMT.labelstmt.dup",
 "file": "stmt.c", "function": "labelstmt", "also_functions": ["label", "stmt"],
 "properties": {"C10": "contract", "C16": "contract"},
 "mode": "harness",
 "unwind": 4,
 "variants": {"l_l":  ["-DV_NL0=1", "-DV_SK0=SK_NULL",  "-DV_NL1=1", "-DV_SK1=SK_NULL"],
              "ll_n": ["-DV_NL0=2", "-DV_SK0=SK_NULL",  "-DV_NL1=0", "-DV_SK1=SK_NULL"],
              "l_b":  ["-DV_NL0=1", "-DV_SK0=SK_GOTO",  "-DV_NL1=0", "-DV_SK1=SK_BLOCK"],
              "b_ll": ["-DV_NL0=0", "-DV_SK0=SK_BLOCK", "-DV_NL1=2", "-DV_SK1=SK_EXPR"]},
 "canary_variant": "l_l",
 "kind": "bounded",
 "bound": "two labelled statements in sequence, shapes `X: ;` `Y: ;` / `X: Y: ;` `;` / `X: goto Z;` `{ Y: ; }` / `{ X: ; }` `Y: W: Z;`, names drawn from {a, b} such that one name is defined at least twice",
 "timeout": 200, "replay": false,
 "assumes": ["FAILS on the pinned tree (genuine defect): stmt.c:label() sets g->defined = true without looking at it: `int f(int x) { a: x++; a: x--; goto a; return x; }` compiles with exit status 0 (both definitions are merged into one block); gcc/clang: duplicate label 'a'.  Repair: `if (g->defined) error(&tok.loc, \"duplicate label '%s'\", name);` before the assignment, and `g->defined = false;` for a new entry in qbe.c:funcgoto (the field is otherwise uninitialised heap memory)",
             "stand-ins as in STMT.labelstmt (labelstmt_common.h): funcgoto() is a two-name label table whose new entries have defined == false"]
}
*/
/*
 * C11 6.8.1p3 (constraint): "Label names shall be unique within a function."  C10 lists "duplicate case/default/label".
 * A function body in which one label name is defined twice must be diagnosed: labelstmt() must not return normally
 * from the statement that holds the second definition.
 */
#include "labelstmt_common.h"

void
harness(void)
{
	static struct scope outer;
	struct scope *s = &outer;
	struct func *f = 0;
	IN(unsigned, in_l00); IN(unsigned, in_l01); IN(unsigned, in_sn0);
	IN(unsigned, in_l10); IN(unsigned, in_l11); IN(unsigned, in_sn1);
	unsigned in_nl0 = V_NL0, in_sk0 = V_SK0, in_nl1 = V_NL1, in_sk1 = V_SK1;      /* shape: compile-time case split */

	__CPROVER_assume(in_l00 <= 1 && in_l01 <= 1 && in_sn0 <= 1 && in_l10 <= 1 && in_l11 <= 1 && in_sn1 <= 1);
	g_ls[0].nl = in_nl0; g_ls[0].ln[0] = in_l00; g_ls[0].ln[1] = in_l01; g_ls[0].sk = in_sk0; g_ls[0].sn = in_sn0;
	g_ls[1].nl = in_nl1; g_ls[1].ln[0] = in_l10; g_ls[1].ln[1] = in_l11; g_ls[1].sk = in_sk1; g_ls[1].sn = in_sn1;
	build();
	__CPROVER_assume(g_ndef[0] >= 2 || g_ndef[1] >= 2);
	outer.parent = 0; outer.breaklabel = 0; outer.continuelabel = 0; outer.switchcases = 0;
	g_no_error = 0;

	labelstmt(f, s);
#ifdef VERIF_CANARY
	__CPROVER_assert(!(in_l00 == 1), "CANARY");      /* l_l: the first statement alone is well-formed */
#endif
	labelstmt(f, s);
	__CPROVER_assert(0, "C11 6.8.1p3: a label name defined twice in one function is diagnosed (normal return = constraint violation accepted)");
}
