/* UNIT
{
 "id": "ATTR.gnuattr",
 "file": "attr.c", "function": "gnuattr", "also_functions": ["gnuattrspec", "parseattr", "strip"],
 "properties": {"C10": "contract", "C06": "contract", "C19": "contract"},
 "c19_quick": false,
 "mode": "harness",
 "unwind": 12, "unwindset": ["gnuattr.0:5", "gnuattrspec.0:4", "parseattr.0:7", "harness.0:4", "harness.1:4"],
 "variants": {"k0": ["-DV_K=0", "-DV_N0=0", "-DV_E00=0", "-DV_E01=0", "-DV_N1=0", "-DV_E10=0"], "k1_p": ["-DV_K=1", "-DV_N0=1", "-DV_E00=EL_PACKED", "-DV_E01=0", "-DV_N1=0", "-DV_E10=0"], "k1_fn": ["-DV_K=1", "-DV_N0=1", "-DV_E00=EL_FOO_NESTED", "-DV_E01=0", "-DV_N1=0", "-DV_E10=0"], "k1_open": ["-DV_K=1", "-DV_N0=1", "-DV_E00=EL_FOO_OPEN", "-DV_E01=0", "-DV_N1=0", "-DV_E10=0"], "k2_f_up": ["-DV_K=2", "-DV_N0=1", "-DV_E00=EL_FOO", "-DV_E01=0", "-DV_N1=1", "-DV_E10=EL_UPACKED"], "k3_p_f_e": ["-DV_K=3", "-DV_N0=1", "-DV_E00=EL_PACKED", "-DV_E01=0", "-DV_N1=1", "-DV_E10=EL_FOO"]},
 "tiers": {"thorough": {"variants": {"k0": ["-DV_K=0", "-DV_N0=0", "-DV_E00=0", "-DV_E01=0", "-DV_N1=0", "-DV_E10=0"], "k1_empty": ["-DV_K=1", "-DV_N0=0", "-DV_E00=0", "-DV_E01=0", "-DV_N1=0", "-DV_E10=0"], "k1_p": ["-DV_K=1", "-DV_N0=1", "-DV_E00=EL_PACKED", "-DV_E01=0", "-DV_N1=0", "-DV_E10=0"], "k1_up_c": ["-DV_K=1", "-DV_N0=2", "-DV_E00=EL_UPACKED", "-DV_E01=EL_COMMA", "-DV_N1=0", "-DV_E10=0"], "k1_c_fl": ["-DV_K=1", "-DV_N0=2", "-DV_E00=EL_COMMA", "-DV_E01=EL_FOO_LIST", "-DV_N1=0", "-DV_E10=0"], "k1_fn": ["-DV_K=1", "-DV_N0=1", "-DV_E00=EL_FOO_NESTED", "-DV_E01=0", "-DV_N1=0", "-DV_E10=0"], "k1_open": ["-DV_K=1", "-DV_N0=1", "-DV_E00=EL_FOO_OPEN", "-DV_E01=0", "-DV_N1=0", "-DV_E10=0"], "k2_f_up": ["-DV_K=2", "-DV_N0=1", "-DV_E00=EL_FOO", "-DV_E01=0", "-DV_N1=1", "-DV_E10=EL_UPACKED"], "k2_fl_e": ["-DV_K=2", "-DV_N0=1", "-DV_E00=EL_FOO_LIST", "-DV_E01=0", "-DV_N1=0", "-DV_E10=0"], "k3_p_f_e": ["-DV_K=3", "-DV_N0=1", "-DV_E00=EL_PACKED", "-DV_E01=0", "-DV_N1=1", "-DV_E10=EL_FOO"], "k2_p_open": ["-DV_K=2", "-DV_N0=1", "-DV_E00=EL_PACKED", "-DV_E01=0", "-DV_N1=1", "-DV_E10=EL_FOO_OPEN"]}, "bound": "QUICK TIER: 6 of the 11 shapes (no specifier; packed; a nested argument clause; an unterminated one; two specifiers; three specifiers) -- thorough tier: all 11. all 11 shapes"}},
 "canary_variant": "k2_f_up",
 "cbmc_flags": ["--sat-solver", "cadical"],
 "kind": "bounded",
 "bound": "11 shapes (token kinds of the lists constant per CBMC run; closing tokens, terminator, result object symbolic) of 0..3 specifiers `__attribute__ (( list ))` in a row; list of 0..2 elements, each a comma or one of packed, __packed__, foo, foo(1,1), foo((1)), foo(1 <end of input>; closed by `))`, by a single `)`, or cut off by end of input; followed by `;` or an identifier.  Excluded here (FAILS, see ATTR.gnuattr.syntax): two attributes without a comma between them",
 "timeout": 600, "replay": false,
 "assumes": ["next/peek/consume/expect are token-script stand-ins with pp.c's meaning (attr_common2.h); `allowed` contains packed"]
}
*/
/*
 * GCC manual, "Attribute Syntax": "An attribute specifier is of the form __attribute__ ((attribute-list)).  An attribute
 * list is a possibly empty comma-separated sequence of attributes, where each attribute is one of the following: Empty
 * ...; An attribute name (which may be an identifier such as unused, or a reserved word such as const); An attribute
 * name followed by a parenthesized list of parameters".  "An attribute specifier list is a sequence of one or more
 * attribute specifiers, not separated by any other tokens."  Names may be written with leading and trailing double
 * underscores (__packed__ == packed).  Unknown attributes are ignored with their (balanced) parameter list.
 * C19: end of input anywhere inside a specifier is diagnosed, no loop spins on it.
 */
#include "attr_common2.h"

enum { EL_COMMA, EL_PACKED, EL_UPACKED, EL_FOO, EL_FOO_LIST, EL_FOO_NESTED, EL_FOO_OPEN, EL_N };
enum { END_OK, END_ONE, END_EOF, END_N };

void
harness(void)
{
	static struct attr am;
	struct attr *a;
	unsigned in_e00 = V_E00, in_e01 = V_E01, in_n0 = V_N0, in_e10 = V_E10, in_n1 = V_N1;     /* compile-time case split: fixes the script layout */
	IN(unsigned, in_end); IN(bool, in_termident); IN(bool, in_hasa); IN(int, in_oldkind);
	unsigned el[3][2] = {{in_e00, in_e01}, {in_e10, EL_COMMA}, {EL_COMMA, EL_COMMA}}, n[3] = {in_n0, in_n1, 0};     /* a third specifier is `__attribute__(())` */
	unsigned i, j, endpos;
	bool wf = true, cut = false, packed = false, adjacent = false, r;

	__CPROVER_assume(in_e00 < EL_N && in_e01 < EL_N && in_e10 < EL_N && in_n0 <= 2 && in_n1 <= 1 && in_end < END_N && in_oldkind >= 0 && in_oldkind <= 15);
	names_init();
	s_n = 0;
	for (i = 0; i < 3; i++)
		if (i < V_K && !cut) {
			bool prev_attr = false;
			put(T__ATTRIBUTE__, 0); put(TLPAREN, 0); put(TLPAREN, 0);
			for (j = 0; j < 2; j++)
				if (j < n[i] && !cut) {
					unsigned e = el[i][j], w = 2 * i + j;
					bool isattr = e != EL_COMMA;
					if (isattr && prev_attr) { wf = false; adjacent = true; }      /* comma-separated */
					prev_attr = isattr;
					switch (e) {
					case EL_COMMA: put(TCOMMA, 0); break;
					case EL_PACKED: set_packed(w % 3, false); put(TIDENT, w_packed[w % 3]); packed = true; break;
					case EL_UPACKED: set_packed(w % 3, true); put(TIDENT, w_packed[w % 3]); packed = true; break;
					case EL_FOO: put(TIDENT, w_foo[w % 3]); break;
					case EL_FOO_LIST: put(TIDENT, w_foo[w % 3]); put_args(AS_LIST); break;
					case EL_FOO_NESTED: put(TIDENT, w_foo[w % 3]); put_args(AS_NESTED); break;
					default: put(TIDENT, w_foo[w % 3]); put_args(AS_OPEN); cut = true; wf = false; break;
					}
				}
			if (cut) break;
			/* the last specifier may be closed badly; earlier ones are closed */
			if (i + 1 < V_K || in_end == END_OK) { put(TRPAREN, 0); put(TRPAREN, 0); }
			else if (in_end == END_ONE) { put(TRPAREN, 0); wf = false; }
			else { wf = false; cut = true; }
		}
	/* w % 3 never collides: at most 3 name tokens are in the script */
	endpos = s_n;
	if (!cut) { if (in_termident) put(TIDENT, w_vnd[0]); put(TSEMICOLON, 0); }
	__CPROVER_assert(s_n <= NSCRIPT, "script fits");
#ifdef V_SYNTAX
	__CPROVER_assume(adjacent && !cut && in_end == END_OK);
#ifdef VERIF_CANARY
	__CPROVER_assert(!(in_hasa && in_termident), "CANARY");
#endif
#else
	__CPROVER_assume(!adjacent);                       /* ATTR.gnuattr.syntax */
#endif
	s_pos = 0; g_eof_next = 0; settok();
	a = in_hasa ? &am : 0;
	am.kind = in_oldkind; am.align = 0;
	g_no_error = wf;

	r = gnuattr(a, ATTRPACKED);

	__CPROVER_assert(wf, "GCC attribute syntax / C19: a malformed specifier (missing `))`, end of input inside the list or inside a parameter list, attributes not separated by commas) is diagnosed");
	__CPROVER_assume(wf);
	__CPROVER_assert(r == (V_K > 0), "reports whether an attribute specifier list (one or more specifiers) is present");
	__CPROVER_assert(s_pos == endpos && tok.kind == s_kind[endpos], "all specifiers are consumed and nothing after them");
	__CPROVER_assert(IMP(in_hasa, (int)am.kind == (in_oldkind | (packed ? ATTRPACKED : 0))), "recorded: the union over all specifiers; packed == __packed__; unknown attributes and their parameters are ignored");
	__CPROVER_assert(IMP(!in_hasa, (int)am.kind == in_oldkind) && am.align == 0, "nothing else is written");
	__CPROVER_assert(g_eof_next == 0, "end of input is not reached");
#if defined(VERIF_CANARY) && !defined(V_SYNTAX)
	__CPROVER_assert(!(in_hasa && in_termident && in_oldkind == 2), "CANARY");
#endif
}
