/*
 * Shared by the ATTR.attrspec / ATTR.attr / ATTR.gnuattr units: attr.c run for real (attrspec, attr, gnuattrspec, gnuattr
 * and the real parseattr/strip) on a scripted token stream.  Stand-ins (pp.c / expr.c, outside the claim):
 *   next()      tok := next script entry; at the end of the script and after TEOF the token stays TEOF for ever, as the
 *               real scanner does; a third next() at end of input is a failed obligation (C19: a skipping loop spins)
 *   peek(k)     pp.c's meaning: if the token AFTER the current one is k, both are consumed, else nothing changes
 *   consume()/expect()   re-stated over next(); expect() diagnoses a mismatch
 *   intconstexpr()       not reached by the scripts used here (aligned(n) is ATTR.parseattr's business)
 */
#include "attr.c"
#include "verif.h"

extern int g_no_error;
struct token tok;
struct scope filescope;

#define NSCRIPT 28
static enum tokenkind s_kind[NSCRIPT]; static char *s_lit[NSCRIPT];
static unsigned s_n, s_pos, g_eof_next;

static void settok(void)
{
	if (s_pos < s_n && s_pos < NSCRIPT) { tok.kind = s_kind[s_pos]; tok.lit = s_lit[s_pos]; }
	else { tok.kind = TEOF; tok.lit = 0; }
}
void
next(void)
{
	if (tok.kind == TEOF) {
		++g_eof_next;
		__CPROVER_assert(g_eof_next < 3, "C19: next() is called again and again at end of input: a token-skipping loop does not stop at EOF");
		__CPROVER_assume(g_eof_next < 3);
		return;
	}
	s_pos++; settok();
}
bool
peek(int k)
{
	if (s_pos + 1 < s_n && s_pos + 1 < NSCRIPT && s_kind[s_pos + 1] == (enum tokenkind)k) { s_pos += 2; settok(); return true; }
	return false;
}
bool consume(int k) { if (tok.kind != (enum tokenkind)k) return false; next(); return true; }
char *expect(enum tokenkind k, const char *msg) { char *lit = tok.lit; if (tok.kind != k) verif_noreturn(); next(); return lit; }
unsigned long long intconstexpr(struct scope *s, bool allowneg) { __CPROVER_assert(0, "no alignment expression in these scripts"); return 16; }

static void put(enum tokenkind k, char *lit) { if (s_n < NSCRIPT) { s_kind[s_n] = k; s_lit[s_n] = lit; } s_n++; }

/* attribute names: one writable buffer per use (strip() edits the spelling in place) */
static char w_foo[3][4], w_packed[3][11], w_gnu[3][8], w_vnd[3][4];
static void
names_init(void)
{
	unsigned j;
	for (j = 0; j < 3; j++) {
		w_foo[j][0] = 'f'; w_foo[j][1] = 'o'; w_foo[j][2] = 'o'; w_foo[j][3] = 0;
		w_vnd[j][0] = 'v'; w_vnd[j][1] = 'n'; w_vnd[j][2] = 'd'; w_vnd[j][3] = 0;
	}
}
static void set_packed(unsigned j, bool us)   /* "packed" or "__packed__" */
{
	char *p = w_packed[j];
	if (us) { *p++ = '_'; *p++ = '_'; }
	*p++ = 'p'; *p++ = 'a'; *p++ = 'c'; *p++ = 'k'; *p++ = 'e'; *p++ = 'd';
	if (us) { *p++ = '_'; *p++ = '_'; }
	*p = 0;
}
static void set_gnu(unsigned j, bool us)      /* "gnu" or "__gnu__" */
{
	char *p = w_gnu[j];
	if (us) { *p++ = '_'; *p++ = '_'; }
	*p++ = 'g'; *p++ = 'n'; *p++ = 'u';
	if (us) { *p++ = '_'; *p++ = '_'; }
	*p = 0;
}

/* argument clause shapes; returns whether the clause is a balanced-token-sequence in parentheses (C23 6.7.12.1) */
enum { AS_EMPTY, AS_LIST, AS_NESTED, AS_BRACK, AS_BRACE_BRACK, AS_RBRACK, AS_CROSSED, AS_OPEN, AS_N };
static bool
put_args(unsigned sh)
{
	put(TLPAREN, 0);
	switch (sh) {
	case AS_EMPTY: break;
	case AS_LIST: put(TNUMBER, 0); put(TCOMMA, 0); put(TNUMBER, 0); break;
	case AS_NESTED: put(TLPAREN, 0); put(TNUMBER, 0); put(TRPAREN, 0); break;
	case AS_BRACK: put(TLBRACK, 0); put(TNUMBER, 0); put(TRBRACK, 0); break;
	case AS_BRACE_BRACK: put(TLBRACE, 0); put(TRBRACK, 0); break;           /* ( { ] )   */
	case AS_RBRACK: put(TRBRACK, 0); break;                                 /* ( ] )     */
	case AS_CROSSED: put(TLBRACK, 0); put(TRPAREN, 0); put(TRBRACK, 0); return false;   /* ( [ ) ] */
	default: put(TNUMBER, 0); return false;                                 /* ( 1 <end of input> */
	}
	put(TRPAREN, 0);
	return sh <= AS_BRACK;
}
