/* shared by TYPE.composite and TYPE.composite.arraysize: what 6.2.7p3 says about the result object, over the ghost shapes
   g_s[0], g_s[1] of compat_contract.h (the operands are compatible by PRE) */

/* exactly one of two array operands has a known constant size */
#define ONE_KNOWN (g_s[0].sh == SH_ARRAY && g_s[1].sh == SH_ARRAY && (A_CONST(g_s[0]) != A_CONST(g_s[1])))
#define KNOWN_N   (A_CONST(g_s[0]) ? g_s[0].n : g_s[1].n)

/* reads through a function parameter (CONVENTIONS 6: nested dereference through the union of struct type) */
static inline struct decl *params_of(struct type *t) { return t->u.func.params; }
static inline bool vararg_of(struct type *t) { return t->u.func.isvararg; }
static inline struct expr *length_of(struct type *t) { return t->u.array.length; }

/* r's referenced/element/return type and its qualifiers are those both operands agree on */
static inline bool
comp_base_ok(struct type *r)
{
	return r->qual == g_s[0].q && r->base != 0 && spec_compat_basic(r->base, g_s[0].b) && spec_compat_basic(r->base, g_s[1].b);
}

static inline bool
comp_func_ok(struct type *r)
{
	struct decl *p;

	if (r->kind != TYPEFUNC || vararg_of(r) != g_s[0].var)
		return 0;
	p = params_of(r);
	if (g_s[0].np == 0)
		return p == 0;
	if (p == 0 || !spec_compat_basic(p->type, g_s[0].p[0]) || !spec_compat_basic(p->type, g_s[1].p[0]))
		return 0;
	if (g_s[0].np == 1)
		return p->next == 0;
	p = p->next;
	return p != 0 && spec_compat_basic(p->type, g_s[0].p[1]) && spec_compat_basic(p->type, g_s[1].p[1]) && p->next == 0;
}

/* the operands before the call (they must come back unchanged: both declarations keep their own type) */
static struct type g_t1copy, g_t2copy;
static inline void snapshot(struct type *t1, struct type *t2) { g_t1copy = *t1; g_t2copy = *t2; }
static inline bool
unchanged(struct type *t, struct type *c)
{
	return t->kind == c->kind && t->prop == c->prop && t->size == c->size && t->align == c->align && t->base == c->base &&
	       t->qual == c->qual && t->incomplete == c->incomplete;
}

#define SHAPE (g_s[0].sh)
#define POST_COMP(X) \
	X(HRET != 0) \
	/* compatible with both: same kind of type ... */ \
	X(IMP(SHAPE == SH_BASIC, spec_compat_basic(HRET, t1) && spec_compat_basic(HRET, t2))) \
	X(IMP(SHAPE == SH_PTR, HRET->kind == TYPEPOINTER && HRET->size == 8 && comp_base_ok(HRET))) \
	X(IMP(SHAPE == SH_ARRAY, HRET->kind == TYPEARRAY && comp_base_ok(HRET))) \
	X(IMP(SHAPE == SH_FUNC, comp_func_ok(HRET) && comp_base_ok(HRET))) \
	/* 6.2.7p3 first bullet: a known constant size is kept */ \
	X(IMP((SHAPE == SH_ARRAY && (A_CONST(g_s[0]) || A_CONST(g_s[1]))), !HRET->incomplete && !(HRET->prop & PROPVM))) \
	X(IMP((SHAPE == SH_ARRAY && (A_CONST(g_s[0]) || A_CONST(g_s[1]))), HRET->size == KNOWN_N * g_s[0].b->size)) \
	X(IMP((SHAPE == SH_ARRAY && (A_CONST(g_s[0]) || A_CONST(g_s[1])) && length_of(HRET) != 0), length_of(HRET)->kind == EXPRCONST)) \
	/* both of unknown size: unknown size */ \
	X(IMP((SHAPE == SH_ARRAY && g_s[0].ar == AR_INCOMPLETE && g_s[1].ar == AR_INCOMPLETE), HRET->incomplete)) \
	X(IMP(SHAPE == SH_ARRAY, HRET->align == g_s[0].b->align)) \
	/* neither declaration's own type object is rewritten */ \
	X(unchanged(t1, &g_t1copy) && unchanged(t2, &g_t2copy)) \
	CANARY(X, !(SHAPE == SH_ARRAY && g_s[0].ar == AR_CONSTEXPR && g_s[0].n == 3 && HRET == t1))
