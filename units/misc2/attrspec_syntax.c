/* UNIT
{
 "id": "ATTR.attrspec.syntax",
 "file": "attr.c", "function": "attrspec", "also_functions": ["parseattr"],
 "properties": {"C10": "contract"},
 "mode": "harness",
 "unwind": 12, "unwindset": ["attrspec.0:5", "parseattr.0:7", "harness.0:4"],
 "cflags": ["-DV_N=2", "-DV_SYNTAX"],
 "cbmc_flags": ["--sat-solver", "cadical"],
 "kind": "bounded",
 "bound": "`[[ e0 e1 ]] ;` with e0, e1 as in ATTR.attrspec, restricted to the two ill-formed classes: (a) two attributes not separated by a comma (`[[foo foo]]`, `[[gnu::packed foo(1)]]`), (b) an argument clause that is not a balanced-token-sequence: `foo({])`, `foo(])`, `foo([)])`",
 "timeout": 600, "replay": false,
 "assumes": ["FAILS on the pinned tree (genuine defect, two causes): attrspec() loops `while (parseattr(..) || consume(TCOMMA))`, so a comma between attributes is optional: `[[foo bar]] int z;` and `struct [[gnu::packed gnu::packed]] S {...}` compile (gcc/clang: expected ']' or ','); parseattr() skips an argument clause counting parentheses only: `[[foo(])]] int x;` and `[[foo({])]] int x;` compile (C23 6.7.12.1: balanced-token-sequence; gcc/clang reject).  Exit status 0 in all cases",
             "stand-ins as in ATTR.attrspec (attr_common2.h); the harness is that of attrspec.c compiled with -DV_SYNTAX"]
}
*/
/* C10: a malformed attribute specifier is diagnosed, never accepted (C23 6.7.12.1 syntax). */
#include "attrspec.c"
