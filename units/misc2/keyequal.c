/* UNIT
{
 "id": "MAP.keyequal",
 "file": "map.c", "function": "keyequal",
 "properties": {"C16": "contract", "C19": "safety"},
 "mode": "dfcc", "enforce": "keyequal/keyequal_contract",
 "kind": "bounded",
 "bound": "keys of 0..4 bytes (every byte value, every 64-bit hash value, every pair of lengths); memcmp is CBMC's library loop, unwound 5 times",
 "unwind": 6,
 "timeout": 120,
 "expects": ["postcondition", "assigns", "pointer_dereference"],
 "assumes": ["PRE: each key's buffer holds at least `len` bytes (mapkey stores the caller's pointer and length: MAP.key)",
             "PRE (consistency, established by MAP.key + MAP.hash): the stored hash is a function of (length, bytes): keys equal in length and bytes carry equal hashes.  Nothing is assumed the other way: different keys may carry EQUAL hashes (full 64-bit collision) and one key may be a proper prefix of the other",
             "the key buffers are separate 4-byte objects: a read past the shorter key's end is an out-of-bounds read (C19)"]
}
*/
/*
 * C16 ("no matter ... how their hashes collide"): two names are the same name iff they have the same length and the
 * same characters (C11 6.4.2.1p2: "identifiers ... differ in a significant character" = different identifiers; all
 * characters are significant in cproc).  keyequal() must therefore decide on (length, bytes); the hash may only be a
 * shortcut.  In particular: equal hash + same first bytes but different length => different; equal hash + equal length +
 * one differing byte => different; and the comparison never reads beyond the shorter key.
 */
#include "map.c"
#include "verif.h"

struct mapkey *g_k1, *g_k2;
size_t g_l1, g_l2;
unsigned char g_a[4], g_b[4];          /* ghost copies of the key bytes */
unsigned long g_h1, g_h2;

#define BYTES_EQ(n) (((n) < 1 || g_a[0] == g_b[0]) && ((n) < 2 || g_a[1] == g_b[1]) && ((n) < 3 || g_a[2] == g_b[2]) && ((n) < 4 || g_a[3] == g_b[3]))
#define SAME_KEY    (g_l1 == g_l2 && BYTES_EQ(g_l1))

#define PRE(X) \
	X(k1 == g_k1 && k2 == g_k2 && k1 != 0 && k2 != 0) \
	X(k1->len == g_l1 && k2->len == g_l2 && g_l1 <= 4 && g_l2 <= 4) \
	X(k1->hash == g_h1 && k2->hash == g_h2) \
	X(k1->str != 0 && k2->str != 0) \
	X(IMP(SAME_KEY, g_h1 == g_h2))

#define POST(X) \
	X(RET == SAME_KEY) \
	X(IMP(RET, g_h1 == g_h2)) \
	X(IMP(g_l1 != g_l2, !RET)) \
	X(g_k1->len == g_l1 && g_k2->len == g_l2 && g_k1->hash == g_h1 && g_k2->hash == g_h2) \
	CANARY(X, !(g_h1 == g_h2 && g_l1 == 2 && g_l2 == 3 && g_a[0] == g_b[0] && g_a[1] == g_b[1]))

static bool keyequal_contract(struct mapkey *k1, struct mapkey *k2)
REQUIRES(PRE)
__CPROVER_assigns()
ENSURES(POST);

void
harness(void)
{
	static struct mapkey key1, key2;
	IN(size_t, in_l1); IN(size_t, in_l2); IN(unsigned long, in_h1); IN(unsigned long, in_h2);
	IN(unsigned char, in_a0); IN(unsigned char, in_a1); IN(unsigned char, in_a2); IN(unsigned char, in_a3);
	IN(unsigned char, in_b0); IN(unsigned char, in_b1); IN(unsigned char, in_b2); IN(unsigned char, in_b3);
	unsigned char *s1 = malloc(4), *s2 = malloc(4);
	struct mapkey *k1 = &key1, *k2 = &key2;

	__CPROVER_assume(s1 != 0 && s2 != 0);
	__CPROVER_assume(in_l1 <= 4 && in_l2 <= 4);
	s1[0] = g_a[0] = in_a0; s1[1] = g_a[1] = in_a1; s1[2] = g_a[2] = in_a2; s1[3] = g_a[3] = in_a3;
	s2[0] = g_b[0] = in_b0; s2[1] = g_b[1] = in_b1; s2[2] = g_b[2] = in_b2; s2[3] = g_b[3] = in_b3;
	/* the buffers end where the keys end: anything read beyond is out of bounds */
	key1.str = s1 + (4 - in_l1); key2.str = s2 + (4 - in_l2);
	if (in_l1 < 4) { unsigned i; for (i = 0; i < 4; i++) if (i < in_l1) { s1[4 - in_l1 + i] = g_a[i]; } }
	if (in_l2 < 4) { unsigned i; for (i = 0; i < 4; i++) if (i < in_l2) { s2[4 - in_l2 + i] = g_b[i]; } }
	key1.len = in_l1; key2.len = in_l2; key1.hash = in_h1; key2.hash = in_h2;
	g_k1 = k1; g_k2 = k2; g_l1 = in_l1; g_l2 = in_l2; g_h1 = in_h1; g_h2 = in_h2;
	CALLR(bool, PRE, POST, keyequal(k1, k2));
}
