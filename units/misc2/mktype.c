/* UNIT
{
 "id": "TYPE.mktype",
 "file": "type.c", "function": "mktype",
 "properties": {"C05": "contract", "C19": "safety"},
 "mode": "dfcc", "enforce": "mktype/mktype_contract",
 "kind": "proof",
 "timeout": 60,
 "expects": ["postcondition", "assigns"],
 "assumes": ["xmalloc does not fail (stubs/base.c)"]
}
*/
/*
 * The constructor of every derived/tagged type object (pointer, array, function, struct, union, enum): a FRESH object
 * (6.2.5p20: a derived type is a new type; two struct declarations yield distinct types, 6.7.2.1p8) of the requested kind
 * and properties, complete unless the caller says otherwise (6.2.5p1), no flexible array member, not yet known to the
 * back end.  Nothing else is written.
 */
#include "type.c"
#include "verif.h"

struct type *g_prev;      /* an existing type object: the new one is not it */

#define PRE(X) X(g_prev != 0)
#define POST(X) \
	X(RET != 0 && RET != g_prev) \
	X(RET->kind == kind) \
	X(RET->prop == prop) \
	X(RET->value == 0) \
	X(!RET->incomplete) \
	X(!RET->flexible) \
	CANARY(X, !(kind == TYPESTRUCT && prop == PROPNONE))

struct type *mktype_contract(enum typekind kind, enum typeprop prop)
REQUIRES(PRE)
__CPROVER_assigns()
ENSURES(POST);

void
harness(void)
{
	static struct type old;
	IN(int, in_kind); IN(int, in_prop);
	enum typekind kind = in_kind;
	enum typeprop prop = in_prop;

	g_prev = &old;
	CALLR(struct type *, PRE, POST, mktype(kind, prop));
}
