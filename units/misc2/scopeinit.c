/* UNIT
{
 "id": "SCOPE.init",
 "file": "scope.c", "function": "scopeinit", "also_functions": ["scopeputdecl", "scopegetdecl", "scopegettag", "mapinit", "mapkey", "mapput", "mapget", "keyindex", "keyequal", "hash"],
 "properties": {"C16": "contract", "C19": "safety"},
 "mode": "harness",
 "link_repo": ["map.c"],
 "unwind": 34,
 "kind": "proof-const-unwind",
 "bound": "no input-dependent loop: scopeinit() enters 13 fixed names (longest 28 characters) into a 32-slot table; every loop (strlen, hash, memcmp, probing, mapinit) has a constant trip count <= 33",
 "timeout": 200, "replay": false,
 "assumes": ["scope.c is run together with the REAL map.c (FNV-1a hash, probing, memcmp), nothing is stubbed except xmalloc/xreallocarray (do not fail)",
             "targ points to a target description whose typevalist is set (targ.c:targinit runs before scopeinit in main.c)",
             "native replay impossible (needs two repo translation units)"]
}
*/
/*
 * C16 / doc/extensions.md ("Built-in functions and types"): after scopeinit() the file scope declares exactly the
 * documented built-in names: each `__builtin_*` function name resolves, as an ORDINARY identifier (6.2.3), to a builtin
 * declaration of the kind its name says, `__builtin_va_list` to a typedef name (6.7.8) for the target's va_list type;
 * none of them is a tag; nothing else is declared (a user identifier is undeclared, 6.5.1p2); the thirteen names are
 * thirteen distinct entries however their hashes fall.
 */
#include <string.h>
#include "scope.c"
#include "verif.h"

const struct target *targ;
static struct target t_targ;
static struct type t_valist;

static const char *const names[13] = {
	"__builtin_alloca", "__builtin_constant_p", "__builtin_expect", "__builtin_inff", "__builtin_nanf",
	"__builtin_offsetof", "__builtin_types_compatible_p", "__builtin_unreachable", "__builtin_va_arg",
	"__builtin_va_copy", "__builtin_va_end", "__builtin_va_start", "__builtin_va_list",
};
static const int kinds[12] = {
	BUILTINALLOCA, BUILTINCONSTANTP, BUILTINEXPECT, BUILTININFF, BUILTINNANF, BUILTINOFFSETOF,
	BUILTINTYPESCOMPATIBLEP, BUILTINUNREACHABLE, BUILTINVAARG, BUILTINVACOPY, BUILTINVAEND, BUILTINVASTART,
};
static const char *const absent[6] = { "__builtin_va_lis", "__builtin_va_list_", "builtin_alloca", "x", "", "__builtin_memcpy" };

static int kind_of(struct decl *d) { return d->u.builtin; }

void
harness(void)
{
	IN(unsigned, in_i); IN(unsigned, in_j); IN(bool, in_recurse);
	struct decl *d;
	unsigned i;

	__CPROVER_assume(in_i < 13 && in_j < 6);
	t_targ.typevalist = &t_valist;
	targ = &t_targ;
	/* static storage, as at program start */
	__CPROVER_assert(filescope.parent == 0 && filescope.decls.len == 0 && filescope.tags.len == 0, "file scope starts empty, without parent");

	scopeinit();

	__CPROVER_assert(filescope.decls.len == 13, "13 distinct ordinary identifiers are declared at file scope");
	__CPROVER_assert(filescope.tags.len == 0 && filescope.parent == 0, "no tag is declared; the file scope has no enclosing scope");
	for (i = 0; i < 13; i++)
		if (i == in_i) {
			d = scopegetdecl(&filescope, names[i], in_recurse);
			__CPROVER_assert(d != 0, "every documented built-in name is declared at file scope");
			__CPROVER_assume(d != 0);
			__CPROVER_assert(strcmp(d->name, names[i]) == 0, "a name resolves to the declaration OF THAT NAME");
			if (i < 12) {
				__CPROVER_assert(d->kind == DECLBUILTIN, "a __builtin_ function name denotes a built-in");
				__CPROVER_assert(kind_of(d) == kinds[i], "... the one its name says");
			} else {
				__CPROVER_assert(d->kind == DECLTYPE && d->type == &t_valist, "__builtin_va_list is a typedef name for the target's va_list type");
			}
			__CPROVER_assert(scopegettag(&filescope, names[i], in_recurse) == 0, "6.2.3: an ordinary identifier is not a tag");
		}
	for (i = 0; i < 6; i++)
		if (i == in_j)
			__CPROVER_assert(scopegetdecl(&filescope, absent[i], in_recurse) == 0, "6.5.1p2: nothing but the built-ins is declared (near misses, prefixes, the empty name are undeclared)");
#ifdef VERIF_CANARY
	__CPROVER_assert(!(in_i == 12 && in_j == 1), "CANARY");
#endif
}
