/* UNIT
{
 "id": "TYPE.composite",
 "file": "type.c", "function": "typecomposite",
 "properties": {"C05": "contract", "C19": "safety"},
 "mode": "harness", "post_macro": "POST_COMP",
 "unwind": 2,
 "variants": {"basic": ["-DV_SH=SH_BASIC"], "ptr": ["-DV_SH=SH_PTR"], "array": ["-DV_SH=SH_ARRAY"], "func": ["-DV_SH=SH_FUNC"]},
 "canary_variant": "array",
 "kind": "proof",
 "timeout": 200,
 "expects": ["assertion_verif"],
 "assumes": ["PRE: the operands are compatible (every caller tests typecompatible() first: decl.c:942/961, expr.c:1281)",
             "the clauses of 6.2.7p3 that hold on the pinned tree: the result is compatible with both operands; where neither or both arrays have a known constant size the result has that (un)known size.  The clause 'an array of known constant size wins' FAILS and lives in TYPE.composite.arraysize",
             "cproc implements the C23 meaning of `()` (a prototype without parameters), so 'one type has a parameter type list, the other none' (6.2.7p3 second bullet) cannot arise",
             "type shapes of depth <= 2 as in TYPE.compat (units/type/compat_contract.h builds them); harness-enforced: DFCC would havoc the real type objects"]
}
*/
/*
 * C11 6.2.7p3: "A composite type can be constructed from two types that are compatible; it is a type that is compatible
 * with both of the two types and satisfies the following conditions: - If both types are array types ...: If one type is
 * an array of known constant size, the composite type is an array of that size ... The element type of the composite
 * type is the composite type of the two element types. ... - If both types are function types with parameter type
 * lists, the type of each parameter in the composite parameter type list is the composite type of the corresponding
 * parameters.  These rules apply recursively to the types from which the two types are derived."
 */
#include "type.c"
#include "verif.h"
#ifndef COMPAT_CASE
#define COMPAT_CASE (spec_compat() && !ONE_KNOWN)
#endif
#include "../type/compat_contract.h"
#include "composite_common.h"

void
harness(void)
{
	IN(bool, in_charsigned);
	IN(bool, in_same);
	IN(unsigned, in_b1); IN(unsigned, in_eb1); IN(int, in_q1); IN(int, in_ar1); IN(u64, in_n1);
	IN(bool, in_var1); IN(unsigned, in_np1); IN(unsigned, in_p10); IN(unsigned, in_p11);
	IN(unsigned, in_b2); IN(unsigned, in_eb2); IN(int, in_q2); IN(int, in_ar2); IN(u64, in_n2);
	IN(bool, in_var2); IN(unsigned, in_np2); IN(unsigned, in_p20); IN(unsigned, in_p21);
	struct type *t1, *t2;

	typechar.u.basic.issigned = in_charsigned;
	t1 = build(0, V_SH, in_b1, in_eb1, in_q1, in_ar1, in_n1, in_var1, in_np1, in_p10, in_p11);
	t2 = build(1, V_SH, in_b2, in_eb2, in_q2, in_ar2, in_n2, in_var2, in_np2, in_p20, in_p21);
	if (in_same) {
		g_s[1] = g_s[0];
		t2 = t1;
	}
	snapshot(t1, t2);
	g_no_error = 1;
	HCALLR(struct type *, PRE_COMPAT, POST_COMP, typecomposite(t1, t2));
}
