/* UNIT
{
 "id": "ATTR.attr",
 "file": "attr.c", "function": "attr", "also_functions": ["attrspec", "parseattr", "strip"],
 "properties": {"C10": "contract", "C06": "contract", "C19": "safety"},
 "mode": "harness",
 "unwind": 12, "unwindset": ["attr.0:5", "attrspec.0:4", "parseattr.0:3", "harness.0:4"],
 "variants": {"k0":      ["-DV_K=0", "-DV_S0=0", "-DV_S1=0", "-DV_S2=0"],
              "k1_e":    ["-DV_K=1", "-DV_S0=SP_EMPTY", "-DV_S1=0", "-DV_S2=0"],
              "k1_fp":   ["-DV_K=1", "-DV_S0=SP_FOO_GNU_PACKED", "-DV_S1=0", "-DV_S2=0"],
              "k2_f_p":  ["-DV_K=2", "-DV_S0=SP_FOO", "-DV_S1=SP_GNU_PACKED", "-DV_S2=0"],
              "k2_p_e":  ["-DV_K=2", "-DV_S0=SP_GNU_PACKED", "-DV_S1=SP_EMPTY", "-DV_S2=0"],
              "k3_e_fp_f": ["-DV_K=3", "-DV_S0=SP_EMPTY", "-DV_S1=SP_FOO_GNU_PACKED", "-DV_S2=SP_FOO"]},
 "canary_variant": "k2_f_p",
 "cbmc_flags": ["--sat-solver", "cadical"],
 "kind": "bounded",
 "bound": "6 shapes (token kinds constant per CBMC run, the rest symbolic) of 0..3 attribute specifiers in a row, each `[[]]`, `[[foo]]`, `[[gnu::packed]]` or `[[foo, gnu::packed]]`, followed by one of `;`, an identifier, or `[ 1 ]` (an array declarator, which starts with a single `[`)",
 "timeout": 600, "replay": false,
 "assumes": ["next/peek/consume/expect are token-script stand-ins with pp.c's meaning (attr_common2.h); what one specifier may contain is ATTR.attrspec's business"]
}
*/
/*
 * C23 6.7.12.1: attribute-specifier-sequence: attribute-specifier-sequence_opt attribute-specifier: ONE OR MORE
 * specifiers; the attributes of all of them appertain to the same entity.  attr() returns whether a sequence was there,
 * consumes all of its specifiers and nothing after them (`[` `1` of an array declarator is not a specifier), and
 * records the union of what the specifiers request.
 */
#include "attr_common2.h"

enum { SP_EMPTY, SP_FOO, SP_GNU_PACKED, SP_FOO_GNU_PACKED, SP_N };
enum { T_SEMI, T_IDENT, T_ARRAY, T_N };

void
harness(void)
{
	static struct attr am;
	struct attr *a;
	IN(unsigned, in_term);
	unsigned in_s0 = V_S0, in_s1 = V_S1, in_s2 = V_S2;          /* compile-time case split: fixes the script layout */
	IN(bool, in_hasa); IN(int, in_oldkind);
	unsigned sp[3] = {in_s0, in_s1, in_s2};
	unsigned j, endpos;
	bool packed = false, r;

	__CPROVER_assume(in_s0 < SP_N && in_s1 < SP_N && in_s2 < SP_N && in_term < T_N && in_oldkind >= 0 && in_oldkind <= 15);
	names_init();
	s_n = 0;
	for (j = 0; j < 3; j++)
		if (j < V_K) {
			put(TLBRACK, 0); put(TLBRACK, 0);
			if (sp[j] == SP_FOO || sp[j] == SP_FOO_GNU_PACKED) put(TIDENT, w_foo[j]);
			if (sp[j] == SP_FOO_GNU_PACKED) put(TCOMMA, 0);
			if (sp[j] == SP_GNU_PACKED || sp[j] == SP_FOO_GNU_PACKED) {
				set_gnu(j, false); set_packed(j, false);
				put(TIDENT, w_gnu[j]); put(TCOLONCOLON, 0); put(TIDENT, w_packed[j]);
				packed = true;
			}
			put(TRBRACK, 0); put(TRBRACK, 0);
		}
	endpos = s_n;
	if (in_term == T_SEMI) put(TSEMICOLON, 0);
	else if (in_term == T_IDENT) put(TIDENT, w_vnd[0]);
	else { put(TLBRACK, 0); put(TNUMBER, 0); put(TRBRACK, 0); }
	put(TSEMICOLON, 0);
	s_pos = 0; g_eof_next = 0; settok();
	a = in_hasa ? &am : 0;
	am.kind = in_oldkind; am.align = 0;
	g_no_error = 1;                                   /* every one of these inputs is well-formed */

	r = attr(a, ATTRPACKED);

	__CPROVER_assert(r == (V_K > 0), "6.7.12.1: reports whether an attribute specifier sequence (one or more specifiers) is present");
	__CPROVER_assert(s_pos == endpos, "all specifiers of the sequence are consumed, and nothing after them (`[ 1 ]` is an array declarator)");
	__CPROVER_assert(tok.kind == s_kind[endpos] && tok.lit == s_lit[endpos], "the token after the sequence is current");
	__CPROVER_assert(IMP(in_hasa, (int)am.kind == (in_oldkind | (packed ? ATTRPACKED : 0))), "the attributes of ALL specifiers are recorded (union), nothing else");
	__CPROVER_assert(IMP(!in_hasa, (int)am.kind == in_oldkind) && am.align == 0, "without a result object nothing is written");
#ifdef VERIF_CANARY
	__CPROVER_assert(!(in_term == T_ARRAY && in_hasa), "CANARY");
#endif
}
