/* UNIT
{
 "id": "EXPR.cond",
 "file": "expr.c", "function": "condexpr",
 "also_functions": ["commonreal", "exprconvert", "nullpointer", "mkexpr", "typecommonreal", "typepromote", "typecompatible", "typecomposite", "mkpointertype"],
 "properties": {"C05": "contract", "C10": "contract", "C19": "safety"},
 "mode": "harness",
 "kind": "proof-const-unwind",
 "replace_calls": {"binaryexpr": "stub_binaryexpr", "expr": "stub_expr"},
 "unwindset": ["condexpr:3", "typecompatible.0:1", "typecompatible:3", "recorded.0:9", "tysel.0:27"],
 "variants": {"ARITH": ["-DU_ARITH"], "OTHER": [], "OTHER_ACCEPT": ["-DACCEPT"]},
 "canary_variant": "OTHER",
 "link_repo": ["type.c"], "cflags": ["-DVERIF_OWN_XMALLOC"],
 "timeout": 300,
 "expects": ["assertion_verif"],
 "replay": false,
 "assumes": ["only the tail of condexpr() after the three operands have been parsed is under contract: binaryexpr() is a stub returning first the condition, then (in the recursive call for the third operand) the third operand; consume('?') succeeds once; expr() is a stub returning the second operand; expect() does nothing (the parser is not under contract)",
             "eval() is the identity (operands already folded); type universe of units/expr/expr_util.h; operands have decayed",
             "bit-fields wider than int promote by width (gcc's rule)",
             "C23 nullptr_t typed second / third operands are outside C11 and excluded"]
}
*/
#include "expr.c"
#include "verif.h"
#include "mkbinary_common.h"

/* ghosts: the condition (first operand); second / third operand are l / r of mkbinary_common.h */
unsigned g_cts, g_cek;
u64 g_cv;
struct expr *g_c;
unsigned g_ncalls_bin, g_ncalls_consume;
int g_common;                        /* oracle: spec_common() of the 2nd and 3rd operand, -1 unless both arithmetic */
struct nodeobs g_ox, g_oxt, g_oxf;   /* result; (EXPRCOND) its second / third operand */
bool g_condnode_ok;                  /* (EXPRCOND) ->base is the condition */

struct expr *stub_binaryexpr(struct scope *s, struct expr *l, int i) { return g_ncalls_bin++ == 0 ? g_c : g_r; }
struct expr *stub_expr(struct scope *s) { return g_l; }
bool consume(int k) { return g_ncalls_consume++ == 0; }
char *expect(enum tokenkind k, const char *msg) { return 0; }

#define C_SCALAR   TS_ISSCALAR(g_cts)
#define C_ICONST   (g_cek == EK_CONST && TS_ISINT(g_cts))     /* condition is an integer constant: the conditional folds */
#define L_SU       TS_ISSTRUCT(g_lts)
#define R_SU       TS_ISSTRUCT(g_rts)
#define BOTH_PTR   (L_PTR && R_PTR)
#define PTR_NPC    ((L_PTR && R_NPC) || (R_PTR && L_NPC))
#define ONE_VOID   (g_lbs == BS_VOID || g_rbs == BS_VOID)
/* a zero constant of type pointer to QUALIFIED void: not a null pointer constant (6.3.2.3p3), but nullpointer() takes it
   for one; kept apart so that this (minor) defect has its own obligation */
#define L_QV0      (g_lek == EK_CONST && g_lts == TS_PTR && g_lbs == BS_VOID && g_lv == 0 && g_lq != QUALNONE)
#define R_QV0      (g_rek == EK_CONST && g_rts == TS_PTR && g_rbs == BS_VOID && g_rv == 0 && g_rq != QUALNONE)
#define NO_QV0     (!L_QV0 && !R_QV0)
#define TS_OPND(ts) ((ts) < TS_N && (ts) != BS_FN && (ts) != BS_ARR3 && (ts) != BS_ARRINC && (ts) != BS_PI && (ts) != TS_NULLPTR)
/* the operand the constant condition selects */
#define SEL_W      (g_cv ? W_L : W_R)
#define SEL_TS     (g_cv ? g_lts : g_rts)
/* result type is "pointer to B, qualifiers Q": a new pointer type, or an operand's own type object when that is one */
#define RES_PTR(o, B, Q) (((o).ts == TSEL_NEW && (o).pkind == TYPEPOINTER && (o).pbase == (int)(B) && (o).pqual == (Q)) || \
                          ((o).ts == TSEL_L && g_lbs == (B) && g_lq == (Q)) || ((o).ts == TSEL_R && g_rbs == (B) && g_rq == (Q)))
/* the node that carries the result type: the EXPRCOND node, or (folded) the conversion of the selected operand */
#define T_         g_ox

#ifdef ACCEPT
/* variant OTHER_ACCEPT: a conforming conditional expression whose 2nd / 3rd operands are not both arithmetic must not be
   diagnosed (both arithmetic: that is EXPR.mkbinary.accept's commonreal finding again) */
#define PRE_CASE(X) X(C_SCALAR && NO_QV0 && ((L_SU && g_lts == g_rts) || (g_lts == BS_VOID && g_rts == BS_VOID) || PTR_NPC || \
	(BOTH_PTR && (g_compat || (g_lbs == BS_VOID && !BS_ISFUNC(g_rbs)) || (g_rbs == BS_VOID && !BS_ISFUNC(g_lbs))))))
#else
#define PRE_CASE(X)
#endif

#define PRE(X) \
	PRE_CASE(X) \
	X(g_c != 0 && g_l != 0 && g_r != 0 && g_ncalls_bin == 0 && g_ncalls_consume == 0) \
	X(g_enAb <= AT_ULLONG && g_enBb <= AT_ULLONG) \
	X(TS_OPERAND(g_cts) && TS_OPND(g_lts) && TS_OPND(g_rts) && g_cek < EK_N && g_lek < EK_N && g_rek < EK_N) \
	X(IMP(g_lts == TS_PTR, g_lbs < BS_N && g_lq <= QUALMAX)) \
	X(IMP(g_rts == TS_PTR, g_rbs < BS_N && g_rq <= QUALMAX)) \
	X(IMP(g_cek == EK_CONST, TS_ISSCALAR(g_cts))) \
	X(IMP(g_cek == EK_BITFIELD, TS_ISINT(g_cts))) \
	X(IMP(g_lek == EK_BITFIELD, TS_ISINT(g_lts) && g_lw >= 1 && g_lw <= 8 * spec_at_size(LC))) \
	X(IMP(g_rek == EK_BITFIELD, TS_ISINT(g_rts) && g_rw >= 1 && g_rw <= 8 * spec_at_size(RC))) \
	X(IMP(g_lek != EK_BITFIELD, g_lw == SPEC_NOBF)) \
	X(IMP(g_rek != EK_BITFIELD, g_rw == SPEC_NOBF)) \
	X(IMP(g_lek == EK_CONST, TS_ISSCALAR(g_lts))) \
	X(IMP(g_rek == EK_CONST, TS_ISSCALAR(g_rts))) \
	X(U_CASE)

#define POST(X) \
	/* C10 6.5.15p2: the first operand shall have scalar type */ \
	X(C_SCALAR) \
	/* p3: both arithmetic | same struct/union type | both void | pointers to compatible types | pointer and null pointer \
	   constant | pointer to object type and pointer to void */ \
	X(BOTH_ARITH || (L_SU && g_lts == g_rts) || (g_lts == BS_VOID && g_rts == BS_VOID) || BOTH_PTR || PTR_NPC) \
	X(IMP(BOTH_PTR && !L_NPC && !R_NPC && NO_QV0, g_compat || ONE_VOID)) \
	X(IMP(BOTH_PTR && !L_NPC && !R_NPC && NO_QV0 && !g_compat, !BS_ISFUNC(g_lbs) && !BS_ISFUNC(g_rbs))) \
	/* C05 p5: both arithmetic: the result has the common real type of the usual arithmetic conversions */ \
	X(IMP(BOTH_ARITH && !C_ICONST, T_.who == W_NEW && T_.kind == EXPRCOND && TSIS(T_.ts, g_common))) \
	X(IMP(BOTH_ARITH && C_ICONST, CONV(T_, SEL_W, SEL_TS, g_common))) \
	X(IMP(BOTH_ARITH && !C_ICONST, CONV(g_oxt, W_L, g_lts, g_common) && CONV(g_oxf, W_R, g_rts, g_common))) \
	/* struct / union / void operands: that type */ \
	X(IMP(!BOTH_ARITH && !L_PTR && !R_PTR && !C_ICONST, T_.ts == (int)g_lts)) \
	/* p6: both pointers: pointer to the (composite / void) referenced type with the qualifiers of BOTH referenced types; \
	   pointer and null pointer constant: the type of the pointer */ \
	X(IMP(BOTH_PTR && !L_NPC && !R_NPC && NO_QV0 && !C_ICONST && g_compat, RES_PTR(T_, g_lbs, g_lq | g_rq) || RES_PTR(T_, g_rbs, g_lq | g_rq))) \
	X(IMP(BOTH_PTR && !L_NPC && !R_NPC && NO_QV0 && !C_ICONST && !g_compat, RES_PTR(T_, BS_VOID, g_lq | g_rq))) \
	X(IMP(BOTH_PTR && !NO_QV0 && !C_ICONST, RES_PTR(T_, g_lbs, g_lq | g_rq) || RES_PTR(T_, g_rbs, g_lq | g_rq))) \
	X(IMP(L_PTR && !R_PTR && !C_ICONST, RES_PTR(T_, g_lbs, g_lq))) \
	X(IMP(R_PTR && !L_PTR && !C_ICONST, RES_PTR(T_, g_rbs, g_rq))) \
	/* shape: a NEW conditional node over the three operands (2nd / 3rd possibly converted), or, for a constant condition, \
	   the selected operand (converted to the result type) */ \
	X(IMP(!C_ICONST, T_.who == W_NEW && T_.kind == EXPRCOND && g_condnode_ok && !T_.lvalue)) \
	X(IMP(!C_ICONST, (g_oxt.who == W_L || (g_oxt.kind == EXPRCAST && g_oxt.base == W_L)) && (g_oxf.who == W_R || (g_oxf.kind == EXPRCAST && g_oxf.base == W_R)))) \
	X(IMP(C_ICONST, T_.who == SEL_W || (T_.who == W_NEW && T_.kind == EXPRCAST && T_.base == SEL_W))) \
	CANARY(X, !(g_lts == TS_PTR && g_rts == TS_PTR && g_lbs == BS_VOID && g_rbs == BS_S1 && g_lq == QUALCONST && g_cek == EK_OPAQUE))

static struct expr *
obs(struct expr *r)
{
	struct expr *n;

	observe(&g_ox, r);
	observe(&g_oxt, 0);
	observe(&g_oxf, 0);
	g_condnode_ok = false;
	if (g_ox.who == W_NEW && g_ox.kind == EXPRCOND) {
		n = NODE(r);
		g_condnode_ok = SAMENODE(n->base, g_c);
		observe(&g_oxt, n->u.cond.t);
		observe(&g_oxf, n->u.cond.f);
	}
	return r;
}

void
harness(void)
{
	static struct scope sc;
	struct scope *s = &sc;
	struct mkb_in in;
	struct expr *l, *r;
	IN(bool, in_signedchar); IN(unsigned, in_enAb); IN(unsigned, in_enBb);
	IN(unsigned, in_cts); IN(unsigned, in_cek); IN(u64, in_cv);
	IN(unsigned, in_lts); IN(unsigned, in_lbs); IN(unsigned, in_lq); IN(unsigned, in_lek); IN(u64, in_lv); IN(unsigned, in_lw);
	IN(unsigned, in_rts); IN(unsigned, in_rbs); IN(unsigned, in_rq); IN(unsigned, in_rek); IN(u64, in_rv); IN(unsigned, in_rw);
	IN(bool, in_llv); IN(bool, in_rlv); IN(unsigned, in_lafter); IN(unsigned, in_rafter);

	in.signedchar = in_signedchar; in.enAb = in_enAb; in.enBb = in_enBb;
	in.lts = in_lts; in.lbs = in_lbs; in.lq = in_lq; in.lek = in_lek; in.lv = in_lv; in.lw = in_lw; in.lafter = in_lafter; in.llv = in_llv;
	in.rts = in_rts; in.rbs = in_rbs; in.rq = in_rq; in.rek = in_rek; in.rv = in_rv; in.rw = in_rw; in.rafter = in_rafter; in.rlv = in_rlv;
	mkb_build(&in, &l, &r);
	__CPROVER_assume(in_cts < BS_N && in_cts != BS_FN && in_cts != BS_ARR3 && in_cts != BS_ARRINC && in_cts != BS_PI && in_cek < EK_N);
	__CPROVER_assume(IMP(in_cek == EK_BITFIELD, TS_ISINT(in_cts)));
	g_cts = in_cts; g_cek = in_cek; g_cv = in_cv;
	g_c = mk_operand(in_cek, ty_base[in_cts], in_cv, 0, 8 * (unsigned)ty_base[in_cts]->size - 1, false, QUALNONE);
	g_common = BOTH_ARITH ? spec_common(LC, g_lw, RC, g_rw, g_signedchar) : -1;
	g_compat = spec_bscompat(g_lbs, g_rbs);
	g_ncalls_bin = g_ncalls_consume = 0;
#ifdef ACCEPT
	g_no_error = 1;
#else
	g_no_error = 0;
#endif
	HCALLR(struct expr *, PRE, POST, obs(condexpr(s)));
}
