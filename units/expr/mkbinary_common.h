/*
 * mkbinary_common.h -- ghosts, the C11 legality oracle and the harness shared by EXPR.mkbinary.type and
 * EXPR.mkbinary.constraints.  The including unit defines PRE and POST before MKBINARY_HARNESS is expanded.
 */
#ifndef MKBINARY_COMMON_H
#define MKBINARY_COMMON_H
#include "expr_util.h"

/* ghosts: the two operands as the oracle knows them (selectors, see expr_util.h) */
unsigned g_lts, g_lbs, g_lq, g_lek, g_lw;     /* type selector, referenced-type selector + qualifiers (pointers), expr kind, bit-field width */
unsigned g_rts, g_rbs, g_rq, g_rek, g_rw;
u64 g_lv, g_rv;                               /* value when EK_CONST */
/* g_l, g_r (the operand objects), g_lt, g_rt (their types before the call): expr_util.h */
bool g_compat;                                /* == spec_bscompat(g_lbs, g_rbs): referenced types compatible (6.2.7) */
int g_lkind, g_rkind;                         /* their kinds before the call */

#define L_INT    TS_ISINT(g_lts)
#define R_INT    TS_ISINT(g_rts)
#define L_ARITH  TS_ISARITH(g_lts)
#define R_ARITH  TS_ISARITH(g_rts)
#define L_REAL   TS_ISREAL(g_lts)
#define R_REAL   TS_ISREAL(g_rts)
#define L_SCALAR TS_ISSCALAR(g_lts)
#define R_SCALAR TS_ISSCALAR(g_rts)
#define L_PTR    TS_ISPTR(g_lts)
#define R_PTR    TS_ISPTR(g_rts)
#define L_NPC    SPEC_ISNPC(g_lek, g_lts, g_lbs, g_lq, g_lv)
#define R_NPC    SPEC_ISNPC(g_rek, g_rts, g_rbs, g_rq, g_rv)
#define LC       TS_CODE(g_lts)
#define RC       TS_CODE(g_rts)
#define BOTH_ARITH (L_ARITH && R_ARITH)

/* C11 6.5.5 - 6.5.14, "Constraints" paragraphs, verbatim over the universe */
#define LEGAL_MULDIV  (L_ARITH && R_ARITH)                                             /* 6.5.5p2 */
#define LEGAL_MOD     (L_INT && R_INT)                                                 /* 6.5.5p2 */
#define LEGAL_ADD     (BOTH_ARITH || \
                       (L_PTR && BS_COMPLETEOBJ(g_lbs) && R_INT) || \
                       (R_PTR && BS_COMPLETEOBJ(g_rbs) && L_INT))                      /* 6.5.6p2 */
#define LEGAL_SUB     (BOTH_ARITH || \
                       (L_PTR && R_PTR && BS_COMPLETEOBJ(g_lbs) && BS_COMPLETEOBJ(g_rbs) && g_compat) || \
                       (L_PTR && BS_COMPLETEOBJ(g_lbs) && R_INT))                      /* 6.5.6p3 */
#define LEGAL_SHIFT   (L_INT && R_INT)                                                 /* 6.5.7p2 */
#define LEGAL_REL     ((L_REAL && R_REAL) || \
                       (L_PTR && R_PTR && !BS_ISFUNC(g_lbs) && !BS_ISFUNC(g_rbs) && g_compat))   /* 6.5.8p2 */
#define LEGAL_EQ      (BOTH_ARITH || \
                       (L_PTR && R_PTR && g_compat) || \
                       (L_PTR && R_PTR && (g_lbs == BS_VOID && !BS_ISFUNC(g_rbs) || g_rbs == BS_VOID && !BS_ISFUNC(g_lbs))) || \
                       (L_PTR && R_NPC) || (R_PTR && L_NPC))                           /* 6.5.9p2 */
#define LEGAL_BIT     (L_INT && R_INT)                                                 /* 6.5.10p2, 6.5.11p2, 6.5.12p2 */
#define LEGAL_LOGIC   (L_SCALAR && R_SCALAR)                                           /* 6.5.13p2, 6.5.14p2 */

#define OP_MULDIV (op == TMUL || op == TDIV)
#define OP_SHIFT  (op == TSHL || op == TSHR)
#define OP_REL    (op == TLESS || op == TGREATER || op == TLEQ || op == TGEQ)
#define OP_EQ     (op == TEQL || op == TNEQ)
#define OP_BIT    (op == TBAND || op == TBOR || op == TXOR)
#define OP_LOGIC  (op == TLAND || op == TLOR)
#define OP_ANY    (OP_MULDIV || op == TMOD || op == TADD || op == TSUB || OP_SHIFT || OP_REL || OP_EQ || OP_BIT || OP_LOGIC)

#define LEGAL (IMP(OP_MULDIV, LEGAL_MULDIV) && IMP(op == TMOD, LEGAL_MOD) && IMP(op == TADD, LEGAL_ADD) && \
               IMP(op == TSUB, LEGAL_SUB) && IMP(OP_SHIFT, LEGAL_SHIFT) && IMP(OP_REL, LEGAL_REL) && \
               IMP(OP_EQ, LEGAL_EQ) && IMP(OP_BIT, LEGAL_BIT) && IMP(OP_LOGIC, LEGAL_LOGIC))

/* an operand type as it can reach mkbinaryexpr: every operand comes out of castexpr(), i.e. arrays and function
   designators have decayed (6.3.2.1p3,p4); BS_PI is not used as an operand selector (TS_PTR is) */
#define TS_OPERAND(ts) ((ts) < TS_N && (ts) != BS_FN && (ts) != BS_ARR3 && (ts) != BS_ARRINC && (ts) != BS_PI)

/* input well-formedness shared by both units (what the harness builds, restated as PRE) */
#define PRE_WF(X) \
	X(l != 0 && r != 0 && l != r && loc != 0) \
	X(OP_ANY) \
	X(g_enAb <= AT_ULLONG && g_enBb <= AT_ULLONG) \
	X(TS_OPERAND(g_lts) && TS_OPERAND(g_rts)) \
	X(IMP(g_lts == TS_PTR, g_lbs < BS_N && g_lq <= (QUALCONST|QUALVOLATILE|QUALRESTRICT))) \
	X(IMP(g_rts == TS_PTR, g_rbs < BS_N && g_rq <= (QUALCONST|QUALVOLATILE|QUALRESTRICT))) \
	X(g_lek < EK_N && g_rek < EK_N) \
	/* a bit-field has integer type and 1 <= width <= width of the type (6.7.2.1p4) */ \
	X(IMP(g_lek == EK_BITFIELD, TS_ISINT(g_lts) && g_lw >= 1 && g_lw <= 8 * spec_at_size(LC))) \
	X(IMP(g_rek == EK_BITFIELD, TS_ISINT(g_rts) && g_rw >= 1 && g_rw <= 8 * spec_at_size(RC))) \
	X(IMP(g_lek != EK_BITFIELD, g_lw == SPEC_NOBF)) \
	X(IMP(g_rek != EK_BITFIELD, g_rw == SPEC_NOBF)) \
	/* constants of void / struct / union type do not exist */ \
	X(IMP(g_lek == EK_CONST, TS_ISSCALAR(g_lts))) \
	X(IMP(g_rek == EK_CONST, TS_ISSCALAR(g_rts))) \
	X(l == g_l && r == g_r && l->type == g_lt && r->type == g_rt && l->kind == g_lkind && r->kind == g_rkind)

/* the operands themselves are not modified (they may be shared: compound assignment reuses its left operand) */
#define POST_FRAME(X) \
	X(g_l->type == g_lt && g_r->type == g_rt) \
	X(g_l->kind == g_lkind && g_r->kind == g_rkind) \
	X(IMP(g_lek == EK_CONST, g_l->u.constant.u == g_lv)) \
	X(IMP(g_rek == EK_CONST, g_r->u.constant.u == g_rv))

/*
 * post-state observations (expr_util.h): x = the returned node, xl / xr its operands, xll .. xrr their operands
 * (pointer arithmetic builds two levels)
 */
struct nodeobs g_ox, g_oxl, g_oxr, g_oxll, g_oxlr, g_oxrl, g_oxrr;

static struct expr *
mkb_observe(struct expr *e)
{
	struct expr *n, *c;

	observe(&g_ox, e);
	observe(&g_oxl, 0); observe(&g_oxr, 0);
	observe(&g_oxll, 0); observe(&g_oxlr, 0); observe(&g_oxrl, 0); observe(&g_oxrr, 0);
	if (g_ox.who == W_NEW && g_ox.kind == EXPRBINARY) {
		n = NODE(e);
		observe(&g_oxl, n->u.binary.l);
		observe(&g_oxr, n->u.binary.r);
		if (g_oxl.who == W_NEW && g_oxl.kind == EXPRBINARY) {
			c = NODE(n->u.binary.l);
			observe(&g_oxll, c->u.binary.l);
			observe(&g_oxlr, c->u.binary.r);
		}
		if (g_oxr.who == W_NEW && g_oxr.kind == EXPRBINARY) {
			c = NODE(n->u.binary.r);
			observe(&g_oxrl, c->u.binary.l);
			observe(&g_oxrr, c->u.binary.r);
		}
	}
	return e;
}

/* o is operand W (W_L / W_R, whose type has selector origts) converted to the arithmetic type with code c: either the
   operand itself, when its type already is that type, or a NEW conversion node (EXPRCAST) to that type over it */
#define CONV(o, W, origts, c) \
	(((o).who == (W) && TSIS(origts, c)) || \
	 ((o).who == W_NEW && (o).kind == EXPRCAST && (o).base == (W) && TSIS((o).ts, c)))
#define ISNEWCONST(o, v) ((o).who == W_NEW && (o).kind == EXPRCONST && (o).cval == (v))

/* compile-time case split of the universe (keeps CBMC's points-to sets small); the cases of each operator are exhaustive:
   U_ARITH + default, or U_ARITH + U_RPTR + U_RNOPTR */
#ifdef U_ARITH
#define U_CASE (g_lts <= BS_ENB && g_rts <= BS_ENB)          /* both operands arithmetic */
#elif defined(U_RPTR)
#define U_CASE (g_rts == TS_PTR)                             /* the right operand is a pointer */
#elif defined(U_RNOPTR)
#define U_CASE (g_rts != TS_PTR && !(g_lts <= BS_ENB && g_rts <= BS_ENB))
#else
#define U_CASE (!(g_lts <= BS_ENB && g_rts <= BS_ENB))       /* at least one operand is not arithmetic */
#endif

/* harness inputs (every field is read with IN() in the unit file, so that counterexamples replay) */
struct mkb_in {
	bool signedchar; unsigned enAb, enBb;
	unsigned lts, lbs, lq, lek, lw, lafter; u64 lv; bool llv;
	unsigned rts, rbs, rq, rek, rw, rafter; u64 rv; bool rlv;
};

static void
mkb_build(const struct mkb_in *in, struct expr **pl, struct expr **pr)
{
	static struct type ty_pl, ty_pr;
	unsigned lbits, rbits;

	__CPROVER_assume(in->enAb <= AT_ULLONG && in->enBb <= AT_ULLONG);
	__CPROVER_assume(in->lts < TS_N && in->rts < TS_N && in->lbs < BS_N && in->rbs < BS_N && in->lq <= QUALMAX && in->rq <= QUALMAX);
	__CPROVER_assume(in->lek < EK_N && in->rek < EK_N);
	build_universe(in->signedchar, in->enAb, in->enBb);
	g_lts = in->lts; g_lbs = in->lbs; g_lq = in->lq; g_lek = in->lek; g_lv = in->lv;
	g_rts = in->rts; g_rbs = in->rbs; g_rq = in->rq; g_rek = in->rek; g_rv = in->rv;
#ifdef U_ARITH
	/* variant "both operands arithmetic": only the 15 arithmetic type objects and the two enum types are in reach */
	__CPROVER_assume(in->lts <= BS_ENB && in->rts <= BS_ENB);
	g_lt = ty_arithenum[in->lts];
	g_rt = ty_arithenum[in->rts];
#elif defined(U_RPTR)
	/* variant "right operand is a pointer" */
	__CPROVER_assume(in->rts == TS_PTR);
	g_lt = optype(in->lts, &ty_pl, in->lbs, in->lq);
	mk_ptr(&ty_pr, ty_base[in->rbs], in->rq);
	g_rt = &ty_pr;
#elif defined(U_RNOPTR)
	/* variant "right operand is not a pointer (and not both are arithmetic)" */
	__CPROVER_assume(in->rts != TS_PTR);
	g_lt = optype(in->lts, &ty_pl, in->lbs, in->lq);
	g_rt = in->rts < BS_N ? ty_base[in->rts] : &typenullptr;
#else
	g_lt = optype(in->lts, &ty_pl, in->lbs, in->lq);
	g_rt = optype(in->rts, &ty_pr, in->rbs, in->rq);
#endif
	g_lw = in->lek == EK_BITFIELD ? in->lw : SPEC_NOBF;
	g_rw = in->rek == EK_BITFIELD ? in->rw : SPEC_NOBF;
	lbits = 8 * (unsigned)g_lt->size;
	rbits = 8 * (unsigned)g_rt->size;
	__CPROVER_assume(IMP(in->lek == EK_BITFIELD, TS_ISINT(in->lts) && in->lw >= 1 && in->lw <= lbits && in->lafter <= lbits - in->lw));
	__CPROVER_assume(IMP(in->rek == EK_BITFIELD, TS_ISINT(in->rts) && in->rw >= 1 && in->rw <= rbits && in->rafter <= rbits - in->rw));
	/* struct bitfield {before, after}: width = 8*size - before - after */
	*pl = mk_operand(in->lek, g_lt, in->lv, lbits - in->lw - in->lafter, in->lafter, in->llv, QUALNONE);
	*pr = mk_operand(in->rek, g_rt, in->rv, rbits - in->rw - in->rafter, in->rafter, in->rlv, QUALNONE);
	g_l = *pl; g_r = *pr; g_lkind = g_l->kind; g_rkind = g_r->kind;
}


#endif
