/* UNIT
{
 "id": "EXPR.exprpromote",
 "file": "expr.c", "function": "exprpromote", "also_functions": ["bitfieldwidth", "exprconvert", "mkexpr", "typepromote", "typerank", "typecompatible"],
 "properties": {"C05": "contract", "C19": "safety"},
 "mode": "harness",
 "kind": "proof-const-unwind",
 "unwindset": ["typecompatible.0:1", "typecompatible:3", "recorded.0:9", "tysel.0:27"],
 "link_repo": ["type.c"], "cflags": ["-DVERIF_OWN_XMALLOC"],
 "timeout": 120,
 "expects": ["assertion_verif"],
 "assumes": ["type universe of units/expr/expr_util.h; the operand has decayed",
             "exprpromote is used for the integer promotions (shift operands, unary + - ~) and for the default argument promotions (variadic arguments, 6.5.2.2p6), so float promotes to double",
             "bit-fields declared with a type wider than int promote by width when width <= 32 (implementation-defined; gcc's rule)"]
}
*/
#include "expr.c"
#include "verif.h"
#include "expr_util.h"

unsigned g_ots, g_obs, g_oq, g_oek, g_ow;
int g_prom;                 /* oracle: code of the promoted type, -1 if the operand is not arithmetic */
struct nodeobs g_ox;

#define TS_OPERAND(ts) ((ts) < TS_N && (ts) != BS_FN && (ts) != BS_ARR3 && (ts) != BS_ARRINC && (ts) != BS_PI)
#define O_CODE TS_CODE(g_ots)

#define PRE(X) \
	X(e != 0 && e == g_l && e->type == g_lt) \
	X(TS_OPERAND(g_ots) && g_oek < EK_N && g_enAb <= AT_ULLONG && g_enBb <= AT_ULLONG) \
	X(IMP(g_ots == TS_PTR, g_obs < BS_N && g_oq <= QUALMAX)) \
	X(IMP(g_oek == EK_BITFIELD, TS_ISINT(g_ots) && g_ow >= 1 && g_ow <= 8 * spec_at_size(O_CODE))) \
	X(IMP(g_oek != EK_BITFIELD, g_ow == SPEC_NOBF)) \
	X(IMP(g_oek == EK_CONST, TS_ISSCALAR(g_ots)))

#define POST(X) \
	/* 6.3.1.1p2 (+ 6.5.2.2p6 float -> double): an arithmetic operand is converted to its promoted type: itself when it \
	   already has that type, else a NEW conversion node to it */ \
	X(IMP(TS_ISARITH(g_ots), (g_ox.who == W_L && TSIS((int)g_ots, g_prom)) || \
	                         (g_ox.who == W_NEW && g_ox.kind == EXPRCAST && g_ox.base == W_L && TSIS(g_ox.ts, g_prom)))) \
	/* a promoted integer type is int, unsigned int, or a type of rank > int (never _Bool, char, short, or an enum of such rank) */ \
	X(IMP(TS_ISINT(g_ots) && g_ox.who == W_NEW, g_ox.ts == AT_INT || g_ox.ts == AT_UINT)) \
	/* anything else (pointer, struct, union, void, nullptr_t) is left alone */ \
	X(IMP(!TS_ISARITH(g_ots), g_ox.who == W_L)) \
	X(g_l->type == g_lt) \
	CANARY(X, !(g_ots == AT_USHORT && g_oek == EK_OPAQUE))

static struct expr *
obs(struct expr *r)
{
	observe(&g_ox, r);
	return r;
}

void
harness(void)
{
	static struct type ty_po;
	struct expr *e;
	struct type *ot;
	unsigned bits;
	IN(bool, in_signedchar); IN(unsigned, in_enAb); IN(unsigned, in_enBb);
	IN(unsigned, in_ots); IN(unsigned, in_obs); IN(unsigned, in_oq); IN(unsigned, in_oek); IN(u64, in_ov);
	IN(unsigned, in_ow); IN(unsigned, in_oafter); IN(bool, in_olv);

	__CPROVER_assume(in_enAb <= AT_ULLONG && in_enBb <= AT_ULLONG);
	__CPROVER_assume(in_ots < TS_N && in_obs < BS_N && in_oq <= QUALMAX && in_oek < EK_N);
	build_universe(in_signedchar, in_enAb, in_enBb);
	g_ots = in_ots; g_obs = in_obs; g_oq = in_oq; g_oek = in_oek;
	ot = optype(in_ots, &ty_po, in_obs, in_oq);
	bits = 8 * (unsigned)ot->size;
	__CPROVER_assume(IMP(in_oek == EK_BITFIELD, TS_ISINT(in_ots) && in_ow >= 1 && in_ow <= bits && in_oafter <= bits - in_ow));
	g_ow = in_oek == EK_BITFIELD ? in_ow : SPEC_NOBF;
	e = mk_operand(in_oek, ot, in_ov, bits - in_ow - in_oafter, in_oafter, in_olv, QUALNONE);
	g_l = e; g_r = 0; g_lt = ot; g_rt = 0;
	g_prom = !TS_ISARITH(g_ots) ? -1 : O_CODE == AT_FLOAT ? AT_DOUBLE : spec_promote(O_CODE, g_ow, g_signedchar);
	HCALLR(struct expr *, PRE, POST, obs(exprpromote(e)));
}
