/* UNIT
{
 "id": "EXPR.decay",
 "file": "expr.c", "function": "decay", "also_functions": ["mkunaryexpr", "mkexpr", "mkpointertype", "mktype"],
 "properties": {"C05": "contract", "C19": "safety"},
 "mode": "harness",
 "kind": "proof-const-unwind",
 "unwindset": ["mkunaryexpr:2", "decay:2", "recorded.0:9", "tysel.0:27"],
 "link_repo": ["type.c"], "cflags": ["-DVERIF_OWN_XMALLOC"],
 "timeout": 120,
 "expects": ["assertion_verif"],
 "assumes": ["type universe of units/expr/expr_util.h; the array types int[3], int[] carry arbitrary element qualifiers",
             "an expression of array type is an lvalue at every call site of decay() (identifier of an object, string literal, compound literal, *p, member of an lvalue; the member of an rvalue struct is given lvalue = true before decay and reset afterwards)"]
}
*/
#include "expr.c"
#include "verif.h"
#include "expr_util.h"

unsigned g_ots, g_obs, g_oq, g_oek, g_oqual, g_arrq;
bool g_olv;
struct nodeobs g_ox;

#define TS_ANY(ts)  ((ts) < TS_N && (ts) != BS_PI)
#define IS_ARR      (g_ots == BS_ARR3 || g_ots == BS_ARRINC)
#define IS_FN       (g_ots == BS_FN)

#define PRE(X) \
	X(e != 0 && e == g_l && e->type == g_lt && !e->decayed) \
	X(TS_ANY(g_ots) && g_oek < EK_N && g_oqual <= QUALMAX && g_arrq <= QUALMAX && g_enAb <= AT_ULLONG && g_enBb <= AT_ULLONG) \
	X(IMP(g_ots == TS_PTR, g_obs < BS_N && g_oq <= QUALMAX)) \
	X(IMP(g_oek == EK_BITFIELD, TS_ISINT(g_ots))) \
	X(IMP(g_oek == EK_CONST, TS_ISSCALAR(g_ots))) \
	X(IMP(IS_ARR, g_olv && g_oek == EK_OPAQUE)) \
	X(IMP(IS_FN, g_oek == EK_OPAQUE))

#define POST(X) \
	/* 6.3.2.1p3: an expression of type "array of T" is converted to "pointer to T" pointing at the first element -- \
	   a NEW, marked '&' node over it; T keeps its qualifiers (those of the element type and of the designated object) */ \
	X(IMP(IS_ARR, g_ox.who == W_NEW && g_ox.kind == EXPRUNARY && g_ox.op == TBAND && g_ox.base == W_L && g_ox.decayed)) \
	X(IMP(IS_ARR, g_ox.ts == TSEL_NEW && g_ox.pkind == TYPEPOINTER && g_ox.pbase == AT_INT && g_ox.pqual == (g_arrq | g_oqual))) \
	/* 6.3.2.1p4: a function designator is converted to "pointer to function" */ \
	X(IMP(IS_FN, g_ox.who == W_NEW && g_ox.kind == EXPRUNARY && g_ox.op == TBAND && g_ox.base == W_L && g_ox.decayed)) \
	X(IMP(IS_FN, g_ox.ts == TSEL_NEW && g_ox.pkind == TYPEPOINTER && g_ox.pbase == BS_FN)) \
	/* the converted expression is not an lvalue */ \
	X(IMP(IS_ARR || IS_FN, !g_ox.lvalue)) \
	/* every other expression is returned as it is */ \
	X(IMP(!IS_ARR && !IS_FN, g_ox.who == W_L && !g_ox.decayed)) \
	X(g_l->type == g_lt && g_l->lvalue == g_olv && g_l->qual == g_oqual && !g_l->decayed) \
	CANARY(X, !(g_ots == BS_ARR3 && g_arrq == QUALCONST && g_oqual == QUALVOLATILE))

static struct expr *
obs(struct expr *r)
{
	observe(&g_ox, r);
	return r;
}

void
harness(void)
{
	static struct type ty_po;
	struct expr *e;
	struct type *ot;
	IN(bool, in_signedchar); IN(unsigned, in_enAb); IN(unsigned, in_enBb); IN(unsigned, in_arrq);
	IN(unsigned, in_ots); IN(unsigned, in_obs); IN(unsigned, in_oq); IN(unsigned, in_oek); IN(bool, in_olv); IN(unsigned, in_oqual); IN(u64, in_ov);

	__CPROVER_assume(in_enAb <= AT_ULLONG && in_enBb <= AT_ULLONG && in_arrq <= QUALMAX);
	__CPROVER_assume(in_ots < TS_N && in_obs < BS_N && in_oq <= QUALMAX && in_oek < EK_N && in_oqual <= QUALMAX);
	build_universe(in_signedchar, in_enAb, in_enBb);
	ty_arr3.qual = ty_arrinc.qual = in_arrq;
	g_arrq = in_arrq;
	g_ots = in_ots; g_obs = in_obs; g_oq = in_oq; g_oek = in_oek; g_olv = in_olv; g_oqual = in_oqual;
	ot = optype(in_ots, &ty_po, in_obs, in_oq);
	e = mk_operand(in_oek, ot, in_ov, 0, 8 * (unsigned)ot->size - 1, in_olv, in_oqual);
	g_l = e; g_r = 0; g_lt = ot; g_rt = 0;
	HCALLR(struct expr *, PRE, POST, obs(decay(e)));
}
