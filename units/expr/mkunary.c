/* UNIT
{
 "id": "EXPR.mkunary",
 "file": "expr.c", "function": "mkunaryexpr", "also_functions": ["decay", "mkexpr", "mkpointertype", "mktype"],
 "properties": {"C10": "contract", "C05": "contract", "C19": "safety"},
 "mode": "harness",
 "kind": "proof-const-unwind",
 "unwindset": ["mkunaryexpr:3", "decay:3", "recorded.0:9", "tysel.0:27"],
 "variants": {"AMP": ["-DV_OP=TBAND"], "STAR": ["-DV_OP=TMUL"]},
 "canary_variant": "STAR",
 "link_repo": ["type.c"], "cflags": ["-DVERIF_OWN_XMALLOC"],
 "timeout": 300,
 "expects": ["assertion_verif"],
 "assumes": ["type universe of units/expr/expr_util.h; the array types int[3], int[] carry arbitrary element qualifiers",
             "operand forms: a plain expression; a DECAYED array / function designator (EXPRUNARY '&' node with decayed set, as decay() builds it); an address-of node '&x' (as mkunaryexpr builds it: pointer to x's type with x's qualifiers)",
             "the `register` storage class is not represented in struct expr (6.5.3.2p1 'not declared register' is outside this unit)",
             "mutual recursion mkunaryexpr <-> decay has depth 2: unwindset with unwinding assertions"]
}
*/
#include "expr.c"
#include "verif.h"
#include "expr_util.h"

enum { F_PLAIN, F_DECAYED, F_ADDR, F_N };

/* ghosts (oracle view of the operand) */
unsigned g_form;                     /* F_* */
unsigned g_ots, g_obs, g_oq;         /* F_PLAIN: type selector of the operand (+ referenced type and its qualifiers when TS_PTR) */
unsigned g_its, g_ibs, g_iq;         /* F_DECAYED / F_ADDR: type selector of the inner expression x (the array / function / object) */
unsigned g_oek, g_iek;               /* expression kinds (EK_*) of operand / inner */
bool g_olv, g_ilv;                   /* lvalue flags of operand / inner */
unsigned g_oqual, g_iqual;           /* qualifiers of the object the operand / inner designates */
unsigned g_arrq;                     /* element qualifiers of the array type int[3] */
struct nodeobs g_ox, g_oxb, g_oxbb;  /* result, result->base, result->base->base */

/* what `&` takes the address of: the operand itself, or (decayed operand) the array / function designator underneath */
#define A_TS     (g_form == F_DECAYED ? g_its : g_form == F_ADDR ? (unsigned)TS_PTR : g_ots)
#define A_W      (g_form == F_DECAYED ? W_R : W_L)
#define A_LV     (g_form == F_DECAYED ? g_ilv : g_olv)
#define A_EK     (g_form == F_DECAYED ? g_iek : g_oek)
#define A_QUAL   (g_form == F_DECAYED ? g_iqual : g_oqual)
#define A_TSEL   (g_form == F_DECAYED ? (g_its == TS_PTR ? TSEL_R : (int)g_its) : (g_form == F_ADDR || g_ots == TS_PTR) ? TSEL_L : (int)g_ots)
/* what `*` designates: the referenced type of the operand's pointer type */
#define S_ISPTR  (g_form != F_PLAIN || g_ots == TS_PTR)
#define S_BS     (g_form == F_PLAIN ? g_obs : g_form == F_DECAYED ? (g_its == BS_FN ? (unsigned)BS_FN : (unsigned)AT_INT) : g_its)
#define S_TSEL   (g_form == F_ADDR && g_its == TS_PTR ? TSEL_R : (int)S_BS)
#define S_QUAL   (g_form == F_PLAIN ? g_oq : g_form == F_DECAYED ? (g_its == BS_FN ? 0u : (g_arrq | g_iqual)) : g_iqual)
#define S_ISARR  (S_BS == BS_ARR3 || S_BS == BS_ARRINC)
#define S_ISFN   (S_BS == BS_FN)
/* the lvalue node D that `*` yields before array / function decay: the result itself, or the base of the decay node */
#define D_       (S_ISARR || S_ISFN ? g_oxb : g_ox)
#define DB_      (S_ISARR || S_ISFN ? g_oxbb : g_oxb)

#define TS_ANY(ts)     ((ts) < TS_N && (ts) != BS_PI)
#define TS_OPERAND(ts) (TS_ANY(ts) && (ts) != BS_FN && (ts) != BS_ARR3 && (ts) != BS_ARRINC)

#define PRE(X) \
	X(base != 0 && base == g_l && (op == TBAND || op == TMUL)) \
	X(g_form < F_N && g_enAb <= AT_ULLONG && g_enBb <= AT_ULLONG && g_arrq <= QUALMAX && g_oq <= QUALMAX && g_iq <= QUALMAX && g_oqual <= QUALMAX && g_iqual <= QUALMAX) \
	/* a plain operand has decayed, except when decay() itself passes the array / function designator to '&' */ \
	X(IMP(g_form == F_PLAIN, op == TBAND ? TS_ANY(g_ots) : TS_OPERAND(g_ots))) \
	X(IMP(g_form == F_PLAIN && g_ots == TS_PTR, g_obs < BS_N)) \
	X(IMP(g_form == F_PLAIN && g_oek == EK_BITFIELD, TS_ISINT(g_ots))) \
	X(IMP(g_form == F_PLAIN && g_oek == EK_CONST, TS_ISSCALAR(g_ots) && !g_olv)) \
	/* a decayed operand sits on an array or function designator */ \
	X(IMP(g_form == F_DECAYED, g_its == BS_ARR3 || g_its == BS_ARRINC || g_its == BS_FN)) \
	X(IMP(g_form == F_DECAYED && g_its != BS_FN, g_ilv && g_iek == EK_OPAQUE)) \
	X(IMP(g_form == F_ADDR, g_ilv || g_its == BS_FN)) \
	X(IMP(g_form == F_DECAYED, base->kind == EXPRUNARY && base->op == TBAND && base->decayed && base->base == g_r)) \
	/* '&x': x is an lvalue or a function designator, not a bit-field (what mkunaryexpr itself guarantees) */ \
	X(IMP(g_form == F_ADDR, TS_ANY(g_its) && (g_its != TS_PTR || g_ibs < BS_N) && g_iek != EK_BITFIELD && g_iek != EK_CONST)) \
	X(IMP(g_form == F_ADDR, base->kind == EXPRUNARY && base->op == TBAND && !base->decayed && base->base == g_r)) \
	X(g_oek < EK_N && g_iek < EK_N)

#define POST(X) \
	/* ---- unary & (6.5.3.2p1, p3) ---- */ \
	/* C10: the operand is a function designator or an lvalue ... */ \
	X(IMP(op == TBAND, A_LV || A_TS == BS_FN)) \
	/* ... that is not a bit-field */ \
	X(IMP(op == TBAND, A_EK != EK_BITFIELD)) \
	/* C05: the result is a NEW '&' node over it, of type "pointer to <its type>" with the qualifiers of the designated object, not an lvalue */ \
	X(IMP(op == TBAND, g_ox.who == W_NEW && g_ox.kind == EXPRUNARY && g_ox.op == TBAND && g_ox.base == A_W)) \
	X(IMP(op == TBAND, g_ox.ts == TSEL_NEW && g_ox.pkind == TYPEPOINTER && g_ox.pbase == A_TSEL && g_ox.pqual == A_QUAL)) \
	X(IMP(op == TBAND, !g_ox.lvalue && !g_ox.decayed)) \
	/* ---- unary * (6.5.3.2p2, p4) ---- */ \
	/* C10: the operand has pointer type */ \
	X(IMP(op == TMUL, S_ISPTR)) \
	/* C05: the result designates the referenced object / function: type = referenced type, qualifiers = those of the \
	   referenced type, an lvalue; it is a NEW '*' node over the operand, or, for *&x, x itself */ \
	X(IMP(op == TMUL, D_.ts == S_TSEL)) \
	X(IMP(op == TMUL, D_.qual == S_QUAL || (g_form != F_PLAIN && D_.who == W_R))) \
	X(IMP(op == TMUL && !S_ISFN, D_.lvalue)) \
	X(IMP(op == TMUL && g_form == F_PLAIN, D_.who == W_NEW && D_.kind == EXPRUNARY && D_.op == TMUL && D_.base == W_L)) \
	X(IMP(op == TMUL && g_form != F_PLAIN, D_.who == W_R)) \
	/* 6.3.2.1p3: an array lvalue decays to a pointer to its first element (element qualifiers kept); p4: a function \
	   designator decays to a pointer to the function; the decay node is marked */ \
	X(IMP(op == TMUL && (S_ISARR || S_ISFN), g_ox.who == W_NEW && g_ox.kind == EXPRUNARY && g_ox.op == TBAND && g_ox.decayed && !g_ox.lvalue)) \
	X(IMP(op == TMUL && S_ISARR, g_ox.ts == TSEL_NEW && g_ox.pkind == TYPEPOINTER && g_ox.pbase == AT_INT && g_ox.pqual == (g_arrq | S_QUAL))) \
	X(IMP(op == TMUL && S_ISFN, g_ox.ts == TSEL_NEW && g_ox.pkind == TYPEPOINTER && g_ox.pbase == BS_FN)) \
	X(IMP(op == TMUL && !(S_ISARR || S_ISFN), !g_ox.decayed)) \
	CANARY(X, !(op == TMUL && g_form == F_PLAIN && g_obs == BS_ARR3 && g_oq == 0))

static struct expr *
obs(struct expr *r)
{
	struct expr *n, *b;

	observe(&g_ox, r);
	observe(&g_oxb, 0);
	observe(&g_oxbb, 0);
	if (g_ox.who != W_NULL && g_ox.who != W_OTHER) {
		n = NODE(r);
		observe(&g_oxb, n->base);
		if (g_oxb.who != W_NULL && g_oxb.who != W_OTHER) {
			b = NODE(n->base);
			observe(&g_oxbb, b->base);
		}
	}
	return r;
}

void
harness(void)
{
	static struct type ty_po, ty_pin;
	struct expr *base, *inner = 0;
	struct type *ot, *it;
	enum tokenkind op = V_OP;
	IN(bool, in_signedchar); IN(unsigned, in_enAb); IN(unsigned, in_enBb); IN(unsigned, in_arrq);
	IN(unsigned, in_form);
	IN(unsigned, in_ots); IN(unsigned, in_obs); IN(unsigned, in_oq); IN(unsigned, in_oek); IN(bool, in_olv); IN(unsigned, in_oqual); IN(u64, in_ov);
	IN(unsigned, in_its); IN(unsigned, in_ibs); IN(unsigned, in_iq); IN(unsigned, in_iek); IN(bool, in_ilv); IN(unsigned, in_iqual);

	__CPROVER_assume(in_enAb <= AT_ULLONG && in_enBb <= AT_ULLONG && in_arrq <= QUALMAX && in_form < F_N);
	__CPROVER_assume(in_ots < TS_N && in_obs < BS_N && in_oq <= QUALMAX && in_oek < EK_N && in_oqual <= QUALMAX);
	__CPROVER_assume(in_its < TS_N && in_ibs < BS_N && in_iq <= QUALMAX && in_iek < EK_N && in_iqual <= QUALMAX);
	build_universe(in_signedchar, in_enAb, in_enBb);
	ty_arr3.qual = ty_arrinc.qual = in_arrq;
	g_arrq = in_arrq; g_form = in_form;
	g_ots = in_ots; g_obs = in_obs; g_oq = in_oq; g_oek = in_oek; g_olv = in_olv; g_oqual = in_oqual;
	g_its = in_its; g_ibs = in_ibs; g_iq = in_iq; g_iek = in_iek; g_ilv = in_ilv; g_iqual = in_iqual;
	if (in_form == F_PLAIN) {
		ot = optype(in_ots, &ty_po, in_obs, in_oq);
		base = mk_operand(in_oek, ot, in_ov, 0, 8 * (unsigned)ot->size - 1, in_olv, in_oqual);
		g_rt = 0;
	} else {
		it = optype(in_its, &ty_pin, in_ibs, in_iq);
		inner = mk_operand(in_iek == EK_CONST ? EK_OPAQUE : in_iek, it, 0, 0, 8 * (unsigned)it->size - 1, in_ilv, in_iqual);
		g_iek = in_iek == EK_CONST ? EK_OPAQUE : in_iek;
		if (in_form == F_DECAYED) {
			__CPROVER_assume(in_its == BS_ARR3 || in_its == BS_ARRINC || in_its == BS_FN);
			/* decay(): pointer to the element type with (element qualifiers | object qualifiers); pointer to the function */
			if (in_its == BS_FN)
				mk_ptr(&ty_po, it, in_iqual);
			else
				mk_ptr(&ty_po, it->base, it->qual | in_iqual);
		} else {
			mk_ptr(&ty_po, it, in_iqual);
		}
		base = mk_operand(EK_OPAQUE, &ty_po, 0, 0, 0, false, QUALNONE);
		base->kind = EXPRUNARY;
		base->op = TBAND;
		base->decayed = in_form == F_DECAYED;
		base->base = inner;
		g_rt = it;
		g_olv = false; g_oqual = 0;
	}
	g_l = base; g_r = inner; g_lt = base->type;
	HCALLR(struct expr *, PRE, POST, obs(mkunaryexpr(op, base)));
}
