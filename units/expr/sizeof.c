/* UNIT
{
 "id": "EXPR.sizeof",
 "file": "expr.c", "function": "unaryexpr", "also_functions": ["mkconstexpr", "mkexpr"],
 "properties": {"C05": "contract", "C04": "contract", "C10": "contract", "C19": "safety"},
 "mode": "harness",
 "kind": "proof",
 "replace_calls": {"expr": "stub_expr", "postfixexpr": "stub_postfixexpr"},
 "unwindset": ["recorded.0:9", "tysel.0:27"],
 "variants": {"SIZEOF": ["-DV_OP=TSIZEOF"], "ALIGNOF": ["-DV_OP=TALIGNOF"]},
 "canary_variant": "SIZEOF",
 "link_repo": ["type.c"], "cflags": ["-DVERIF_OWN_XMALLOC"],
 "timeout": 120,
 "expects": ["assertion_verif"],
 "replay": false,
 "assumes": ["only the tail of unaryexpr() for sizeof / _Alignof in the parenthesised forms `sizeof(type-name)`, `sizeof(expression)` is under contract: the current token is the operator, next()/expect() do nothing, consume('(') succeeds, typename() is a stub returning the given type or NULL, expr() / postfixexpr() are stubs returning the given operand (the parser is not under contract); the form `sizeof unary-expression` differs only by a recursive parser call",
             "type universe of units/expr/expr_util.h with the LP64 psABI sizes and alignments; struct S1 {size 4, align 4}, S2 {8, 4}, union U1 {4, 4}; no variable length arrays"]
}
*/
#include "expr.c"
#include "verif.h"
#include "expr_util.h"

enum { F_TYPE, F_EXPR, F_DECAYED, F_N };     /* sizeof(type-name); sizeof(expr); sizeof(array-or-function designator) */
unsigned g_form, g_ts, g_bs, g_q, g_ek;
struct type *g_t;          /* what typename() returns */
struct nodeobs g_ox;

struct expr *stub_expr(struct scope *s) { return g_l; }
struct expr *stub_postfixexpr(struct scope *s, struct expr *r) { return r; }
struct type *typename(struct scope *s, enum typequal *tq, struct expr **toeval) { return g_t; }
char *expect(enum tokenkind k, const char *msg) { return 0; }
bool consume(int k) { return true; }
void next(void) { }

#define TS_ANY(ts) ((ts) < TS_N && (ts) != BS_PI)
/* the type whose size is taken */
#define Z_ISPTR   (g_ts == TS_PTR)
#define Z_INCOMPLETE (!Z_ISPTR && g_ts < BS_N && BS_INCOMPLETE(g_ts))
#define Z_ISFUNC  (g_ts == BS_FN)
#define Z_SIZE    (Z_ISPTR || g_ts == TS_NULLPTR ? 8u : BS_SIZE(g_ts))
/* psABI alignment: scalars are aligned to their size, arrays to their element, the universe's structs to 4 */
#define Z_ALIGN   (Z_ISPTR || g_ts == TS_NULLPTR ? 8u : g_ts == BS_ARR3 || g_ts == BS_S1 || g_ts == BS_S2 || g_ts == BS_U1 ? 4u : BS_SIZE(g_ts))

#define PRE(X) \
	X((op == TSIZEOF || op == TALIGNOF) && tok.kind == op) \
	X(g_form < F_N && TS_ANY(g_ts) && g_ek < EK_N && g_enAb <= AT_ULLONG && g_enBb <= AT_ULLONG) \
	X(IMP(g_ts == TS_PTR, g_bs < BS_N && g_q <= QUALMAX)) \
	X(IMP(g_form == F_TYPE, g_t != 0)) \
	X(IMP(g_form != F_TYPE, g_t == 0 && g_l != 0)) \
	/* an expression operand that is not a decayed designator has no array / function type */ \
	X(IMP(g_form == F_EXPR, g_ts != BS_ARR3 && g_ts != BS_ARRINC && g_ts != BS_FN)) \
	X(IMP(g_form == F_DECAYED, g_ts == BS_ARR3 || g_ts == BS_ARRINC || g_ts == BS_FN)) \
	X(IMP(g_ek == EK_BITFIELD, g_form == F_EXPR && TS_ISINT(g_ts))) \
	X(IMP(g_ek == EK_CONST, g_form == F_EXPR && TS_ISSCALAR(g_ts)))

#define POST(X) \
	/* C10 6.5.3.4p1: not applied to a function type, an incomplete type, or a bit-field */ \
	X(!Z_ISFUNC) \
	X(!Z_INCOMPLETE) \
	X(g_ek != EK_BITFIELD) \
	/* C05 6.5.3.4p5: the result has type size_t (unsigned long) and is an integer constant (p2: no VLAs here) */ \
	X(g_ox.who == W_NEW && g_ox.kind == EXPRCONST && g_ox.ts == AT_ULONG && !g_ox.lvalue) \
	/* C04 6.5.3.4p2-p4: the value is the size (alignment) of the type; an array operand does not decay (6.3.2.1p3) */ \
	X(IMP(op == TSIZEOF, g_ox.cval == Z_SIZE)) \
	X(IMP(op == TALIGNOF, g_ox.cval == Z_ALIGN)) \
	CANARY(X, !(g_form == F_DECAYED && g_ts == BS_ARR3 && op == TSIZEOF))

static struct expr *
obs(struct expr *r)
{
	observe(&g_ox, r);
	return r;
}

void
harness(void)
{
	static struct type ty_po, ty_pd;
	static struct scope sc;
	struct scope *s = &sc;
	struct expr *e, *inner;
	struct type *ot;
	enum tokenkind op = V_OP;
	IN(bool, in_signedchar); IN(unsigned, in_enAb); IN(unsigned, in_enBb);
	IN(unsigned, in_form); IN(unsigned, in_ts); IN(unsigned, in_bs); IN(unsigned, in_q); IN(unsigned, in_ek); IN(u64, in_v); IN(bool, in_lv);

	__CPROVER_assume(in_enAb <= AT_ULLONG && in_enBb <= AT_ULLONG && in_form < F_N);
	__CPROVER_assume(in_ts < TS_N && in_bs < BS_N && in_q <= QUALMAX && in_ek < EK_N);
	build_universe(in_signedchar, in_enAb, in_enBb);
	ty_S1.align = ty_S2.align = ty_U1.align = 4;
	g_form = in_form; g_ts = in_ts; g_bs = in_bs; g_q = in_q; g_ek = in_form == F_EXPR ? in_ek : EK_OPAQUE;
	ot = optype(in_ts, &ty_po, in_bs, in_q);
	g_t = 0; g_l = 0; g_r = 0;
	if (in_form == F_TYPE) {
		g_t = ot;
	} else if (in_form == F_EXPR) {
		g_l = mk_operand(in_ek, ot, in_v, 0, 8 * (unsigned)ot->size - 1, in_lv, QUALNONE);
	} else {
		__CPROVER_assume(in_ts == BS_ARR3 || in_ts == BS_ARRINC || in_ts == BS_FN);
		inner = mk_operand(EK_OPAQUE, ot, 0, 0, 0, true, QUALNONE);
		mk_ptr(&ty_pd, in_ts == BS_FN ? ot : ot->base, QUALNONE);
		e = mk_operand(EK_OPAQUE, &ty_pd, 0, 0, 0, false, QUALNONE);
		e->kind = EXPRUNARY; e->op = TBAND; e->decayed = true; e->base = inner;
		g_l = e; g_r = inner;
	}
	g_lt = g_l ? g_l->type : 0; g_rt = 0;
	tok.kind = op;
	HCALLR(struct expr *, PRE, POST, obs(unaryexpr(s)));
}
