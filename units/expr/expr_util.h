/*
 * expr_util.h -- the finite TYPE UNIVERSE and operand builder shared by the units on /repo/expr.c
 * (no contract lives here; PRE/POST are in the units).
 *
 * Operand types are the REAL global type objects of type.c (chosen by selector), plus fresh enum / struct / union /
 * function / array / pointer type objects laid out the way decl.c:tagspec, type.c:mkpointertype/mkarraytype lay them
 * out.  Every type is known to the oracle by its SELECTOR (what C type it is), never by reading its struct fields:
 *
 *   selector 0..14   the arithmetic type with that spec/c_exprtype.h code (AT_*)
 *   BS_ENA, BS_ENB   two distinct enumerated types; compatible integer type = code g_enAb / g_enBb (any integer type)
 *   BS_VOID          void                                 BS_FN     function type  int(void)
 *   BS_S1, BS_S2     two distinct complete struct types   BS_PI     int *
 *   BS_S3INC         incomplete struct type               BS_ARR3   int[3]      BS_ARRINC  int[] (incomplete)
 *   BS_U1            complete union type
 *   TS_PTR           (operand types only) a fresh pointer type; referenced type = selector g_?bs, qualifiers g_?q
 *   TS_NULLPTR       nullptr_t (C23)
 * Operand-type selectors never use BS_PI directly (a pointer operand is always TS_PTR).
 */
#ifndef EXPR_UTIL_H
#define EXPR_UTIL_H
#include "c_exprtype.h"

extern int g_no_error;      /* stubs/base.c */

/* every combination of const, restrict, volatile (_Atomic is rejected by decl.c:typequal) */
#define QUALMAX (QUALCONST|QUALRESTRICT|QUALVOLATILE)

enum {
	BS_ENA = AT_N, BS_ENB, BS_VOID, BS_S1, BS_S2, BS_S3INC, BS_FN, BS_PI, BS_ARR3, BS_ARRINC, BS_U1, BS_N,
	TS_PTR = BS_N, TS_NULLPTR, TS_N
};

static struct type ty_enA, ty_enB, ty_S1, ty_S2, ty_S3inc, ty_fn, ty_pi, ty_arr3, ty_arrinc, ty_U1;

static struct type *const ty_arith[AT_N] = {
	&typebool, &typechar, &typeschar, &typeuchar, &typeshort, &typeushort, &typeint, &typeuint,
	&typelong, &typeulong, &typellong, &typeullong, &typefloat, &typedouble, &typeldouble
};
static struct type *const ty_arithenum[BS_ENB + 1] = {
	&typebool, &typechar, &typeschar, &typeuchar, &typeshort, &typeushort, &typeint, &typeuint,
	&typelong, &typeulong, &typellong, &typeullong, &typefloat, &typedouble, &typeldouble, &ty_enA, &ty_enB
};
static struct type *const ty_base[BS_N] = {
	&typebool, &typechar, &typeschar, &typeuchar, &typeshort, &typeushort, &typeint, &typeuint,
	&typelong, &typeulong, &typellong, &typeullong, &typefloat, &typedouble, &typeldouble,
	&ty_enA, &ty_enB, &typevoid, &ty_S1, &ty_S2, &ty_S3inc, &ty_fn, &ty_pi, &ty_arr3, &ty_arrinc, &ty_U1
};

/* ghosts describing the universe (bound by the harness; logical variables of the contracts) */
bool g_signedchar;            /* targ->signedchar: targinit() stores it into typechar.u.basic.issigned */
unsigned g_enAb, g_enBb;      /* AT code of the integer type each enum is compatible with */

/* ---- oracle-side facts about a selector (C11 6.2.5) ---- */
#define TS_CODE(ts)      ((ts) < AT_N ? (int)(ts) : (ts) == BS_ENA ? (int)g_enAb : (ts) == BS_ENB ? (int)g_enBb : -1)
#define TS_ISINT(ts)     ((ts) <= AT_ULLONG || (ts) == BS_ENA || (ts) == BS_ENB)       /* 6.2.5p17 */
#define TS_ISFLT(ts)     ((ts) >= AT_FLOAT && (ts) <= AT_LDOUBLE)                      /* real floating, 6.2.5p10 */
#define TS_ISARITH(ts)   (TS_ISINT(ts) || TS_ISFLT(ts))                                /* 6.2.5p18; no complex types in cproc */
#define TS_ISREAL(ts)    TS_ISARITH(ts)                                                /* 6.2.5p17 */
#define TS_ISPTR(ts)     ((ts) == TS_PTR)
#define TS_ISSCALAR(ts)  (TS_ISARITH(ts) || TS_ISPTR(ts) || (ts) == TS_NULLPTR)        /* 6.2.5p21 (+ C23 nullptr_t) */
#define TS_ISSTRUCT(ts)  ((ts) == BS_S1 || (ts) == BS_S2 || (ts) == BS_S3INC || (ts) == BS_U1)
/* referenced-type facts */
#define BS_ISFUNC(bs)    ((bs) == BS_FN)
#define BS_INCOMPLETE(bs) ((bs) == BS_VOID || (bs) == BS_S3INC || (bs) == BS_ARRINC)   /* 6.2.5p1, p19, p22 */
#define BS_COMPLETEOBJ(bs) (!BS_ISFUNC(bs) && !BS_INCOMPLETE(bs))
#define BS_SIZE(bs)      ((bs) < AT_N ? spec_at_size(bs) : (bs) == BS_ENA ? spec_at_size(g_enAb) : (bs) == BS_ENB ? spec_at_size(g_enBb) : \
                          (bs) == BS_S1 ? 4u : (bs) == BS_S2 ? 8u : (bs) == BS_U1 ? 4u : (bs) == BS_PI ? 8u : (bs) == BS_ARR3 ? 12u : 0u)

/* C11 6.2.7 / 6.7.2.2p4 / 6.7.6.2p6 on the universe: are the types with selectors a and b compatible? */
static inline bool
spec_bscompat(unsigned a, unsigned b)
{
	if (a == b)
		return true;                                   /* the same type */
	if (a == BS_ENA && b == g_enAb || b == BS_ENA && a == g_enAb)
		return true;                                   /* enum <-> its compatible integer type */
	if (a == BS_ENB && b == g_enBb || b == BS_ENB && a == g_enBb)
		return true;
	if (a == BS_ARR3 && b == BS_ARRINC || a == BS_ARRINC && b == BS_ARR3)
		return true;                                   /* int[3] ~ int[] */
	return false;                                          /* distinct basic types, distinct tags, two enums, ... */
}

/* is t "the type with code c" -- the type object itself, or an enumerated type compatible with it */
#define TYIS(t, c)  ((c) >= 0 && (c) < AT_N && ((t) == ty_arith[c] || ((t)->kind == TYPEENUM && (t)->base == ty_arith[c])))

/* ---- builders ---- */
static void
mk_enum(struct type *t, unsigned code)
{
	struct type *b = ty_arith[code];

	/* decl.c:tagspec */
	t->kind = TYPEENUM;
	t->prop = PROPSCALAR|PROPARITH|PROPREAL|PROPINT;
	t->base = b;
	t->size = b->size;
	t->align = b->align;
	t->u.basic.issigned = b->u.basic.issigned;
	t->incomplete = false;
}

static void
mk_ptr(struct type *t, struct type *base, unsigned qual)
{
	/* type.c:mkpointertype */
	t->kind = TYPEPOINTER;
	t->prop = PROPSCALAR;
	t->base = base;
	t->qual = qual;
	t->size = 8;
	t->align = 8;
	t->incomplete = false;
}

static void
build_universe(bool signedchar, unsigned enAb, unsigned enBb)
{
	typechar.u.basic.issigned = signedchar;       /* targ.c:targinit */
	mk_enum(&ty_enA, enAb);
	mk_enum(&ty_enB, enBb);
	ty_S1.kind = TYPESTRUCT; ty_S1.size = 4; ty_S1.align = 4;
	ty_S2.kind = TYPESTRUCT; ty_S2.size = 8; ty_S2.align = 4;
	ty_S3inc.kind = TYPESTRUCT; ty_S3inc.incomplete = true;
	ty_U1.kind = TYPEUNION; ty_U1.size = 4; ty_U1.align = 4;
	ty_fn.kind = TYPEFUNC; ty_fn.base = &typeint;
	mk_ptr(&ty_pi, &typeint, QUALNONE);
	ty_arr3.kind = TYPEARRAY; ty_arr3.base = &typeint; ty_arr3.size = 12; ty_arr3.align = 4;
	ty_arrinc.kind = TYPEARRAY; ty_arrinc.base = &typeint; ty_arrinc.align = 4; ty_arrinc.incomplete = true;
	g_signedchar = signedchar;
	g_enAb = enAb;
	g_enBb = enBb;
}

/* the type object for operand-type selector ts (pt = that operand's own fresh pointer type) */
static struct type *
optype(unsigned ts, struct type *pt, unsigned bs, unsigned q)
{
	if (ts < BS_N)
		return ty_base[ts];
	if (ts == TS_PTR) {
		mk_ptr(pt, ty_base[bs], q);
		return pt;
	}
	return &typenullptr;
}

enum { EK_OPAQUE, EK_CONST, EK_BITFIELD, EK_N };

/*
 * an operand as the parser hands it over: heap allocated (mkunaryexpr may free() a decayed operand);
 *   EK_OPAQUE    some non-constant expression (EXPRIDENT)
 *   EK_CONST     a folded constant with value v
 *   EK_BITFIELD  a bit-field member access of width 8*size - before - after
 */
static struct expr *
mk_operand(unsigned ek, struct type *t, u64 v, unsigned before, unsigned after, bool lvalue, unsigned qual)
{
	struct expr *e = malloc(sizeof(*e)), *b;

	__CPROVER_assume(e != 0);
	memset(e, 0, sizeof(*e));
	e->type = t;
	e->lvalue = lvalue;
	e->qual = qual;
	switch (ek) {
	case EK_CONST:
		e->kind = EXPRCONST;
		e->u.constant.u = v;
		break;
	case EK_BITFIELD:
		b = malloc(sizeof(*b));
		__CPROVER_assume(b != 0);
		memset(b, 0, sizeof(*b));
		b->kind = EXPRUNARY;
		b->op = TMUL;
		b->type = t;
		b->lvalue = lvalue;
		e->kind = EXPRBITFIELD;
		e->base = b;
		e->u.bitfield.bits.before = before;
		e->u.bitfield.bits.after = after;
		break;
	default:
		e->kind = EXPRIDENT;
		break;
	}
	return e;
}

/* C11 6.3.2.3p3 on a folded operand: integer constant 0, or such cast to (unqualified) void *; C23: nullptr */
#define SPEC_ISNPC(ek, ts, bs, q, v) \
	((ek) == EK_CONST && (((ts) == TS_NULLPTR) || (v) == 0 && (TS_ISINT(ts) || (ts) == TS_PTR && (bs) == BS_VOID && (q) == QUALNONE)))

/*
 * Allocation recorder and post-state OBSERVERS (compile the unit with -DVERIF_OWN_XMALLOC so that stubs/base.c does not
 * define xmalloc).
 *
 * CBMC 6.11 loses the points-to set of a pointer that was stored into the union `struct expr.u` of a heap node and read
 * back (dereferencing e->u.binary.l yields an invalid object although e->u.binary.l == <the node> is provable), and its
 * value-set based simplifier explodes on POST clauses that compare such pointers.  Therefore: every node the function
 * under contract creates is recorded; after the call the returned tree is abstracted ONCE, by plain C code that runs
 * identically in the native replay, into scalar observations (struct nodeobs); POST clauses speak about those scalars.
 */
#define NALLOC 8
void *g_alloc[NALLOC];
unsigned g_nalloc;

void *
xmalloc(size_t n)
{
	void *p = malloc(n);

	__CPROVER_assume(p != 0);
	if (g_nalloc < NALLOC)
		g_alloc[g_nalloc] = p;
	++g_nalloc;
	return p;
}

/* same heap object?  (nodes and types are whole objects; comparing object numbers instead of pointers keeps CBMC's
   simplifier quiet) */
#ifdef VERIF_REPLAY
#define SAMENODE(p, q) ((void *)(p) == (void *)(q))
#else
#define SAMENODE(p, q) ((p) != 0 && (q) != 0 && __CPROVER_POINTER_OBJECT(p) == __CPROVER_POINTER_OBJECT(q))
#endif

/* the operands handed to the function under contract (g_r == 0 for unary functions) and their types */
struct expr *g_l, *g_r;
struct type *g_lt, *g_rt;

/* who is this node? */
enum { W_NULL, W_L, W_R, W_NEW, W_OTHER };
/* which type is this?  0..BS_N-1: ty_base[k]; TSEL_NULLPTR; TSEL_L / TSEL_R: the (fresh pointer) type object of the
   left / right operand; TSEL_NEW: a type object created by the call; TSEL_OTHER */
enum { TSEL_NULLPTR = TS_NULLPTR, TSEL_L = 100, TSEL_R, TSEL_NEW, TSEL_OTHER, TSEL_NONE };

struct nodeobs {
	int who;
	int kind, op;
	int ts;            /* TSEL of ->type */
	int base;          /* who of ->base */
	bool lvalue, decayed;
	unsigned qual;
	u64 cval;          /* ->u.constant.u when kind == EXPRCONST */
	/* when ts == TSEL_NEW (a pointer type made by the call): */
	int pbase;         /* TSEL of ->type->base */
	unsigned pqual;    /* ->type->qual */
	int pkind;         /* ->type->kind */
};

static int
recorded(const void *p)
{
	unsigned k;

	for (k = 0; k < NALLOC; ++k) {
		if (k < g_nalloc && SAMENODE(p, g_alloc[k]))
			return (int)k;
	}
	return -1;
}

static int
whois(struct expr *p)
{
	if (!p)
		return W_NULL;
	if (SAMENODE(p, g_l))
		return W_L;
	if (SAMENODE(p, g_r))
		return W_R;
	if (recorded(p) >= 0)
		return W_NEW;
	return W_OTHER;
}

static int
tysel(struct type *t)
{
	unsigned k;

	if (!t)
		return TSEL_NONE;
	for (k = 0; k < BS_N; ++k) {
		if (SAMENODE(t, ty_base[k]))
			return (int)k;
	}
	if (SAMENODE(t, &typenullptr))
		return TSEL_NULLPTR;
	if (SAMENODE(t, g_lt))
		return TSEL_L;
	if (SAMENODE(t, g_rt))
		return TSEL_R;
	if (recorded(t) >= 0)
		return TSEL_NEW;
	return TSEL_OTHER;
}

/* the node p points to, through a pointer whose points-to set is intact */
static struct expr *
NODE(struct expr *p)
{
	int k;

	if (SAMENODE(p, g_l))
		return g_l;
	if (SAMENODE(p, g_r))
		return g_r;
	k = recorded(p);
	if (k == 0) return g_alloc[0];
	if (k == 1) return g_alloc[1];
	if (k == 2) return g_alloc[2];
	if (k == 3) return g_alloc[3];
	if (k == 4) return g_alloc[4];
	if (k == 5) return g_alloc[5];
	if (k == 6) return g_alloc[6];
	if (k == 7) return g_alloc[7];
	return p;
}

static struct type *
TNODE(struct type *t)
{
	int k = recorded(t);

	if (k == 0) return g_alloc[0];
	if (k == 1) return g_alloc[1];
	if (k == 2) return g_alloc[2];
	if (k == 3) return g_alloc[3];
	if (k == 4) return g_alloc[4];
	if (k == 5) return g_alloc[5];
	if (k == 6) return g_alloc[6];
	if (k == 7) return g_alloc[7];
	return t;
}

static void
observe(struct nodeobs *o, struct expr *p)
{
	struct expr *n;
	struct type *t;

	o->who = whois(p);
	o->kind = o->op = -1;
	o->ts = o->pbase = TSEL_NONE;
	o->base = W_NULL;
	o->lvalue = o->decayed = false;
	o->qual = o->pqual = 0;
	o->pkind = -1;
	o->cval = 0;
	if (o->who == W_NULL || o->who == W_OTHER)
		return;
	n = NODE(p);
	o->kind = n->kind;
	o->op = n->op;
	o->ts = tysel(n->type);
	o->base = whois(n->base);
	o->lvalue = n->lvalue;
	o->decayed = n->decayed;
	o->qual = n->qual;
	if (n->kind == EXPRCONST)
		o->cval = n->u.constant.u;
	if (o->ts == TSEL_NEW) {
		t = TNODE(n->type);
		o->pkind = t->kind;
		o->pbase = tysel(t->base);
		o->pqual = t->qual;
	}
}

/* "the type with selector ts is the arithmetic type with code c" (the type itself or an enum compatible with it) */
#define TSIS(ts, c)  ((c) >= 0 && ((ts) == (c) || ((ts) == BS_ENA && (int)g_enAb == (c)) || ((ts) == BS_ENB && (int)g_enBb == (c))))

#ifndef EXPR_OWN_EVAL
/* ASSUMED: folding is proved on eval.c itself (EVAL.*); here operands are already folded: eval(e) == e */
struct expr *
eval(struct expr *e)
{
	return e;
}
#endif

#endif
