/* UNIT
{
 "id": "EXPR.mkincdec",
 "file": "expr.c", "function": "mkincdecexpr", "also_functions": ["mkexpr"],
 "properties": {"C10": "contract", "C05": "contract", "C19": "safety"},
 "mode": "harness",
 "kind": "proof-const-unwind",
 "unwindset": ["recorded.0:9", "tysel.0:27"],
 "link_repo": ["type.c"], "cflags": ["-DVERIF_OWN_XMALLOC"],
 "timeout": 120,
 "expects": ["assertion_verif"],
 "assumes": ["type universe of units/expr/expr_util.h; the operand has decayed (arrays / function designators arrive as non-lvalue pointers)",
             "struct / union operands with const members (6.3.2.1p1 'modifiable lvalue') are not modelled: the universe's struct types have no member list"]
}
*/
#include "expr.c"
#include "verif.h"
#include "expr_util.h"

unsigned g_ots, g_obs, g_oq, g_oek, g_oqual;
bool g_olv, g_post;
struct nodeobs g_ox;

#define TS_OPERAND(ts) ((ts) < TS_N && (ts) != BS_FN && (ts) != BS_ARR3 && (ts) != BS_ARRINC && (ts) != BS_PI)

#define PRE(X) \
	X(base != 0 && base == g_l && (op == TINC || op == TDEC)) \
	X(TS_OPERAND(g_ots) && g_oek < EK_N && g_oqual <= QUALMAX) \
	X(IMP(g_ots == TS_PTR, g_obs < BS_N && g_oq <= QUALMAX)) \
	X(IMP(g_oek == EK_BITFIELD, TS_ISINT(g_ots))) \
	X(IMP(g_oek == EK_CONST, TS_ISSCALAR(g_ots) && !g_olv))

#define POST(X) \
	/* C10, 6.5.2.4p1 / 6.5.3.1p1: the operand shall be a modifiable lvalue ... */ \
	X(g_olv) \
	X(!(g_oqual & QUALCONST)) \
	/* ... of real or pointer type ... */ \
	X(TS_ISREAL(g_ots) || TS_ISPTR(g_ots)) \
	/* ... and (6.5.2.4p2 -> 6.5.6p2) a pointer operand points to a complete object type */ \
	X(IMP(TS_ISPTR(g_ots), BS_COMPLETEOBJ(g_obs))) \
	/* C05: the result is a NEW ++/-- node over the operand with the operand's type, not an lvalue (6.5.2.4p2, 6.5.3.1p2) */ \
	X(g_ox.who == W_NEW && g_ox.kind == EXPRINCDEC && g_ox.base == W_L) \
	X(g_ox.op == (int)op) \
	X(g_ox.ts == (g_ots == TS_PTR ? TSEL_L : (int)g_ots)) \
	X(!g_ox.lvalue) \
	X(g_post == post) \
	/* frame */ \
	X(g_l->type == g_lt && g_l->lvalue == g_olv && g_l->qual == g_oqual) \
	CANARY(X, !(g_ots == AT_DOUBLE && op == TDEC && post))

static struct expr *
obs(struct expr *r)
{
	observe(&g_ox, r);
	g_post = g_ox.who == W_NEW && g_ox.kind == EXPRINCDEC ? NODE(r)->u.incdec.post : false;
	return r;
}

void
harness(void)
{
	static struct type ty_po;
	struct expr *base;
	struct type *ot;
	enum tokenkind op;
	IN(bool, in_signedchar); IN(unsigned, in_enAb); IN(unsigned, in_enBb);
	IN(unsigned, in_ots); IN(unsigned, in_obs); IN(unsigned, in_oq); IN(unsigned, in_oek); IN(bool, in_olv); IN(unsigned, in_oqual); IN(u64, in_ov);
	IN(bool, in_dec); IN(bool, post);

	__CPROVER_assume(in_enAb <= AT_ULLONG && in_enBb <= AT_ULLONG);
	__CPROVER_assume(in_ots < TS_N && in_obs < BS_N && in_oq <= QUALMAX && in_oek < EK_N && in_oqual <= QUALMAX);
	build_universe(in_signedchar, in_enAb, in_enBb);
	op = in_dec ? TDEC : TINC;
	g_ots = in_ots; g_obs = in_obs; g_oq = in_oq; g_oek = in_oek; g_olv = in_olv; g_oqual = in_oqual;
	ot = optype(in_ots, &ty_po, in_obs, in_oq);
	base = mk_operand(in_oek, ot, in_ov, 0, 8 * (unsigned)ot->size - 1, in_olv, in_oqual);
	g_l = base; g_r = 0; g_lt = ot; g_rt = 0;
	HCALLR(struct expr *, PRE, POST, obs(mkincdecexpr(op, base, post)));
}
