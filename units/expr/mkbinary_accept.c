/* UNIT
{
 "id": "EXPR.mkbinary.accept",
 "file": "expr.c", "function": "mkbinaryexpr",
 "also_functions": ["commonreal", "exprconvert", "exprpromote", "bitfieldwidth", "nullpointer", "mkexpr", "mkconstexpr", "typecommonreal", "typepromote", "typecompatible", "typerank"],
 "properties": {"C05": "contract", "C19": "safety"},
 "mode": "harness",
 "kind": "proof-const-unwind",
 "unwindset": ["typecompatible.0:1", "typecompatible:3", "mkbinaryexpr:2", "recorded.0:9", "tysel.0:27"],
 "variants": {"A_TMUL": ["-DU_ARITH", "-DV_OP=TMUL"], "A_TDIV": ["-DU_ARITH", "-DV_OP=TDIV"], "A_TMOD": ["-DU_ARITH", "-DV_OP=TMOD"], "A_TADD": ["-DU_ARITH", "-DV_OP=TADD"], "A_TSUB": ["-DU_ARITH", "-DV_OP=TSUB"], "A_TSHL": ["-DU_ARITH", "-DV_OP=TSHL"], "A_TSHR": ["-DU_ARITH", "-DV_OP=TSHR"], "A_TLESS": ["-DU_ARITH", "-DV_OP=TLESS"], "A_TGREATER": ["-DU_ARITH", "-DV_OP=TGREATER"], "A_TLEQ": ["-DU_ARITH", "-DV_OP=TLEQ"], "A_TGEQ": ["-DU_ARITH", "-DV_OP=TGEQ"], "A_TEQL": ["-DU_ARITH", "-DV_OP=TEQL"], "A_TNEQ": ["-DU_ARITH", "-DV_OP=TNEQ"], "A_TBAND": ["-DU_ARITH", "-DV_OP=TBAND"], "A_TBOR": ["-DU_ARITH", "-DV_OP=TBOR"], "A_TXOR": ["-DU_ARITH", "-DV_OP=TXOR"], "P_TADD": ["-DV_OP=TADD"], "PP_TSUB": ["-DU_RPTR", "-DV_OP=TSUB"], "PI_TSUB": ["-DU_RNOPTR", "-DV_OP=TSUB"], "P_TLESS": ["-DV_OP=TLESS"], "P_TGREATER": ["-DV_OP=TGREATER"], "P_TLEQ": ["-DV_OP=TLEQ"], "P_TGEQ": ["-DV_OP=TGEQ"], "P_TEQL": ["-DV_OP=TEQL"], "P_TNEQ": ["-DV_OP=TNEQ"], "P_TLAND": ["-DV_OP=TLAND"], "P_TLOR": ["-DV_OP=TLOR"], "A_TLAND": ["-DU_ARITH", "-DV_OP=TLAND"], "A_TLOR": ["-DU_ARITH", "-DV_OP=TLOR"]},
 "canary_variant": "P_TADD",
 "link_repo": ["type.c"], "cflags": ["-DVERIF_OWN_XMALLOC"],
 "timeout": 300,
 "expects": ["assertion_verif", "assertion_repo"],
 "assumes": ["eval() is the identity: operands are already folded, a constant operand has kind EXPRCONST (folding itself: EVAL.* units)",
             "type universe of units/expr/expr_util.h: all 15 arithmetic type objects of type.c (plain char signed or unsigned), two enum types over any integer type, void, nullptr_t, struct/union, pointers (any qualifiers) to all of these and to function / array / pointer types",
             "operands have decayed (no array or function typed operand): every operand reaches mkbinaryexpr through castexpr()",
             "bit-fields declared with a type wider than int promote by width when width <= 32 (implementation-defined; gcc's rule)",
             "referenced complete object types have size > 0 (no VLA element types)",
             "C23 nullptr_t operands of == and != are outside C11 and excluded",
             "recursion depth of mkbinaryexpr is 2 (pointer arithmetic builds one inner '*' or '-'), of typecompatible <= 3 on this universe, its parameter loop runs 0 times (the universe's function type has no parameters): unwindset with unwinding assertions"]
}
*/
#include "expr.c"
#include "verif.h"
#include "mkbinary_common.h"

#define SC        g_signedchar
/* oracle values, computed once by the harness */
int g_common, g_proml, g_promr;
#define COMMON    g_common      /* == spec_common(LC, g_lw, RC, g_rw, SC)  6.3.1.8 */
#define PROM_L    g_proml       /* == spec_promote(LC, g_lw, SC)           6.3.1.1p2 */
#define PROM_R    g_promr
#define X_   g_ox        /* observations of the returned tree (mkbinary_common.h) */
#define XL   g_oxl
#define XR   g_oxr

#define ISU64(ts)            (TSIS(ts, AT_ULONG) || TSIS(ts, AT_ULLONG))
#define CONVU64(o, W, ots)   (CONV(o, W, ots, AT_ULONG) || CONV(o, W, ots, AT_ULLONG))
/* o (operands ol, or) is  <operand W> * sz  computed in a 64-bit unsigned type (either operand order) */
#define SCALED(o, ol, or_, W, ots, sz) \
	((o).who == W_NEW && (o).kind == EXPRBINARY && (o).op == TMUL && ISU64((o).ts) && \
	 ((CONVU64(ol, W, ots) && ISNEWCONST(or_, sz) && ISU64((or_).ts)) || \
	  (CONVU64(or_, W, ots) && ISNEWCONST(ol, sz) && ISU64((ol).ts))))
/* pointer operand W of a comparison: itself, or converted to the other operand's (pointer) type */
#define PCONV(o, W, othertsel) ((o).who == (W) || ((o).who == W_NEW && (o).kind == EXPRCAST && (o).base == (W) && (o).ts == (othertsel)))
#define ISCASTTO(o, W, c)    ((o).who == W_NEW && (o).kind == EXPRCAST && (o).base == (W) && (o).ts == (c))

#define OP_ARITH  (OP_MULDIV || op == TMOD || OP_BIT || ((op == TADD || op == TSUB) && BOTH_ARITH))
#define OP_PADD   (op == TADD && !BOTH_ARITH)
#define OP_PSUBI  (op == TSUB && L_PTR && R_INT)
#define OP_PSUBP  (op == TSUB && L_PTR && R_PTR)
#define OP_CMP    (OP_REL || OP_EQ)
/* pointer +- integer: which is which */
#define P_W       (L_PTR ? W_L : W_R)
#define I_W       (L_PTR ? W_R : W_L)
#define I_TS      (L_PTR ? g_rts : g_lts)
#define P_TSEL    (L_PTR ? TSEL_L : TSEL_R)
#define P_BS      (L_PTR ? g_lbs : g_rbs)
#define P_Q       (L_PTR ? g_lq : g_rq)
/* the result has the pointer operand's type: that very type object, or a new pointer type to the same referenced type
   with the same qualifiers */
#define HASPTRTYPE(o) ((o).ts == P_TSEL || ((o).ts == TSEL_NEW && (o).pkind == TYPEPOINTER && (o).pbase == (int)P_BS && (o).pqual == P_Q))

#define PRE(X) \
	PRE_WF(X) \
	/* the operands satisfy the constraints of the operator (C11 6.5.5-6.5.14): this unit is about VALID expressions */ \
	X(LEGAL) \
	X(U_CASE) \
	X(IMP(OP_EQ, g_lts != TS_NULLPTR && g_rts != TS_NULLPTR))

/* C05 "every expression is given the type ...": an expression whose operands satisfy the constraints of its operator
   is TYPED, i.e. mkbinaryexpr returns (g_no_error = 1 turns every reachable error()/fatal() into a failed obligation) */
#define POST(X) \
	X(X_.who == W_NEW && X_.kind == EXPRBINARY) \
	CANARY(X, !(op == TADD && g_lts == AT_INT && g_rts == TS_PTR && g_rbs == BS_S2))

void
harness(void)
{
	static struct location the_loc;
	struct location *loc = &the_loc;
	struct mkb_in in;
	struct expr *l, *r;
	enum tokenkind op;
	IN(int, in_op);
	IN(bool, in_signedchar); IN(unsigned, in_enAb); IN(unsigned, in_enBb);
	IN(unsigned, in_lts); IN(unsigned, in_lbs); IN(unsigned, in_lq); IN(unsigned, in_lek); IN(u64, in_lv); IN(unsigned, in_lw);
	IN(unsigned, in_rts); IN(unsigned, in_rbs); IN(unsigned, in_rq); IN(unsigned, in_rek); IN(u64, in_rv); IN(unsigned, in_rw);
	IN(bool, in_llv); IN(bool, in_rlv); IN(unsigned, in_lafter); IN(unsigned, in_rafter);

#ifdef V_OP
	op = V_OP;          /* one CBMC run per operator (compile-time case split; the variants cover OP_ANY) */
#else
	op = in_op;
#endif
	in.signedchar = in_signedchar; in.enAb = in_enAb; in.enBb = in_enBb;
	in.lts = in_lts; in.lbs = in_lbs; in.lq = in_lq; in.lek = in_lek; in.lv = in_lv; in.lw = in_lw; in.lafter = in_lafter; in.llv = in_llv;
	in.rts = in_rts; in.rbs = in_rbs; in.rq = in_rq; in.rek = in_rek; in.rv = in_rv; in.rw = in_rw; in.rafter = in_rafter; in.rlv = in_rlv;
	mkb_build(&in, &l, &r);
	g_common = BOTH_ARITH ? spec_common(LC, g_lw, RC, g_rw, SC) : -1;
	g_proml = L_ARITH ? spec_promote(LC, g_lw, SC) : -1;
	g_promr = R_ARITH ? spec_promote(RC, g_rw, SC) : -1;
	g_compat = spec_bscompat(g_lbs, g_rbs);
	g_no_error = 1;     /* a valid expression must be typed, not diagnosed */
	HCALLR(struct expr *, PRE, POST, mkb_observe(mkbinaryexpr(loc, op, l, r)));
}
