/* UNIT
{
 "id": "EXPR.intconstexpr",
 "file": "expr.c", "function": "intconstexpr",
 "properties": {"C04": "contract", "C10": "contract", "C19": "safety"},
 "mode": "harness",
 "kind": "proof",
 "replace_calls": {"condexpr": "stub_condexpr"},
 "variants": {"reject": [], "accept": ["-DACCEPT"]}, "canary_variant": "reject",
 "unwindset": ["recorded.0:9", "tysel.0:27"],
 "link_repo": ["type.c"], "cflags": ["-DVERIF_OWN_XMALLOC"],
 "timeout": 120,
 "expects": ["assertion_verif"],
 "replay": false,
 "assumes": ["condexpr(s) is replaced by a stub returning an arbitrary expression node of the universe (the parser is not under contract)",
             "eval() is the identity: the node returned by the stub is what folding produced (folding itself: EVAL.* units)",
             "integer constants are canonical carriers of their type (sign-extended to 64 bits when signed; EVAL.cast postcondition), so 'negative' == signed type and bit 63 set"]
}
*/
#include "expr.c"
#include "verif.h"
#include "c_arith.h"
#include "expr_util.h"

unsigned g_ots, g_obs, g_oq, g_oek;
u64 g_ov;
struct expr *g_e;

struct expr *
stub_condexpr(struct scope *s)
{
	return g_e;
}

#define TS_OPERAND(ts) ((ts) < TS_N && (ts) != BS_FN && (ts) != BS_ARR3 && (ts) != BS_ARRINC && (ts) != BS_PI)
#define O_CODE   TS_CODE(g_ots)
#define O_SIGNED spec_at_signed(O_CODE, g_signedchar)
#define O_NEG    (O_SIGNED && (i64)g_ov < 0)

#ifdef ACCEPT
/* variant "accept": an integer constant expression that is non-negative (or may be negative) must be accepted */
#define PRE_CASE(X) X(g_oek == EK_CONST && TS_ISINT(g_ots) && (allowneg || !O_NEG))
#else
#define PRE_CASE(X)
#endif

#define PRE(X) \
	PRE_CASE(X) \
	X(g_e != 0 && g_e == g_l) \
	X(TS_OPERAND(g_ots) && g_oek < EK_N && g_enAb <= AT_ULLONG && g_enBb <= AT_ULLONG) \
	X(IMP(g_ots == TS_PTR, g_obs < BS_N && g_oq <= QUALMAX)) \
	X(IMP(g_oek == EK_BITFIELD, TS_ISINT(g_ots))) \
	X(IMP(g_oek == EK_CONST, TS_ISSCALAR(g_ots))) \
	/* canonical carrier */ \
	X(IMP(g_oek == EK_CONST && TS_ISINT(g_ots), spec_canon(g_ov, spec_at_size(O_CODE), O_SIGNED)))

#define POST(X) \
	/* C10 / 6.6p6: normal return => the expression is an INTEGER CONSTANT expression ... */ \
	X(g_oek == EK_CONST) \
	X(TS_ISINT(g_ots)) \
	/* ... whose value is returned (C04) ... */ \
	X(HRET == g_ov) \
	/* ... and, where the caller does not allow it (array sizes, bit-field widths, designator indices, _Alignas), is not negative */ \
	X(IMP(!allowneg, !O_NEG)) \
	X(g_l->kind == EXPRCONST && g_l->u.constant.u == g_ov) \
	CANARY(X, !(g_ots == AT_SHORT && g_ov == 5 && !allowneg))

void
harness(void)
{
	static struct type ty_po;
	static struct scope sc;
	struct scope *s = &sc;
	struct type *ot;
	IN(bool, in_signedchar); IN(unsigned, in_enAb); IN(unsigned, in_enBb);
	IN(unsigned, in_ots); IN(unsigned, in_obs); IN(unsigned, in_oq); IN(unsigned, in_oek); IN(u64, in_ov); IN(bool, in_olv);
	IN(bool, allowneg);

	__CPROVER_assume(in_enAb <= AT_ULLONG && in_enBb <= AT_ULLONG);
	__CPROVER_assume(in_ots < TS_N && in_obs < BS_N && in_oq <= QUALMAX && in_oek < EK_N);
	build_universe(in_signedchar, in_enAb, in_enBb);
	g_ots = in_ots; g_obs = in_obs; g_oq = in_oq; g_oek = in_oek; g_ov = in_ov;
	ot = optype(in_ots, &ty_po, in_obs, in_oq);
	g_e = mk_operand(in_oek, ot, in_ov, 0, 8 * (unsigned)ot->size - 1, in_olv, QUALNONE);
	g_l = g_e; g_r = 0; g_lt = ot; g_rt = 0;
#ifdef ACCEPT
	g_no_error = 1;
#endif
	HCALLR(unsigned long long, PRE, POST, intconstexpr(s, allowneg));
}
