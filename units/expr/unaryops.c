/* UNIT
{
 "id": "EXPR.unaryops",
 "file": "expr.c", "function": "unaryexpr",
 "also_functions": ["exprpromote", "mkbinaryexpr", "commonreal", "exprconvert", "mkexpr", "mkconstexpr", "typepromote", "typecommonreal", "typecompatible"],
 "properties": {"C10": "contract", "C05": "contract", "C19": "safety"},
 "mode": "harness",
 "kind": "proof-const-unwind",
 "replace_calls": {"castexpr": "stub_castexpr"},
 "unwindset": ["typecompatible.0:1", "typecompatible:3", "mkbinaryexpr:2", "recorded.0:9", "tysel.0:27"],
 "variants": {"PLUS": ["-DV_OP=TADD"], "MINUS": ["-DV_OP=TSUB"], "BNOT": ["-DV_OP=TBNOT"], "LNOT": ["-DV_OP=TLNOT"]},
 "canary_variant": "MINUS",
 "link_repo": ["type.c"], "cflags": ["-DVERIF_OWN_XMALLOC"],
 "timeout": 300,
 "expects": ["assertion_verif"],
 "replay": false,
 "assumes": ["only the tail of unaryexpr() for the operators + - ~ ! is under contract: the current token is the operator, next() does nothing, castexpr(s) is replaced by a stub returning an arbitrary decayed operand of the universe (the parser is not under contract)",
             "eval() is the identity (operands already folded)",
             "type universe of units/expr/expr_util.h; bit-fields wider than int promote by width (gcc's rule)",
             "C23 nullptr_t operands of ! are outside C11 and not constrained"]
}
*/
#include "expr.c"
#include "verif.h"
#include "expr_util.h"

unsigned g_ots, g_obs, g_oq, g_oek, g_ow;
u64 g_ov;
int g_prom;                               /* code of the promoted operand type (integer operands), else the operand's code, else -1 */
struct nodeobs g_ox, g_oxa, g_oxb;        /* result; its first / second operand (EXPRBINARY) or its base (EXPRUNARY: g_oxa) */

struct expr *
stub_castexpr(struct scope *s)
{
	return g_l;
}

void
next(void)
{
}

#define TS_OPERAND(ts) ((ts) < TS_N && (ts) != BS_FN && (ts) != BS_ARR3 && (ts) != BS_ARRINC && (ts) != BS_PI)
#define O_CODE   TS_CODE(g_ots)
#define O_ARITH  TS_ISARITH(g_ots)
#define O_INT    TS_ISINT(g_ots)
/* o is the operand converted to the arithmetic type with code c */
#define CONV(o, c) (((o).who == W_L && TSIS((int)g_ots, c)) || ((o).who == W_NEW && (o).kind == EXPRCAST && (o).base == W_L && TSIS((o).ts, c)))

#define PRE(X) \
	X(g_l != 0 && (op == TADD || op == TSUB || op == TBNOT || op == TLNOT) && tok.kind == op) \
	X(TS_OPERAND(g_ots) && g_oek < EK_N && g_enAb <= AT_ULLONG && g_enBb <= AT_ULLONG) \
	X(IMP(g_ots == TS_PTR, g_obs < BS_N && g_oq <= QUALMAX)) \
	X(IMP(g_oek == EK_BITFIELD, TS_ISINT(g_ots) && g_ow >= 1 && g_ow <= 8 * spec_at_size(O_CODE))) \
	X(IMP(g_oek != EK_BITFIELD, g_ow == SPEC_NOBF)) \
	X(IMP(g_oek == EK_CONST, TS_ISSCALAR(g_ots)))

#define POST(X) \
	/* C10 6.5.3.3p1: + and - need an arithmetic operand, ~ an integer operand, ! a scalar operand */ \
	X(IMP(op == TADD || op == TSUB, O_ARITH)) \
	X(IMP(op == TBNOT, O_INT)) \
	X(IMP(op == TLNOT, TS_ISSCALAR(g_ots))) \
	/* C05 6.5.3.3p2: the result of + is the (promoted) operand, of the promoted type */ \
	X(IMP(op == TADD, CONV(g_ox, g_prom))) \
	/* p3: the result of - has the promoted type: a NEW negation node over the promoted operand */ \
	X(IMP(op == TSUB, g_ox.who == W_NEW && g_ox.kind == EXPRUNARY && g_ox.op == TSUB && TSIS(g_ox.ts, g_prom) && !g_ox.lvalue)) \
	X(IMP(op == TSUB, CONV(g_oxa, g_prom))) \
	/* p4: the result of ~ has the promoted type; it is built as  E ^ (T)-1  in the promoted type T */ \
	X(IMP(op == TBNOT, g_ox.who == W_NEW && g_ox.kind == EXPRBINARY && g_ox.op == TXOR && TSIS(g_ox.ts, g_prom) && !g_ox.lvalue)) \
	X(IMP(op == TBNOT, CONV(g_oxa, g_prom))) \
	X(IMP(op == TBNOT, g_oxb.who == W_NEW && g_oxb.kind == EXPRCONST && g_oxb.cval == ~0ull && TSIS(g_oxb.ts, g_prom))) \
	/* p5: the result of ! has type int; !E is equivalent to (0 == E) */ \
	X(IMP(op == TLNOT && g_ots != TS_NULLPTR, g_ox.who == W_NEW && g_ox.kind == EXPRBINARY && g_ox.op == TEQL && g_ox.ts == AT_INT)) \
	X(IMP(op == TLNOT && g_ots != TS_NULLPTR, (g_oxa.who == W_L || (g_oxa.kind == EXPRCAST && g_oxa.base == W_L)) && \
	                 (g_oxb.kind == EXPRCONST ? g_oxb.cval == 0 : (g_oxb.kind == EXPRCAST && g_oxb.base == W_NEW)))) \
	CANARY(X, !(op == TSUB && g_ots == AT_UCHAR))

static struct expr *
obs(struct expr *r)
{
	struct expr *n;

	observe(&g_ox, r);
	observe(&g_oxa, 0);
	observe(&g_oxb, 0);
	if (g_ox.who == W_NEW) {
		n = NODE(r);
		if (g_ox.kind == EXPRBINARY) {
			observe(&g_oxa, n->u.binary.l);
			observe(&g_oxb, n->u.binary.r);
		} else if (g_ox.kind == EXPRUNARY) {
			observe(&g_oxa, n->base);
		}
	}
	return r;
}

void
harness(void)
{
	static struct type ty_po;
	static struct scope sc;
	struct scope *s = &sc;
	struct expr *e;
	struct type *ot;
	unsigned bits;
	enum tokenkind op = V_OP;
	IN(bool, in_signedchar); IN(unsigned, in_enAb); IN(unsigned, in_enBb);
	IN(unsigned, in_ots); IN(unsigned, in_obs); IN(unsigned, in_oq); IN(unsigned, in_oek); IN(u64, in_ov);
	IN(unsigned, in_ow); IN(unsigned, in_oafter); IN(bool, in_olv);

	__CPROVER_assume(in_enAb <= AT_ULLONG && in_enBb <= AT_ULLONG);
	__CPROVER_assume(in_ots < TS_N && in_obs < BS_N && in_oq <= QUALMAX && in_oek < EK_N);
	build_universe(in_signedchar, in_enAb, in_enBb);
	g_ots = in_ots; g_obs = in_obs; g_oq = in_oq; g_oek = in_oek; g_ov = in_ov;
	ot = optype(in_ots, &ty_po, in_obs, in_oq);
	bits = 8 * (unsigned)ot->size;
	__CPROVER_assume(IMP(in_oek == EK_BITFIELD, TS_ISINT(in_ots) && in_ow >= 1 && in_ow <= bits && in_oafter <= bits - in_ow));
	g_ow = in_oek == EK_BITFIELD ? in_ow : SPEC_NOBF;
	e = mk_operand(in_oek, ot, in_ov, bits - in_ow - in_oafter, in_oafter, in_olv, QUALNONE);
	g_l = e; g_r = 0; g_lt = ot; g_rt = 0;
	g_prom = !TS_ISARITH(g_ots) ? -1 : spec_promote(O_CODE, g_ow, g_signedchar);
	tok.kind = op;
	HCALLR(struct expr *, PRE, POST, obs(unaryexpr(s)));
}
