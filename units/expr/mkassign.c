/* UNIT
{
 "id": "EXPR.mkassign",
 "file": "expr.c", "function": "mkassignexpr",
 "also_functions": ["exprconvert", "mkexpr", "typecompatible"],
 "properties": {"C10": "contract", "C05": "contract", "C19": "safety"},
 "mode": "harness",
 "kind": "proof-const-unwind",
 "unwindset": ["typecompatible.0:1", "typecompatible:3", "recorded.0:9", "tysel.0:27"],
 "link_repo": ["type.c"], "cflags": ["-DVERIF_OWN_XMALLOC"],
 "timeout": 300,
 "expects": ["assertion_verif", "assertion_repo"],
 "assumes": ["the operand is NOT folded (no call site evaluates it first): constant nodes are literals of arithmetic type or nullptr; a null pointer constant is recognised only as a literal 0 / nullptr, `(void *)0` is covered by the pointer-to-void rule",
             "type universe of units/expr/expr_util.h; the operand has decayed (no array / function typed operand)",
             "simple assignment E1 = E2 (assignexpr() calls mkassignexpr(l, r) directly; no other function checks 6.5.16.1 for it): the left operand is an lvalue (checked by assignexpr) of scalar or struct / union type; const-ness of the left operand is diagnosed later by qbe.c:funcstore and is not claimed here",
             "C23 nullptr_t: only 'normal return => source is a null pointer constant or has type nullptr_t' is claimed for a nullptr_t target; nullptr_t sources of _Bool targets are not constrained",
             "recursion depth of typecompatible <= 3 on this universe, its parameter loop runs 0 times: unwindset with unwinding assertions"]
}
*/
#include "expr.c"
#include "verif.h"
#include "expr_util.h"

/* ghosts: source operand e (selectors as in expr_util.h) and target type t */
unsigned g_ets, g_ebs, g_eq, g_eek, g_ew;
u64 g_ev;
unsigned g_tts, g_tbs, g_tq;
int g_ekind;
bool g_compat;        /* referenced types of the two pointers compatible  (spec_bscompat(g_tbs, g_ebs)) */
bool g_tcompat;       /* t and the type of e compatible (non-pointer types: spec_bscompat(g_tts, g_ets)) */
struct nodeobs g_oa, g_oal, g_ox;  /* observations: the returned EXPRASSIGN node, its left operand, its right operand */

#define E_ARITH   TS_ISARITH(g_ets)
#define E_PTR     TS_ISPTR(g_ets)
#define E_NPC     SPEC_ISNPC(g_eek, g_ets, g_ebs, g_eq, g_ev)
#define T_BOOL    (g_tts == AT_BOOL)
#define T_ARITH   (TS_ISARITH(g_tts) && !T_BOOL)
#define T_PTR     TS_ISPTR(g_tts)
#define T_SU      (g_tts == BS_S1 || g_tts == BS_S2 || g_tts == BS_U1)
#define T_NULLPTR (g_tts == TS_NULLPTR)
/* "the type pointed to by the left has all the qualifiers of the type pointed to by the right" */
#define QUAL_INCL ((g_eq & ~g_tq) == 0)
#define ONE_VOID_OTHER_OBJECT ((g_tbs == BS_VOID && !BS_ISFUNC(g_ebs)) || (g_ebs == BS_VOID && !BS_ISFUNC(g_tbs)))

/* C11 6.5.16.1p1 (simple assignment; by reference also initialisation 6.7.9p11, arguments 6.5.2.2p2, return 6.8.6.4p3) */
#define LEGAL_ARITH  (E_ARITH)
#define LEGAL_BOOL   (E_ARITH || E_PTR)
#define LEGAL_SU     (g_tcompat)
#define LEGAL_PTR    ((E_PTR && g_compat && QUAL_INCL) || (E_PTR && ONE_VOID_OTHER_OBJECT && QUAL_INCL) || E_NPC)
#define LEGAL        (IMP(T_ARITH, LEGAL_ARITH) && IMP(T_BOOL, LEGAL_BOOL) && IMP(T_SU, LEGAL_SU) && IMP(T_PTR, LEGAL_PTR) && \
                      !T_NULLPTR && g_ets != TS_NULLPTR)

#define TS_OPERAND(ts) ((ts) < TS_N && (ts) != BS_FN && (ts) != BS_ARR3 && (ts) != BS_ARRINC && (ts) != BS_PI)
#define TS_TARGET(ts)  (TS_ISARITH(ts) || (ts) == TS_PTR || (ts) == BS_S1 || (ts) == BS_S2 || (ts) == BS_U1 || (ts) == TS_NULLPTR)

#define PRE_CASE(X)

#define PRE(X) \
	X(l != 0 && r != 0 && r == g_l && r->type == g_lt && l->type == g_rt && r->kind == g_ekind && l->lvalue) \
	X(g_enAb <= AT_ULLONG && g_enBb <= AT_ULLONG) \
	X(TS_OPERAND(g_ets) && TS_TARGET(g_tts)) \
	X(IMP(g_ets == TS_PTR, g_ebs < BS_N && g_eq <= QUALMAX)) \
	X(IMP(g_tts == TS_PTR, g_tbs < BS_N && g_tq <= QUALMAX)) \
	X(g_eek < EK_N) \
	X(IMP(g_eek == EK_BITFIELD, TS_ISINT(g_ets))) \
	/* no caller folds the operand first (postfixexpr, parseinit, stmt pass assignexpr()/expr() results), so a constant \
	   node is a literal: arithmetic or nullptr; `(void *)0` arrives as an EXPRCAST node */ \
	X(IMP(g_eek == EK_CONST, TS_ISARITH(g_ets) || g_ets == TS_NULLPTR)) \
	PRE_CASE(X)

#define POST(X) \
	/* C10: normal return => the constraint of 6.5.16.1p1 for this kind of target holds (one clause per bullet) */ \
	X(IMP(T_ARITH, E_ARITH)) \
	X(IMP(T_BOOL, E_ARITH || E_PTR || g_ets == TS_NULLPTR)) \
	X(IMP(T_SU, g_tcompat)) \
	X(IMP(T_PTR, E_PTR || E_NPC)) \
	X(IMP(T_PTR && !E_NPC, g_compat || g_tbs == BS_VOID || g_ebs == BS_VOID)) \
	X(IMP(T_PTR && !E_NPC && !g_compat, ONE_VOID_OTHER_OBJECT)) \
	X(IMP(T_PTR && !E_NPC, QUAL_INCL)) \
	X(IMP(T_NULLPTR, E_NPC || g_ets == TS_NULLPTR)) \
	/* C05 (6.5.16.1p2): the value is converted to the type of the target: the result is e itself when its type is \
	   compatible with t, else a NEW conversion node to t (that very type object) over e */ \
	X(g_oa.who == W_NEW && g_oa.kind == EXPRASSIGN && g_oal.who == W_R && !g_oa.lvalue) \
	/* 6.5.16p3: the type of an assignment expression is the type of the left operand */ \
	X(g_oa.ts == (g_tts == TS_PTR ? TSEL_R : (int)g_tts)) \
	X((g_ox.who == W_L) || (g_ox.who == W_NEW && g_ox.kind == EXPRCAST && g_ox.base == W_L && g_ox.ts == (g_tts == TS_PTR ? TSEL_R : (int)g_tts))) \
	X(IMP(g_ox.who == W_L && !T_PTR, g_tcompat)) \
	X(IMP(g_ox.who == W_L && T_PTR, E_PTR && g_compat && g_eq == g_tq)) \
	/* frame: the operand and the target type are not modified */ \
	X(g_l->type == g_lt && g_l->kind == g_ekind) \
	X(IMP(g_eek == EK_CONST, g_l->u.constant.u == g_ev)) \
	X(IMP(g_tts == TS_PTR, g_rt->kind == TYPEPOINTER && g_rt->base == ty_base[g_tbs] && g_rt->qual == g_tq)) \
	CANARY(X, !(g_tts == TS_PTR && g_tbs == BS_VOID && g_ets == TS_PTR && g_ebs == BS_S1 && g_eq == QUALCONST && g_tq == QUALCONST))

static struct expr *
obs(struct expr *a)
{
	struct expr *n;

	observe(&g_oa, a);
	observe(&g_oal, 0);
	observe(&g_ox, 0);
	if (g_oa.who == W_NEW && g_oa.kind == EXPRASSIGN) {
		n = NODE(a);
		observe(&g_oal, n->u.assign.l);
		observe(&g_ox, n->u.assign.r);
	}
	return a;
}

void
harness(void)
{
	static struct type ty_pe, ty_pt;
	struct expr *e, *l, *r;
	struct type *t;
	unsigned bits;
	IN(bool, in_signedchar); IN(unsigned, in_enAb); IN(unsigned, in_enBb);
	IN(unsigned, in_ets); IN(unsigned, in_ebs); IN(unsigned, in_eq); IN(unsigned, in_eek); IN(u64, in_ev);
	IN(unsigned, in_ew); IN(unsigned, in_eafter); IN(bool, in_elv); IN(unsigned, in_equal);
	IN(unsigned, in_tts); IN(unsigned, in_tbs); IN(unsigned, in_tq);

	__CPROVER_assume(in_enAb <= AT_ULLONG && in_enBb <= AT_ULLONG);
	__CPROVER_assume(in_ets < TS_N && in_ebs < BS_N && in_eq <= QUALMAX && in_eek < EK_N && in_equal <= QUALMAX);
	__CPROVER_assume(in_tts < TS_N && in_tbs < BS_N && in_tq <= QUALMAX);
	build_universe(in_signedchar, in_enAb, in_enBb);
	g_ets = in_ets; g_ebs = in_ebs; g_eq = in_eq; g_eek = in_eek; g_ev = in_ev;
	g_tts = in_tts; g_tbs = in_tbs; g_tq = in_tq;
	g_lt = optype(in_ets, &ty_pe, in_ebs, in_eq);
	t = optype(in_tts, &ty_pt, in_tbs, in_tq);
	g_rt = t;
	bits = 8 * (unsigned)g_lt->size;
	__CPROVER_assume(IMP(in_eek == EK_BITFIELD, TS_ISINT(in_ets) && in_ew >= 1 && in_ew <= bits && in_eafter <= bits - in_ew));
	e = mk_operand(in_eek, g_lt, in_ev, bits - in_ew - in_eafter, in_eafter, in_elv, in_equal);
	r = e;
	l = mk_operand(EK_OPAQUE, t, 0, 0, 0, true, QUALNONE);
	g_l = r; g_r = l; g_ekind = e->kind;
	g_compat = spec_bscompat(g_tbs, g_ebs);
	g_tcompat = (g_tts == g_ets && g_tts != TS_PTR) || (g_tts < BS_N && g_ets < BS_N && spec_bscompat(g_tts, g_ets));
	HCALLR(struct expr *, PRE, POST, obs(mkassignexpr(l, r)));
}
