/* UNIT
{
 "id": "EXPR.mkbinary.type",
 "file": "expr.c", "function": "mkbinaryexpr",
 "also_functions": ["commonreal", "exprconvert", "exprpromote", "bitfieldwidth", "nullpointer", "mkexpr", "mkconstexpr", "typecommonreal", "typepromote", "typecompatible", "typerank"],
 "properties": {"C05": "contract", "C19": "safety"},
 "c19_quick": false,
 "mode": "harness",
 "kind": "proof-const-unwind",
 "unwindset": ["typecompatible.0:1", "typecompatible:3", "mkbinaryexpr:2", "recorded.0:9", "tysel.0:27"],
 "variants": {"A_TMUL": ["-DU_ARITH", "-DV_OP=TMUL"], "A_TDIV": ["-DU_ARITH", "-DV_OP=TDIV"], "A_TMOD": ["-DU_ARITH", "-DV_OP=TMOD"], "A_TADD": ["-DU_ARITH", "-DV_OP=TADD"], "A_TSUB": ["-DU_ARITH", "-DV_OP=TSUB"], "A_TSHL": ["-DU_ARITH", "-DV_OP=TSHL"], "A_TSHR": ["-DU_ARITH", "-DV_OP=TSHR"], "A_TLESS": ["-DU_ARITH", "-DV_OP=TLESS"], "A_TGREATER": ["-DU_ARITH", "-DV_OP=TGREATER"], "A_TLEQ": ["-DU_ARITH", "-DV_OP=TLEQ"], "A_TGEQ": ["-DU_ARITH", "-DV_OP=TGEQ"], "A_TEQL": ["-DU_ARITH", "-DV_OP=TEQL"], "A_TNEQ": ["-DU_ARITH", "-DV_OP=TNEQ"], "A_TBAND": ["-DU_ARITH", "-DV_OP=TBAND"], "A_TBOR": ["-DU_ARITH", "-DV_OP=TBOR"], "A_TXOR": ["-DU_ARITH", "-DV_OP=TXOR"], "P_TADD": ["-DV_OP=TADD"], "PP_TSUB": ["-DU_RPTR", "-DV_OP=TSUB"], "PI_TSUB": ["-DU_RNOPTR", "-DV_OP=TSUB"], "P_TLESS": ["-DV_OP=TLESS"], "P_TGREATER": ["-DV_OP=TGREATER"], "P_TLEQ": ["-DV_OP=TLEQ"], "P_TGEQ": ["-DV_OP=TGEQ"], "P_TEQL": ["-DV_OP=TEQL"], "P_TNEQ": ["-DV_OP=TNEQ"], "P_TLAND": ["-DV_OP=TLAND"], "P_TLOR": ["-DV_OP=TLOR"], "A_TLAND": ["-DU_ARITH", "-DV_OP=TLAND"], "A_TLOR": ["-DU_ARITH", "-DV_OP=TLOR"]},
 "canary_variant": "P_TADD",
 "link_repo": ["type.c"], "cflags": ["-DVERIF_OWN_XMALLOC"],
 "timeout": 300,
 "expects": ["assertion_verif", "assertion_repo"],
 "assumes": ["eval() is the identity: operands are already folded, a constant operand has kind EXPRCONST (folding itself: EVAL.* units)",
             "type universe of units/expr/expr_util.h: all 15 arithmetic type objects of type.c (plain char signed or unsigned), two enum types over any integer type, void, nullptr_t, struct/union, pointers (any qualifiers) to all of these and to function / array / pointer types",
             "operands have decayed (no array or function typed operand): every operand reaches mkbinaryexpr through castexpr()",
             "bit-fields declared with a type wider than int promote by width when width <= 32 (implementation-defined; gcc's rule)",
             "referenced complete object types have size > 0 (no VLA element types)",
             "C23 nullptr_t operands of == and != are outside C11 and excluded",
             "recursion depth of mkbinaryexpr is 2 (pointer arithmetic builds one inner '*' or '-'), of typecompatible <= 3 on this universe, its parameter loop runs 0 times (the universe's function type has no parameters): unwindset with unwinding assertions"]
}
*/
#include "expr.c"
#include "verif.h"
#include "mkbinary_common.h"

#define SC        g_signedchar
/* oracle values, computed once by the harness */
int g_common, g_proml, g_promr;
#define COMMON    g_common      /* == spec_common(LC, g_lw, RC, g_rw, SC)  6.3.1.8 */
#define PROM_L    g_proml       /* == spec_promote(LC, g_lw, SC)           6.3.1.1p2 */
#define PROM_R    g_promr
#define X_   g_ox        /* observations of the returned tree (mkbinary_common.h) */
#define XL   g_oxl
#define XR   g_oxr

#define ISU64(ts)            (TSIS(ts, AT_ULONG) || TSIS(ts, AT_ULLONG))
#define CONVU64(o, W, ots)   (CONV(o, W, ots, AT_ULONG) || CONV(o, W, ots, AT_ULLONG))
/* o (operands ol, or) is  <operand W> * sz  computed in a 64-bit unsigned type (either operand order) */
#define SCALED(o, ol, or_, W, ots, sz) \
	((o).who == W_NEW && (o).kind == EXPRBINARY && (o).op == TMUL && ISU64((o).ts) && \
	 ((CONVU64(ol, W, ots) && ISNEWCONST(or_, sz) && ISU64((or_).ts)) || \
	  (CONVU64(or_, W, ots) && ISNEWCONST(ol, sz) && ISU64((ol).ts))))
/* pointer operand W of a comparison: itself, or converted to the other operand's (pointer) type */
#define PCONV(o, W, othertsel) ((o).who == (W) || ((o).who == W_NEW && (o).kind == EXPRCAST && (o).base == (W) && (o).ts == (othertsel)))
#define ISCASTTO(o, W, c)    ((o).who == W_NEW && (o).kind == EXPRCAST && (o).base == (W) && (o).ts == (c))

#define OP_ARITH  (OP_MULDIV || op == TMOD || OP_BIT || ((op == TADD || op == TSUB) && BOTH_ARITH))
#define OP_PADD   (op == TADD && !BOTH_ARITH)
#define OP_PSUBI  (op == TSUB && L_PTR && R_INT)
#define OP_PSUBP  (op == TSUB && L_PTR && R_PTR)
#define OP_CMP    (OP_REL || OP_EQ)
/* pointer +- integer: which is which */
#define P_W       (L_PTR ? W_L : W_R)
#define I_W       (L_PTR ? W_R : W_L)
#define I_TS      (L_PTR ? g_rts : g_lts)
#define P_TSEL    (L_PTR ? TSEL_L : TSEL_R)
#define P_BS      (L_PTR ? g_lbs : g_rbs)
#define P_Q       (L_PTR ? g_lq : g_rq)
/* the result has the pointer operand's type: that very type object, or a new pointer type to the same referenced type
   with the same qualifiers */
#define HASPTRTYPE(o) ((o).ts == P_TSEL || ((o).ts == TSEL_NEW && (o).pkind == TYPEPOINTER && (o).pbase == (int)P_BS && (o).pqual == P_Q))

#define PRE(X) \
	PRE_WF(X) \
	/* the operands satisfy the constraints of the operator (C11 6.5.5-6.5.14): this unit is about VALID expressions */ \
	X(LEGAL) \
	X(U_CASE) \
	X(IMP(OP_EQ, g_lts != TS_NULLPTR && g_rts != TS_NULLPTR))

#define POST(X) \
	/* a new EXPRBINARY node that is not an lvalue */ \
	X(X_.who == W_NEW && X_.kind == EXPRBINARY) \
	X(!X_.lvalue) \
	/* 6.5.5p3, 6.5.6p4, 6.5.10p3..: usual arithmetic conversions; the result has the common real type */ \
	X(IMP(OP_ARITH, TSIS(X_.ts, COMMON))) \
	X(IMP(OP_ARITH, X_.op == op)) \
	X(IMP(OP_ARITH, CONV(XL, W_L, g_lts, COMMON))) \
	X(IMP(OP_ARITH, CONV(XR, W_R, g_rts, COMMON))) \
	/* 6.5.7p3: integer promotions on each operand; the result has the type of the promoted LEFT operand */ \
	X(IMP(OP_SHIFT, TSIS(X_.ts, PROM_L))) \
	X(IMP(OP_SHIFT, X_.op == op)) \
	X(IMP(OP_SHIFT, CONV(XL, W_L, g_lts, PROM_L))) \
	X(IMP(OP_SHIFT, CONV(XR, W_R, g_rts, PROM_R))) \
	/* 6.5.8p6, 6.5.9p3, 6.5.13p3, 6.5.14p3: the result has type int */ \
	X(IMP(OP_CMP || OP_LOGIC, X_.ts == AT_INT)) \
	X(IMP(OP_CMP || OP_LOGIC, X_.op == op)) \
	/* 6.5.8p3, 6.5.9p4: arithmetic operands of a comparison undergo the usual arithmetic conversions */ \
	X(IMP(OP_CMP && BOTH_ARITH, CONV(XL, W_L, g_lts, COMMON))) \
	X(IMP(OP_CMP && BOTH_ARITH, CONV(XR, W_R, g_rts, COMMON))) \
	/* pointer comparisons: the operands are the given ones (relational: in order; equality: in either order), \
	   at most converted to the other operand's type */ \
	X(IMP(OP_REL && !BOTH_ARITH, XL.who == W_L && XR.who == W_R)) \
	X(IMP(OP_EQ && !BOTH_ARITH, (PCONV(XL, W_L, TSEL_R) && PCONV(XR, W_R, TSEL_L)) || (PCONV(XL, W_R, TSEL_L) && PCONV(XR, W_L, TSEL_R)))) \
	/* logical operators: operands unconverted, in order (sequence point!) */ \
	X(IMP(OP_LOGIC, XL.who == W_L && XR.who == W_R)) \
	/* 6.5.6p8: pointer +- integer has the type of the pointer operand; the address moves by \
	   integer * sizeof(element), computed in a 64-bit unsigned type */ \
	X(IMP(OP_PADD || OP_PSUBI, HASPTRTYPE(X_))) \
	X(IMP(OP_PADD || OP_PSUBI, X_.op == op)) \
	X(IMP(OP_PADD || OP_PSUBI, XL.who == P_W)) \
	X(IMP(OP_PADD || OP_PSUBI, SCALED(XR, g_oxrl, g_oxrr, I_W, I_TS, BS_SIZE(P_BS)))) \
	/* 6.5.6p9: pointer - pointer has type ptrdiff_t (long): byte difference divided by the element size */ \
	X(IMP(OP_PSUBP, X_.ts == AT_LONG)) \
	X(IMP(OP_PSUBP, X_.op == TDIV)) \
	X(IMP(OP_PSUBP, XL.who == W_NEW && XL.kind == EXPRBINARY && XL.op == TSUB && XL.ts == AT_LONG)) \
	X(IMP(OP_PSUBP, ISCASTTO(g_oxll, W_L, AT_LONG))) \
	X(IMP(OP_PSUBP, ISCASTTO(g_oxlr, W_R, AT_LONG))) \
	X(IMP(OP_PSUBP, ISNEWCONST(XR, BS_SIZE(g_lbs)) && XR.ts == AT_LONG)) \
	POST_FRAME(X) \
	CANARY(X, !(op == TADD && g_lts == AT_INT && g_rts == TS_PTR && g_rbs == BS_S2))

void
harness(void)
{
	static struct location the_loc;
	struct location *loc = &the_loc;
	struct mkb_in in;
	struct expr *l, *r;
	enum tokenkind op;
	IN(int, in_op);
	IN(bool, in_signedchar); IN(unsigned, in_enAb); IN(unsigned, in_enBb);
	IN(unsigned, in_lts); IN(unsigned, in_lbs); IN(unsigned, in_lq); IN(unsigned, in_lek); IN(u64, in_lv); IN(unsigned, in_lw);
	IN(unsigned, in_rts); IN(unsigned, in_rbs); IN(unsigned, in_rq); IN(unsigned, in_rek); IN(u64, in_rv); IN(unsigned, in_rw);
	IN(bool, in_llv); IN(bool, in_rlv); IN(unsigned, in_lafter); IN(unsigned, in_rafter);

#ifdef V_OP
	op = V_OP;          /* one CBMC run per operator (compile-time case split; the variants cover OP_ANY) */
#else
	op = in_op;
#endif
	in.signedchar = in_signedchar; in.enAb = in_enAb; in.enBb = in_enBb;
	in.lts = in_lts; in.lbs = in_lbs; in.lq = in_lq; in.lek = in_lek; in.lv = in_lv; in.lw = in_lw; in.lafter = in_lafter; in.llv = in_llv;
	in.rts = in_rts; in.rbs = in_rbs; in.rq = in_rq; in.rek = in_rek; in.rv = in_rv; in.rw = in_rw; in.rafter = in_rafter; in.rlv = in_rlv;
	mkb_build(&in, &l, &r);
	g_common = BOTH_ARITH ? spec_common(LC, g_lw, RC, g_rw, SC) : -1;
	g_proml = L_ARITH ? spec_promote(LC, g_lw, SC) : -1;
	g_promr = R_ARITH ? spec_promote(RC, g_rw, SC) : -1;
	g_compat = spec_bscompat(g_lbs, g_rbs);
	g_no_error = 0;     /* acceptance of every valid expression: EXPR.mkbinary.accept */
	HCALLR(struct expr *, PRE, POST, mkb_observe(mkbinaryexpr(loc, op, l, r)));
}
