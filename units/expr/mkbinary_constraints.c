/* UNIT
{
 "id": "EXPR.mkbinary.constraints",
 "file": "expr.c", "function": "mkbinaryexpr",
 "also_functions": ["commonreal", "exprconvert", "exprpromote", "bitfieldwidth", "nullpointer", "mkexpr", "mkconstexpr", "typecommonreal", "typepromote", "typecompatible", "typerank"],
 "properties": {"C10": "contract", "C19": "safety"},
 "c19_quick": false,
 "mode": "harness",
 "kind": "proof-const-unwind",
 "unwindset": ["typecompatible.0:1", "typecompatible:3", "mkbinaryexpr:2", "recorded.0:9", "tysel.0:27"],
 "variants": {"A_TMUL": ["-DU_ARITH", "-DV_OP=TMUL"], "A_TDIV": ["-DU_ARITH", "-DV_OP=TDIV"], "A_TMOD": ["-DU_ARITH", "-DV_OP=TMOD"], "A_TADD": ["-DU_ARITH", "-DV_OP=TADD"], "A_TSUB": ["-DU_ARITH", "-DV_OP=TSUB"], "A_TSHL": ["-DU_ARITH", "-DV_OP=TSHL"], "A_TSHR": ["-DU_ARITH", "-DV_OP=TSHR"], "A_TLESS": ["-DU_ARITH", "-DV_OP=TLESS"], "A_TGREATER": ["-DU_ARITH", "-DV_OP=TGREATER"], "A_TLEQ": ["-DU_ARITH", "-DV_OP=TLEQ"], "A_TGEQ": ["-DU_ARITH", "-DV_OP=TGEQ"], "A_TEQL": ["-DU_ARITH", "-DV_OP=TEQL"], "A_TNEQ": ["-DU_ARITH", "-DV_OP=TNEQ"], "A_TBAND": ["-DU_ARITH", "-DV_OP=TBAND"], "A_TBOR": ["-DU_ARITH", "-DV_OP=TBOR"], "A_TXOR": ["-DU_ARITH", "-DV_OP=TXOR"], "A_TLAND": ["-DU_ARITH", "-DV_OP=TLAND"], "A_TLOR": ["-DU_ARITH", "-DV_OP=TLOR"], "P_TMUL": ["-DV_OP=TMUL"], "P_TDIV": ["-DV_OP=TDIV"], "P_TMOD": ["-DV_OP=TMOD"], "P_TADD": ["-DV_OP=TADD"], "PP_TSUB": ["-DU_RPTR", "-DV_OP=TSUB"], "PI_TSUB": ["-DU_RNOPTR", "-DV_OP=TSUB"], "P_TSHL": ["-DV_OP=TSHL"], "P_TSHR": ["-DV_OP=TSHR"], "P_TLESS": ["-DV_OP=TLESS"], "P_TGREATER": ["-DV_OP=TGREATER"], "P_TLEQ": ["-DV_OP=TLEQ"], "P_TGEQ": ["-DV_OP=TGEQ"], "P_TEQL": ["-DV_OP=TEQL"], "P_TNEQ": ["-DV_OP=TNEQ"], "P_TBAND": ["-DV_OP=TBAND"], "P_TBOR": ["-DV_OP=TBOR"], "P_TXOR": ["-DV_OP=TXOR"], "P_TLAND": ["-DV_OP=TLAND"], "P_TLOR": ["-DV_OP=TLOR"]},
 "canary_variant": "P_TADD",
 "link_repo": ["type.c"], "cflags": ["-DVERIF_OWN_XMALLOC"],
 "timeout": 300,
 "expects": ["assertion_verif", "assertion_repo"],
 "assumes": ["eval() is the identity: operands are already folded, a constant operand has kind EXPRCONST (folding itself: EVAL.* units)",
             "type universe of units/expr/expr_util.h: all 15 arithmetic type objects of type.c (plain char signed or unsigned), two enum types over any integer type, void, nullptr_t, struct/union, pointers (any qualifiers) to all of these and to function / array / pointer types",
             "operands have decayed (no array or function typed operand): every operand reaches mkbinaryexpr through castexpr()",
             "C23 nullptr_t operands of == and != are outside C11: no constraint is claimed for them",
             "recursion depth of mkbinaryexpr is 2 (pointer arithmetic builds one inner '*' or '-'), of typecompatible <= 3 on this universe, its parameter loop runs 0 times (the universe's function type has no parameters): unwindset with unwinding assertions"]
}
*/
#include "expr.c"
#include "verif.h"
#include "mkbinary_common.h"

#define X_   g_ox

#define ANY_PTR   (L_PTR || R_PTR)
#define P_BS      (L_PTR ? g_lbs : g_rbs)

/* no constraint on the operands is assumed: this unit is about INVALID expressions */
#define PRE(X) \
	PRE_WF(X) \
	X(U_CASE)

/*
 * C10: "normal return => the constraint holds", one clause per constraint of C11 6.5.5 - 6.5.14.  (A violated
 * constraint must end in error(); those paths end in verif_noreturn() and never reach POST.)
 */
#define POST(X) \
	/* 6.5.5p2: each operand of * / shall have arithmetic type; the operands of % shall have integer type */ \
	X(IMP(OP_MULDIV, L_ARITH && R_ARITH)) \
	X(IMP(op == TMOD, L_INT && R_INT)) \
	/* 6.5.6p2 (+): both arithmetic, or one pointer to a complete object type and the other integer */ \
	X(IMP(op == TADD, BOTH_ARITH || (L_PTR && R_INT) || (R_PTR && L_INT))) \
	X(IMP(op == TADD && ANY_PTR, BS_COMPLETEOBJ(P_BS))) \
	/* 6.5.6p3 (-): both arithmetic; both pointers to compatible complete object types; pointer to complete object type - integer */ \
	X(IMP(op == TSUB, BOTH_ARITH || (L_PTR && R_PTR) || (L_PTR && R_INT))) \
	X(IMP(op == TSUB && L_PTR, BS_COMPLETEOBJ(g_lbs))) \
	X(IMP(op == TSUB && L_PTR && R_PTR, BS_COMPLETEOBJ(g_rbs))) \
	X(IMP(op == TSUB && L_PTR && R_PTR, g_compat)) \
	/* 6.5.7p2: each operand of << >> shall have integer type */ \
	X(IMP(OP_SHIFT, L_INT && R_INT)) \
	/* 6.5.8p2 (< > <= >=): both real, or both pointers to compatible object types */ \
	X(IMP(OP_REL, (L_REAL && R_REAL) || (L_PTR && R_PTR))) \
	X(IMP(OP_REL && L_PTR && R_PTR, g_compat)) \
	X(IMP(OP_REL && L_PTR && R_PTR, !BS_ISFUNC(g_lbs) && !BS_ISFUNC(g_rbs))) \
	/* 6.5.9p2 (== !=): both arithmetic; both pointers to compatible types; pointer to object type and pointer to void; \
	   pointer and null pointer constant */ \
	X(IMP(OP_EQ && g_lts != TS_NULLPTR && g_rts != TS_NULLPTR, BOTH_ARITH || (L_PTR && R_PTR) || (L_PTR && R_NPC) || (R_PTR && L_NPC))) \
	X(IMP(OP_EQ && L_PTR && R_PTR && !L_NPC && !R_NPC, g_compat || g_lbs == BS_VOID || g_rbs == BS_VOID)) \
	X(IMP(OP_EQ && L_PTR && R_PTR && !L_NPC && !R_NPC && !g_compat, !BS_ISFUNC(g_lbs) && !BS_ISFUNC(g_rbs))) \
	/* 6.5.10p2, 6.5.11p2, 6.5.12p2: each operand of & ^ | shall have integer type */ \
	X(IMP(OP_BIT, L_INT)) \
	X(IMP(OP_BIT, R_INT)) \
	/* 6.5.13p2, 6.5.14p2: each operand of && || shall have scalar type */ \
	X(IMP(OP_LOGIC, L_SCALAR)) \
	X(IMP(OP_LOGIC, R_SCALAR)) \
	X(X_.who == W_NEW && X_.kind == EXPRBINARY) \
	POST_FRAME(X) \
	CANARY(X, !(op == TADD && g_lts == AT_INT && g_rts == TS_PTR && g_rbs == BS_S2))

void
harness(void)
{
	static struct location the_loc;
	struct location *loc = &the_loc;
	struct mkb_in in;
	struct expr *l, *r;
	enum tokenkind op;
	IN(int, in_op);
	IN(bool, in_signedchar); IN(unsigned, in_enAb); IN(unsigned, in_enBb);
	IN(unsigned, in_lts); IN(unsigned, in_lbs); IN(unsigned, in_lq); IN(unsigned, in_lek); IN(u64, in_lv); IN(unsigned, in_lw);
	IN(unsigned, in_rts); IN(unsigned, in_rbs); IN(unsigned, in_rq); IN(unsigned, in_rek); IN(u64, in_rv); IN(unsigned, in_rw);
	IN(bool, in_llv); IN(bool, in_rlv); IN(unsigned, in_lafter); IN(unsigned, in_rafter);

#ifdef V_OP
	op = V_OP;          /* one CBMC run per operator (compile-time case split; the variants cover OP_ANY) */
#else
	op = in_op;
#endif
	in.signedchar = in_signedchar; in.enAb = in_enAb; in.enBb = in_enBb;
	in.lts = in_lts; in.lbs = in_lbs; in.lq = in_lq; in.lek = in_lek; in.lv = in_lv; in.lw = in_lw; in.lafter = in_lafter; in.llv = in_llv;
	in.rts = in_rts; in.rbs = in_rbs; in.rq = in_rq; in.rek = in_rek; in.rv = in_rv; in.rw = in_rw; in.rafter = in_rafter; in.rlv = in_rlv;
	mkb_build(&in, &l, &r);
	g_compat = spec_bscompat(g_lbs, g_rbs);
	g_no_error = 0;
	HCALLR(struct expr *, PRE, POST, mkb_observe(mkbinaryexpr(loc, op, l, r)));
}
