/* UNIT
{
 "id": "STMT.loops.cfg",
 "file": "stmt.c", "function": "stmt",
 "properties": {"C01": "contract", "C19": "safety"},
 "mode": "harness",
 "replace_calls": {"labelstmt": "rec_labelstmt"},
 "variants": {"while": ["-DV_KIND=TWHILE", "-DV_WHILE"], "do": ["-DV_KIND=TDO", "-DV_DO"], "for": ["-DV_KIND=TFOR", "-DV_FOR"], "for-noinc": ["-DV_KIND=TFOR", "-DV_FOR", "-DV_NOINC"], "if": ["-DV_KIND=TIF", "-DV_IF"], "ifelse": ["-DV_KIND=TIF", "-DV_IF", "-DV_ELSE=1"]},
 "kind": "proof",
 "timeout": 120, "replay": false,
 "assumes": ["callees of stmt() are the stand-ins of units/stmt/stmt_common.h, which log every label/jump/conditional jump/expression evaluation stmt() requests from the back end; the loop body (labelstmt) is redirected to a recorder that logs the scope's break/continue targets; expressions are opaque (their lowering is QBE.* units' business)",
             "for statement: all three clauses present, first clause an expression (decl() stand-in returns false)",
             "native replay impossible (labelstmt is static and redirected with --replace-calls)"]
}
*/
#include "stmt.c"
#include "verif.h"
#include "stmt_common.h"

/*
 * C11 6.8.4.1 / 6.8.5: control-flow skeleton of if / while / do / for as requested from the IL builder.
 *   while (e) S      : L_cond: v=e; jnz v, L_body, L_join; L_body: S [continue->L_cond, break->L_join]; jmp L_cond; L_join:
 *   do S while (e)   : L_body: S [continue->L_cond, break->L_join]; L_cond: v=e; jnz v, L_body, L_join; L_join:
 *   for (i; e; c) S  : i; L_cond: v=e; jnz v, L_body, L_join; L_body: S [continue->L_cont, break->L_join]; L_cont: c; jmp L_cond; L_join:
 *   if (e) S1 [else S2]: v=e; jnz v, L_true, L_false; L_true: S1; [jmp L_join;] L_false: [S2; L_join:]
 * The body is parsed in a scope whose break/continue targets are exactly those blocks; the enclosing scope's targets
 * (an outer loop's) are left untouched, and if statements pass the enclosing targets through.
 */
static struct block *g_brk[2], *g_cont[2];
static int g_nbody;
static struct block outer_brk, outer_cont;
static struct expr e_init, e_cond, e_step;
static int g_nexpr;

#ifdef V_ELSE
bool consume(int k) { return k == TELSE; }
#else
bool consume(int k) { return false; }
#endif
bool decl(struct scope *s, struct func *f) { return false; }

/* expr() stand-in of stmt_common.h returns &e_ctl; for `for` we need three distinguishable expressions */
#define expr_seq(n) ((n) == 0 ? &e_init : (n) == 1 ? &e_cond : &e_step)

void
rec_labelstmt(struct func *f, struct scope *s)
{
	if (g_nbody < 2) {
		g_brk[g_nbody] = s->breaklabel;
		g_cont[g_nbody] = s->continuelabel;
	}
	g_nbody++;
	ev(EV_BODY, s, 0, 0);
}

void
harness(void)
{
	static struct scope outer;
	struct scope *s = &outer;
	struct func *f = 0;

	stmt_common_init();
	g_nbody = 0;
	outer.parent = 0;
	outer.breaklabel = &outer_brk;
	outer.continuelabel = &outer_cont;
	tok.kind = V_KIND;
#ifdef V_NOINC
	exp_switch_at = 3; exp_switch_to = TRPAREN;   /* for (i; e; ) : ')' follows the second ';' */
#endif
	stmt(f, s);

	__CPROVER_assert(outer.breaklabel == &outer_brk && outer.continuelabel == &outer_cont, "enclosing loop's targets untouched");
#if defined(V_WHILE)
	/* blocks in creation order: blk[0]=cond blk[1]=body blk[2]=join */
	__CPROVER_assert(nev == 7, "while: seven back-end requests");
	__CPROVER_assert(EVIS(0, EV_LABEL, &blk[0], 0, 0), "L_cond first");
	__CPROVER_assert(EVIS(1, EV_EXPR, &e_ctl, 0, 0), "condition evaluated at L_cond (re-evaluated every iteration)");
	__CPROVER_assert(EVIS(2, EV_JNZ, &val0, &blk[1], &blk[2]), "non-zero -> body, zero -> join");
	__CPROVER_assert(EVIS(3, EV_LABEL, &blk[1], 0, 0), "L_body");
	__CPROVER_assert(evs[4].kind == EV_BODY && g_cont[0] == &blk[0] && g_brk[0] == &blk[2], "continue -> L_cond, break -> L_join");
	__CPROVER_assert(EVIS(5, EV_JMP, &blk[0], 0, 0), "back edge to L_cond");
	__CPROVER_assert(EVIS(6, EV_LABEL, &blk[2], 0, 0), "L_join last");
#elif defined(V_DO)
	/* blk[0]=body blk[1]=cond blk[2]=join */
	__CPROVER_assert(nev == 6, "do: six back-end requests");
	__CPROVER_assert(EVIS(0, EV_LABEL, &blk[0], 0, 0), "L_body first: body runs before the first test");
	__CPROVER_assert(evs[1].kind == EV_BODY && g_cont[0] == &blk[1] && g_brk[0] == &blk[2], "continue -> L_cond, break -> L_join");
	__CPROVER_assert(EVIS(2, EV_LABEL, &blk[1], 0, 0), "L_cond");
	__CPROVER_assert(EVIS(3, EV_EXPR, &e_ctl, 0, 0), "condition evaluated after the body");
	__CPROVER_assert(EVIS(4, EV_JNZ, &val0, &blk[0], &blk[2]), "non-zero -> body again, zero -> join");
	__CPROVER_assert(EVIS(5, EV_LABEL, &blk[2], 0, 0), "L_join last");
#elif defined(V_FOR)
	/* blk[0]=cond blk[1]=body blk[2]=cont blk[3]=join */
#ifdef V_NOINC
	__CPROVER_assert(nev == 9, "for without clause-3: nine back-end requests");
	__CPROVER_assert(EVIS(6, EV_LABEL, &blk[2], 0, 0), "L_cont is placed even when clause-3 is empty (continue jumps there)");
	__CPROVER_assert(EVIS(7, EV_JMP, &blk[0], 0, 0), "back edge to L_cond");
	__CPROVER_assert(EVIS(8, EV_LABEL, &blk[3], 0, 0), "L_join last");
#else
	__CPROVER_assert(nev == 10, "for: ten back-end requests");
	__CPROVER_assert(evs[7].kind == EV_EXPR, "clause-3 evaluated after the body");
	__CPROVER_assert(EVIS(8, EV_JMP, &blk[0], 0, 0), "back edge to L_cond");
	__CPROVER_assert(EVIS(9, EV_LABEL, &blk[3], 0, 0), "L_join last");
#endif
	__CPROVER_assert(evs[0].kind == EV_EXPR, "clause-1 evaluated once, first");
	__CPROVER_assert(EVIS(1, EV_LABEL, &blk[0], 0, 0), "L_cond");
	__CPROVER_assert(evs[2].kind == EV_EXPR, "controlling expression evaluated before each iteration");
	__CPROVER_assert(EVIS(3, EV_JNZ, &val0, &blk[1], &blk[3]), "non-zero -> body, zero -> join");
	__CPROVER_assert(EVIS(4, EV_LABEL, &blk[1], 0, 0), "L_body");
	__CPROVER_assert(evs[5].kind == EV_BODY && g_cont[0] == &blk[2] && g_brk[0] == &blk[3], "continue -> L_cont (clause-3 still runs), break -> L_join");
	__CPROVER_assert(EVIS(6, EV_LABEL, &blk[2], 0, 0), "L_cont");
#elif defined(V_IF)
	/* blk[0]=true blk[1]=false blk[2]=join */
	__CPROVER_assert(EVIS(0, EV_EXPR, &e_ctl, 0, 0), "condition evaluated once, first");
	__CPROVER_assert(EVIS(1, EV_JNZ, &val0, &blk[0], &blk[1]), "non-zero -> first substatement, zero -> else/after");
	__CPROVER_assert(EVIS(2, EV_LABEL, &blk[0], 0, 0), "L_true");
	__CPROVER_assert(evs[3].kind == EV_BODY && g_brk[0] == &outer_brk && g_cont[0] == &outer_cont, "if passes the enclosing break/continue targets through");
#ifdef V_ELSE
	__CPROVER_assert(nev == 8, "if/else: eight back-end requests");
	__CPROVER_assert(EVIS(4, EV_JMP, &blk[2], 0, 0), "first substatement skips the else part");
	__CPROVER_assert(EVIS(5, EV_LABEL, &blk[1], 0, 0), "L_false");
	__CPROVER_assert(evs[6].kind == EV_BODY && g_brk[1] == &outer_brk && g_cont[1] == &outer_cont, "else part, same targets");
	__CPROVER_assert(EVIS(7, EV_LABEL, &blk[2], 0, 0), "L_join last");
#else
	__CPROVER_assert(nev == 5, "if: five back-end requests");
	__CPROVER_assert(EVIS(4, EV_LABEL, &blk[1], 0, 0), "L_false directly after the substatement");
#endif
#endif
#ifdef VERIF_CANARY
	__CPROVER_assert(nev == 0, "CANARY");
#endif
}
