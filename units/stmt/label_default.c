/* UNIT
{
 "id": "STMT.label.default",
 "file": "stmt.c", "function": "label",
 "properties": {"C15": "contract", "C10": "contract", "C19": "safety"},
 "mode": "dfcc", "enforce": "label/label_contract",
 "kind": "proof",
 "timeout": 120,
 "expects": ["postcondition"],
 "assumes": ["parser/back-end callees of label() are stand-ins defined in this unit: next/expect/attr/peek consume tokens (no effect on the claim), intconstexpr returns an arbitrary 64-bit constant (its folding is C04's business), mkblock returns a fresh block, funclabel/funcgoto no-ops, switchcase RECORDS the key it is given (its own contract is QBE.switchcase)",
             "controlling type is a promoted integer type: size 4 or 8 (exprpromote in stmt.c's TSWITCH case)"]
}
*/
#include "stmt.c"
#include "verif.h"
#include "c_arith.h"
extern int g_no_error;

/* ---- stand-ins for the callees (all extern in stmt.c) ---- */
struct token tok;
struct block { int dummy; };
static struct block blocks[2];
static unsigned nblocks;
u64 g_const;                 /* what intconstexpr returns                         */
u64 g_key; int g_ncase;      /* what switchcase received                          */
struct block *g_body;
int g_allowneg = -1;

bool attr(struct attr *a, enum attrkind k) { return false; }
bool gnuattr(struct attr *a, enum attrkind k) { return false; }
void next(void) { tok.kind = TNUMBER; }
bool peek(int k) { return false; }
char *expect(enum tokenkind k, const char *msg) { return 0; }
bool consume(int k) { return false; }
struct block *mkblock(char *name) { return &blocks[nblocks++ & 1]; }
void funclabel(struct func *f, struct block *b) { }
unsigned long long intconstexpr(struct scope *s, bool allowneg) { g_allowneg = allowneg; return g_const; }
void switchcase(struct switchcases *c, unsigned long long i, struct block *b) { g_key = i; g_body = b; g_ncase++; }

struct block *g_def0;       /* default label before the call */
int g_inswitch;

/*
 * C11 6.8.4.2p3: at most one default label per switch; 6.8.1p2: case/default only inside a switch.
 * error() paths end (diagnosed), so: NORMAL RETURN => the label was legal, and the default target is recorded.
 */
#define PRE(X) \
	X(s != 0) \
	X(tok.kind == TDEFAULT || tok.kind == TCASE) \
	X(g_inswitch == (s->switchcases != 0)) \
	X(IMP(g_inswitch, s->switchcases->type != 0 && (s->switchcases->type->size == 4 || s->switchcases->type->size == 8))) \
	X(IMP(g_inswitch, g_def0 == s->switchcases->defaultlabel)) \
	X(g_ncase == 0 && g_no_error == 0)

#define POST(X) \
	X(RET == 1) \
	/* a label outside any switch is a constraint violation: normal return implies we were inside one */ \
	X(g_inswitch) \
	/* a second default is a constraint violation */ \
	X(IMP(g_kind0 == TDEFAULT, g_def0 == 0)) \
	X(IMP(g_kind0 == TDEFAULT, s->switchcases->defaultlabel != 0 && g_ncase == 0)) \
	X(IMP(g_kind0 == TCASE, s->switchcases->defaultlabel == g_def0 && g_ncase == 1)) \
	CANARY(X, !(g_kind0 == TDEFAULT))

int g_kind0;

static bool label_contract(struct func *f, struct scope *s)
REQUIRES(PRE)
__CPROVER_assigns(tok.kind, nblocks, g_key, g_body, g_ncase, g_allowneg)
__CPROVER_assigns(g_inswitch: s->switchcases->defaultlabel)
ENSURES(POST);

void
harness(void)
{
	static struct type t;
	static struct switchcases sw;
	static struct scope sc;
	static struct block olddef;
	struct scope *s = &sc;
	struct func *f = 0;
	IN(int, in_kind);
	IN(bool, in_inswitch);
	IN(bool, in_hasdef);
	ING(u64, g_const);

	__CPROVER_assume(in_kind == TDEFAULT || in_kind == TCASE);
	t.kind = TYPEINT;
	t.prop = PROPSCALAR|PROPARITH|PROPREAL|PROPINT;
	t.size = t.align = 4;
	t.u.basic.issigned = 1;
	sw.type = &t;
	sw.defaultlabel = in_hasdef ? &olddef : 0;
	sc.switchcases = in_inswitch ? &sw : 0;
	tok.kind = in_kind;
	g_kind0 = in_kind;
	g_inswitch = in_inswitch;
	g_def0 = sw.defaultlabel;
	g_ncase = 0; g_no_error = 0;
	CALLR(bool, PRE, POST, label(f, s));
}
