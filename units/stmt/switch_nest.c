/* UNIT
{
 "id": "STMT.switch.nest",
 "file": "stmt.c", "function": "stmt",
 "properties": {"C15": "contract", "C19": "safety"},
 "mode": "harness",
 "replace_calls": {"labelstmt": "rec_labelstmt"},
 "unwind": 4,
 "kind": "proof-const-unwind",
 "timeout": 120, "replay": false,
 "assumes": ["callees of stmt() are the stand-ins of units/stmt/stmt_common.h; labelstmt is redirected to a recorder that plays the switch body: it registers one case and one default label on the case set it finds in its scope and (outer level only) parses one nested switch statement by calling the real stmt() again",
             "recursion depth 2 (one switch nested in another) -- the property 'independent of nesting inside other switches' is checked for that shape",
             "native replay impossible (labelstmt is static and redirected with --replace-calls)"]
}
*/
#include "stmt.c"
#include "verif.h"
#include "stmt_common.h"

/*
 * C15: "... independent of ... nesting inside loops or other switches".  Each switch statement owns its case set:
 * the labels met in the body of the inner switch go to the inner set, those of the outer body to the outer set, and
 * what is handed to the back end (funcswitch) for the outer statement is exactly the outer set, untouched by the
 * inner statement -- whatever order the labels and the nested statement appear in.
 */
static struct switchcases *g_set[2];       /* case set seen by the body at nesting level 0 / 1 */
static void *g_mark[2];                    /* what the body registered there                    */
static struct block g_defblk[2];
static int g_depth;
static int g_nested_before;                /* nested switch parsed before (1) or after (0) the outer labels */

static struct switchcases *g_sw_set[2];    /* funcswitch calls in order */
static void *g_sw_root[2];
static struct block *g_sw_default[2];
static struct type *g_sw_type[2];
static int g_nsw;

bool consume(int k) { return false; }

void
funcswitch(struct func *f, struct value *v, struct switchcases *c, struct block *defaultlabel)
{
	if (g_nsw < 2) {
		g_sw_set[g_nsw] = c;
		g_sw_root[g_nsw] = c->root;
		g_sw_default[g_nsw] = defaultlabel;
		g_sw_type[g_nsw] = c->type;
	}
	g_nsw++;
}

static void
register_labels(struct scope *s, int d)
{
	/* what label()/switchcase() do for `case K:` and `default:` (their own units: STMT.label.*, QBE.switchcase) */
	s->switchcases->root = &g_mark[d];
	s->switchcases->defaultlabel = &g_defblk[d];
}

void
rec_labelstmt(struct func *f, struct scope *s)
{
	int d = g_depth;

	if (d > 1)
		return;
	g_set[d] = s->switchcases;
	if (d == 0) {
		if (!g_nested_before)
			register_labels(s, 0);
		g_depth = 1;
		tok.kind = TSWITCH;
		stmt(f, s);                    /* the nested switch statement, parsed by the real code */
		g_depth = 0;
		if (g_nested_before)
			register_labels(s, 0);
	} else {
		register_labels(s, 1);
	}
}

void
harness(void)
{
	static struct scope outer;
	struct scope *s = &outer;
	struct func *f = 0;
	IN(bool, in_nested_before);

	stmt_common_init();
	g_nested_before = in_nested_before;
	g_depth = 0; g_nsw = 0;
	outer.parent = 0; outer.switchcases = 0;
	tok.kind = TSWITCH;
	stmt(f, s);
	__CPROVER_assert(g_nsw == 2, "two switch statements handed to the back end");
	__CPROVER_assert(g_set[0] != 0 && g_set[1] != 0 && g_set[0] != g_set[1], "the nested switch has a case set of its own");
	/* inner statement is finished (and lowered) first */
	__CPROVER_assert(g_sw_set[0] == g_set[1] && g_sw_root[0] == &g_mark[1] && g_sw_default[0] == &g_defblk[1],
	                 "inner switch dispatches over exactly the labels of its own body");
	__CPROVER_assert(g_sw_set[1] == g_set[0] && g_sw_root[1] == &g_mark[0] && g_sw_default[1] == &g_defblk[0],
	                 "outer switch dispatches over exactly the labels of its own body, untouched by the nested switch");
	__CPROVER_assert(g_sw_type[0] == &t_int && g_sw_type[1] == &t_int, "controlling type recorded per statement");
	__CPROVER_assert(outer.switchcases == 0, "enclosing scope is not given a case set");
#ifdef VERIF_CANARY
	__CPROVER_assert(!in_nested_before, "CANARY");
#endif
}
