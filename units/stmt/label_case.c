/* UNIT
{
 "id": "STMT.label.case",
 "file": "stmt.c", "function": "label",
 "properties": {"C15": "contract", "C10": "contract", "C19": "safety"},
 "mode": "dfcc", "enforce": "label/label_contract",
 "kind": "proof",
 "timeout": 120,
 "expects": ["postcondition"],
 "assumes": ["parser/back-end callees of label() are stand-ins defined in this unit: next/expect/attr/peek consume tokens (no effect on the claim), intconstexpr returns an arbitrary 64-bit constant (its folding is C04's business), mkblock returns a fresh block, funclabel/funcgoto no-ops, switchcase RECORDS the key it is given (its own contract is QBE.switchcase)",
             "controlling type is a promoted integer type: size 4 or 8 (exprpromote in stmt.c's TSWITCH case)"]
}
*/
#include "stmt.c"
#include "verif.h"
#include "c_arith.h"

/* ---- stand-ins for the callees (all extern in stmt.c) ---- */
struct token tok;
struct block { int dummy; };
static struct block blocks[2];
static unsigned nblocks;
u64 g_const;                 /* what intconstexpr returns                         */
u64 g_key; int g_ncase;      /* what switchcase received                          */
struct block *g_body;
int g_allowneg = -1;

bool attr(struct attr *a, enum attrkind k) { return false; }
bool gnuattr(struct attr *a, enum attrkind k) { return false; }
void next(void) { tok.kind = TNUMBER; }
bool peek(int k) { return false; }
char *expect(enum tokenkind k, const char *msg) { return 0; }
bool consume(int k) { return false; }
struct block *mkblock(char *name) { return &blocks[nblocks++ & 1]; }
void funclabel(struct func *f, struct block *b) { }
unsigned long long intconstexpr(struct scope *s, bool allowneg) { g_allowneg = allowneg; return g_const; }
void switchcase(struct switchcases *c, unsigned long long i, struct block *b) { g_key = i; g_body = b; g_ncase++; }

unsigned g_sz; bool g_sg;

/*
 * C11 6.8.4.2p5: "The constant expression in each case label is converted to the promoted type of the controlling
 * expression."  The case index (tree.c, keyed by 64-bit carriers; searched by casesearch with 32- or 64-bit
 * compares) therefore has to receive the CONVERTED value: two labels that are equal after conversion must collide
 * (duplicate ⇒ diagnostic, C11 6.8.4.2p3) and the binary search must order keys the way the emitted compares do.
 */
#define PRE(X) \
	X(s != 0 && s->switchcases != 0 && s->switchcases->type != 0) \
	X(tok.kind == TCASE) \
	X((s->switchcases->type->prop & PROPINT) && (g_sz == 4 || g_sz == 8)) \
	X(g_sz == s->switchcases->type->size && g_sg == s->switchcases->type->u.basic.issigned) \
	X(g_ncase == 0)

#define POST(X) \
	X(RET == 1) \
	X(g_ncase == 1) \
	X(g_key == spec_wrap(g_const, g_sz, g_sg)) \
	X(g_body != 0) \
	/* negative case constants are legal */ \
	X(g_allowneg == 1) \
	CANARY(X, !(g_const == 0x100000001ull && g_sz == 4))

static bool label_contract(struct func *f, struct scope *s)
REQUIRES(PRE)
__CPROVER_assigns(tok.kind, nblocks, g_key, g_body, g_ncase, g_allowneg)
ENSURES(POST);

void
harness(void)
{
	static struct type t;
	static struct switchcases sw;
	static struct scope sc;
	struct scope *s = &sc;
	struct func *f = 0;
	IN(unsigned, in_sz);
	IN(bool, in_sg);
	ING(u64, g_const);

	__CPROVER_assume(in_sz == 4 || in_sz == 8);
	t.kind = in_sz == 4 ? TYPEINT : TYPELONG;
	t.prop = PROPSCALAR|PROPARITH|PROPREAL|PROPINT;
	t.size = t.align = in_sz;
	t.u.basic.issigned = in_sg;
	sw.type = &t;
	sc.switchcases = &sw;
	tok.kind = TCASE;
	g_sz = in_sz; g_sg = in_sg;
	g_ncase = 0;
	CALLR(bool, PRE, POST, label(f, s));
}
