/*
 * Stand-ins for the parser/back-end callees of stmt.c:stmt(), shared by the STMT.* structure units.
 * They keep just enough ghost bookkeeping to state C11's block-structure rules:
 *   - mkscope/delscope: a pool of scope objects with parent links, switchcases/break/continue inherited exactly as the
 *     real scope.c:mkscope does (that function has its own unit, SCOPE.*);
 *   - labelstmt (static in stmt.c) is redirected to rec_labelstmt, which RECORDS the scope each substatement is
 *     parsed in and can run a nested statement;
 *   - funcswitch records the case set handed to the back end.
 */
struct token tok;
struct block { int id; };
struct value { int id; };
static struct block blk[16];
static unsigned nblk;
static struct value val0;
static struct type t_int;
static struct expr e_ctl;

#define NSC 8
static struct scope scpool[NSC];
static unsigned nsc;

bool attr(struct attr *a, enum attrkind k) { return false; }
bool gnuattr(struct attr *a, enum attrkind k) { return false; }
void next(void) { }
bool peek(int k) { return false; }
/* token script: after the exp_switch_at-th expect() the current token becomes exp_switch_to (lets a unit say "the
   third clause of the for statement is empty") */
static int exp_n, exp_switch_at; static enum tokenkind exp_switch_to;
char *expect(enum tokenkind k, const char *msg) { if (++exp_n == exp_switch_at) tok.kind = exp_switch_to; return 0; }
struct block *mkblock(char *name) { struct block *b = &blk[nblk++ % 16]; return b; }

/* event log of what stmt() tells the back end, in order: the control-flow skeleton of the statement */
enum { EV_LABEL = 1, EV_JMP, EV_JNZ, EV_EXPR, EV_BODY, EV_RET };
struct ev { int kind; void *a, *b, *c; };
#define NEV 24
static struct ev evs[NEV];
static unsigned nev;
static void ev(int kind, void *a, void *b, void *c) { if (nev < NEV) { evs[nev].kind = kind; evs[nev].a = a; evs[nev].b = b; evs[nev].c = c; } nev++; }
#define EVIS(i, k, x, y, z) (evs[i].kind == (k) && evs[i].a == (void *)(x) && evs[i].b == (void *)(y) && evs[i].c == (void *)(z))

void funclabel(struct func *f, struct block *b) { ev(EV_LABEL, b, 0, 0); }
void funcjmp(struct func *f, struct block *b) { ev(EV_JMP, b, 0, 0); }
void funcjnz(struct func *f, struct value *v, struct type *t, struct block *b1, struct block *b2) { ev(EV_JNZ, v, b1, b2); }
struct value *funcexpr(struct func *f, struct expr *e) { ev(EV_EXPR, e, 0, 0); return &val0; }
void delexpr(struct expr *e) { }
struct expr *exprpromote(struct expr *e) { return e; }
struct expr *expr(struct scope *s) { return &e_ctl; }

struct scope *
mkscope(struct scope *parent)
{
	struct scope *s = &scpool[nsc++ % NSC];

	s->decls.len = 0;
	s->tags.len = 0;
	s->breaklabel = parent->breaklabel;
	s->continuelabel = parent->continuelabel;
	s->switchcases = parent->switchcases;
	s->parent = parent;
	return s;
}

struct scope *delscope(struct scope *s) { return s->parent; }

static void
stmt_common_init(void)
{
	nblk = 0; nsc = 0; nev = 0; exp_n = 0; exp_switch_at = -1;
	t_int.kind = TYPEINT;
	t_int.prop = PROPSCALAR|PROPARITH|PROPREAL|PROPINT;
	t_int.size = t_int.align = 4;
	t_int.u.basic.issigned = 1;
	e_ctl.kind = EXPRIDENT;
	e_ctl.type = &t_int;
}
