/* UNIT
{
 "id": "STMT.jumps",
 "file": "stmt.c", "function": "stmt",
 "properties": {"C01": "contract", "C10": "contract", "C15": "contract", "C19": "safety"},
 "mode": "harness",
 "replace_calls": {"labelstmt": "rec_labelstmt"},
 "variants": {"break": ["-DV_KIND=TBREAK", "-DV_BREAK"], "continue": ["-DV_KIND=TCONTINUE", "-DV_CONTINUE"],
              "switch": ["-DV_KIND=TSWITCH", "-DV_SWITCH"], "return": ["-DV_KIND=TRETURN", "-DV_RETURN"]},
 "kind": "proof",
 "timeout": 120, "replay": false,
 "assumes": ["callees of stmt() are the stand-ins of units/stmt/stmt_common.h (event log of back-end requests); exprassign/functype/funcret are recorders",
             "native replay impossible (labelstmt is static and redirected with --replace-calls)"]
}
*/
#include "stmt.c"
#include "verif.h"
#include "stmt_common.h"

/*
 * C11 6.8.6.2/6.8.6.3: continue/break jump to the innermost enclosing loop's (loop's or switch's) continuation/end and
 * are constraint violations elsewhere (diagnosed => path ends, so NORMAL RETURN implies a target existed).
 * C11 6.8.4.2: switch: controlling expression evaluated once, then dispatch (after the body has been laid out) to the
 * recorded cases, to `default` if present, else past the statement; `break` in the body leaves the switch, `continue`
 * still refers to the enclosing loop.
 * C11 6.8.6.4: return e; converts e to the function's return type as if by assignment; return; in a void function.
 */
static struct block in_brk, in_cont;
static struct block *g_brk0, *g_cont0;
static struct switchcases *g_cases; static struct type *g_cases_type; static void *g_cases_root0;
static struct block *g_swdefault; static struct switchcases *g_swset; static struct value *g_swval; static int g_nsw;
static struct block g_def; static bool g_hasdefault;
static struct type t_fn, t_ret; static struct expr e_conv; static struct type *g_conv_to; static struct expr *g_conv_from;
static struct value *g_retval; static int g_nret; static bool g_voidfn;
extern int g_no_error;

bool consume(int k) { return false; }
struct type *functype(struct func *f) { return &t_fn; }
struct expr *exprassign(struct expr *e, struct type *t) { g_conv_from = e; g_conv_to = t; return &e_conv; }
void funcret(struct func *f, struct value *v) { g_retval = v; g_nret++; ev(EV_RET, v, 0, 0); }
void funcswitch(struct func *f, struct value *v, struct switchcases *c, struct block *d) { g_swval = v; g_swset = c; g_swdefault = d; g_nsw++; }
struct type typevoid;

void
rec_labelstmt(struct func *f, struct scope *s)
{
	g_brk0 = s->breaklabel;
	g_cont0 = s->continuelabel;
	g_cases = s->switchcases;
	if (g_cases) { g_cases_type = g_cases->type; g_cases_root0 = g_cases->root; }
	if (g_hasdefault)
		s->switchcases->defaultlabel = &g_def;   /* what label() does for `default:` (STMT.label.default) */
	ev(EV_BODY, s, 0, 0);
}

void
harness(void)
{
	static struct scope outer;
	struct scope *s = &outer;
	struct func *f = 0;
	IN(bool, in_hasbrk); IN(bool, in_hascont); IN(bool, in_hasdefault); IN(bool, in_voidfn);

	stmt_common_init();
	outer.parent = 0;
	outer.breaklabel = in_hasbrk ? &in_brk : 0;
	outer.continuelabel = in_hascont ? &in_cont : 0;
	outer.switchcases = 0;
	g_hasdefault = in_hasdefault; g_nsw = 0; g_nret = 0; g_no_error = 0;
	t_fn.kind = TYPEFUNC; t_fn.base = in_voidfn ? &typevoid : &t_ret;
	tok.kind = V_KIND;
	stmt(f, s);

#if defined(V_BREAK)
	__CPROVER_assert(in_hasbrk, "break outside loop/switch is diagnosed (normal return => a target exists)");
	__CPROVER_assert(nev == 1 && EVIS(0, EV_JMP, &in_brk, 0, 0), "break jumps to the innermost enclosing break target");
#elif defined(V_CONTINUE)
	__CPROVER_assert(in_hascont, "continue outside loop is diagnosed (normal return => a target exists)");
	__CPROVER_assert(nev == 1 && EVIS(0, EV_JMP, &in_cont, 0, 0), "continue jumps to the innermost enclosing continue target");
#elif defined(V_SWITCH)
	/* blk[0]=cond blk[1]=join */
	__CPROVER_assert(EVIS(0, EV_EXPR, &e_ctl, 0, 0), "controlling expression evaluated once, before anything else");
	__CPROVER_assert(EVIS(1, EV_JMP, &blk[0], 0, 0), "jump over the body to the dispatch code");
	__CPROVER_assert(evs[2].kind == EV_BODY && g_brk0 == &blk[1], "break in the body leaves the switch");
	__CPROVER_assert(g_cont0 == (in_hascont ? &in_cont : 0), "continue still refers to the enclosing loop");
	__CPROVER_assert(g_cases != 0 && g_cases_type == &t_int && g_cases_root0 == 0, "body sees this switch's (initially empty) case set with the promoted controlling type");
	__CPROVER_assert(EVIS(3, EV_JMP, &blk[1], 0, 0), "falling off the end of the body leaves the switch");
	__CPROVER_assert(EVIS(4, EV_LABEL, &blk[0], 0, 0), "dispatch code");
	__CPROVER_assert(g_nsw == 1 && g_swset == g_cases && g_swval == &val0, "dispatch on the evaluated value over this switch's case set");
	__CPROVER_assert(g_swdefault == (in_hasdefault ? &g_def : &blk[1]), "no matching case: default if present, else past the statement");
	__CPROVER_assert(nev == 6 && EVIS(5, EV_LABEL, &blk[1], 0, 0), "join label last");
	__CPROVER_assert(outer.switchcases == 0 && outer.breaklabel == (in_hasbrk ? &in_brk : 0), "enclosing scope untouched");
#elif defined(V_RETURN)
	__CPROVER_assert(g_nret == 1, "exactly one return requested");
	if (in_voidfn)
		__CPROVER_assert(g_retval == 0 && nev == 1, "return; in a void function returns no value and evaluates nothing");
	else
		__CPROVER_assert(g_conv_to == &t_ret && g_conv_from == &e_ctl && EVIS(0, EV_EXPR, &e_conv, 0, 0) && g_retval == &val0,
		                 "return e; e converted to the return type as if by assignment, evaluated, and returned");
#endif
#ifdef VERIF_CANARY
	__CPROVER_assert(nev == 0, "CANARY");
#endif
}
