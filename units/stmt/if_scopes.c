/* UNIT
{
 "id": "STMT.if.scopes",
 "file": "stmt.c", "function": "stmt",
 "properties": {"C16": "contract", "C19": "safety"},
 "mode": "harness",
 "replace_calls": {"labelstmt": "rec_labelstmt"},
 "kind": "proof",
 "timeout": 120, "replay": false,
 "assumes": ["callees of stmt() are the stand-ins of units/stmt/stmt_common.h (mkscope/delscope mirror scope.c); labelstmt is redirected to a recorder, so the substatements themselves are not parsed",
             "native replay impossible (labelstmt is static and redirected with --replace-calls)"]
}
*/
#include "stmt.c"
#include "verif.h"
#include "stmt_common.h"

/*
 * C11 6.8.4p3: "A selection statement is a block whose scope is a strict subset of the scope of its enclosing block.
 * Each associated substatement is also a block whose scope is a strict subset of the scope of the selection
 * statement."  So for  if (e) S1 else S2 :  S1 and S2 are parsed in two DIFFERENT fresh scopes, each a child of the
 * if statement's own scope, which is a child of the enclosing scope; nothing declared in S1 is visible in S2.
 */
static struct scope *g_seen[3];
static int g_nsub;
int g_haselse;

bool consume(int k) { return k == TELSE && g_haselse; }

void
rec_labelstmt(struct func *f, struct scope *s)
{
	if (g_nsub < 3)
		g_seen[g_nsub] = s;
	g_nsub++;
}

void
harness(void)
{
	static struct scope outer;
	struct scope *s = &outer;
	struct func *f = 0;
	IN(bool, in_haselse);

	stmt_common_init();
	g_haselse = in_haselse;
	g_nsub = 0;
	outer.parent = 0;
	tok.kind = TIF;
	stmt(f, s);
	__CPROVER_assert(g_nsub == (in_haselse ? 2 : 1), "one substatement, two with else");
	__CPROVER_assert(g_seen[0] != s && g_seen[0]->parent != s && g_seen[0]->parent != 0 && g_seen[0]->parent->parent == s,
	                 "then-substatement is parsed in a fresh scope nested in the if statement's own scope");
	if (in_haselse) {
		__CPROVER_assert(g_seen[1] != g_seen[0], "else-substatement does not share the then-substatement's scope");
		__CPROVER_assert(g_seen[1]->parent == g_seen[0]->parent && g_seen[1] != g_seen[1]->parent,
		                 "else-substatement is parsed in its own fresh scope nested in the if statement's scope");
	}
#ifdef VERIF_CANARY
	__CPROVER_assert(!in_haselse, "CANARY");
#endif
}
