/*
 * lit_common.h -- shared by SCAN.stringlit.* / SCAN.charconst.* / SCAN.escape.*: the REAL stringlit()/charconst() with
 * the REAL escape() and bufadd() over the logical ghost stream of ../scan/scan_common.h (nextchar by its stand-in
 * nextchar_abs, which SCAN.nextchar + SCAN.nextchar.abs prove the real one refines).
 *
 * The including unit defines
 *   LIT_FN      stringlit | charconst          LIT_Q     '"' | '\''          LIT_KIND  TSTRINGLIT | TCHARCONST
 *   LIT_SELECT  which inputs (expression over g_lit)          LIT_CANARY  a reachable input
 *
 * Spelling buffer: an allocated buffer of LIT_CAP bytes (the real initial capacity is 256; bufadd() does not depend on
 * the value, only on len < cap, and a 256-byte object costs a 256-way case split per stored character) that is larger
 * than prefix + window, so that bufadd()'s growth branch is unreachable (asserted); growth itself is SCAN.bufadd's.
 *
 * Entry state = what scankind() hands over (SCAN.ident proves it): the scanner stands on the opening quote; an encoding
 * prefix of g_P = 0..2 characters has been collected into the spelling buffer (usebuf set iff there is one).
 *
 * error() is routed to rec_error(), which checks the C11 clause (the diagnostic names the file and a line of the
 * offending construct) and then does not return; "noreturn_macros": false in the unit headers for that reason.
 */
#ifndef GS_LMAX
#define GS_LMAX 6
#endif
#ifndef GS_KMAX
#define GS_KMAX 1
#endif
#ifndef LIT_CAP
#define LIT_CAP 16
#endif
#define GS_SPL 4
#define GS_NO_TABLES
#define GS_ABS_ONLY
#define GS_SMALL_TOKENS

#include <stddef.h>
struct location;
void rec_error(const struct location *loc);
void verif_noreturn(void);
#define error(loc, ...) rec_error(loc)
#define fatal(...) verif_noreturn()

#include "../scan/scan_common.h"
#include "lex_lit.h"
#undef RET
#define RET HRET

extern int g_no_error;

struct lex_lit g_lit;      /* what C11 says about the input */
size_t g_P;                /* length of the encoding prefix already collected */
size_t g_j;                /* ghost: an arbitrary index into the token */
bool g_saw0;
const char *g_file0;
unsigned g_err_calls;

#define E ((size_t)g_lit.end)

void
rec_error(const struct location *loc)
{
	++g_err_calls;
	__CPROVER_assert(loc->file == g_file0, "C11: the diagnostic names the file being scanned");
	/* C11: ... and a line of the offending construct: one of the physical lines from the opening quote to the
	   character that shows that no literal starts here.  (The new-line case is SCAN.stringlit.nlloc's.) */
	__CPROVER_assert(IMP(g_lit.bad && !g_lit.bad_nl,
	                     loc->line >= g_pline(0) && loc->line <= g_pline(GS_IDX((size_t)g_lit.badidx))),
	                 "C11: the diagnostic names a line of the offending literal");
#ifdef LIT_NLLOC
	__CPROVER_assert(IMP(g_lit.bad && g_lit.bad_nl,
	                     loc->line >= g_pline(0) && loc->line <= g_pline(GS_IDX((size_t)g_lit.badidx))),
	                 "C11: new-line inside a literal: the diagnostic names a line of the unterminated literal");
#endif
	verif_noreturn();
}

#define PRE(X) \
	X(s != 0 && s->file == ghost_file()) \
	X(g_in_n <= G_IN_MAX && g_m <= GS_LMAX && gs_canonical()) \
	X(g_P <= 2 && s->usebuf == (g_P > 0) && s->buf.len == g_P && BUF_OK(&s->buf) && s->buf.cap >= LIT_CAP) \
	X(AT(s, 0) && g_li == 0 && g_L[0] == LIT_Q && SYNC_ABS(s)) \
	X(g_saw0 == s->sawspace && g_file0 == s->loc.file && g_j < GS_LMAX && g_err_calls == 0) \
	X(LIT_SELECT)

#define POST(X) \
	/* 6.4.4.4 / 6.4.5: a literal is returned only if one starts here (closing quote before any new-line / end of \
	   file, every backslash starts an escape sequence, no NUL byte) */ \
	X(!g_lit.bad && E >= 1) \
	X(RET == LIT_KIND) \
	/* the token ends with the FIRST matching quote that is not part of an escape sequence; the character after it \
	   is the scanner's look-ahead and nothing beyond it has been read (6.4p4) */ \
	X(g_li == E + 1 && s->chr == g_L[E + 1] && g_in_pos == GS_POS_AFTER(E + 1)) \
	/* token text: prefix, opening quote, every character verbatim (a backslash and the character after it stay two \
	   characters), closing quote */ \
	X(s->usebuf && s->buf.len == g_P + E + 1) \
	X(IMP(g_P >= 1, s->buf.str[0] == (g_P == 2 ? 'u' : 'L'))) \
	X(IMP(g_P == 2, s->buf.str[1] == '8')) \
	X(IMP(g_j <= E, s->buf.str[g_P + g_j] == (unsigned char)g_L[g_j])) \
	X(s->buf.str[g_P + E] == LIT_Q) \
	/* C11: the scanner location stays that of its current character (lines of splices inside the literal counted) */ \
	X(SYNC_ABS(s)) \
	/* frame */ \
	X(s->sawspace == g_saw0 && BUF_OK(&s->buf)) \
	X(s->file == ghost_file() && s->next == 0 && s->loc.file == g_file0) \
	CANARY(X, !(LIT_CANARY))

static struct scanner *
lit_setup(u64 c0, u64 c1, size_t m, u64 splices, size_t line, size_t col, bool saw, size_t pfx)
{
	struct scanner *s;
	size_t i;

	g_L[0] = (unsigned char)(c0 >> 0); g_L[1] = (unsigned char)(c0 >> 8); g_L[2] = (unsigned char)(c0 >> 16);
	g_L[3] = (unsigned char)(c0 >> 24); g_L[4] = (unsigned char)(c0 >> 32); g_L[5] = (unsigned char)(c0 >> 40);
	g_L[6] = (unsigned char)(c0 >> 48); g_L[7] = (unsigned char)(c0 >> 56);
	g_L[8] = (unsigned char)(c1 >> 0); g_L[9] = (unsigned char)(c1 >> 8);
#if GS_LMAX > 10
	g_L[10] = (unsigned char)(c1 >> 16); g_L[11] = (unsigned char)(c1 >> 24);
	g_L[12] = (unsigned char)(c1 >> 32); g_L[13] = (unsigned char)(c1 >> 40);
#endif
	for (i = 0; i <= GS_LMAX; i++)
		g_k[i] = (splices >> i) & 1;
	g_line0 = 1; g_col0 = 0;
	gs_build(m);
	g_pl0 = line; g_pc0 = col;
	gs_abs_tables();
	s = gs_scanner_at0(saw, false, false, g_pl0, g_pc0);
	s->buf.cap = LIT_CAP;
	s->buf.str = malloc(LIT_CAP);
	__CPROVER_assume(s->buf.str != 0);
	g_P = pfx;
	if (pfx >= 1) {
		s->usebuf = true;
		s->buf.str[0] = pfx == 2 ? 'u' : 'L';
		if (pfx == 2)
			s->buf.str[1] = '8';
		s->buf.len = pfx;
	}
	g_saw0 = s->sawspace; g_file0 = s->loc.file;
	g_err_calls = 0;
	g_lit = lex_lit_scan(g_L, LIT_Q);
	return s;
}
