/*
 * token_common.h -- shared by the TOKEN.* units: the REAL token.c (tokencheck, tokendesc, tokenprint and error() itself,
 * "noreturn_macros": false) over the output model out_model.h.
 */
#include <assert.h>
#include <ctype.h>
#include <stdarg.h>
#include <stdbool.h>
#include <stdio.h>
#include <stdlib.h>
#define OUT_X_ARG(ap) va_arg(ap, unsigned char)
#define OUT_CAP 200
#include "out_model.h"
void verif_noreturn(void);
#define fatal(...) verif_noreturn()
#include "token.c"
#include "verif.h"

extern int g_no_error;

#ifndef LITCAP
#define LITCAP 70
#endif
static char g_litbuf[LITCAP + 1];

/* a token spelling of n characters (n <= LITCAP): the first 4 from one scalar (no NUL among them), the rest 'y' */
static char *
mk_spelling(u64 chars, size_t n)
{
	size_t i;

	for (i = 0; i < LITCAP; i++) {
		char c = i < 4 ? (char)(chars >> (8 * i)) : 'y';

		__CPROVER_assume(i >= n || c != 0);
		g_litbuf[i] = i < n ? c : 0;
	}
	g_litbuf[LITCAP] = 0;
	return g_litbuf;
}

/* does text[at..] start with s? (constant-bound loop) */
static bool
starts_with(const char *text, size_t at, const char *s)
{
	size_t i;

	for (i = 0; i < 40 && s[i]; i++)
		if (at + i >= OUT_CAP || text[at + i] != s[i])
			return false;
	return true;
}

static bool spelled(int k) { return k == TIDENT || k == TNUMBER || k == TCHARCONST || k == TSTRINGLIT || k == TOTHER; }
